/-
  C01, block phase: the block-parser model never produces an error other than `.fuel`, and the
  fuels are sufficient (inner loops: the fuels the readers pass; outer gas: an explicit bound).
-/
import Mistletoe.Proofs.Block
namespace Mistletoe.Block
open Mistletoe Mistletoe.Py Mistletoe.Scan

/-! ## Part 1: no raise -/

theorem nlEnd_getLast (s : Str) (h : NlEnd s) : s.getLast? = some '\n' := by
  obtain ⟨body, rfl, _⟩ := h; simp

theorem pyIsSpace_sp : pyIsSpace ' ' = true := by decide
theorem pyIsSpace_gt : pyIsSpace '>' = false := by decide

theorem nlEnd_lstrip (s : Str) (h : NlEnd s) (hne : lstrip s ≠ []) : NlEnd (lstrip s) :=
  nlEnd_suffix _ _ h (lstrip_suffix s) hne

/-- HtmlBlock.start: `stripped[2]` exists on a complete line that starts with "<!" -/
theorem htmlBlockStart_noerr (s : Str) (h : NlEnd s) (e : Err) : htmlBlockStart s ≠ .err e := by
  intro he
  unfold htmlBlockStart at he
  simp only at he
  split at he
  · cases he
  · split at he
    · cases he
    · split at he
      · cases he
      · split at he
        · cases he
        · split at he
          · rename_i hsw
            split at he
            · rename_i h2
              have hne : lstrip s ≠ [] := by
                intro e0; rw [e0] at hsw; simp [startsWith] at hsw
              have hn := nlEnd_getLast _ (nlEnd_lstrip s h hne)
              generalize lstrip s = t at hsw h2 hn
              match t, hsw, h2, hn with
              | [], hsw, _, _ => simp [startsWith] at hsw
              | [_], hsw, _, _ => simp [startsWith] at hsw
              | [a, b], hsw, _, hn =>
                simp [startsWith] at hsw
                simp at hn
                rw [hn] at hsw; exact absurd hsw.2 (by decide)
              | _ :: _ :: _ :: _, _, h2, _ => simp at h2
            · split at he
              · cases he
              · split at he <;> cases he
          · cases he

theorem replaceTab_ne_nil (s : Str) (h : s ≠ []) : replaceFirst ['>', '\t'] [' ', ' ', ' '] s ≠ [] := by
  cases s with
  | nil => exact absurd rfl h
  | cons c rest =>
    simp only [replaceFirst]
    split <;> simp

/-- Quote.convert_leading_tabs: the loop variable is bound on every non-empty string -/
theorem convertLeadingTabs_ok (s : Str) (h : s ≠ []) : ∃ t, convertLeadingTabs s = .ok t := by
  unfold convertLeadingTabs
  simp only
  have := replaceTab_ne_nil s h
  split
  · rename_i he; simp at he; exact absurd he this
  · split
    · exact ⟨_, rfl⟩
    · exact ⟨_, rfl⟩

theorem clt_go_ge : ∀ (t : Str) (j c : Nat), j - 1 ≤ (convertLeadingTabs.go t j c).1
  | [], _, _ => by simp [convertLeadingTabs.go]
  | y :: rest, j, c => by
    simp only [convertLeadingTabs.go]
    split
    · have := clt_go_ge rest (j + 1) (c + 4); omega
    · split
      · have := clt_go_ge rest (j + 1) (c + 1); omega
      · simp

/-- a string that starts with '>' still does after convert_leading_tabs -/
theorem convertLeadingTabs_head (r t : Str) (h : convertLeadingTabs ('>' :: r) = .ok t) : ∃ r', t = '>' :: r' := by
  unfold convertLeadingTabs at h
  simp only at h
  split at h
  · cases h
  · split at h
    · rename_i hi
      cases h
      -- i = 0: the string was not rewritten at its head
      match r, hi with
      | [], _ => exact ⟨[], by simp [replaceFirst]⟩
      | d :: r2, hi =>
        by_cases hd : d = '\t'
        · subst hd
          exfalso
          have e : replaceFirst ['>', '\t'] [' ', ' ', ' '] ('>' :: '\t' :: r2) = ' ' :: ' ' :: ' ' :: r2 := by
            simp [replaceFirst]
          rw [e] at hi
          simp only [convertLeadingTabs.go] at hi
          have := clt_go_ge r2 3 3
          simp at hi
          omega
        · refine ⟨replaceFirst ['>', '\t'] [' ', ' ', ' '] (d :: r2), ?_⟩
          have hd' : ¬ '\t' = d := fun e => hd e.symm
          simp [replaceFirst, hd']
    · cases h; exact ⟨_, rfl⟩

theorem lstrip_of_lstripSp : ∀ (s : Str), startsWith ['>'] (lstripSp s) = true → ∃ r, lstrip s = '>' :: r
  | [], h => by simp [lstripSp, startsWith] at h
  | c :: rest, h => by
    by_cases hc : c = ' '
    · subst hc
      simp only [lstripSp] at h
      simp only [lstrip, pyIsSpace_sp, if_true]
      exact lstrip_of_lstripSp rest h
    · have : lstripSp (c :: rest) = c :: rest := by
        unfold lstripSp
        split
        · rename_i heq; cases heq; exact absurd rfl hc
        · rfl
      rw [this] at h
      simp [startsWith] at h
      subst h
      exact ⟨rest, by simp [lstrip, pyIsSpace_gt]⟩

theorem quoteStart_lstrip (s : Str) (h : quoteStart s = true) : ∃ r, lstrip s = '>' :: r := by
  unfold quoteStart at h
  simp only at h
  split at h
  · cases h
  · exact lstrip_of_lstripSp s h

/-! ### check_interrupts_paragraph never raises on a complete line -/

theorem interruptsOne_noerr (cfg : Cfg) (fw : FW) (l : Line) (t : BTok) (e : Err)
    (hp : fw.peek = some l) (hl : NlEnd l.s) : interruptsOne cfg fw t ≠ .err e := by
  intro h
  unfold interruptsOne at h
  rw [hp] at h
  simp only at h
  cases t <;> simp only at h <;> try (cases h)
  split at h
  · rename_i e' he; exact htmlBlockStart_noerr _ hl _ he
  · cases h
  · cases h

theorem anyInterrupt_noerr (cfg : Cfg) (fw : FW) (l : Line) (skip : BTok) (sk : Bool) (e : Err)
    (hp : fw.peek = some l) (hl : NlEnd l.s) : ∀ (ts : List BTok), anyInterrupt cfg fw skip sk ts ≠ .err e
  | [] => by simp [anyInterrupt]
  | t :: ts => by
    simp only [anyInterrupt]
    split
    · exact anyInterrupt_noerr cfg fw l skip sk e hp hl ts
    · split
      · rename_i e' he; exact absurd he (interruptsOne_noerr cfg fw l t e' hp hl)
      · simp
      · exact anyInterrupt_noerr cfg fw l skip sk e hp hl ts

/-! ### the inner loops: no raise, and the fuel the readers pass is sufficient -/

theorem peek_lt (fw : FW) (l : Line) (hp : fw.peek = some l) : fw.pos < fw.lines.length := by
  unfold FW.peek at hp
  exact (List.getElem?_eq_some_iff.mp hp).1

theorem remaining_next (fw : FW) (l : Line) (hp : fw.peek = some l) : fw.next.remaining + 1 = fw.remaining := by
  have := peek_lt fw l hp
  simp only [FW.remaining, FW.next]; omega

/-- the `while` loop of Quote.read -/
theorem quoteLoop_noerr (cfg : Cfg) : ∀ (fuel : Nat) (fw : FW) (buf : List Line) (fl : QFlags) (e : Err),
    AllNlEnd fw.lines → fw.remaining < fuel → quoteLoop cfg fuel fw buf fl ≠ .err e
  | 0, _, _, _, _, _, hf => by omega
  | fuel + 1, fw, buf, fl, e, hl, hf => by
    intro h
    simp only [quoteLoop] at h
    split at h
    · cases h
    · rename_i l hp
      have hln := hl l (peek_mem fw l hp)
      have hrem := remaining_next fw l hp
      split at h
      · cases h
      · rename_i hblank
        split at h
        · rename_i e' he; exact anyInterrupt_noerr cfg fw l _ _ e' hp hln _ he
        · cases h
        · have hne : lstrip l.s ≠ [] := lstrip_ne_nil _ (by simpa using hblank)
          split at h
          · rename_i e' he
            obtain ⟨t, ht⟩ := convertLeadingTabs_ok _ hne
            rw [ht] at he; cases he
          · rename_i stripped hcv
            have hst : NlEnd stripped := convertLeadingTabs_nlEnd _ _ (nlEnd_lstrip _ hln hne) hcv
            split at h
            · exact nlEnd_ne_nil _ hst rfl
            · rename_i c0 tl
              split at h
              · split at h
                · rename_i hc0 _ h1
                  cases tl with
                  | nil =>
                    have := nlEnd_getLast _ hst
                    simp at this
                    rw [this] at hc0; exact absurd hc0 (by decide)
                  | cons d t2 => simp at h1
                · exact quoteLoop_noerr cfg fuel fw.next _ _ e hl (by omega) h
              · split at h
                · cases h
                · exact quoteLoop_noerr cfg fuel fw.next _ _ e hl (by omega) h

/-- Quote.read up to the nested call, entered as `tokenize_block` enters it -/
theorem quoteLines_noerr (cfg : Cfg) (fw : FW) (l0 : Line) (e : Err) (hl : AllNlEnd fw.lines)
    (hp : fw.peek = some l0) (hq : quoteStart l0.s = true) : quoteLines cfg fw l0 ≠ .err e := by
  intro h
  obtain ⟨r, hr⟩ := quoteStart_lstrip _ hq
  have hrem := remaining_next fw l0 hp
  unfold quoteLines at h
  split at h
  · rename_i e' he
    obtain ⟨t, ht⟩ := convertLeadingTabs_ok (lstrip l0.s) (by rw [hr]; simp)
    rw [ht] at he; cases he
  · rename_i t hcv
    split at h
    · rename_i hso
      rw [hr] at hcv
      obtain ⟨r', hr'⟩ := convertLeadingTabs_head r t hcv
      rw [hr'] at hso
      simp [splitOnce] at hso
    · simp only at h
      split at h
      · rename_i e' he
        exact quoteLoop_noerr cfg _ fw.next _ _ e' hl (by omega) he
      · cases h

/-- the `while True` loop of ListItem.read -/
theorem itemLoop_noerr (cfg : Cfg) (prepend : Nat) : ∀ (fuel : Nat) (fw : FW) (buf : List Line) (nl : Nat) (e : Err),
    AllNlEnd fw.lines → fw.remaining < fuel → itemLoop cfg prepend fuel fw buf nl ≠ .err e
  | 0, _, _, _, _, _, hf => by omega
  | fuel + 1, fw, buf, nl, e, hl, hf => by
    intro h
    simp only [itemLoop] at h
    split at h
    · cases h
    · rename_i l hp
      have hln := hl l (peek_mem fw l hp)
      have hrem := remaining_next fw l hp
      split at h
      · rename_i cont hcont
        split at h
        · rename_i hem
          have := nlEnd_ne_nil _ (parseContinuation_nlEnd _ _ _ hcont)
          simp at hem; exact this hem
        · exact itemLoop_noerr cfg prepend fuel fw.next _ _ e hl (by omega) h
      · split at h
        · rename_i e' he; exact anyInterrupt_noerr cfg fw l _ _ e' hp hln _ he
        · cases h
        · split at h
          · cases h
          · split at h
            · cases h
            · exact itemLoop_noerr cfg prepend fuel fw.next _ _ e hl (by omega) h

theorem itemLoop_next_peek (cfg : Cfg) (prepend : Nat) : ∀ (fuel : Nat) (fw : FW) (buf : List Line) (nl : Nat) (r),
    itemLoop cfg prepend fuel fw buf nl = .ok r → r.2.2.isSome → r.2.1.peek.isSome
  | 0, _, _, _, _, h, _ => by simp [itemLoop] at h
  | fuel + 1, fw, buf, nl, r, h, hs => by
    simp only [itemLoop] at h
    split at h
    · cases h; simp at hs
    · rename_i l hp
      split at h
      · split at h
        · cases h
        · exact itemLoop_next_peek cfg prepend fuel _ _ _ r h hs
      · split at h
        · cases h
        · cases h; simp at hs
        · split at h
          · cases h; simp [hp]
          · split at h
            · cases h; simp at hs
            · exact itemLoop_next_peek cfg prepend fuel _ _ _ r h hs

/-! ### List.start implies ListItem.parse_marker matches -/

theorem span_fst_ne_nil_mono (p q : Char → Bool) (hpq : ∀ c, p c = true → q c = true) (s : Str)
    (h : (span p s).1 ≠ []) : (span q s).1 ≠ [] := by
  cases s with
  | nil => simp [span] at h
  | cons c rest =>
    simp only [span] at h ⊢
    by_cases hc : p c = true
    · simp [hpq c hc]
    · simp [hc] at h

theorem span_fst_nil (p : Char → Bool) (s : Str) (h : (span p s).1 = []) : (span p s).2 = s := by
  cases s with
  | nil => simp [span]
  | cons c rest =>
    simp only [span] at h ⊢
    by_cases hc : p c = true
    · simp [hc] at h
    · simp [hc]

theorem ws_sp_tab (c : Char) (h : (c == ' ' || c == '\t') = true) : ws c = true := by
  simp only [Bool.or_eq_true, beq_iff_eq] at h
  rcases h with rfl | rfl <;> decide

theorem listStart_listItem (s : Str) (h : listStart s = true) : (listItem s).isSome = true := by
  unfold listStart at h
  unfold listItem
  split at h
  · cases h
  · rename_i n r hu
    simp only
    split at h
    · cases h
    · rename_i m r1 hm
      simp only at h
      by_cases he : atEnd r1 = true
      · simp [he]
      · simp only [he, Bool.false_eq_true, if_false]
        have hne : (span (fun c => c == ' ' || c == '\t') r1).1 ≠ [] := by
          intro hnil
          have h2 := span_fst_nil _ r1 hnil
          rw [h2, hnil] at h
          simp [he] at h
        have := span_fst_ne_nil_mono _ ws ws_sp_tab r1 hne
        split
        · rename_i hw; simp at hw; exact absurd hw this
        · rfl

theorem listStart_parseMarker (s : Str) (h : listStart s = true) : (parseMarker s).isSome = true := by
  have := listStart_listItem s h
  unfold parseMarker
  split
  · rename_i hn; rw [hn] at this; cases this
  · simp only; split <;> rfl

theorem skipBlanks_remaining (fuel : Nat) (fw : FW) (n : Nat) : (skipBlanks fuel fw n).1.remaining ≤ fw.remaining := by
  have := skipBlanks_inv fuel fw n
  simp only [FW.remaining, this.1.1]
  have := this.2.1
  omega

/-- ListItem.read up to the nested call never raises when a line is available and, absent a
    `prev_marker`, that line carries a list marker -/
theorem itemLines_noerr (cfg : Cfg) (fw : FW) (prev) (e : Err) (hl : AllNlEnd fw.lines)
    (hpk : fw.peek.isSome = true) (hprev : prev = none → ∃ l, fw.peek = some l ∧ (parseMarker l.s).isSome = true) :
    itemLines cfg fw prev ≠ .err e := by
  intro h
  unfold itemLines at h
  split at h
  · rename_i hn; rw [hn] at hpk; cases hpk
  · rename_i l0 hp
    have hrem := remaining_next fw l0 hp
    simp only at h
    split at h
    · rename_i hmk
      cases prev with
      | some m => simp at hmk
      | none =>
        obtain ⟨l, hl', hm⟩ := hprev rfl
        rw [hp] at hl'; cases hl'
        simp only at hmk
        rw [hmk] at hm; cases hm
    · split at h
      · split at h
        · cases h
        · split at h
          · rename_i e' he
            have h1 := skipBlanks_remaining (fw.remaining + 1) fw.next 1
            have h2 := (skipBlanks_inv (fw.remaining + 1) fw.next 1).1.1
            exact itemLoop_noerr cfg _ _ _ _ _ e' (by rw [h2]; exact hl) (by omega) he
          · cases h
      · split at h
        · rename_i e' he
          exact itemLoop_noerr cfg _ _ fw.next _ _ e' hl (by omega) he
        · cases h

/-- a `next_marker` is only reported while the cursor is on the line that carries it -/
theorem itemLines_next_peek (cfg : Cfg) (fw : FW) (prev) (il : ItemLines) (h : itemLines cfg fw prev = .ok il) :
    match il with
    | .empty _ _ _ _ _ next fw' => next.isSome = true → fw'.peek.isSome = true
    | .lines _ _ _ _ _ _ _ next fw' => next.isSome = true → fw'.peek.isSome = true := by
  unfold itemLines at h
  split at h
  · cases h
  · simp only at h
    split at h
    · cases h
    · split at h
      · split at h
        · cases h
          dsimp only
          intro hs
          split at hs
          · rename_i hpk; simp [hpk]
          · cases hs
        · split at h
          · cases h
          · rename_i buf fw3 next heq
            cases h
            exact itemLoop_next_peek cfg _ _ _ _ _ _ heq
      · split at h
        · cases h
        · rename_i buf fw3 next heq
          cases h
          exact itemLoop_next_peek cfg _ _ _ _ _ _ heq

/-! ### Footnote.read / Paragraph.read -/

theorem shiftWhitespace_le (s : Str) (i : Nat) (h : i ≤ s.length) : shiftWhitespace s i ≤ s.length := by
  unfold shiftWhitespace
  have := (List.takeWhile_sublist (l := s.drop i) coreWs).length_le
  simp only [List.length_drop] at this
  omega

theorem shiftWhitespace_ge (s : Str) (i : Nat) : i ≤ shiftWhitespace s i := by
  unfold shiftWhitespace; omega

theorem matchLinkDest_noerr (s : Str) (off : Nat) (e : Err) (h : off < s.length) : matchLinkDest s off ≠ .err e := by
  intro he
  unfold matchLinkDest at he
  split at he
  · rename_i hn
    have := List.getElem?_eq_none_iff.mp hn
    omega
  · split at he
    · cases he
    · split at he
      · cases he
      · cases he
      · split at he <;> cases he

/-- Footnote.match_reference never indexes out of range -/
theorem matchReference_noerr (s : Str) (off : Nat) (e : Err) : matchReference s off ≠ .err e := by
  intro h
  unfold matchReference at h
  split at h
  · cases h
  · rename_i a labelEnd label _
    split at h
    · cases h
    · rename_i hf
      simp only at h
      split at h
      · cases h
      · rename_i hds
        have hlt : labelEnd + 1 ≤ s.length := by
          have : s[labelEnd - 1 + 1]? ≠ none := by
            intro hn; simp [follows, hn] at hf
          have : labelEnd - 1 + 1 < s.length :=
            Nat.lt_of_not_le (fun hh => this (List.getElem?_eq_none_iff.mpr hh))
          omega
        have hle := shiftWhitespace_le s (labelEnd + 1) hlt
        have hne : shiftWhitespace s (labelEnd + 1) ≠ s.length := by simpa using hds
        split at h
        · rename_i e' he
          exact matchLinkDest_noerr s _ e' (by omega) he
        · cases h
        · split at h
          · cases h
          · split at h
            · cases h
            · split at h <;> cases h

theorem footnoteRefs_err (s : Str) : ∀ (fuel off : Nat) (acc : List FnMatch) (e : Err),
    footnoteRefs s fuel off acc = .err e → e = .fuel
  | 0, _, _, _, h => by simp [footnoteRefs] at h; exact h.symm
  | fuel + 1, off, acc, e, h => by
    simp only [footnoteRefs] at h
    split at h
    · split at h
      · rename_i e' he; exact absurd he (matchReference_noerr s off e')
      · cases h
      · exact footnoteRefs_err s fuel _ _ e h
    · cases h

theorem readFootnote_err (fw : FW) (e : Err) (h : readFootnote fw = .err e) : e = .fuel := by
  unfold readFootnote at h
  simp only at h
  split at h
  · rename_i e' he
    cases h
    exact footnoteRefs_err _ _ _ _ _ he
  · cases h

/-- Paragraph.read -/
theorem paragraphLoop_noerr (cfg : Cfg) (so : Bool) : ∀ (fuel : Nat) (fw : FW) (buf : List Str) (e : Err),
    AllNlEnd fw.lines → fw.remaining < fuel → paragraphLoop cfg so fuel fw buf ≠ .err e
  | 0, _, _, _, _, hf => by omega
  | fuel + 1, fw, buf, e, hl, hf => by
    intro h
    simp only [paragraphLoop] at h
    split at h
    · cases h
    · rename_i l hp
      have hln := hl l (peek_mem fw l hp)
      have hrem := remaining_next fw l hp
      split at h
      · cases h
      · split at h
        · rename_i e' he; exact anyInterrupt_noerr cfg fw l _ _ e' hp hln _ he
        · cases h
        · split at h
          · cases h
          · split at h
            · cases h
            · exact paragraphLoop_noerr cfg so fuel fw.next _ e hl (by omega) h

theorem readParagraph_noerr (cfg : Cfg) (so : Bool) (fw : FW) (l : Line) (e : Err) (hl : AllNlEnd fw.lines)
    (hp : fw.peek = some l) : readParagraph cfg so fw l.s ≠ .err e := by
  intro h
  have hrem := remaining_next fw l hp
  unfold readParagraph at h
  split at h
  · rename_i e' he
    exact paragraphLoop_noerr cfg so _ fw.next _ e' hl (by omega) he
  · cases h

/-! ### the cursor stays in its buffer and does not move backwards (no origins needed) -/

theorem quoteLoop_fwd (cfg : Cfg) : ∀ (fuel : Nat) (fw : FW) (buf : List Line) (fl : QFlags) (r),
    quoteLoop cfg fuel fw buf fl = .ok r → Same fw r.2 ∧ fw.pos ≤ r.2.pos
  | 0, _, _, _, _, h => by simp [quoteLoop] at h
  | fuel + 1, fw, buf, fl, r, h => by
    have hn : fw.next.pos = fw.pos + 1 := rfl
    simp only [quoteLoop] at h
    split at h
    · cases h; exact ⟨Same.refl fw, Nat.le_refl _⟩
    · split at h
      · cases h; exact ⟨Same.refl fw, Nat.le_refl _⟩
      · split at h
        · cases h
        · cases h; exact ⟨Same.refl fw, Nat.le_refl _⟩
        · split at h
          · cases h
          · split at h
            · cases h
            · split at h
              · split at h
                · cases h
                · have := quoteLoop_fwd cfg fuel _ _ _ r h
                  exact ⟨(same_next fw).trans this.1, by omega⟩
              · split at h
                · cases h; exact ⟨Same.refl fw, Nat.le_refl _⟩
                · have := quoteLoop_fwd cfg fuel _ _ _ r h
                  exact ⟨(same_next fw).trans this.1, by omega⟩

theorem quoteLines_fwd (cfg : Cfg) (fw : FW) (l0 : Line) (r) (h : quoteLines cfg fw l0 = .ok r) :
    Same fw r.2.2 ∧ fw.pos < r.2.2.pos := by
  have hn : fw.next.pos = fw.pos + 1 := rfl
  unfold quoteLines at h
  split at h
  · cases h
  · split at h
    · cases h
    · simp only at h
      split at h
      · cases h
      · rename_i buf fw2 heq
        cases h
        have := quoteLoop_fwd cfg _ _ _ _ _ heq
        exact ⟨(same_next fw).trans this.1, by have := this.2; simp only at this ⊢; omega⟩

theorem dropTrailing_pos (fw : FW) (buf : List Line) (nl : Nat) :
    (dropTrailing fw buf nl).1.pos = if nl > 0 then fw.pos - 1 else fw.pos := by
  unfold dropTrailing; split <;> rfl

theorem itemLoop_fwd (cfg : Cfg) (prepend : Nat) : ∀ (fuel : Nat) (fw : FW) (buf : List Line) (nl : Nat) (p1 : Nat) (r),
    itemLoop cfg prepend fuel fw buf nl = .ok r → p1 + min nl 1 ≤ fw.pos →
    Same fw r.2.1 ∧ p1 ≤ r.2.1.pos
  | 0, _, _, _, _, _, h, _ => by simp [itemLoop] at h
  | fuel + 1, fw, buf, nl, p1, r, h, hp1 => by
    have hn : fw.next.pos = fw.pos + 1 := rfl
    have hfin : ∀ (next : Option (Nat × Nat × Str × Str)), (let (fw', buf') := dropTrailing fw buf nl; (buf', fw', next)) = r →
        Same fw r.2.1 ∧ p1 ≤ r.2.1.pos := by
      intro next he
      subst he
      refine ⟨dropTrailing_same fw buf nl, ?_⟩
      show p1 ≤ (dropTrailing fw buf nl).1.pos
      rw [dropTrailing_pos]
      split <;> omega
    simp only [itemLoop] at h
    split at h
    · cases h; exact hfin none rfl
    · split at h
      · split at h
        · cases h
        · have := itemLoop_fwd cfg prepend fuel _ _ _ p1 r h (by rw [hn]; split <;> omega)
          exact ⟨(same_next fw).trans this.1, this.2⟩
      · split at h
        · cases h
        · cases h; exact hfin none rfl
        · split at h
          · cases h
            exact ⟨Same.refl fw, by show p1 ≤ fw.pos; omega⟩
          · split at h
            · cases h; exact hfin none rfl
            · have := itemLoop_fwd cfg prepend fuel _ _ _ p1 r h (by rw [hn]; split <;> omega)
              exact ⟨(same_next fw).trans this.1, this.2⟩

def ItemLines.fw : ItemLines → FW
  | .empty _ _ _ _ _ _ fw => fw
  | .lines _ _ _ _ _ _ _ _ fw => fw

def ItemLines.next : ItemLines → Option (Nat × Nat × Str × Str)
  | .empty _ _ _ _ _ n _ => n
  | .lines _ _ _ _ _ _ _ n _ => n

theorem itemLines_fwd (cfg : Cfg) (fw : FW) (prev) (il : ItemLines) (h : itemLines cfg fw prev = .ok il) :
    Same fw il.fw ∧ fw.pos < il.fw.pos := by
  have hn : fw.next.pos = fw.pos + 1 := rfl
  unfold itemLines at h
  split at h
  · cases h
  · simp only at h
    split at h
    · cases h
    · split at h
      · have hsk := skipBlanks_inv (fw.remaining + 1) fw.next 1
        split at h
        · cases h
          exact ⟨(same_next fw).trans hsk.1, by have := hsk.2.1; simp only [ItemLines.fw]; omega⟩
        · split at h
          · cases h
          · rename_i buf fw3 next heq
            cases h
            have := itemLoop_fwd cfg _ _ _ _ _ (fw.pos + 1) _ heq (by have := hsk.2.1; omega)
            exact ⟨((same_next fw).trans hsk.1).trans this.1, by have := this.2; simp only [ItemLines.fw] at this ⊢; omega⟩
      · split at h
        · cases h
        · rename_i buf fw3 next heq
          cases h
          have := itemLoop_fwd cfg _ _ _ _ _ (fw.pos + 1) _ heq (by rw [hn]; omega)
          exact ⟨(same_next fw).trans this.1, by have := this.2; simp only [ItemLines.fw] at this ⊢; omega⟩

/-! ### every `read` that returns a token consumes at least one line -/

theorem blockCodeLoop_pos : ∀ (fuel : Nat) (fw : FW) (buf : List Str) (tb p : Nat), p + tb ≤ fw.pos →
    p + (blockCodeLoop fuel fw buf tb).2.1 ≤ (blockCodeLoop fuel fw buf tb).2.2.pos
  | 0, fw, _, _, _, h => by simpa [blockCodeLoop] using h
  | fuel + 1, fw, buf, tb, p, h => by
    have hn : fw.next.pos = fw.pos + 1 := rfl
    simp only [blockCodeLoop]
    split
    · exact h
    · split
      · exact blockCodeLoop_pos fuel _ _ _ p (by rw [hn]; omega)
      · split
        · show p + tb ≤ fw.next.backstep.pos
          simp only [FW.backstep, FW.next]; omega
        · exact blockCodeLoop_pos fuel _ _ _ p (by rw [hn]; omega)

theorem blockCodeStart_nl : blockCodeStart ['\n'] = false := by decide

/-- `BlockCode.start` is false on a whitespace-only line -/
theorem blockCodeStart_not_blank (s : Str) (hs : blockCodeStart s = true) : isBlank s = false := by
  unfold blockCodeStart at hs
  cases h : isBlank s with
  | false => rfl
  | true => rw [h] at hs; cases hs

theorem readBlockCode_adv (fw : FW) (l : Line) (hp : fw.peek = some l) (hs : blockCodeStart l.s = true) :
    fw.pos < (readBlockCode fw).2.pos := by
  have hn : fw.next.pos = fw.pos + 1 := rfl
  have hnb := blockCodeStart_not_blank l.s hs
  unfold readBlockCode
  simp only [blockCodeLoop, hp, hs, hnb]
  have := blockCodeLoop_pos fw.remaining fw.next [blockCodeStrip l.s 0] 0 (fw.pos + 1) (by rw [hn]; omega)
  generalize blockCodeLoop _ _ _ _ = r at this ⊢
  obtain ⟨b, t, f⟩ := r
  simp only [Bool.not_true, Bool.false_eq_true, if_false] at this ⊢
  omega

theorem codeFenceLoop_pos (ld : Str) (p : Nat) : ∀ (fuel : Nat) (fw : FW) (buf : List Str), fw.pos ≤ (codeFenceLoop ld p fuel fw buf).2.pos
  | 0, fw, _ => Nat.le_refl _
  | fuel + 1, fw, buf => by
    have hn : fw.next.pos = fw.pos + 1 := rfl
    simp only [codeFenceLoop]
    repeat' split
    all_goals first
      | exact Nat.le_refl _
      | exact Nat.le_succ _
      | exact Nat.le_trans (Nat.le_succ _) (codeFenceLoop_pos ld p fuel fw.next _)

theorem readCodeFence_adv (fw : FW) (m : FenceMatch) : fw.pos < (readCodeFence fw m).2.pos := by
  have hn : fw.next.pos = fw.pos + 1 := rfl
  unfold readCodeFence
  have := codeFenceLoop_pos m.leader m.prepend (fw.remaining + 1) fw.next []
  show fw.pos < (codeFenceLoop m.leader m.prepend (fw.remaining + 1) fw.next []).2.pos
  omega

theorem tableLoop_pos : ∀ (fuel : Nat) (fw : FW) (buf : List Str), fw.pos ≤ (tableLoop fuel fw buf).2.pos
  | 0, fw, _ => Nat.le_refl _
  | fuel + 1, fw, buf => by
    have hn : fw.next.pos = fw.pos + 1 := rfl
    simp only [tableLoop]
    split
    · split
      · exact Nat.le_trans (Nat.le_succ _) (tableLoop_pos fuel fw.next _)
      · exact Nat.le_refl _
    · exact Nat.le_refl _

theorem readTable_adv (fw : FW) (r) (h : readTable fw = some r) : fw.pos < r.2.2.pos := by
  have hn : fw.next.pos = fw.pos + 1 := rfl
  unfold readTable at h
  split at h
  · cases h
  · simp only at h
    split at h
    · split at h
      · cases h
        exact Nat.lt_of_lt_of_le (Nat.lt_succ_self _) (tableLoop_pos (fw.remaining + 1) fw.next _)
      · cases h
    · cases h

theorem htmlBlockLoop_pos (ec : Option Str) : ∀ (fuel : Nat) (fw : FW) (buf : List Str), fw.pos ≤ (htmlBlockLoop ec fuel fw buf).2.pos
  | 0, fw, _ => Nat.le_refl _
  | fuel + 1, fw, buf => by
    have hn : fw.next.pos = fw.pos + 1 := rfl
    have hb : fw.next.backstep.pos = fw.pos := rfl
    simp only [htmlBlockLoop]
    split
    · exact Nat.le_refl _
    · split
      · split
        · show fw.pos ≤ fw.next.pos; omega
        · exact Nat.le_trans (Nat.le_succ _) (htmlBlockLoop_pos _ fuel fw.next _)
      · split
        · show fw.pos ≤ fw.next.backstep.pos; omega
        · exact Nat.le_trans (Nat.le_succ _) (htmlBlockLoop_pos _ fuel fw.next _)

theorem htmlBlockStart_blank (s : Str) (h : isBlank s = true) : htmlBlockStart s = .ok none := by
  unfold htmlBlockStart
  rw [isBlank_lstrip s h]
  simp only
  split
  · rfl
  · decide

theorem readHtmlBlock_adv (fw : FW) (l : Line) (ec : Option Str) (rule : Nat) (hp : fw.peek = some l)
    (hs : htmlBlockStart l.s = .ok (some (rule, ec))) : fw.pos < (readHtmlBlock fw ec).2.pos := by
  have hn : fw.next.pos = fw.pos + 1 := rfl
  have hnb : isBlank l.s = false := by
    cases hb : isBlank l.s with
    | false => rfl
    | true => rw [htmlBlockStart_blank _ hb] at hs; cases hs
  unfold readHtmlBlock
  simp only [htmlBlockLoop, hp]
  cases ec with
  | some e =>
    simp only
    split
    · show fw.pos < fw.next.pos; omega
    · have := htmlBlockLoop_pos (some e) fw.remaining fw.next [l.s]
      show fw.pos < (htmlBlockLoop (some e) fw.remaining fw.next [l.s]).2.pos
      omega
  | none =>
    simp only [hnb, Bool.false_eq_true, if_false]
    have := htmlBlockLoop_pos none fw.remaining fw.next [l.s]
    show fw.pos < (htmlBlockLoop none fw.remaining fw.next [l.s]).2.pos
    omega

theorem paragraphLoop_pos (cfg : Cfg) (so : Bool) : ∀ (fuel : Nat) (fw : FW) (buf : List Str) (r),
    paragraphLoop cfg so fuel fw buf = .ok r → fw.pos ≤ r.2.2.pos
  | 0, _, _, _, h => by simp [paragraphLoop] at h
  | fuel + 1, fw, buf, r, h => by
    have hn : fw.next.pos = fw.pos + 1 := rfl
    simp only [paragraphLoop] at h
    split at h
    · cases h; exact Nat.le_refl _
    · split at h
      · cases h; exact Nat.le_refl _
      · split at h
        · cases h
        · cases h; exact Nat.le_refl _
        · split at h
          · cases h; show fw.pos ≤ fw.next.pos; omega
          · split at h
            · cases h; exact Nat.le_refl _
            · have := paragraphLoop_pos cfg so fuel _ _ r h; omega

theorem readParagraph_adv (cfg : Cfg) (so : Bool) (fw : FW) (l0 : Str) (r) (h : readParagraph cfg so fw l0 = .ok r) :
    fw.pos < r.2.2.pos := by
  have hn : fw.next.pos = fw.pos + 1 := rfl
  unfold readParagraph at h
  split at h
  · cases h
  · rename_i buf st fw1 heq
    cases h
    have := paragraphLoop_pos cfg so _ _ _ (buf, st, fw1) heq
    simp only at this ⊢; omega

/-- `Footnote.read` returning no definition leaves the cursor exactly where it was -/
theorem footnote_restores_pos (fw : FW) (ms) (fwf : FW) (l : Line) (hf : readFootnote fw = .ok (ms, fwf)) (hms : ms.isEmpty = true)
    (hl : AllNlEnd fw.lines) (hp : fw.peek = some l) (hnb : isBlank l.s = false) : fwf.pos = fw.pos := by
  have hspec := footnoteLines_spec (fw.remaining + 1) fw [] fw.pos (by intro x hx; cases hx) (by simp) hl
  have hfirst : l.s ∈ (footnoteLines (fw.remaining + 1) fw []).1 := by
    simp only [footnoteLines, hp, hnb, Bool.not_false, if_true]
    exact (footnoteLines_spec fw.remaining fw.next [l.s] fw.pos
      (by intro x hx; simp only [List.mem_singleton] at hx; subst hx; exact hl l (peek_mem fw l hp))
      (by show 1 + fw.pos = fw.pos + 1; omega) hl).2.2 l.s (by simp)
  have hlen : 2 ≤ ((footnoteLines (fw.remaining + 1) fw []).1.reverse).flatten.length := by
    have h1 := nlEnd_len l.s (hl l (peek_mem fw l hp)) hnb
    have h2 := length_le_flatten (footnoteLines (fw.remaining + 1) fw []).1.reverse l.s (by simpa using hfirst)
    omega
  have hcount : count '\n' ((footnoteLines (fw.remaining + 1) fw []).1.reverse).flatten = (footnoteLines (fw.remaining + 1) fw []).1.length := by
    rw [count_flatten_nl _ (fun x hx => hspec.1 x (by simpa using hx))]; simp
  unfold readFootnote at hf
  simp only at hf
  split at hf
  · cases hf
  · rename_i ms' back hrefs
    cases hf
    rw [footnoteRefs] at hrefs
    split at hrefs
    · split at hrefs
      · cases hrefs
      · cases hrefs
        simp only [List.drop_zero, hcount]
        have h2 := hspec.2.1
        omega
      · have := footnoteRefs_len _ _ _ _ _ _ hrefs
        simp only [List.length_cons, List.length_nil] at this
        cases ms with
        | nil => simp at this
        | cons x xs => simp at hms
    · omega

/-- what remains to be shown about Footnote.read for termination: a definition that matched
    consumed at least one line (proved below as `footAdv`) -/
def FootAdv : Prop := ∀ (fw : FW) (ms) (fw' : FW) (l : Line), readFootnote fw = .ok (ms, fw') → ms.isEmpty = false →
  AllNlEnd fw.lines → fw.peek = some l → isBlank l.s = false → fw.pos < fw'.pos

theorem readList_fwd (cfg : Cfg) : ∀ (gas : Nat) (fw : FW) (st : St) (ld) (nm) (acc : List Item) (p0 : Nat) (r),
    readList cfg gas fw st ld nm acc = .ok r → (ld = none → p0 ≤ fw.pos) → (ld ≠ none → p0 < fw.pos) →
    Same fw r.2.1 ∧ p0 < r.2.1.pos
  | 0, _, _, _, _, _, _, _, h, _, _ => by simp [readList] at h
  | gas + 1, fw, st, ld, nm, acc, p0, r, h, h1, h2 => by
    simp only [readList] at h
    split at h
    · rename_i hom
      obtain ⟨d, m, hd, _, _⟩ := otherMarkerType_some hom
      cases h
      exact ⟨Same.refl fw, h2 (by rw [hd]; simp)⟩
    split at h
    · cases h
    · rename_i il hil
      have hio := itemLines_fwd cfg fw nm il hil
      have key : ∀ (item : Item) (itemLeader : Str) (next : Option (Nat × Nat × Str × Str)) (fw' : FW) (st' : St),
          (match il with
            | .empty ind pre ldr ln og next fw' => (Res.ok (Item.mk [] true ind pre ldr ln og, ldr, next, fw', st) : Res _)
            | .lines buf cstart ind pre ldr ln og next fw' =>
              match tokenizeBlock cfg gas buf cstart st with
              | .err e => .err e
              | .ok (b, st') => .ok (Item.mk b.entries b.loose ind pre ldr ln og, ldr, next, fw', st'))
            = .ok (item, itemLeader, next, fw', st') → fw' = il.fw := by
        intro item itemLeader next fw' st' he
        cases il with
        | empty ind pre ldr ln og nx fwx => simp only at he; cases he; rfl
        | lines buf cstart ind pre ldr ln og nx fwx =>
          simp only at he
          split at he
          · cases he
          · cases he; rfl
      split at h
      · cases h
      · rename_i item itemLeader next fw' st' hres
        have hk := key item itemLeader next fw' st' hres
        subst hk
        have hpos : p0 < il.fw.pos := by
          have := hio.2
          cases ld with
          | none => have := h1 rfl; omega
          | some x => have := h2 (by simp); omega
        split at h
        · split at h
          · cases h; exact ⟨hio.1, hpos⟩
          · have := readList_fwd cfg gas il.fw _ _ _ _ p0 r h (by intro hh; cases hh) (fun _ => hpos)
            exact ⟨hio.1.trans this.1, this.2⟩
        · split at h
          · cases h; exact ⟨hio.1, hpos⟩
          · have := readList_fwd cfg gas il.fw _ _ _ _ p0 r h (by intro hh; cases hh) (fun _ => hpos)
            exact ⟨hio.1.trans this.1, this.2⟩

/-- a token type that accepts the line moves the cursor forward, inside the same buffer -/
theorem tryTypes_fwd (cfg : Cfg) : ∀ (gas : Nat) (fw0 : FW) (l : Line) (ts : List BTok) (fw : FW) (st : St) (e : Entry) (fw' : FW) (st' : St),
    AllNlEnd fw0.lines → tryTypes cfg gas fw st l ts = .ok (some (e, fw', st')) → Same fw0 fw → fw.pos = fw0.pos → fw.peek = some l →
    Same fw0 fw' ∧ (FootAdv → fw0.pos < fw'.pos)
  | 0, _, _, _, _, _, _, _, _, _, h, _, _, _ => by simp [tryTypes] at h
  | gas + 1, fw0, l, [], fw, st, e, fw', st', _, h, _, _, _ => by simp [tryTypes] at h
  | gas + 1, fw0, l, t :: ts, fw, st, e, fw', st', hl0, h, hs, hpos, hp => by
    have hl : AllNlEnd fw.lines := by rw [hs.1]; exact hl0
    have hn : fw.next.pos = fw.pos + 1 := rfl
    have ih := fun fw2 st2 (h2 : tryTypes cfg gas fw2 st2 l ts = .ok (some (e, fw', st'))) hs2 hpos2 hp2 =>
      tryTypes_fwd cfg gas fw0 l ts fw2 st2 e fw' st' hl0 h2 hs2 hpos2 hp2
    unfold tryTypes at h
    cases t <;> simp only at h
    · -- htmlBlock
      split at h
      · cases h
      · exact ih fw st h hs hpos hp
      · rename_i rule ec hst
        cases h
        exact ⟨hs.trans (readHtmlBlock_same fw _), fun _ => by have := readHtmlBlock_adv fw l ec rule hp hst; omega⟩
    · -- blockCode
      split at h
      · rename_i hst
        cases h; exact ⟨hs.trans (readBlockCode_same fw), fun _ => by have := readBlockCode_adv fw l hp hst; omega⟩
      · exact ih fw st h hs hpos hp
    · -- heading
      split at h
      · rename_i lvl c cl fwh hh
        cases h
        refine ⟨hs.trans (readHeading_same fw l.s _ hh), fun _ => ?_⟩
        unfold readHeading at hh
        split at hh
        · cases hh
        · cases hh; rw [hn]; omega
      · exact ih fw st h hs hpos hp
    · -- quote
      split at h
      · split at h
        · cases h
        · rename_i qls qstart fwq hq
          have hql := quoteLines_fwd cfg fw l _ hq
          split at h
          · cases h
          · cases h
            exact ⟨hs.trans hql.1, fun _ => by have := hql.2; simp only at this; omega⟩
      · exact ih fw st h hs hpos hp
    · -- codeFence
      split at h
      · rename_i m _
        cases h; exact ⟨hs.trans (readCodeFence_same fw _), fun _ => by have := readCodeFence_adv fw m; omega⟩
      · exact ih fw st h hs hpos hp
    · -- thematicBreak
      split at h
      · cases h; exact ⟨hs.trans (same_next fw), fun _ => by rw [hn]; omega⟩
      · exact ih fw st h hs hpos hp
    · -- list
      split at h
      · split at h
        · cases h
        · rename_i items fwl stl hrl
          cases h
          have := readList_fwd cfg gas fw st none none [] fw.pos _ hrl (fun _ => Nat.le_refl _) (fun hh => absurd rfl hh)
          exact ⟨hs.trans this.1, fun _ => by have := this.2; simp only at this; omega⟩
      · exact ih fw st h hs hpos hp
    · -- table
      split at h
      · split at h
        · rename_i b sl fwt ht
          cases h
          have := readTable_same fw _ ht
          exact ⟨hs.trans this.1, fun _ => by have := readTable_adv fw _ ht; simp only at this; omega⟩
        · exact ih fw st h hs hpos hp
      · exact ih fw st h hs hpos hp
    · -- footnote
      split at h
      · rename_i hsw
        have hnb := startsWith_lstrip_nb _ hsw
        split at h
        · cases h
        · rename_i ms fwf hf
          have hsf := readFootnote_same fw ms fwf hf
          split at h
          · rename_i hms
            have hpf := footnote_restores fw ms fwf l hf hms hl hp hnb
            have hpp := footnote_restores_pos fw ms fwf l hf hms hl hp hnb
            exact ih fwf _ h (hs.trans hsf) (by omega) hpf
          · rename_i hms
            cases h
            exact ⟨hs.trans hsf, fun hF => by have := hF fw ms _ l hf (by simpa using hms) hl hp hnb; omega⟩
      · exact ih fw st h hs hpos hp
    · -- paragraph
      split at h
      · split at h
        · cases h
        · rename_i b fwp hpp
          cases h
          exact ⟨hs.trans (readParagraph_same cfg _ fw l.s _ hpp), fun _ => by have := readParagraph_adv cfg _ fw l.s _ hpp; simp only at this; omega⟩
        · rename_i b fwp hpp
          cases h
          exact ⟨hs.trans (readParagraph_same cfg _ fw l.s _ hpp), fun _ => by have := readParagraph_adv cfg _ fw l.s _ hpp; simp only at this; omega⟩
      · exact ih fw st h hs hpos hp
    · -- blankLine
      split at h
      · cases h; exact ⟨hs.trans (same_next fw), fun _ => by rw [hn]; omega⟩
      · exact ih fw st h hs hpos hp
    · -- linkRefDefBlock
      split at h
      · rename_i hsw
        have hnb := startsWith_lstrip_nb _ hsw
        split at h
        · cases h
        · rename_i ms fwf hf
          have hsf := readFootnote_same fw ms fwf hf
          split at h
          · rename_i hms
            have hpf := footnote_restores fw ms fwf l hf hms hl hp hnb
            have hpp := footnote_restores_pos fw ms fwf l hf hms hl hp hnb
            exact ih fwf _ h (hs.trans hsf) (by omega) hpf
          · rename_i hms
            cases h
            exact ⟨hs.trans hsf, fun hF => by have := hF fw ms _ l hf (by simpa using hms) hl hp hnb; omega⟩
      · exact ih fw st h hs hpos hp

/-! ### No raise: the simultaneous induction over `gas` -/

def TokNR (cfg : Cfg) (gas : Nat) : Prop :=
  ∀ (lines : List Line) (start : Nat) (st : St) (e : Err), AllNlEnd lines →
    tokenizeBlock cfg gas lines start st = .err e → e = .fuel

def LoopNR (cfg : Cfg) (gas : Nat) : Prop :=
  ∀ (fw : FW) (st : St) (acc : List Entry) (loose : Bool) (e : Err), AllNlEnd fw.lines →
    tokLoop cfg gas fw st acc loose = .err e → e = .fuel

def TryNR (cfg : Cfg) (gas : Nat) : Prop :=
  ∀ (fw : FW) (st : St) (l : Line) (ts : List BTok) (e : Err), AllNlEnd fw.lines → fw.peek = some l →
    tryTypes cfg gas fw st l ts = .err e → e = .fuel

def ListNR (cfg : Cfg) (gas : Nat) : Prop :=
  ∀ (fw : FW) (st : St) (ld) (nm) (acc : List Item) (e : Err), AllNlEnd fw.lines → fw.peek.isSome = true →
    (nm = none → ∃ l, fw.peek = some l ∧ (parseMarker l.s).isSome = true) → (∀ m, nm = some m → MarkerOk m) →
    readList cfg gas fw st ld nm acc = .err e → e = .fuel

theorem list_nr (cfg : Cfg) (gas : Nat) (hT : TokNR cfg gas) (hL : ListNR cfg gas) : ListNR cfg (gas + 1) := by
  intro fw st ld nm acc e hl hpk hnm hmk h
  simp only [readList] at h
  split at h
  · cases h
  split at h
  · rename_i e' he
    exact absurd he (itemLines_noerr cfg fw nm e' hl hpk hnm)
  · rename_i il hil
    have hio := itemLines_fwd cfg fw nm il hil
    have hnl := itemLines_nl cfg fw nm il hil hl hmk
    have hnp := itemLines_next_peek cfg fw nm il hil
    have hl' : AllNlEnd il.fw.lines := by rw [hio.1.1]; exact hl
    have key : ∀ (item : Item) (itemLeader : Str) (next : Option (Nat × Nat × Str × Str)) (fw' : FW) (st' : St),
        (match il with
          | .empty ind pre ldr ln og next fw' => (Res.ok (Item.mk [] true ind pre ldr ln og, ldr, next, fw', st) : Res _)
          | .lines buf cstart ind pre ldr ln og next fw' =>
            match tokenizeBlock cfg gas buf cstart st with
            | .err e => .err e
            | .ok (b, st') => .ok (Item.mk b.entries b.loose ind pre ldr ln og, ldr, next, fw', st'))
          = .ok (item, itemLeader, next, fw', st') →
          fw' = il.fw ∧ (next.isSome = true → il.fw.peek.isSome = true) ∧ (∀ m, next = some m → MarkerOk m) := by
      intro item itemLeader next fw' st' he
      cases il with
      | empty ind pre ldr ln og nx fwx =>
        simp only at he hnl hnp
        cases he
        exact ⟨rfl, hnp, hnl⟩
      | lines buf cstart ind pre ldr ln og nx fwx =>
        simp only at he hnl hnp
        split at he
        · cases he
        · cases he
          exact ⟨rfl, hnp, hnl.2⟩
    have kerr : ∀ (e' : Err),
        (match il with
          | .empty ind pre ldr ln og next fw' => (Res.ok (Item.mk [] true ind pre ldr ln og, ldr, next, fw', st) : Res _)
          | .lines buf cstart ind pre ldr ln og next fw' =>
            match tokenizeBlock cfg gas buf cstart st with
            | .err e => .err e
            | .ok (b, st') => .ok (Item.mk b.entries b.loose ind pre ldr ln og, ldr, next, fw', st'))
          = .err e' → e' = .fuel := by
      intro e' he
      cases il with
      | empty ind pre ldr ln og nx fwx => simp only at he; cases he
      | lines buf cstart ind pre ldr ln og nx fwx =>
        simp only at he hnl
        split at he
        · rename_i e2 he2
          cases he
          exact hT _ _ _ _ hnl.1 he2
        · cases he
    split at h
    · rename_i e' he
      cases h
      exact kerr _ he
    · rename_i item itemLeader next fw' st' hres
      obtain ⟨hk, hk2, hk3⟩ := key item itemLeader next fw' st' hres
      subst hk
      split at h
      · split at h
        · cases h
        · rename_i m hne
          exact hL il.fw st' _ _ _ e hl' (hk2 rfl) (fun hh => by cases hh) hk3 h
      · split at h
        · cases h
        · exact hL il.fw st' _ _ _ e hl' (hk2 rfl) (fun hh => by cases hh) hk3 h

theorem try_nr (cfg : Cfg) (gas : Nat) (hT : TokNR cfg gas) (hL : ListNR cfg gas) (hY : TryNR cfg gas) : TryNR cfg (gas + 1) := by
  intro fw st l ts e hl hp h
  cases ts with
  | nil => simp [tryTypes] at h
  | cons t ts =>
    have hln := hl l (peek_mem fw l hp)
    have ih := fun fw2 st2 (hl2 : AllNlEnd fw2.lines) (hp2 : fw2.peek = some l) (h2 : tryTypes cfg gas fw2 st2 l ts = .err e) =>
      hY fw2 st2 l ts e hl2 hp2 h2
    unfold tryTypes at h
    cases t <;> simp only at h
    · -- htmlBlock
      split at h
      · rename_i e' he; exact absurd he (htmlBlockStart_noerr _ hln e')
      · exact ih fw st hl hp h
      · cases h
    · -- blockCode
      split at h
      · cases h
      · exact ih fw st hl hp h
    · -- heading
      split at h
      · cases h
      · exact ih fw st hl hp h
    · -- quote
      split at h
      · rename_i hq
        split at h
        · rename_i e' he; exact absurd he (quoteLines_noerr cfg fw l e' hl hp hq)
        · rename_i qls qstart fwq hql
          split at h
          · rename_i e' he
            cases h
            exact hT _ _ _ _ (quoteLines_nl cfg fw l _ hql hl hp) he
          · cases h
      · exact ih fw st hl hp h
    · -- codeFence
      split at h
      · cases h
      · exact ih fw st hl hp h
    · -- thematicBreak
      split at h
      · cases h
      · exact ih fw st hl hp h
    · -- list
      split at h
      · rename_i hls
        split at h
        · rename_i e' he
          cases h
          exact hL fw st none none [] _ hl (by simp [hp]) (fun _ => ⟨l, hp, listStart_parseMarker _ hls⟩) (fun m hm => by cases hm) he
        · cases h
      · exact ih fw st hl hp h
    · -- table
      split at h
      · split at h
        · cases h
        · exact ih fw st hl hp h
      · exact ih fw st hl hp h
    · -- footnote
      split at h
      · rename_i hsw
        have hnb := startsWith_lstrip_nb _ hsw
        split at h
        · rename_i e' he; cases h; exact readFootnote_err fw _ he
        · rename_i ms fwf hf
          have hsf := readFootnote_same fw ms fwf hf
          split at h
          · rename_i hms
            exact ih fwf _ (by rw [hsf.1]; exact hl) (footnote_restores fw ms fwf l hf hms hl hp hnb) h
          · cases h
      · exact ih fw st hl hp h
    · -- paragraph
      split at h
      · split at h
        · rename_i e' he; exact absurd he (readParagraph_noerr cfg _ fw l e' hl hp)
        · cases h
        · cases h
      · exact ih fw st hl hp h
    · -- blankLine
      split at h
      · cases h
      · exact ih fw st hl hp h
    · -- linkRefDefBlock
      split at h
      · rename_i hsw
        have hnb := startsWith_lstrip_nb _ hsw
        split at h
        · rename_i e' he; cases h; exact readFootnote_err fw _ he
        · rename_i ms fwf hf
          have hsf := readFootnote_same fw ms fwf hf
          split at h
          · rename_i hms
            exact ih fwf _ (by rw [hsf.1]; exact hl) (footnote_restores fw ms fwf l hf hms hl hp hnb) h
          · cases h
      · exact ih fw st hl hp h

theorem loop_nr (cfg : Cfg) (gas : Nat) (hY : TryNR cfg gas) (hP : LoopNR cfg gas) : LoopNR cfg (gas + 1) := by
  intro fw st acc loose e hl h
  simp only [tokLoop] at h
  split at h
  · cases h
  · rename_i l hp
    split at h
    · rename_i e' he
      cases h
      exact hY fw st l cfg.types _ hl hp he
    · rename_i en fw2 st2 ht
      have := (tryTypes_fwd cfg gas fw l cfg.types fw st en fw2 st2 hl ht (Same.refl fw) rfl hp).1
      exact hP fw2 st2 _ loose e (by rw [this.1]; exact hl) h
    · exact hP fw.next st acc true e hl h

theorem tok_nr (cfg : Cfg) (gas : Nat) (hP : LoopNR cfg gas) : TokNR cfg (gas + 1) := by
  intro lines start st e hl h
  simp only [tokenizeBlock] at h
  exact hP _ _ _ _ e hl h

theorem all_nr (cfg : Cfg) : ∀ (gas : Nat), TokNR cfg gas ∧ LoopNR cfg gas ∧ TryNR cfg gas ∧ ListNR cfg gas
  | 0 => by
    refine ⟨?_, ?_, ?_, ?_⟩
    · intro lines start st e _ h; simp [tokenizeBlock] at h; exact h.symm
    · intro fw st acc loose e _ h; simp [tokLoop] at h; exact h.symm
    · intro fw st l ts e _ _ h; simp [tryTypes] at h; exact h.symm
    · intro fw st ld nm acc e _ _ _ _ h; simp [readList] at h; exact h.symm
  | gas + 1 => by
    obtain ⟨hT, hP, hY, hL⟩ := all_nr cfg gas
    exact ⟨tok_nr cfg gas hP, loop_nr cfg gas hY hP, try_nr cfg gas hT hL hY, list_nr cfg gas hT hL⟩

/-- **tokenize_block never raises** on complete lines: the only error the model can report is
    running out of the structural `gas`. -/
theorem tokenizeBlock_no_raise (cfg : Cfg) (gas : Nat) (lines : List Line) (start : Nat) (st : St) (e : Err)
    (hl : AllNlEnd lines) (h : tokenizeBlock cfg gas lines start st = .err e) : e = .fuel :=
  (all_nr cfg gas).1 lines start st e hl h

theorem allNlEnd_zipIdx (lines : List Str) (hl : ∀ s ∈ lines, NlEnd s) :
    AllNlEnd (lines.zipIdx.map (fun (s, i) => ({ s := s, origin := i + 1 } : Line))) := by
  intro l hm
  simp only [List.mem_map] at hm
  obtain ⟨⟨s, i⟩, hmem, rfl⟩ := hm
  exact hl s (List.mem_zipIdx hmem |>.2.2 ▸ List.getElem_mem _)

theorem blockPhase_no_raise (cfg : Cfg) (gas : Nat) (lines : List Str) (e : Err)
    (hl : ∀ s ∈ lines, NlEnd s) (h : blockPhase cfg gas lines = .err e) : e = .fuel :=
  tokenizeBlock_no_raise cfg gas _ 1 {} e (allNlEnd_zipIdx lines hl) h

/-! ### Footnote.read: every matched definition ends after a newline, strictly further on -/

theorem ite_some_inj {α} {c : Prop} [Decidable c] {x y : α} (h : (if c then some x else none) = some y) : x = y := by
  split at h <;> simp_all

theorem mllGo_lt (s : Str) (off : Nat) : ∀ (rest : Str) (i : Nat) (st : Option Nat) (esc : Bool) (a) (e : Nat) (lab : Str),
    mllGo s off rest i st esc = some (a, e, lab) → i < e
  | [], _, _, _, _, _, _, h => by simp [mllGo] at h
  | c :: rest, i, st, esc, a, e, lab, h => by
    simp only [mllGo] at h
    split at h
    · rename_i r heq
      split at heq
      · cases heq
      · split at heq
        · cases heq
        · split at heq
          · split at heq
            · cases heq
            · simp only [Sum.inl.injEq] at heq
              rw [← heq] at h; cases h
          · split at heq
            · simp only [Sum.inl.injEq] at heq
              rw [← heq] at h
              have := ite_some_inj h
              simp only [Prod.mk.injEq] at this
              omega
            · cases heq
    · split at h
      · cases h
      · have := mllGo_lt s off rest (i + 1) _ _ a e lab h; omega

theorem mldAngle_lt (s : Str) (off : Nat) : ∀ (rest : Str) (i : Nat) (esc : Bool) (a e : Nat) (d : Str),
    mldAngle s off rest i esc = some (a, e, d) → i < e
  | [], _, _, _, _, _, h => by simp [mldAngle] at h
  | c :: rest, i, esc, a, e, d, h => by
    simp only [mldAngle] at h
    split at h
    · have := mldAngle_lt s off rest (i + 1) _ a e d h; omega
    · split at h
      · cases h
      · split at h
        · cases h; omega
        · have := mldAngle_lt s off rest (i + 1) _ a e d h; omega

theorem mldPlain_le : ∀ (rest : Str) (i : Nat) (esc : Bool) (cnt : Int) (j : Nat) (c : Int),
    mldPlain rest i esc cnt = some (some (j, c)) → i ≤ j + 1 ∧ (rest ≠ [] → i ≤ j)
  | [], i, _, _, j, c, h => by
    simp only [mldPlain] at h
    cases h
    exact ⟨by omega, fun h => absurd rfl h⟩
  | x :: rest, i, esc, cnt, j, c, h => by
    simp only [mldPlain] at h
    split at h
    · have := (mldPlain_le rest (i + 1) _ _ j c h).1; exact ⟨by omega, fun _ => by omega⟩
    · split at h
      · cases h; exact ⟨by omega, fun _ => Nat.le_refl _⟩
      · split at h
        · have := (mldPlain_le rest (i + 1) _ _ j c h).1; exact ⟨by omega, fun _ => by omega⟩
        · split at h
          · cases h
          · have := (mldPlain_le rest (i + 1) _ _ j c h).1; exact ⟨by omega, fun _ => by omega⟩

theorem matchLinkDest_le (s : Str) (off : Nat) (a e : Nat) (d : Str) (hlt : off < s.length)
    (h : matchLinkDest s off = .ok (some (a, e, d))) : off ≤ e := by
  unfold matchLinkDest at h
  split at h
  · cases h
  · split at h
    · simp only [Res.ok.injEq] at h
      have := mldAngle_lt s off _ _ _ a e d h; omega
    · split at h
      · cases h
      · cases h
      · rename_i i cnt heq
        split at h
        · cases h
        · cases h
          have hne : s.drop off ≠ [] := by
            intro hh; have := List.drop_eq_nil_iff.mp hh; omega
          exact (mldPlain_le _ _ _ _ _ _ heq).2 hne

theorem mltGo_lt (s : Str) (off : Nat) (cl : Char) : ∀ (rest : Str) (i : Nat) (esc : Bool) (a e : Nat) (d : Str),
    mltGo s off cl rest i esc = some (a, e, d) → i < e
  | [], _, _, _, _, _, h => by simp [mltGo] at h
  | c :: rest, i, esc, a, e, d, h => by
    simp only [mltGo] at h
    split at h
    · have := mltGo_lt s off cl rest (i + 1) _ a e d h; omega
    · split at h
      · cases h; omega
      · have := mltGo_lt s off cl rest (i + 1) _ a e d h; omega

theorem matchLinkTitle_lt (s : Str) (off : Nat) (a e : Nat) (d : Str) (h : matchLinkTitle s off = some (a, e, d)) : off < e := by
  unfold matchLinkTitle at h
  split at h
  · cases h
  · simp only at h
    split at h
    · cases h
    · have := mltGo_lt s off _ _ _ _ a e d h; omega

theorem drop_cons_get {α} : ∀ (s : List α) (i : Nat) (c : α) (rest : List α), s.drop i = c :: rest → s[i]? = some c ∧ s.drop (i + 1) = rest
  | [], _, _, _, h => by simp at h
  | x :: xs, 0, c, rest, h => by simp at h; simp [h]
  | x :: xs, i + 1, c, rest, h => by
    simp only [List.drop_succ_cons] at h
    have := drop_cons_get xs i c rest h
    simpa using this

theorem lineEndGo_spec (s : Str) : ∀ (rest : Str) (i n : Nat), s.drop i = rest → lineEndGo s rest i = some n →
    i < n ∧ s[n - 1]? = some '\n'
  | [], _, _, _, h => by simp [lineEndGo] at h
  | c :: rest, i, n, hd, h => by
    have hg := drop_cons_get s i c rest hd
    simp only [lineEndGo] at h
    split at h
    · rename_i hc
      cases h
      subst hc
      exact ⟨by omega, by simpa using hg.1⟩
    · split at h
      · have := lineEndGo_spec s rest (i + 1) n hg.2 h
        exact ⟨by omega, this.2⟩
      · cases h

theorem takeWhile_stop {α} (p : α → Bool) : ∀ (l : List α), (l.takeWhile p).length < l.length →
    ∃ x, l[(l.takeWhile p).length]? = some x ∧ p x = false
  | [], h => by simp at h
  | x :: xs, h => by
    by_cases hx : p x = true
    · simp only [List.takeWhile_cons, hx, if_true, List.length_cons] at h ⊢
      have := takeWhile_stop p xs (by omega)
      simpa using this
    · simp only [List.takeWhile_cons, hx, Bool.false_eq_true, if_false, List.length_nil] 
      exact ⟨x, by simp, by simpa using hx⟩

theorem findNl_spec (s : Str) (a b k : Nat) (h : findNl s a b = some k) : s[a + k]? = some '\n' := by
  unfold findNl at h
  simp only at h
  split at h
  · rename_i hlt
    cases h
    obtain ⟨x, hx, hpx⟩ := takeWhile_stop _ _ hlt
    have hxe : x = '\n' := by simpa using hpx
    subst hxe
    unfold slice at hx
    rw [List.getElem?_take] at hx
    split at hx
    · rw [List.getElem?_drop] at hx; exact hx
    · cases hx
  · cases h

/-- a reference definition that matched ends just after a newline, strictly after its start -/
theorem matchReference_spec (s : Str) (off next : Nat) (m : FnMatch) (h : matchReference s off = .ok (some (next, m))) :
    off < next ∧ s[next - 1]? = some '\n' := by
  unfold matchReference at h
  split at h
  · cases h
  · rename_i a labelEnd label hlab
    have h1 : off < labelEnd := mllGo_lt s off _ _ _ _ _ _ _ hlab
    split at h
    · cases h
    · rename_i hf
      simp only at h
      split at h
      · cases h
      · rename_i hds
        have hlt : labelEnd + 1 ≤ s.length := by
          have : s[labelEnd - 1 + 1]? ≠ none := by
            intro hn; simp [follows, hn] at hf
          have : labelEnd - 1 + 1 < s.length :=
            Nat.lt_of_not_le (fun hh => this (List.getElem?_eq_none_iff.mpr hh))
          omega
        have hle := shiftWhitespace_le s (labelEnd + 1) hlt
        have hge := shiftWhitespace_ge s (labelEnd + 1)
        have hne : shiftWhitespace s (labelEnd + 1) ≠ s.length := by simpa using hds
        split at h
        · cases h
        · cases h
        · rename_i a2 destEnd dest hdest
          have h2 := matchLinkDest_le s _ _ _ _ (by omega) hdest
          have h3 := shiftWhitespace_ge s destEnd
          split at h
          · cases h
          · split at h
            · simp only [Res.ok.injEq] at h
              split at h
              · rename_i eol heol
                cases h
                have := findNl_spec s _ _ _ heol
                exact ⟨by omega, by simpa using this⟩
              · cases h
            · rename_i a3 titleEnd title htitle
              have h4 := matchLinkTitle_lt s _ _ _ _ htitle
              split at h
              · rename_i nx hle2
                cases h
                have := lineEndGo_spec s _ _ _ rfl hle2
                exact ⟨by omega, this.2⟩
              · simp only [Res.ok.injEq] at h
                split at h
                · rename_i eol heol
                  cases h
                  have := findNl_spec s _ _ _ heol
                  exact ⟨by omega, by simpa using this⟩
                · cases h

/-- the `while offset < len(string) - 1` loop of Footnote.read: `len(string) + 2` rounds suffice -/
theorem footnoteRefs_noerr (s : Str) : ∀ (fuel off : Nat) (acc : List FnMatch) (e : Err),
    1 ≤ fuel → s.length + 1 ≤ fuel + off → footnoteRefs s fuel off acc ≠ .err e
  | 0, _, _, _, h, _ => by omega
  | fuel + 1, off, acc, e, _, hb => by
    intro h
    simp only [footnoteRefs] at h
    split at h
    · split at h
      · rename_i e' he; exact matchReference_noerr s off e' he
      · cases h
      · rename_i next m hm
        have := (matchReference_spec s off next m hm).1
        exact footnoteRefs_noerr s fuel next _ e (by omega) (by omega) h
    · cases h

theorem readFootnote_noerr (fw : FW) (e : Err) : readFootnote fw ≠ .err e := by
  intro h
  unfold readFootnote at h
  simp only at h
  split at h
  · rename_i e' he
    exact footnoteRefs_noerr _ _ 0 [] e' (by omega) (by omega) he
  · cases h

theorem count_le_cons (ch c : Char) (r : Str) : count ch r ≤ count ch (c :: r) := by
  unfold count
  simp only [List.filter_cons]
  split <;> simp

theorem count_drop_lt (ch : Char) : ∀ (s : Str) (j : Nat), s[j]? = some ch → count ch (s.drop (j + 1)) < count ch s
  | [], _, h => by simp at h
  | c :: r, 0, h => by
    simp only [List.getElem?_cons_zero, Option.some.injEq] at h
    subst h
    simp [count]
  | c :: r, j + 1, h => by
    simp only [List.getElem?_cons_succ] at h
    have := count_drop_lt ch r j h
    have h2 := count_le_cons ch c r
    simp only [List.drop_succ_cons]
    omega

theorem footnoteRefs_back (s : Str) : ∀ (fuel off : Nat) (acc : List FnMatch) (ms) (k : Nat),
    footnoteRefs s fuel off acc = .ok (ms, some k) → (acc ≠ [] → count '\n' (s.drop off) < count '\n' s) → ms ≠ [] →
    k < count '\n' s
  | 0, _, _, _, _, h, _, _ => by simp [footnoteRefs] at h
  | fuel + 1, off, acc, ms, k, h, hq, hms => by
    simp only [footnoteRefs] at h
    split at h
    · split at h
      · cases h
      · cases h
        exact hq (by intro hh; apply hms; simp [hh])
      · rename_i next m hm
        have hsp := matchReference_spec s off next m hm
        refine footnoteRefs_back s fuel next _ ms k h (fun _ => ?_) hms
        have := count_drop_lt '\n' s (next - 1) hsp.2
        have e : next - 1 + 1 = next := by omega
        rw [e] at this; exact this
    · cases h

/-- a Footnote.read that returns definitions consumed at least one line -/
theorem footAdv : FootAdv := by
  intro fw ms fw' l hf hms hl hp hnb
  have hspec := footnoteLines_spec (fw.remaining + 1) fw [] fw.pos (by intro x hx; cases hx) (by simp) hl
  have hfirst : l.s ∈ (footnoteLines (fw.remaining + 1) fw []).1 := by
    simp only [footnoteLines, hp, hnb, Bool.not_false, if_true]
    exact (footnoteLines_spec fw.remaining fw.next [l.s] fw.pos
      (by intro x hx; simp only [List.mem_singleton] at hx; subst hx; exact hl l (peek_mem fw l hp))
      (by show 1 + fw.pos = fw.pos + 1; omega) hl).2.2 l.s (by simp)
  have hpos : 1 ≤ (footnoteLines (fw.remaining + 1) fw []).1.length := by
    cases hh : (footnoteLines (fw.remaining + 1) fw []).1 with
    | nil => rw [hh] at hfirst; cases hfirst
    | cons x xs => simp
  have hcount : count '\n' ((footnoteLines (fw.remaining + 1) fw []).1.reverse).flatten = (footnoteLines (fw.remaining + 1) fw []).1.length := by
    rw [count_flatten_nl _ (fun x hx => hspec.1 x (by simpa using hx))]; simp
  have h2 := hspec.2.1
  unfold readFootnote at hf
  simp only at hf
  split at hf
  · cases hf
  · rename_i ms' back hrefs
    cases hf
    cases back with
    | none => simp only; omega
    | some k =>
      have := footnoteRefs_back _ _ _ _ _ _ hrefs (fun hh => absurd rfl hh) (by intro hh; rw [hh] at hms; simp at hms)
      rw [hcount] at this
      simp only
      omega

/-! ## Part 2: the outer gas.  A weight that strictly decreases into nested buffers

  Characters do not work as a measure (`Quote.convert_leading_tabs` and `ListItem.parse_marker`
  expand tabs to up to four spaces); a tab therefore weighs 4, every other character 1. -/

def cw (c : Char) : Nat := if c = '\t' then 4 else 1

def sw : Str → Nat
  | [] => 0
  | c :: r => cw c + sw r

def lw : List Line → Nat
  | [] => 0
  | l :: r => sw l.s + lw r

theorem cw_pos (c : Char) : 1 ≤ cw c := by unfold cw; split <;> omega
theorem cw_le (c : Char) : cw c ≤ 4 := by unfold cw; split <;> omega

theorem sw_append : ∀ (a b : Str), sw (a ++ b) = sw a + sw b
  | [], b => by simp [sw]
  | c :: a, b => by simp only [List.cons_append, sw, sw_append a b]; omega

theorem sw_replicate_sp : ∀ (n : Nat), sw (List.replicate n ' ') = n
  | 0 => rfl
  | n + 1 => by
    simp only [List.replicate_succ, sw, sw_replicate_sp n]
    have : cw ' ' = 1 := by decide
    omega

theorem length_le_sw : ∀ (s : Str), s.length ≤ sw s
  | [] => Nat.le_refl _
  | c :: r => by have := length_le_sw r; have := cw_pos c; simp only [List.length_cons, sw]; omega

theorem sw_suffix_le (t s : Str) (h : t <:+ s) : sw t ≤ sw s := by
  obtain ⟨p, rfl⟩ := h; rw [sw_append]; omega

theorem sw_drop_le (s : Str) (k : Nat) : sw (s.drop k) ≤ sw s := sw_suffix_le _ _ (List.drop_suffix k s)

theorem sw_pos_of_nlEnd (s : Str) (h : NlEnd s) : 1 ≤ sw s := by
  have := length_le_sw s
  have := nlEnd_ne_nil s h
  cases s with
  | nil => exact absurd rfl this
  | cons c r => simp only [List.length_cons] at *; omega

theorem lw_append : ∀ (a b : List Line), lw (a ++ b) = lw a + lw b
  | [], b => by simp [lw]
  | c :: a, b => by simp only [List.cons_append, lw, lw_append a b]; omega

theorem lw_reverse : ∀ (a : List Line), lw a.reverse = lw a
  | [] => rfl
  | c :: a => by simp only [List.reverse_cons, lw_append, lw, lw_reverse a]; omega

theorem lw_drop_le (a : List Line) (k : Nat) : lw (a.drop k) ≤ lw a := by
  have := lw_append (a.take k) (a.drop k)
  rw [List.take_append_drop] at this; omega

theorem length_le_lw : ∀ (a : List Line), AllNlEnd a → a.length ≤ lw a
  | [], _ => Nat.le_refl _
  | l :: a, h => by
    have h1 := sw_pos_of_nlEnd l.s (h l (by simp))
    have h2 := length_le_lw a (fun x hx => h x (List.mem_cons_of_mem _ hx))
    simp only [List.length_cons, lw]; omega

/-- the weight of the lines from the cursor on -/
def rw' (fw : FW) : Nat := lw (fw.lines.drop fw.pos)

theorem rw_peek (fw : FW) (l : Line) (hp : fw.peek = some l) : rw' fw = sw l.s + rw' fw.next := by
  unfold rw' FW.peek at *
  have hlt := (List.getElem?_eq_some_iff.mp hp).1
  have hget := (List.getElem?_eq_some_iff.mp hp).2
  rw [List.drop_eq_getElem_cons hlt]
  simp only [lw, FW.next]
  rw [hget]

theorem rw_le (fw : FW) : rw' fw ≤ lw fw.lines := lw_drop_le _ _

theorem rw_mono (a b : FW) (hs : Same a b) (hp : a.pos ≤ b.pos) : rw' b ≤ rw' a := by
  unfold rw'
  rw [hs.1]
  have : b.pos = a.pos + (b.pos - a.pos) := by omega
  rw [this, ← List.drop_drop]
  exact lw_drop_le _ _

/-! ### Quote.read hands on strictly less weight -/

theorem replaceTab_sw_le : ∀ (s : Str), sw (replaceFirst ['>', '\t'] [' ', ' ', ' '] s) ≤ sw s
  | [] => by simp [replaceFirst]
  | c :: rest => by
    simp only [replaceFirst]
    split
    · rename_i hpre
      simp only [Bool.and_eq_true, Bool.not_eq_eq_eq_not, Bool.not_true] at hpre
      have hp := hpre.1
      cases rest with
      | nil => simp at hp
      | cons d r2 =>
        simp only [List.isPrefixOf_cons_cons, List.isPrefixOf_nil_left, Bool.and_true, Bool.and_eq_true, beq_iff_eq] at hp
        obtain ⟨h1, h2⟩ := hp
        subst h1; subst h2
        show sw ([' ', ' ', ' '] ++ List.drop 2 ('>' :: '\t' :: r2)) ≤ _
        simp only [List.drop_succ_cons, List.drop_zero, List.cons_append, List.nil_append, sw]
        have : cw ' ' = 1 := by decide
        have : cw '>' = 1 := by decide
        have : cw '\t' = 4 := by decide
        omega
    · have := replaceTab_sw_le rest
      simp only [sw]; omega

theorem clt_go_spec : ∀ (t : Str) (j c : Nat), (∃ x ∈ t, x ≠ '\t' ∧ x ≠ ' ') →
    (convertLeadingTabs.go t j c).2.1 + sw (t.drop ((convertLeadingTabs.go t j c).1 - j)) = c + sw t ∧
    j ≤ (convertLeadingTabs.go t j c).1
  | [], _, _, h => by obtain ⟨x, hx, _⟩ := h; cases hx
  | y :: rest, j, c, h => by
    simp only [convertLeadingTabs.go]
    split
    · rename_i hy
      have hex : ∃ x ∈ rest, x ≠ '\t' ∧ x ≠ ' ' := by
        obtain ⟨x, hx, h1, h2⟩ := h
        rcases List.mem_cons.mp hx with rfl | hx
        · exact absurd hy h1
        · exact ⟨x, hx, h1, h2⟩
      have := clt_go_spec rest (j + 1) (c + 4) hex
      obtain ⟨h1, h2⟩ := this
      refine ⟨?_, by omega⟩
      have e : (convertLeadingTabs.go rest (j + 1) (c + 4)).1 - j = ((convertLeadingTabs.go rest (j + 1) (c + 4)).1 - (j + 1)) + 1 := by omega
      rw [e, List.drop_succ_cons]
      subst hy
      have : cw '\t' = 4 := by decide
      simp only [sw]; omega
    · split
      · rename_i hy
        have hex : ∃ x ∈ rest, x ≠ '\t' ∧ x ≠ ' ' := by
          obtain ⟨x, hx, h1, h2⟩ := h
          rcases List.mem_cons.mp hx with rfl | hx
          · exact absurd hy h2
          · exact ⟨x, hx, h1, h2⟩
        have := clt_go_spec rest (j + 1) (c + 1) hex
        obtain ⟨h1, h2⟩ := this
        refine ⟨?_, by omega⟩
        have e : (convertLeadingTabs.go rest (j + 1) (c + 1)).1 - j = ((convertLeadingTabs.go rest (j + 1) (c + 1)).1 - (j + 1)) + 1 := by omega
        rw [e, List.drop_succ_cons]
        subst hy
        have : cw ' ' = 1 := by decide
        simp only [sw]; omega
      · simp

theorem replaceTab_head (s0 : Str) (hne : s0 ≠ []) (hhead : ∀ c r, s0 = c :: r → c ≠ ' ' ∧ c ≠ '\t') :
    (∃ c s', replaceFirst ['>', '\t'] [' ', ' ', ' '] s0 = c :: s' ∧ c ≠ ' ' ∧ c ≠ '\t') ∨
    sw (replaceFirst ['>', '\t'] [' ', ' ', ' '] s0) + 2 ≤ sw s0 := by
  cases s0 with
  | nil => exact absurd rfl hne
  | cons c rest =>
    simp only [replaceFirst]
    split
    · rename_i hpre
      right
      simp only [Bool.and_eq_true, Bool.not_eq_eq_eq_not, Bool.not_true] at hpre
      have hp := hpre.1
      cases rest with
      | nil => simp at hp
      | cons d r2 =>
        simp only [List.isPrefixOf_cons_cons, List.isPrefixOf_nil_left, Bool.and_true, Bool.and_eq_true, beq_iff_eq] at hp
        obtain ⟨h1, h2⟩ := hp
        subst h1; subst h2
        show sw ([' ', ' ', ' '] ++ List.drop 2 ('>' :: '\t' :: r2)) + 2 ≤ _
        simp only [List.drop_succ_cons, List.drop_zero, List.cons_append, List.nil_append, sw]
        have : cw ' ' = 1 := by decide
        have : cw '>' = 1 := by decide
        have : cw '\t' = 4 := by decide
        omega
    · left
      exact ⟨c, _, rfl, hhead c rest rfl⟩

/-- Quote.convert_leading_tabs does not add weight to a left-stripped complete line -/
theorem convertLeadingTabs_sw (s0 t : Str) (hn : NlEnd s0) (hhead : ∀ c r, s0 = c :: r → c ≠ ' ' ∧ c ≠ '\t')
    (h : convertLeadingTabs s0 = .ok t) : sw t ≤ sw s0 := by
  have hr := replaceTab_nlEnd s0 hn
  have hle := replaceTab_sw_le s0
  have hhd := replaceTab_head s0 (nlEnd_ne_nil _ hn) hhead
  unfold convertLeadingTabs at h
  simp only at h
  generalize replaceFirst ['>', '\t'] [' ', ' ', ' '] s0 = s at h hr hle hhd
  split at h
  · cases h
  · split at h
    · cases h; exact hle
    · rename_i hi
      cases h
      have hex : ∃ x ∈ s, x ≠ '\t' ∧ x ≠ ' ' := by
        obtain ⟨body, hb, _⟩ := hr
        exact ⟨'\n', by rw [hb]; simp, by decide, by decide⟩
      have hsp := (clt_go_spec s 0 0 hex).1
      rcases hhd with ⟨c, s', hs, hc1, hc2⟩ | hw
      · exfalso
        subst hs
        apply hi
        simp [convertLeadingTabs.go, hc1, hc2]
      · generalize convertLeadingTabs.go s 0 0 = g at hsp hi
        obtain ⟨i, cnt, b⟩ := g
        show sw ('>' :: (List.replicate cnt ' ' ++ List.drop i s)) ≤ _
        simp only [sw, sw_append, sw_replicate_sp]
        have : cw '>' = 1 := by decide
        simp only [Nat.sub_zero, Nat.zero_add] at hsp
        omega

theorem lstrip_head : ∀ (s : Str) (c : Char) (r : Str), lstrip s = c :: r → c ≠ ' ' ∧ c ≠ '\t'
  | [], _, _, h => by simp [lstrip] at h
  | x :: rest, c, r, h => by
    simp only [lstrip] at h
    split at h
    · exact lstrip_head rest c r h
    · rename_i hx
      cases h
      constructor
      · intro e; subst e; exact hx (by decide)
      · intro e; subst e; exact hx (by decide)

theorem convertLeadingTabs_lstrip_sw (s t : Str) (hn : NlEnd s) (h : convertLeadingTabs (lstrip s) = .ok t) : sw t ≤ sw s := by
  have hne := convertLeadingTabs_ne _ _ h
  have := convertLeadingTabs_sw (lstrip s) t (nlEnd_lstrip s hn hne) (lstrip_head s) h
  have := sw_suffix_le _ _ (lstrip_suffix s)
  omega

theorem quoteLoop_lw (cfg : Cfg) : ∀ (fuel : Nat) (fw : FW) (buf : List Line) (fl : QFlags) (M : Nat) (r),
    quoteLoop cfg fuel fw buf fl = .ok r → AllNlEnd fw.lines → lw buf + rw' fw ≤ M → lw r.1 ≤ M
  | 0, _, _, _, _, _, h, _, _ => by simp [quoteLoop] at h
  | fuel + 1, fw, buf, fl, M, r, h, hl, hM => by
    simp only [quoteLoop] at h
    split at h
    · cases h; simp only; omega
    · rename_i l hp
      have hln := hl l (peek_mem fw l hp)
      have hrw := rw_peek fw l hp
      split at h
      · cases h; simp only; omega
      · split at h
        · cases h
        · cases h; simp only; omega
        · split at h
          · cases h
          · rename_i stripped hcv
            have hsw := convertLeadingTabs_lstrip_sw _ _ hln hcv
            split at h
            · cases h
            · split at h
              · split at h
                · cases h
                · refine quoteLoop_lw cfg fuel _ _ _ M r h hl ?_
                  rename_i c0 tl _ _ c1 _
                  have := sw_drop_le (c0 :: tl) (if c1 = ' ' then 2 else 1)
                  simp only [lw]; omega
              · split at h
                · cases h; simp only; omega
                · refine quoteLoop_lw cfg fuel _ _ _ M r h hl ?_
                  simp only [lw]; omega

theorem dropSp_sw (after : Str) : sw (match after with | ' ' :: r => r | r => r) ≤ sw after := by
  split
  · simp only [sw]; omega
  · exact Nat.le_refl _

/-- **Quote.read** hands the nested tokenizer strictly less weight than its own buffer has -/
theorem quoteLines_lw (cfg : Cfg) (fw : FW) (l0 : Line) (r) (h : quoteLines cfg fw l0 = .ok r)
    (hl : AllNlEnd fw.lines) (hp : fw.peek = some l0) : lw r.1 + 1 ≤ lw fw.lines := by
  have hln := hl l0 (peek_mem fw l0 hp)
  have hrw := rw_peek fw l0 hp
  have hle := rw_le fw
  unfold quoteLines at h
  split at h
  · cases h
  · rename_i t hcv
    have hsw := convertLeadingTabs_lstrip_sw _ _ hln hcv
    split at h
    · cases h
    · rename_i a after hso
      simp only at h
      split at h
      · cases h
      · rename_i buf fw2 heq
        cases h
        have hsp := splitOnce_spec '>' t a after hso
        have h1 : sw after + 1 ≤ sw t := by
          rw [hsp, sw_append]; simp only [sw]; have := cw_pos '>'; omega
        have fin : ∀ (line : Str), sw line ≤ sw after →
            quoteLoop cfg (fw.remaining + 1) fw.next [{ s := line, origin := l0.origin }] (qflags line) = .ok (buf, fw2) →
            lw buf.reverse + 1 ≤ lw fw.lines := by
          intro line h2 heq'
          have := quoteLoop_lw cfg _ _ _ _ (lw fw.lines - 1) _ heq' hl (by simp only [lw]; omega)
          simp only [lw_reverse]
          simp only at this
          have := sw_pos_of_nlEnd _ hln
          omega
        exact fin _ (by
          split
          · simp only [sw]; omega
          · exact Nat.le_refl _) heq

/-! ### ListItem.read hands on strictly less weight -/

theorem span_append (p : Char → Bool) : ∀ (s : Str), (span p s).1 ++ (span p s).2 = s
  | [] => by simp [span]
  | c :: rest => by
    simp only [span]
    split
    · simp [span_append p rest]
    · simp

theorem countLeading_spec : ∀ (s : Str), List.replicate (countLeading ' ' s) ' ' ++ s.drop (countLeading ' ' s) = s
  | [] => by simp [countLeading]
  | c :: rest => by
    simp only [countLeading]
    split
    · rename_i hc; subst hc
      simp [List.replicate_succ, countLeading_spec rest]
    · simp

theorem listMarker_decomp (r m r1 : Str) (h : listMarker r = some (m, r1)) : r = m ++ r1 ∧ m ≠ [] := by
  unfold listMarker at h
  split at h
  · cases h
  · rename_i c rst
    split at h
    · cases h; exact ⟨rfl, by simp⟩
    · simp only at h
      split at h
      · cases h
      · split at h
        · rename_i e r2 he
          split at h
          · cases h
            have := span_append isDigit (c :: rst)
            rw [he] at this
            exact ⟨by simp only [List.append_assoc, List.cons_append, List.nil_append]; exact this.symm, by simp⟩
          · cases h
        · cases h

theorem listItem_decomp (line : Str) (m : ItemMatch) (h : listItem line = some m) :
    line = m.g1 ++ m.g2 ++ m.g3 ++ m.rest ∧ m.g2 ≠ [] := by
  unfold listItem at h
  split at h
  · cases h
  · rename_i n r hu
    have hr : line = List.replicate n ' ' ++ r := by
      unfold upTo3Spaces at hu
      simp only at hu
      split at hu
      · cases hu
      · cases hu; exact (countLeading_spec line).symm
    split at h
    · cases h
    · rename_i mk r1 hm
      have h1 := listMarker_decomp r mk r1 hm
      split at h
      · cases h; simp only [List.append_nil]; rw [hr, h1.1]; exact ⟨by simp, h1.2⟩
      · simp only at h
        split at h
        · cases h
        · cases h
          simp only
          have := span_append ws r1
          refine ⟨?_, h1.2⟩
          rw [hr, h1.1]
          conv => lhs; rw [← this]
          simp

theorem sw_expandtabs_le : ∀ (s : Str) (col : Nat), sw (expandtabsAux s col) ≤ sw s
  | [], _ => by simp [expandtabsAux]
  | c :: rest, col => by
    simp only [expandtabsAux]
    split
    · rename_i hc; subst hc
      have := sw_expandtabs_le rest (col + (4 - col % 4))
      have h4 : cw '\t' = 4 := by decide
      simp only [sw_append, sw_replicate_sp, sw, h4]; omega
    · split
      · have := sw_expandtabs_le rest 0; simp only [sw]; omega
      · have := sw_expandtabs_le rest (col + 1); simp only [sw]; omega

/-- ListItem.parse_marker: the content it returns weighs less than the line (the marker is gone) -/
theorem parseMarker_sw (line : Str) (m) (h : parseMarker line = some m) : sw m.2.2.2 + 1 ≤ sw line := by
  unfold parseMarker at h
  split at h
  · cases h
  · rename_i im hi
    obtain ⟨hd, hg2⟩ := listItem_decomp line im hi
    have hline : sw line = sw (im.g1 ++ im.g2 ++ im.g3) + sw im.rest := by
      conv => lhs; rw [hd]
      simp only [sw_append]
    have hpos : 1 ≤ sw (im.g1 ++ im.g2 ++ im.g3) := by
      have := length_le_sw (im.g1 ++ im.g2 ++ im.g3)
      have : 1 ≤ im.g2.length := by
        cases hh : im.g2 with
        | nil => exact absurd hh hg2
        | cons x xs => simp
      simp only [List.length_append] at *; omega
    have hex : (expandtabs (im.g1 ++ im.g2 ++ im.g3)).length ≤ sw (im.g1 ++ im.g2 ++ im.g3) := by
      have h1 := length_le_sw (expandtabs (im.g1 ++ im.g2 ++ im.g3))
      have h2 := sw_expandtabs_le (im.g1 ++ im.g2 ++ im.g3) 0
      unfold expandtabs at *; omega
    simp only at h
    split at h
    · cases h
      show sw (List.replicate _ ' ' ++ im.rest) + 1 ≤ _
      simp only [sw_append, sw_replicate_sp]
      omega
    · cases h
      show sw im.rest + 1 ≤ _
      omega

theorem continuation_sw (line g1 g2 : Str) (h : continuation line = some (g1, g2)) : sw g1 + sw g2 ≤ sw line := by
  unfold continuation at h
  simp only at h
  have hsp := span_append (fun c => c == ' ' || c == '\t') line
  generalize span (fun c => c == ' ' || c == '\t') line = sp at h hsp
  obtain ⟨a, r⟩ := sp
  simp only at h hsp
  split at h
  · rename_i tl
    cases h
    rw [← hsp, sw_append]; simp only [sw]; omega
  · rename_i c rest _
    split at h
    · cases h
    · have hb := span_append (· != '\n') rest
      generalize span (· != '\n') rest = sb at h hb
      obtain ⟨body, r2⟩ := sb
      simp only at h hb
      split at h
      · rename_i tl2
        cases h
        subst hb; subst hsp
        simp only [sw_append, sw, List.cons_append]; omega
      · cases h
  · cases h

theorem parseContinuation_sw (line : Str) (p : Nat) (cont : Str) (h : parseContinuation line p = some cont) : sw cont ≤ sw line := by
  unfold parseContinuation at h
  split at h
  · cases h
  · rename_i g1 g2 hc
    have := continuation_sw line g1 g2 hc
    split at h
    · rename_i hg
      cases h
      simp only [beq_iff_eq] at hg
      rw [hg] at this; omega
    · simp only at h
      split at h
      · cases h
        have h1 := sw_drop_le (expandtabs g1) p
        have h2 := sw_expandtabs_le g1 0
        rw [sw_append]; unfold expandtabs at *; omega
      · cases h

theorem dropTrailing_lw (fw : FW) (buf : List Line) (nl : Nat) : lw (dropTrailing fw buf nl).2 ≤ lw buf := by
  obtain ⟨k, hk⟩ := dropTrailing_buf fw buf nl
  rw [hk]; exact lw_drop_le _ _

theorem itemLoop_lw (cfg : Cfg) (prepend : Nat) : ∀ (fuel : Nat) (fw : FW) (buf : List Line) (nl : Nat) (M : Nat) (r),
    itemLoop cfg prepend fuel fw buf nl = .ok r → lw buf + rw' fw ≤ M → lw r.1 ≤ M
  | 0, _, _, _, _, _, h, _ => by simp [itemLoop] at h
  | fuel + 1, fw, buf, nl, M, r, h, hM => by
    have hfin : ∀ (next : Option (Nat × Nat × Str × Str)), (let (fw', buf') := dropTrailing fw buf nl; (buf', fw', next)) = r →
        lw r.1 ≤ M := by
      intro next he
      subst he
      have := dropTrailing_lw fw buf nl
      show lw (dropTrailing fw buf nl).2 ≤ M
      omega
    simp only [itemLoop] at h
    split at h
    · cases h; exact hfin none rfl
    · rename_i l hp
      have hrw := rw_peek fw l hp
      split at h
      · rename_i cont hcont
        have := parseContinuation_sw _ _ _ hcont
        split at h
        · cases h
        · exact itemLoop_lw cfg prepend fuel _ _ _ M r h (by simp only [lw]; omega)
      · split at h
        · cases h
        · cases h; exact hfin none rfl
        · split at h
          · cases h; simp only; omega
          · split at h
            · cases h; exact hfin none rfl
            · exact itemLoop_lw cfg prepend fuel _ _ _ M r h (by simp only [lw]; omega)

theorem itemLoop_next_marker (cfg : Cfg) (prepend : Nat) : ∀ (fuel : Nat) (fw : FW) (buf : List Line) (nl : Nat) (r),
    itemLoop cfg prepend fuel fw buf nl = .ok r → ∀ m, r.2.2 = some m → ∃ l, r.2.1.peek = some l ∧ parseMarker l.s = some m
  | 0, _, _, _, _, h => by simp [itemLoop] at h
  | fuel + 1, fw, buf, nl, r, h => by
    simp only [itemLoop] at h
    split at h
    · cases h; intro m hm; cases hm
    · rename_i l hp
      split at h
      · split at h
        · cases h
        · exact itemLoop_next_marker cfg prepend fuel _ _ _ r h
      · split at h
        · cases h
        · cases h; intro m hm; cases hm
        · split at h
          · rename_i m0 hm0
            cases h
            intro m hm; cases hm
            exact ⟨l, hp, hm0⟩
          · split at h
            · cases h; intro m hm; cases hm
            · exact itemLoop_next_marker cfg prepend fuel _ _ _ r h

theorem itemLines_next_marker (cfg : Cfg) (fw : FW) (prev) (il : ItemLines) (h : itemLines cfg fw prev = .ok il) :
    ∀ m, il.next = some m → ∃ l, il.fw.peek = some l ∧ parseMarker l.s = some m := by
  unfold itemLines at h
  split at h
  · cases h
  · simp only at h
    split at h
    · cases h
    · split at h
      · split at h
        · cases h
          intro m hm
          simp only [ItemLines.next] at hm
          split at hm
          · rename_i l hpk; exact ⟨l, hpk, hm⟩
          · cases hm
        · split at h
          · cases h
          · rename_i buf fw3 next heq
            cases h
            exact itemLoop_next_marker cfg _ _ _ _ _ _ heq
      · split at h
        · cases h
        · rename_i buf fw3 next heq
          cases h
          exact itemLoop_next_marker cfg _ _ _ _ _ _ heq

def ItemLines.buf : ItemLines → List Line
  | .empty _ _ _ _ _ _ _ => []
  | .lines b _ _ _ _ _ _ _ _ => b

/-- **ListItem.read** hands the nested tokenizer strictly less weight than its own buffer has -/
theorem itemLines_lw (cfg : Cfg) (fw : FW) (prev) (il : ItemLines) (h : itemLines cfg fw prev = .ok il)
    (hl : AllNlEnd fw.lines) (hprev : ∀ m, prev = some m → ∃ l, fw.peek = some l ∧ parseMarker l.s = some m) :
    lw il.buf + 1 ≤ lw fw.lines := by
  have hle := rw_le fw
  unfold itemLines at h
  split at h
  · cases h
  · rename_i l0 hp
    have hln := hl l0 (peek_mem fw l0 hp)
    have hrw := rw_peek fw l0 hp
    have hpos := sw_pos_of_nlEnd _ hln
    simp only at h
    split at h
    · cases h
    · rename_i ind pre0 ld content hmk
      have hmk' : parseMarker l0.s = some (ind, pre0, ld, content) := by
        cases prev with
        | some m =>
          simp only [Option.some.injEq] at hmk; subst hmk
          obtain ⟨l, hl1, hl2⟩ := hprev _ rfl
          rw [hp] at hl1; cases hl1; exact hl2
        | none => exact hmk
      have hcw := parseMarker_sw l0.s _ hmk'
      simp only at hcw
      split at h
      · have hsk := skipBlanks_inv (fw.remaining + 1) fw.next 1
        split at h
        · cases h
          simp only [ItemLines.buf, lw]; omega
        · split at h
          · cases h
          · rename_i buf fw3 next heq
            cases h
            have hmono := rw_mono fw.next _ hsk.1 hsk.2.1
            have := itemLoop_lw cfg _ _ _ _ _ (lw fw.lines - 1) _ heq (by simp only [lw]; omega)
            simp only [ItemLines.buf, lw_reverse]
            simp only at this
            omega
      · split at h
        · cases h
        · rename_i buf fw3 next heq
          cases h
          have := itemLoop_lw cfg _ _ _ _ _ (lw fw.lines - 1) _ heq (by simp only [lw]; omega)
          simp only [ItemLines.buf, lw_reverse]
          simp only at this
          omega

/-! ### The explicit gas bound -/

def gasK (cfg : Cfg) (W : Nat) : Nat := 2 * W + cfg.types.length + 4

/-- enough gas for `tokenize_block` on `lines`: quadratic in the weight of the buffer (number of
    characters, a tab counting 4), linear in the number of token types -/
def gasBound (cfg : Cfg) (lines : List Line) : Nat := (lw lines + 1) * gasK cfg (lw lines)

def gasBase (cfg : Cfg) (fw : FW) : Nat := lw fw.lines * gasK cfg (lw fw.lines)

theorem gasBound_eq (cfg : Cfg) (lines : List Line) :
    gasBound cfg lines = lw lines * gasK cfg (lw lines) + gasK cfg (lw lines) := by
  unfold gasBound; rw [Nat.succ_mul]

theorem nested_bound (cfg : Cfg) (buf : List Line) (fw : FW) (h : lw buf + 1 ≤ lw fw.lines) :
    gasBound cfg buf ≤ gasBase cfg fw :=
  Nat.mul_le_mul h (by unfold gasK; omega)

theorem gasBase_same (cfg : Cfg) (a b : FW) (h : Same a b) : gasBase cfg b = gasBase cfg a := by
  unfold gasBase; rw [h.1]

def TokF (cfg : Cfg) (gas : Nat) : Prop :=
  ∀ (lines : List Line) (start : Nat) (st : St), AllNlEnd lines → gasBound cfg lines ≤ gas →
    tokenizeBlock cfg gas lines start st ≠ .err .fuel

def LoopF (cfg : Cfg) (gas : Nat) : Prop :=
  ∀ (fw : FW) (st : St) (acc : List Entry) (loose : Bool), AllNlEnd fw.lines →
    gasBase cfg fw + (fw.lines.length - fw.pos) + cfg.types.length + lw fw.lines + 3 ≤ gas →
    tokLoop cfg gas fw st acc loose ≠ .err .fuel

def TryF (cfg : Cfg) (gas : Nat) : Prop :=
  ∀ (fw : FW) (st : St) (l : Line) (ts : List BTok), AllNlEnd fw.lines → fw.peek = some l →
    gasBase cfg fw + ts.length + lw fw.lines + 2 ≤ gas →
    tryTypes cfg gas fw st l ts ≠ .err .fuel

def ListF (cfg : Cfg) (gas : Nat) : Prop :=
  ∀ (fw : FW) (st : St) (ld) (nm) (acc : List Item), AllNlEnd fw.lines → fw.peek.isSome = true →
    (nm = none → ∃ l, fw.peek = some l ∧ (parseMarker l.s).isSome = true) →
    (∀ m, nm = some m → ∃ l, fw.peek = some l ∧ parseMarker l.s = some m) →
    gasBase cfg fw + (fw.lines.length - fw.pos) + 1 ≤ gas →
    readList cfg gas fw st ld nm acc ≠ .err .fuel

theorem peek_of_isSome (fw : FW) (h : fw.peek.isSome = true) : ∃ l, fw.peek = some l := by
  cases hh : fw.peek with
  | none => rw [hh] at h; cases h
  | some l => exact ⟨l, rfl⟩

theorem list_f (cfg : Cfg) (gas : Nat) (hT : TokF cfg gas) (hL : ListF cfg gas) : ListF cfg (gas + 1) := by
  intro fw st ld nm acc hl hpk hnm hmk hg h
  obtain ⟨l0, hp0⟩ := peek_of_isSome fw hpk
  have hlt := peek_lt fw l0 hp0
  have hmk' : ∀ m, nm = some m → MarkerOk m := by
    intro m hm
    obtain ⟨l, hl1, hl2⟩ := hmk m hm
    exact parseMarker_ok l.s m (hl l (peek_mem fw l hl1)) hl2
  simp only [readList] at h
  split at h
  · cases h
  split at h
  · rename_i e' he
    exact absurd he (itemLines_noerr cfg fw nm e' hl hpk hnm)
  · rename_i il hil
    have hio := itemLines_fwd cfg fw nm il hil
    have hnl := itemLines_nl cfg fw nm il hil hl hmk'
    have hnp := itemLines_next_marker cfg fw nm il hil
    have hw := itemLines_lw cfg fw nm il hil hl hmk
    have hl' : AllNlEnd il.fw.lines := by rw [hio.1.1]; exact hl
    have hb' := gasBase_same cfg fw il.fw hio.1
    have hlen : il.fw.lines.length = fw.lines.length := by rw [hio.1.1]
    have key : ∀ (item : Item) (itemLeader : Str) (next : Option (Nat × Nat × Str × Str)) (fw' : FW) (st' : St),
        (match il with
          | .empty ind pre ldr ln og next fw' => (Res.ok (Item.mk [] true ind pre ldr ln og, ldr, next, fw', st) : Res _)
          | .lines buf cstart ind pre ldr ln og next fw' =>
            match tokenizeBlock cfg gas buf cstart st with
            | .err e => .err e
            | .ok (b, st') => .ok (Item.mk b.entries b.loose ind pre ldr ln og, ldr, next, fw', st'))
          = .ok (item, itemLeader, next, fw', st') → fw' = il.fw ∧ next = il.next := by
      intro item itemLeader next fw' st' he
      cases il with
      | empty ind pre ldr ln og nx fwx => simp only at he; cases he; exact ⟨rfl, rfl⟩
      | lines buf cstart ind pre ldr ln og nx fwx =>
        simp only at he
        split at he
        · cases he
        · cases he; exact ⟨rfl, rfl⟩
    have kerr :
        (match il with
          | .empty ind pre ldr ln og next fw' => (Res.ok (Item.mk [] true ind pre ldr ln og, ldr, next, fw', st) : Res _)
          | .lines buf cstart ind pre ldr ln og next fw' =>
            match tokenizeBlock cfg gas buf cstart st with
            | .err e => .err e
            | .ok (b, st') => .ok (Item.mk b.entries b.loose ind pre ldr ln og, ldr, next, fw', st'))
          ≠ .err .fuel := by
      intro he
      cases il with
      | empty ind pre ldr ln og nx fwx => simp only at he; cases he
      | lines buf cstart ind pre ldr ln og nx fwx =>
        simp only at he hnl
        simp only [ItemLines.buf] at hw
        split at he
        · rename_i e2 he2
          cases he
          have := nested_bound cfg buf fw hw
          exact hT _ _ _ hnl.1 (by omega) he2
        · cases he
    split at h
    · rename_i e' he
      cases h
      exact kerr he
    · rename_i item itemLeader next fw' st' hres
      obtain ⟨hk, hk2⟩ := key item itemLeader next fw' st' hres
      subst hk; subst hk2
      have hrec : ∀ (st2 : St) (ld2) (m0) (acc2 : List Item), il.next = some m0 → readList cfg gas il.fw st2 ld2 il.next acc2 ≠ .err .fuel := by
        intro st2 ld2 m0 acc2 hm0
        obtain ⟨l, hl1, hl2⟩ := hnp m0 hm0
        refine hL il.fw st2 ld2 il.next acc2 hl' (by simp [hl1]) (fun hh => by rw [hh] at hm0; cases hm0) hnp ?_
        have := hio.2
        rw [hb', hlen]; omega
      split at h
      · split at h
        · cases h
        · rename_i m0 hm0
          exact hrec _ _ m0 _ hm0 h
      · split at h
        · cases h
        · rename_i m0 hm0
          exact hrec _ _ m0 _ hm0 h

theorem try_f (cfg : Cfg) (gas : Nat) (hT : TokF cfg gas) (hL : ListF cfg gas) (hY : TryF cfg gas) : TryF cfg (gas + 1) := by
  intro fw st l ts hl hp hg h
  cases ts with
  | nil => simp [tryTypes] at h
  | cons t ts =>
    have hln := hl l (peek_mem fw l hp)
    have hlt := peek_lt fw l hp
    have hlenW := length_le_lw fw.lines hl
    simp only [List.length_cons] at hg
    have ih := fun fw2 st2 (hs2 : Same fw fw2) (hp2 : fw2.peek = some l) (h2 : tryTypes cfg gas fw2 st2 l ts = .err .fuel) =>
      hY fw2 st2 l ts (by rw [hs2.1]; exact hl) hp2 (by rw [gasBase_same cfg fw fw2 hs2, hs2.1]; omega) h2
    unfold tryTypes at h
    cases t <;> simp only at h
    · -- htmlBlock
      split at h
      · rename_i e' he; exact absurd he (htmlBlockStart_noerr _ hln e')
      · exact ih fw st (Same.refl fw) hp h
      · cases h
    · -- blockCode
      split at h
      · cases h
      · exact ih fw st (Same.refl fw) hp h
    · -- heading
      split at h
      · cases h
      · exact ih fw st (Same.refl fw) hp h
    · -- quote
      split at h
      · rename_i hq
        split at h
        · rename_i e' he; exact absurd he (quoteLines_noerr cfg fw l e' hl hp hq)
        · rename_i qls qstart fwq hql
          split at h
          · rename_i e' he
            cases h
            have hb : gasBound cfg qls ≤ gasBase cfg fw := nested_bound cfg qls fw (quoteLines_lw cfg fw l _ hql hl hp)
            have hq' : AllNlEnd qls := quoteLines_nl cfg fw l _ hql hl hp
            exact hT qls _ _ hq' (by omega) he
          · cases h
      · exact ih fw st (Same.refl fw) hp h
    · -- codeFence
      split at h
      · cases h
      · exact ih fw st (Same.refl fw) hp h
    · -- thematicBreak
      split at h
      · cases h
      · exact ih fw st (Same.refl fw) hp h
    · -- list
      split at h
      · rename_i hls
        split at h
        · rename_i e' he
          cases h
          exact hL fw st none none [] hl (by simp [hp]) (fun _ => ⟨l, hp, listStart_parseMarker _ hls⟩) (fun m hm => by cases hm)
            (by omega) he
        · cases h
      · exact ih fw st (Same.refl fw) hp h
    · -- table
      split at h
      · split at h
        · cases h
        · exact ih fw st (Same.refl fw) hp h
      · exact ih fw st (Same.refl fw) hp h
    · -- footnote
      split at h
      · rename_i hsw
        have hnb := startsWith_lstrip_nb _ hsw
        split at h
        · rename_i e' he; exact absurd he (readFootnote_noerr fw e')
        · rename_i ms fwf hf
          have hsf := readFootnote_same fw ms fwf hf
          split at h
          · rename_i hms
            exact ih fwf _ hsf (footnote_restores fw ms fwf l hf hms hl hp hnb) h
          · cases h
      · exact ih fw st (Same.refl fw) hp h
    · -- paragraph
      split at h
      · split at h
        · rename_i e' he; exact absurd he (readParagraph_noerr cfg _ fw l e' hl hp)
        · cases h
        · cases h
      · exact ih fw st (Same.refl fw) hp h
    · -- blankLine
      split at h
      · cases h
      · exact ih fw st (Same.refl fw) hp h
    · -- linkRefDefBlock
      split at h
      · rename_i hsw
        have hnb := startsWith_lstrip_nb _ hsw
        split at h
        · rename_i e' he; exact absurd he (readFootnote_noerr fw e')
        · rename_i ms fwf hf
          have hsf := readFootnote_same fw ms fwf hf
          split at h
          · rename_i hms
            exact ih fwf _ hsf (footnote_restores fw ms fwf l hf hms hl hp hnb) h
          · cases h
      · exact ih fw st (Same.refl fw) hp h

theorem loop_f (cfg : Cfg) (gas : Nat) (hY : TryF cfg gas) (hP : LoopF cfg gas) : LoopF cfg (gas + 1) := by
  intro fw st acc loose hl hg h
  simp only [tokLoop] at h
  split at h
  · cases h
  · rename_i l hp
    have hlt := peek_lt fw l hp
    split at h
    · rename_i e' he
      cases h
      exact hY fw st l cfg.types hl hp (by omega) he
    · rename_i en fw2 st2 ht
      have hf := tryTypes_fwd cfg gas fw l cfg.types fw st en fw2 st2 hl ht (Same.refl fw) rfl hp
      have hpos := hf.2 footAdv
      refine hP fw2 st2 _ loose (by rw [hf.1.1]; exact hl) ?_ h
      rw [gasBase_same cfg fw fw2 hf.1, hf.1.1]; omega
    · refine hP fw.next st acc true hl ?_ h
      have hn : fw.next.pos = fw.pos + 1 := rfl
      have e1 : fw.next.lines = fw.lines := rfl
      rw [gasBase_same cfg fw fw.next (same_next fw), e1, hn]; omega

theorem tok_f (cfg : Cfg) (gas : Nat) (hP : LoopF cfg gas) : TokF cfg (gas + 1) := by
  intro lines start st hl hg h
  simp only [tokenizeBlock] at h
  have hlenW := length_le_lw lines hl
  rw [gasBound_eq] at hg
  refine hP _ _ _ _ hl ?_ h
  simp only [gasBase]
  unfold gasK at *
  omega

theorem all_f (cfg : Cfg) : ∀ (gas : Nat), TokF cfg gas ∧ LoopF cfg gas ∧ TryF cfg gas ∧ ListF cfg gas
  | 0 => by
    refine ⟨?_, ?_, ?_, ?_⟩
    · intro lines start st _ hg; rw [gasBound_eq] at hg; unfold gasK at hg; omega
    · intro fw st acc loose _ hg; omega
    · intro fw st l ts _ _ hg; omega
    · intro fw st ld nm acc _ _ _ _ hg; omega
  | gas + 1 => by
    obtain ⟨hT, hP, hY, hL⟩ := all_f cfg gas
    exact ⟨tok_f cfg gas hP, loop_f cfg gas hY hP, try_f cfg gas hT hL hY, list_f cfg gas hT hL⟩

/-- with `gasBound` gas, `tokenize_block` does not run out of gas -/
theorem tokenizeBlock_enough_gas (cfg : Cfg) (gas : Nat) (lines : List Line) (start : Nat) (st : St)
    (hg : gasBound cfg lines ≤ gas) (hl : AllNlEnd lines) : tokenizeBlock cfg gas lines start st ≠ .err .fuel :=
  (all_f cfg gas).1 lines start st hl hg

/-- **tokenize_block terminates and returns** on complete lines, given `gasBound` gas -/
theorem tokenizeBlock_total (cfg : Cfg) (gas : Nat) (lines : List Line) (start : Nat) (st : St)
    (hg : gasBound cfg lines ≤ gas) (hl : AllNlEnd lines) : ∃ r, tokenizeBlock cfg gas lines start st = .ok r := by
  cases h : tokenizeBlock cfg gas lines start st with
  | ok r => exact ⟨r, rfl⟩
  | err e =>
    have := tokenizeBlock_no_raise cfg gas lines start st e hl h
    subst this
    exact absurd h (tokenizeBlock_enough_gas cfg gas lines start st hg hl)

/-! ### The gas is irrelevant once it suffices -/

def TokM (cfg : Cfg) (gas : Nat) : Prop :=
  ∀ (lines : List Line) (start : Nat) (st : St) (r), tokenizeBlock cfg gas lines start st = .ok r →
    tokenizeBlock cfg (gas + 1) lines start st = .ok r

def LoopM (cfg : Cfg) (gas : Nat) : Prop :=
  ∀ (fw : FW) (st : St) (acc : List Entry) (loose : Bool) (r), tokLoop cfg gas fw st acc loose = .ok r →
    tokLoop cfg (gas + 1) fw st acc loose = .ok r

def TryM (cfg : Cfg) (gas : Nat) : Prop :=
  ∀ (fw : FW) (st : St) (l : Line) (ts : List BTok) (r), tryTypes cfg gas fw st l ts = .ok r →
    tryTypes cfg (gas + 1) fw st l ts = .ok r

def ListM (cfg : Cfg) (gas : Nat) : Prop :=
  ∀ (fw : FW) (st : St) (ld) (nm) (acc : List Item) (r), readList cfg gas fw st ld nm acc = .ok r →
    readList cfg (gas + 1) fw st ld nm acc = .ok r

theorem tok_m (cfg : Cfg) (gas : Nat) (hP : LoopM cfg gas) : TokM cfg (gas + 1) := by
  intro lines start st r h
  simp only [tokenizeBlock] at h ⊢
  exact hP _ _ _ _ _ h

theorem loop_m (cfg : Cfg) (gas : Nat) (hY : TryM cfg gas) (hP : LoopM cfg gas) : LoopM cfg (gas + 1) := by
  intro fw st acc loose r h
  simp only [tokLoop] at h ⊢
  split at h
  · rename_i hp; (try simp only [hp]); exact h
  · rename_i l hp
    try simp only [hp]
    split at h
    · cases h
    · rename_i ht
      try simp only [hY _ _ _ _ _ ht]
      exact hP _ _ _ _ _ h
    · rename_i ht
      try simp only [hY _ _ _ _ _ ht]
      exact hP _ _ _ _ _ h

set_option linter.unusedSimpArgs false in
theorem try_m (cfg : Cfg) (gas : Nat) (hT : TokM cfg gas) (hL : ListM cfg gas) (hY : TryM cfg gas) : TryM cfg (gas + 1) := by
  intro fw st l ts r h
  cases ts with
  | nil => simp only [tryTypes] at h ⊢; exact h
  | cons t ts =>
    cases t <;> simp only [tryTypes] at h ⊢
    · -- htmlBlock
      split at h
      · cases h
      · rename_i heq; (try simp only [heq]); exact hY _ _ _ _ _ h
      · rename_i heq; (try simp only [heq]); exact h
    · -- blockCode
      split at h
      · rename_i hc; (try simp only [hc, ↓reduceIte]); exact h
      · rename_i hc; (try simp only [hc, ↓reduceIte]); exact hY _ _ _ _ _ h
    · -- heading
      split at h
      · rename_i heq; (try simp only [heq]); exact h
      · rename_i heq; (try simp only [heq]); exact hY _ _ _ _ _ h
    · -- quote
      split at h
      · rename_i hc
        split at h
        · cases h
        · rename_i heq
          split at h
          · cases h
          · rename_i hb
            (try simp only [hc, ↓reduceIte, heq, hT _ _ _ _ hb]); exact h
      · rename_i hc; (try simp only [hc, ↓reduceIte]); exact hY _ _ _ _ _ h
    · -- codeFence
      split at h
      · rename_i heq; (try simp only [heq]); exact h
      · rename_i heq; (try simp only [heq]); exact hY _ _ _ _ _ h
    · -- thematicBreak
      split at h
      · rename_i hc; (try simp only [hc, ↓reduceIte]); exact h
      · rename_i hc; (try simp only [hc, ↓reduceIte]); exact hY _ _ _ _ _ h
    · -- list
      split at h
      · rename_i hc
        split at h
        · cases h
        · rename_i heq
          (try simp only [hc, ↓reduceIte, hL _ _ _ _ _ _ heq]); exact h
      · rename_i hc; (try simp only [hc, ↓reduceIte]); exact hY _ _ _ _ _ h
    · -- table
      split at h
      · rename_i hc
        split at h
        · rename_i heq; (try simp only [hc, ↓reduceIte, heq]); exact h
        · rename_i heq; (try simp only [hc, ↓reduceIte, heq]); exact hY _ _ _ _ _ h
      · rename_i hc; (try simp only [hc, ↓reduceIte]); exact hY _ _ _ _ _ h
    · -- footnote
      split at h
      · rename_i hc
        split at h
        · cases h
        · rename_i heq
          split at h
          · rename_i hms; (try simp only [hc, ↓reduceIte, heq, hms]); exact hY _ _ _ _ _ h
          · rename_i hms; (try simp only [hc, ↓reduceIte, heq, hms]); exact h
      · rename_i hc; (try simp only [hc, ↓reduceIte]); exact hY _ _ _ _ _ h
    · -- paragraph
      split at h
      · rename_i hc
        split at h
        · cases h
        · rename_i heq; (try simp only [hc, ↓reduceIte, heq]); exact h
        · rename_i heq; (try simp only [hc, ↓reduceIte, heq]); exact h
      · rename_i hc; (try simp only [hc, ↓reduceIte]); exact hY _ _ _ _ _ h
    · -- blankLine
      split at h
      · rename_i hc; (try simp only [hc, ↓reduceIte]); exact h
      · rename_i hc; (try simp only [hc, ↓reduceIte]); exact hY _ _ _ _ _ h
    · -- linkRefDefBlock
      split at h
      · rename_i hc
        split at h
        · cases h
        · rename_i heq
          split at h
          · rename_i hms; (try simp only [hc, ↓reduceIte, heq, hms]); exact hY _ _ _ _ _ h
          · rename_i hms; (try simp only [hc, ↓reduceIte, heq, hms]); exact h
      · rename_i hc; (try simp only [hc, ↓reduceIte]); exact hY _ _ _ _ _ h

theorem list_m (cfg : Cfg) (gas : Nat) (hT : TokM cfg gas) (hL : ListM cfg gas) : ListM cfg (gas + 1) := by
  intro fw st ld nm acc r h
  simp only [readList] at h ⊢
  by_cases hom : otherMarkerType ld nm = true
  · simpa only [hom, ↓reduceIte] using h
  simp only [hom, Bool.false_eq_true, ↓reduceIte] at h ⊢
  cases hil : itemLines cfg fw nm with
  | err e => simp [hil] at h
  | ok il =>
    simp only [hil] at h ⊢
    cases il with
    | empty ind p ldr ln og next fw' =>
      simp only at h ⊢
      cases ld with
      | some d =>
        simp only at h ⊢
        cases next with
        | none => exact h
        | some m => exact hL _ _ _ _ _ _ h
      | none =>
        simp only at h ⊢
        cases next with
        | none => exact h
        | some m => exact hL _ _ _ _ _ _ h
    | lines buf cs ind p ldr ln og next fw' =>
      simp only at h ⊢
      cases hb : tokenizeBlock cfg gas buf cs st with
      | err e => simp [hb] at h
      | ok bb =>
        simp only [hb, hT _ _ _ _ hb] at h ⊢
        cases ld with
        | some d =>
          simp only at h ⊢
          cases next with
          | none => exact h
          | some m => exact hL _ _ _ _ _ _ h
        | none =>
          simp only at h ⊢
          cases next with
          | none => exact h
          | some m => exact hL _ _ _ _ _ _ h

theorem all_m (cfg : Cfg) : ∀ (gas : Nat), TokM cfg gas ∧ LoopM cfg gas ∧ TryM cfg gas ∧ ListM cfg gas
  | 0 => by
    refine ⟨?_, ?_, ?_, ?_⟩
    · intro lines start st r h; simp [tokenizeBlock] at h
    · intro fw st acc loose r h; simp [tokLoop] at h
    · intro fw st l ts r h; simp [tryTypes] at h
    · intro fw st ld nm acc r h; simp [readList] at h
  | gas + 1 => by
    obtain ⟨hT, hP, hY, hL⟩ := all_m cfg gas
    exact ⟨tok_m cfg gas hP, loop_m cfg gas hY hP, try_m cfg gas hT hL hY, list_m cfg gas hT hL⟩

/-- **gas monotonicity**: a result obtained with some gas is obtained with any larger gas -/
theorem tokenizeBlock_gas_mono (cfg : Cfg) (lines : List Line) (start : Nat) (st : St) (r) :
    ∀ (g g' : Nat), g ≤ g' → tokenizeBlock cfg g lines start st = .ok r → tokenizeBlock cfg g' lines start st = .ok r := by
  intro g g' hle h
  obtain ⟨k, rfl⟩ := Nat.exists_eq_add_of_le hle
  induction k with
  | zero => exact h
  | succ k ih => exact (all_m cfg (g + k)).1 lines start st r (ih (Nat.le_add_right _ _))

/-! ### The block phase of `Document(lines)` -/

/-- the buffer `Document.__init__` hands to `tokenize_block` (ghost origins attached) -/
def docBuf (lines : List Str) : List Line := lines.zipIdx.map (fun (s, i) => { s := s, origin := i + 1 })

theorem blockPhase_eq (cfg : Cfg) (gas : Nat) (lines : List Str) :
    blockPhase cfg gas lines = tokenizeBlock cfg gas (docBuf lines) 1 {} := rfl

theorem lw_zipIdx : ∀ (ls : List Str) (k : Nat),
    lw ((ls.zipIdx k).map (fun (s, i) => ({ s := s, origin := i + 1 } : Line))) = (ls.map sw).sum
  | [], _ => rfl
  | x :: xs, k => by
    simp only [List.zipIdx_cons, List.map_cons, lw, List.sum_cons, lw_zipIdx xs (k + 1)]

/-- the weight of a document: its number of characters, a tab counting 4 -/
theorem lw_docBuf (lines : List Str) : lw (docBuf lines) = (lines.map sw).sum := lw_zipIdx lines 0

theorem blockPhase_total (cfg : Cfg) (gas : Nat) (lines : List Str) (hl : ∀ s ∈ lines, NlEnd s)
    (hg : gasBound cfg (docBuf lines) ≤ gas) : ∃ r, blockPhase cfg gas lines = .ok r :=
  tokenizeBlock_total cfg gas _ 1 {} hg (allNlEnd_zipIdx lines hl)

theorem blockPhase_gas_mono (cfg : Cfg) (lines : List Str) (r) (g g' : Nat) (hle : g ≤ g')
    (h : blockPhase cfg g lines = .ok r) : blockPhase cfg g' lines = .ok r :=
  tokenizeBlock_gas_mono cfg _ 1 {} r g g' hle h

/-- beyond `gasBound` the gas has no influence on the result -/
theorem blockPhase_gas_irrelevant (cfg : Cfg) (gas : Nat) (lines : List Str) (hl : ∀ s ∈ lines, NlEnd s)
    (hg : gasBound cfg (docBuf lines) ≤ gas) :
    blockPhase cfg gas lines = blockPhase cfg (gasBound cfg (docBuf lines)) lines := by
  obtain ⟨r, hr⟩ := blockPhase_total cfg _ lines hl (Nat.le_refl _)
  rw [hr]
  exact blockPhase_gas_mono cfg lines r _ _ hg hr

end Mistletoe.Block
