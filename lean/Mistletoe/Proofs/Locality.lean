/-
  Locality of the block parser (C05).

  (S1) `FW.up pre b`: the cursor `b` seen through a buffer that has `pre` in front.  No reader looks
       at or steps back into `pre`: every reader commutes with `up` (`up_all`, `tokLoop_suffix`).
  (S2) `FW.sh k b`: the same buffer with `start` and every ghost origin shifted by `k`.  Every
       reader commutes with `sh`, payloads carrying line numbers are shifted (`sh_all`, `tokenizeBlock_shift`).
  (M)  more gas never changes a result (`mono_all`).
  (P)  `FW.ext post a`: the same cursor on the buffer with `post` (beginning with a "\n" line)
       appended.  Readers that stop at a blank line as at the end of input commute with `ext`; the
       others do when they stopped before the end (`extTry2_all`, `tokLoop_ext`).
  Also: the accumulator of the dispatch loop is a prefix of its result (`tokLoop_acc`), and
  `Paragraph.parse_setext` is `True` after every top-level read (`sx_all`).
-/
import Mistletoe.Proofs.Block
import Mistletoe.Proofs.BlockTotal
namespace Mistletoe.Block
open Mistletoe Mistletoe.Py Mistletoe.Scan

/-! ### Results -/

/-- apply `f` to the value of a result -/
def rmap {α β} (f : α → β) : Res α → Res β
  | .ok a => .ok (f a)
  | .err e => .err e

@[simp] theorem rmap_ok {α β} (f : α → β) (a : α) : rmap f (.ok a) = .ok (f a) := rfl
@[simp] theorem rmap_err {α β} (f : α → β) (e : Err) : rmap f (.err e : Res α) = .err e := rfl

/-! ### (S1) a prefix in front of the buffer -/

/-- the cursor `b` seen through a buffer with `pre` put in front of it -/
def FW.up (pre : List Line) (b : FW) : FW :=
  { lines := pre ++ b.lines, pos := b.pos + pre.length, start := b.start - pre.length }

theorem up_peek (pre : List Line) (b : FW) : (b.up pre).peek = b.peek := by
  simp [FW.up, FW.peek, List.getElem?_append_right]

theorem up_next (pre : List Line) (b : FW) : (b.up pre).next = b.next.up pre := by
  simp only [FW.up, FW.next, FW.mk.injEq, true_and, and_true]; omega

theorem up_remaining (pre : List Line) (b : FW) : (b.up pre).remaining = b.remaining := by
  simp only [FW.up, FW.remaining, List.length_append]; omega

theorem up_lineNumber (pre : List Line) (b : FW) (hs : pre.length ≤ b.start) : (b.up pre).lineNumber = b.lineNumber := by
  simp only [FW.up, FW.lineNumber]; omega

theorem up_ln (pre : List Line) (b : FW) (hs : pre.length ≤ b.start) : (b.up pre).start + (b.up pre).pos = b.start + b.pos := by
  simp only [FW.up]; omega

/-- stepping back `t` lines, not beyond the first line of `b` -/
theorem up_setpos (pre : List Line) (b : FW) (t : Nat) (h : t ≤ b.pos) :
    { b.up pre with pos := (b.up pre).pos - t } = FW.up pre { b with pos := b.pos - t } := by
  simp only [FW.up, FW.mk.injEq, true_and, and_true]; omega

theorem up_backstep (pre : List Line) (b : FW) (h : 0 < b.pos) : (b.up pre).backstep = b.backstep.up pre := by
  simp only [FW.up, FW.backstep, FW.mk.injEq, true_and, and_true]; omega

theorem up_next_backstep (pre : List Line) (b : FW) : (b.up pre).next.backstep = b.next.backstep.up pre := by
  rw [up_next, up_backstep]; simp [FW.next]

/-! #### BlockCode -/

theorem blockCodeLoop_up (pre : List Line) : ∀ (fuel : Nat) (b : FW) (buf : List Str) (tb : Nat),
    blockCodeLoop fuel (b.up pre) buf tb =
      ((blockCodeLoop fuel b buf tb).1, (blockCodeLoop fuel b buf tb).2.1, (blockCodeLoop fuel b buf tb).2.2.up pre)
  | 0, _, _, _ => rfl
  | fuel + 1, b, buf, tb => by
    simp only [blockCodeLoop, up_peek]
    split
    · rfl
    · split
      · rw [up_next]; exact blockCodeLoop_up pre fuel _ _ _
      · split
        · rw [up_next_backstep]
        · rw [up_next]; exact blockCodeLoop_up pre fuel _ _ _

/-- the trailing-blank counter never exceeds the number of lines consumed -/
theorem blockCodeLoop_tb : ∀ (fuel : Nat) (b : FW) (buf : List Str) (tb p0 : Nat), tb + p0 ≤ b.pos →
    (blockCodeLoop fuel b buf tb).2.1 + p0 ≤ (blockCodeLoop fuel b buf tb).2.2.pos
  | 0, _, _, _, _, h => h
  | fuel + 1, b, buf, tb, p0, h => by
    have hn : b.next.pos = b.pos + 1 := rfl
    simp only [blockCodeLoop]
    split
    · exact h
    · split
      · apply blockCodeLoop_tb fuel
        omega
      · split
        · simpa [FW.next, FW.backstep] using h
        · apply blockCodeLoop_tb fuel; omega

theorem readBlockCode_up (pre : List Line) (b : FW) :
    readBlockCode (b.up pre) = ((readBlockCode b).1, (readBlockCode b).2.up pre) := by
  unfold readBlockCode
  rw [up_remaining, blockCodeLoop_up]
  simp only
  have := blockCodeLoop_tb (b.remaining + 1) b [] 0 0 (by omega)
  rw [up_setpos _ _ _ (by omega)]

theorem readBlockCode_pos (b : FW) : b.pos ≤ (readBlockCode b).2.pos := by
  unfold readBlockCode
  have := blockCodeLoop_tb (b.remaining + 1) b [] 0 b.pos (by omega)
  revert this
  generalize blockCodeLoop (b.remaining + 1) b [] 0 = r
  obtain ⟨x, y, z⟩ := r
  simp only; omega

/-! #### Heading, CodeFence, Table, HtmlBlock -/

theorem readHeading_up (pre : List Line) (b : FW) (line : Str) :
    readHeading (b.up pre) line = (readHeading b line).map (fun r => (r.1, r.2.1, r.2.2.1, r.2.2.2.up pre)) := by
  unfold readHeading
  split
  · rfl
  · simp [up_next]

theorem codeFenceLoop_up (pre : List Line) (ld : Str) (p : Nat) : ∀ (fuel : Nat) (b : FW) (buf : List Str),
    codeFenceLoop ld p fuel (b.up pre) buf = ((codeFenceLoop ld p fuel b buf).1, (codeFenceLoop ld p fuel b buf).2.up pre)
  | 0, _, _ => rfl
  | fuel + 1, b, buf => by
    simp only [codeFenceLoop, up_peek]
    split
    · rfl
    · split <;> first
        | (rw [up_next]; exact codeFenceLoop_up pre ld p fuel _ _)
        | rw [up_next]

theorem readCodeFence_up (pre : List Line) (b : FW) (m : FenceMatch) :
    readCodeFence (b.up pre) m = ((readCodeFence b m).1, (readCodeFence b m).2.up pre) := by
  unfold readCodeFence
  rw [up_remaining, up_next, codeFenceLoop_up]

theorem tableLoop_up (pre : List Line) : ∀ (fuel : Nat) (b : FW) (buf : List Str),
    tableLoop fuel (b.up pre) buf = ((tableLoop fuel b buf).1, (tableLoop fuel b buf).2.up pre)
  | 0, _, _ => rfl
  | fuel + 1, b, buf => by
    simp only [tableLoop, up_peek]
    split
    · split
      · rw [up_next]; exact tableLoop_up pre fuel _ _
      · rfl
    · rfl

theorem readTable_up (pre : List Line) (b : FW) (hs : pre.length ≤ b.start) :
    readTable (b.up pre) = (readTable b).map (fun r => (r.1, r.2.1, r.2.2.up pre)) := by
  unfold readTable
  simp only [up_peek]
  split
  · rfl
  · simp only [up_remaining, up_next, tableLoop_up, up_lineNumber pre b.next hs]
    split
    · split <;> rfl
    · rfl

theorem htmlBlockLoop_up (pre : List Line) (ec : Option Str) : ∀ (fuel : Nat) (b : FW) (buf : List Str),
    htmlBlockLoop ec fuel (b.up pre) buf = ((htmlBlockLoop ec fuel b buf).1, (htmlBlockLoop ec fuel b buf).2.up pre)
  | 0, _, _ => rfl
  | fuel + 1, b, buf => by
    simp only [htmlBlockLoop, up_peek]
    split
    · rfl
    · split
      · split
        · rw [up_next]
        · rw [up_next]; exact htmlBlockLoop_up pre _ fuel _ _
      · split
        · rw [up_next_backstep]
        · rw [up_next]; exact htmlBlockLoop_up pre _ fuel _ _

theorem readHtmlBlock_up (pre : List Line) (b : FW) (ec : Option Str) :
    readHtmlBlock (b.up pre) ec = ((readHtmlBlock b ec).1, (readHtmlBlock b ec).2.up pre) := by
  unfold readHtmlBlock
  rw [up_remaining, htmlBlockLoop_up]

/-! #### Footnote: hands back at most the lines it consumed -/

theorem footnoteLines_up (pre : List Line) : ∀ (fuel : Nat) (b : FW) (buf : List Str),
    footnoteLines fuel (b.up pre) buf = ((footnoteLines fuel b buf).1, (footnoteLines fuel b buf).2.up pre)
  | 0, _, _ => rfl
  | fuel + 1, b, buf => by
    simp only [footnoteLines, up_peek]
    split
    · split
      · rw [up_next]; exact footnoteLines_up pre fuel _ _
      · rfl
    · rfl

theorem count_drop_le (ch : Char) (s : Str) (n : Nat) : count ch (s.drop n) ≤ count ch s := by
  have : s = s.take n ++ s.drop n := (List.take_append_drop n s).symm
  conv => rhs; rw [this, count_append]
  omega

theorem footnoteRefs_backLe (s : Str) : ∀ (fuel off : Nat) (acc : List FnMatch) (ms) (k : Nat),
    footnoteRefs s fuel off acc = .ok (ms, some k) → k ≤ count '\n' s
  | 0, _, _, _, _, h => by simp [footnoteRefs] at h
  | fuel + 1, off, acc, ms, k, h => by
    simp only [footnoteRefs] at h
    split at h
    · split at h
      · cases h
      · cases h; exact count_drop_le _ _ _
      · exact footnoteRefs_backLe s fuel _ _ _ _ h
    · cases h

/-- lines handed back by `Footnote.read` ≤ lines consumed (every line ends with its only newline) -/
theorem readFootnote_back (b : FW) (hl : AllNlEnd b.lines) (ms) (k : Nat)
    (h : footnoteRefs ((footnoteLines (b.remaining + 1) b []).1.reverse).flatten
      (((footnoteLines (b.remaining + 1) b []).1.reverse).flatten.length + 2) 0 [] = .ok (ms, some k)) :
    k + b.pos ≤ (footnoteLines (b.remaining + 1) b []).2.pos := by
  have hspec := footnoteLines_spec (b.remaining + 1) b [] b.pos (by intro x hx; cases hx) (by simp) hl
  have hk := footnoteRefs_backLe _ _ _ _ _ _ h
  rw [count_flatten_nl _ (fun x hx => hspec.1 x (by simpa using hx))] at hk
  have := hspec.2.1
  simp only [List.length_reverse] at hk
  omega

theorem readFootnote_up (pre : List Line) (b : FW) (hl : AllNlEnd b.lines) :
    readFootnote (b.up pre) = rmap (fun r => (r.1, r.2.up pre)) (readFootnote b) := by
  unfold readFootnote
  simp only [up_remaining, footnoteLines_up]
  split
  · rfl
  · rename_i ms back hrefs
    cases back with
    | none => rfl
    | some k =>
      have := readFootnote_back b hl ms k hrefs
      simp only [rmap_ok]
      rw [up_setpos _ _ _ (by omega)]

theorem readFootnote_pos (b : FW) (hl : AllNlEnd b.lines) (ms) (fw') (h : readFootnote b = .ok (ms, fw')) : b.pos ≤ fw'.pos := by
  have hspec := footnoteLines_spec (b.remaining + 1) b [] b.pos (by intro x hx; cases hx) (by simp) hl
  unfold readFootnote at h
  simp only at h
  split at h
  · cases h
  · rename_i ms' back hrefs
    cases h
    cases back with
    | none => have := hspec.2.1; simp only; omega
    | some k => have := readFootnote_back b hl _ k hrefs; simp only; omega

/-! #### check_interrupts_paragraph, Paragraph, Quote -/

theorem interruptsOne_up (cfg : Cfg) (pre : List Line) (b : FW) (hs : pre.length ≤ b.start) (t : BTok) :
    interruptsOne cfg (b.up pre) t = interruptsOne cfg b t := by
  unfold interruptsOne
  rw [up_peek, readTable_up pre b hs]
  cases readTable b <;> rfl

theorem anyInterrupt_up (cfg : Cfg) (pre : List Line) (b : FW) (hs : pre.length ≤ b.start) (skip : BTok) (sk : Bool) :
    ∀ ts, anyInterrupt cfg (b.up pre) skip sk ts = anyInterrupt cfg b skip sk ts
  | [] => rfl
  | t :: ts => by
    simp only [anyInterrupt, interruptsOne_up cfg pre b hs, anyInterrupt_up cfg pre b hs skip sk ts]

theorem paragraphLoop_up (cfg : Cfg) (so : Bool) (pre : List Line) : ∀ (fuel : Nat) (b : FW) (buf : List Str),
    pre.length ≤ b.start →
    paragraphLoop cfg so fuel (b.up pre) buf = rmap (fun r => (r.1, r.2.1, r.2.2.up pre)) (paragraphLoop cfg so fuel b buf)
  | 0, _, _, _ => rfl
  | fuel + 1, b, buf, hs => by
    simp only [paragraphLoop, up_peek, anyInterrupt_up cfg pre b hs]
    split
    · rfl
    · split
      · rfl
      · split
        · rfl
        · rfl
        · split
          · rw [up_next]; rfl
          · split
            · rfl
            · rw [up_next]; exact paragraphLoop_up cfg so pre fuel _ _ hs

theorem readParagraph_up (cfg : Cfg) (so : Bool) (pre : List Line) (b : FW) (l0 : Str) (hs : pre.length ≤ b.start) :
    readParagraph cfg so (b.up pre) l0 = rmap (fun r => (r.1, r.2.1, r.2.2.up pre)) (readParagraph cfg so b l0) := by
  have hs' : pre.length ≤ b.next.start := hs
  unfold readParagraph
  rw [up_remaining, up_next, paragraphLoop_up cfg so pre _ _ _ hs']
  cases paragraphLoop cfg so (b.remaining + 1) b.next [l0] <;> rfl

theorem quoteLoop_up (cfg : Cfg) (pre : List Line) : ∀ (fuel : Nat) (b : FW) (buf : List Line) (fl : QFlags),
    pre.length ≤ b.start →
    quoteLoop cfg fuel (b.up pre) buf fl = rmap (fun r => (r.1, r.2.up pre)) (quoteLoop cfg fuel b buf fl)
  | 0, _, _, _, _ => rfl
  | fuel + 1, b, buf, fl, hs => by
    simp only [quoteLoop, up_peek, anyInterrupt_up cfg pre b hs]
    split
    · rfl
    · split
      · rfl
      · split
        · rfl
        · rfl
        · split
          · rfl
          · split
            · rfl
            · split
              · split
                · rfl
                · rw [up_next]; exact quoteLoop_up cfg pre fuel _ _ _ hs
              · split
                · rfl
                · rw [up_next]; exact quoteLoop_up cfg pre fuel _ _ _ hs

theorem quoteLines_up (cfg : Cfg) (pre : List Line) (b : FW) (l0 : Line) (hs : pre.length ≤ b.start) :
    quoteLines cfg (b.up pre) l0 = rmap (fun r => (r.1, r.2.1, r.2.2.up pre)) (quoteLines cfg b l0) := by
  have hs' : pre.length ≤ b.next.start := hs
  unfold quoteLines
  split
  · rfl
  · split
    · rfl
    · simp only [up_remaining, up_next, quoteLoop_up cfg pre _ _ _ _ hs', up_lineNumber pre b.next hs]
      cases quoteLoop cfg (b.remaining + 1) b.next _ _ <;> rfl

/-! #### ListItem -/

theorem dropTrailing_up (pre : List Line) (b : FW) (buf : List Line) (nl : Nat) (hp : 0 < b.pos) :
    dropTrailing (b.up pre) buf nl = (((dropTrailing b buf nl).1).up pre, (dropTrailing b buf nl).2) := by
  unfold dropTrailing
  split
  · rw [up_backstep _ _ hp]
  · rfl

theorem itemLoop_up (cfg : Cfg) (prepend : Nat) (pre : List Line) : ∀ (fuel : Nat) (b : FW) (buf : List Line) (nl : Nat),
    pre.length ≤ b.start → 0 < b.pos →
    itemLoop cfg prepend fuel (b.up pre) buf nl = rmap (fun r => (r.1, r.2.1.up pre, r.2.2)) (itemLoop cfg prepend fuel b buf nl)
  | 0, _, _, _, _, _ => rfl
  | fuel + 1, b, buf, nl, hs, hp => by
    have hn : 0 < b.next.pos := Nat.succ_pos _
    simp only [itemLoop, up_peek, anyInterrupt_up cfg pre b hs, dropTrailing_up pre b buf nl hp]
    split
    · rfl
    · split
      · split
        · rfl
        · rw [up_next]; exact itemLoop_up cfg prepend pre fuel _ _ _ hs hn
      · split
        · rfl
        · rfl
        · split
          · rfl
          · split
            · rfl
            · rw [up_next]; exact itemLoop_up cfg prepend pre fuel _ _ _ hs hn

theorem skipBlanks_up (pre : List Line) : ∀ (fuel : Nat) (b : FW) (n : Nat),
    skipBlanks fuel (b.up pre) n = ((skipBlanks fuel b n).1.up pre, (skipBlanks fuel b n).2)
  | 0, _, _ => rfl
  | fuel + 1, b, n => by
    simp only [skipBlanks, up_peek]
    split
    · split
      · rw [up_next]; exact skipBlanks_up pre fuel _ _
      · rfl
    · rfl

def ItemLines.up (pre : List Line) : ItemLines → ItemLines
  | .empty i p ld ln og nx fw => .empty i p ld ln og nx (fw.up pre)
  | .lines buf cs i p ld ln og nx fw => .lines buf cs i p ld ln og nx (fw.up pre)

theorem itemLines_up (cfg : Cfg) (pre : List Line) (b : FW) (prev) (hs : pre.length ≤ b.start) :
    itemLines cfg (b.up pre) prev = rmap (ItemLines.up pre) (itemLines cfg b prev) := by
  have hsk := skipBlanks_inv (b.remaining + 1) b.next 1
  have hpos : 0 < (skipBlanks (b.remaining + 1) b.next 1).1.pos := by
    have : b.next.pos = b.pos + 1 := rfl
    have := hsk.2.1; omega
  have hst : pre.length ≤ (skipBlanks (b.remaining + 1) b.next 1).1.start := by
    rw [hsk.1.2]; exact hs
  unfold itemLines
  simp only [up_peek]
  split
  · rfl
  · simp only [up_remaining, up_next, up_lineNumber pre b.next hs, skipBlanks_up, up_peek]
    split
    · rfl
    · split
      · split
        · rfl
        · rw [itemLoop_up cfg _ pre _ _ _ _ hst hpos]
          cases itemLoop cfg _ (b.remaining + 1) (skipBlanks (b.remaining + 1) b.next 1).1 [] 0 <;> rfl
      · rw [itemLoop_up cfg _ pre _ b.next _ _ hs (Nat.succ_pos _)]
        cases itemLoop cfg _ (b.remaining + 1) b.next _ 0 <;> rfl

/-! #### The cursor stays in its buffer (no hypothesis on origins) -/

theorem quoteLoop_same (cfg : Cfg) : ∀ (fuel : Nat) (fw : FW) (buf : List Line) (fl : QFlags) (r),
    quoteLoop cfg fuel fw buf fl = .ok r → Same fw r.2
  | 0, _, _, _, _, h => by simp [quoteLoop] at h
  | fuel + 1, fw, buf, fl, r, h => by
    simp only [quoteLoop] at h
    split at h
    · cases h; exact Same.refl fw
    · split at h
      · cases h; exact Same.refl fw
      · split at h
        · cases h
        · cases h; exact Same.refl fw
        · split at h
          · cases h
          · split at h
            · cases h
            · split at h
              · split at h
                · cases h
                · exact (same_next fw).trans (quoteLoop_same cfg fuel _ _ _ r h)
              · split at h
                · cases h; exact Same.refl fw
                · exact (same_next fw).trans (quoteLoop_same cfg fuel _ _ _ r h)

theorem quoteLines_same (cfg : Cfg) (fw : FW) (l0 : Line) (r) (h : quoteLines cfg fw l0 = .ok r) : Same fw r.2.2 := by
  unfold quoteLines at h
  split at h
  · cases h
  · split at h
    · cases h
    · simp only at h
      split at h
      · cases h
      · rename_i buf fw2 heq
        cases h
        exact (same_next fw).trans (quoteLoop_same cfg _ _ _ _ _ heq)

theorem itemLoop_same (cfg : Cfg) (prepend : Nat) : ∀ (fuel : Nat) (fw : FW) (buf : List Line) (nl : Nat) (r),
    itemLoop cfg prepend fuel fw buf nl = .ok r → Same fw r.2.1
  | 0, _, _, _, _, h => by simp [itemLoop] at h
  | fuel + 1, fw, buf, nl, r, h => by
    simp only [itemLoop] at h
    split at h
    · cases h; exact dropTrailing_same fw buf nl
    · split at h
      · split at h
        · cases h
        · exact (same_next fw).trans (itemLoop_same cfg prepend fuel _ _ _ r h)
      · split at h
        · cases h
        · cases h; exact dropTrailing_same fw buf nl
        · split at h
          · cases h; exact Same.refl fw
          · split at h
            · cases h; exact dropTrailing_same fw buf nl
            · exact (same_next fw).trans (itemLoop_same cfg prepend fuel _ _ _ r h)

def ItemLines.cursor : ItemLines → FW
  | .empty _ _ _ _ _ _ fw => fw
  | .lines _ _ _ _ _ _ _ _ fw => fw

theorem itemLines_same (cfg : Cfg) (fw : FW) (prev) (il : ItemLines) (h : itemLines cfg fw prev = .ok il) : Same fw il.cursor := by
  have hsk := (skipBlanks_inv (fw.remaining + 1) fw.next 1).1
  unfold itemLines at h
  split at h
  · cases h
  · simp only at h
    split at h
    · cases h
    · split at h
      · split at h
        · cases h; exact (same_next fw).trans hsk
        · split at h
          · cases h
          · rename_i buf fw3 next heq
            cases h
            exact ((same_next fw).trans hsk).trans (itemLoop_same cfg _ _ _ _ _ _ heq)
      · split at h
        · cases h
        · rename_i buf fw3 next heq
          cases h
          exact (same_next fw).trans (itemLoop_same cfg _ _ _ _ _ _ heq)

theorem itemLines_up_fw (pre : List Line) (il : ItemLines) : (il.up pre).cursor = il.cursor.up pre := by
  cases il <;> rfl

/-! #### tokenize_block: the cursor stays in its buffer -/

def SameTry (cfg : Cfg) (gas : Nat) : Prop :=
  ∀ (fw : FW) (st : St) (l : Line) (ts : List BTok) (r), tryTypes cfg gas fw st l ts = .ok (some r) → Same fw r.2.1

def SameList (cfg : Cfg) (gas : Nat) : Prop :=
  ∀ (fw : FW) (st : St) (ld) (nm) (acc : List Item) (r), readList cfg gas fw st ld nm acc = .ok r → Same fw r.2.1

theorem sameList_step (cfg : Cfg) (gas : Nat) (hL : SameList cfg gas) : SameList cfg (gas + 1) := by
  intro fw st ld nm acc r h
  simp only [readList] at h
  split at h
  · cases h; exact Same.refl fw
  split at h
  · cases h
  · rename_i il hil
    have hs := itemLines_same cfg fw nm il hil
    split at h
    · cases h
    · rename_i item itemLeader next fw' st' hres
      have hfw : fw' = il.cursor := by
        cases il with
        | empty => simp only at hres; cases hres; rfl
        | lines =>
          simp only at hres
          split at hres
          · cases hres
          · cases hres; rfl
      subst hfw
      split at h
      · split at h
        · cases h; exact hs
        · exact hs.trans (hL _ _ _ _ _ _ h)
      · split at h
        · cases h; exact hs
        · exact hs.trans (hL _ _ _ _ _ _ h)

theorem sameTry_step (cfg : Cfg) (gas : Nat) (hY : SameTry cfg gas) (hL : SameList cfg gas) : SameTry cfg (gas + 1) := by
  intro fw st l ts r h
  cases ts with
  | nil => simp [tryTypes] at h
  | cons t ts =>
    unfold tryTypes at h
    cases t <;> simp only at h
    · split at h
      · cases h
      · exact hY _ _ _ _ _ h
      · cases h; exact readHtmlBlock_same fw _
    · split at h
      · cases h; exact readBlockCode_same fw
      · exact hY _ _ _ _ _ h
    · split at h
      · rename_i hh
        cases h; exact readHeading_same fw l.s _ hh
      · exact hY _ _ _ _ _ h
    · split at h
      · split at h
        · cases h
        · rename_i hq
          split at h
          · cases h
          · cases h; exact quoteLines_same cfg fw l _ hq
      · exact hY _ _ _ _ _ h
    · split at h
      · cases h; exact readCodeFence_same fw _
      · exact hY _ _ _ _ _ h
    · split at h
      · cases h; exact same_next fw
      · exact hY _ _ _ _ _ h
    · split at h
      · split at h
        · cases h
        · rename_i hrl
          cases h; exact hL _ _ _ _ _ _ hrl
      · exact hY _ _ _ _ _ h
    · split at h
      · split at h
        · rename_i ht
          cases h; exact (readTable_same fw _ ht).1
        · exact hY _ _ _ _ _ h
      · exact hY _ _ _ _ _ h
    · split at h
      · split at h
        · cases h
        · rename_i hf
          have hsf := readFootnote_same fw _ _ hf
          split at h
          · exact hsf.trans (hY _ _ _ _ _ h)
          · cases h; exact hsf
      · exact hY _ _ _ _ _ h
    · split at h
      · split at h
        · cases h
        · rename_i hpp
          cases h; exact readParagraph_same cfg _ fw l.s _ hpp
        · rename_i hpp
          cases h; exact readParagraph_same cfg _ fw l.s _ hpp
      · exact hY _ _ _ _ _ h
    · split at h
      · cases h; exact same_next fw
      · exact hY _ _ _ _ _ h
    · split at h
      · split at h
        · cases h
        · rename_i hf
          have hsf := readFootnote_same fw _ _ hf
          split at h
          · exact hsf.trans (hY _ _ _ _ _ h)
          · cases h; exact hsf
      · exact hY _ _ _ _ _ h

theorem same_all (cfg : Cfg) : ∀ gas, SameTry cfg gas ∧ SameList cfg gas
  | 0 => ⟨by intro fw st l ts r h; simp [tryTypes] at h, by intro fw st ld nm acc r h; simp [readList] at h⟩
  | gas + 1 => by
    obtain ⟨hY, hL⟩ := same_all cfg gas
    exact ⟨sameTry_step cfg gas hY hL, sameList_step cfg gas hL⟩

/-! #### (S1) tokenize_block never looks at what precedes the block it is reading -/

def upT (pre : List Line) (r : Entry × FW × St) : Entry × FW × St := (r.1, r.2.1.up pre, r.2.2)
def upL (pre : List Line) (r : List Item × FW × St) : List Item × FW × St := (r.1, r.2.1.up pre, r.2.2)

def UpTry (cfg : Cfg) (pre : List Line) (gas : Nat) : Prop :=
  ∀ (b : FW) (st : St) (l : Line) (ts : List BTok), pre.length ≤ b.start → AllNlEnd b.lines →
    tryTypes cfg gas (b.up pre) st l ts = rmap (Option.map (upT pre)) (tryTypes cfg gas b st l ts)

def UpList (cfg : Cfg) (pre : List Line) (gas : Nat) : Prop :=
  ∀ (b : FW) (st : St) (ld) (nm) (acc : List Item), pre.length ≤ b.start → AllNlEnd b.lines →
    readList cfg gas (b.up pre) st ld nm acc = rmap (upL pre) (readList cfg gas b st ld nm acc)

def UpLoop (cfg : Cfg) (pre : List Line) (gas : Nat) : Prop :=
  ∀ (b : FW) (st : St) (acc : List Entry) (loose : Bool), pre.length ≤ b.start → AllNlEnd b.lines →
    tokLoop cfg gas (b.up pre) st acc loose = tokLoop cfg gas b st acc loose

theorem upList_step (cfg : Cfg) (pre : List Line) (gas : Nat) (hL : UpList cfg pre gas) : UpList cfg pre (gas + 1) := by
  intro b st ld nm acc hs hl
  simp only [readList, itemLines_up cfg pre b nm hs]
  by_cases hom : otherMarkerType ld nm = true
  · simp only [hom, ↓reduceIte]; rfl
  simp only [hom, Bool.false_eq_true, ↓reduceIte]
  cases hil : itemLines cfg b nm with
  | err e => rfl
  | ok il =>
    have hsame := itemLines_same cfg b nm il hil
    have hs' : pre.length ≤ il.cursor.start := by rw [hsame.2]; exact hs
    have hl' : AllNlEnd il.cursor.lines := by rw [hsame.1]; exact hl
    simp only [rmap_ok]
    cases il with
    | empty ind p ldr ln og next fw' =>
      simp only [ItemLines.up]
      simp only [ItemLines.cursor] at hs' hl'
      cases ld with
      | some d =>
        simp only
        cases next with
        | none => rfl
        | some m => exact hL fw' _ _ _ _ hs' hl'
      | none =>
        simp only
        cases next with
        | none => rfl
        | some m => exact hL fw' _ _ _ _ hs' hl'
    | lines buf cs ind p ldr ln og next fw' =>
      simp only [ItemLines.up]
      simp only [ItemLines.cursor] at hs' hl'
      cases tokenizeBlock cfg gas buf cs st with
      | err e => rfl
      | ok r =>
        obtain ⟨bb, st'⟩ := r
        cases ld with
        | some d =>
          simp only
          cases next with
          | none => rfl
          | some m => exact hL fw' _ _ _ _ hs' hl'
        | none =>
          simp only
          cases next with
          | none => rfl
          | some m => exact hL fw' _ _ _ _ hs' hl'

theorem upTry_step (cfg : Cfg) (pre : List Line) (gas : Nat) (hY : UpTry cfg pre gas) (hL : UpList cfg pre gas) :
    UpTry cfg pre (gas + 1) := by
  intro b st l ts hs hl
  cases ts with
  | nil => rfl
  | cons t ts =>
    have ih := fun st => hY b st l ts hs hl
    simp only [tryTypes, up_ln pre b hs]
    cases t <;> simp only
    · -- htmlBlock
      cases htmlBlockStart l.s with
      | err e => rfl
      | ok o =>
        cases o with
        | none => exact ih st
        | some p => simp only [readHtmlBlock_up]; rfl
    · -- blockCode
      split
      · simp only [readBlockCode_up]; rfl
      · exact ih st
    · -- heading
      rw [readHeading_up]
      cases readHeading b l.s with
      | none => exact ih st
      | some r => rfl
    · -- quote
      split
      · rw [quoteLines_up cfg pre b l hs]
        cases quoteLines cfg b l with
        | err e => rfl
        | ok r =>
          obtain ⟨qls, qstart, fw'⟩ := r
          simp only [rmap_ok]
          cases tokenizeBlock cfg gas qls qstart { st with setext := false } <;> rfl
      · exact ih st
    · -- codeFence
      cases codeFenceStart l.s with
      | none => exact ih st
      | some m => simp only [readCodeFence_up]; rfl
    · -- thematicBreak
      split
      · rw [up_next]; rfl
      · exact ih st
    · -- list
      split
      · rw [hL b st none none [] hs hl]
        cases readList cfg gas b st none none [] <;> rfl
      · exact ih st
    · -- table
      split
      · rw [readTable_up pre b hs]
        cases readTable b with
        | none => exact ih st
        | some r => rfl
      · exact ih st
    · -- footnote
      split
      · rw [readFootnote_up pre b hl]
        cases hf : readFootnote b with
        | err e => rfl
        | ok r =>
          obtain ⟨ms, fw'⟩ := r
          have hsame := readFootnote_same b ms fw' hf
          simp only [rmap_ok]
          split
          · exact hY fw' _ l ts (by rw [hsame.2]; exact hs) (by rw [hsame.1]; exact hl)
          · rfl
      · exact ih st
    · -- paragraph
      split
      · rw [readParagraph_up cfg _ pre b l.s hs]
        cases readParagraph cfg st.setext b l.s with
        | err e => rfl
        | ok r =>
          obtain ⟨bb, se, fw'⟩ := r
          cases se <;> rfl
      · exact ih st
    · -- blankLine
      split
      · rw [up_next]; rfl
      · exact ih st
    · -- linkRefDefBlock
      split
      · rw [readFootnote_up pre b hl]
        cases hf : readFootnote b with
        | err e => rfl
        | ok r =>
          obtain ⟨ms, fw'⟩ := r
          have hsame := readFootnote_same b ms fw' hf
          simp only [rmap_ok]
          split
          · exact hY fw' _ l ts (by rw [hsame.2]; exact hs) (by rw [hsame.1]; exact hl)
          · rfl
      · exact ih st

theorem upLoop_step (cfg : Cfg) (pre : List Line) (gas : Nat) (hY : UpTry cfg pre gas) (hP : UpLoop cfg pre gas) :
    UpLoop cfg pre (gas + 1) := by
  intro b st acc loose hs hl
  simp only [tokLoop, up_peek]
  cases b.peek with
  | none => rfl
  | some l =>
    simp only [hY b st l cfg.types hs hl]
    cases ht : tryTypes cfg gas b st l cfg.types with
    | err e => rfl
    | ok o =>
      cases o with
      | none =>
        simp only [rmap_ok, Option.map_none, up_next]
        exact hP b.next st acc true hs hl
      | some r =>
        obtain ⟨e, fw', st'⟩ := r
        have hsame := (same_all cfg gas).1 b st l cfg.types _ ht
        simp only [rmap_ok, Option.map_some, upT]
        exact hP fw' st' _ loose (by rw [hsame.2]; exact hs) (by rw [hsame.1]; exact hl)

theorem up_all (cfg : Cfg) (pre : List Line) : ∀ gas, UpLoop cfg pre gas ∧ UpTry cfg pre gas ∧ UpList cfg pre gas
  | 0 => ⟨fun _ _ _ _ _ _ => rfl, fun _ _ _ _ _ _ => rfl, fun _ _ _ _ _ _ _ => rfl⟩
  | gas + 1 => by
    obtain ⟨hP, hY, hL⟩ := up_all cfg pre gas
    exact ⟨upLoop_step cfg pre gas hY hP, upTry_step cfg pre gas hY hL, upList_step cfg pre gas hL⟩

/-- **Suffix locality.**  The dispatch loop started at the first line of `B` inside the buffer
    `pre ++ B` behaves exactly as on the buffer `B` alone whose first line is numbered
    `start + pre.length`: no reader ever looks at, or steps back into, the lines before the
    position where its block started.  (Every line of `B` ends with its only newline: `Footnote.read`
    hands back `string.count('\n')` lines.) -/
theorem tokLoop_suffix (cfg : Cfg) (gas : Nat) (pre B : List Line) (start : Nat) (st : St) (acc : List Entry) (loose : Bool)
    (hB : AllNlEnd B) :
    tokLoop cfg gas { lines := pre ++ B, pos := pre.length, start := start } st acc loose =
      tokLoop cfg gas { lines := B, pos := 0, start := start + pre.length } st acc loose := by
  have := (up_all cfg pre gas).1 { lines := B, pos := 0, start := start + pre.length } st acc loose (by simp) hB
  simpa [FW.up] using this

/-! ### (S2) shifting the start line and every ghost origin -/

mutual
/-- add `k` to the reported line number and to the ghost origin of an entry, at every depth -/
def shiftEntry (k : Nat) : Entry → Entry
  | .blockCode ls ln og => .blockCode ls (ln + k) (og + k)
  | .heading lv c cl ln og => .heading lv c cl (ln + k) (og + k)
  | .quote inner loose ln og => .quote (shiftEntries k inner) loose (ln + k) (og + k)
  | .codeFence ls p ld info lang ln og => .codeFence ls p ld info lang (ln + k) (og + k)
  | .thematicBreak s ln og => .thematicBreak s (ln + k) (og + k)
  | .list items ln og => .list (shiftItems k items) (ln + k) (og + k)
  | .table ls sl ln og => .table ls (sl + k) (ln + k) (og + k)
  | .footnote ms ln og => .footnote ms (ln + k) (og + k)
  | .linkRefDefs ms ln og => .linkRefDefs ms (ln + k) (og + k)
  | .paragraph ls ln og => .paragraph ls (ln + k) (og + k)
  | .setext ls ln og => .setext ls (ln + k) (og + k)
  | .htmlBlock ls ln og => .htmlBlock ls (ln + k) (og + k)
  | .blankLine ln og => .blankLine (ln + k) (og + k)
def shiftEntries (k : Nat) : List Entry → List Entry
  | [] => []
  | e :: es => shiftEntry k e :: shiftEntries k es
def shiftItem (k : Nat) : Item → Item
  | .mk inner loose i p ld ln og => .mk (shiftEntries k inner) loose i p ld (ln + k) (og + k)
def shiftItems (k : Nat) : List Item → List Item
  | [] => []
  | i :: is => shiftItem k i :: shiftItems k is
end

theorem shiftEntries_map (k : Nat) : ∀ es, shiftEntries k es = es.map (shiftEntry k)
  | [] => rfl
  | e :: es => by simp [shiftEntries, shiftEntries_map k es]

theorem shiftItems_map (k : Nat) : ∀ is, shiftItems k is = is.map (shiftItem k)
  | [] => rfl
  | i :: is => by simp [shiftItems, shiftItems_map k is]

theorem shiftEntries_length (k : Nat) (es : List Entry) : (shiftEntries k es).length = es.length := by
  simp [shiftEntries_map]

theorem shiftEntries_reverse (k : Nat) (es : List Entry) : shiftEntries k es.reverse = (shiftEntries k es).reverse := by
  simp [shiftEntries_map]

theorem shiftEntries_append (k : Nat) (a b : List Entry) : shiftEntries k (a ++ b) = shiftEntries k a ++ shiftEntries k b := by
  simp [shiftEntries_map]

theorem shiftItems_reverse (k : Nat) (is : List Item) : shiftItems k is.reverse = (shiftItems k is).reverse := by
  simp [shiftItems_map]

@[reducible] def Line.sh (k : Nat) (l : Line) : Line := { s := l.s, origin := l.origin + k }

@[simp] theorem Line.sh_s (k : Nat) (l : Line) : (l.sh k).s = l.s := rfl
@[simp] theorem Line.sh_origin (k : Nat) (l : Line) : (l.sh k).origin = l.origin + k := rfl

/-- the same cursor on the buffer whose first line is numbered `k` higher, origins shifted alike -/
def FW.sh (k : Nat) (b : FW) : FW := { lines := b.lines.map (Line.sh k), pos := b.pos, start := b.start + k }

theorem sh_peek (k : Nat) (b : FW) : (b.sh k).peek = b.peek.map (Line.sh k) := by
  simp [FW.sh, FW.peek]

theorem sh_next (k : Nat) (b : FW) : (b.sh k).next = b.next.sh k := rfl
theorem sh_backstep (k : Nat) (b : FW) : (b.sh k).backstep = b.backstep.sh k := rfl
theorem sh_remaining (k : Nat) (b : FW) : (b.sh k).remaining = b.remaining := by simp [FW.sh, FW.remaining]
theorem sh_next_lineNumber (k : Nat) (b : FW) : (b.sh k).next.lineNumber = b.next.lineNumber + k := by
  simp only [FW.sh, FW.next, FW.lineNumber]; omega
theorem sh_ln (k : Nat) (b : FW) : (b.sh k).start + (b.sh k).pos = b.start + b.pos + k := by
  simp only [FW.sh]; omega

theorem blockCodeLoop_sh (k : Nat) : ∀ (fuel : Nat) (b : FW) (buf : List Str) (tb : Nat),
    blockCodeLoop fuel (b.sh k) buf tb =
      ((blockCodeLoop fuel b buf tb).1, (blockCodeLoop fuel b buf tb).2.1, (blockCodeLoop fuel b buf tb).2.2.sh k)
  | 0, _, _, _ => rfl
  | fuel + 1, b, buf, tb => by
    simp only [blockCodeLoop, sh_peek]
    cases b.peek with
    | none => rfl
    | some l =>
      simp only [Option.map_some, sh_next, sh_backstep]
      split
      · exact blockCodeLoop_sh k fuel _ _ _
      · split
        · rfl
        · exact blockCodeLoop_sh k fuel _ _ _

theorem readBlockCode_sh (k : Nat) (b : FW) : readBlockCode (b.sh k) = ((readBlockCode b).1, (readBlockCode b).2.sh k) := by
  unfold readBlockCode
  rw [sh_remaining, blockCodeLoop_sh]
  rfl

theorem readHeading_sh (k : Nat) (b : FW) (line : Str) :
    readHeading (b.sh k) line = (readHeading b line).map (fun r => (r.1, r.2.1, r.2.2.1, r.2.2.2.sh k)) := by
  unfold readHeading
  split <;> rfl

theorem codeFenceLoop_sh (k : Nat) (ld : Str) (p : Nat) : ∀ (fuel : Nat) (b : FW) (buf : List Str),
    codeFenceLoop ld p fuel (b.sh k) buf = ((codeFenceLoop ld p fuel b buf).1, (codeFenceLoop ld p fuel b buf).2.sh k)
  | 0, _, _ => rfl
  | fuel + 1, b, buf => by
    simp only [codeFenceLoop, sh_peek]
    cases b.peek with
    | none => rfl
    | some l =>
      simp only [Option.map_some, sh_next]
      split
      · rfl
      · exact codeFenceLoop_sh k ld p fuel _ _

theorem readCodeFence_sh (k : Nat) (b : FW) (m : FenceMatch) :
    readCodeFence (b.sh k) m = ((readCodeFence b m).1, (readCodeFence b m).2.sh k) := by
  unfold readCodeFence
  rw [sh_remaining, sh_next, codeFenceLoop_sh]

theorem tableLoop_sh (k : Nat) : ∀ (fuel : Nat) (b : FW) (buf : List Str),
    tableLoop fuel (b.sh k) buf = ((tableLoop fuel b buf).1, (tableLoop fuel b buf).2.sh k)
  | 0, _, _ => rfl
  | fuel + 1, b, buf => by
    simp only [tableLoop, sh_peek]
    cases b.peek with
    | none => rfl
    | some l =>
      simp only [Option.map_some, sh_next]
      split
      · exact tableLoop_sh k fuel _ _
      · rfl

theorem readTable_sh (k : Nat) (b : FW) :
    readTable (b.sh k) = (readTable b).map (fun r => (r.1, r.2.1 + k, r.2.2.sh k)) := by
  unfold readTable
  simp only [sh_peek]
  cases b.peek with
  | none => rfl
  | some l =>
    simp only [Option.map_some, sh_remaining, sh_next_lineNumber]
    simp only [sh_next, tableLoop_sh]
    split
    · split <;> rfl
    · rfl

theorem htmlBlockLoop_sh (k : Nat) (ec : Option Str) : ∀ (fuel : Nat) (b : FW) (buf : List Str),
    htmlBlockLoop ec fuel (b.sh k) buf = ((htmlBlockLoop ec fuel b buf).1, (htmlBlockLoop ec fuel b buf).2.sh k)
  | 0, _, _ => rfl
  | fuel + 1, b, buf => by
    simp only [htmlBlockLoop, sh_peek]
    cases b.peek with
    | none => rfl
    | some l =>
      simp only [Option.map_some, sh_next, sh_backstep]
      split
      · split
        · rfl
        · exact htmlBlockLoop_sh k _ fuel _ _
      · split
        · rfl
        · exact htmlBlockLoop_sh k _ fuel _ _

theorem readHtmlBlock_sh (k : Nat) (b : FW) (ec : Option Str) :
    readHtmlBlock (b.sh k) ec = ((readHtmlBlock b ec).1, (readHtmlBlock b ec).2.sh k) := by
  unfold readHtmlBlock
  rw [sh_remaining, htmlBlockLoop_sh]

theorem footnoteLines_sh (k : Nat) : ∀ (fuel : Nat) (b : FW) (buf : List Str),
    footnoteLines fuel (b.sh k) buf = ((footnoteLines fuel b buf).1, (footnoteLines fuel b buf).2.sh k)
  | 0, _, _ => rfl
  | fuel + 1, b, buf => by
    simp only [footnoteLines, sh_peek]
    cases b.peek with
    | none => rfl
    | some l =>
      simp only [Option.map_some, sh_next]
      split
      · exact footnoteLines_sh k fuel _ _
      · rfl

theorem readFootnote_sh (k : Nat) (b : FW) :
    readFootnote (b.sh k) = rmap (fun r => (r.1, r.2.sh k)) (readFootnote b) := by
  unfold readFootnote
  simp only [sh_remaining, footnoteLines_sh]
  split
  · rfl
  · rename_i ms back hrefs
    cases back <;> rfl

theorem interruptsOne_sh (cfg : Cfg) (k : Nat) (b : FW) (t : BTok) :
    interruptsOne cfg (b.sh k) t = interruptsOne cfg b t := by
  unfold interruptsOne
  rw [sh_peek, readTable_sh]
  cases b.peek with
  | none => rfl
  | some l =>
    simp only [Option.map_some, Option.isSome_map]

theorem anyInterrupt_sh (cfg : Cfg) (k : Nat) (b : FW) (skip : BTok) (sk : Bool) :
    ∀ ts, anyInterrupt cfg (b.sh k) skip sk ts = anyInterrupt cfg b skip sk ts
  | [] => rfl
  | t :: ts => by
    simp only [anyInterrupt, interruptsOne_sh cfg k b, anyInterrupt_sh cfg k b skip sk ts]

theorem paragraphLoop_sh (cfg : Cfg) (so : Bool) (k : Nat) : ∀ (fuel : Nat) (b : FW) (buf : List Str),
    paragraphLoop cfg so fuel (b.sh k) buf = rmap (fun r => (r.1, r.2.1, r.2.2.sh k)) (paragraphLoop cfg so fuel b buf)
  | 0, _, _ => rfl
  | fuel + 1, b, buf => by
    simp only [paragraphLoop, sh_peek, anyInterrupt_sh cfg k b]
    cases b.peek with
    | none => rfl
    | some l =>
      simp only [Option.map_some, sh_next]
      split
      · rfl
      · split
        · rfl
        · rfl
        · split
          · rfl
          · split
            · rfl
            · exact paragraphLoop_sh cfg so k fuel _ _

theorem readParagraph_sh (cfg : Cfg) (so : Bool) (k : Nat) (b : FW) (l0 : Str) :
    readParagraph cfg so (b.sh k) l0 = rmap (fun r => (r.1, r.2.1, r.2.2.sh k)) (readParagraph cfg so b l0) := by
  unfold readParagraph
  rw [sh_remaining, sh_next, paragraphLoop_sh]
  cases paragraphLoop cfg so (b.remaining + 1) b.next [l0] <;> rfl

theorem quoteLoop_sh (cfg : Cfg) (k : Nat) : ∀ (fuel : Nat) (b : FW) (buf : List Line) (fl : QFlags),
    quoteLoop cfg fuel (b.sh k) (buf.map (Line.sh k)) fl =
      rmap (fun r => (r.1.map (Line.sh k), r.2.sh k)) (quoteLoop cfg fuel b buf fl)
  | 0, _, _, _ => rfl
  | fuel + 1, b, buf, fl => by
    simp only [quoteLoop, sh_peek, anyInterrupt_sh cfg k b]
    cases b.peek with
    | none => rfl
    | some l =>
      simp only [Option.map_some, sh_next]
      split
      · rfl
      · split
        · rfl
        · rfl
        · split
          · rfl
          · split
            · rfl
            · split
              · split
                · rfl
                · exact quoteLoop_sh cfg k fuel b.next ({ s := _, origin := l.origin } :: buf) _
              · split
                · rfl
                · exact quoteLoop_sh cfg k fuel b.next (l :: buf) _

theorem quoteLines_sh (cfg : Cfg) (k : Nat) (b : FW) (l0 : Line) :
    quoteLines cfg (b.sh k) (l0.sh k) = rmap (fun r => (r.1.map (Line.sh k), r.2.1 + k, r.2.2.sh k)) (quoteLines cfg b l0) := by
  obtain ⟨s0, o0⟩ := l0
  unfold quoteLines
  dsimp only [Line.sh]
  split
  · rfl
  · split
    · rfl
    · simp only [sh_remaining, sh_next_lineNumber]
      have := fun s fl => quoteLoop_sh cfg k (b.remaining + 1) b.next [{ s := s, origin := o0 }] fl
      simp only [List.map_cons, List.map_nil] at this
      simp only [sh_next, this]
      cases quoteLoop cfg (b.remaining + 1) b.next _ _ with
      | err e => rfl
      | ok r => simp only [rmap_ok, List.map_reverse]

theorem dropTrailing_sh (k : Nat) (b : FW) (buf : List Line) (nl : Nat) :
    dropTrailing (b.sh k) (buf.map (Line.sh k)) nl = ((dropTrailing b buf nl).1.sh k, (dropTrailing b buf nl).2.map (Line.sh k)) := by
  unfold dropTrailing
  split
  · simp only [sh_backstep, List.map_drop]
  · rfl

theorem itemLoop_sh (cfg : Cfg) (prepend : Nat) (k : Nat) : ∀ (fuel : Nat) (b : FW) (buf : List Line) (nl : Nat),
    itemLoop cfg prepend fuel (b.sh k) (buf.map (Line.sh k)) nl =
      rmap (fun r => (r.1.map (Line.sh k), r.2.1.sh k, r.2.2)) (itemLoop cfg prepend fuel b buf nl)
  | 0, _, _, _ => rfl
  | fuel + 1, b, buf, nl => by
    simp only [itemLoop, sh_peek, anyInterrupt_sh cfg k b, dropTrailing_sh]
    cases b.peek with
    | none => rfl
    | some l =>
      simp only [Option.map_some, sh_next]
      split
      · split
        · rfl
        · exact itemLoop_sh cfg prepend k fuel b.next ({ s := _, origin := l.origin } :: buf) _
      · split
        · rfl
        · rfl
        · split
          · rfl
          · split
            · rfl
            · exact itemLoop_sh cfg prepend k fuel b.next (l :: buf) _

theorem skipBlanks_sh (k : Nat) : ∀ (fuel : Nat) (b : FW) (n : Nat),
    skipBlanks fuel (b.sh k) n = ((skipBlanks fuel b n).1.sh k, (skipBlanks fuel b n).2)
  | 0, _, _ => rfl
  | fuel + 1, b, n => by
    simp only [skipBlanks, sh_peek]
    cases b.peek with
    | none => rfl
    | some l =>
      simp only [Option.map_some, sh_next]
      split
      · exact skipBlanks_sh k fuel _ _
      · rfl

def ItemLines.sh (k : Nat) : ItemLines → ItemLines
  | .empty i p ld ln og nx fw => .empty i p ld (ln + k) (og + k) nx (fw.sh k)
  | .lines buf cs i p ld ln og nx fw => .lines (buf.map (Line.sh k)) (cs + k) i p ld (ln + k) (og + k) nx (fw.sh k)

theorem itemLines_sh (cfg : Cfg) (k : Nat) (b : FW) (prev) :
    itemLines cfg (b.sh k) prev = rmap (ItemLines.sh k) (itemLines cfg b prev) := by
  unfold itemLines
  simp only [sh_peek]
  cases b.peek with
  | none => rfl
  | some l0 =>
    simp only [Option.map_some, sh_remaining, sh_next_lineNumber]
    split
    · rfl
    · simp only [sh_next, skipBlanks_sh, sh_peek]
      split
      · split
        · simp only [rmap_ok, ItemLines.sh]
          cases (skipBlanks (b.remaining + 1) b.next 1).1.peek <;> rfl
        · have := fun p => itemLoop_sh cfg p k (b.remaining + 1) (skipBlanks (b.remaining + 1) b.next 1).1 [] 0
          simp only [List.map_nil] at this
          rw [this]
          cases itemLoop cfg _ (b.remaining + 1) (skipBlanks (b.remaining + 1) b.next 1).1 [] 0 with
          | err e => rfl
          | ok r => simp only [rmap_ok, ItemLines.sh, List.map_reverse, Nat.add_right_comm]
      · have := fun p s => itemLoop_sh cfg p k (b.remaining + 1) b.next [{ s := s, origin := l0.origin }] 0
        simp only [List.map_cons, List.map_nil] at this
        rw [this]
        cases itemLoop cfg _ (b.remaining + 1) b.next _ 0 with
        | err e => rfl
        | ok r => simp only [rmap_ok, ItemLines.sh, List.map_reverse]

/-! #### (S2) tokenize_block commutes with the shift -/

def shB (k : Nat) (r : Buf × St) : Buf × St := ({ entries := shiftEntries k r.1.entries, loose := r.1.loose }, r.2)
def shT (k : Nat) (r : Entry × FW × St) : Entry × FW × St := (shiftEntry k r.1, r.2.1.sh k, r.2.2)
def shL (k : Nat) (r : List Item × FW × St) : List Item × FW × St := (shiftItems k r.1, r.2.1.sh k, r.2.2)

def ShTok (cfg : Cfg) (k : Nat) (gas : Nat) : Prop :=
  ∀ (lines : List Line) (start : Nat) (st : St),
    tokenizeBlock cfg gas (lines.map (Line.sh k)) (start + k) st = rmap (shB k) (tokenizeBlock cfg gas lines start st)

def ShLoop (cfg : Cfg) (k : Nat) (gas : Nat) : Prop :=
  ∀ (b : FW) (st : St) (acc : List Entry) (loose : Bool),
    tokLoop cfg gas (b.sh k) st (shiftEntries k acc) loose = rmap (shB k) (tokLoop cfg gas b st acc loose)

def ShTry (cfg : Cfg) (k : Nat) (gas : Nat) : Prop :=
  ∀ (b : FW) (st : St) (l : Line) (ts : List BTok),
    tryTypes cfg gas (b.sh k) st (l.sh k) ts = rmap (Option.map (shT k)) (tryTypes cfg gas b st l ts)

def ShList (cfg : Cfg) (k : Nat) (gas : Nat) : Prop :=
  ∀ (b : FW) (st : St) (ld) (nm) (acc : List Item),
    readList cfg gas (b.sh k) st ld nm (shiftItems k acc) = rmap (shL k) (readList cfg gas b st ld nm acc)

theorem shTok_step (cfg : Cfg) (k gas : Nat) (hP : ShLoop cfg k gas) : ShTok cfg k (gas + 1) := by
  intro lines start st
  simp only [tokenizeBlock]
  exact hP { lines := lines, pos := 0, start := start } st [] false

theorem shLoop_step (cfg : Cfg) (k gas : Nat) (hY : ShTry cfg k gas) (hP : ShLoop cfg k gas) : ShLoop cfg k (gas + 1) := by
  intro b st acc loose
  simp only [tokLoop, sh_peek]
  cases b.peek with
  | none => simp only [Option.map_none, rmap_ok, shB, shiftEntries_reverse]
  | some l =>
    simp only [Option.map_some, hY b st l cfg.types]
    cases tryTypes cfg gas b st l cfg.types with
    | err e => rfl
    | ok o =>
      cases o with
      | none => simp only [rmap_ok, Option.map_none, sh_next]; exact hP b.next st acc true
      | some r =>
        obtain ⟨e, fw', st'⟩ := r
        simp only [rmap_ok, Option.map_some, shT]
        exact hP fw' st' (e :: acc) loose

theorem shList_step (cfg : Cfg) (k gas : Nat) (hT : ShTok cfg k gas) (hL : ShList cfg k gas) : ShList cfg k (gas + 1) := by
  intro b st ld nm acc
  simp only [readList, itemLines_sh cfg k b nm]
  by_cases hom : otherMarkerType ld nm = true
  · simp only [hom, ↓reduceIte, rmap_ok, shL]
    cases acc with
    | nil => rfl
    | cons x xs =>
      cases x
      simp only [shiftItems, shiftItem, shiftEntries_length, shiftItems_reverse]
  simp only [hom, Bool.false_eq_true, ↓reduceIte]
  cases itemLines cfg b nm with
  | err e => rfl
  | ok il =>
    simp only [rmap_ok]
    cases il with
    | empty ind p ldr ln og next fw' =>
      simp only [ItemLines.sh]
      have hcons : Item.mk [] true ind p ldr (ln + k) (og + k) :: shiftItems k acc =
          shiftItems k (Item.mk [] true ind p ldr ln og :: acc) := rfl
      cases ld with
      | some d =>
        simp only
        cases next with
        | none => simp only [rmap_ok, shL, shiftItems_reverse, shiftItems, shiftItem, shiftEntries]
        | some m => simp only [hcons]; exact hL fw' _ _ _ _
      | none =>
        simp only
        cases next with
        | none => simp only [rmap_ok, shL, shiftItems_reverse, shiftItems, shiftItem, shiftEntries]
        | some m => simp only [hcons]; exact hL fw' _ _ _ _
    | lines buf cs ind p ldr ln og next fw' =>
      simp only [ItemLines.sh, hT buf cs st]
      cases tokenizeBlock cfg gas buf cs st with
      | err e => rfl
      | ok r =>
        obtain ⟨bb, st'⟩ := r
        simp only [rmap_ok, shB]
        have hcons : Item.mk (shiftEntries k bb.entries) bb.loose ind p ldr (ln + k) (og + k) :: shiftItems k acc =
            shiftItems k (Item.mk bb.entries bb.loose ind p ldr ln og :: acc) := rfl
        cases ld with
        | some d =>
          simp only
          cases next with
          | none => simp only [rmap_ok, shL, shiftItems_reverse, shiftItems, shiftItem, shiftEntries_length]
          | some m => simp only [hcons]; exact hL fw' _ _ _ _
        | none =>
          simp only
          cases next with
          | none => simp only [rmap_ok, shL, shiftItems_reverse, shiftItems, shiftItem, shiftEntries_length]
          | some m => simp only [hcons]; exact hL fw' _ _ _ _

theorem shTry_step (cfg : Cfg) (k gas : Nat) (hT : ShTok cfg k gas) (hY : ShTry cfg k gas) (hL : ShList cfg k gas) :
    ShTry cfg k (gas + 1) := by
  intro b st l ts
  cases ts with
  | nil => rfl
  | cons t ts =>
    have ih := fun b st => hY b st l ts
    obtain ⟨s0, o0⟩ := l
    dsimp only [Line.sh] at ih ⊢
    simp only [tryTypes, sh_ln]
    cases t <;> simp only
    · -- htmlBlock
      cases htmlBlockStart s0 with
      | err e => rfl
      | ok o =>
        cases o with
        | none => exact ih b st
        | some p => simp only [readHtmlBlock_sh]; rfl
    · -- blockCode
      split
      · simp only [readBlockCode_sh]; rfl
      · exact ih b st
    · -- heading
      rw [readHeading_sh]
      cases readHeading b s0 with
      | none => exact ih b st
      | some r => rfl
    · -- quote
      split
      · have := quoteLines_sh cfg k b { s := s0, origin := o0 }
        dsimp only [Line.sh] at this
        rw [this]
        cases quoteLines cfg b { s := s0, origin := o0 } with
        | err e => rfl
        | ok r =>
          obtain ⟨qls, qstart, fw'⟩ := r
          simp only [rmap_ok, hT qls qstart]
          cases tokenizeBlock cfg gas qls qstart { st with setext := false } <;> rfl
      · exact ih b st
    · -- codeFence
      cases codeFenceStart s0 with
      | none => exact ih b st
      | some m => simp only [readCodeFence_sh]; rfl
    · -- thematicBreak
      split
      · rfl
      · exact ih b st
    · -- list
      split
      · have := hL b st none none []
        simp only [shiftItems] at this
        rw [this]
        cases readList cfg gas b st none none [] <;> rfl
      · exact ih b st
    · -- table
      split
      · rw [readTable_sh]
        cases readTable b with
        | none => exact ih b st
        | some r => rfl
      · exact ih b st
    · -- footnote
      split
      · rw [readFootnote_sh]
        cases readFootnote b with
        | err e => rfl
        | ok r =>
          obtain ⟨ms, fw'⟩ := r
          simp only [rmap_ok]
          split
          · exact ih fw' _
          · rfl
      · exact ih b st
    · -- paragraph
      split
      · rw [readParagraph_sh]
        cases readParagraph cfg st.setext b s0 with
        | err e => rfl
        | ok r =>
          obtain ⟨bb, se, fw'⟩ := r
          cases se <;> rfl
      · exact ih b st
    · -- blankLine
      split
      · rfl
      · exact ih b st
    · -- linkRefDefBlock
      split
      · rw [readFootnote_sh]
        cases readFootnote b with
        | err e => rfl
        | ok r =>
          obtain ⟨ms, fw'⟩ := r
          simp only [rmap_ok]
          split
          · exact ih fw' _
          · rfl
      · exact ih b st

theorem sh_all (cfg : Cfg) (k : Nat) : ∀ gas, ShTok cfg k gas ∧ ShLoop cfg k gas ∧ ShTry cfg k gas ∧ ShList cfg k gas
  | 0 => ⟨fun _ _ _ => rfl, fun _ _ _ _ => rfl, fun _ _ _ _ => rfl, fun _ _ _ _ _ => rfl⟩
  | gas + 1 => by
    obtain ⟨hT, hP, hY, hL⟩ := sh_all cfg k gas
    exact ⟨shTok_step cfg k gas hP, shLoop_step cfg k gas hY hP, shTry_step cfg k gas hT hY hL, shList_step cfg k gas hT hL⟩

/-- **Shift.**  Numbering the first line of a buffer `k` higher (and shifting the ghost origins
    alike) changes nothing in the result of `tokenize_block` except that every reported line number
    (and ghost origin), at every depth, is `k` higher. -/
theorem tokenizeBlock_shift (cfg : Cfg) (k gas : Nat) (lines : List Line) (start : Nat) (st : St) :
    tokenizeBlock cfg gas (lines.map (Line.sh k)) (start + k) st = rmap (shB k) (tokenizeBlock cfg gas lines start st) :=
  (sh_all cfg k gas).1 lines start st

theorem tokLoop_shift (cfg : Cfg) (k gas : Nat) (b : FW) (st : St) (acc : List Entry) (loose : Bool) :
    tokLoop cfg gas (b.sh k) st (shiftEntries k acc) loose = rmap (shB k) (tokLoop cfg gas b st acc loose) :=
  (sh_all cfg k gas).2.1 b st acc loose

/-! ### More gas never changes a result -/

def MonoTok (cfg : Cfg) (g : Nat) : Prop :=
  ∀ (lines : List Line) (start : Nat) (st : St) (r), tokenizeBlock cfg g lines start st = .ok r →
    tokenizeBlock cfg (g + 1) lines start st = .ok r
def MonoLoop (cfg : Cfg) (g : Nat) : Prop :=
  ∀ (fw : FW) (st : St) (acc : List Entry) (loose : Bool) (r), tokLoop cfg g fw st acc loose = .ok r →
    tokLoop cfg (g + 1) fw st acc loose = .ok r
def MonoTry (cfg : Cfg) (g : Nat) : Prop :=
  ∀ (fw : FW) (st : St) (l : Line) (ts : List BTok) (r), tryTypes cfg g fw st l ts = .ok r →
    tryTypes cfg (g + 1) fw st l ts = .ok r
def MonoList (cfg : Cfg) (g : Nat) : Prop :=
  ∀ (fw : FW) (st : St) (ld) (nm) (acc : List Item) (r), readList cfg g fw st ld nm acc = .ok r →
    readList cfg (g + 1) fw st ld nm acc = .ok r

theorem monoTok_step (cfg : Cfg) (g : Nat) (hP : MonoLoop cfg g) : MonoTok cfg (g + 1) := by
  intro lines start st r h
  simp only [tokenizeBlock] at h ⊢
  exact hP _ _ _ _ _ h

theorem monoLoop_step (cfg : Cfg) (g : Nat) (hY : MonoTry cfg g) (hP : MonoLoop cfg g) : MonoLoop cfg (g + 1) := by
  intro fw st acc loose r h
  simp only [tokLoop] at h ⊢
  cases hp : fw.peek with
  | none => simp only [hp] at h ⊢; exact h
  | some l =>
    simp only [hp] at h ⊢
    cases ht : tryTypes cfg g fw st l cfg.types with
    | err e => simp [ht] at h
    | ok o =>
      simp only [ht, hY _ _ _ _ _ ht] at h ⊢
      cases o with
      | none => exact hP _ _ _ _ _ h
      | some x => exact hP _ _ _ _ _ h

theorem monoList_step (cfg : Cfg) (g : Nat) (hT : MonoTok cfg g) (hL : MonoList cfg g) : MonoList cfg (g + 1) := by
  intro fw st ld nm acc r h
  simp only [readList] at h ⊢
  by_cases hom : otherMarkerType ld nm = true
  · simpa only [hom, ↓reduceIte] using h
  simp only [hom, Bool.false_eq_true, ↓reduceIte] at h ⊢
  cases hil : itemLines cfg fw nm with
  | err e => simp [hil] at h
  | ok il =>
    simp only [hil] at h ⊢
    cases il with
    | empty ind p ldr ln og next fw' =>
      simp only at h ⊢
      cases ld with
      | some d =>
        simp only at h ⊢
        cases next with
        | none => exact h
        | some m => exact hL _ _ _ _ _ _ h
      | none =>
        simp only at h ⊢
        cases next with
        | none => exact h
        | some m => exact hL _ _ _ _ _ _ h
    | lines buf cs ind p ldr ln og next fw' =>
      simp only at h ⊢
      cases hb : tokenizeBlock cfg g buf cs st with
      | err e => simp [hb] at h
      | ok bb =>
        simp only [hb, hT _ _ _ _ hb] at h ⊢
        cases ld with
        | some d =>
          simp only at h ⊢
          cases next with
          | none => exact h
          | some m => exact hL _ _ _ _ _ _ h
        | none =>
          simp only at h ⊢
          cases next with
          | none => exact h
          | some m => exact hL _ _ _ _ _ _ h

theorem monoTry_step (cfg : Cfg) (g : Nat) (hT : MonoTok cfg g) (hY : MonoTry cfg g) (hL : MonoList cfg g) :
    MonoTry cfg (g + 1) := by
  intro fw st l ts r h
  cases ts with
  | nil => simpa [tryTypes] using h
  | cons t ts =>
    have ih := fun fw st (h : tryTypes cfg g fw st l ts = .ok r) => hY fw st l ts r h
    simp only [tryTypes] at h ⊢
    cases t <;> simp only at h ⊢
    · -- htmlBlock
      cases hh : htmlBlockStart l.s with
      | err e => simp [hh] at h
      | ok o =>
        simp only [hh] at h ⊢
        cases o with
        | none => exact ih _ _ h
        | some p => exact h
    · -- blockCode
      split
      · rename_i hc; simpa only [hc, if_true] using h
      · rename_i hc; simp only [hc] at h; exact ih _ _ h
    · -- heading
      cases hh : readHeading fw l.s with
      | none => simp only [hh] at h ⊢; exact ih _ _ h
      | some x => simp only [hh] at h ⊢; exact h
    · -- quote
      split
      · rename_i hc
        simp only [hc, if_true] at h
        cases hq : quoteLines cfg fw l with
        | err e => simp [hq] at h
        | ok x =>
          obtain ⟨qls, qstart, fw'⟩ := x
          simp only [hq] at h ⊢
          cases hb : tokenizeBlock cfg g qls qstart { st with setext := false } with
          | err e => simp [hb] at h
          | ok bb => simp only [hb, hT _ _ _ _ hb] at h ⊢; exact h
      · rename_i hc; simp only [hc] at h; exact ih _ _ h
    · -- codeFence
      cases hh : codeFenceStart l.s with
      | none => simp only [hh] at h ⊢; exact ih _ _ h
      | some x => simp only [hh] at h ⊢; exact h
    · -- thematicBreak
      split
      · rename_i hc; simpa only [hc, if_true] using h
      · rename_i hc; simp only [hc] at h; exact ih _ _ h
    · -- list
      split
      · rename_i hc
        simp only [hc, if_true] at h
        cases hr : readList cfg g fw st none none [] with
        | err e => simp [hr] at h
        | ok x => simp only [hr, hL _ _ _ _ _ _ hr] at h ⊢; exact h
      · rename_i hc; simp only [hc] at h; exact ih _ _ h
    · -- table
      split
      · rename_i hc
        simp only [hc, if_true] at h
        cases hh : readTable fw with
        | none => simp only [hh] at h ⊢; exact ih _ _ h
        | some x => simp only [hh] at h ⊢; exact h
      · rename_i hc; simp only [hc] at h; exact ih _ _ h
    · -- footnote
      split
      · rename_i hc
        simp only [hc, if_true] at h
        cases hf : readFootnote fw with
        | err e => simp [hf] at h
        | ok x =>
          obtain ⟨ms, fw'⟩ := x
          simp only [hf] at h ⊢
          split
          · rename_i hm; simp only [hm, if_true] at h; exact ih _ _ h
          · rename_i hm; simpa only [hm, Bool.false_eq_true, if_false] using h
      · rename_i hc; simp only [hc] at h; exact ih _ _ h
    · -- paragraph
      split
      · rename_i hc
        simp only [hc, if_true] at h
        exact h
      · rename_i hc; simp only [hc] at h; exact ih _ _ h
    · -- blankLine
      split
      · rename_i hc; simpa only [hc, if_true] using h
      · rename_i hc; simp only [hc] at h; exact ih _ _ h
    · -- linkRefDefBlock
      split
      · rename_i hc
        simp only [hc, if_true] at h
        cases hf : readFootnote fw with
        | err e => simp [hf] at h
        | ok x =>
          obtain ⟨ms, fw'⟩ := x
          simp only [hf] at h ⊢
          split
          · rename_i hm; simp only [hm, if_true] at h; exact ih _ _ h
          · rename_i hm; simpa only [hm, Bool.false_eq_true, if_false] using h
      · rename_i hc; simp only [hc] at h; exact ih _ _ h

theorem mono_all (cfg : Cfg) : ∀ g, MonoTok cfg g ∧ MonoLoop cfg g ∧ MonoTry cfg g ∧ MonoList cfg g
  | 0 => ⟨by intro _ _ _ _ h; simp [tokenizeBlock] at h, by intro _ _ _ _ _ h; simp [tokLoop] at h,
          by intro _ _ _ _ _ h; simp [tryTypes] at h, by intro _ _ _ _ _ _ h; simp [readList] at h⟩
  | g + 1 => by
    obtain ⟨hT, hP, hY, hL⟩ := mono_all cfg g
    exact ⟨monoTok_step cfg g hP, monoLoop_step cfg g hY hP, monoTry_step cfg g hT hY hL, monoList_step cfg g hT hL⟩

theorem tokenizeBlock_mono (cfg : Cfg) (lines : List Line) (start : Nat) (st : St) (r) :
    ∀ (g g' : Nat), g ≤ g' → tokenizeBlock cfg g lines start st = .ok r → tokenizeBlock cfg g' lines start st = .ok r := by
  intro g g' hle h
  induction hle with
  | refl => exact h
  | step _ ih => exact (mono_all cfg _).1 _ _ _ _ ih

theorem tokLoop_mono (cfg : Cfg) (fw : FW) (st : St) (acc : List Entry) (loose : Bool) (r) :
    ∀ (g g' : Nat), g ≤ g' → tokLoop cfg g fw st acc loose = .ok r → tokLoop cfg g' fw st acc loose = .ok r := by
  intro g g' hle h
  induction hle with
  | refl => exact h
  | step _ ih => exact (mono_all cfg _).2.1 _ _ _ _ _ ih

theorem tryTypes_mono (cfg : Cfg) (fw : FW) (st : St) (l : Line) (ts : List BTok) (r) :
    ∀ (g g' : Nat), g ≤ g' → tryTypes cfg g fw st l ts = .ok r → tryTypes cfg g' fw st l ts = .ok r := by
  intro g g' hle h
  induction hle with
  | refl => exact h
  | step _ ih => exact (mono_all cfg _).2.2.1 _ _ _ _ _ ih

/-! ### (P) lines appended after a "\n" line

  `a.ext post`: the same cursor on the buffer with `post` appended.  Readers that stop at a blank
  line exactly as at the end of input (Table, Footnote, Paragraph, Quote; Heading and ThematicBreak
  read one line) behave identically when `post` begins with a "\n" line. -/

def FW.ext (post : List Line) (a : FW) : FW := { lines := a.lines ++ post, pos := a.pos, start := a.start }

/-- the cursor is inside the buffer or at its end -/
def FW.InB (a : FW) : Prop := a.pos ≤ a.lines.length

theorem ext_next (post : List Line) (a : FW) : (a.ext post).next = a.next.ext post := rfl
theorem ext_lineNumber (post : List Line) (a : FW) : (a.ext post).lineNumber = a.lineNumber := rfl

theorem peek_some_lt (a : FW) (l : Line) (h : a.peek = some l) : a.pos < a.lines.length := by
  simp only [FW.peek] at h
  exact (List.getElem?_eq_some_iff.mp h).1

theorem ext_peek_some (post : List Line) (a : FW) (l : Line) (h : a.peek = some l) : (a.ext post).peek = some l := by
  have hlt := peek_some_lt a l h
  simp only [FW.peek, FW.ext] at h ⊢
  rw [List.getElem?_append_left hlt]; exact h

theorem ext_peek_none (nl : Line) (rest : List Line) (a : FW) (h : a.peek = none) (hb : a.InB) :
    (a.ext (nl :: rest)).peek = some nl := by
  simp only [FW.peek] at h
  have hge := List.getElem?_eq_none_iff.mp h
  have : a.pos = a.lines.length := by unfold FW.InB at hb; omega
  simp only [FW.peek, FW.ext, this]
  simp

theorem next_inb (a : FW) (l : Line) (h : a.peek = some l) : a.next.InB := by
  have := peek_some_lt a l h
  simp only [FW.InB, FW.next]; omega

theorem next_remaining (a : FW) (l : Line) (h : a.peek = some l) : a.next.remaining + 1 = a.remaining := by
  have := peek_some_lt a l h
  simp only [FW.remaining, FW.next]; omega

theorem ext_remaining (post : List Line) (a : FW) : (a.ext post).remaining = a.remaining + post.length ∨ a.lines.length < a.pos := by
  simp only [FW.ext, FW.remaining, List.length_append]; omega

theorem tableLoop_ext (nl : Line) (rest : List Line) (hnl : nl.s = ['\n']) : ∀ (f f' : Nat) (a : FW) (buf : List Str),
    a.InB → a.remaining < f → a.remaining < f' →
    tableLoop f' (a.ext (nl :: rest)) buf = ((tableLoop f a buf).1, (tableLoop f a buf).2.ext (nl :: rest)) ∧
      (tableLoop f a buf).2.InB
  | 0, _, _, _, _, h, _ => by omega
  | _ + 1, 0, _, _, _, _, h => by omega
  | f + 1, f' + 1, a, buf, hb, h1, h2 => by
    simp only [tableLoop]
    cases hp : a.peek with
    | none =>
      have hc : nl.s.contains '|' = false := by rw [hnl]; decide
      simp only [ext_peek_none nl rest a hp hb, hc]
      exact ⟨rfl, hb⟩
    | some l =>
      have hr := next_remaining a l hp
      simp only [ext_peek_some _ a l hp]
      split
      · rw [ext_next]
        exact tableLoop_ext nl rest hnl f f' a.next _ (next_inb a l hp) (by omega) (by omega)
      · exact ⟨rfl, hb⟩

theorem readTable_ext (nl : Line) (rest : List Line) (hnl : nl.s = ['\n']) (a : FW) (l0 : Line) (hp : a.peek = some l0) :
    readTable (a.ext (nl :: rest)) = (readTable a).map (fun r => (r.1, r.2.1, r.2.2.ext (nl :: rest))) ∧
      ∀ r, readTable a = some r → r.2.2.InB := by
  have hr := next_remaining a l0 hp
  have hlt := peek_some_lt a l0 hp
  have hrem : (a.ext (nl :: rest)).remaining = a.remaining + (rest.length + 1) := by
    simp only [FW.ext, FW.remaining, List.length_append, List.length_cons]; omega
  have key := tableLoop_ext nl rest hnl (a.remaining + 1) ((a.ext (nl :: rest)).remaining + 1) a.next [l0.s]
    (next_inb a l0 hp) (by omega) (by omega)
  unfold readTable
  simp only [ext_peek_some _ a l0 hp, hp, ext_next, key.1, ext_lineNumber]
  split
  · split
    · refine ⟨rfl, ?_⟩
      intro r hr; cases hr; exact key.2
    · exact ⟨rfl, fun r hr => by cases hr⟩
  · exact ⟨rfl, fun r hr => by cases hr⟩

theorem footnoteLines_ext (nl : Line) (rest : List Line) (hnl : nl.s = ['\n']) : ∀ (f f' : Nat) (a : FW) (buf : List Str),
    a.InB → a.remaining < f → a.remaining < f' →
    footnoteLines f' (a.ext (nl :: rest)) buf = ((footnoteLines f a buf).1, (footnoteLines f a buf).2.ext (nl :: rest))
  | 0, _, _, _, _, h, _ => by omega
  | _ + 1, 0, _, _, _, _, h => by omega
  | f + 1, f' + 1, a, buf, hb, h1, h2 => by
    simp only [footnoteLines]
    cases hp : a.peek with
    | none =>
      have hc : isBlank nl.s = true := by rw [hnl]; decide
      simp only [ext_peek_none nl rest a hp hb, hc]
      rfl
    | some l =>
      have hr := next_remaining a l hp
      simp only [ext_peek_some _ a l hp]
      split
      · rw [ext_next]
        exact footnoteLines_ext nl rest hnl f f' a.next _ (next_inb a l hp) (by omega) (by omega)
      · rfl

theorem readFootnote_ext (nl : Line) (rest : List Line) (hnl : nl.s = ['\n']) (a : FW) (hb : a.InB) :
    readFootnote (a.ext (nl :: rest)) = rmap (fun r => (r.1, r.2.ext (nl :: rest))) (readFootnote a) := by
  have hrem : a.remaining < (a.ext (nl :: rest)).remaining + 1 := by
    unfold FW.InB at hb
    simp only [FW.ext, FW.remaining, List.length_append, List.length_cons]; omega
  unfold readFootnote
  simp only [footnoteLines_ext nl rest hnl (a.remaining + 1) _ a [] hb (by omega) hrem]
  split
  · rfl
  · rename_i ms back hrefs
    cases back <;> rfl

theorem interruptsOne_ext (cfg : Cfg) (nl : Line) (rest : List Line) (hnl : nl.s = ['\n']) (a : FW) (l : Line)
    (hp : a.peek = some l) (t : BTok) : interruptsOne cfg (a.ext (nl :: rest)) t = interruptsOne cfg a t := by
  unfold interruptsOne
  rw [ext_peek_some _ a l hp, hp, (readTable_ext nl rest hnl a l hp).1]
  simp only [Option.isSome_map]

theorem anyInterrupt_ext (cfg : Cfg) (nl : Line) (rest : List Line) (hnl : nl.s = ['\n']) (a : FW) (l : Line)
    (hp : a.peek = some l) (skip : BTok) (sk : Bool) :
    ∀ ts, anyInterrupt cfg (a.ext (nl :: rest)) skip sk ts = anyInterrupt cfg a skip sk ts
  | [] => rfl
  | t :: ts => by
    simp only [anyInterrupt, interruptsOne_ext cfg nl rest hnl a l hp, anyInterrupt_ext cfg nl rest hnl a l hp skip sk ts]

theorem paragraphLoop_ext (cfg : Cfg) (so : Bool) (nl : Line) (rest : List Line) (hnl : nl.s = ['\n']) :
    ∀ (f f' : Nat) (a : FW) (buf : List Str) (r), a.InB → a.remaining < f' →
    paragraphLoop cfg so f a buf = .ok r →
    paragraphLoop cfg so f' (a.ext (nl :: rest)) buf = .ok (r.1, r.2.1, r.2.2.ext (nl :: rest)) ∧ r.2.2.InB
  | 0, _, _, _, _, _, _, h => by simp [paragraphLoop] at h
  | _ + 1, 0, _, _, _, _, h, _ => by omega
  | f + 1, f' + 1, a, buf, r, hb, h2, h => by
    simp only [paragraphLoop] at h ⊢
    cases hp : a.peek with
    | none =>
      have hc : isBlank nl.s = true := by rw [hnl]; decide
      simp only [hp] at h
      cases h
      refine ⟨?_, hb⟩
      simp only [ext_peek_none nl rest a hp hb, hc, if_true]
    | some l =>
      have hr := next_remaining a l hp
      simp only [hp] at h
      simp only [ext_peek_some _ a l hp, anyInterrupt_ext cfg nl rest hnl a l hp]
      split
      · rename_i hc; simp only [hc, if_true] at h; cases h; exact ⟨rfl, hb⟩
      · rename_i hc
        simp only [hc] at h
        cases hi : anyInterrupt cfg a .thematicBreak false cfg.types with
        | err e => simp [hi] at h
        | ok bi =>
          simp only [hi] at h ⊢
          cases bi with
          | true => simp only at h ⊢; cases h; exact ⟨rfl, hb⟩
          | false =>
            simp only at h ⊢
            split
            · rename_i hs; simp only [hs, if_true] at h; cases h; exact ⟨rfl, next_inb a l hp⟩
            · rename_i hs
              simp only [hs] at h
              split
              · rename_i ht; simp only [ht, if_true] at h; cases h; exact ⟨rfl, hb⟩
              · rename_i ht
                simp only [ht] at h
                rw [ext_next]
                exact paragraphLoop_ext cfg so nl rest hnl f f' a.next _ r (next_inb a l hp) (by omega) h

theorem readParagraph_ext (cfg : Cfg) (so : Bool) (nl : Line) (rest : List Line) (hnl : nl.s = ['\n']) (a : FW) (l : Line)
    (hp : a.peek = some l) (l0 : Str) (r) (h : readParagraph cfg so a l0 = .ok r) :
    readParagraph cfg so (a.ext (nl :: rest)) l0 = .ok (r.1, r.2.1, r.2.2.ext (nl :: rest)) ∧ r.2.2.InB := by
  have hr := next_remaining a l hp
  have hlt := peek_some_lt a l hp
  have hrem : (a.ext (nl :: rest)).remaining = a.remaining + (rest.length + 1) := by
    simp only [FW.ext, FW.remaining, List.length_append, List.length_cons]; omega
  unfold readParagraph at h ⊢
  cases hl : paragraphLoop cfg so (a.remaining + 1) a.next [l0] with
  | err e => simp [hl] at h
  | ok x =>
    obtain ⟨buf, se, fw1⟩ := x
    simp only [hl] at h
    cases h
    have key := paragraphLoop_ext cfg so nl rest hnl (a.remaining + 1) ((a.ext (nl :: rest)).remaining + 1) a.next [l0] _
      (next_inb a l hp) (by omega) hl
    rw [ext_next, key.1]
    exact ⟨rfl, key.2⟩

theorem quoteLoop_ext (cfg : Cfg) (nl : Line) (rest : List Line) (hnl : nl.s = ['\n']) :
    ∀ (f f' : Nat) (a : FW) (buf : List Line) (fl : QFlags) (r), a.InB → a.remaining < f' →
    quoteLoop cfg f a buf fl = .ok r →
    quoteLoop cfg f' (a.ext (nl :: rest)) buf fl = .ok (r.1, r.2.ext (nl :: rest)) ∧ r.2.InB
  | 0, _, _, _, _, _, _, _, h => by simp [quoteLoop] at h
  | _ + 1, 0, _, _, _, _, _, h, _ => by omega
  | f + 1, f' + 1, a, buf, fl, r, hb, h2, h => by
    simp only [quoteLoop] at h ⊢
    cases hp : a.peek with
    | none =>
      have hc : isBlank nl.s = true := by rw [hnl]; decide
      simp only [hp] at h
      cases h
      refine ⟨?_, hb⟩
      simp only [ext_peek_none nl rest a hp hb, hc, if_true]
    | some l =>
      have hr := next_remaining a l hp
      simp only [hp] at h
      simp only [ext_peek_some _ a l hp, anyInterrupt_ext cfg nl rest hnl a l hp]
      split
      · rename_i hc; simp only [hc, if_true] at h; cases h; exact ⟨rfl, hb⟩
      · rename_i hc
        simp only [hc] at h
        cases hi : anyInterrupt cfg a .quote false cfg.types with
        | err e => simp [hi] at h
        | ok bi =>
          simp only [hi] at h ⊢
          cases bi with
          | true => simp only at h ⊢; cases h; exact ⟨rfl, hb⟩
          | false =>
            simp only at h ⊢
            cases hcv : convertLeadingTabs (lstrip l.s) with
            | err e => simp [hcv] at h
            | ok stripped =>
              simp only [hcv] at h ⊢
              cases stripped with
              | nil => simp at h
              | cons c0 tl =>
                simp only at h ⊢
                split
                · rename_i hgt
                  subst hgt
                  rw [if_pos rfl] at h
                  cases h1 : ('>' :: tl)[1]? with
                  | none => rw [h1] at h; cases h
                  | some c1 =>
                    rw [h1] at h
                    simp only at h ⊢
                    rw [ext_next]
                    exact quoteLoop_ext cfg nl rest hnl f f' a.next _ _ r (next_inb a l hp) (by omega) h
                · rename_i hgt
                  simp only [hgt] at h
                  split
                  · rename_i hfl; simp only [hfl, if_true] at h; cases h; exact ⟨rfl, hb⟩
                  · rename_i hfl
                    simp only [hfl] at h
                    rw [ext_next]
                    exact quoteLoop_ext cfg nl rest hnl f f' a.next _ _ r (next_inb a l hp) (by omega) h

theorem quoteLines_ext (cfg : Cfg) (nl : Line) (rest : List Line) (hnl : nl.s = ['\n']) (a : FW) (l : Line)
    (hp : a.peek = some l) (l0 : Line) (r) (h : quoteLines cfg a l0 = .ok r) :
    quoteLines cfg (a.ext (nl :: rest)) l0 = .ok (r.1, r.2.1, r.2.2.ext (nl :: rest)) ∧ r.2.2.InB := by
  have hr := next_remaining a l hp
  have hlt := peek_some_lt a l hp
  have hrem : (a.ext (nl :: rest)).remaining = a.remaining + (rest.length + 1) := by
    simp only [FW.ext, FW.remaining, List.length_append, List.length_cons]; omega
  unfold quoteLines at h ⊢
  cases hcv : convertLeadingTabs (lstrip l0.s) with
  | err e => simp [hcv] at h
  | ok t =>
    simp only [hcv] at h ⊢
    cases hso : splitOnce '>' t with
    | none => simp [hso] at h
    | some x =>
      obtain ⟨bef, after⟩ := x
      simp only [hso] at h ⊢
      split at h
      · cases h
      · rename_i buf fw2 hl
        cases h
        have key := quoteLoop_ext cfg nl rest hnl (a.remaining + 1) ((a.ext (nl :: rest)).remaining + 1) a.next _ _ _
          (next_inb a l hp) (by omega) hl
        rw [ext_next, key.1]
        exact ⟨rfl, key.2⟩

/-! #### the dispatcher on the extended buffer -/

/-- the block kinds that a blank line closes exactly as the end of input does, and that define no
    link reference: paragraph, setext heading, ATX heading, thematic break, block quote, table -/
def closedE : Entry → Bool
  | .paragraph .. => true
  | .setext .. => true
  | .heading .. => true
  | .thematicBreak .. => true
  | .quote .. => true
  | .table .. => true
  | _ => false

def extT (post : List Line) (r : Entry × FW × St) : Entry × FW × St := (r.1, r.2.1.ext post, r.2.2)

@[simp] theorem ext_start (post : List Line) (a : FW) : (a.ext post).start = a.start := rfl
@[simp] theorem ext_pos (post : List Line) (a : FW) : (a.ext post).pos = a.pos := rfl

theorem readHeading_ext (post : List Line) (a : FW) (line : Str) :
    readHeading (a.ext post) line = (readHeading a line).map (fun r => (r.1, r.2.1, r.2.2.1, r.2.2.2.ext post)) := by
  unfold readHeading
  split <;> rfl

theorem readHeading_fw (a : FW) (line : Str) (r) (h : readHeading a line = some r) : r.2.2.2 = a.next := by
  unfold readHeading at h
  split at h
  · cases h
  · cases h; rfl


/-! #### the accumulator of the dispatch loop is only ever extended -/

def withAcc (acc : List Entry) (loose : Bool) (r : Buf × St) : Buf × St :=
  ({ entries := acc.reverse ++ r.1.entries, loose := loose || r.1.loose }, r.2)

theorem tokLoop_acc (cfg : Cfg) : ∀ (gas : Nat) (fw : FW) (st : St) (acc : List Entry) (loose : Bool),
    tokLoop cfg gas fw st acc loose = rmap (withAcc acc loose) (tokLoop cfg gas fw st [] false)
  | 0, _, _, _, _ => rfl
  | gas + 1, fw, st, acc, loose => by
    simp only [tokLoop]
    cases fw.peek with
    | none => simp [withAcc]
    | some l =>
      simp only
      cases tryTypes cfg gas fw st l cfg.types with
      | err e => rfl
      | ok o =>
        cases o with
        | none =>
          simp only
          rw [tokLoop_acc cfg gas fw.next st acc true, tokLoop_acc cfg gas fw.next st [] true]
          cases tokLoop cfg gas fw.next st [] false with
          | err e => rfl
          | ok r => simp [withAcc]
        | some x =>
          obtain ⟨e, fw', st'⟩ := x
          simp only
          rw [tokLoop_acc cfg gas fw' st' (e :: acc) loose, tokLoop_acc cfg gas fw' st' [e] false]
          cases tokLoop cfg gas fw' st' [] false with
          | err e => rfl
          | ok r => simp [withAcc]

theorem tokLoop_mem (cfg : Cfg) (gas : Nat) (fw : FW) (st : St) (acc : List Entry) (loose : Bool) (buf : Buf) (st' : St)
    (h : tokLoop cfg gas fw st acc loose = .ok (buf, st')) : ∀ e ∈ acc, e ∈ buf.entries := by
  rw [tokLoop_acc] at h
  cases hr : tokLoop cfg gas fw st [] false with
  | err e => simp [hr] at h
  | ok r =>
    simp only [hr, rmap_ok, withAcc, Res.ok.injEq, Prod.mk.injEq] at h
    intro e he
    rw [← h.1]
    simp [he]


/-! ### `Paragraph.parse_setext` is `True` again whenever a top-level read returns -/

def SxTok (cfg : Cfg) (g : Nat) : Prop :=
  ∀ (lines : List Line) (start : Nat) (st : St) (r), st.setext = true → tokenizeBlock cfg g lines start st = .ok r → r.2.setext = true
def SxLoop (cfg : Cfg) (g : Nat) : Prop :=
  ∀ (fw : FW) (st : St) (acc : List Entry) (loose : Bool) (r), st.setext = true → tokLoop cfg g fw st acc loose = .ok r → r.2.setext = true
def SxTry (cfg : Cfg) (g : Nat) : Prop :=
  ∀ (fw : FW) (st : St) (l : Line) (ts : List BTok) (r), st.setext = true → tryTypes cfg g fw st l ts = .ok (some r) → r.2.2.setext = true
def SxList (cfg : Cfg) (g : Nat) : Prop :=
  ∀ (fw : FW) (st : St) (ld) (nm) (acc : List Item) (r), st.setext = true → readList cfg g fw st ld nm acc = .ok r → r.2.2.setext = true

theorem sxLoop_step (cfg : Cfg) (g : Nat) (hY : SxTry cfg g) (hP : SxLoop cfg g) : SxLoop cfg (g + 1) := by
  intro fw st acc loose r hst h
  simp only [tokLoop] at h
  split at h
  · cases h; exact hst
  · split at h
    · cases h
    · rename_i ht
      exact hP _ _ _ _ _ (hY _ _ _ _ _ hst ht) h
    · exact hP _ _ _ _ _ hst h

theorem sxList_step (cfg : Cfg) (g : Nat) (hT : SxTok cfg g) (hL : SxList cfg g) : SxList cfg (g + 1) := by
  intro fw st ld nm acc r hst h
  simp only [readList] at h
  split at h
  · cases h; exact hst
  split at h
  · cases h
  · rename_i il hil
    split at h
    · cases h
    · rename_i item itemLeader next fw' st' hres
      have hst' : st'.setext = true := by
        cases il with
        | empty => simp only at hres; cases hres; exact hst
        | lines =>
          simp only at hres
          split at hres
          · cases hres
          · rename_i hb
            cases hres; exact hT _ _ _ _ hst hb
      split at h
      · split at h
        · cases h; exact hst'
        · exact hL _ _ _ _ _ _ hst' h
      · split at h
        · cases h; exact hst'
        · exact hL _ _ _ _ _ _ hst' h

theorem sxTry_step (cfg : Cfg) (g : Nat) (hY : SxTry cfg g) (hL : SxList cfg g) : SxTry cfg (g + 1) := by
  intro fw st l ts r hst h
  cases ts with
  | nil => simp [tryTypes] at h
  | cons t ts =>
    unfold tryTypes at h
    cases t <;> simp only at h
    · split at h
      · cases h
      · exact hY _ _ _ _ _ hst h
      · cases h; exact hst
    · split at h
      · cases h; exact hst
      · exact hY _ _ _ _ _ hst h
    · split at h
      · cases h; exact hst
      · exact hY _ _ _ _ _ hst h
    · split at h
      · split at h
        · cases h
        · split at h
          · cases h
          · cases h; rfl
      · exact hY _ _ _ _ _ hst h
    · split at h
      · cases h; exact hst
      · exact hY _ _ _ _ _ hst h
    · split at h
      · cases h; exact hst
      · exact hY _ _ _ _ _ hst h
    · split at h
      · split at h
        · cases h
        · rename_i hrl
          cases h; exact hL _ _ _ _ _ _ hst hrl
      · exact hY _ _ _ _ _ hst h
    · split at h
      · split at h
        · cases h; exact hst
        · exact hY _ _ _ _ _ hst h
      · exact hY _ _ _ _ _ hst h
    · split at h
      · split at h
        · cases h
        · split at h
          · exact hY _ _ _ _ _ (by exact hst) h
          · cases h; exact hst
      · exact hY _ _ _ _ _ hst h
    · split at h
      · split at h
        · cases h
        · cases h; exact hst
        · cases h; exact hst
      · exact hY _ _ _ _ _ hst h
    · split at h
      · cases h; exact hst
      · exact hY _ _ _ _ _ hst h
    · split at h
      · split at h
        · cases h
        · split at h
          · exact hY _ _ _ _ _ (by exact hst) h
          · cases h; exact hst
      · exact hY _ _ _ _ _ hst h

theorem sx_all (cfg : Cfg) : ∀ g, SxTok cfg g ∧ SxLoop cfg g ∧ SxTry cfg g ∧ SxList cfg g
  | 0 => ⟨by intro _ _ _ _ _ h; simp [tokenizeBlock] at h, by intro _ _ _ _ _ _ h; simp [tokLoop] at h,
          by intro _ _ _ _ _ _ h; simp [tryTypes] at h, by intro _ _ _ _ _ _ _ h; simp [readList] at h⟩
  | g + 1 => by
    obtain ⟨hT, hP, hY, hL⟩ := sx_all cfg g
    refine ⟨?_, sxLoop_step cfg g hY hP, sxTry_step cfg g hY hL, sxList_step cfg g hT hL⟩
    intro lines start st r hst h
    simp only [tokenizeBlock] at h
    exact hP _ _ _ _ _ hst h

/-! ### (P), wider: readers that may read across blank lines, when they stopped inside the buffer -/

/-- a line that is not whitespace-only remains at or after the cursor
    (`BlockCode.read` hands back EVERY trailing whitespace-only line, so "a line other than \"\\n\"
    remains" would not do: the reader may have run to the end of the buffer over a line of spaces) -/
def FW.NB (a : FW) : Prop := ∃ q l, a.pos ≤ q ∧ a.lines[q]? = some l ∧ isBlank l.s = false

theorem peek_none_ge (a : FW) (h : a.peek = none) : a.lines.length ≤ a.pos := by
  simp only [FW.peek] at h
  exact List.getElem?_eq_none_iff.mp h

theorem nb_lt (a : FW) (h : a.NB) : a.pos < a.lines.length := by
  obtain ⟨q, l, hq, hl, _⟩ := h
  have := (List.getElem?_eq_some_iff.mp hl).1
  omega

theorem codeFenceLoop_ext (post : List Line) (ld : Str) (p : Nat) : ∀ (f f' : Nat) (a : FW) (buf : List Str),
    a.remaining < f → a.remaining < f' → (codeFenceLoop ld p f a buf).2.pos < a.lines.length →
    codeFenceLoop ld p f' (a.ext post) buf = ((codeFenceLoop ld p f a buf).1, (codeFenceLoop ld p f a buf).2.ext post)
  | 0, _, _, _, h, _, _ => by omega
  | _ + 1, 0, _, _, _, h, _ => by omega
  | f + 1, f' + 1, a, buf, h1, h2, hr => by
    simp only [codeFenceLoop] at hr ⊢
    cases hp : a.peek with
    | none =>
      have := peek_none_ge a hp
      simp only [hp] at hr
      omega
    | some l =>
      have hrem := next_remaining a l hp
      simp only [hp] at hr
      simp only [ext_peek_some _ a l hp]
      have key : ∀ (c : Bool) (X : List Str),
          (if c = true then (buf, a.next) else codeFenceLoop ld p f a.next X).2.pos < a.lines.length →
          (if c = true then (buf, (a.ext post).next) else codeFenceLoop ld p f' (a.ext post).next X) =
            ((if c = true then (buf, a.next) else codeFenceLoop ld p f a.next X).1,
             (if c = true then (buf, a.next) else codeFenceLoop ld p f a.next X).2.ext post) := by
        intro c X hr
        cases c with
        | true => rfl
        | false =>
          simp only [Bool.false_eq_true, if_false] at hr ⊢
          rw [ext_next]
          exact codeFenceLoop_ext post ld p f f' a.next X (by omega) (by omega) hr
      exact key _ _ hr

theorem codeFenceLoop_posLe (ld : Str) (p : Nat) : ∀ (f : Nat) (a : FW) (buf : List Str), a.pos ≤ (codeFenceLoop ld p f a buf).2.pos
  | 0, _, _ => Nat.le_refl _
  | f + 1, a, buf => by
    simp only [codeFenceLoop]
    split
    · exact Nat.le_refl _
    · have key : ∀ (c : Bool) (X : List Str), a.pos ≤ (if c = true then (buf, a.next) else codeFenceLoop ld p f a.next X).2.pos := by
        intro c X
        cases c with
        | true => exact Nat.le_succ _
        | false => exact Nat.le_trans (Nat.le_succ _) (codeFenceLoop_posLe ld p f a.next X)
      exact key _ _

theorem readCodeFence_ext (post : List Line) (a : FW) (l : Line) (hp : a.peek = some l) (m : FenceMatch)
    (hr : (readCodeFence a m).2.pos < a.lines.length) :
    readCodeFence (a.ext post) m = ((readCodeFence a m).1, (readCodeFence a m).2.ext post) ∧
      a.pos ≤ (readCodeFence a m).2.pos := by
  have hrem := next_remaining a l hp
  have hlt := peek_some_lt a l hp
  have hre : (a.ext post).remaining = a.remaining + post.length := by
    simp only [FW.ext, FW.remaining, List.length_append]; omega
  unfold readCodeFence at hr ⊢
  simp only at hr ⊢
  refine ⟨?_, Nat.le_trans (Nat.le_succ _) (codeFenceLoop_posLe _ _ _ a.next _)⟩
  rw [ext_next, codeFenceLoop_ext post m.leader m.prepend (a.remaining + 1) ((a.ext post).remaining + 1) a.next []
    (by omega) (by omega) hr]

theorem htmlBlockLoop_ext (nl : Line) (rest : List Line) (hnl : nl.s = ['\n']) (ec : Option Str) :
    ∀ (f f' : Nat) (a : FW) (buf : List Str), a.InB → a.remaining < f → a.remaining < f' →
    (ec = none ∨ (htmlBlockLoop ec f a buf).2.pos < a.lines.length) →
    htmlBlockLoop ec f' (a.ext (nl :: rest)) buf =
      ((htmlBlockLoop ec f a buf).1, (htmlBlockLoop ec f a buf).2.ext (nl :: rest)) ∧ (htmlBlockLoop ec f a buf).2.InB
  | 0, _, _, _, _, h, _, _ => by omega
  | _ + 1, 0, _, _, _, _, h, _ => by omega
  | f + 1, f' + 1, a, buf, hb, h1, h2, hr => by
    simp only [htmlBlockLoop] at hr ⊢
    cases hp : a.peek with
    | none =>
      have hge := peek_none_ge a hp
      simp only [hp] at hr
      rcases hr with rfl | hr
      · have hc : isBlank nl.s = true := by rw [hnl]; decide
        simp only [ext_peek_none nl rest a hp hb, hc, if_true]
        exact ⟨rfl, hb⟩
      · omega
    | some l =>
      have hrem := next_remaining a l hp
      simp only [hp] at hr
      simp only [ext_peek_some _ a l hp]
      cases ec with
      | some e =>
        simp only at hr ⊢
        split
        · exact ⟨rfl, next_inb a l hp⟩
        · rename_i hc
          simp only [hc] at hr
          rw [ext_next]
          exact htmlBlockLoop_ext nl rest hnl (some e) f f' a.next _ (next_inb a l hp) (by omega) (by omega) hr
      | none =>
        simp only at hr ⊢
        split
        · exact ⟨rfl, hb⟩
        · rename_i hc
          simp only [hc] at hr
          rw [ext_next]
          exact htmlBlockLoop_ext nl rest hnl none f f' a.next _ (next_inb a l hp) (by omega) (by omega) (Or.inl rfl)

theorem htmlBlockLoop_posLe (ec : Option Str) : ∀ (f : Nat) (a : FW) (buf : List Str), a.pos ≤ (htmlBlockLoop ec f a buf).2.pos
  | 0, _, _ => Nat.le_refl _
  | f + 1, a, buf => by
    simp only [htmlBlockLoop]
    split
    · exact Nat.le_refl _
    · split
      · split
        · exact Nat.le_succ _
        · exact Nat.le_trans (Nat.le_succ _) (htmlBlockLoop_posLe _ f a.next _)
      · split
        · exact Nat.le_refl _
        · exact Nat.le_trans (Nat.le_succ _) (htmlBlockLoop_posLe _ f a.next _)

theorem readHtmlBlock_ext (nl : Line) (rest : List Line) (hnl : nl.s = ['\n']) (a : FW) (l : Line) (hp : a.peek = some l)
    (ec : Option Str) (hr : (readHtmlBlock a ec).2.pos < a.lines.length) :
    readHtmlBlock (a.ext (nl :: rest)) ec = ((readHtmlBlock a ec).1, (readHtmlBlock a ec).2.ext (nl :: rest)) ∧
      a.pos ≤ (readHtmlBlock a ec).2.pos := by
  have hlt := peek_some_lt a l hp
  have hre : (a.ext (nl :: rest)).remaining = a.remaining + (rest.length + 1) := by
    simp only [FW.ext, FW.remaining, List.length_append, List.length_cons]; omega
  unfold readHtmlBlock at hr ⊢
  simp only at hr ⊢
  refine ⟨?_, htmlBlockLoop_posLe _ _ a _⟩
  rw [(htmlBlockLoop_ext nl rest hnl ec (a.remaining + 1) ((a.ext (nl :: rest)).remaining + 1) a []
    (Nat.le_of_lt hlt) (by omega) (by omega) (Or.inr hr)).1]

theorem blockCodeLoop_ext (post : List Line) : ∀ (f f' : Nat) (a : FW) (buf : List Str) (tb : Nat),
    a.remaining < f → a.remaining < f' →
    (∀ q l, a.pos - tb ≤ q → q < a.pos → a.lines[q]? = some l → isBlank l.s = true) →
    (∃ q l, (blockCodeLoop f a buf tb).2.2.pos - (blockCodeLoop f a buf tb).2.1 ≤ q ∧ a.lines[q]? = some l ∧ isBlank l.s = false) →
    blockCodeLoop f' (a.ext post) buf tb =
      ((blockCodeLoop f a buf tb).1, (blockCodeLoop f a buf tb).2.1, (blockCodeLoop f a buf tb).2.2.ext post)
  | 0, _, _, _, _, h, _, _, _ => by omega
  | _ + 1, 0, _, _, _, _, h, _, _ => by omega
  | f + 1, f' + 1, a, buf, tb, h1, h2, hinv, hr => by
    simp only [blockCodeLoop] at hr ⊢
    cases hp : a.peek with
    | none =>
      exfalso
      have hge := peek_none_ge a hp
      simp only [hp] at hr
      obtain ⟨q, l, hq, hl, hne⟩ := hr
      have hlt := (List.getElem?_eq_some_iff.mp hl).1
      rw [hinv q l hq (by omega) hl] at hne; cases hne
    | some l =>
      have hrem := next_remaining a l hp
      have hlp : a.lines[a.pos]? = some l := hp
      simp only [hp] at hr
      simp only [ext_peek_some _ a l hp]
      split
      · rename_i hb
        simp only [hb, if_true] at hr
        rw [ext_next]
        refine blockCodeLoop_ext post f f' a.next _ _ (by omega) (by omega) ?_ hr
        intro q l' hq1 hq2 hl'
        have hnp : a.next.pos = a.pos + 1 := rfl
        by_cases hqe : q = a.pos
        · subst hqe
          have : l' = l := Option.some.inj (hl'.symm.trans hlp)
          subst this
          exact hb
        · exact hinv q l' (by omega) (by omega) hl'
      · rename_i hb
        simp only [hb] at hr
        split
        · rfl
        · rename_i hc
          simp only [hc] at hr
          rw [ext_next]
          refine blockCodeLoop_ext post f f' a.next _ _ (by omega) (by omega) ?_ hr
          intro q l' hq1 hq2 _
          omega

theorem readBlockCode_ext (post : List Line) (a : FW) (l : Line) (hp : a.peek = some l) (hr : (readBlockCode a).2.NB) :
    readBlockCode (a.ext post) = ((readBlockCode a).1, (readBlockCode a).2.ext post) := by
  have hlt := peek_some_lt a l hp
  have hre : (a.ext post).remaining = a.remaining + post.length := by
    simp only [FW.ext, FW.remaining, List.length_append]; omega
  have hsame := blockCodeLoop_same (a.remaining + 1) a [] 0
  unfold readBlockCode at hr ⊢
  simp only at hr ⊢
  obtain ⟨q, l', hq, hl', hne⟩ := hr
  simp only at hq hl'
  rw [hsame.1] at hl'
  rw [blockCodeLoop_ext post (a.remaining + 1) ((a.ext post).remaining + 1) a [] 0 (by omega) (by omega)
    (by intro q l _ _ _; omega) ⟨q, l', hq, hl', hne⟩]
  rfl

theorem tableLoop_posLe : ∀ (f : Nat) (a : FW) (buf : List Str), a.pos ≤ (tableLoop f a buf).2.pos
  | 0, _, _ => Nat.le_refl _
  | f + 1, a, buf => by
    simp only [tableLoop]
    split
    · split
      · exact Nat.le_trans (Nat.le_succ _) (tableLoop_posLe f a.next _)
      · exact Nat.le_refl _
    · exact Nat.le_refl _

theorem readTable_pos (a : FW) (r) (h : readTable a = some r) : a.pos ≤ r.2.2.pos := by
  unfold readTable at h
  split at h
  · cases h
  · simp only at h
    split at h
    · split at h
      · cases h; exact Nat.le_trans (Nat.le_succ _) (tableLoop_posLe _ a.next _)
      · cases h
    · cases h

theorem paragraphLoop_posLe (cfg : Cfg) (so : Bool) : ∀ (f : Nat) (a : FW) (buf : List Str) (r),
    paragraphLoop cfg so f a buf = .ok r → a.pos ≤ r.2.2.pos
  | 0, _, _, _, h => by simp [paragraphLoop] at h
  | f + 1, a, buf, r, h => by
    simp only [paragraphLoop] at h
    split at h
    · cases h; exact Nat.le_refl _
    · split at h
      · cases h; exact Nat.le_refl _
      · split at h
        · cases h
        · cases h; exact Nat.le_refl _
        · split at h
          · cases h; exact Nat.le_succ _
          · split at h
            · cases h; exact Nat.le_refl _
            · exact Nat.le_trans (Nat.le_succ _) (paragraphLoop_posLe cfg so f a.next _ r h)

theorem readParagraph_pos (cfg : Cfg) (so : Bool) (a : FW) (l0 : Str) (r) (h : readParagraph cfg so a l0 = .ok r) :
    a.pos ≤ r.2.2.pos := by
  unfold readParagraph at h
  split at h
  · cases h
  · rename_i buf st fw1 heq
    cases h
    exact Nat.le_trans (Nat.le_succ _) (paragraphLoop_posLe cfg so _ a.next _ (buf, st, fw1) heq)

theorem quoteLoop_pos (cfg : Cfg) : ∀ (f : Nat) (a : FW) (buf : List Line) (fl : QFlags) (r),
    quoteLoop cfg f a buf fl = .ok r → a.pos ≤ r.2.pos
  | 0, _, _, _, _, h => by simp [quoteLoop] at h
  | f + 1, a, buf, fl, r, h => by
    simp only [quoteLoop] at h
    split at h
    · cases h; exact Nat.le_refl _
    · split at h
      · cases h; exact Nat.le_refl _
      · split at h
        · cases h
        · cases h; exact Nat.le_refl _
        · split at h
          · cases h
          · split at h
            · cases h
            · split at h
              · split at h
                · cases h
                · exact Nat.le_trans (Nat.le_succ _) (quoteLoop_pos cfg f a.next _ _ r h)
              · split at h
                · cases h; exact Nat.le_refl _
                · exact Nat.le_trans (Nat.le_succ _) (quoteLoop_pos cfg f a.next _ _ r h)

theorem quoteLines_pos (cfg : Cfg) (a : FW) (l0 : Line) (r) (h : quoteLines cfg a l0 = .ok r) : a.pos ≤ r.2.2.pos := by
  unfold quoteLines at h
  split at h
  · cases h
  · split at h
    · cases h
    · simp only at h
      split at h
      · cases h
      · rename_i buf fw2 heq
        cases h
        exact Nat.le_trans (Nat.le_succ _) (quoteLoop_pos cfg _ a.next _ _ (buf, fw2) heq)

theorem footnoteLines_inb : ∀ (f : Nat) (a : FW) (buf : List Str), a.InB → (footnoteLines f a buf).2.InB
  | 0, _, _, h => h
  | f + 1, a, buf, h => by
    simp only [footnoteLines]
    split
    · rename_i l hp
      split
      · exact footnoteLines_inb f a.next _ (next_inb a l hp)
      · exact h
    · exact h

theorem readFootnote_inb (a : FW) (hb : a.InB) (ms) (fw') (h : readFootnote a = .ok (ms, fw')) : fw'.InB := by
  have h1 := footnoteLines_inb (a.remaining + 1) a [] hb
  unfold readFootnote at h
  simp only at h
  split at h
  · cases h
  · cases h
    split
    · unfold FW.InB at h1 ⊢; simp only; omega
    · exact h1

def noList : Entry → Bool
  | .list .. => false
  | _ => true

/-- what the dispatch loop knows about a step: the entry is not a list, and either it is of a closed
    kind or a line that is not whitespace-only remains at or after the cursor it returned -/
def okR : Option (Entry × FW × St) → Prop
  | none => True
  | some (e, fw', _) => noList e = true ∧ (closedE e = true ∨ fw'.NB)

def ExtTry2 (cfg : Cfg) (nl : Line) (rest : List Line) (gas : Nat) : Prop :=
  ∀ (a : FW) (st : St) (l : Line) (ts : List BTok) (r), AllNlEnd a.lines → a.peek = some l →
    tryTypes cfg gas a st l ts = .ok r → okR r →
    tryTypes cfg gas (a.ext (nl :: rest)) st l ts = .ok (r.map (extT (nl :: rest))) ∧
      ∀ x, r = some x → x.2.1.InB ∧ a.pos ≤ x.2.1.pos

theorem nb_of_okR {e : Entry} {fw' : FW} {st' : St} (h : okR (some (e, fw', st'))) (hc : closedE e = false) : fw'.NB := by
  rcases h.2 with h | h
  · rw [hc] at h; cases h
  · exact h

theorem extTry2_step (cfg : Cfg) (nl : Line) (rest : List Line) (hnl : nl.s = ['\n']) (gas : Nat)
    (hY : ExtTry2 cfg nl rest gas) : ExtTry2 cfg nl rest (gas + 1) := by
  intro a st l ts r hl hp h hc
  cases ts with
  | nil =>
    simp only [tryTypes] at h ⊢
    cases h
    exact ⟨rfl, fun x hx => by cases hx⟩
  | cons t ts =>
    have ih := fun (h : tryTypes cfg gas a st l ts = .ok r) => hY a st l ts r hl hp h hc
    have hlt := peek_some_lt a l hp
    have hinb : a.InB := Nat.le_of_lt hlt
    simp only [tryTypes, ext_start, ext_pos] at h ⊢
    cases t <;> simp only at h ⊢
    · -- htmlBlock
      cases hh : htmlBlockStart l.s with
      | err e => simp [hh] at h
      | ok o =>
        simp only [hh] at h ⊢
        cases o with
        | none => exact ih h
        | some p =>
          simp only at h
          cases h
          have hnb := nb_lt _ (nb_of_okR hc rfl)
          rw [(readHtmlBlock_same a p.2).1] at hnb
          have key := readHtmlBlock_ext nl rest hnl a l hp p.2 hnb
          simp only [key.1]
          refine ⟨rfl, ?_⟩
          intro y hy; cases hy
          exact ⟨by unfold FW.InB; rw [(readHtmlBlock_same a p.2).1]; exact Nat.le_of_lt hnb, key.2⟩
    · -- blockCode
      split
      · rename_i hb
        simp only [hb, if_true] at h
        cases h
        have hnb := nb_of_okR hc rfl
        have hlt' := nb_lt _ hnb
        rw [(readBlockCode_same a).1] at hlt'
        rw [readBlockCode_ext _ a l hp hnb]
        refine ⟨rfl, ?_⟩
        intro y hy; cases hy
        exact ⟨by unfold FW.InB; rw [(readBlockCode_same a).1]; exact Nat.le_of_lt hlt', readBlockCode_pos a⟩
      · rename_i hb; simp only [hb] at h; exact ih h
    · -- heading
      rw [readHeading_ext]
      cases hh : readHeading a l.s with
      | none => simp only [hh] at h ⊢; exact ih h
      | some x =>
        have hfw := readHeading_fw a l.s x hh
        simp only [hh] at h ⊢
        cases h
        refine ⟨rfl, ?_⟩
        intro y hy; cases hy
        show x.2.2.2.InB ∧ a.pos ≤ x.2.2.2.pos
        rw [hfw]; exact ⟨next_inb a l hp, Nat.le_succ _⟩
    · -- quote
      split
      · rename_i hb
        simp only [hb, if_true] at h
        cases hq : quoteLines cfg a l with
        | err e => simp [hq] at h
        | ok x =>
          have key := quoteLines_ext cfg nl rest hnl a l hp l x hq
          have hpos := quoteLines_pos cfg a l x hq
          obtain ⟨qls, qstart, fw'⟩ := x
          simp only [hq, key.1] at h ⊢
          cases hbk : tokenizeBlock cfg gas qls qstart { st with setext := false } with
          | err e => simp [hbk] at h
          | ok bb =>
            simp only [hbk] at h ⊢
            cases h
            refine ⟨rfl, ?_⟩
            intro y hy; cases hy; exact ⟨key.2, hpos⟩
      · rename_i hb; simp only [hb] at h; exact ih h
    · -- codeFence
      cases hh : codeFenceStart l.s with
      | none => simp only [hh] at h ⊢; exact ih h
      | some m =>
        simp only [hh] at h ⊢
        cases h
        have hnb := nb_lt _ (nb_of_okR hc rfl)
        rw [(readCodeFence_same a m).1] at hnb
        have key := readCodeFence_ext (nl :: rest) a l hp m hnb
        simp only [key.1]
        refine ⟨rfl, ?_⟩
        intro y hy; cases hy
        exact ⟨by unfold FW.InB; rw [(readCodeFence_same a m).1]; exact Nat.le_of_lt hnb, key.2⟩
    · -- thematicBreak
      split
      · rename_i hb
        simp only [hb, if_true] at h
        cases h
        refine ⟨rfl, ?_⟩
        intro y hy; cases hy; exact ⟨next_inb a l hp, Nat.le_succ _⟩
      · rename_i hb; simp only [hb] at h; exact ih h
    · -- list
      split
      · rename_i hb
        simp only [hb, if_true] at h
        cases hr : readList cfg gas a st none none [] with
        | err e => simp [hr] at h
        | ok x => simp only [hr] at h; cases h; have := hc.1; simp [noList] at this
      · rename_i hb; simp only [hb] at h; exact ih h
    · -- table
      split
      · rename_i hb
        simp only [hb, if_true] at h
        have key := readTable_ext nl rest hnl a l hp
        rw [key.1]
        cases hh : readTable a with
        | none => simp only [hh] at h ⊢; exact ih h
        | some x =>
          simp only [hh] at h ⊢
          cases h
          refine ⟨rfl, ?_⟩
          intro y hy; cases hy; exact ⟨key.2 x hh, readTable_pos a x hh⟩
      · rename_i hb; simp only [hb] at h; exact ih h
    · -- footnote
      split
      · rename_i hb
        simp only [hb, if_true] at h
        rw [readFootnote_ext nl rest hnl a hinb]
        cases hf : readFootnote a with
        | err e => simp [hf] at h
        | ok x =>
          obtain ⟨ms, fw'⟩ := x
          have hpos := readFootnote_pos a hl ms fw' hf
          simp only [hf, rmap_ok] at h ⊢
          split
          · rename_i hm
            simp only [hm, if_true] at h
            have hsame := readFootnote_same a ms fw' hf
            have hpf := footnote_restores a ms fw' l hf hm hl hp (startsWith_lstrip_nb _ hb)
            have := hY fw' _ l ts r (by rw [hsame.1]; exact hl) hpf h hc
            exact ⟨this.1, fun x hx => ⟨(this.2 x hx).1, Nat.le_trans hpos (this.2 x hx).2⟩⟩
          · rename_i hm
            simp only [hm, Bool.false_eq_true, if_false] at h
            cases h
            refine ⟨rfl, ?_⟩
            intro y hy; cases hy; exact ⟨readFootnote_inb a hinb ms fw' hf, hpos⟩
      · rename_i hb; simp only [hb] at h; exact ih h
    · -- paragraph
      split
      · rename_i hb
        simp only [hb, if_true] at h
        cases hpp : readParagraph cfg st.setext a l.s with
        | err e => simp [hpp] at h
        | ok x =>
          have key := readParagraph_ext cfg st.setext nl rest hnl a l hp l.s x hpp
          have hpos := readParagraph_pos cfg st.setext a l.s x hpp
          obtain ⟨bb, se, fw'⟩ := x
          simp only [hpp, key.1] at h ⊢
          cases se with
          | true =>
            simp only at h ⊢
            cases h
            refine ⟨rfl, ?_⟩
            intro y hy; cases hy; exact ⟨key.2, hpos⟩
          | false =>
            simp only at h ⊢
            cases h
            refine ⟨rfl, ?_⟩
            intro y hy; cases hy; exact ⟨key.2, hpos⟩
      · rename_i hb; simp only [hb] at h; exact ih h
    · -- blankLine
      split
      · rename_i hb
        simp only [hb, if_true] at h
        cases h
        refine ⟨rfl, ?_⟩
        intro y hy; cases hy; exact ⟨next_inb a l hp, Nat.le_succ _⟩
      · rename_i hb; simp only [hb] at h; exact ih h
    · -- linkRefDefBlock
      split
      · rename_i hb
        simp only [hb, if_true] at h
        rw [readFootnote_ext nl rest hnl a hinb]
        cases hf : readFootnote a with
        | err e => simp [hf] at h
        | ok x =>
          obtain ⟨ms, fw'⟩ := x
          have hpos := readFootnote_pos a hl ms fw' hf
          simp only [hf, rmap_ok] at h ⊢
          split
          · rename_i hm
            simp only [hm, if_true] at h
            have hsame := readFootnote_same a ms fw' hf
            have hpf := footnote_restores a ms fw' l hf hm hl hp (startsWith_lstrip_nb _ hb)
            have := hY fw' _ l ts r (by rw [hsame.1]; exact hl) hpf h hc
            exact ⟨this.1, fun x hx => ⟨(this.2 x hx).1, Nat.le_trans hpos (this.2 x hx).2⟩⟩
          · rename_i hm
            simp only [hm, Bool.false_eq_true, if_false] at h
            cases h
            refine ⟨rfl, ?_⟩
            intro y hy; cases hy; exact ⟨readFootnote_inb a hinb ms fw' hf, hpos⟩
      · rename_i hb; simp only [hb] at h; exact ih h

theorem extTry2_all (cfg : Cfg) (nl : Line) (rest : List Line) (hnl : nl.s = ['\n']) : ∀ gas, ExtTry2 cfg nl rest gas
  | 0 => by intro a st l ts r _ _ h; simp [tryTypes] at h
  | gas + 1 => extTry2_step cfg nl rest hnl gas (extTry2_all cfg nl rest hnl gas)

/-! #### (P) the dispatch loop on the extended buffer -/

/-- on the line "\n" no token type other than the Markdown renderer's `BlankLine` starts
    (same statement as `tryTypes_nl` in `Proofs/Inert.lean`; repeated so that this file only needs `Proofs/Block`) -/
theorem tryTypes_nl_none (cfg : Cfg) (fw : FW) (st : St) (l : Line) (hl : l.s = ['\n']) :
    ∀ (ts : List BTok) (gas : Nat), .blankLine ∉ ts → ts.length < gas → tryTypes cfg gas fw st l ts = .ok none
  | _, 0, _, hg => by simp at hg
  | [], gas + 1, _, _ => by simp [tryTypes]
  | t :: ts, gas + 1, hm, hg => by
    have hg' : ts.length < gas := by simp only [List.length_cons] at hg; omega
    have ih := tryTypes_nl_none cfg fw st l hl ts gas (fun h => hm (List.mem_cons_of_mem _ h)) hg'
    have h1 : htmlBlockStart ['\n'] = .ok none := by decide
    have h2 : blockCodeStart ['\n'] = false := by decide
    have h3 : heading ['\n'] = none := by decide
    have h4 : quoteStart ['\n'] = false := by decide
    have h5 : codeFenceStart ['\n'] = none := by decide
    have h6 : thematicBreak ['\n'] = false := by decide
    have h7 : listStart ['\n'] = false := by decide
    have h8 : (['\n'] : Str).contains '|' = false := by decide
    have h9 : startsWith ['['] (lstrip ['\n']) = false := by decide
    have h10 : isBlank ['\n'] = true := by decide
    unfold tryTypes
    cases t <;> simp only [hl, h1, h2, h3, h4, h5, h6, h7, h8, h9, h10, readHeading, Bool.false_eq_true, if_false,
      Bool.not_true] <;> first | exact ih | exact absurd (List.mem_cons_self ..) hm

theorem tryTypes_some_ne_nl (cfg : Cfg) (hbl : .blankLine ∉ cfg.types) (gas : Nat) (fw : FW) (st : St) (l : Line) (x)
    (h : tryTypes cfg gas fw st l cfg.types = .ok (some x)) : l.s ≠ ['\n'] := by
  intro hl
  have h1 := tryTypes_mono cfg fw st l cfg.types _ gas (gas + cfg.types.length + 1) (by omega) h
  rw [tryTypes_nl_none cfg fw st l hl cfg.types _ hbl (by omega)] at h1
  cases h1

/-- if the loop started at `fw` produces any entry at all, a line other than "\n" lies at or after `fw`
    (no longer used: what `readBlockCode_ext` needs is a line that is not whitespace-only, `tokLoop_closed_nbl`) -/
theorem tokLoop_new_nb (cfg : Cfg) (hbl : .blankLine ∉ cfg.types) : ∀ (gas : Nat) (fw : FW) (st : St) (acc : List Entry)
    (loose : Bool) (buf : Buf) (st' : St) (new : List Entry),
    tokLoop cfg gas fw st acc loose = .ok (buf, st') → buf.entries = acc.reverse ++ new → new ≠ [] →
    ∃ q l, fw.pos ≤ q ∧ fw.lines[q]? = some l ∧ l.s ≠ ['\n']
  | 0, _, _, _, _, _, _, _, h, _, _ => by simp [tokLoop] at h
  | gas + 1, fw, st, acc, loose, buf, st', new, h, hn, hne => by
    simp only [tokLoop] at h
    cases hp : fw.peek with
    | none =>
      simp only [hp, Res.ok.injEq, Prod.mk.injEq] at h
      rw [← h.1] at hn
      simp only at hn
      have : new = [] := by simpa using hn
      exact absurd this hne
    | some l =>
      simp only [hp] at h
      cases ht : tryTypes cfg gas fw st l cfg.types with
      | err e => simp [ht] at h
      | ok o =>
        simp only [ht] at h
        cases o with
        | none =>
          simp only at h
          obtain ⟨q, l', hq, hl', hne'⟩ := tokLoop_new_nb cfg hbl gas fw.next st acc true buf st' new h hn hne
          exact ⟨q, l', Nat.le_trans (Nat.le_succ _) hq, hl', hne'⟩
        | some x => exact ⟨fw.pos, l, Nat.le_refl _, hp, tryTypes_some_ne_nl cfg hbl gas fw st l x ht⟩

theorem ll_span_cat (p : Char → Bool) : ∀ (s : Str), (span p s).1 ++ (span p s).2 = s
  | [] => rfl
  | c :: rest => by
    simp only [span]
    split
    · simp only [List.cons_append, ll_span_cat p rest]
    · rfl

theorem ll_mem_not_blank (s : Str) (c : Char) (hm : c ∈ s) (hc : pyIsSpace c = false) : isBlank s = false := by
  unfold isBlank
  cases h : s.all pyIsSpace with
  | false => rfl
  | true =>
    rw [List.all_eq_true] at h
    rw [h c hm] at hc; cases hc

/-! ### A block of a closed kind starts on a line that is not whitespace-only -/

theorem ll_span_head (p : Char → Bool) (s : Str) (h : (span p s).1 ≠ []) : ∃ c r, s = c :: r ∧ p c = true := by
  cases s with
  | nil => simp [span] at h
  | cons c r =>
    refine ⟨c, r, rfl, ?_⟩
    cases hp : p c with
    | true => rfl
    | false => simp [span, hp] at h

theorem ll_upTo3_mem (s : Str) (n : Nat) (r : Str) (h : upTo3Spaces s = some (n, r)) (c : Char) (hc : c ∈ r) : c ∈ s := by
  unfold upTo3Spaces at h
  simp only at h
  split at h
  · cases h
  · cases h; exact List.mem_of_mem_drop hc

theorem heading_nonblank (s : Str) (m) (h : Scan.heading s = some m) : isBlank s = false := by
  unfold Scan.heading at h
  cases hu : upTo3Spaces s with
  | none => simp [hu] at h
  | some x =>
    obtain ⟨n, r⟩ := x
    simp only [hu] at h
    have hne : (span (· == '#') r).1 ≠ [] := by
      intro e
      rw [e] at h
      simp at h
    obtain ⟨c, r', hr, hc⟩ := ll_span_head _ r hne
    simp only [beq_iff_eq] at hc
    subst hc
    exact ll_mem_not_blank s '#' (ll_upTo3_mem s n r hu '#' (by rw [hr]; simp)) (by decide)

theorem thematicBreak_nonblank (s : Str) (h : Scan.thematicBreak s = true) : isBlank s = false := by
  unfold Scan.thematicBreak at h
  cases hu : upTo3Spaces s with
  | none => simp [hu] at h
  | some x =>
    obtain ⟨n, r⟩ := x
    simp only [hu] at h
    cases r with
    | nil => simp at h
    | cons c r' =>
      simp only [Bool.and_eq_true, Bool.or_eq_true, beq_iff_eq] at h
      have hm : c ∈ s := ll_upTo3_mem s n (c :: r') hu c (by simp)
      rcases h.1.1 with (rfl | rfl) | rfl
      · exact ll_mem_not_blank s _ hm (by decide)
      · exact ll_mem_not_blank s _ hm (by decide)
      · exact ll_mem_not_blank s _ hm (by decide)

theorem ll_lstripSp_suffix : ∀ (s : Str), lstripSp s <:+ s
  | [] => List.suffix_refl _
  | c :: rest => by
    by_cases hc : c = ' '
    · subst hc
      simp only [lstripSp]
      exact List.IsSuffix.trans (ll_lstripSp_suffix rest) (List.suffix_cons _ _)
    · have : lstripSp (c :: rest) = c :: rest := by
        unfold lstripSp
        split
        · rename_i heq; cases heq; exact absurd rfl hc
        · rfl
      rw [this]
      exact List.suffix_refl _

theorem quoteStart_nonblank (s : Str) (h : quoteStart s = true) : isBlank s = false := by
  unfold quoteStart at h
  simp only at h
  split at h
  · cases h
  · have hsuf := ll_lstripSp_suffix s
    cases hl : lstripSp s with
    | nil => rw [hl] at h; simp [startsWith] at h
    | cons c r =>
      rw [hl] at h hsuf
      simp only [startsWith, List.isPrefixOf, Bool.and_eq_true, beq_iff_eq] at h
      have hc : c = '>' := h.1.symm
      subst hc
      exact ll_mem_not_blank s '>' (hsuf.subset (by simp)) (by decide)

theorem contains_bar_nonblank (s : Str) (h : s.contains '|' = true) : isBlank s = false :=
  ll_mem_not_blank s '|' (by simpa using h) (by decide)

theorem tryTypes_closed_nonblank (cfg : Cfg) : ∀ (gas : Nat) (fw : FW) (st : St) (l : Line) (ts : List BTok) (e : Entry) (fw' : FW) (st' : St),
    tryTypes cfg gas fw st l ts = .ok (some (e, fw', st')) → closedE e = true → isBlank l.s = false
  | 0, _, _, _, _, _, _, _, h, _ => by simp [tryTypes] at h
  | _ + 1, _, _, _, [], _, _, _, h, _ => by simp [tryTypes] at h
  | gas + 1, fw, st, l, t :: ts, e, fw', st', h, hc => by
    have ih := fun fw2 st2 (h2 : tryTypes cfg gas fw2 st2 l ts = .ok (some (e, fw', st'))) =>
      tryTypes_closed_nonblank cfg gas fw2 st2 l ts e fw' st' h2 hc
    unfold tryTypes at h
    cases t <;> simp only at h
    · -- htmlBlock
      split at h
      · cases h
      · exact ih _ _ h
      · cases h; cases hc
    · -- blockCode
      split at h
      · cases h; cases hc
      · exact ih _ _ h
    · -- heading
      split at h
      · rename_i hh
        unfold readHeading at hh
        split at hh
        · cases hh
        · rename_i m hm; exact heading_nonblank _ m hm
      · exact ih _ _ h
    · -- quote
      split at h
      · rename_i hq; exact quoteStart_nonblank _ hq
      · exact ih _ _ h
    · -- codeFence
      split at h
      · cases h; cases hc
      · exact ih _ _ h
    · -- thematicBreak
      split at h
      · rename_i ht; exact thematicBreak_nonblank _ ht
      · exact ih _ _ h
    · -- list
      split at h
      · split at h
        · cases h
        · cases h; cases hc
      · exact ih _ _ h
    · -- table
      split at h
      · rename_i hp; exact contains_bar_nonblank _ hp
      · exact ih _ _ h
    · -- footnote
      split at h
      · split at h
        · cases h
        · split at h
          · exact ih _ _ h
          · cases h; cases hc
      · exact ih _ _ h
    · -- paragraph
      split at h
      · rename_i hb; simpa using hb
      · exact ih _ _ h
    · -- blankLine
      split at h
      · cases h; cases hc
      · exact ih _ _ h
    · -- linkRefDefBlock
      split at h
      · split at h
        · cases h
        · split at h
          · exact ih _ _ h
          · cases h; cases hc
      · exact ih _ _ h

/-- if the entries the loop produces from `fw` on end with a block of a closed kind, a line that is
    not whitespace-only lies at or after `fw` -/
theorem tokLoop_closed_nbl (cfg : Cfg) : ∀ (gas : Nat) (fw : FW) (st : St) (acc : List Entry)
    (loose : Bool) (buf : Buf) (st' : St) (new : List Entry), AllNlEnd fw.lines →
    tokLoop cfg gas fw st acc loose = .ok (buf, st') → buf.entries = acc.reverse ++ new → new ≠ [] →
    (∀ e, new.getLast? = some e → closedE e = true) → fw.NB
  | 0, _, _, _, _, _, _, _, _, h, _, _, _ => by simp [tokLoop] at h
  | gas + 1, fw, st, acc, loose, buf, st', new, hl, h, hn, hne, hlast => by
    simp only [tokLoop] at h
    cases hp : fw.peek with
    | none =>
      simp only [hp, Res.ok.injEq, Prod.mk.injEq] at h
      rw [← h.1] at hn
      simp only at hn
      have : new = [] := by simpa using hn
      exact absurd this hne
    | some l =>
      simp only [hp] at h
      cases ht : tryTypes cfg gas fw st l cfg.types with
      | err e => simp [ht] at h
      | ok o =>
        simp only [ht] at h
        cases o with
        | none =>
          simp only at h
          obtain ⟨q, l', hq, hl', hb⟩ := tokLoop_closed_nbl cfg gas fw.next st acc true buf st' new hl h hn hne hlast
          exact ⟨q, l', Nat.le_trans (Nat.le_succ _) hq, hl', hb⟩
        | some x =>
          obtain ⟨en, fw1, st1⟩ := x
          simp only at h
          have hfwd := tryTypes_fwd cfg gas fw l cfg.types fw st en fw1 st1 hl ht (Same.refl fw) rfl hp
          have hacc := tokLoop_acc cfg gas fw1 st1 (en :: acc) loose
          rw [h] at hacc
          cases hr : tokLoop cfg gas fw1 st1 [] false with
          | err e => rw [hr] at hacc; cases hacc
          | ok r1 =>
            rw [hr] at hacc
            simp only [rmap_ok, withAcc, Res.ok.injEq, Prod.mk.injEq] at hacc
            have hent : buf.entries = (en :: acc).reverse ++ r1.1.entries := by rw [hacc.1]
            have hnew : new = en :: r1.1.entries := by
              have : acc.reverse ++ new = acc.reverse ++ (en :: r1.1.entries) := by
                rw [← hn, hent]; simp
              exact List.append_cancel_left this
            cases hre : r1.1.entries with
            | nil =>
              have hcl : closedE en = true := by apply hlast; rw [hnew, hre]; rfl
              exact ⟨fw.pos, l, Nat.le_refl _, hp, tryTypes_closed_nonblank cfg gas fw st l cfg.types en fw1 st1 ht hcl⟩
            | cons y ys =>
              obtain ⟨q, l', hq, hl', hb⟩ := tokLoop_closed_nbl cfg gas fw1 st1 (en :: acc) loose buf st' r1.1.entries
                (by rw [hfwd.1.1]; exact hl) h hent (by rw [hre]; simp)
                (by
                  intro e he
                  apply hlast
                  rw [hnew, hre]
                  rw [hre] at he
                  rw [List.getLast?_cons_cons]; exact he)
              have := hfwd.2 footAdv
              exact ⟨q, l', by omega, by rw [← hfwd.1.1]; exact hl', hb⟩

theorem tokLoop_ext (cfg : Cfg) (nl : Line) (rest : List Line) (hnl : nl.s = ['\n']) (hbl : .blankLine ∉ cfg.types)
    (extra : Nat) (hex : cfg.types.length < extra) :
    ∀ (gas : Nat) (a : FW) (st : St) (acc : List Entry) (loose : Bool) (buf : Buf) (st' : St) (new : List Entry),
      a.InB → AllNlEnd a.lines → tokLoop cfg gas a st acc loose = .ok (buf, st') →
      buf.entries = acc.reverse ++ new → (∀ e ∈ new, noList e = true) → (∀ e, new.getLast? = some e → closedE e = true) →
      ∃ g', extra ≤ g' ∧
        tokLoop cfg (gas + extra) (a.ext (nl :: rest)) st acc loose =
          tokLoop cfg g' { lines := a.lines ++ nl :: rest, pos := a.lines.length + 1, start := a.start } st'
            buf.entries.reverse true
  | 0, _, _, _, _, _, _, _, _, _, h, _, _, _ => by simp [tokLoop] at h
  | gas + 1, a, st, acc, loose, buf, st', new, hb, hl, h, hn, hnol, hlast => by
    have e : gas + 1 + extra = (gas + extra) + 1 := by omega
    rw [e]
    simp only [tokLoop] at h ⊢
    cases hp : a.peek with
    | none =>
      simp only [hp, Res.ok.injEq, Prod.mk.injEq] at h
      obtain ⟨h1, h2⟩ := h
      subst h2
      rw [← h1]
      simp only [ext_peek_none nl rest a hp hb,
        tryTypes_nl_none cfg _ st nl hnl cfg.types (gas + extra) hbl (by omega), List.reverse_reverse]
      refine ⟨gas + extra, by omega, ?_⟩
      have hpos : a.pos = a.lines.length := by
        have := peek_none_ge a hp
        unfold FW.InB at hb; omega
      simp only [FW.next, FW.ext, hpos]
    | some l =>
      simp only [hp] at h
      simp only [ext_peek_some _ a l hp]
      cases ht : tryTypes cfg gas a st l cfg.types with
      | err e => simp [ht] at h
      | ok o =>
        have hm := tryTypes_mono cfg a st l cfg.types o gas (gas + extra) (by omega) ht
        simp only [ht] at h
        cases o with
        | none =>
          have key := extTry2_all cfg nl rest hnl (gas + extra) a st l cfg.types none hl hp hm trivial
          simp only [key.1, Option.map_none]
          simp only at h
          exact tokLoop_ext cfg nl rest hnl hbl extra hex gas a.next st acc true buf st' new (next_inb a l hp) hl h hn hnol hlast
        | some x =>
          obtain ⟨en, fw', st1⟩ := x
          simp only at h
          -- the entries produced after `en`
          have hacc := tokLoop_acc cfg gas fw' st1 (en :: acc) loose
          rw [h] at hacc
          cases hr : tokLoop cfg gas fw' st1 [] false with
          | err e => rw [hr] at hacc; cases hacc
          | ok r1 =>
            rw [hr] at hacc
            simp only [rmap_ok, withAcc, Res.ok.injEq, Prod.mk.injEq] at hacc
            have hent : buf.entries = (en :: acc).reverse ++ r1.1.entries := by rw [hacc.1]
            have hnew : new = en :: r1.1.entries := by
              have : acc.reverse ++ new = acc.reverse ++ (en :: r1.1.entries) := by
                rw [← hn, hent]; simp
              exact List.append_cancel_left this
            have hsame := (same_all cfg gas).1 a st l cfg.types _ ht
            have hl' : AllNlEnd fw'.lines := by rw [hsame.1]; exact hl
            have hlast' : ∀ e, r1.1.entries.getLast? = some e → closedE e = true := by
              intro e he
              apply hlast
              rw [hnew]
              cases hre : r1.1.entries with
              | nil => rw [hre] at he; cases he
              | cons y ys => rw [hre] at he; rw [List.getLast?_cons_cons]; exact he
            have hok : okR (some (en, fw', st1)) := by
              refine ⟨hnol en (by rw [hnew]; simp), ?_⟩
              cases hre : r1.1.entries with
              | nil => left; apply hlast; rw [hnew, hre]; rfl
              | cons y ys =>
                right
                exact tokLoop_closed_nbl cfg gas fw' st1 (en :: acc) loose buf st' r1.1.entries hl' h hent (by rw [hre]; simp) hlast'
            have key := extTry2_all cfg nl rest hnl (gas + extra) a st l cfg.types (some (en, fw', st1)) hl hp hm hok
            simp only [key.1, Option.map_some, extT]
            obtain ⟨g', hg, heq⟩ := tokLoop_ext cfg nl rest hnl hbl extra hex gas fw' st1 (en :: acc) loose buf st' r1.1.entries
              (key.2 _ rfl).1 hl' h hent
              (fun e he => hnol e (by rw [hnew]; exact List.mem_cons_of_mem _ he)) hlast'
            refine ⟨g', hg, ?_⟩
            rw [heq]
            have h1 : fw'.lines = a.lines := hsame.1
            have h2 : fw'.start = a.start := hsame.2
            rw [h1, h2]

/-! ### The three statements used by C05 -/

theorem allNlEnd_map_sh (k : Nat) (ls : List Line) (h : AllNlEnd ls) : AllNlEnd (ls.map (Line.sh k)) := by
  intro l hl
  simp only [List.mem_map] at hl
  obtain ⟨l0, hl0, rfl⟩ := hl
  exact h l0 hl0

/-- **(S) Suffix shift.**  Start the dispatch loop at the first line of `B` inside the buffer
    `pre ++ B` whose first line is numbered `start`, the ghost origins of `B` being those of `B0`
    shifted by `pre.length`.  The result is the result of `tokenize_block(B0, start)` with every
    reported line number and ghost origin, at every depth, raised by `pre.length` — appended to
    whatever the accumulator already holds. -/
theorem tokLoop_suffix_shift (cfg : Cfg) (gas : Nat) (pre B0 : List Line) (start : Nat) (st : St)
    (acc : List Entry) (loose : Bool) (hB : AllNlEnd B0) :
    tokLoop cfg gas { lines := pre ++ B0.map (Line.sh pre.length), pos := pre.length, start := start } st acc loose =
      rmap (withAcc acc loose) (rmap (shB pre.length) (tokenizeBlock cfg (gas + 1) B0 start st)) := by
  rw [tokLoop_acc, tokLoop_suffix cfg gas pre _ start st [] false (allNlEnd_map_sh _ _ hB)]
  have := tokLoop_shift cfg pre.length gas { lines := B0, pos := 0, start := start } st [] false
  simp only [FW.sh, shiftEntries] at this
  rw [this]
  simp only [tokenizeBlock]

/-- the last top-level block, if any, is a paragraph, setext or ATX heading, thematic break, block quote or table -/
def lastClosed (es : List Entry) : Prop := ∀ e, es.getLast? = some e → closedE e = true

/-- **(P) Prefix independence (partial).**  If `tokenize_block(A)` returns, none of the top-level
    blocks it produced is a list, and the last one is a paragraph, setext or ATX heading, thematic
    break, block quote or table, then on `A ++ "\n" :: rest` (any `rest`) the tokenizer produces the
    same blocks, leaves the same state, and continues, with `loose := true`, at the line after the "\n". -/
theorem tokenizeBlock_prefix (cfg : Cfg) (hbl : .blankLine ∉ cfg.types) (A : List Line) (nl : Line) (hnl : nl.s = ['\n'])
    (rest : List Line) (start : Nat) (st : St) (gas : Nat) (bA : Buf) (stA : St)
    (hA : tokenizeBlock cfg gas A start st = .ok (bA, stA)) (hnol : ∀ e ∈ bA.entries, noList e = true) (hlast : lastClosed bA.entries)
    (hnlA : AllNlEnd A) (extra : Nat) (hex : cfg.types.length < extra) :
    ∃ g', extra ≤ g' ∧
      tokenizeBlock cfg (gas + extra) (A ++ nl :: rest) start st =
        tokLoop cfg g' { lines := A ++ nl :: rest, pos := A.length + 1, start := start } stA bA.entries.reverse true := by
  cases gas with
  | zero => simp [tokenizeBlock] at hA
  | succ g =>
    have e : g + 1 + extra = (g + extra) + 1 := by omega
    rw [e]
    simp only [tokenizeBlock] at hA ⊢
    exact tokLoop_ext cfg nl rest hnl hbl extra hex g { lines := A, pos := 0, start := start } st [] false bA stA
      bA.entries (Nat.zero_le _) hnlA hA (by simp) hnol hlast

/-- **Concatenation across a blank line (partial).**  `A`, a "\n" line and `B` tokenized as one buffer
    give `A`'s blocks followed by `B`'s blocks, the latter with line numbers (and ghost origins)
    raised by `A.length + 1`; `B` is read in the state `A` leaves behind. -/
theorem tokenizeBlock_concat (cfg : Cfg) (hbl : .blankLine ∉ cfg.types) (A B0 : List Line) (nl : Line) (hnl : nl.s = ['\n'])
    (start : Nat) (st : St) (gA gB : Nat) (bA bB : Buf) (stA stB : St)
    (hA : tokenizeBlock cfg gA A start st = .ok (bA, stA)) (hnol : ∀ e ∈ bA.entries, noList e = true) (hlast : lastClosed bA.entries)
    (hB : tokenizeBlock cfg gB B0 start stA = .ok (bB, stB)) (hnlA : AllNlEnd A) (hnlB : AllNlEnd B0) :
    tokenizeBlock cfg (gA + (gB + cfg.types.length + 1)) (A ++ nl :: B0.map (Line.sh (A.length + 1))) start st =
      .ok ({ entries := bA.entries ++ shiftEntries (A.length + 1) bB.entries, loose := true }, stB) := by
  obtain ⟨g', hg, heq⟩ := tokenizeBlock_prefix cfg hbl A nl hnl (B0.map (Line.sh (A.length + 1))) start st gA bA stA hA hnol hlast hnlA
    (gB + cfg.types.length + 1) (by omega)
  rw [heq]
  have h1 : A ++ nl :: B0.map (Line.sh (A.length + 1)) = (A ++ [nl]) ++ B0.map (Line.sh (A ++ [nl]).length) := by simp
  have h2 : A.length + 1 = (A ++ [nl]).length := by simp
  rw [h1, h2, tokLoop_suffix_shift cfg g' (A ++ [nl]) B0 start stA _ true hnlB,
    tokenizeBlock_mono cfg B0 start stA (bB, stB) gB (g' + 1) (by omega) hB]
  simp [withAcc, shB]
end Mistletoe.Block
