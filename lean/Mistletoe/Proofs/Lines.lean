import Mistletoe.Model.Lines
namespace Mistletoe

theorem endsWithNl_cons_cons (x y : Char) (ys : Str) : endsWithNl (x :: y :: ys) = endsWithNl (y :: ys) := by
  rw [endsWithNl]
  intro h; cases h

theorem endsWithNl_append (p q : Str) (hq : q ≠ []) : endsWithNl (p ++ q) = endsWithNl q := by
  induction p with
  | nil => rfl
  | cons x xs ih =>
    cases hxs : xs ++ q with
    | nil =>
      have : q = [] := (List.append_eq_nil_iff.mp hxs).2
      exact absurd this hq
    | cons y ys =>
      show endsWithNl (x :: (xs ++ q)) = _
      rw [hxs, endsWithNl_cons_cons, ← hxs, ih]

theorem endsWithNl_snoc (p : Str) : endsWithNl (p ++ ['\n']) = true := by
  rw [endsWithNl_append p ['\n'] (by simp)]; rfl

end Mistletoe
