/-
  Composition of the block-level theorems, TABLES and INDENTED CODE BLOCKS included (C03, fourth fragment).

  `Proofs/ComposeCode.lean` proves that a document written out from a tree of paragraphs, ATX and setext headings, thematic
  breaks, block quotes, lists and fenced code blocks (`ComposeC.T3`) parses to that tree and renders to the HTML written
  directly from it.  This file restates that development for the tree type `T4`, which adds one constructor `leaf l` for
  two kinds of leaves (`Leaf`):

  * `table hdr del rows` - a GFM table: header row, delimiter row (per column `---`, `:--`, `:-:`, `--:` with any number of
    hyphens and any padding), body rows; every row with or without the outer pipes; cells of inert text with any padding;
    body rows with fewer or more cells than columns; at top level, inside quotes and inside list items, to any depth;
  * `icode lines` - an indented code block: lines indented by four spaces and more, interior lines of whitespace; at top
    level, inside quotes and inside list items (not as the first block of an item), to any depth.

  New ingredients (the rest is `ComposeCode.lean`'s argument restated for `T4`, the two leaves handled through one
  constructor; its lemmas that speak of lines only are used as they are):
  * `Table.read` over the written lines (`tableLoop_body`, `readTable_block`), the dispatcher on the header line
    (`HeadFacts`; automatic for a line that begins with a pipe: `pipe_headFacts`; `tokenize_table`).  A table is one of the
    blocks C05 counts as closed by a blank line (`closedE`), so `nodes_step_closed` applies;
  * `BlockCode.read` over indented lines with interior blank lines and its bookkeeping of trailing whitespace-only lines
    (`blockCodeLoop_run`, `readBlockCode_run`): an indented code block is NOT closed by a blank line (an indented line
    behind it goes on the block), so the dispatcher is followed over it directly (`ThenClaim` with `CodeStop`), and
    well-formedness asks that the next sibling not begin with four spaces (`sepOk4`);
  * `TableRow.__init__` on a written row: `strip`, the split at the pipes, the filter of empty strings, `zip_longest`
    with the alignments (`row_cells`, `go_cells`, `tableRow_row`); the delimiter row under
    `Table.delimiter_row_pattern`, `column_align_pattern.findall` and `parse_align` (`delimiterRow_line`,
    `findAligns_line`, `mapRes_cores`): proved for every row of the shape, no check left to evaluation;
  * the content of a code block: `''.join(lines).strip('\n') + '\n'` gives the joined lines back (`codeContent_eq`);
  * the HTML of a table (`tableHtml`, `flat_leaf`).

  Main theorems: `C03_table_block_phase_partial`, `C03_table_tokenize_partial`, `C03_table_document_partial`,
  `C03_table_render_partial`, `C03_table_html_partial`.  Non-vacuity examples, the comparison with kernel evaluation and
  the findings are in `Proofs/ComposeTable2.lean`.
-/
import Mistletoe.Proofs.ComposeCode
namespace Mistletoe.ComposeT
open Mistletoe Mistletoe.Py Mistletoe.Scan Mistletoe.Compose
open Mistletoe.Block hiding numbered numbered_cons numbered_append
open Mistletoe.Props.C14 (defaultTypes inertLine numbered numbered_cons numbered_append numbered_length numbered_mem numbered_s)
open Mistletoe.InertInline (inertBody inertText proseLine oneLine proseInlines inertClass)
open Mistletoe.Props.C04 (indentDoc itemDocOk)
open Mistletoe.Html (natDigits)
open Mistletoe.MdRound (fenceLang closes lstripSp_cons lstripSp_len lstripSp_pad)

/-! ### `Table.read` -/

theorem tableLoop_body (post : List Line) (start : Nat) (hpost : ∀ b, post.head? = some b → b.s.contains '|' = false) :
    ∀ (body pre : List Line) (buf : List Str) (fuel : Nat), (∀ x ∈ body, x.s.contains '|' = true) → body.length < fuel →
    tableLoop fuel ⟨pre ++ (body ++ post), pre.length, start⟩ buf =
      ((body.map (·.s)).reverse ++ buf, ⟨(pre ++ body) ++ post, (pre ++ body).length, start⟩)
  | [], pre, buf, fuel, _, hf => by
    obtain ⟨f, rfl⟩ : ∃ f, fuel = f + 1 := ⟨fuel - 1, by simp at hf; omega⟩
    cases post with
    | nil =>
      have := peek_end pre start
      simp only [List.append_nil] at this ⊢
      simp [tableLoop, this]
    | cons b post' =>
      have hb := hpost b rfl
      simp only [List.nil_append, tableLoop, peek_at, hb, Bool.false_eq_true, if_false]
      simp
  | b :: body, pre, buf, fuel, hb, hf => by
    obtain ⟨f, rfl⟩ : ∃ f, fuel = f + 1 := ⟨fuel - 1, by simp at hf; omega⟩
    have hc := hb b (by simp)
    have ih := tableLoop_body post start hpost body (pre ++ [b]) (b.s :: buf) f
      (fun x hx => hb x (List.mem_cons_of_mem _ hx)) (by simp at hf; omega)
    rw [List.cons_append]
    simp only [tableLoop, peek_at, hc, if_true, MdRound.fw_next]
    rw [ih]
    simp

/-- `Table.read` on a header line, a delimiter row and lines with a `|`, up to a line without one -/
theorem readTable_block (l0 l1 : Line) (body pre post : List Line) (start : Nat)
    (h1 : l1.s.contains '|' = true) (hd : delimiterRow l1.s = true)
    (hb : ∀ x ∈ body, x.s.contains '|' = true) (hpost : ∀ b, post.head? = some b → b.s.contains '|' = false) :
    readTable ⟨pre ++ l0 :: l1 :: (body ++ post), pre.length, start⟩ =
      some (l0.s :: l1.s :: body.map (·.s), start + pre.length,
        ⟨(pre ++ l0 :: l1 :: body) ++ post, (pre ++ l0 :: l1 :: body).length, start⟩) := by
  unfold readTable
  rw [peek_at]
  simp only [MdRound.fw_next]
  have e : pre ++ [l0] ++ l1 :: (body ++ post) = (pre ++ [l0]) ++ ((l1 :: body) ++ post) := by simp
  rw [e, tableLoop_body post start hpost (l1 :: body) (pre ++ [l0]) [l0.s] _
    (by intro x hx; rcases List.mem_cons.mp hx with rfl | hx; exact h1; exact hb x hx)
    (by simp [FW.remaining]; omega)]
  simp [hd, FW.lineNumber]

/-- what the dispatcher asks of the first line of a table: no token type before `Table` starts on it, and it has a `|` -/
structure HeadFacts (s : Str) : Prop where
  html : htmlBlockStart s = .ok none
  bc : blockCodeStart s = false
  hd : heading s = none
  qt : quoteStart s = false
  cf : codeFenceStart s = none
  tb : Scan.thematicBreak s = false
  ls : listStart s = false
  bar : s.contains '|' = true

def headFactsB (s : Str) : Bool :=
  (match htmlBlockStart s with | .ok none => true | _ => false) && !blockCodeStart s && (heading s).isNone && !quoteStart s
    && (codeFenceStart s).isNone && !Scan.thematicBreak s && !listStart s && s.contains '|'

theorem headFacts_of (s : Str) (h : headFactsB s = true) : HeadFacts s := by
  simp only [headFactsB, Bool.and_eq_true, Bool.not_eq_eq_eq_not, Bool.not_true, Option.isNone_iff_eq_none] at h
  obtain ⟨⟨⟨⟨⟨⟨⟨h0, h1⟩, h2⟩, h3⟩, h4⟩, h5⟩, h6⟩, h7⟩ := h
  refine ⟨?_, h1, h2, h3, h4, h5, h6, h7⟩
  split at h0
  · assumption
  · cases h0

/-- on a line that begins with a pipe no token type before `Table` starts -/
theorem pipe_headFacts (s : Str) : HeadFacts ('|' :: s) := by
  have hsp : pyIsSpace '|' = false := by decide
  have hup : upTo3Spaces ('|' :: s) = some (0, '|' :: s) := by simp [upTo3Spaces, countLeading]
  refine ⟨?_, ?_, ?_, ?_, ?_, ?_, ?_, by simp⟩
  · have hlt : '|' ≠ '<' := by decide
    have hl : lstrip ('|' :: s) = '|' :: s := by simp [lstrip, hsp]
    unfold htmlBlockStart
    simp only [hl]
    have hlen : ¬ (('|' :: s).length - ('|' :: s).length ≥ 4) := by simp
    simp only [hlen, if_false]
    have hm : multiblock ('|' :: s) = none := by unfold multiblock; split <;> simp_all
    have hs : ∀ p : Str, startsWith ('<' :: p) ('|' :: s) = false := by
      intro p; simp [startsWith, isPrefix_ne _ _ _ _ hlt]
    have hr : htmlRest ('|' :: s) = none := by
      unfold htmlRest
      have h1 : predefined ('|' :: s) = none := by unfold predefined; split <;> simp_all
      have h2 : customTag ('|' :: s) = false := by
        unfold customTag
        have a : openTag ('|' :: s) = none := by unfold openTag; split <;> simp_all
        have b : closingTag ('|' :: s) = none := by unfold closingTag; split <;> simp_all
        simp [a, b]
      simp [h1, h2]
    have e1 : "<!--".toList = '<' :: ['!', '-', '-'] := by decide
    have e2 : "<?".toList = '<' :: ['?'] := by decide
    have e3 : "<!".toList = '<' :: ['!'] := by decide
    simp only [hm, e1, e2, e3, hs, hr, Bool.false_eq_true, if_false]
  · have h1 : '|' ≠ ' ' := by decide
    have h2 : '|' ≠ '\t' := by decide
    simp [blockCodeStart, replaceTab1, replaceFirst, startsWith, isPrefix_ne _ _ _ _ h1, isPrefix_ne _ _ _ _ h2]
  · have hs : span (· == '#') ('|' :: s) = ([], '|' :: s) := by simp [span]
    unfold Scan.heading
    rw [hup]
    simp only [hs]
    simp
  · have hl : lstripSp ('|' :: s) = '|' :: s := by simp [lstripSp]
    have h2 : '|' ≠ '>' := by decide
    simp [quoteStart, hl, startsWith, isPrefix_ne _ _ _ _ h2]
  · unfold codeFenceStart Scan.codeFence
    rw [hup]
    simp
  · unfold Scan.thematicBreak
    rw [hup]
    simp
  · unfold listStart
    rw [hup]
    have : listMarker ('|' :: s) = none := by
      have hd : span isDigit ('|' :: s) = ([], '|' :: s) := by
        have : isDigit '|' = false := by decide +kernel
        simp [span, this]
      simp [listMarker, hd]
    simp [this]
/-- **a table alone in its buffer** under the default token list -/
theorem tokenize_table (ti : Bool) (l0 l1 : Line) (body : List Line) (hf : HeadFacts l0.s)
    (h1 : l1.s.contains '|' = true) (hd : delimiterRow l1.s = true) (hb : ∀ x ∈ body, x.s.contains '|' = true)
    (start : Nat) (st : St) (gas : Nat) :
    tokenizeBlock (dcfg ti) (gas + 11) (l0 :: l1 :: body) start st =
      .ok ({ entries := [.table (l0.s :: l1.s :: body.map (·.s)) start start l0.origin], loose := false }, st) := by
  have hrd := readTable_block l0 l1 body [] [] start h1 hd hb (by simp)
  simp only [List.nil_append, List.append_nil, List.length_nil, Nat.add_zero] at hrd
  have hp : FW.peek ⟨l0 :: l1 :: body, 0, start⟩ = some l0 := by simp [FW.peek]
  have hend : FW.peek ⟨l0 :: l1 :: body, (l0 :: l1 :: body).length, start⟩ = none := peek_end _ start
  have e : gas + 11 = ((((((((gas + 2) + 1) + 1) + 1) + 1) + 1) + 1) + 1) + 1 + 1 := by omega
  rw [e]
  simp only [tokenizeBlock, tokLoop, hp, dcfg, defaultTypes, tryTypes, hf.html, hf.bc, readHeading, hf.hd, hf.qt, hf.cf, hf.tb,
    hf.ls, hf.bar, hrd, Bool.false_eq_true, if_false, if_true, hend]
  simp

/-! ### `BlockCode.read` on indented lines with interior blank lines -/

open Mistletoe.MdRound (ind4 ind4_blockCodeStart ind4_strip ind4_html)

/-- what `BlockCode.read` keeps of a line: a line with a visible character loses its first four columns; a line of
    whitespace loses four columns if it has five or more characters and all its spaces otherwise -/
def codePiece (l : Str) : Str := if isBlank l then (if l.length < 5 then lstripSp l else l.drop 4) else l.drop 4

/-- the count of trailing whitespace-only lines `BlockCode.read` keeps -/
def tbStep (tb : Nat) (l : Str) : Nat := if isBlank l then tb + 1 else 0

/-- a line of an indented code block: whitespace only, or four spaces and more -/
def CodeLine (l : Str) : Prop := isBlank l = true ∨ (isBlank l = false ∧ ∃ t, l = ind4 t)

theorem blockCodeLoop_run (post : List Line) (start : Nat) :
    ∀ (cs pre : List Line) (buf : List Str) (fuel tb : Nat), (∀ x ∈ cs, CodeLine x.s) →
      blockCodeLoop (fuel + cs.length) ⟨pre ++ (cs ++ post), pre.length, start⟩ buf tb =
        blockCodeLoop fuel ⟨(pre ++ cs) ++ post, (pre ++ cs).length, start⟩ ((cs.map (fun x => codePiece x.s)).reverse ++ buf)
          ((cs.map (·.s)).foldl tbStep tb)
  | [], pre, buf, fuel, tb, _ => by simp
  | x :: cs, pre, buf, fuel, tb, h => by
    have e : fuel + (x :: cs).length = (fuel + cs.length) + 1 := by simp; omega
    rw [e, List.cons_append]
    rcases h x (by simp) with hb | ⟨hnb, t, ht⟩
    · have ih := blockCodeLoop_run post start cs (pre ++ [x]) (codePiece x.s :: buf) fuel (tbStep tb x.s)
        (fun y hy => h y (List.mem_cons_of_mem _ hy))
      simp only [blockCodeLoop, peek_at, hb, if_true, MdRound.fw_next]
      have e1 : (if x.s.length < 5 then lstripSp x.s else x.s.drop 4) = codePiece x.s := by simp [codePiece, hb]
      have e2 : tb + 1 = tbStep tb x.s := by simp [tbStep, hb]
      rw [e1, e2, ih]
      simp
    · have ih := blockCodeLoop_run post start cs (pre ++ [x]) (codePiece x.s :: buf) fuel (tbStep tb x.s)
        (fun y hy => h y (List.mem_cons_of_mem _ hy))
      have hs : blockCodeStart x.s = true := by rw [ht]; exact ind4_blockCodeStart t (by rw [← ht]; exact hnb)
      have hst : blockCodeStrip x.s 0 = codePiece x.s := by
        simp only [codePiece, hnb, Bool.false_eq_true, if_false]
        rw [ht, ind4_strip]; rfl
      have e2 : 0 = tbStep tb x.s := by simp [tbStep, hnb]
      simp only [blockCodeLoop, peek_at, hnb, hs, hst, Bool.false_eq_true, if_false, Bool.not_true, MdRound.fw_next]
      rw [e2, ih]
      simp

theorem tb_last (cs : List Str) (x : Str) (hx : isBlank x = false) (tb : Nat) : (cs ++ [x]).foldl tbStep tb = 0 := by
  simp [List.foldl_append, tbStep, hx]

/-- what follows an indented code block: the end of the buffer, or a "\n" line and then the end or a line that is neither
    blank nor indented code -/
def CodeStop (post : List Line) : Prop :=
  post = [] ∨ ∃ b rest, post = b :: rest ∧ b.s = ['\n'] ∧ ∀ x, rest.head? = some x → isBlank x.s = false ∧ blockCodeStart x.s = false

theorem readBlockCode_run (cs : List Line) (last : Line) (pre post : List Line) (start : Nat)
    (h : ∀ x ∈ cs ++ [last], CodeLine x.s) (hl : isBlank last.s = false) (hp : CodeStop post) :
    readBlockCode ⟨pre ++ ((cs ++ [last]) ++ post), pre.length, start⟩ =
      ((cs ++ [last]).map (fun x => codePiece x.s), ⟨(pre ++ (cs ++ [last])) ++ post, (pre ++ (cs ++ [last])).length, start⟩) := by
  unfold readBlockCode
  have htb : ∀ tb, ((cs ++ [last]).map (·.s)).foldl tbStep tb = 0 := by
    intro tb; rw [List.map_append]; exact tb_last _ _ hl tb
  rcases hp with rfl | ⟨b, rest, rfl, hb, hx⟩
  · have e : FW.remaining ⟨pre ++ ((cs ++ [last]) ++ []), pre.length, start⟩ + 1 = 1 + (cs ++ [last]).length := by
      simp [FW.remaining]; omega
    rw [e, blockCodeLoop_run [] start (cs ++ [last]) pre [] 1 0 h, htb]
    simp only [List.append_nil, blockCodeLoop, peek_end]
    simp
  · have hbb : isBlank b.s = true := by rw [hb]; decide
    cases rest with
    | nil =>
      have e : FW.remaining ⟨pre ++ ((cs ++ [last]) ++ [b]), pre.length, start⟩ + 1 = 2 + (cs ++ [last]).length := by
        simp [FW.remaining]; omega
      rw [e, blockCodeLoop_run [b] start (cs ++ [last]) pre [] 2 0 h, htb]
      have e2 : (2 : Nat) = (0 + 1) + 1 := rfl
      rw [e2]
      simp only [blockCodeLoop, peek_at, hbb, if_true, MdRound.fw_next]
      have : FW.peek ⟨((pre ++ (cs ++ [last])) ++ [b]) ++ [], ((pre ++ (cs ++ [last])) ++ [b]).length, start⟩ = none := by
        simp [FW.peek]
      simp only [this, hb]
      simp
    | cons x post' =>
      obtain ⟨hx1, hx2⟩ := hx x rfl
      have e : FW.remaining ⟨pre ++ ((cs ++ [last]) ++ b :: x :: post'), pre.length, start⟩ + 1 = (post'.length + 3) + (cs ++ [last]).length := by
        simp [FW.remaining]; omega
      rw [e, blockCodeLoop_run (b :: x :: post') start (cs ++ [last]) pre [] (post'.length + 3) 0 h, htb]
      have e2 : post'.length + 3 = ((post'.length + 1) + 1) + 1 := by omega
      rw [e2]
      simp only [blockCodeLoop, peek_at, hbb, if_true, MdRound.fw_next]
      simp only [hx1, hx2, hb, Bool.false_eq_true, if_false, Bool.not_false, if_true]
      simp [FW.backstep]

/-- an indented code block under the default token list: `BlockCode` is the first type that starts on its first line -/
theorem tokLoop_icode_step (ti : Bool) (g : Nat) (cs : List Line) (last : Line) (pre post : List Line)
    (h : ∀ x ∈ cs ++ [last], CodeLine x.s) (hl : isBlank last.s = false)
    (hfirst : ∀ x, (cs ++ [last]).head? = some x → isBlank x.s = false)
    (hp : CodeStop post) (start : Nat) (st : St) (acc : List Entry) (loose : Bool) :
    tokLoop (dcfg ti) (g + 8) ⟨pre ++ ((cs ++ [last]) ++ post), pre.length, start⟩ st acc loose =
      tokLoop (dcfg ti) (g + 7) ⟨(pre ++ (cs ++ [last])) ++ post, (pre ++ (cs ++ [last])).length, start⟩ st
        (.blockCode ((cs ++ [last]).map (fun x => codePiece x.s)) (start + pre.length)
          (((cs ++ [last]).head?.map (·.origin)).getD 0) :: acc) loose := by
  have hrd := readBlockCode_run cs last pre post start h hl hp
  obtain ⟨l, tl, hlt⟩ : ∃ l tl, cs ++ [last] = l :: tl := by
    cases cs with
    | nil => exact ⟨last, [], rfl⟩
    | cons a b => exact ⟨a, b ++ [last], rfl⟩
  rw [hlt] at hrd hfirst h ⊢
  have hnb := hfirst l rfl
  obtain ⟨t, ht⟩ : ∃ t, l.s = ind4 t := by
    rcases h l (by simp) with hb | ⟨_, t, ht⟩
    · rw [hb] at hnb; cases hnb
    · exact ⟨t, ht⟩
  have f3 : htmlBlockStart l.s = .ok none := by rw [ht]; exact ind4_html t
  have f4 : blockCodeStart l.s = true := by rw [ht]; exact ind4_blockCodeStart t (by rw [← ht]; exact hnb)
  have e : g + 8 = ((g + 5) + 1 + 1) + 1 := by omega
  rw [e]
  simp only [List.cons_append] at hrd ⊢
  simp only [tokLoop, peek_at, dcfg, defaultTypes, tryTypes, f3, f4, hrd, if_true, List.head?_cons, Option.map_some, Option.getD_some]

/-! ### Table rows as written, and `TableRow.__init__` on them -/

open Mistletoe.Document (joinNl mkBlock mkBlocks mkItems parseAlign splitPipes unescapePipes zipLongest tableRow tableRows mapRes)
open Mistletoe.InertInline (lstrip_of_head rstrip_of_last)

/-- `'|'.join(cells)` -/
def joinBar : List Str → Str
  | [] => []
  | c :: rest =>
    match rest with
    | [] => c
    | _ :: _ => c ++ '|' :: joinBar rest

/-- A table row as written: the cells as they stand between the pipes (with their padding), with or without a pipe before
    the first and behind the last cell. -/
structure Row where
  lead : Bool
  trail : Bool
  cells : List Str

/-- the row without its line end -/
def Row.body (r : Row) : Str := (if r.lead then ['|'] else []) ++ (joinBar r.cells ++ (if r.trail then ['|'] else []))
def Row.line (r : Row) : Str := r.body ++ ['\n']

/-- a cell as written: not empty (`TableRow.__init__` drops empty strings between two pipes: an empty cell is written with
    at least one space); no `|` and no backslash; without its padding it is empty or inert one-line text -/
def cellOk (c : Str) : Bool :=
  !c.isEmpty && c.all (fun x => x != '|' && x != '\\') && ((strip c).isEmpty || inertText (strip c))

/-- a row as written: at least one cell, every cell `cellOk`; the row begins and ends with a visible character (a pipe, or
    the first / last character of the first / last cell: leading whitespace would be indentation, trailing whitespace is
    not written); it has a `|` (with one cell: a leading or trailing pipe), is one complete line and has no tab -/
def rowOk (r : Row) : Bool :=
  !r.cells.isEmpty && r.cells.all cellOk
    && (match r.body.head? with | some c => !pyIsSpace c | none => false)
    && (match r.body.getLast? with | some c => !pyIsSpace c | none => false)
    && r.line.contains '|' && oneLine r.line && !r.line.contains '\t'

structure RowFacts (r : Row) : Prop where
  ne : r.cells ≠ []
  cells : ∀ c ∈ r.cells, cellOk c = true
  strip : strip r.line = r.body
  bar : r.line.contains '|' = true
  line : LineOk r.line

theorem strip_line (c : Char) (r : Str) (hc : pyIsSpace c = false)
    (hl : ∀ d, (c :: r).getLast? = some d → pyIsSpace d = false) : strip ((c :: r) ++ ['\n']) = c :: r := by
  unfold strip
  rw [List.cons_append, lstrip_of_head c _ hc]
  have e : rstrip (c :: (r ++ ['\n'])) = rstrip (c :: r) := by
    unfold rstrip
    have : (c :: (r ++ ['\n'])).reverse = '\n' :: (c :: r).reverse := by simp
    rw [this]
    have hnl : pyIsSpace '\n' = true := by decide
    simp only [lstrip, hnl, if_true]
  rw [e, rstrip_of_last (c :: r) hl]

theorem rowFacts_of (r : Row) (h : rowOk r = true) : RowFacts r := by
  simp only [rowOk, Bool.and_eq_true, Bool.not_eq_eq_eq_not, Bool.not_true, List.isEmpty_eq_false_iff, List.all_eq_true] at h
  obtain ⟨⟨⟨⟨⟨⟨h0, h1⟩, h2⟩, h3⟩, h4⟩, h5⟩, h6⟩ := h
  refine ⟨h0, h1, ?_, h4, lineOk_of _ h5 h6⟩
  unfold Row.line
  cases hb : r.body with
  | nil => rw [hb] at h2; simp at h2
  | cons c rest =>
    rw [hb] at h2 h3
    apply strip_line c rest
    · simpa using h2
    · intro d hd
      rw [hd] at h3
      simpa using h3

theorem splitPipes_plain : ∀ (c : Str) (prev : Option Char) (cur : Str), '|' ∉ c → splitPipes c prev cur = [cur.reverse ++ c]
  | [], _, _, _ => by simp [splitPipes]
  | x :: c, prev, cur, h => by
    have hx : x ≠ '|' := by intro e; exact h (by simp [e])
    have hc : '|' ∉ c := by intro e; exact h (List.mem_cons_of_mem _ e)
    have e : (x == '|' && prev != some '\\') = false := by simp [hx]
    simp only [splitPipes, e, Bool.false_eq_true, if_false]
    rw [splitPipes_plain c (some x) (x :: cur) hc]
    simp

theorem splitPipes_cell (rest : Str) : ∀ (c : Str) (prev : Option Char) (cur : Str), '|' ∉ c → '\\' ∉ c → prev ≠ some '\\' →
    splitPipes (c ++ '|' :: rest) prev cur = (cur.reverse ++ c) :: splitPipes rest (some '|') []
  | [], prev, cur, _, _, hp => by
    simp [splitPipes, hp]
  | x :: c, prev, cur, h, hb, _ => by
    have hx : x ≠ '|' := by intro e; exact h (by simp [e])
    have hx2 : x ≠ '\\' := by intro e; exact hb (by simp [e])
    have hc : '|' ∉ c := by intro e; exact h (List.mem_cons_of_mem _ e)
    have hc2 : '\\' ∉ c := by intro e; exact hb (List.mem_cons_of_mem _ e)
    have e : (x == '|' && prev != some '\\') = false := by simp [hx]
    simp only [List.cons_append, splitPipes, e, Bool.false_eq_true, if_false]
    rw [splitPipes_cell rest c (some x) (x :: cur) hc hc2 (by simpa using hx2)]
    simp

theorem joinBar_cons2 (c c' : Str) (r : List Str) : joinBar (c :: c' :: r) = c ++ '|' :: joinBar (c' :: r) := by simp [joinBar]

theorem splitPipes_cells (trail : Bool) : ∀ (cells : List Str), cells ≠ [] → (∀ c ∈ cells, '|' ∉ c ∧ '\\' ∉ c) →
    ∀ (prev : Option Char), prev ≠ some '\\' →
    splitPipes (joinBar cells ++ (if trail then ['|'] else [])) prev [] = cells ++ (if trail then [[]] else [])
  | [], h, _, _, _ => absurd rfl h
  | [c], _, hc, prev, hp => by
    obtain ⟨h1, h2⟩ := hc c (by simp)
    cases trail with
    | false => simp [joinBar, splitPipes_plain c prev [] h1]
    | true =>
      simp only [joinBar, if_true]
      rw [show c ++ ['|'] = c ++ '|' :: [] from rfl, splitPipes_cell [] c prev [] h1 h2 hp]
      simp [splitPipes]
  | c :: c' :: r, _, hc, prev, hp => by
    obtain ⟨h1, h2⟩ := hc c (by simp)
    rw [joinBar_cons2, List.append_assoc, List.cons_append, splitPipes_cell _ c prev [] h1 h2 hp,
      splitPipes_cells trail (c' :: r) (by simp) (fun x hx => hc x (List.mem_cons_of_mem _ hx)) (some '|') (by decide)]
    simp

theorem cellOk_parts (c : Str) (h : cellOk c = true) :
    c ≠ [] ∧ '|' ∉ c ∧ '\\' ∉ c ∧ ((strip c) = [] ∨ inertText (strip c) = true) := by
  simp only [cellOk, Bool.and_eq_true, Bool.not_eq_eq_eq_not, Bool.not_true, List.isEmpty_eq_false_iff, List.all_eq_true,
    bne_iff_ne, ne_eq, Bool.or_eq_true, List.isEmpty_iff] at h
  refine ⟨h.1.1, fun hm => (h.1.2 _ hm).1 rfl, fun hm => (h.1.2 _ hm).2 rfl, h.2⟩

/-- the cells `TableRow.__init__` finds in a written row -/
theorem row_cells (r : Row) (h : RowFacts r) :
    (splitPipes (strip r.line) none []).filter (fun c => !c.isEmpty) = r.cells := by
  rw [h.strip]
  have hc : ∀ c ∈ r.cells, '|' ∉ c ∧ '\\' ∉ c := fun c hm => ⟨(cellOk_parts c (h.cells c hm)).2.1, (cellOk_parts c (h.cells c hm)).2.2.1⟩
  have hne : ∀ c ∈ r.cells, (!c.isEmpty) = true := by
    intro c hm
    have := (cellOk_parts c (h.cells c hm)).1
    simpa using this
  have hf : r.cells.filter (fun c => !c.isEmpty) = r.cells := List.filter_eq_self.mpr hne
  unfold Row.body
  cases r.lead with
  | false =>
    simp only [Bool.false_eq_true, if_false, List.nil_append]
    rw [splitPipes_cells r.trail r.cells h.ne hc none (by simp), List.filter_append, hf]
    cases r.trail <;> simp
  | true =>
    simp only [if_true, List.singleton_append, splitPipes]
    simp only [beq_self_eq_true, Bool.true_and, bne_iff_ne, ne_eq, reduceCtorEq, not_false_eq_true, if_true, List.reverse_nil]
    rw [splitPipes_cells r.trail r.cells h.ne hc (some '|') (by decide), List.filter_cons, List.filter_append, hf]
    cases r.trail <;> simp

theorem unescapePipes_id : ∀ (fuel : Nat) (prev : Option Char) (s : Str), '\\' ∉ s → unescapePipes fuel prev s = s
  | 0, _, _, _ => rfl
  | _ + 1, _, [], _ => rfl
  | fuel + 1, prev, c :: rest, h => by
    have hc : c ≠ '\\' := by intro e; exact h (by simp [e])
    have hr : '\\' ∉ rest := by intro e; exact h (List.mem_cons_of_mem _ e)
    have hk : countLeading '\\' (c :: rest) = 0 := by simp [countLeading, hc]
    simp only [unescapePipes, hk]
    simp [unescapePipes_id fuel (some c) rest hr]

/-- the inline content of a cell: nothing for an empty cell, one `RawText` otherwise -/
def cellInl (t : Str) : List Inline := if t.isEmpty then [] else [.rawText t]

/-- the cells of a row under the column alignments (`zip_longest`): a row with fewer cells than columns is filled up with
    empty cells; the cells of a row with MORE cells than columns are all kept, the extra ones with alignment `None` -/
def cellsOf (ln : Nat) : List Str → List (Option Nat) → List Mistletoe.Block
  | [], as => as.map (fun a => .tableCell a [] ln)
  | c :: cs, [] => .tableCell none (cellInl (strip c)) ln :: cellsOf ln cs []
  | c :: cs, a :: as => .tableCell a (cellInl (strip c)) ln :: cellsOf ln cs as

theorem inl_cell (cfg : Document.Cfg) (fn : Footnotes.Table) (ht : ∀ t ∈ cfg.span, inertClass t = true) (t : Str)
    (h : t = [] ∨ inertText t = true) : Document.inl cfg fn t = .ok (cellInl t) := by
  unfold Document.inl cellInl
  cases t with
  | nil =>
    exact InertInline.tokenizeInner_no_candidates_nil cfg.span fn (InertInline.findAll_inert [] cfg.span fn ht (by decide))
  | cons c r =>
    rcases h with h | h
    · cases h
    · simpa using InertInline.tokenizeInner_inert cfg.span fn (c :: r) ht h (by simp)

theorem inl_nil (cfg : Document.Cfg) (fn : Footnotes.Table) (ht : ∀ t ∈ cfg.span, inertClass t = true) :
    Document.inl cfg fn [] = .ok [] := inl_cell cfg fn ht [] (Or.inl rfl)

theorem nobs_of (t : Str) (h : t = [] ∨ inertText t = true) : '\\' ∉ t := by
  rcases h with rfl | h
  · simp
  · simp only [inertText, inertBody, Bool.and_eq_true, List.all_eq_true] at h
    intro hm
    have := h.1.1.1.1.1.1 _ hm
    simp [InertInline.okChar] at this

theorem go_pad (cfg : Document.Cfg) (fn : Footnotes.Table) (ht : ∀ t ∈ cfg.span, inertClass t = true) (ln : Nat) :
    ∀ (as : List (Option Nat)), tableRow.go cfg fn ln (as.map (fun a => (none, a))) = .ok (as.map (fun a => .tableCell a [] ln))
  | [] => rfl
  | a :: as => by
    simp only [List.map_cons, tableRow.go, inl_nil cfg fn ht, go_pad cfg fn ht ln as]

theorem go_cells (cfg : Document.Cfg) (fn : Footnotes.Table) (ht : ∀ t ∈ cfg.span, inertClass t = true) (ln : Nat) :
    ∀ (cells : List Str) (as : List (Option Nat)), (∀ c ∈ cells, cellOk c = true) →
      tableRow.go cfg fn ln (zipLongest cells as) = .ok (cellsOf ln cells as)
  | [], as, _ => by simp only [zipLongest, cellsOf]; exact go_pad cfg fn ht ln as
  | c :: cs, [], h => by
    have hp := (cellOk_parts c (h c (by simp))).2.2.2
    have ih := go_cells cfg fn ht ln cs [] (fun x hx => h x (List.mem_cons_of_mem _ hx))
    simp only [zipLongest, cellsOf, tableRow.go, unescapePipes_id _ _ _ (nobs_of _ hp), inl_cell cfg fn ht _ hp, ih]
  | c :: cs, a :: as, h => by
    have hp := (cellOk_parts c (h c (by simp))).2.2.2
    have ih := go_cells cfg fn ht ln cs as (fun x hx => h x (List.mem_cons_of_mem _ hx))
    simp only [zipLongest, cellsOf, tableRow.go, unescapePipes_id _ _ _ (nobs_of _ hp), inl_cell cfg fn ht _ hp, ih]

/-- the `TableRow` token expected for a written row -/
def rowBlock (al : List (Option Nat)) (ln : Nat) (r : Row) : Mistletoe.Block := .tableRow al (cellsOf ln r.cells al) ln

def rowBlocks (al : List (Option Nat)) : Nat → List Row → List Mistletoe.Block
  | _, [] => []
  | ln, r :: rest => rowBlock al ln r :: rowBlocks al (ln + 1) rest

/-- **`TableRow(line, row_align, line_number)` on a written row** -/
theorem tableRow_row (cfg : Document.Cfg) (fn : Footnotes.Table) (ht : ∀ t ∈ cfg.span, inertClass t = true)
    (al : List (Option Nat)) (hal : al ≠ []) (ln : Nat) (r : Row) (h : RowFacts r) :
    tableRow cfg fn r.line al ln = .ok (rowBlock al ln r) := by
  unfold Document.tableRow
  have e : al.isEmpty = false := by simpa using hal
  simp only [e, Bool.false_eq_true, if_false, row_cells r h, go_cells cfg fn ht ln r.cells al h.cells, rowBlock]

theorem tableRows_rows (cfg : Document.Cfg) (fn : Footnotes.Table) (ht : ∀ t ∈ cfg.span, inertClass t = true)
    (al : List (Option Nat)) (hal : al ≠ []) : ∀ (rows : List Row) (ln : Nat), (∀ r ∈ rows, RowFacts r) →
    tableRows cfg fn (rows.map Row.line) al ln = .ok (rowBlocks al ln rows)
  | [], _, _ => rfl
  | r :: rest, ln, h => by
    simp only [List.map_cons, tableRows, tableRow_row cfg fn ht al hal ln r (h r (by simp)),
      tableRows_rows cfg fn ht al hal rest (ln + 1) (fun x hx => h x (List.mem_cons_of_mem _ hx)), rowBlocks]

/-! ### The delimiter row, and the two new kinds of leaves -/

open Mistletoe.ComposeC (sp dedent FenceOk fenceOkB FenceFacts fenceFacts_of ulOk UlOk ulOk_of tokLoop_fence_step tokenize_setext
  closeShape SxOk sxOk_false sxOk_after langOf fenceHtml flat_fence fenceHtml_ne)

/-- a cell of the delimiter row as written: spaces, an optional colon, one or more hyphens, an optional colon, spaces -/
structure DCell where
  padL : Nat
  cl : Bool
  dashes : Nat
  cr : Bool
  padR : Nat

def DCell.text (d : DCell) : Str :=
  sp d.padL ++ (if d.cl then [':'] else []) ++ List.replicate d.dashes '-' ++ (if d.cr then [':'] else []) ++ sp d.padR

/-- the alignment a delimiter cell gives its column, as `Table.parse_align` numbers it: `None` (left, also for `:--`),
    `0` (`:-:`, centre), `1` (`--:`, right) -/
def DCell.align (d : DCell) : Option Nat := if d.cr then (if d.cl then some 0 else some 1) else none

structure DRow where
  lead : Bool
  trail : Bool
  cells : List DCell

def DRow.line (d : DRow) : Str :=
  (if d.lead then ['|'] else []) ++ (joinBar (d.cells.map DCell.text) ++ (if d.trail then ['|'] else [])) ++ ['\n']
def DRow.aligns (d : DRow) : List (Option Nat) := d.cells.map DCell.align

/-! ### The delimiter row: the scanners on the written shape -/

/-- the visible part of a delimiter cell -/
def DCell.core (d : DCell) : Str :=
  (if d.cl then [':'] else []) ++ (List.replicate d.dashes '-' ++ (if d.cr then [':'] else []))

theorem DCell.text_eq (d : DCell) : d.text = sp d.padL ++ (d.core ++ sp d.padR) := by
  simp [DCell.text, DCell.core, List.append_assoc]

/-- not a hyphen and not a colon: the characters that may follow the visible part of a delimiter cell -/
def Brk (tail : Str) : Prop := ∀ x, tail.head? = some x → x ≠ '-' ∧ x ≠ ':'

theorem span_dash (m : Nat) (tail : Str) (h : ∀ x, tail.head? = some x → x ≠ '-') :
    span (· == '-') ('-' :: (List.replicate m '-' ++ tail)) = ('-' :: List.replicate m '-', tail) := by
  have := MdRound.span_append (· == '-') ('-' :: List.replicate m '-') tail
    (by intro x hx; rcases List.mem_cons.mp hx with rfl | hx; rfl; simp [(List.mem_replicate.mp hx).2])
    (by intro x hx; simpa using h x hx)
  simpa using this

/-- `alignCol` on a text that does not begin with a colon, resp. that does -/
theorem alignCol_plain (s : Str) (h : ∀ r, s ≠ ':' :: r) :
    alignCol s = (if (span (· == '-') s).1.isEmpty then none else
      match (span (· == '-') s).2 with
      | ':' :: r2 => some ((span (· == '-') s).1 ++ [':'], r2)
      | _ => some ((span (· == '-') s).1, (span (· == '-') s).2)) := by
  unfold alignCol
  split
  rename_i c1 r' heq
  split at heq
  · rename_i r; exact absurd rfl (h r)
  · cases heq
    rfl

theorem alignCol_colon (r : Str) :
    alignCol (':' :: r) = (if (span (· == '-') r).1.isEmpty then none else
      match (span (· == '-') r).2 with
      | ':' :: r2 => some (':' :: (span (· == '-') r).1 ++ [':'], r2)
      | _ => some (':' :: (span (· == '-') r).1, (span (· == '-') r).2)) := by
  unfold alignCol
  rfl

theorem tail_match {α : Type} (f : Str → α) (a : α) : ∀ (tail : Str), Brk tail →
    (match tail with
      | ':' :: r2 => f r2
      | _ => a) = a := by
  intro tail ht
  split
  · exact absurd rfl (ht ':' rfl).2
  · rfl

theorem alignCol_d (m : Nat) (tail : Str) (ht : Brk tail) :
    alignCol ('-' :: (List.replicate m '-' ++ tail)) = some ('-' :: List.replicate m '-', tail) := by
  have hs := span_dash m tail (fun x hx => (ht x hx).1)
  rw [alignCol_plain _ (by intro r h; exact absurd (List.cons.inj h).1 (by decide)), hs]
  simp only [List.isEmpty_cons, Bool.false_eq_true, if_false]
  exact tail_match _ _ tail ht

theorem alignCol_dc (m : Nat) (tail : Str) :
    alignCol ('-' :: (List.replicate m '-' ++ ':' :: tail)) = some ('-' :: List.replicate m '-' ++ [':'], tail) := by
  have hs := span_dash m (':' :: tail) (fun x hx => by simp at hx; subst hx; decide)
  rw [alignCol_plain _ (by intro r h; exact absurd (List.cons.inj h).1 (by decide)), hs]
  simp only [List.isEmpty_cons, Bool.false_eq_true, if_false]

theorem alignCol_cd (m : Nat) (tail : Str) (ht : Brk tail) :
    alignCol (':' :: '-' :: (List.replicate m '-' ++ tail)) = some (':' :: '-' :: List.replicate m '-', tail) := by
  have hs := span_dash m tail (fun x hx => (ht x hx).1)
  rw [alignCol_colon, hs]
  simp only [List.isEmpty_cons, Bool.false_eq_true, if_false]
  exact tail_match _ _ tail ht

theorem alignCol_cdc (m : Nat) (tail : Str) :
    alignCol (':' :: '-' :: (List.replicate m '-' ++ ':' :: tail)) = some (':' :: '-' :: List.replicate m '-' ++ [':'], tail) := by
  have hs := span_dash m (':' :: tail) (fun x hx => by simp at hx; subst hx; decide)
  rw [alignCol_colon, hs]
  simp only [List.isEmpty_cons, Bool.false_eq_true, if_false]

theorem alignCol_core (d : DCell) (hd : 1 ≤ d.dashes) (tail : Str) (ht : Brk tail) :
    alignCol (d.core ++ tail) = some (d.core, tail) := by
  obtain ⟨m, hm⟩ : ∃ m, d.dashes = m + 1 := ⟨d.dashes - 1, by omega⟩
  unfold DCell.core
  rw [hm, List.replicate_succ]
  cases d.cl <;> cases d.cr
  · simpa using alignCol_d m tail ht
  · simpa using alignCol_dc m tail
  · simpa using alignCol_cd m tail ht
  · simpa using alignCol_cdc m tail

theorem core_ne (d : DCell) (hd : 1 ≤ d.dashes) : ∃ c r, d.core = c :: r ∧ (c = ':' ∨ c = '-') := by
  obtain ⟨m, hm⟩ : ∃ m, d.dashes = m + 1 := ⟨d.dashes - 1, by omega⟩
  unfold DCell.core
  rw [hm, List.replicate_succ]
  cases d.cl
  · exact ⟨'-', _, rfl, Or.inr rfl⟩
  · exact ⟨':', _, rfl, Or.inl rfl⟩

/-- what follows the visible part of a cell: its right padding is written separately; then the remaining cells, each behind
    a pipe, then the optional closing pipe and the line end -/
def restLine (trail : Bool) : List DCell → Str
  | [] => (if trail then ['|'] else []) ++ ['\n']
  | c :: cs => '|' :: (sp c.padL ++ (c.core ++ (sp c.padR ++ restLine trail cs)))

theorem joinBar_rest (trail : Bool) : ∀ (c0 : DCell) (cs : List DCell),
    joinBar ((c0 :: cs).map DCell.text) ++ (if trail then ['|'] else []) ++ ['\n'] =
      sp c0.padL ++ (c0.core ++ (sp c0.padR ++ restLine trail cs))
  | c0, [] => by simp [joinBar, DCell.text_eq, restLine]
  | c0, c1 :: cs => by
    have ih := joinBar_rest trail c1 cs
    rw [List.map_cons, List.map_cons, joinBar_cons2, ← List.map_cons, List.append_assoc, List.append_assoc, List.cons_append,
      ← List.append_assoc (joinBar _), ih]
    simp [DCell.text_eq, restLine]

theorem drow_line (d : DRow) (c0 : DCell) (cs : List DCell) (h : d.cells = c0 :: cs) :
    d.line = (if d.lead then ['|'] else []) ++ (sp c0.padL ++ (c0.core ++ (sp c0.padR ++ restLine d.trail cs))) := by
  unfold DRow.line
  rw [h, List.append_assoc, List.append_assoc, ← List.append_assoc (joinBar _), joinBar_rest]

theorem ws_sp : ∀ x ∈ sp n, ws x = true := by
  intro x hx; simp only [sp, List.mem_replicate] at hx; rw [hx.2]; decide

theorem span_ws_sp (n : Nat) (rest : Str) (h : ∀ x, rest.head? = some x → ws x = false) : span ws (sp n ++ rest) = (sp n, rest) :=
  MdRound.span_append ws _ _ ws_sp h

theorem rest_brk (trail : Bool) (r : Nat) (cs : List DCell) : Brk (sp r ++ restLine trail cs) := by
  intro x hx
  cases r with
  | succ r' => simp [sp, List.replicate_succ] at hx; subst hx; decide
  | zero =>
    cases cs with
    | nil => cases trail <;> simp [sp, restLine] at hx <;> subst hx <;> decide
    | cons c cs' => simp [sp, restLine] at hx; subst hx; decide

theorem delimRest_rest (trail : Bool) : ∀ (cs : List DCell) (fuel : Nat), cs.length < fuel → (∀ c ∈ cs, 1 ≤ c.dashes) →
    ∀ (r : Nat), delimRest fuel (sp r ++ restLine trail cs) = true
  | [], fuel, hf, _, r => by
    obtain ⟨f, rfl⟩ : ∃ f, fuel = f + 1 := ⟨fuel - 1, by simp at hf; omega⟩
    cases trail with
    | false =>
      have : span ws (sp r ++ restLine false []) = (sp r ++ ['\n'], []) := by
        have := MdRound.span_append ws (sp r ++ ['\n']) [] (by
          intro x hx; rcases List.mem_append.mp hx with hx | hx
          · exact ws_sp x hx
          · simp at hx; subst hx; decide) (by simp)
        simpa [restLine] using this
      simp [delimRest, this]
    | true =>
      have h1 : span ws (sp r ++ restLine true []) = (sp r, '|' :: ['\n']) := by
        have := span_ws_sp r ('|' :: ['\n']) (by intro x hx; simp at hx; subst hx; decide)
        simpa [restLine] using this
      have h2 : span ws ['\n'] = (['\n'], []) := by decide
      have h3 : alignCol [] = none := by decide
      simp only [delimRest, h1, h2, h3]
      rfl
  | c :: cs, fuel, hf, hd, r => by
    obtain ⟨f, rfl⟩ : ∃ f, fuel = f + 1 := ⟨fuel - 1, by simp at hf; omega⟩
    have hc := hd c (by simp)
    obtain ⟨x, xs, hx, hxc⟩ := core_ne c hc
    have h1 : span ws (sp r ++ restLine trail (c :: cs)) = (sp r, restLine trail (c :: cs)) :=
      span_ws_sp r _ (by intro y hy; simp [restLine] at hy; subst hy; decide)
    have h2 : span ws (sp c.padL ++ (c.core ++ (sp c.padR ++ restLine trail cs))) = (sp c.padL, c.core ++ (sp c.padR ++ restLine trail cs)) :=
      span_ws_sp _ _ (by
        intro y hy; rw [hx] at hy; simp at hy; subst hy
        rcases hxc with rfl | rfl <;> decide)
    have h3 := alignCol_core c hc _ (rest_brk trail c.padR cs)
    have ih := delimRest_rest trail cs f (by simp at hf; omega) (fun y hy => hd y (List.mem_cons_of_mem _ hy)) c.padR
    simp only [delimRest, h1]
    simp only [restLine, h2, h3, ih]

theorem restLine_len (trail : Bool) : ∀ (cs : List DCell), cs.length < (restLine trail cs).length
  | [] => by cases trail <;> simp [restLine]
  | c :: cs => by
    have := restLine_len trail cs
    simp only [restLine, List.length_cons, List.length_append]
    omega

/-- **`Table.delimiter_row_pattern` matches a written delimiter row** -/
theorem delimiterRow_line (d : DRow) (hne : d.cells ≠ []) (hd : ∀ c ∈ d.cells, 1 ≤ c.dashes) : delimiterRow d.line = true := by
  obtain ⟨c0, cs, hcs⟩ := List.exists_cons_of_ne_nil hne
  have hl := drow_line d c0 cs hcs
  have hc := hd c0 (by rw [hcs]; simp)
  obtain ⟨x, xs, hx, hxc⟩ := core_ne c0 hc
  have hxw : ws x = false := by rcases hxc with rfl | rfl <;> decide
  have hxb : x ≠ '|' := by rcases hxc with rfl | rfl <;> decide
  have h2 : span ws (sp c0.padL ++ (c0.core ++ (sp c0.padR ++ restLine d.trail cs))) =
      (sp c0.padL, c0.core ++ (sp c0.padR ++ restLine d.trail cs)) :=
    span_ws_sp _ _ (by intro y hy; rw [hx] at hy; simp at hy; subst hy; exact hxw)
  have h3 := alignCol_core c0 hc _ (rest_brk d.trail c0.padR cs)
  have hlen : cs.length < d.line.length + 1 := by
    have := restLine_len d.trail cs
    rw [hl]; simp only [List.length_append]; omega
  have ih := delimRest_rest d.trail cs (d.line.length + 1) hlen (fun y hy => hd y (by rw [hcs]; exact List.mem_cons_of_mem _ hy)) c0.padR
  unfold delimiterRow
  cases hlead : d.lead with
  | true =>
    rw [hlead] at hl
    simp only [if_true, List.singleton_append] at hl
    have h1 : span ws d.line = ([], d.line) := by rw [hl]; simp [span, show ws '|' = false by decide]
    simp only [h1]
    conv => lhs; rw [hl]
    simp only [h2, h3]
    rw [← hl]; exact ih
  | false =>
    rw [hlead] at hl
    simp only [Bool.false_eq_true, if_false, List.nil_append] at hl
    have h1 : span ws d.line = (sp c0.padL, c0.core ++ (sp c0.padR ++ restLine d.trail cs)) := by rw [hl]; exact h2
    have h4 : span ws (c0.core ++ (sp c0.padR ++ restLine d.trail cs)) = ([], c0.core ++ (sp c0.padR ++ restLine d.trail cs)) := by
      rw [hx]; simp [span, hxw]
    simp only [h1]
    rw [hx] at h3 h4 ⊢
    rcases hxc with rfl | rfl
    · simp only [List.cons_append] at h3 h4 ⊢
      change (match alignCol (span ws (':' :: (xs ++ (sp c0.padR ++ restLine d.trail cs)))).snd with
        | some (_, r3) => delimRest (List.length d.line + 1) r3
        | none => false) = true
      simp only [h4, h3]
      exact ih
    · simp only [List.cons_append] at h3 h4 ⊢
      change (match alignCol (span ws ('-' :: (xs ++ (sp c0.padR ++ restLine d.trail cs)))).snd with
        | some (_, r3) => delimRest (List.length d.line + 1) r3
        | none => false) = true
      simp only [h4, h3]
      exact ih

/-! `column_align_pattern.findall` and `parse_align` -/

theorem alignCols_nil : ∀ (fuel : Nat), alignCols fuel [] = []
  | 0 => rfl
  | _ + 1 => rfl

theorem alignCols_skip (c : Char) (hc : c = ' ' ∨ c = '|' ∨ c = '\n') (rest : Str) (fuel : Nat) :
    alignCols (fuel + 1) (c :: rest) = alignCols fuel rest := by
  have h1 : c ≠ ':' := by rcases hc with rfl | rfl | rfl <;> decide
  have h2 : c ≠ '-' := by rcases hc with rfl | rfl | rfl <;> decide
  have hs : span (· == '-') (c :: rest) = ([], c :: rest) := by simp [span, h2]
  have : alignCol (c :: rest) = none := by
    rw [alignCol_plain _ (by intro r h; exact h1 (List.cons.inj h).1), hs]
    rfl
  simp only [alignCols, this]

theorem alignCols_sp (rest : Str) (fuel : Nat) : ∀ (n : Nat), alignCols (fuel + n) (sp n ++ rest) = alignCols fuel rest
  | 0 => by simp [sp]
  | n + 1 => by
    have : sp (n + 1) ++ rest = ' ' :: (sp n ++ rest) := by simp [sp, List.replicate_succ]
    rw [this, ← Nat.add_assoc, alignCols_skip ' ' (Or.inl rfl), alignCols_sp rest fuel n]

theorem alignCols_core (d : DCell) (hd : 1 ≤ d.dashes) (tail : Str) (ht : Brk tail) (fuel : Nat) :
    alignCols (fuel + 1) (d.core ++ tail) = d.core :: alignCols fuel tail := by
  have h := alignCol_core d hd tail ht
  obtain ⟨x, xs, hx, _⟩ := core_ne d hd
  rw [hx] at h ⊢
  simp only [List.cons_append] at h ⊢
  simp only [alignCols, h]

theorem core_len (d : DCell) (hd : 1 ≤ d.dashes) : 1 ≤ d.core.length := by
  obtain ⟨x, xs, hx, _⟩ := core_ne d hd
  rw [hx]; simp

theorem alignCols_rest (trail : Bool) : ∀ (cs : List DCell), (∀ c ∈ cs, 1 ≤ c.dashes) → ∀ (r fuel : Nat),
    (sp r ++ restLine trail cs).length ≤ fuel → alignCols fuel (sp r ++ restLine trail cs) = cs.map DCell.core
  | [], _, r, fuel, hf => by
    obtain ⟨f, rfl⟩ : ∃ f, fuel = f + r := ⟨fuel - r, by simp [sp] at hf; omega⟩
    rw [alignCols_sp]
    cases trail with
    | false =>
      obtain ⟨f', rfl⟩ : ∃ f', f = f' + 1 := ⟨f - 1, by simp [sp, restLine] at hf; omega⟩
      simp only [restLine, Bool.false_eq_true, if_false, List.nil_append]
      rw [alignCols_skip '\n' (Or.inr (Or.inr rfl)), alignCols_nil]; rfl
    | true =>
      obtain ⟨f', rfl⟩ : ∃ f', f = f' + 1 + 1 := ⟨f - 2, by simp [sp, restLine] at hf; omega⟩
      simp only [restLine, if_true, List.singleton_append]
      rw [alignCols_skip '|' (Or.inr (Or.inl rfl)), alignCols_skip '\n' (Or.inr (Or.inr rfl)), alignCols_nil]; rfl
  | c :: cs, hd, r, fuel, hf => by
    have hc := hd c (by simp)
    have hcl := core_len c hc
    simp only [restLine, List.length_append, List.length_cons, sp, List.length_replicate] at hf
    obtain ⟨f, rfl⟩ : ∃ f, fuel = (((f + 1) + c.padL) + 1) + r := ⟨fuel - r - 1 - c.padL - 1, by omega⟩
    have ih := alignCols_rest trail cs (fun y hy => hd y (List.mem_cons_of_mem _ hy)) c.padR f
      (by simp only [List.length_append, sp, List.length_replicate]; omega)
    rw [alignCols_sp]
    simp only [restLine]
    rw [alignCols_skip '|' (Or.inr (Or.inl rfl)), alignCols_sp, alignCols_core c hc _ (rest_brk trail c.padR cs), ih]
    rfl

theorem sp_len (n : Nat) : (sp n).length = n := by simp [sp]

theorem findAligns_line (d : DRow) (hne : d.cells ≠ []) (hd : ∀ c ∈ d.cells, 1 ≤ c.dashes) :
    findAligns d.line = d.cells.map DCell.core := by
  obtain ⟨c0, cs, hcs⟩ := List.exists_cons_of_ne_nil hne
  have hl := drow_line d c0 cs hcs
  have hc := hd c0 (by rw [hcs]; simp)
  have hcl := core_len c0 hc
  have hd' : ∀ c ∈ cs, 1 ≤ c.dashes := fun y hy => hd y (by rw [hcs]; exact List.mem_cons_of_mem _ hy)
  unfold findAligns
  rw [hcs, hl]
  cases d.lead with
  | false =>
    simp only [Bool.false_eq_true, if_false, List.nil_append, List.length_append, sp_len]
    obtain ⟨f, hf⟩ : ∃ f, c0.padL + (c0.core.length + (c0.padR + (restLine d.trail cs).length)) + 1 = (f + 1) + c0.padL :=
      ⟨c0.core.length + (c0.padR + (restLine d.trail cs).length) - 1 + 1, by omega⟩
    rw [hf]
    have ih := alignCols_rest d.trail cs hd' c0.padR f (by simp only [List.length_append, sp_len]; omega)
    rw [alignCols_sp, alignCols_core c0 hc _ (rest_brk d.trail c0.padR cs), ih]
    rfl
  | true =>
    simp only [if_true, List.singleton_append, List.length_cons, List.length_append, sp_len]
    obtain ⟨f, hf⟩ : ∃ f, c0.padL + (c0.core.length + (c0.padR + (restLine d.trail cs).length)) + 1 + 1 = ((f + 1) + c0.padL) + 1 :=
      ⟨c0.core.length + (c0.padR + (restLine d.trail cs).length) - 1 + 1, by omega⟩
    rw [hf]
    have ih := alignCols_rest d.trail cs hd' c0.padR f (by simp only [List.length_append, sp_len]; omega)
    rw [alignCols_skip '|' (Or.inr (Or.inl rfl)), alignCols_sp, alignCols_core c0 hc _ (rest_brk d.trail c0.padR cs), ih]
    rfl

theorem parseAlign_core (d : DCell) (hd : 1 ≤ d.dashes) : parseAlign d.core = .ok d.align := by
  obtain ⟨m, hm⟩ : ∃ m, d.dashes = m + 1 := ⟨d.dashes - 1, by omega⟩
  have h1 : ('-' :: List.replicate m '-').getLast? = some '-' := by
    rw [← List.replicate_succ, List.getLast?_replicate]; simp
  have h2 : ∀ (x : Char) (l : Str), (x :: (l ++ [':'])).getLast? = some ':' := by
    intro x l; rw [← List.cons_append, List.getLast?_concat]
  have h3 : (':' :: '-' :: List.replicate m '-').getLast? = some '-' := by rw [List.getLast?_cons_cons, h1]
  unfold parseAlign DCell.core DCell.align
  rw [hm]
  cases d.cl <;> cases d.cr <;> simp [List.replicate_succ, h1, h2, h3]

theorem mapRes_cores : ∀ (cs : List DCell), (∀ c ∈ cs, 1 ≤ c.dashes) → mapRes parseAlign (cs.map DCell.core) = .ok (cs.map DCell.align)
  | [], _ => rfl
  | c :: cs, h => by
    simp only [List.map_cons, mapRes, parseAlign_core c (h c (by simp)), mapRes_cores cs (fun y hy => h y (List.mem_cons_of_mem _ hy))]

/-! the line itself -/

theorem mem_joinBar (c : Char) : ∀ (l : List Str), c ∈ joinBar l → c = '|' ∨ ∃ t ∈ l, c ∈ t
  | [], h => by simp [joinBar] at h
  | [t], h => by
    simp only [joinBar] at h
    exact Or.inr ⟨t, by simp, h⟩
  | t :: t' :: r, h => by
    rw [joinBar_cons2] at h
    rcases List.mem_append.mp h with h | h
    · exact Or.inr ⟨t, by simp, h⟩
    · rcases List.mem_cons.mp h with h | h
      · exact Or.inl h
      · rcases mem_joinBar c (t' :: r) h with h | ⟨u, hu, hc⟩
        · exact Or.inl h
        · exact Or.inr ⟨u, List.mem_cons_of_mem _ hu, hc⟩

theorem mem_text (d : DCell) (c : Char) (h : c ∈ d.text) : c = ' ' ∨ c = ':' ∨ c = '-' := by
  simp only [DCell.text, sp, List.mem_append, List.mem_replicate] at h
  rcases h with (((h | h) | h) | h) | h
  · exact Or.inl h.2
  · simp at h; exact Or.inr (Or.inl h.2)
  · exact Or.inr (Or.inr h.2)
  · simp at h; exact Or.inr (Or.inl h.2)
  · exact Or.inl h.2

theorem drow_lineOk (d : DRow) : LineOk d.line := by
  refine ⟨(if d.lead then ['|'] else []) ++ (joinBar (d.cells.map DCell.text) ++ (if d.trail then ['|'] else [])), rfl, ?_⟩
  have hc : ∀ c ∈ (if d.lead then ['|'] else []) ++ (joinBar (d.cells.map DCell.text) ++ (if d.trail then ['|'] else [])),
      c = '|' ∨ c = ' ' ∨ c = ':' ∨ c = '-' := by
    intro c hc
    rcases List.mem_append.mp hc with h | h
    · simp at h; exact Or.inl h.2
    · rcases List.mem_append.mp h with h | h
      · rcases mem_joinBar c _ h with h | ⟨t, ht, hct⟩
        · exact Or.inl h
        · obtain ⟨dc, _, rfl⟩ := List.mem_map.mp ht
          exact Or.inr (mem_text dc c hct)
      · simp at h; exact Or.inl h.2
  constructor
  · intro c h
    rcases hc c h with rfl | rfl | rfl | rfl <;> decide
  · intro h
    rcases hc _ h with h | h | h | h <;> revert h <;> decide

theorem drow_dash (d : DRow) (hne : d.cells ≠ []) (hd : ∀ c ∈ d.cells, 1 ≤ c.dashes) : d.line.contains '-' = true := by
  obtain ⟨c0, cs, hcs⟩ := List.exists_cons_of_ne_nil hne
  have hl := drow_line d c0 cs hcs
  have hc := hd c0 (by rw [hcs]; simp)
  obtain ⟨m, hm⟩ : ∃ m, c0.dashes = m + 1 := ⟨c0.dashes - 1, by omega⟩
  have : '-' ∈ c0.core := by
    unfold DCell.core
    rw [hm, List.replicate_succ]
    simp
  rw [hl]
  simp [this]


/-- the delimiter row as written (decidable): one or more cells, each with at least one hyphen; the row has a `|`
    (`Table.read` collects lines while they have one: with one column, a leading or a trailing pipe).  That
    `Table.delimiter_row_pattern` matches such a line and that `column_align_pattern.findall` + `parse_align` give the
    alignments of its cells is proved (`delimiterRow_line`, `findAligns_line`, `mapRes_cores`). -/
def drowOk (d : DRow) : Bool :=
  !d.cells.isEmpty && d.cells.all (fun c => decide (1 ≤ c.dashes)) && d.line.contains '|'

structure DelimFacts (d : DRow) : Prop where
  ne : d.cells ≠ []
  bar : d.line.contains '|' = true
  dash : d.line.contains '-' = true
  row : delimiterRow d.line = true
  al : mapRes parseAlign (findAligns d.line) = .ok d.aligns
  line : LineOk d.line

theorem delimFacts_of (d : DRow) (h : drowOk d = true) : DelimFacts d := by
  simp only [drowOk, Bool.and_eq_true, Bool.not_eq_eq_eq_not, Bool.not_true, List.isEmpty_eq_false_iff, List.all_eq_true,
    decide_eq_true_eq] at h
  obtain ⟨⟨h0, h1⟩, h2⟩ := h
  refine ⟨h0, h2, drow_dash d h0 h1, delimiterRow_line d h0 h1, ?_, drow_lineOk d⟩
  rw [findAligns_line d h0 h1]
  exact mapRes_cores d.cells h1

/-- The two new kinds of leaves.
    * `table hdr del rows`: a GFM table - the header row, the delimiter row, the body rows, each as written.
    * `icode lines`: an indented code block - the lines as written. -/
inductive Leaf where
  | table (hdr : Row) (del : DRow) (rows : List Row)
  | icode (lines : List Str)

def Leaf.write : Leaf → List Str
  | .table h d rows => h.line :: d.line :: rows.map Row.line
  | .icode ls => ls

/-- a line of an indented code block as written: one complete line without a tab; whitespace only, or four spaces and more -/
def codeLineB (l : Str) : Bool := oneLine l && !l.contains '\t' && (isBlank l || startsWith [' ', ' ', ' ', ' '] l)

/-- well-formedness of a leaf (decidable).
    Table: header and body rows `rowOk`; when the header row does not begin with a pipe, no other block starts on it
    (`headFactsB`: it is not indented code, an ATX heading, a quote, a fence, a thematic break, a list item or an HTML
    block; with a leading pipe that is so: `pipe_headFacts`);
    the delimiter row `drowOk`; the header has as many cells as the delimiter row (GFM asks for that; the body rows may have
    fewer or more).
    Indented code: every line `codeLineB`; the first and the last line have a visible character. -/
def Leaf.ok : Leaf → Bool
  | .table h d rows => rowOk h && (h.lead || headFactsB h.line) && drowOk d && decide (h.cells.length = d.cells.length) && rows.all rowOk
  | .icode ls => ls.all codeLineB && (match ls.head? with | some l => !isBlank l | none => false)
      && (match ls.getLast? with | some l => !isBlank l | none => false)

def Leaf.isCode : Leaf → Bool
  | .icode _ => true
  | _ => false

/-- the parse-buffer entry expected for a leaf whose first line is line `n` -/
def Leaf.entry (n : Nat) : Leaf → Entry
  | .table h d rows => .table (h.line :: d.line :: rows.map Row.line) n n n
  | .icode ls => .blockCode (ls.map codePiece) n n

/-- the content `BlockCode.__init__` computes: what `BlockCode.read` keeps of the lines, joined, `strip('\n')`, "\n"; for a
    written block this is the joined text itself (`codeContent_eq`) -/
def codeContent (ls : List Str) : Str := Document.stripNl (ls.map codePiece).flatten ++ ['\n']

/-- the block token expected for a leaf: a `Table` with the column alignments, the header `TableRow` (line `n`) and the
    body `TableRow`s (lines `n + 2`, …), each with its `TableCell`s; a `BlockCode` whose content is every line minus its first
    four columns (`codePiece`), joined -/
def Leaf.block (n : Nat) : Leaf → Mistletoe.Block
  | .table h d rows => .table d.aligns [rowBlock d.aligns n h] (rowBlocks d.aligns (n + 2) rows) n
  | .icode ls => .blockCode (ls.map codePiece).flatten n

structure TableFacts (h : Row) (d : DRow) (rows : List Row) : Prop where
  hdr : RowFacts h
  head : HeadFacts h.line
  del : DelimFacts d
  rows : ∀ r ∈ rows, RowFacts r

theorem tableFacts_of (h : Row) (d : DRow) (rows : List Row) (hok : (Leaf.table h d rows).ok = true) : TableFacts h d rows := by
  simp only [Leaf.ok, Bool.and_eq_true, List.all_eq_true, Bool.or_eq_true] at hok
  obtain ⟨⟨⟨⟨h0, h1⟩, h2⟩, _⟩, h4⟩ := hok
  refine ⟨rowFacts_of h h0, ?_, delimFacts_of d h2, fun r hr => rowFacts_of r (h4 r hr)⟩
  rcases h1 with h1 | h1
  · have : h.line = '|' :: (joinBar h.cells ++ (if h.trail then ['|'] else []) ++ ['\n']) := by
      simp [Row.line, Row.body, h1]
    rw [this]
    exact pipe_headFacts _
  · exact headFacts_of _ h1

structure CodeFacts (ls : List Str) : Prop where
  ne : ls ≠ []
  lines : ∀ l ∈ ls, LineOk l ∧ CodeLine l
  first : ∀ l, ls.head? = some l → isBlank l = false
  last : ∀ l, ls.getLast? = some l → isBlank l = false

theorem ind4_of_prefix (l : Str) (h : startsWith [' ', ' ', ' ', ' '] l = true) : ∃ t, l = ind4 t := by
  obtain ⟨t, rfl⟩ := List.isPrefixOf_iff_prefix.mp h
  exact ⟨t, rfl⟩

theorem codeFacts_of (ls : List Str) (hok : (Leaf.icode ls).ok = true) : CodeFacts ls := by
  simp only [Leaf.ok, Bool.and_eq_true, List.all_eq_true] at hok
  obtain ⟨⟨h0, h1⟩, h2⟩ := hok
  refine ⟨?_, ?_, ?_, ?_⟩
  · intro e; subst e; simp at h1
  · intro l hl
    have := h0 l hl
    simp only [codeLineB, Bool.and_eq_true, Bool.not_eq_eq_eq_not, Bool.not_true, Bool.or_eq_true] at this
    refine ⟨lineOk_of l this.1.1 this.1.2, ?_⟩
    cases hb : isBlank l with
    | true => exact Or.inl hb
    | false =>
      rcases this.2 with h | h
      · rw [hb] at h; cases h
      · exact Or.inr ⟨hb, ind4_of_prefix l h⟩
  · intro l hl; rw [hl] at h1; simpa using h1
  · intro l hl; rw [hl] at h2; simpa using h2

/-- a code line with a visible character: what `BlockCode.read` keeps of it is a non-empty text without "\n", and "\n" -/
theorem codePiece_vis (l : Str) (hl : LineOk l) (hnb : isBlank l = false) (t : Str) (ht : l = ind4 t) :
    ∃ u, codePiece l = u ++ ['\n'] ∧ u ≠ [] ∧ '\n' ∉ u := by
  obtain ⟨body, hb, hsep, _⟩ := hl
  have hp : codePiece l = t := by
    simp only [codePiece, hnb, Bool.false_eq_true, if_false]
    rw [ht]; rfl
  rw [ht] at hb
  have hnl : ∀ u : Str, (∀ c ∈ u, isLineSep c = false) → '\n' ∉ u := by
    intro u hu hm
    have := hu _ hm
    revert this; decide
  match body, hb, hsep with
  | [], hb, _ => simp [ind4] at hb
  | [a], hb, _ => simp [ind4] at hb
  | [a, b], hb, _ => simp [ind4] at hb
  | [a, b, c], hb, _ => simp [ind4] at hb
  | a :: b :: c :: d :: u, hb, hsep =>
    simp only [ind4, List.cons_append, List.cons.injEq] at hb
    obtain ⟨_, _, _, _, hb⟩ := hb
    refine ⟨u, by rw [hp, hb], ?_, hnl u (fun x hx => hsep x (by simp [hx]))⟩
    intro e
    subst e
    rw [ht, hb] at hnb
    revert hnb; decide

/-- **the content of a written indented code block** is every line minus its first four columns, joined: `strip('\n')`
    removes nothing but the final "\n", which `BlockCode.__init__` puts back -/
theorem codeContent_eq (ls : List Str) (hok : (Leaf.icode ls).ok = true) : codeContent ls = (ls.map codePiece).flatten := by
  have hf := codeFacts_of ls hok
  obtain ⟨cs, last, rfl⟩ : ∃ cs last, ls = cs ++ [last] := ⟨_, _, (List.dropLast_concat_getLast hf.ne).symm⟩
  have hlast := hf.last last (by simp)
  obtain ⟨hlo, hcl⟩ := hf.lines last (by simp)
  obtain ⟨t, ht⟩ : ∃ t, last = ind4 t := by
    rcases hcl with h | ⟨_, h⟩
    · rw [h] at hlast; cases hlast
    · exact h
  obtain ⟨u, hu, hune, hunl⟩ := codePiece_vis last hlo hlast t ht
  have e : ((cs ++ [last]).map codePiece).flatten = (cs.map codePiece).flatten ++ u ++ ['\n'] := by
    simp [hu]
  have hfirst : ∃ c r, (cs.map codePiece).flatten ++ u = c :: r ∧ c ≠ '\n' := by
    cases cs with
    | nil =>
      cases u with
      | nil => exact absurd rfl hune
      | cons c r => exact ⟨c, r, rfl, fun e => hunl (by simp [e])⟩
    | cons l0 cs' =>
      have h0 := hf.first l0 rfl
      obtain ⟨hlo0, hcl0⟩ := hf.lines l0 (by simp)
      obtain ⟨t0, ht0⟩ : ∃ t, l0 = ind4 t := by
        rcases hcl0 with h | ⟨_, h⟩
        · rw [h] at h0; cases h0
        · exact h
      obtain ⟨u0, hu0, hu0ne, hu0nl⟩ := codePiece_vis l0 hlo0 h0 t0 ht0
      cases u0 with
      | nil => exact absurd rfl hu0ne
      | cons c r => exact ⟨c, r ++ '\n' :: ((cs'.map codePiece).flatten ++ u), by simp [hu0], fun e => hu0nl (by simp [e])⟩
  obtain ⟨c, r, hcr, hc⟩ := hfirst
  unfold codeContent
  rw [e]
  exact MdRound.stripNl_lines _ _ c r hcr hc hune hunl

theorem leaf_lineOk : ∀ (l : Leaf), l.ok = true → (∀ s ∈ l.write, LineOk s) ∧ l.write ≠ []
  | .table h d rows, hok => by
    have hf := tableFacts_of h d rows hok
    refine ⟨?_, by simp [Leaf.write]⟩
    intro s hs
    simp only [Leaf.write, List.mem_cons, List.mem_map] at hs
    rcases hs with rfl | rfl | ⟨r, hr, rfl⟩
    · exact hf.hdr.line
    · exact hf.del.line
    · exact (hf.rows r hr).line
  | .icode ls, hok => by
    have hf := codeFacts_of ls hok
    exact ⟨fun s hs => (hf.lines s hs).1, hf.ne⟩

theorem leaf_entry_shift (j n : Nat) : ∀ (l : Leaf), shiftEntry j (l.entry n) = l.entry (n + j)
  | .table .. => rfl
  | .icode _ => rfl

/-- **a written table alone in its buffer** -/
theorem tokenize_leaf_table (ti : Bool) (h : Row) (d : DRow) (rows : List Row) (hok : (Leaf.table h d rows).ok = true)
    (k : Nat) (st : St) (gas : Nat) (hg : 11 ≤ gas) :
    tokenizeBlock (dcfg ti) gas (numbered k (Leaf.table h d rows).write) (k + 1) st =
      .ok ({ entries := [(Leaf.table h d rows).entry (k + 1)], loose := false }, st) := by
  have hf := tableFacts_of h d rows hok
  obtain ⟨g, rfl⟩ : ∃ g, gas = g + 11 := ⟨gas - 11, by omega⟩
  have := tokenize_table ti { s := h.line, origin := k + 1 } { s := d.line, origin := k + 1 + 1 } (numbered (k + 1 + 1) (rows.map Row.line))
    hf.head hf.del.bar hf.del.row
    (by
      intro x hx
      have := numbered_mem _ _ _ hx
      obtain ⟨r, hr, e⟩ := List.mem_map.mp this
      rw [← e]; exact (hf.rows r hr).bar)
    (k + 1) st g
  simp only [Leaf.write, numbered_cons, Leaf.entry]
  rw [this, numbered_s]

/-- **a written indented code block**: entered on its first line, the dispatcher adds the `BlockCode` entry and stands on
    the line behind the block, when that is the end of the buffer or a "\n" line followed by the end or by a line that is
    neither blank nor indented code -/
theorem tokLoop_leaf_icode (ti : Bool) (ls : List Str) (hok : (Leaf.icode ls).ok = true) (post : List Line) (hp : CodeStop post)
    (k : Nat) (st : St) (g : Nat) (acc : List Entry) (lo : Bool) :
    tokLoop (dcfg ti) (g + 8) ⟨numbered k ls ++ post, 0, k + 1⟩ st acc lo =
      tokLoop (dcfg ti) (g + 7) ⟨numbered k ls ++ post, ls.length, k + 1⟩ st ((Leaf.icode ls).entry (k + 1) :: acc) lo := by
  have hf := codeFacts_of ls hok
  obtain ⟨cs, last, hcl⟩ : ∃ cs last, numbered k ls = cs ++ [last] := by
    have hne : numbered k ls ≠ [] := by
      intro e; have := congrArg List.length e; rw [numbered_length] at this; exact hf.ne (List.eq_nil_of_length_eq_zero this)
    exact ⟨_, _, (List.dropLast_concat_getLast hne).symm⟩
  have hmem : ∀ x ∈ cs ++ [last], CodeLine x.s := by
    intro x hx; rw [← hcl] at hx; exact (hf.lines _ (numbered_mem _ _ _ hx)).2
  have hs : (cs ++ [last]).map (·.s) = ls := by rw [← hcl]; exact numbered_s k ls
  have hlast : isBlank last.s = false := by
    apply hf.last
    rw [← hs]; simp
  have hfirst : ∀ x, (cs ++ [last]).head? = some x → isBlank x.s = false := by
    intro x hx
    apply hf.first
    rw [← hs, List.head?_map, hx]; rfl
  have ho : ((cs ++ [last]).head?.map (·.origin)).getD 0 = k + 1 := by
    rw [← hcl]
    obtain ⟨l0, tl, hl, ho⟩ := numbered_ne k ls hf.ne
    rw [hl]; simpa using ho
  have := tokLoop_icode_step ti g cs last [] post hmem hlast hfirst hp (k + 1) st acc lo
  simp only [List.nil_append, List.length_nil, Nat.add_zero, ho] at this
  have hm : (cs ++ [last]).map (fun x => codePiece x.s) = ls.map codePiece := by
    rw [← hs, List.map_map]; rfl
  rw [hm] at this
  rw [hcl, this]
  have hlen : (cs ++ [last]).length = ls.length := by rw [← hcl, numbered_length]
  rw [hlen]
  rfl

/-! ### The token constructors and the HTML of the new leaves -/

open Mistletoe.Html Mistletoe.Escape
open Mistletoe.InertInline (flat_append)
open Mistletoe.ComposeL (flat_cons2)

theorem mkBlock_leaf (cfg : Document.Cfg) (fn : Footnotes.Table) (ht : ∀ t ∈ cfg.span, inertClass t = true) :
    ∀ (l : Leaf), l.ok = true → ∀ (n : Nat), mkBlock cfg fn (l.entry n) = .ok (some (l.block n))
  | .table h d rows, hok, n => by
    have hf := tableFacts_of h d rows hok
    have hal : d.aligns ≠ [] := by simpa [DRow.aligns] using hf.del.ne
    simp only [Leaf.entry, Leaf.block, mkBlock, hf.del.dash, if_true, hf.del.al, tableRow_row cfg fn ht _ hal n h hf.hdr,
      tableRows_rows cfg fn ht _ hal rows (n + 2) hf.rows]
  | .icode ls, hok, n => by
    have e := codeContent_eq ls hok
    unfold codeContent at e
    simp only [Leaf.entry, Leaf.block, mkBlock, e]

/-- `<th align="…">text</th>` + newline (`<td` in the body); the text with `&`, `<`, `>` (and the quotes, as the options
    say) escaped -/
def cellHtml (q : Quotes) (th : Bool) (a : Option Nat) (t : Str) : Str :=
  (if th then ['<', 't', 'h'] else ['<', 't', 'd']) ++ [' ', 'a', 'l', 'i', 'g', 'n', '=', '"'] ++ alignName a ++ ['"', '>']
    ++ escapeHtmlText q.dq q.sq t ++ (if th then ['<', '/', 't', 'h', '>', '\n'] else ['<', '/', 't', 'd', '>', '\n'])

def padHtml (q : Quotes) (th : Bool) : List (Option Nat) → Str
  | [] => []
  | a :: as => cellHtml q th a [] ++ padHtml q th as

/-- the cells of a row under the column alignments, as `cellsOf` -/
def cellsHtml (q : Quotes) (th : Bool) : List Str → List (Option Nat) → Str
  | [], as => padHtml q th as
  | c :: cs, [] => cellHtml q th none (strip c) ++ cellsHtml q th cs []
  | c :: cs, a :: as => cellHtml q th a (strip c) ++ cellsHtml q th cs as

def rowHtml (q : Quotes) (th : Bool) (al : List (Option Nat)) (r : Row) : Str :=
  ['<', 't', 'r', '>', '\n'] ++ cellsHtml q th r.cells al ++ ['<', '/', 't', 'r', '>', '\n']

def rowsHtml (q : Quotes) (al : List (Option Nat)) : List Row → Str
  | [] => []
  | r :: rest => rowHtml q false al r ++ rowsHtml q al rest

def tOpen : Str := ['<', 't', 'a', 'b', 'l', 'e', '>', '\n']
def thOpen : Str := ['<', 't', 'h', 'e', 'a', 'd', '>', '\n']
def thClose : Str := ['<', '/', 't', 'h', 'e', 'a', 'd', '>', '\n']
def tbOpen : Str := ['<', 't', 'b', 'o', 'd', 'y', '>', '\n']
def tbClose : Str := ['<', '/', 't', 'b', 'o', 'd', 'y', '>', '\n']
def tClose : Str := ['<', '/', 't', 'a', 'b', 'l', 'e', '>']

/-- `<table>`, `<thead>` with the header row, `<tbody>` with the body rows (present also when there is no body row),
    `</table>`, each tag on a line of its own -/
def tableHtml (q : Quotes) (h : Row) (d : DRow) (rows : List Row) : Str :=
  tOpen ++ (thOpen ++ rowHtml q true d.aligns h ++ thClose) ++ tbOpen ++ rowsHtml q d.aligns rows ++ tbClose ++ tClose

def Leaf.html (q : Quotes) : Leaf → Str
  | .table h d rows => tableHtml q h d rows
  | .icode ls => fenceHtml q [] (ls.map codePiece).flatten

theorem escape_nil (q : Quotes) : escapeHtmlText q.dq q.sq [] = [] := by simp [escapeHtmlText, mapChars]

theorem flat_cell (q : Quotes) (th : Bool) (a : Option Nat) (t : Str) (ln : Nat) :
    flat (renderCell q th (.tableCell a (cellInl t) ln)) = cellHtml q th a t := by
  have e1 : "th".toList = ['t', 'h'] := by decide
  have e2 : "td".toList = ['t', 'd'] := by decide
  have e3 : "align".toList = ['a', 'l', 'i', 'g', 'n'] := by decide
  have hin : flat (renderInlines q (cellInl t)) = escapeHtmlText q.dq q.sq t := by
    cases t with
    | nil => simp [cellInl, renderInlines, flat, escape_nil]
    | cons c r => simp [cellInl, renderInlines, renderInline, flat, flatEv]
  simp only [renderCell, flat_append, hin, cellHtml, e1, e2, e3]
  cases th <;> simp [flat, flatEv, flatAttrs, nl]

theorem flat_pad (q : Quotes) (th : Bool) (ln : Nat) : ∀ (as : List (Option Nat)),
    flat (renderCells q th (as.map (fun a => .tableCell a [] ln))) = padHtml q th as
  | [] => rfl
  | a :: as => by
    have := flat_cell q th a [] ln
    simp only [cellInl, List.isEmpty_nil, if_true] at this
    simp only [List.map_cons, renderCells, flat_append, this, flat_pad q th ln as, padHtml]

theorem flat_cells (q : Quotes) (th : Bool) (ln : Nat) : ∀ (cells : List Str) (as : List (Option Nat)),
    flat (renderCells q th (cellsOf ln cells as)) = cellsHtml q th cells as
  | [], as => by simp only [cellsOf, cellsHtml]; exact flat_pad q th ln as
  | c :: cs, [] => by simp only [cellsOf, cellsHtml, renderCells, flat_append, flat_cell, flat_cells q th ln cs []]
  | c :: cs, a :: as => by simp only [cellsOf, cellsHtml, renderCells, flat_append, flat_cell, flat_cells q th ln cs as]

theorem flat_row (q : Quotes) (s : Bool) (th : Bool) (al : List (Option Nat)) (ln : Nat) (r : Row) :
    flat (renderRow q s th (rowBlock al ln r)) = rowHtml q th al r := by
  have e1 : "tr".toList = ['t', 'r'] := by decide
  simp only [rowBlock, renderRow, flat_append, flat_cells, rowHtml, e1]
  simp [flat, flatEv, flatAttrs, nl]

theorem flat_row_block (q : Quotes) (s : Bool) (al : List (Option Nat)) (ln : Nat) (r : Row) :
    flat (renderBlock q s (rowBlock al ln r)) = rowHtml q false al r := by
  have e1 : "tr".toList = ['t', 'r'] := by decide
  simp only [rowBlock, renderBlock, flat_append, flat_cells, rowHtml, e1]
  simp [flat, flatEv, flatAttrs, nl]

theorem flat_rows (q : Quotes) (s : Bool) (al : List (Option Nat)) : ∀ (rows : List Row) (ln : Nat),
    flat (renderCat q s (rowBlocks al ln rows)) = rowsHtml q al rows
  | [], _ => rfl
  | r :: rest, ln => by
    simp only [rowBlocks, renderCat, flat_append, flat_row_block, flat_rows q s al rest (ln + 1), rowsHtml]

theorem flat_leaf (q : Quotes) (s : Bool) (n : Nat) : ∀ (l : Leaf), flat (renderBlock q s (l.block n)) = l.html q
  | .table h d rows => by
    have e1 : flat [Ev.otag "table".toList [], nl] = tOpen := by decide
    have e2 : flat [Ev.otag "thead".toList [], nl] = thOpen := by decide
    have e3 : flat [Ev.ctag "thead".toList, nl] = thClose := by decide
    have e4 : flat [Ev.otag "tbody".toList [], nl] = tbOpen := by decide
    have e5 : flat [Ev.ctag "tbody".toList, nl] = tbClose := by decide
    have e6 : flat [Ev.ctag "table".toList] = tClose := by decide
    simp only [Leaf.block, Leaf.html, tableHtml, renderBlock, flat_append, flat_row, flat_rows, e1, e2, e3, e4, e5, e6]
  | .icode ls => by
    simp only [Leaf.block, Leaf.html, renderBlock]
    exact flat_fence q [] _

theorem leaf_html_ne (q : Quotes) : ∀ (l : Leaf), l.html q ≠ []
  | .table h d rows => by
    simp [Leaf.html, tableHtml, tOpen]
  | .icode ls => by simp only [Leaf.html]; exact fenceHtml_ne _ _ _

/-! ### The fragment with tables and indented code blocks -/

open Mistletoe.ComposeL (leaderOf markerOk leaderOk_of_marker sepS stopLineB StopLine stopLine_of PostOk itemDoc_facts
  item_lines_last item_lines_next readList_step_stop readList_step_next leader_chars lineOk_prepend spaces_chars
  indentDoc_lineOk indentDoc_ne itemDocOk_ne after_after dcfg_noBlank dcfg_len)
open Mistletoe.ComposeL (itemLooseB listHtml flat_list flat_li_open flat_li_close flat_li_empty flat_if_nl
  flat_item2_nil flat_item2_cons listHtml_ne mkBlock_of_single2)
open Mistletoe.InertInline (flat_prose)

/-- A tree of block constructs: everything `ComposeC.T3` has (paragraph, ATX heading, thematic break, block quote, bullet /
    ordered list, fenced code block, setext heading; children of quotes and list items are trees of this type again) and
    `leaf l`: a table or an indented code block (`Leaf`). -/
inductive T4 where
  | para (lines : List Str)
  | heading (level : Nat) (text : Str) (line : Str)
  | hr (line : Str)
  | quote (bare : Bool) (kids : List T4)
  | list (ordered : Bool) (start : Nat) (marker : Char) (pad : Nat) (loose : Bool) (items : List (List T4))
  | fence (ind : Nat) (delim info : Str) (body : List Str) (close : Str)
  | setext (level : Nat) (lines : List Str) (ul : Str)
  | leaf (l : Leaf)

mutual
/-- the source lines of one node -/
def write4 : T4 → List Str
  | .para ls => ls
  | .heading _ _ line => [line]
  | .hr line => [line]
  | .quote bare kids => (writes4 kids).map (if bare then qbare else qsp)
  | .list o n mk pad loose items => writeItems4 o mk pad loose n items
  | .fence ind d info body close => (sp ind ++ d ++ info ++ ['\n']) :: (body ++ [close])
  | .setext _ ls ul => ls ++ [ul]
  | .leaf l => l.write
/-- siblings, separated by exactly one "\n" line -/
def writes4 : List T4 → List Str
  | [] => []
  | t :: rest =>
    match rest with
    | [] => write4 t
    | _ :: _ => write4 t ++ ['\n'] :: writes4 rest
/-- the items of a list: the lines of the item's blocks, the first behind the marker and `pad` spaces, the others behind
    as many spaces as that is wide ("\n" lines stay "\n"); in a loose list one "\n" line between consecutive items -/
def writeItems4 (o : Bool) (mk : Char) (pad : Nat) (loose : Bool) (n : Nat) : List (List T4) → List Str
  | [] => []
  | it :: rest =>
    match rest with
    | [] => indentDoc (leaderOf o n mk) pad (writes4 it)
    | _ :: _ => indentDoc (leaderOf o n mk) pad (writes4 it) ++ (sepS loose ++ writeItems4 o mk pad loose (n + 1) rest)
end

mutual
/-- a setext heading occurs in the node, at any depth -/
def hasSx : T4 → Bool
  | .setext .. => true
  | .quote _ kids => hasSxs kids
  | .list _ _ _ _ _ items => hasSxItems items
  | _ => false
def hasSxs : List T4 → Bool
  | [] => false
  | t :: rest => hasSx t || hasSxs rest
def hasSxItems : List (List T4) → Bool
  | [] => false
  | it :: rest => hasSxs it || hasSxItems rest
end

def isList4 : T4 → Bool
  | .list .. => true
  | _ => false

/-- lists, fenced and indented code blocks: blocks that C05 does not count as closed by a blank line (an unclosed fence, the
    last item of a list, an indented code block go on behind it); here the dispatcher is followed over them directly -/
def isOpen4 : T4 → Bool
  | .list .. => true
  | .fence .. => true
  | .leaf l => l.isCode
  | _ => false

def isCode4 : T4 → Bool
  | .leaf l => l.isCode
  | _ => false

/-- what is asked of two consecutive siblings: behind a list no list, and a first line that is a `stopLineB`; behind an
    indented code block a first line that is not indented code again (it would go on the block) -/
def sepOk4 (t t' : T4) : Bool :=
  (!isList4 t || (!isList4 t' && stopLineB ((write4 t').headD [])))
    && (!isCode4 t || (!isBlank ((write4 t').headD []) && !blockCodeStart ((write4 t').headD [])))

open Mistletoe.Document (joinNl) in
mutual
/-- well-formedness (decidable).  Paragraph, heading, thematic break, quote: as `Compose.T.ok`.  List:
    * 1 ≤ pad ≤ 4; at least one item; every item has at least one block, all well-formed;
    * every marker is a bullet `-`, `+`, `*`, or a number of at most nine digits (< 10⁹) and `.` or `)` (`markerOk`);
    * the lines of an item (`itemDocOk`): the first begins with a character that is not whitespace; every other line is
      "\n" or has a non-whitespace character after its spaces (`ContLine`); marker + first line is not a thematic break
      (`* * *`, `- - -`);
    * `loose` is the looseness the specification assigns: a loose list has two or more items or an item with two or
      more blocks; the items of a tight list have one block each.
    Quote: in addition no setext heading inside, at any depth (`hasSxs`).
    Fenced code block: `fenceOkB`.  Setext heading: the text lines as for a paragraph; the underline `ulOk`.
    Table, indented code block: `Leaf.ok`.
    Siblings (`T4.oks`): a list is not followed by a list, and the block that follows a list begins with a
    non-whitespace character and carries no list marker; the block that follows an indented code block does not begin
    with four spaces (`sepOk4`). -/
def T4.ok : T4 → Bool
  | .para ls => !ls.isEmpty && ls.all (fun l => inertLine l && proseLine l && oneLine l && !l.contains '\t')
      && inertBody (joinNl (ls.map strip))
  | .heading lv t line => !t.isEmpty && inertText t && headLine lv t line && oneLine line && !line.contains '\t'
  | .hr line => hrLine line && oneLine line && !line.contains '\t'
  | .quote bare kids => !kids.isEmpty && T4.oks kids && (!bare || (writes4 kids).all (fun s => s.head? != some ' '))
      && !hasSxs kids
  | .list o n mk pad loose items =>
    decide (1 ≤ pad) && decide (pad ≤ 4) && !items.isEmpty && T4.okItems o mk pad n items
      && (if loose then decide (2 ≤ items.length) || items.any (fun it => decide (1 < it.length))
          else items.all (fun it => it.length == 1))
  | .fence ind d info body close => fenceOkB ind d info body close
  | .setext lv ls ul => (Compose.T.para ls).ok && ulOk lv ul
  | .leaf l => l.ok
def T4.oks : List T4 → Bool
  | [] => true
  | t :: rest => t.ok && T4.oks rest && (match rest with | [] => true | t' :: _ => sepOk4 t t')
def T4.okItems (o : Bool) (mk : Char) (pad : Nat) (n : Nat) : List (List T4) → Bool
  | [] => true
  | it :: rest => !it.isEmpty && T4.oks it && markerOk o n mk && itemDocOk (writes4 it)
      && !Scan.thematicBreak (leaderOf o n mk ++ List.replicate pad ' ' ++ (writes4 it).headD [])
      && T4.okItems o mk pad (n + 1) rest
end

mutual
/-- the parse-buffer entry expected for a node whose first line is line `n` -/
def entry4 (n : Nat) : T4 → Entry
  | .para ls => .paragraph ls n n
  | .heading lv t line => .heading lv t (closingOf line) n n
  | .hr line => .thematicBreak line n n
  | .quote _ kids => .quote (entries4 n kids) (decide (1 < kids.length)) n n
  | .list o s mk pad loose items => .list (items4 o mk pad loose s n items) n n
  | .fence ind d info body _ => .codeFence (body.map (dedent ind)) ind d info (fenceLang info) n n
  | .setext _ ls ul => .setext (ls ++ [ul]) n n
  | .leaf l => l.entry n
def entries4 (n : Nat) : List T4 → List Entry
  | [] => []
  | t :: rest => entry4 n t :: entries4 (n + (write4 t).length + 1) rest
/-- the items: content = the entries of the item's blocks; loose = a "\n" line follows inside the list, or the item has
    more than one block; indentation 0; content offset = marker width + pad; the marker; the line of the marker -/
def items4 (o : Bool) (mk : Char) (pad : Nat) (loose : Bool) (s : Nat) (n : Nat) : List (List T4) → List Item
  | [] => []
  | it :: rest =>
    .mk (entries4 n it) ((loose && !rest.isEmpty) || decide (1 < it.length)) 0 ((leaderOf o s mk).length + pad) (leaderOf o s mk) n n
      :: items4 o mk pad loose (s + 1) (n + (writes4 it).length + (sepS loose).length) rest
end

mutual
/-- a quote occurs among the blocks (at any depth of list nesting): `Quote.read` switches `Paragraph.parse_setext` back on -/
def touch4 : T4 → Bool
  | .quote _ _ => true
  | .list _ _ _ _ _ items => touchItems4 items
  | _ => false
def touches4 : List T4 → Bool
  | [] => false
  | t :: rest => touch4 t || touches4 rest
def touchItems4 : List (List T4) → Bool
  | [] => false
  | it :: rest => touches4 it || touchItems4 rest
end

mutual
/-- gas that suffices -/
def need4 : T4 → Nat
  | .para _ => 14
  | .heading _ _ _ => 14
  | .hr _ => 14
  | .quote _ kids => needs4 kids + 6
  | .list _ _ _ _ _ items => needItems4 items + 12
  | .fence .. => 12
  | .setext .. => 14
  | .leaf _ => 12
def needs4 : List T4 → Nat
  | [] => 0
  | t :: rest => need4 t + needs4 rest + 14
def needItems4 : List (List T4) → Nat
  | [] => 0
  | it :: rest => needs4 it + needItems4 rest + 1
end
/-! ### What well-formedness gives -/

theorem oks4_cons (t : T4) (rest : List T4) (h : T4.oks (t :: rest) = true) :
    t.ok = true ∧ T4.oks rest = true ∧ ∀ t' r, rest = t' :: r → sepOk4 t t' = true := by
  simp only [T4.oks, Bool.and_eq_true] at h
  refine ⟨h.1.1, h.1.2, ?_⟩
  rintro t' r rfl
  exact h.2

theorem okItems_cons (o : Bool) (mk : Char) (pad n : Nat) (it : List T4) (rest : List (List T4))
    (h : T4.okItems o mk pad n (it :: rest) = true) :
    it ≠ [] ∧ T4.oks it = true ∧ leaderOk o (leaderOf o n mk) = true ∧ itemDocOk (writes4 it) = true ∧
    Scan.thematicBreak (leaderOf o n mk ++ List.replicate pad ' ' ++ (writes4 it).headD []) = false ∧
    T4.okItems o mk pad (n + 1) rest = true := by
  simp only [T4.okItems, Bool.and_eq_true, Bool.not_eq_eq_eq_not, Bool.not_true, List.isEmpty_eq_false_iff] at h
  obtain ⟨⟨⟨⟨⟨a, b⟩, c⟩, d⟩, e⟩, f⟩ := h
  exact ⟨a, b, leaderOk_of_marker o n mk c, d, e, f⟩

/-- the facts `T4.ok` packs for a list -/
structure ListOk (o : Bool) (n : Nat) (mk : Char) (pad : Nat) (loose : Bool) (items : List (List T4)) : Prop where
  p1 : 1 ≤ pad
  p4 : pad ≤ 4
  ne : items ≠ []
  its : T4.okItems o mk pad n items = true
  looseC : (if loose then decide (2 ≤ items.length) || items.any (fun it => decide (1 < it.length))
          else items.all (fun it => it.length == 1)) = true
  start : o = true → parseNat (natDigits n) = n

theorem listOk_of (o : Bool) (n : Nat) (mk : Char) (pad : Nat) (loose : Bool) (items : List (List T4))
    (h : (T4.list o n mk pad loose items).ok = true) : ListOk o n mk pad loose items := by
  simp only [T4.ok, Bool.and_eq_true, decide_eq_true_eq, Bool.not_eq_eq_eq_not, Bool.not_true, List.isEmpty_eq_false_iff] at h
  obtain ⟨⟨⟨⟨a, b⟩, c⟩, d⟩, e⟩ := h
  exact ⟨a, b, c, d, e, fun _ => parseNat_natDigits n⟩
theorem writeItems4_ne (o : Bool) (mk : Char) (pad : Nat) (loose : Bool) (n : Nat) (it : List T4) (rest : List (List T4))
    (h : itemDocOk (writes4 it) = true) : writeItems4 o mk pad loose n (it :: rest) ≠ [] := by
  have := indentDoc_ne (leaderOf o n mk) pad _ (itemDocOk_ne _ h)
  cases rest with
  | nil => simpa [writeItems4] using this
  | cons a b => simp [writeItems4, this]

theorem quoteOk4_of (bare : Bool) (kids : List T4) (h : (T4.quote bare kids).ok = true) :
    kids ≠ [] ∧ T4.oks kids = true ∧ (bare = true → ∀ s ∈ writes4 kids, s.head? ≠ some ' ') ∧ hasSxs kids = false := by
  simp only [T4.ok, Bool.and_eq_true, Bool.not_eq_eq_eq_not, Bool.not_true, List.isEmpty_eq_false_iff,
    Bool.or_eq_true, List.all_eq_true, bne_iff_ne, ne_eq] at h
  refine ⟨h.1.1.1, h.1.1.2, ?_, h.2⟩
  intro hb
  rcases h.1.2 with h2 | h2
  · rw [hb] at h2; cases h2
  · exact h2

theorem writeItems4_single (o : Bool) (mk : Char) (pad : Nat) (loose : Bool) (n : Nat) (it : List T4) :
    writeItems4 o mk pad loose n [it] = indentDoc (leaderOf o n mk) pad (writes4 it) := by simp [writeItems4]

theorem writeItems4_cons2 (o : Bool) (mk : Char) (pad : Nat) (loose : Bool) (n : Nat) (it it' : List T4) (r : List (List T4)) :
    writeItems4 o mk pad loose n (it :: it' :: r) =
      indentDoc (leaderOf o n mk) pad (writes4 it) ++ (sepS loose ++ writeItems4 o mk pad loose (n + 1) (it' :: r)) := by
  simp [writeItems4]

theorem writes4_cons2 (t t' : T4) (r : List T4) : writes4 (t :: t' :: r) = write4 t ++ ['\n'] :: writes4 (t' :: r) := by
  simp [writes4]

theorem writes4_single (t : T4) : writes4 [t] = write4 t := by simp [writes4]

theorem setextOk_of (lv : Nat) (ls : List Str) (ul : Str) (h : (T4.setext lv ls ul).ok = true) : ParaOk ls ∧ UlOk lv ul := by
  simp only [T4.ok, Bool.and_eq_true] at h
  exact ⟨paraOk_of ls h.1, ulOk_of lv ul h.2⟩

mutual
theorem write4_lineOk : ∀ (t : T4), t.ok = true → (∀ s ∈ write4 t, LineOk s) ∧ write4 t ≠ []
  | .para ls, h => by
    have := paraOk_of ls (by simpa [T4.ok, T.ok] using h)
    exact ⟨this.line, this.ne⟩
  | .heading lv t line, h => by
    have := headOk_of lv t line (by simpa [T4.ok, T.ok] using h)
    simp only [write4, List.mem_singleton]
    exact ⟨fun s hs => by rw [hs]; exact this.line, by simp⟩
  | .hr line, h => by
    have := hrOk_of line (by simpa [T4.ok, T.ok] using h)
    simp only [write4, List.mem_singleton]
    exact ⟨fun s hs => by rw [hs]; exact this.2, by simp⟩
  | .quote bare kids, h => by
    obtain ⟨hne, hk, _⟩ := quoteOk4_of bare kids h
    have ih := writes4_lineOk kids hk
    simp only [write4, List.mem_map]
    constructor
    · rintro s ⟨s0, hs0, rfl⟩
      cases bare
      · exact lineOk_qsp (ih.1 s0 hs0)
      · exact lineOk_qbare (ih.1 s0 hs0)
    · simpa using ih.2 hne
  | .list o n mk pad loose items, h => by
    have hl := listOk_of o n mk pad loose items h
    refine ⟨writeItems4_lineOk o mk pad loose n items hl.its, ?_⟩
    simp only [write4]
    cases items with
    | nil => exact absurd rfl hl.ne
    | cons it rest => exact writeItems4_ne o mk pad loose n it rest (okItems_cons o mk pad n it rest hl.its).2.2.2.1
  | .fence ind d info body close, h => by
    have hf := fenceFacts_of ind d info body close (by simpa [T4.ok] using h)
    simp only [write4]
    refine ⟨?_, by simp⟩
    intro s hs
    rcases List.mem_cons.mp hs with rfl | hs
    · exact hf.openOk
    · rcases List.mem_append.mp hs with hs | hs
      · exact (hf.body s hs).1
      · simp only [List.mem_singleton] at hs; rw [hs]; exact hf.closeOk
  | .setext lv ls ul, h => by
    obtain ⟨hp, hu⟩ := setextOk_of lv ls ul h
    simp only [write4]
    refine ⟨?_, by simp⟩
    intro s hs
    rcases List.mem_append.mp hs with hs | hs
    · exact hp.line s hs
    · simp only [List.mem_singleton] at hs; rw [hs]; exact hu.line
  | .leaf l, h => leaf_lineOk l (by simpa [T4.ok] using h)
theorem writes4_lineOk : ∀ (ts : List T4), T4.oks ts = true → (∀ s ∈ writes4 ts, LineOk s) ∧ (ts ≠ [] → writes4 ts ≠ [])
  | [], _ => by simp [writes4]
  | t :: rest, h => by
    obtain ⟨h1, h2, _⟩ := oks4_cons t rest h
    have iht := write4_lineOk t h1
    have ihr := writes4_lineOk rest h2
    cases rest with
    | nil => simpa [writes4] using iht
    | cons t' r =>
      rw [writes4_cons2]
      constructor
      · intro s hs
        rcases List.mem_append.mp hs with hs | hs
        · exact iht.1 s hs
        · rcases List.mem_cons.mp hs with rfl | hs
          · exact lineOk_nl
          · exact ihr.1 s hs
      · intro _; simp
theorem writeItems4_lineOk (o : Bool) (mk : Char) (pad : Nat) (loose : Bool) : ∀ (n : Nat) (items : List (List T4)),
    T4.okItems o mk pad n items = true → ∀ s ∈ writeItems4 o mk pad loose n items, LineOk s
  | _, [], _ => by simp [writeItems4]
  | n, it :: rest, h => by
    obtain ⟨_, hit, hlead, _, _, hrest⟩ := okItems_cons o mk pad n it rest h
    have h1 := indentDoc_lineOk o _ hlead pad _ (writes4_lineOk it hit).1
    have h2 := writeItems4_lineOk o mk pad loose (n + 1) rest hrest
    cases rest with
    | nil => rw [writeItems4_single]; exact h1
    | cons it' r =>
      rw [writeItems4_cons2]
      intro s hs
      rcases List.mem_append.mp hs with hs | hs
      · exact h1 s hs
      · rcases List.mem_append.mp hs with hs | hs
        · cases loose with
          | false => simp [sepS] at hs
          | true => simp only [sepS, if_true, List.mem_singleton] at hs; rw [hs]; exact lineOk_nl
        · exact h2 s hs
end


/-! ### The claims -/

theorem sxOk_head {t : T4} {rest : List T4} {st : St} (h : SxOk (hasSxs (t :: rest)) st) : SxOk (hasSx t) st := by
  intro hb; exact h (by simp [hasSxs, hb])
theorem sxOk_tail {t : T4} {rest : List T4} {st : St} (h : SxOk (hasSxs (t :: rest)) st) : SxOk (hasSxs rest) st := by
  intro hb; exact h (by simp [hasSxs, hb])
theorem sxOk_ihead {it : List T4} {rest : List (List T4)} {st : St} (h : SxOk (hasSxItems (it :: rest)) st) : SxOk (hasSxs it) st := by
  intro hb; exact h (by simp [hasSxItems, hb])
theorem sxOk_itail {it : List T4} {rest : List (List T4)} {st : St} (h : SxOk (hasSxItems (it :: rest)) st) :
    SxOk (hasSxItems rest) st := by
  intro hb; exact h (by simp [hasSxItems, hb])

/-- one node that is not a list, alone in its buffer -/
def NodeClaim (ti : Bool) (t : T4) : Prop := ∀ (k : Nat) (st : St) (gas : Nat), need4 t ≤ gas → SxOk (hasSx t) st →
  tokenizeBlock (dcfg ti) gas (numbered k (write4 t)) (k + 1) st =
    .ok ({ entries := [entry4 (k + 1) t], loose := false }, after st (touch4 t))

/-- siblings in a buffer of their own, with or without a final "\n" line (the buffer of an item that is not the last
    one of a loose list ends in one) -/
def NodesClaim (ti : Bool) (ts : List T4) : Prop := ∀ (tail : Bool) (k : Nat) (st : St) (gas : Nat), needs4 ts ≤ gas →
  SxOk (hasSxs ts) st →
  tokenizeBlock (dcfg ti) gas (numbered k (writes4 ts ++ sepS tail)) (k + 1) st =
    .ok ({ entries := entries4 (k + 1) ts, loose := decide (1 < ts.length) || tail }, after st (touches4 ts))

def firstLine4 (items : List (List T4)) : Str :=
  match items with
  | it :: _ => (writes4 it).headD []
  | [] => []

/-- `List.read` entered on the first item (no leader, no marker yet), or re-entered on a later item (the first item's
    marker as leader, the marker of this item handed on by the previous `ListItem.read`) -/
def LdNm (o : Bool) (mk : Char) (pad n : Nat) (items : List (List T4)) (ld : Option Str) (nm : Option (Nat × Nat × Str × Str)) : Prop :=
  (ld = none ∧ nm = none) ∨
  (∃ n0, ld = some (leaderOf o n0 mk) ∧ leaderOk o (leaderOf o n0 mk) = true ∧
    nm = some (0, (leaderOf o n mk).length + pad, leaderOf o n mk, firstLine4 items))

/-- `List.read` over the written items, anywhere in a buffer: `pre` before them, `post` behind them -/
def ItemsClaim (ti : Bool) (o : Bool) (mk : Char) (pad : Nat) (loose : Bool) (n : Nat) (items : List (List T4)) : Prop :=
  ∀ (pre post : List Line) (start k : Nat) (st : St) (gas : Nat) (acc : List Item) ld nm,
    start + pre.length = k + 1 → needItems4 items ≤ gas → PostOk post → LdNm o mk pad n items ld nm →
    SxOk (hasSxItems items) st →
    readList (dcfg ti) gas ⟨pre ++ numbered k (writeItems4 o mk pad loose n items) ++ post, pre.length, start⟩ st ld nm acc =
      .ok (acc.reverse ++ items4 o mk pad loose n (k + 1) items,
           ⟨pre ++ numbered k (writeItems4 o mk pad loose n items) ++ post,
            pre.length + (writeItems4 o mk pad loose n items).length, start⟩,
           after st (touchItems4 items))
mutual
theorem entry4_shift (j : Nat) : ∀ (n : Nat) (t : T4), shiftEntry j (entry4 n t) = entry4 (n + j) t
  | n, .para ls => by simp [entry4, shiftEntry]
  | n, .heading lv t line => by simp [entry4, shiftEntry]
  | n, .hr line => by simp [entry4, shiftEntry]
  | n, .quote _ kids => by simp [entry4, shiftEntry, entries4_shift j n kids]
  | n, .list o s mk pad loose items => by simp [entry4, shiftEntry, items4_shift j o mk pad loose s n items]
  | n, .fence ind d info body close => by simp [entry4, shiftEntry]
  | n, .setext lv ls ul => by simp [entry4, shiftEntry]
  | n, .leaf l => by simp [entry4, leaf_entry_shift]
theorem entries4_shift (j : Nat) : ∀ (n : Nat) (ts : List T4), shiftEntries j (entries4 n ts) = entries4 (n + j) ts
  | n, [] => by simp [entries4, shiftEntries]
  | n, t :: rest => by
    simp only [entries4, shiftEntries, entry4_shift j n t, entries4_shift j _ rest]
    congr 2; omega
theorem items4_shift (j : Nat) (o : Bool) (mk : Char) (pad : Nat) (loose : Bool) : ∀ (s n : Nat) (items : List (List T4)),
    shiftItems j (items4 o mk pad loose s n items) = items4 o mk pad loose s (n + j) items
  | s, n, [] => by simp [items4, shiftItems]
  | s, n, it :: rest => by
    simp only [items4, shiftItems, shiftItem, entries4_shift j n it, items4_shift j o mk pad loose _ _ rest]
    congr 2; omega
end

theorem entries4_length (n : Nat) : ∀ (ts : List T4), (entries4 n ts).length = ts.length := by
  intro ts
  induction ts generalizing n with
  | nil => rfl
  | cons t rest ih => simp [entries4, ih]

theorem closed_entry4 (n : Nat) : ∀ (t : T4), isOpen4 t = false → closedE (entry4 n t) = true
  | .para _, _ => rfl
  | .heading _ _ _, _ => rfl
  | .hr _, _ => rfl
  | .quote _ _, _ => rfl
  | .list .., h => by simp [isOpen4] at h
  | .fence .., h => by simp [isOpen4] at h
  | .setext .., _ => rfl
  | .leaf (.table ..), _ => rfl
  | .leaf (.icode _), h => by simp [isOpen4, Leaf.isCode] at h

theorem writeItems4_head (o : Bool) (mk : Char) (pad : Nat) (loose : Bool) (n : Nat) (it : List T4) (rest : List (List T4))
    (c0 : Str) (cs : List Str) (h : writes4 it = c0 :: cs) :
    ∃ tl, writeItems4 o mk pad loose n (it :: rest) = (leaderOf o n mk ++ List.replicate pad ' ' ++ c0) :: tl := by
  cases rest with
  | nil => rw [writeItems4_single, h]; exact ⟨_, rfl⟩
  | cons a b => rw [writeItems4_cons2, h]; exact ⟨_, rfl⟩

theorem otherMarker_of_ldnm (o : Bool) (mk : Char) (pad n : Nat) (items : List (List T4)) (ld nm)
    (h : LdNm o mk pad n items ld nm) (hok : leaderOk o (leaderOf o n mk) = true) : otherMarkerType ld nm = false := by
  rcases h with ⟨rfl, _⟩ | ⟨n0, rfl, h0, rfl⟩
  · exact otherMarkerType_none_left _
  · simp only [otherMarkerType, Bool.not_eq_eq_eq_not, Bool.not_false]
    cases o with
    | false => simp [leaderOf, sameMarkerType]
    | true =>
      obtain ⟨d, e, hd, _, h1, _, hdig⟩ := leaderOk_ordered _ h0
      obtain ⟨d', e', hd', _, h1', _, hdig'⟩ := leaderOk_ordered _ hok
      simp only [leaderOf, if_true] at hd hd' ⊢
      have e1 : natDigits n0 = d ∧ mk = e := by
        have := List.append_inj' hd (by simp)
        exact ⟨this.1, by simpa using this.2⟩
      have e2 : natDigits n = d' ∧ mk = e' := by
        have := List.append_inj' hd' (by simp)
        exact ⟨this.1, by simpa using this.2⟩
      have hl : ((natDigits n0 ++ [mk]).length == 1) = false := by
        rw [e1.1]; simp only [List.length_append, List.length_singleton, beq_eq_false_iff_ne, ne_eq]; omega
      simp only [sameMarkerType, hl, Bool.false_eq_true, if_false, List.dropLast_concat, List.getLast?_concat,
        Bool.and_eq_true, List.all_eq_true, Bool.not_eq_eq_eq_not, Bool.not_true, List.isEmpty_eq_false_iff, beq_self_eq_true, and_true]
      rw [e1.1, e2.1]
      refine ⟨⟨⟨?_, ?_⟩, ?_⟩, ?_⟩
      · intro x hx; exact (asciiDigit_facts x (hdig x hx)).1
      · intro x hx; exact (asciiDigit_facts x (hdig' x hx)).1
      · intro e; subst e; simp at h1
      · intro e; subst e; simp at h1'


/-! ### `List.read` over the written items -/

theorem needItems4_cons (it : List T4) (rest : List (List T4)) : needItems4 (it :: rest) = needs4 it + needItems4 rest + 1 := by
  simp [needItems4]

/-- the last item -/
theorem items_last (ti : Bool) (o : Bool) (mk : Char) (pad : Nat) (loose : Bool) (n : Nat) (it : List T4)
    (h1 : 1 ≤ pad) (h4 : pad ≤ 4) (hok : T4.okItems o mk pad n [it] = true) (hN : NodesClaim ti it) :
    ItemsClaim ti o mk pad loose n [it] := by
  intro pre post start k st gas acc ld nm hk hg hpost hln hsx
  obtain ⟨_, _, hlead, hdoc, _, _⟩ := okItems_cons o mk pad n it [] hok
  have hm := listLeader_of o _ hlead
  obtain ⟨c0, cs, hw⟩ : ∃ c0 cs, writes4 it = c0 :: cs := by
    cases hw : writes4 it with
    | nil => rw [hw] at hdoc; simp [itemDocOk] at hdoc
    | cons c0 cs => exact ⟨c0, cs, rfl⟩
  rw [hw] at hdoc
  obtain ⟨g, rfl⟩ : ∃ g, gas = g + 1 := ⟨gas - 1, by rw [needItems4_cons] at hg; omega⟩
  have hg' : needs4 it ≤ g := by rw [needItems4_cons] at hg; omega
  have hprev : nm = none ∨ nm = some (0, (leaderOf o n mk).length + pad, leaderOf o n mk, c0) := by
    rcases hln with ⟨_, h⟩ | ⟨_, _, _, h⟩
    · exact Or.inl h
    · right; rw [h]; simp [firstLine4, hw]
  have hil := item_lines_last (dcfg ti) _ hm pad h1 h4 c0 cs hdoc pre post start k hk hpost nm hprev
  have htok := hN false k st g hg' (sxOk_ihead hsx)
  simp only [sepS, Bool.false_eq_true, if_false, List.append_nil, hw] at htok
  have hom := otherMarker_of_ldnm o mk pad n [it] ld nm hln hlead
  rw [writeItems4_single, hw]
  rw [readList_step_stop (dcfg ti) g _ st ld nm acc _ _ _ _ _ _ _ _ _ _ hom hil htok]
  simp only [items4, entries4_length, List.isEmpty_nil, Bool.not_true, Bool.and_false, Bool.false_or, Bool.or_false,
    touchItems4, gt_iff_lt, Bool.and_self, List.length_cons, indentDoc, List.length_map]

/-- an item and the items behind it -/
theorem items_cons (ti : Bool) (o : Bool) (mk : Char) (pad : Nat) (loose : Bool) (n : Nat) (it it' : List T4) (r : List (List T4))
    (h1 : 1 ≤ pad) (h4 : pad ≤ 4) (hok : T4.okItems o mk pad n (it :: it' :: r) = true) (hN : NodesClaim ti it)
    (hR : ItemsClaim ti o mk pad loose (n + 1) (it' :: r)) :
    ItemsClaim ti o mk pad loose n (it :: it' :: r) := by
  intro pre post start k st gas acc ld nm hk hg hpost hln hsx
  obtain ⟨_, _, hlead, hdoc, _, hok'⟩ := okItems_cons o mk pad n it (it' :: r) hok
  obtain ⟨_, _, hlead', hdoc', htb', _⟩ := okItems_cons o mk pad (n + 1) it' r hok'
  have hm := listLeader_of o _ hlead
  have hm' := listLeader_of o _ hlead'
  obtain ⟨c0, cs, hw⟩ : ∃ c0 cs, writes4 it = c0 :: cs := by
    cases hw : writes4 it with
    | nil => rw [hw] at hdoc; simp [itemDocOk] at hdoc
    | cons c0 cs => exact ⟨c0, cs, rfl⟩
  obtain ⟨c0', cs', hw'⟩ : ∃ c0 cs, writes4 it' = c0 :: cs := by
    cases hw : writes4 it' with
    | nil => rw [hw] at hdoc'; simp [itemDocOk] at hdoc'
    | cons c0 cs => exact ⟨c0, cs, rfl⟩
  rw [hw] at hdoc
  rw [hw'] at hdoc' htb'
  simp only [List.headD_cons] at htb'
  obtain ⟨⟨ch', r0', rfl, hch'⟩, _, _⟩ := itemDoc_facts c0' cs' hdoc'
  obtain ⟨g, rfl⟩ : ∃ g, gas = g + 1 := ⟨gas - 1, by rw [needItems4_cons] at hg; omega⟩
  have hg1 : needs4 it ≤ g := by rw [needItems4_cons] at hg; omega
  have hg2 : needItems4 (it' :: r) ≤ g := by rw [needItems4_cons] at hg; omega
  have hprev : nm = none ∨ nm = some (0, (leaderOf o n mk).length + pad, leaderOf o n mk, c0) := by
    rcases hln with ⟨_, h⟩ | ⟨_, _, _, h⟩
    · exact Or.inl h
    · right; rw [h]; simp [firstLine4, hw]
  -- the lines of the list, split behind the first item
  obtain ⟨tl, htl⟩ := writeItems4_head o mk pad loose (n + 1) it' r (ch' :: r0') cs' hw'
  let k2 := k + (cs.length + 1 + (sepS loose).length)
  have hlen : (indentDoc (leaderOf o n mk) pad (c0 :: cs) ++ sepS loose).length = cs.length + 1 + (sepS loose).length := by
    simp [indentDoc]; omega
  have hsplit : numbered k (writeItems4 o mk pad loose n (it :: it' :: r)) =
      numbered k (indentDoc (leaderOf o n mk) pad (c0 :: cs) ++ sepS loose) ++
        numbered k2 (writeItems4 o mk pad loose (n + 1) (it' :: r)) := by
    rw [writeItems4_cons2, hw, ← List.append_assoc, numbered_append, hlen]
  -- the marker line of the next item
  obtain ⟨c, m'', hmc, hc⟩ := hm'.lead
  let l' : Line := { s := leaderOf o (n + 1) mk ++ List.replicate pad ' ' ++ ch' :: r0', origin := k2 + 1 }
  have hl's : l'.s = c :: (m'' ++ List.replicate pad ' ' ++ ch' :: r0') := by
    show leaderOf o (n + 1) mk ++ List.replicate pad ' ' ++ ch' :: r0' = _
    rw [hmc]; simp
  have hnext : numbered k2 (writeItems4 o mk pad loose (n + 1) (it' :: r)) = l' :: numbered (k2 + 1) tl := by
    rw [htl, numbered_cons]
  have hnc : parseContinuation l'.s ((leaderOf o n mk).length + pad) = none := by
    rw [hl's]
    exact parseContinuation_lead c _ _ (by omega) hc.n_sp hc.n_tab (by rintro rfl; exact absurd hc.nsp (by decide))
  have hpm' : parseMarker l'.s = some (0, (leaderOf o (n + 1) mk).length + pad, leaderOf o (n + 1) mk, ch' :: r0') :=
    parseMarker_first _ hm' pad h1 h4 ch' r0' hch'
  have hne : NoEarly l'.s := by
    rw [hl's]
    refine lead_noEarly hc _ ?_
    rw [← hl's]
    exact htb'
  have hil := item_lines_next (dcfg ti) _ hm pad h1 h4 c0 cs hdoc loose pre (numbered (k2 + 1) tl ++ post) l' start k hk _ hnc hpm' hne nm hprev
  have htok := hN loose k st g hg1 (sxOk_ihead hsx)
  rw [hw] at htok
  have hom := otherMarker_of_ldnm o mk pad n (it :: it' :: r) ld nm hln hlead
  have hbuf : pre ++ numbered k (writeItems4 o mk pad loose n (it :: it' :: r)) ++ post =
      pre ++ numbered k (indentDoc (leaderOf o n mk) pad (c0 :: cs) ++ sepS loose) ++ l' :: (numbered (k2 + 1) tl ++ post) := by
    rw [hsplit, hnext]; simp
  rw [hbuf, readList_step_next (dcfg ti) g _ st ld nm acc _ _ _ _ _ _ _ _ _ _ _ hom hil htok]
  -- the items behind
  have hbuf2 : pre ++ numbered k (indentDoc (leaderOf o n mk) pad (c0 :: cs) ++ sepS loose) ++ l' :: (numbered (k2 + 1) tl ++ post) =
      (pre ++ numbered k (indentDoc (leaderOf o n mk) pad (c0 :: cs) ++ sepS loose)) ++
        numbered k2 (writeItems4 o mk pad loose (n + 1) (it' :: r)) ++ post := by
    rw [hnext]; simp
  have hpos : pre.length + (cs.length + 1 + (sepS loose).length) =
      (pre ++ numbered k (indentDoc (leaderOf o n mk) pad (c0 :: cs) ++ sepS loose)).length := by
    rw [List.length_append, numbered_length, hlen]
  have hln' : LdNm o mk pad (n + 1) (it' :: r) (some (ld.getD (leaderOf o n mk)))
      (some (0, (leaderOf o (n + 1) mk).length + pad, leaderOf o (n + 1) mk, ch' :: r0')) := by
    right
    rcases hln with ⟨rfl, _⟩ | ⟨n0, rfl, h0, _⟩
    · exact ⟨n, rfl, hlead, by simp [firstLine4, hw']⟩
    · exact ⟨n0, rfl, h0, by simp [firstLine4, hw']⟩
  rw [hbuf2, hpos]
  rw [hR _ post start k2 _ g _ _ _ (by rw [← hpos]; omega) hg2 hpost hln' (sxOk_after (sxOk_itail hsx) _)]
  simp only [items4, hw, List.length_cons, touchItems4, after_after, List.isEmpty_cons, Bool.not_false, Bool.and_true,
    List.reverse_cons, List.append_assoc, List.singleton_append, List.length_append, numbered_length, hlen]
  have e1 : k2 + 1 = k + 1 + (cs.length + 1) + (sepS loose).length := by show k + _ + 1 = _; omega
  have e2 : (writeItems4 o mk pad loose n (it :: it' :: r)).length =
      cs.length + 1 + (sepS loose).length + (writeItems4 o mk pad loose (n + 1) (it' :: r)).length := by
    rw [writeItems4_cons2, hw, ← List.append_assoc, List.length_append, hlen]
  rw [e1, e2, Bool.or_comm (decide (1 < it.length)) loose]
  simp only [← Nat.add_assoc, hnext, List.cons_append]


/-! ### Nodes that are not lists -/

theorem needs4_cons (t : T4) (rest : List T4) : needs4 (t :: rest) = need4 t + needs4 rest + 14 := by simp [needs4]

theorem node_para (ti : Bool) (ls : List Str) (h : (T4.para ls).ok = true) : NodeClaim ti (.para ls) := by
  intro k st gas hg _
  have hp := paraOk_of ls (by simpa [T4.ok, T.ok] using h)
  obtain ⟨l0, tl, hl, ho⟩ := numbered_ne k ls hp.ne
  have hs : (l0 :: tl).map (·.s) = ls := by rw [← hl]; exact numbered_s k ls
  obtain ⟨g, rfl⟩ : ∃ g, gas = g + 14 := ⟨gas - 14, by simp only [need4] at hg; omega⟩
  have := Props.C14.C14_single_paragraph_default ti l0 tl
    (fun l hm => hp.inert _ (numbered_mem k ls l (by rw [hl]; exact hm))) (k + 1) st g
  simp only [write4, touch4, after_false, entry4, hl]
  rw [hs, ho] at this
  exact this

theorem node_heading (ti : Bool) (lv : Nat) (t line : Str) (h : (T4.heading lv t line).ok = true) : NodeClaim ti (.heading lv t line) := by
  intro k st gas hg _
  have hh := headOk_of lv t line (by simpa [T4.ok, T.ok] using h)
  obtain ⟨g, rfl⟩ : ∃ g, gas = g + 6 := ⟨gas - 6, by simp only [need4] at hg; omega⟩
  have := tokenize_heading ti lv t line hh.head (k + 1) (k + 1) st g
  simp only [write4, touch4, after_false, entry4, numbered_cons, show numbered (k + 1) [] = [] from rfl]
  exact this

theorem node_hr (ti : Bool) (line : Str) (h : (T4.hr line).ok = true) : NodeClaim ti (.hr line) := by
  intro k st gas hg _
  have hh := hrOk_of line (by simpa [T4.ok, T.ok] using h)
  obtain ⟨g, rfl⟩ : ∃ g, gas = g + 9 := ⟨gas - 9, by simp only [need4] at hg; omega⟩
  have := tokenize_hr ti line hh.1 (k + 1) (k + 1) st g
  simp only [write4, touch4, after_false, entry4, numbered_cons, show numbered (k + 1) [] = [] from rfl]
  exact this

theorem node_quote (ti : Bool) (bare : Bool) (kids : List T4) (h : (T4.quote bare kids).ok = true) (hN : NodesClaim ti kids) :
    NodeClaim ti (.quote bare kids) := by
  intro k st gas hg _
  obtain ⟨hne, hk, hbare, hsxk⟩ := quoteOk4_of bare kids h
  obtain ⟨g, rfl⟩ : ∃ g, gas = g + 6 := ⟨gas - 6, by simp only [need4] at hg; omega⟩
  have hg' : needs4 kids ≤ g := by simp only [need4] at hg; omega
  have ih := hN false k { st with setext := false } g hg' (by rw [hsxk]; exact sxOk_false _)
  simp only [sepS, Bool.false_eq_true, if_false, List.append_nil, Bool.or_false] at ih
  have hw := writes4_lineOk kids hk
  obtain ⟨l0, tl, hl, ho⟩ := numbered_ne k (writes4 kids) (hw.2 hne)
  rw [hl] at ih
  simp only [write4, touch4, entry4]
  have hmem : ∀ l ∈ l0 :: tl, l.s ∈ writes4 kids := fun l hm => numbered_mem k _ l (by rw [hl]; exact hm)
  cases bare with
  | false =>
    have := Props.C04.C04_quote_wraps_default ti l0 tl
      (fun l hm => lineOk_notab (hw.1 _ (hmem l hm))) (k + 1) st _ g _ ih
    have e1 : numbered k ((writes4 kids).map qsp) = (l0 :: tl).map quoteSp := by
      rw [← hl]; exact Props.C04.numbered_map_sp k (writes4 kids)
    simp only [Bool.false_eq_true, if_false]
    rw [e1]
    refine Eq.trans this ?_
    rw [ho]
    simp [after]
  | true =>
    have := Props.C04.C04_quote_wraps_bare (dcfg ti) [.htmlBlock, .blockCode, .heading]
      [.codeFence, .thematicBreak, .list, .table, .footnote, .paragraph] rfl (by decide) (by decide) l0 tl
      (fun l hm => ⟨lineOk_notab (hw.1 _ (hmem l hm)), by
        have hne' := lineOk_ne (hw.1 _ (hmem l hm))
        have hsp := hbare rfl _ (hmem l hm)
        cases hs : l.s with
        | nil => exact absurd hs hne'
        | cons c r =>
          refine ⟨c, r, rfl, ?_⟩
          intro e; rw [hs, e] at hsp; exact hsp rfl⟩)
      (k + 1) st _ g _ ih
    have e1 : numbered k ((writes4 kids).map qbare) = (l0 :: tl).map quoteBare := by
      rw [← hl]; exact Props.C04.numbered_map_bare k (writes4 kids)
    simp only [if_true]
    rw [e1]
    refine Eq.trans this ?_
    rw [ho]
    simp [after]

theorem node_setext (ti : Bool) (lv : Nat) (ls : List Str) (ul : Str) (h : (T4.setext lv ls ul).ok = true) :
    NodeClaim ti (.setext lv ls ul) := by
  intro k st gas hg hsx
  obtain ⟨hp, hu⟩ := setextOk_of lv ls ul h
  obtain ⟨l0, tl, hl, ho⟩ := numbered_ne k ls hp.ne
  have hs : (l0 :: tl).map (·.s) = ls := by rw [← hl]; exact numbered_s k ls
  obtain ⟨g, rfl⟩ : ∃ g, gas = g + 14 := ⟨gas - 14, by simp only [need4] at hg; omega⟩
  have := tokenize_setext ti lv l0 tl { s := ul, origin := k + ls.length + 1 }
    (fun l hm => Props.C14.inertLine_quiet _ (hp.inert _ (numbered_mem k ls l (by rw [hl]; exact hm)))) hu (k + 1) st (hsx rfl) g
  simp only [write4, touch4, after_false, entry4, numbered_append, hl, numbered_cons, show numbered (k + ls.length + 1) [] = [] from rfl]
  rw [hs, ho] at this
  exact this

theorem node_table (ti : Bool) (hd : Row) (dl : DRow) (rows : List Row) (h : (T4.leaf (.table hd dl rows)).ok = true) :
    NodeClaim ti (.leaf (.table hd dl rows)) := by
  intro k st gas hg _
  have := tokenize_leaf_table ti hd dl rows (by simpa [T4.ok] using h) k st gas (by simp only [need4] at hg; omega)
  simp only [write4, touch4, after_false, entry4]
  exact this

theorem lines_ok_tail (ts : List T4) (h : T4.oks ts = true) (tail : Bool) : ∀ s ∈ writes4 ts ++ sepS tail, LineOk s := by
  intro s hs
  rcases List.mem_append.mp hs with hs | hs
  · exact (writes4_lineOk ts h).1 s hs
  · cases tail with
    | false => simp [sepS] at hs
    | true => simp only [sepS, if_true, List.mem_singleton] at hs; rw [hs]; exact lineOk_nl
/-- a node that is not a list, alone or before a final "\n" line -/
theorem nodes_single_closed (ti : Bool) (t : T4) (hok : t.ok = true) (hnl : isOpen4 t = false) (hT : NodeClaim ti t) :
    NodesClaim ti [t] := by
  intro tail k st gas hg hsx
  rw [needs4_cons] at hg
  cases tail with
  | false =>
    have := hT k st gas (by omega) (sxOk_head hsx)
    simpa [sepS, writes4_single, entries4, touches4] using this
  | true =>
    have hA := hT k st (need4 t) (Nat.le_refl _) (sxOk_head hsx)
    have hw := write4_lineOk t hok
    obtain ⟨g', hg', heq⟩ := tokenizeBlock_prefix_lists (dcfg ti) (dcfg_noBlank ti) (numbered k (write4 t))
      { s := ['\n'], origin := k + (write4 t).length + 1 } rfl [] (k + 1) st (need4 t) _ _ hA
      (by intro e he; simp only [List.getLast?_singleton, Option.some.injEq] at he; subst he; exact closed_entry4 _ t hnl)
      (numbered_allNlEnd k _ hw.1) 11 (by rw [dcfg_len]; omega)
    obtain ⟨g'', rfl⟩ : ∃ g'', g' = g'' + 1 := ⟨g' - 1, by omega⟩
    have hend : FW.peek ⟨numbered k (write4 t) ++ [{ s := ['\n'], origin := k + (write4 t).length + 1 }],
        (numbered k (write4 t)).length + 1, k + 1⟩ = none := by
      have := peek_end (numbered k (write4 t) ++ [{ s := ['\n'], origin := k + (write4 t).length + 1 }]) (k + 1)
      simpa using this
    simp only [tokLoop, hend] at heq
    have hbuf : numbered k (writes4 [t] ++ sepS true) =
        numbered k (write4 t) ++ [{ s := ['\n'], origin := k + (write4 t).length + 1 }] := by
      rw [writes4_single, numbered_append]; rfl
    rw [hbuf]
    refine tokenizeBlock_mono (dcfg ti) _ _ _ _ (need4 t + 11) gas (by omega) ?_
    rw [heq]
    simp [entries4, touches4]


theorem buf_cons2 (t t' : T4) (r : List T4) (tail : Bool) (k : Nat) :
    numbered k (writes4 (t :: t' :: r) ++ sepS tail) =
      numbered k (write4 t) ++ { s := ['\n'], origin := k + (write4 t).length + 1 } ::
        (numbered k (writes4 (t' :: r) ++ sepS tail)).map (Line.sh ((numbered k (write4 t)).length + 1)) := by
  rw [writes4_cons2, List.append_assoc, numbered_append, List.cons_append, numbered_cons, numbered_length, ← numbered_sh]
  have : k + (write4 t).length + 1 = k + ((write4 t).length + 1) := by omega
  rw [this]

/-- a node that is not a list, a "\n" line, further siblings: C05 -/
theorem nodes_cons_closed (ti : Bool) (t t' : T4) (r : List T4) (hok : T4.oks (t :: t' :: r) = true) (hnl : isOpen4 t = false)
    (hT : NodeClaim ti t) (hR : NodesClaim ti (t' :: r)) : NodesClaim ti (t :: t' :: r) := by
  intro tail k st gas hg hsx
  rw [needs4_cons] at hg
  obtain ⟨h1, h2, _⟩ := oks4_cons t (t' :: r) hok
  have hA := hT k st (need4 t) (Nat.le_refl _) (sxOk_head hsx)
  have hB := hR tail k (after st (touch4 t)) (gas - need4 t - 11) (by omega) (sxOk_after (sxOk_tail hsx) _)
  have hwt := write4_lineOk t h1
  have key := tokenizeBlock_concat_lists (dcfg ti) (dcfg_noBlank ti) (numbered k (write4 t))
    (numbered k (writes4 (t' :: r) ++ sepS tail)) { s := ['\n'], origin := k + (write4 t).length + 1 } rfl (k + 1) st
    (need4 t) (gas - need4 t - 11) _ _ _ _ hA
    (by intro e he; simp only [List.getLast?_singleton, Option.some.injEq] at he; subst he; exact closed_entry4 _ t hnl)
    hB (numbered_allNlEnd k _ hwt.1) (numbered_allNlEnd k _ (lines_ok_tail _ h2 tail))
  have hgas : gas = need4 t + (gas - need4 t - 11 + (dcfg ti).types.length + 1) := by rw [dcfg_len]; omega
  rw [buf_cons2, hgas, key, numbered_length, entries4_shift]
  have e4 : k + 1 + ((write4 t).length + 1) = k + 1 + (write4 t).length + 1 := by omega
  simp only [List.singleton_append, entries4, e4, List.length_cons, touches4, after_after]
  have hl : decide (1 < r.length + 1 + 1) = true := by simp
  rw [hl]
  simp


/-! ### Lists among the siblings -/

/-- the dispatch loop on the first line of a written list, `post` behind the list: one `List` entry, the cursor on the
    line behind the list -/
theorem list_then (ti : Bool) (o : Bool) (n : Nat) (mk : Char) (pad : Nat) (loose : Bool) (items : List (List T4))
    (hok : (T4.list o n mk pad loose items).ok = true) (hI : ItemsClaim ti o mk pad loose n items)
    (post : List Line) (hpost : PostOk post) (k : Nat) (st : St) (g : Nat) (hg : needItems4 items ≤ g)
    (hsx : SxOk (hasSxItems items) st) (acc : List Entry) (lo : Bool) :
    tokLoop (dcfg ti) (g + 8) ⟨numbered k (write4 (.list o n mk pad loose items)) ++ post, 0, k + 1⟩ st acc lo =
      tokLoop (dcfg ti) (g + 7)
        ⟨numbered k (write4 (.list o n mk pad loose items)) ++ post, (write4 (.list o n mk pad loose items)).length, k + 1⟩
        (after st (touch4 (.list o n mk pad loose items))) (entry4 (k + 1) (.list o n mk pad loose items) :: acc) lo := by
  have hl := listOk_of o n mk pad loose items hok
  cases items with
  | nil => exact absurd rfl hl.ne
  | cons it rest =>
    obtain ⟨_, _, hlead, hdoc, htb, _⟩ := okItems_cons o mk pad n it rest hl.its
    have hm := listLeader_of o _ hlead
    obtain ⟨c0, cs, hw⟩ : ∃ c0 cs, writes4 it = c0 :: cs := by
      cases hw : writes4 it with
      | nil => rw [hw] at hdoc; simp [itemDocOk] at hdoc
      | cons c0 cs => exact ⟨c0, cs, rfl⟩
    rw [hw] at htb
    simp only [List.headD_cons] at htb
    obtain ⟨tl, htl⟩ := writeItems4_head o mk pad loose n it rest c0 cs hw
    obtain ⟨c, m'', hmc, hc⟩ := hm.lead
    have hrl := hI [] post (k + 1) k st g [] none none (by simp) hg hpost (Or.inl ⟨rfl, rfl⟩) hsx
    simp only [List.nil_append, List.length_nil, Nat.zero_add, List.reverse_nil] at hrl
    simp only [write4, touch4, entry4]
    generalize hL : writeItems4 o mk pad loose n (it :: rest) = L at hrl htl ⊢
    subst htl
    rw [numbered_cons] at hrl ⊢
    have hls : ({ s := leaderOf o n mk ++ List.replicate pad ' ' ++ c0, origin := k + 1 } : Line).s =
        c :: (m'' ++ List.replicate pad ' ' ++ c0) := by
      show leaderOf o n mk ++ List.replicate pad ' ' ++ c0 = _
      rw [hmc]; simp
    have hp := peek_at [] { s := leaderOf o n mk ++ List.replicate pad ' ' ++ c0, origin := k + 1 } (numbered (k + 1) tl ++ post) (k + 1)
    simp only [List.nil_append, List.length_nil] at hp
    have hty := tryTypes_lead (dcfg ti)
      ⟨{ s := leaderOf o n mk ++ List.replicate pad ' ' ++ c0, origin := k + 1 } :: (numbered (k + 1) tl ++ post), 0, k + 1⟩ st
      _ c _ hls hc htb [.table, .footnote, .paragraph] g [.htmlBlock, .blockCode, .heading, .quote, .codeFence, .thematicBreak]
      (by decide) (by decide) (by decide)
    have hstart : listStart (leaderOf o n mk ++ List.replicate pad ' ' ++ c0) = true := listStart_first _ hm pad hl.p1 _
    have e : g + 8 = (g + 7) + 1 := by omega
    rw [e]
    generalize hG : g + 7 = G
    simp only [tokLoop, List.cons_append, hp]
    subst hG
    have hty' : (dcfg ti).types = [.htmlBlock, .blockCode, .heading, .quote, .codeFence, .thematicBreak] ++ .list :: [.table, .footnote, .paragraph] := rfl
    rw [hty']
    simp only [List.length_cons, List.length_nil, Nat.zero_add] at hty
    have e2 : g + 7 = g + 1 + (1 + 1 + 1 + 1 + 1 + 1) := by omega
    rw [e2, hty]
    simp only [tryTypes, hstart, if_true]
    simp only [List.cons_append] at hrl
    rw [hrl]


theorem need4_list (o : Bool) (n : Nat) (mk : Char) (pad : Nat) (loose : Bool) (items : List (List T4)) :
    need4 (.list o n mk pad loose items) = needItems4 items + 12 := by simp [need4]

/-- a node over which the dispatcher is followed directly: entered on the node's first line, it adds the node's entry and
    stands on the line behind the node's lines, whenever what follows the node (`post`) satisfies `P` -/
def ThenClaim (ti : Bool) (t : T4) (gn : Nat) (P : List Line → Prop) : Prop :=
  ∀ (post : List Line), P post → ∀ (k : Nat) (st : St) (g : Nat), gn ≤ g → SxOk (hasSx t) st → ∀ (acc : List Entry) (lo : Bool),
    tokLoop (dcfg ti) (g + 8) ⟨numbered k (write4 t) ++ post, 0, k + 1⟩ st acc lo =
      tokLoop (dcfg ti) (g + 7) ⟨numbered k (write4 t) ++ post, (write4 t).length, k + 1⟩
        (after st (touch4 t)) (entry4 (k + 1) t :: acc) lo

theorem list_thenClaim (ti : Bool) (o : Bool) (n : Nat) (mk : Char) (pad : Nat) (loose : Bool) (items : List (List T4))
    (hok : (T4.list o n mk pad loose items).ok = true) (hI : ItemsClaim ti o mk pad loose n items) :
    ThenClaim ti (.list o n mk pad loose items) (needItems4 items) PostOk :=
  fun post hpost k st g hg hsx acc lo => list_then ti o n mk pad loose items hok hI post hpost k st g hg hsx acc lo

/-- a fenced code block, whatever follows it -/
theorem fence_thenClaim (ti : Bool) (ind : Nat) (d info : Str) (body : List Str) (close : Str)
    (hok : (T4.fence ind d info body close).ok = true) :
    ThenClaim ti (.fence ind d info body close) 0 (fun _ => True) := by
  intro post _ k st g _ _ acc lo
  have hf := fenceFacts_of ind d info body close (by simpa [T4.ok] using hok)
  obtain ⟨c, hfo⟩ := hf.fo
  have e : numbered k (write4 (.fence ind d info body close)) =
      { s := sp ind ++ d ++ info ++ ['\n'], origin := k + 1 } ::
        (numbered (k + 1) body ++ [{ s := close, origin := k + 1 + body.length + 1 }]) := by
    simp only [write4, numbered_cons, numbered_append]
    rfl
  have h1 := tokLoop_fence_step ti g ind hf.indLt c d info hfo { s := sp ind ++ d ++ info ++ ['\n'], origin := k + 1 }
    { s := close, origin := k + 1 + body.length + 1 } rfl hf.closes (numbered (k + 1) body)
    (fun x hx => (hf.body _ (numbered_mem _ _ _ hx)).2) [] post (k + 1) st acc lo
  rw [e]
  simp only [touch4, after_false, entry4]
  have hm : (numbered (k + 1) body).map (fun x => dedent ind x.s) = body.map (dedent ind) :=
    MdRound.numbered_map_s (k + 1) body (dedent ind)
  simp only [hm, List.nil_append, List.length_nil, Nat.add_zero] at h1
  simp only [List.cons_append, List.append_assoc, write4, List.length_cons, List.length_append, List.length_nil,
    numbered_length] at h1 ⊢
  exact h1

/-- an indented code block, when what follows it is a `CodeStop` -/
theorem icode_thenClaim (ti : Bool) (ls : List Str) (hok : (T4.leaf (.icode ls)).ok = true) :
    ThenClaim ti (.leaf (.icode ls)) 0 CodeStop := by
  intro post hp k st g _ _ acc lo
  have := tokLoop_leaf_icode ti ls (by simpa [T4.ok] using hok) post hp k st g acc lo
  simp only [write4, Leaf.write, touch4, after_false, entry4]
  exact this

/-- such a node alone in its buffer, or before a final "\n" line -/
theorem nodes_single_then (ti : Bool) (t : T4) (gn : Nat) (P : List Line → Prop) (hneed : need4 t = gn + 12)
    (hT : ThenClaim ti t gn P) (hP0 : P []) (hP1 : ∀ nlL : Line, nlL.s = ['\n'] → P [nlL]) :
    NodesClaim ti [t] := by
  intro tail k st gas hg hsx
  rw [needs4_cons, hneed] at hg
  obtain ⟨g, rfl⟩ : ∃ g, gas = (g + 8) + 1 := ⟨gas - 9, by omega⟩
  have hgi : gn ≤ g := by simp only [needs4] at hg; omega
  rw [writes4_single, numbered_append]
  simp only [tokenizeBlock]
  cases tail with
  | false =>
    have := hT [] hP0 k st g hgi (sxOk_head hsx) [] false
    simp only [sepS, Bool.false_eq_true, if_false, show ∀ j, numbered j ([] : List Str) = [] from fun _ => rfl]
    rw [this]
    have hend := peek_end (numbered k (write4 t) ++ []) (k + 1)
    simp only [List.length_append, numbered_length, List.length_nil, Nat.add_zero] at hend
    have e : g + 7 = (g + 6) + 1 := by omega
    rw [e]
    simp only [tokLoop, hend]
    simp [entries4, touches4]
  | true =>
    have := hT _ (hP1 { s := ['\n'], origin := k + (write4 t).length + 1 } rfl) k st g hgi (sxOk_head hsx) [] false
    simp only [sepS, if_true, numbered_cons, show ∀ j, numbered j ([] : List Str) = [] from fun _ => rfl]
    rw [this]
    have hp := peek_at (numbered k (write4 t))
      { s := ['\n'], origin := k + (write4 t).length + 1 } [] (k + 1)
    rw [numbered_length] at hp
    have e : g + 7 = (g + 6) + 1 := by omega
    rw [e]
    generalize hG : g + 6 = G
    simp only [tokLoop, hp]
    rw [tryTypes_nl_none (dcfg ti) _ _ _ rfl _ G (dcfg_noBlank ti) (by rw [dcfg_len]; omega)]
    simp only
    obtain ⟨G', rfl⟩ : ∃ G', G = G' + 1 := ⟨G - 1, by omega⟩
    have hend := peek_end (numbered k (write4 t) ++
      [{ s := ['\n'], origin := k + (write4 t).length + 1 }]) (k + 1)
    simp only [List.length_append, numbered_length, List.length_singleton] at hend
    simp only [tokLoop, FW.next, hend]
    simp [entries4, touches4]

/-- such a node, a "\n" line, further siblings: the dispatcher goes on behind the "\n" line (`tokLoop_suffix_shift`) -/
theorem nodes_cons_then (ti : Bool) (t t' : T4) (r : List T4) (gn : Nat) (P : List Line → Prop) (hneed : need4 t = gn + 12)
    (h2 : T4.oks (t' :: r) = true) (hT : ThenClaim ti t gn P)
    (hP : ∀ (tail : Bool) (k : Nat), P ({ s := ['\n'], origin := k + (write4 t).length + 1 } ::
      (numbered k (writes4 (t' :: r) ++ sepS tail)).map (Line.sh ((numbered k (write4 t)).length + 1))))
    (hR : NodesClaim ti (t' :: r)) :
    NodesClaim ti (t :: t' :: r) := by
  intro tail k st gas hg hsx
  rw [needs4_cons, hneed] at hg
  obtain ⟨g, rfl⟩ : ∃ g, gas = (g + 8) + 1 := ⟨gas - 9, by omega⟩
  have hgi : gn ≤ g := by omega
  have hgr : needs4 (t' :: r) ≤ g + 7 := by omega
  have hlt := hT _ (hP tail k) k st g hgi (sxOk_head hsx) [] false
  rw [buf_cons2]
  simp only [tokenizeBlock]
  rw [hlt]
  have hp := peek_at (numbered k (write4 t)) { s := ['\n'], origin := k + (write4 t).length + 1 }
    ((numbered k (writes4 (t' :: r) ++ sepS tail)).map (Line.sh ((numbered k (write4 t)).length + 1))) (k + 1)
  have e : g + 7 = (g + 6) + 1 := by omega
  rw [e]
  generalize hG : g + 6 = G
  rw [numbered_length] at hp ⊢
  simp only [tokLoop, hp]
  rw [tryTypes_nl_none (dcfg ti) _ _ _ rfl _ G (dcfg_noBlank ti) (by rw [dcfg_len]; omega)]
  simp only
  -- behind the "\n" line: the siblings, in a buffer of their own
  have hB := hR tail k (after st (touch4 t)) (G + 1) (by omega) (sxOk_after (sxOk_tail hsx) _)
  have hnlB : AllNlEnd (numbered k (writes4 (t' :: r) ++ sepS tail)) := numbered_allNlEnd k _ (lines_ok_tail _ h2 tail)
  have hsh := tokLoop_suffix_shift (dcfg ti) G (numbered k (write4 t) ++ [{ s := ['\n'], origin := k + (write4 t).length + 1 }])
    (numbered k (writes4 (t' :: r) ++ sepS tail)) (k + 1) (after st (touch4 t)) [entry4 (k + 1) t] true hnlB
  simp only [List.length_append, numbered_length, List.length_singleton, List.append_assoc, List.singleton_append] at hsh
  simp only [FW.next]
  rw [hsh, hB]
  simp only [rmap_ok, shB, withAcc]
  rw [entries4_shift]
  have e4 : k + 1 + ((write4 t).length + 1) = k + 1 + (write4 t).length + 1 := by omega
  rw [e4]
  have hl : decide (1 < (t :: t' :: r).length) = true := by simp
  rw [hl]
  simp only [entries4, touches4, after_after, List.reverse_singleton, List.singleton_append, Bool.true_or]

/-- behind a list: the "\n" line and the first line of the next sibling make a `PostOk` -/
theorem list_post (t t' : T4) (r : List T4) (hl : isList4 t = true) (hok : T4.oks (t :: t' :: r) = true) (tail : Bool) (k : Nat) :
    PostOk ({ s := ['\n'], origin := k + (write4 t).length + 1 } ::
      (numbered k (writes4 (t' :: r) ++ sepS tail)).map (Line.sh ((numbered k (write4 t)).length + 1))) := by
  obtain ⟨_, h2, hsep⟩ := oks4_cons _ (t' :: r) hok
  have hsep' := hsep t' r rfl
  obtain ⟨h1', _, _⟩ := oks4_cons t' r h2
  have hw' := write4_lineOk t' h1'
  obtain ⟨s0, ss, hs0⟩ : ∃ s0 ss, write4 t' = s0 :: ss := by
    cases hh : write4 t' with
    | nil => exact absurd hh hw'.2
    | cons a b => exact ⟨a, b, rfl⟩
  have hstop : StopLine s0 := by
    simp only [sepOk4, hl, Bool.not_true, Bool.false_or, Bool.and_eq_true, hs0, List.headD_cons] at hsep'
    exact stopLine_of s0 hsep'.1.2 (hw'.1 s0 (by rw [hs0]; simp))
  have hhead : ∃ ss', writes4 (t' :: r) ++ sepS tail = s0 :: ss' := by
    cases r with
    | nil => rw [writes4_single, hs0]; exact ⟨_, rfl⟩
    | cons a b => rw [writes4_cons2, hs0]; exact ⟨_, rfl⟩
  obtain ⟨ss', hss'⟩ := hhead
  refine Or.inr ⟨_, _, rfl, rfl, ?_⟩
  intro s hs
  rw [hss', numbered_cons] at hs
  simp only [List.map_cons, List.head?_cons, Option.some.injEq] at hs
  subst hs
  exact hstop


/-! ### The induction over the tree -/

theorem nodes_step_closed (ti : Bool) (t : T4) (rest : List T4) (hok : T4.oks (t :: rest) = true) (hnl : isOpen4 t = false)
    (hT : NodeClaim ti t) (hR : rest ≠ [] → NodesClaim ti rest) : NodesClaim ti (t :: rest) := by
  cases rest with
  | nil => exact nodes_single_closed ti t (oks4_cons t [] hok).1 hnl hT
  | cons t' r => exact nodes_cons_closed ti t t' r hok hnl hT (hR (by simp))

theorem nodes_step_list (ti : Bool) (o : Bool) (n : Nat) (mk : Char) (pad : Nat) (loose : Bool) (items : List (List T4))
    (rest : List T4) (hok : T4.oks (.list o n mk pad loose items :: rest) = true)
    (hI : ItemsClaim ti o mk pad loose n items) (hR : rest ≠ [] → NodesClaim ti rest) :
    NodesClaim ti (.list o n mk pad loose items :: rest) := by
  have hT := list_thenClaim ti o n mk pad loose items (oks4_cons _ _ hok).1 hI
  cases rest with
  | nil =>
    exact nodes_single_then ti _ _ PostOk (need4_list ..) hT (Or.inl rfl) (fun nlL h => Or.inr ⟨nlL, [], rfl, h, by simp⟩)
  | cons t' r =>
    exact nodes_cons_then ti _ t' r _ PostOk (need4_list ..) (oks4_cons _ _ hok).2.1 hT
      (fun tail k => list_post _ t' r rfl hok tail k) (hR (by simp))

/-- behind an indented code block: the "\n" line and the first line of the next sibling make a `CodeStop` -/
theorem icode_post (t t' : T4) (r : List T4) (hc : isCode4 t = true) (hok : T4.oks (t :: t' :: r) = true) (tail : Bool) (k : Nat) :
    CodeStop ({ s := ['\n'], origin := k + (write4 t).length + 1 } ::
      (numbered k (writes4 (t' :: r) ++ sepS tail)).map (Line.sh ((numbered k (write4 t)).length + 1))) := by
  obtain ⟨_, h2, hsep⟩ := oks4_cons _ (t' :: r) hok
  have hsep' := hsep t' r rfl
  obtain ⟨h1', _, _⟩ := oks4_cons t' r h2
  have hw' := write4_lineOk t' h1'
  obtain ⟨s0, ss, hs0⟩ : ∃ s0 ss, write4 t' = s0 :: ss := by
    cases hh : write4 t' with
    | nil => exact absurd hh hw'.2
    | cons a b => exact ⟨a, b, rfl⟩
  simp only [sepOk4, hc, Bool.not_true, Bool.false_or, Bool.and_eq_true, hs0, List.headD_cons, Bool.not_eq_eq_eq_not] at hsep'
  have hhead : ∃ ss', writes4 (t' :: r) ++ sepS tail = s0 :: ss' := by
    cases r with
    | nil => rw [writes4_single, hs0]; exact ⟨_, rfl⟩
    | cons a b => rw [writes4_cons2, hs0]; exact ⟨_, rfl⟩
  obtain ⟨ss', hss'⟩ := hhead
  refine Or.inr ⟨_, _, rfl, rfl, ?_⟩
  intro x hx
  rw [hss', numbered_cons] at hx
  simp only [List.map_cons, List.head?_cons, Option.some.injEq] at hx
  subst hx
  exact ⟨hsep'.2.1, hsep'.2.2⟩

theorem nodes_step_icode (ti : Bool) (ls : List Str)
    (rest : List T4) (hok : T4.oks (.leaf (.icode ls) :: rest) = true)
    (hR : rest ≠ [] → NodesClaim ti rest) :
    NodesClaim ti (.leaf (.icode ls) :: rest) := by
  have hT := icode_thenClaim ti ls (oks4_cons _ _ hok).1
  cases rest with
  | nil => exact nodes_single_then ti _ 0 _ rfl hT (Or.inl rfl) (fun nlL h => Or.inr ⟨nlL, [], rfl, h, by simp⟩)
  | cons t' r =>
    exact nodes_cons_then ti _ t' r 0 _ rfl (oks4_cons _ _ hok).2.1 hT (fun tail k => icode_post _ t' r rfl hok tail k) (hR (by simp))

theorem nodes_step_fence (ti : Bool) (ind : Nat) (d info : Str) (body : List Str) (close : Str)
    (rest : List T4) (hok : T4.oks (.fence ind d info body close :: rest) = true)
    (hR : rest ≠ [] → NodesClaim ti rest) :
    NodesClaim ti (.fence ind d info body close :: rest) := by
  have hT := fence_thenClaim ti ind d info body close (oks4_cons _ _ hok).1
  cases rest with
  | nil => exact nodes_single_then ti _ 0 _ rfl hT trivial (fun _ _ => trivial)
  | cons t' r => exact nodes_cons_then ti _ t' r 0 _ rfl (oks4_cons _ _ hok).2.1 hT (fun _ _ => trivial) (hR (by simp))

theorem items_step (ti : Bool) (o : Bool) (mk : Char) (pad : Nat) (loose : Bool) (n : Nat) (it : List T4) (rest : List (List T4))
    (h1 : 1 ≤ pad) (h4 : pad ≤ 4) (hok : T4.okItems o mk pad n (it :: rest) = true) (hN : NodesClaim ti it)
    (hR : rest ≠ [] → ItemsClaim ti o mk pad loose (n + 1) rest) : ItemsClaim ti o mk pad loose n (it :: rest) := by
  cases rest with
  | nil => exact items_last ti o mk pad loose n it h1 h4 hok hN
  | cons it' r => exact items_cons ti o mk pad loose n it it' r h1 h4 hok hN (hR (by simp))

mutual
/-- **siblings** (any nodes of the fragment), in a buffer of their own -/
theorem nodes_claim (ti : Bool) : ∀ (ts : List T4), T4.oks ts = true → ts ≠ [] → NodesClaim ti ts
  | [], _, hne => absurd rfl hne
  | .para ls :: rest, h, _ =>
    nodes_step_closed ti _ rest h rfl (node_para ti ls (oks4_cons _ _ h).1)
      (fun hne => nodes_claim ti rest (oks4_cons _ _ h).2.1 hne)
  | .heading lv t line :: rest, h, _ =>
    nodes_step_closed ti _ rest h rfl (node_heading ti lv t line (oks4_cons _ _ h).1)
      (fun hne => nodes_claim ti rest (oks4_cons _ _ h).2.1 hne)
  | .hr line :: rest, h, _ =>
    nodes_step_closed ti _ rest h rfl (node_hr ti line (oks4_cons _ _ h).1)
      (fun hne => nodes_claim ti rest (oks4_cons _ _ h).2.1 hne)
  | .quote bare kids :: rest, h, _ =>
    nodes_step_closed ti _ rest h rfl
      (node_quote ti bare kids (oks4_cons _ _ h).1
        (nodes_claim ti kids (quoteOk4_of bare kids (oks4_cons _ _ h).1).2.1 (quoteOk4_of bare kids (oks4_cons _ _ h).1).1))
      (fun hne => nodes_claim ti rest (oks4_cons _ _ h).2.1 hne)
  | .list o n mk pad loose items :: rest, h, _ =>
    have hl := listOk_of o n mk pad loose items (oks4_cons _ _ h).1
    nodes_step_list ti o n mk pad loose items rest h
      (items_claim ti o mk pad loose hl.p1 hl.p4 n items hl.its hl.ne)
      (fun hne => nodes_claim ti rest (oks4_cons _ _ h).2.1 hne)
  | .fence ind d info body close :: rest, h, _ =>
    nodes_step_fence ti ind d info body close rest h
      (fun hne => nodes_claim ti rest (oks4_cons _ _ h).2.1 hne)
  | .setext lv ls ul :: rest, h, _ =>
    nodes_step_closed ti _ rest h rfl (node_setext ti lv ls ul (oks4_cons _ _ h).1)
      (fun hne => nodes_claim ti rest (oks4_cons _ _ h).2.1 hne)
  | .leaf (.table hd dl rows) :: rest, h, _ =>
    nodes_step_closed ti _ rest h rfl (node_table ti hd dl rows (oks4_cons _ _ h).1)
      (fun hne => nodes_claim ti rest (oks4_cons _ _ h).2.1 hne)
  | .leaf (.icode ls) :: rest, h, _ =>
    nodes_step_icode ti ls rest h
      (fun hne => nodes_claim ti rest (oks4_cons _ _ h).2.1 hne)
/-- **the items of a list**, anywhere in a buffer -/
theorem items_claim (ti : Bool) (o : Bool) (mk : Char) (pad : Nat) (loose : Bool) (h1 : 1 ≤ pad) (h4 : pad ≤ 4) :
    ∀ (n : Nat) (items : List (List T4)), T4.okItems o mk pad n items = true → items ≠ [] → ItemsClaim ti o mk pad loose n items
  | _, [], _, hne => absurd rfl hne
  | n, it :: rest, h, _ =>
    items_step ti o mk pad loose n it rest h1 h4 h
      (nodes_claim ti it (okItems_cons o mk pad n it rest h).2.1 (okItems_cons o mk pad n it rest h).1)
      (fun hne => items_claim ti o mk pad loose h1 h4 (n + 1) rest (okItems_cons o mk pad n it rest h).2.2.2.2.2 hne)
end


/-- **the block phase of a written document** -/
theorem blockPhase_writes4 (ti : Bool) (ts : List T4) (h : T4.oks ts = true) (hne : ts ≠ []) (gas : Nat) (hg : needs4 ts ≤ gas) :
    blockPhase (dcfg ti) gas (writes4 ts) =
      .ok ({ entries := entries4 1 ts, loose := decide (1 < ts.length) }, {}) := by
  have e : blockPhase (dcfg ti) gas (writes4 ts) = tokenizeBlock (dcfg ti) gas (numbered 0 (writes4 ts)) 1 {} := rfl
  rw [e]
  have := nodes_claim ti ts h hne false 0 {} gas hg (fun _ => rfl)
  simp only [sepS, Bool.false_eq_true, if_false, List.append_nil, Nat.zero_add, Bool.or_false] at this
  rw [this]
  simp [after]



/-! ### The block token constructors on the expected entries -/

open Mistletoe.Document (joinNl mkBlock mkBlocks mkItems)
open Mistletoe.Html Mistletoe.Escape
open Mistletoe.InertInline (flat_append flat_prose)
open Mistletoe.ComposeL (itemLooseB listHtml flat_cons2 flat_list flat_li_open flat_li_close flat_li_empty flat_if_nl
  flat_item2_nil flat_item2_cons listHtml_ne mkBlock_of_single2)

mutual
/-- the block token expected for a node whose first line is line `n` -/
def block4 (n : Nat) : T4 → Mistletoe.Block
  | .para ls => .paragraph (proseInlines (ls.map strip)) n
  | .heading lv t line => .heading lv (closingOf line) [.rawText t] n
  | .hr line => .thematicBreak (Document.stripNl line) n
  | .quote _ kids => .quote (blocks4 n kids) n
  | .list o s mk pad loose items => .list loose (if o then some s else none) (itemBlocks4 o mk pad loose s n items) n
  | .fence ind d info body _ => .codeFence (langOf info) ind d info (body.map (dedent ind)).flatten n
  | .setext lv ls ul => .setextHeading lv (rstrip ul) (proseInlines (ls.map strip)) n
  | .leaf l => l.block n
def blocks4 (n : Nat) : List T4 → List Mistletoe.Block
  | [] => []
  | t :: rest => block4 n t :: blocks4 (n + (write4 t).length + 1) rest
def itemBlocks4 (o : Bool) (mk : Char) (pad : Nat) (loose : Bool) (s : Nat) (n : Nat) : List (List T4) → List Mistletoe.Block
  | [] => []
  | it :: rest =>
    .listItem (leaderOf o s mk) 0 ((leaderOf o s mk).length + pad) ((loose && !rest.isEmpty) || decide (1 < it.length)) (blocks4 n it) n
      :: itemBlocks4 o mk pad loose (s + 1) (n + (writes4 it).length + (sepS loose).length) rest
end

/-- the looseness `List.__init__` computes from the items -/
def itemsLoose4 (loose : Bool) : List (List T4) → Bool
  | [] => false
  | it :: rest => ((loose && !rest.isEmpty) || decide (1 < it.length)) || itemsLoose4 loose rest

theorem any_itemBlocks4 (o : Bool) (mk : Char) (pad : Nat) (loose : Bool) : ∀ (s n : Nat) (items : List (List T4)),
    (itemBlocks4 o mk pad loose s n items).any itemLooseB = itemsLoose4 loose items
  | _, _, [] => rfl
  | s, n, it :: rest => by
    simp only [itemBlocks4, List.any_cons, itemLooseB, itemsLoose4, any_itemBlocks4 o mk pad loose _ _ rest]

theorem itemsLoose4_false : ∀ (items : List (List T4)), items.all (fun it => it.length == 1) = true → itemsLoose4 false items = false
  | [], _ => rfl
  | it :: rest, h => by
    simp only [List.all_cons, Bool.and_eq_true, beq_iff_eq] at h
    simp only [itemsLoose4, Bool.false_and, Bool.false_or, h.1, itemsLoose4_false rest h.2]
    decide

/-- `loose` is the looseness the constructor computes -/
theorem itemsLoose4_eq (loose : Bool) (items : List (List T4))
    (h : (if loose then decide (2 ≤ items.length) || items.any (fun it => decide (1 < it.length))
          else items.all (fun it => it.length == 1)) = true) : itemsLoose4 loose items = loose := by
  cases loose with
  | false => exact itemsLoose4_false items (by simpa using h)
  | true =>
    simp only [if_true, Bool.or_eq_true, decide_eq_true_eq, List.any_eq_true] at h
    cases items with
    | nil =>
      rcases h with h | ⟨x, hx, _⟩
      · simp at h
      · simp at hx
    | cons it rest =>
      cases rest with
      | cons it' r => simp [itemsLoose4]
      | nil =>
        rcases h with h | ⟨x, hx, hx2⟩
        · simp at h
        · simp only [List.mem_singleton] at hx
          subst hx
          simp [itemsLoose4, hx2]

mutual
theorem mkBlock_entry4 (cfg : Document.Cfg) (fn : Footnotes.Table) (ht : ∀ t ∈ cfg.span, inertClass t = true)
    (hc : cfg.span.count .lineBreak = 1) : ∀ (t : T4), t.ok = true → ∀ (n : Nat),
    mkBlock cfg fn (entry4 n t) = .ok (some (block4 n t))
  | .para ls, h, n => by
    have hp := paraOk_of ls (by simpa [T4.ok, T.ok] using h)
    exact mkBlock_of_single2 cfg fn _ _ (InertInline.mkBlocks_prose cfg fn ls n n ht hc hp.ne hp.prose hp.body)
  | .heading lv t line, h, n => by
    have hh := headOk_of lv t line (by simpa [T4.ok, T.ok] using h)
    have hin : Document.inl cfg fn t = .ok [.rawText t] := InertInline.tokenizeInner_inert cfg.span fn t ht hh.inert hh.ne
    simp only [entry4, block4, mkBlock, hin]
  | .hr line, h, n => by
    simp only [entry4, block4, mkBlock]
  | .quote bare kids, h, n => by
    obtain ⟨_, hk, _⟩ := quoteOk4_of bare kids h
    simp only [entry4, block4, mkBlock, mkBlocks_entries4 cfg fn ht hc kids hk n]
  | .list o s mk pad loose items, h, n => by
    have hl := listOk_of o s mk pad loose items h
    have hits := mkItems_items4 cfg fn ht hc o mk pad loose s n items hl.its
    simp only [entry4, block4, mkBlock, hits]
    cases items with
    | nil => exact absurd rfl hl.ne
    | cons it rest =>
      obtain ⟨_, _, hlead, _⟩ := okItems_cons o mk pad s it rest hl.its
      simp only [items4]
      have hany := any_itemBlocks4 o mk pad loose s n (it :: rest)
      rw [itemsLoose4_eq loose _ hl.looseC] at hany
      have hA : ∀ (f : Mistletoe.Block → Bool), (∀ b, f b = itemLooseB b) →
          (itemBlocks4 o mk pad loose s n (it :: rest)).any f = loose := by
        intro f hf
        refine Eq.trans ?_ hany
        congr 1; funext b; exact hf b
      rw [hA _ (by intro b; cases b <;> rfl)]
      cases o with
      | false => simp [leaderOf]
      | true =>
        obtain ⟨d, e, hd, _, h1, _, _⟩ := leaderOk_ordered _ hlead
        simp only [leaderOf, if_true] at hd ⊢
        have e1 : natDigits s = d := (List.append_inj' hd (by simp)).1
        have hne : ((natDigits s ++ [mk]).length != 1) = true := by
          rw [e1]; simp only [List.length_append, List.length_singleton, bne_iff_ne, ne_eq]; omega
        simp only [hne, if_true, List.dropLast_concat, hl.start rfl]
  | .fence ind d info body close, h, n => by
    simp only [entry4, block4, mkBlock, langOf]
  | .setext lv ls ul, h, n => by
    obtain ⟨hp, hu⟩ := setextOk_of lv ls ul h
    have hin : Document.inl cfg fn (joinNl (ls.map strip)) = .ok (proseInlines (ls.map strip)) := by
      unfold Document.inl
      exact InertInline.tokenizeInner_lines cfg.span fn _ ht hc (by simpa using hp.ne) (InertInline.lineOk_of_prose ls hp.prose hp.body) hp.body
    have hlv : (if (rstrip ul).getLast? == some '=' then 1 else 2) = lv := by
      have := hu.lvl
      rcases hu.lv12 with rfl | rfl
      · simp only [beq_self_eq_true] at this; simp [this]
      · have e : ((2 : Nat) == 1) = false := by decide
        rw [e] at this; simp [this]
    simp only [entry4, block4, mkBlock, List.getLast?_concat, List.dropLast_concat, hin, hlv]
  | .leaf l, h, n => by
    simp only [entry4, block4]
    exact mkBlock_leaf cfg fn ht l (by simpa [T4.ok] using h) n
theorem mkBlocks_entries4 (cfg : Document.Cfg) (fn : Footnotes.Table) (ht : ∀ t ∈ cfg.span, inertClass t = true)
    (hc : cfg.span.count .lineBreak = 1) : ∀ (ts : List T4), T4.oks ts = true → ∀ (n : Nat),
    mkBlocks cfg fn (entries4 n ts) = .ok (blocks4 n ts)
  | [], _, _ => by simp [entries4, blocks4, mkBlocks]
  | t :: rest, h, n => by
    obtain ⟨h1, h2, _⟩ := oks4_cons t rest h
    simp only [entries4, blocks4, mkBlocks, mkBlock_entry4 cfg fn ht hc t h1 n,
      mkBlocks_entries4 cfg fn ht hc rest h2 _]
theorem mkItems_items4 (cfg : Document.Cfg) (fn : Footnotes.Table) (ht : ∀ t ∈ cfg.span, inertClass t = true)
    (hc : cfg.span.count .lineBreak = 1) (o : Bool) (mk : Char) (pad : Nat) (loose : Bool) : ∀ (s n : Nat) (items : List (List T4)),
    T4.okItems o mk pad s items = true →
    mkItems cfg fn (items4 o mk pad loose s n items) = .ok (itemBlocks4 o mk pad loose s n items)
  | _, _, [], _ => by simp [items4, itemBlocks4, mkItems]
  | s, n, it :: rest, h => by
    obtain ⟨_, hit, _, _, _, hrest⟩ := okItems_cons o mk pad s it rest h
    simp only [items4, itemBlocks4, mkItems, mkBlocks_entries4 cfg fn ht hc it hit n,
      mkItems_items4 cfg fn ht hc o mk pad loose _ _ rest hrest]
end

/-- **`Document(lines)` on a written document** -/
theorem parseLines_writes4 (cfg : Document.Cfg) (ti : Bool) (hb : cfg.block = dcfg ti)
    (ht : ∀ t ∈ cfg.span, inertClass t = true) (hc : cfg.span.count .lineBreak = 1)
    (ts : List T4) (h : T4.oks ts = true) (hne : ts ≠ []) (gas : Nat) (hg : needs4 ts ≤ gas) :
    Document.parseLines cfg gas (writes4 ts) = .ok { kids := blocks4 1 ts, footnotes := [] } := by
  unfold Document.parseLines
  rw [hb, blockPhase_writes4 ti ts h hne gas hg]
  simp only
  rw [mkBlocks_entries4 cfg _ ht hc ts h 1]
  rfl


/-! ### HTML written directly from the tree -/

def isPara4 : T4 → Bool
  | .para _ => true
  | _ => false

def itemHtml4 (s : Bool) (it : List T4) (inner : Str) : Str :=
  match it with
  | [] => "<li></li>".toList
  | first :: _ =>
    "<li>".toList ++ (if s && isPara4 first then [] else ['\n']) ++ inner
      ++ (if s && (it.getLast?.map isPara4).getD false then [] else ['\n']) ++ "</li>".toList

mutual
/-- the HTML of one node; `s`: directly inside an item of a tight list -/
def html4 (q : Quotes) (s : Bool) : T4 → Str
  | .para ls => if s then escapeHtmlText q.dq q.sq (joinNl (ls.map strip)) else paraHtml q ls
  | .heading lv t _ => headHtml q lv t
  | .hr _ => hrHtml
  | .quote _ kids => quoteHtml (htmlAfter4 q kids)
  | .list o st _ _ loose items => listHtml o st (htmlItems4 q (!loose) items)
  | .fence ind _ info body _ => fenceHtml q (langOf info) (body.map (dedent ind)).flatten
  | .setext lv ls _ => headHtml q lv (joinNl (ls.map strip))
  | .leaf l => l.html q
/-- nodes, each followed by a newline (document, quote) -/
def htmlAfter4 (q : Quotes) : List T4 → Str
  | [] => []
  | t :: rest => html4 q false t ++ '\n' :: htmlAfter4 q rest
/-- nodes separated by newlines (list item) -/
def htmlSep4 (q : Quotes) (s : Bool) : List T4 → Str
  | [] => []
  | t :: rest =>
    match rest with
    | [] => html4 q s t
    | _ :: _ => html4 q s t ++ '\n' :: htmlSep4 q s rest
/-- items separated by newlines -/
def htmlItems4 (q : Quotes) (s : Bool) : List (List T4) → Str
  | [] => []
  | it :: rest =>
    match rest with
    | [] => itemHtml4 s it (htmlSep4 q s it)
    | _ :: _ => itemHtml4 s it (htmlSep4 q s it) ++ '\n' :: htmlItems4 q s rest
end

/-- the HTML of the document -/
def htmlOf4 (o : Opts) (ts : List T4) : Str := htmlAfter4 o.q ts

theorem isParagraph_block4 (n : Nat) : ∀ (t : T4), isParagraph (block4 n t) = isPara4 t
  | .para _ => rfl
  | .heading _ _ _ => rfl
  | .hr _ => rfl
  | .quote _ _ => rfl
  | .list .. => rfl
  | .fence .. => rfl
  | .setext .. => rfl
  | .leaf (.table ..) => rfl
  | .leaf (.icode _) => rfl

theorem blocks4_getLast : ∀ (ts : List T4) (n : Nat),
    ((blocks4 n ts).getLast?.map isParagraph).getD false = (ts.getLast?.map isPara4).getD false
  | [], _ => rfl
  | [t], n => by simp [blocks4, isParagraph_block4]
  | t :: t' :: r, n => by
    have ih := blocks4_getLast (t' :: r) (n + (write4 t).length + 1)
    simp only [blocks4, List.getLast?_cons_cons] at ih ⊢
    exact ih

theorem itemHtml_nil (s : Bool) (inner : Str) : itemHtml4 s [] inner = "<li></li>".toList := rfl
theorem itemHtml_cons (s : Bool) (first : T4) (rest : List T4) (inner : Str) : itemHtml4 s (first :: rest) inner =
    "<li>".toList ++ (if s && isPara4 first then [] else ['\n']) ++ inner
      ++ (if s && ((first :: rest).getLast?.map isPara4).getD false then [] else ['\n']) ++ "</li>".toList := rfl

theorem flat_item4 (q : Quotes) (s : Bool) (it : List T4) (n : Nat) (ld : Str) (ind pre : Nat) (lo : Bool)
    (h : flat (renderSep q s (blocks4 n it)) = htmlSep4 q s it) :
    flat (renderBlock q s (.listItem ld ind pre lo (blocks4 n it) n)) = itemHtml4 s it (htmlSep4 q s it) := by
  cases it with
  | nil =>
    simp only [blocks4]
    rw [itemHtml_nil]
    exact flat_item2_nil q s n ld ind pre lo
  | cons first rest =>
    have hlast := blocks4_getLast (first :: rest) n
    simp only [blocks4] at h hlast
    simp only [blocks4]
    rw [itemHtml_cons, flat_item2_cons, h, hlast, isParagraph_block4]

theorem htmlItems_cons2 (q : Quotes) (s : Bool) (it it' : List T4) (r : List (List T4)) :
    htmlItems4 q s (it :: it' :: r) = itemHtml4 s it (htmlSep4 q s it) ++ '\n' :: htmlItems4 q s (it' :: r) := by
  simp [htmlItems4]

mutual
theorem flat_block4 (q : Quotes) : ∀ (t : T4) (s : Bool) (n : Nat), flat (renderBlock q s (block4 n t)) = html4 q s t
  | .para ls, s, n => by
    simp only [block4, html4, paraHtml, renderBlock]
    cases s with
    | true => simp only [if_true, flat_prose]
    | false =>
      simp only [Bool.false_eq_true, if_false, flat_append, flat_prose]
      simp [flat, flatEv, flatAttrs]
  | .heading lv t line, s, n => by
    simp only [block4, html4, headHtml]
    simp only [renderBlock, renderInlines, renderInline, flat_cons2, Compose.flat_nil,
      flatEv, flatAttrs, List.append_nil, List.append_assoc, List.cons_append, List.nil_append]
  | .hr line, s, n => by
    simp only [block4, html4, hrHtml, renderBlock]
    decide
  | .quote _ kids, s, n => by
    simp only [block4, html4]
    simp only [renderBlock, flat_append, flat_after4 q kids n]
    generalize htmlAfter4 q kids = x
    have h1 : flat [Ev.otag "blockquote".toList [], nl] = ['<', 'b', 'l', 'o', 'c', 'k', 'q', 'u', 'o', 't', 'e', '>', '\n'] := by
      decide +kernel
    have h2 : flat [Ev.ctag "blockquote".toList] = ['<', '/', 'b', 'l', 'o', 'c', 'k', 'q', 'u', 'o', 't', 'e', '>'] := by
      decide +kernel
    rw [h1, h2, quoteHtml]
  | .list o st mk pad loose items, s, n => by
    simp only [block4, html4]
    rw [flat_list, flat_items4 q o mk pad loose (!loose) items st n]
  | .fence ind d info body close, s, n => by
    simp only [block4, html4, renderBlock]
    exact flat_fence q _ _
  | .setext lv ls ul, s, n => by
    simp only [block4, html4, headHtml]
    simp only [renderBlock, flat_append, flat_prose, flat_cons2, Compose.flat_nil,
      flatEv, flatAttrs, List.append_nil, List.append_assoc, List.cons_append, List.nil_append]
  | .leaf l, s, n => by
    simp only [block4, html4]
    exact flat_leaf q s n l
theorem flat_after4 (q : Quotes) : ∀ (ts : List T4) (n : Nat),
    flat (renderAfterEach q false (blocks4 n ts)) = htmlAfter4 q ts
  | [], _ => by simp [blocks4, renderAfterEach, htmlAfter4, flat]
  | t :: rest, n => by
    simp only [blocks4, htmlAfter4]
    simp only [renderAfterEach, flat_append, flat_block4 q t false n, flat_after4 q rest _]
    simp [flat, flatEv, nl]
theorem flat_sep4 (q : Quotes) (s : Bool) : ∀ (ts : List T4) (n : Nat),
    flat (renderSep q s (blocks4 n ts)) = htmlSep4 q s ts
  | [], _ => by simp [blocks4, renderSep, htmlSep4, flat]
  | [t], n => by simp only [blocks4, renderSep, htmlSep4, flat_block4 q t s n]
  | t :: t' :: r, n => by
    have ih := flat_sep4 q s (t' :: r) (n + (write4 t).length + 1)
    simp only [blocks4, htmlSep4] at ih ⊢
    simp only [renderSep, flat_append, flat_block4 q t s n, ih]
    simp [flat, flatEv, nl]
theorem flat_items4 (q : Quotes) (o : Bool) (mk : Char) (pad : Nat) (loose : Bool) (s : Bool) : ∀ (items : List (List T4)) (st n : Nat),
    flat (renderSep q s (itemBlocks4 o mk pad loose st n items)) = htmlItems4 q s items
  | [], _, _ => by simp [itemBlocks4, renderSep, htmlItems4, flat]
  | [it], st, n => by
    simp only [itemBlocks4, renderSep, htmlItems4]
    exact flat_item4 q s it n _ _ _ _ (flat_sep4 q s it n)
  | it :: it' :: r, st, n => by
    have ih := flat_items4 q o mk pad loose s (it' :: r) (st + 1) (n + (writes4 it).length + (sepS loose).length)
    rw [htmlItems_cons2, ← ih]
    simp only [itemBlocks4, renderSep, flat_append]
    rw [flat_item4 q s it n _ _ _ _ (flat_sep4 q s it n)]
    simp [flat, flatEv, nl]
end
theorem html4_ne (q : Quotes) : ∀ (t : T4), html4 q false t ≠ []
  | .para _ => by simp [html4, paraHtml]
  | .heading _ _ _ => by simp [html4, headHtml]
  | .hr _ => by simp [html4, hrHtml]
  | .quote _ _ => by simp only [html4]; exact quoteHtml_ne _
  | .list .. => by simp only [html4]; exact listHtml_ne _ _ _
  | .fence .. => by simp only [html4]; exact fenceHtml_ne _ _ _
  | .setext .. => by simp [html4, headHtml]
  | .leaf l => by simp only [html4]; exact leaf_html_ne q l

/-- **the HTML renderer on the expected document** -/
theorem render_blocks4 (o : Opts) (ts : List T4) (hne : ts ≠ []) (fn : List (Str × Str × Str)) :
    render o { kids := blocks4 1 ts, footnotes := fn } = htmlOf4 o ts := by
  obtain ⟨t, rest, rfl⟩ : ∃ t rest, ts = t :: rest := by
    cases ts with
    | nil => exact absurd rfl hne
    | cons t rest => exact ⟨t, rest, rfl⟩
  have hk : blocks4 1 (t :: rest) = block4 1 t :: blocks4 (1 + (write4 t).length + 1) rest := by simp [blocks4]
  have hnonempty : (flat (renderSep o.q false (blocks4 1 (t :: rest)))).isEmpty = false := by
    rw [hk]
    cases hr : blocks4 (1 + (write4 t).length + 1) rest with
    | nil =>
      simp only [renderSep, flat_block4]
      simpa using html4_ne o.q t
    | cons b bs =>
      simp only [renderSep, flat_append, flat_block4]
      simp [html4_ne o.q t]
  have hd : renderDoc o.q { kids := blocks4 1 (t :: rest), footnotes := fn } =
      renderSep o.q false (blocks4 1 (t :: rest)) ++ [nl] := by
    simp only [renderDoc, hk]
    rw [← hk, hnonempty]
    simp
  rw [render, hd, flat_append]
  have : flat [nl] = ['\n'] := rfl
  rw [this, Compose.flat_sep_afterEach o.q false _ (by rw [hk]; simp), flat_after4]
  rfl

/-! ### From the text as one `str`, and the bundled HTML configuration -/

/-- **`Document(text)`** for the written lines concatenated into one string -/
theorem parse_writes4 (cfg : Document.Cfg) (ti : Bool) (hb : cfg.block = dcfg ti)
    (ht : ∀ t ∈ cfg.span, inertClass t = true) (hc : cfg.span.count .lineBreak = 1)
    (ts : List T4) (h : T4.oks ts = true) (hne : ts ≠ []) (gas : Nat) (hg : needs4 ts ≤ gas) :
    Document.parse cfg gas (writes4 ts).flatten = .ok { kids := blocks4 1 ts, footnotes := [] } := by
  rw [InertInline.parse_lines cfg _ (writes4 ts) (fun l hl => lineOk_oneLine ((writes4_lineOk ts h).1 l hl))]
  exact parseLines_writes4 cfg ti hb ht hc ts h hne gas hg

/-- **end to end**: `HtmlRenderer(**opts).render(Document(text))` on the written text is the HTML written
    directly from the tree -/
theorem renderHtml_writes4 (o : Opts) (ts : List T4) (h : T4.oks ts = true) (hne : ts ≠ []) (gas : Nat) (hg : needs4 ts ≤ gas) :
    Config.renderHtml o gas (writes4 ts).flatten = some (htmlOf4 o ts) := by
  unfold Config.renderHtml
  cases hc : Config.html with
  | none =>
    have := Props.C14.C14_config_current.1
    rw [hc] at this
    cases this
  | some cfg =>
    obtain ⟨hb, ht, hcnt⟩ := Compose.html_config cfg hc
    simp only
    rw [parse_writes4 cfg _ hb ht hcnt ts h hne gas hg]
    simp only
    rw [render_blocks4 o ts hne]

/-! ### C03 with tables and indented code blocks: the statements

  INSIDE the fragment (tree type `T4`, well-formedness `T4.oks`, decidable): everything `Proofs/ComposeCode.lean` covers
  (paragraphs of inert lines, ATX and setext headings, thematic breaks, block quotes, bullet and ordered lists nested to any
  depth, fenced code blocks) and, AT TOP LEVEL, INSIDE QUOTES AND INSIDE LIST ITEMS (as the first or a later block of an
  item; an indented code block only as a later block), to any depth:

  * TABLES (`Leaf.table hdr del rows`).  Header row, delimiter row, any number of body rows (none included).  A row
    (`Row`) is written with or without a pipe before the first cell and with or without a pipe behind the last cell,
    independently for every row; the cells stand between the pipes as written, with any padding of spaces; a cell is not
    the empty string (an empty cell is written with one space or more); without its padding it is empty or inert one-line
    text (the C14 inline fragment) without `|` and without a backslash.  The row begins and ends with a visible character
    and has a `|`.  The delimiter row (`DRow`): per column any number of spaces, an optional colon, one or more hyphens, an
    optional colon, spaces - `---`, `:--` (both left), `:-:` (centre), `--:` (right) -, with or without the outer pipes.
    The header has as many cells as the delimiter row.  A body row may have FEWER cells than there are columns - the
    tree then has empty cells with the columns' alignments in their places - or MORE: the tree then keeps ALL its cells,
    the extra ones with alignment `None` (`cellsOf`, after `zip_longest`; GFM says "the excess is ignored": recorded
    finding, see `Proofs/ComposeTable2.lean`).
  * INDENTED CODE BLOCKS (`Leaf.icode lines`): lines that begin with four spaces and more and have a visible character,
    and between them any lines of whitespace only (interior blank lines: "\n", or spaces and "\n"); no tabs.  The first
    and the last line have a visible character.  The content is every line minus its first four columns (a line of
    whitespace shorter than five characters gives "\n"), joined (`codeContent_eq`).  The next sibling does not begin with
    four spaces (it would go on the block: `sepOk4`).

  Every block is followed by a "\n" line and the next sibling, or by the end of its container, as in the earlier fragments
  (so an indented code block never follows a paragraph directly: it would be a lazy continuation line).

  OUTSIDE (in addition to what `Proofs/ComposeCode.lean` lists): rows indented by one to three spaces; cells with
  backslashes (escaped pipes `\|`), code spans, emphasis, links; a table directly behind a paragraph without a blank line
  (`Table.interrupt_paragraph`); a header row that is also the first line of another block (`- a | b`: `headFactsB`);
  inside a list item: interior lines of a code block that consist of spaces only (`itemDocOk`), a code block as the first
  block of an item; tabs. -/

/-- **The block phase parses a written tree back (tables and indented code blocks included).**  For every well-formed
    forest `ts`, either `tableInterrupt`, every gas ≥ `needs4 ts`: one entry per top-level node - for a table a `Table`
    entry with the lines of the table and the number of its first line, for an indented code block a `BlockCode` entry with
    the lines minus their first four columns, for the other nodes as in `C03_code_block_phase_partial` - every entry
    reporting the line the writer put it on; no link definition is found. -/
theorem C03_table_block_phase_partial (ti : Bool) (ts : List T4) (h : T4.oks ts = true) (hne : ts ≠ []) (gas : Nat)
    (hg : needs4 ts ≤ gas) :
    blockPhase { types := Props.C14.defaultTypes, tableInterrupt := ti } gas (writes4 ts) =
      .ok ({ entries := entries4 1 ts, loose := decide (1 < ts.length) }, {}) :=
  blockPhase_writes4 ti ts h hne gas hg

/-- the same at an arbitrary place: lines numbered from `k + 1`, with or without a final "\n" line, in any state in which
    `Paragraph.parse_setext` is on if the forest has a setext heading -/
theorem C03_table_tokenize_partial (ti : Bool) (ts : List T4) (h : T4.oks ts = true) (hne : ts ≠ []) (tail : Bool) (k : Nat) (st : St)
    (gas : Nat) (hg : needs4 ts ≤ gas) (hs : hasSxs ts = true → st.setext = true) :
    tokenizeBlock { types := Props.C14.defaultTypes, tableInterrupt := ti } gas (numbered k (writes4 ts ++ sepS tail)) (k + 1) st =
      .ok ({ entries := entries4 (k + 1) ts, loose := decide (1 < ts.length) || tail },
           { setext := st.setext || touches4 ts, defs := st.defs }) :=
  nodes_claim ti ts h hne tail k st gas hg hs

/-- **`Document(lines)` is the tree.**  The document's children are the expected block tokens (`blocks4`): as in
    `C03_code_document_partial`, and for a table whose first line is line `n` a `Table` token (line `n`) with
    `column_align` = the alignments of the delimiter cells (`None`, `0`, `1`), `header` = a `TableRow` (line `n`) and
    `children` = one `TableRow` per body row (lines `n + 2`, `n + 3`, …), every `TableRow` with `row_align` = the column
    alignments and one `TableCell` per cell (`cellsOf`: padded with empty cells to the number of columns; cells beyond the
    columns kept, with alignment `None`), every `TableCell` with its alignment, the line of its row and as inline
    children one `RawText` with the cell's text without its padding (none for an empty cell); for an indented code block a
    `BlockCode` token with the content; no footnotes. -/
theorem C03_table_document_partial (cfg : Document.Cfg) (ti : Bool)
    (hb : cfg.block = { types := Props.C14.defaultTypes, tableInterrupt := ti })
    (ht : ∀ t ∈ cfg.span, inertClass t = true) (hc : cfg.span.count .lineBreak = 1)
    (ts : List T4) (h : T4.oks ts = true) (hne : ts ≠ []) (gas : Nat) (hg : needs4 ts ≤ gas) :
    Document.parseLines cfg gas (writes4 ts) = .ok { kids := blocks4 1 ts, footnotes := [] } ∧
    Document.parse cfg gas (writes4 ts).flatten = .ok { kids := blocks4 1 ts, footnotes := [] } :=
  ⟨parseLines_writes4 cfg ti hb ht hc ts h hne gas hg, parse_writes4 cfg ti hb ht hc ts h hne gas hg⟩

/-- **The HTML of the expected document is the HTML written directly from the tree**, for every quote option. -/
theorem C03_table_render_partial (o : Opts) (ts : List T4) (hne : ts ≠ []) (fn : List (Str × Str × Str)) :
    render o { kids := blocks4 1 ts, footnotes := fn } = htmlOf4 o ts :=
  render_blocks4 o ts hne fn

/-- **End to end.**  `HtmlRenderer(**opts).render(Document(text))`, with the token lists the HTML renderer installs in the
    working tree, on the text written out from a well-formed forest, returns the HTML written directly from the forest
    (`htmlOf4`): a table is `<table>`, `<thead>` with one `<tr>` of `<th align="…">` cells, `<tbody>` (also when there is
    no body row) with one `<tr>` of `<td align="…">` cells per body row, `</table>`, every tag on a line of its own,
    `align` = `left` / `center` / `right`, the cell text escaped (`tableHtml`); an indented code block is `<pre><code>`, the
    escaped content, `</code></pre>`; everything else as in `C03_code_html_partial`. -/
theorem C03_table_html_partial (o : Opts) (ts : List T4) (h : T4.oks ts = true) (hne : ts ≠ []) (gas : Nat) (hg : needs4 ts ≤ gas) :
    Config.renderHtml o gas (writes4 ts).flatten = some (htmlOf4 o ts) :=
  renderHtml_writes4 o ts h hne gas hg

end Mistletoe.ComposeT
