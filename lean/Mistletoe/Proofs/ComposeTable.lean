import Mistletoe.Proofs.ComposeCode
namespace Mistletoe.ComposeT
open Mistletoe Mistletoe.Py Mistletoe.Scan Mistletoe.Compose
open Mistletoe.Block hiding numbered numbered_cons numbered_append
open Mistletoe.Props.C14 (defaultTypes inertLine numbered numbered_cons numbered_append numbered_length numbered_mem numbered_s)
open Mistletoe.InertInline (inertBody inertText proseLine oneLine proseInlines inertClass)
open Mistletoe.Props.C04 (indentDoc itemDocOk)
open Mistletoe.Html (natDigits)
open Mistletoe.MdRound (fenceLang closes lstripSp_cons lstripSp_len lstripSp_pad)

/-! ### `Table.read` -/

theorem tableLoop_body (post : List Line) (start : Nat) (hpost : ∀ b, post.head? = some b → b.s.contains '|' = false) :
    ∀ (body pre : List Line) (buf : List Str) (fuel : Nat), (∀ x ∈ body, x.s.contains '|' = true) → body.length < fuel →
    tableLoop fuel ⟨pre ++ (body ++ post), pre.length, start⟩ buf =
      ((body.map (·.s)).reverse ++ buf, ⟨(pre ++ body) ++ post, (pre ++ body).length, start⟩)
  | [], pre, buf, fuel, _, hf => by
    obtain ⟨f, rfl⟩ : ∃ f, fuel = f + 1 := ⟨fuel - 1, by simp at hf; omega⟩
    cases post with
    | nil =>
      have := peek_end pre start
      simp only [List.append_nil] at this ⊢
      simp [tableLoop, this]
    | cons b post' =>
      have hb := hpost b rfl
      simp only [List.nil_append, tableLoop, peek_at, hb, Bool.false_eq_true, if_false]
      simp
  | b :: body, pre, buf, fuel, hb, hf => by
    obtain ⟨f, rfl⟩ : ∃ f, fuel = f + 1 := ⟨fuel - 1, by simp at hf; omega⟩
    have hc := hb b (by simp)
    have ih := tableLoop_body post start hpost body (pre ++ [b]) (b.s :: buf) f
      (fun x hx => hb x (List.mem_cons_of_mem _ hx)) (by simp at hf; omega)
    rw [List.cons_append]
    simp only [tableLoop, peek_at, hc, if_true, MdRound.fw_next]
    rw [ih]
    simp

/-- `Table.read` on a header line, a delimiter row and lines with a `|`, up to a line without one -/
theorem readTable_block (l0 l1 : Line) (body pre post : List Line) (start : Nat)
    (h1 : l1.s.contains '|' = true) (hd : delimiterRow l1.s = true)
    (hb : ∀ x ∈ body, x.s.contains '|' = true) (hpost : ∀ b, post.head? = some b → b.s.contains '|' = false) :
    readTable ⟨pre ++ l0 :: l1 :: (body ++ post), pre.length, start⟩ =
      some (l0.s :: l1.s :: body.map (·.s), start + pre.length,
        ⟨(pre ++ l0 :: l1 :: body) ++ post, (pre ++ l0 :: l1 :: body).length, start⟩) := by
  unfold readTable
  rw [peek_at]
  simp only [MdRound.fw_next]
  have e : pre ++ [l0] ++ l1 :: (body ++ post) = (pre ++ [l0]) ++ ((l1 :: body) ++ post) := by simp
  rw [e, tableLoop_body post start hpost (l1 :: body) (pre ++ [l0]) [l0.s] _
    (by intro x hx; rcases List.mem_cons.mp hx with rfl | hx; exact h1; exact hb x hx)
    (by simp [FW.remaining]; omega)]
  simp [hd, FW.lineNumber]

/-- what the dispatcher asks of the first line of a table: no token type before `Table` starts on it, and it has a `|` -/
structure HeadFacts (s : Str) : Prop where
  html : htmlBlockStart s = .ok none
  bc : blockCodeStart s = false
  hd : heading s = none
  qt : quoteStart s = false
  cf : codeFenceStart s = none
  tb : Scan.thematicBreak s = false
  ls : listStart s = false
  bar : s.contains '|' = true

def headFactsB (s : Str) : Bool :=
  (match htmlBlockStart s with | .ok none => true | _ => false) && !blockCodeStart s && (heading s).isNone && !quoteStart s
    && (codeFenceStart s).isNone && !Scan.thematicBreak s && !listStart s && s.contains '|'

theorem headFacts_of (s : Str) (h : headFactsB s = true) : HeadFacts s := by
  simp only [headFactsB, Bool.and_eq_true, Bool.not_eq_eq_eq_not, Bool.not_true, Option.isNone_iff_eq_none] at h
  obtain ⟨⟨⟨⟨⟨⟨⟨h0, h1⟩, h2⟩, h3⟩, h4⟩, h5⟩, h6⟩, h7⟩ := h
  refine ⟨?_, h1, h2, h3, h4, h5, h6, h7⟩
  split at h0
  · assumption
  · cases h0

/-- **a table alone in its buffer** under the default token list -/
theorem tokenize_table (ti : Bool) (l0 l1 : Line) (body : List Line) (hf : HeadFacts l0.s)
    (h1 : l1.s.contains '|' = true) (hd : delimiterRow l1.s = true) (hb : ∀ x ∈ body, x.s.contains '|' = true)
    (start : Nat) (st : St) (gas : Nat) :
    tokenizeBlock (dcfg ti) (gas + 11) (l0 :: l1 :: body) start st =
      .ok ({ entries := [.table (l0.s :: l1.s :: body.map (·.s)) start start l0.origin], loose := false }, st) := by
  have hrd := readTable_block l0 l1 body [] [] start h1 hd hb (by simp)
  simp only [List.nil_append, List.append_nil, List.length_nil, Nat.add_zero] at hrd
  have hp : FW.peek ⟨l0 :: l1 :: body, 0, start⟩ = some l0 := by simp [FW.peek]
  have hend : FW.peek ⟨l0 :: l1 :: body, (l0 :: l1 :: body).length, start⟩ = none := peek_end _ start
  have e : gas + 11 = ((((((((gas + 2) + 1) + 1) + 1) + 1) + 1) + 1) + 1) + 1 + 1 := by omega
  rw [e]
  simp only [tokenizeBlock, tokLoop, hp, dcfg, defaultTypes, tryTypes, hf.html, hf.bc, readHeading, hf.hd, hf.qt, hf.cf, hf.tb,
    hf.ls, hf.bar, hrd, Bool.false_eq_true, if_false, if_true, hend]
  simp

/-! ### `BlockCode.read` on indented lines with interior blank lines -/

open Mistletoe.MdRound (ind4 ind4_blockCodeStart ind4_strip ind4_html)

/-- what `BlockCode.read` keeps of a line: a line with a visible character loses its first four columns; a line of
    whitespace loses four columns if it has five or more characters and all its spaces otherwise -/
def codePiece (l : Str) : Str := if isBlank l then (if l.length < 5 then lstripSp l else l.drop 4) else l.drop 4

/-- the count of trailing "\n" lines `BlockCode.read` keeps -/
def tbStep (tb : Nat) (l : Str) : Nat := if isBlank l then (if l == ['\n'] then tb + 1 else 0) else 0

/-- a line of an indented code block: whitespace only, or four spaces and more -/
def CodeLine (l : Str) : Prop := isBlank l = true ∨ (isBlank l = false ∧ ∃ t, l = ind4 t)

theorem blockCodeLoop_run (post : List Line) (start : Nat) :
    ∀ (cs pre : List Line) (buf : List Str) (fuel tb : Nat), (∀ x ∈ cs, CodeLine x.s) →
      blockCodeLoop (fuel + cs.length) ⟨pre ++ (cs ++ post), pre.length, start⟩ buf tb =
        blockCodeLoop fuel ⟨(pre ++ cs) ++ post, (pre ++ cs).length, start⟩ ((cs.map (fun x => codePiece x.s)).reverse ++ buf)
          ((cs.map (·.s)).foldl tbStep tb)
  | [], pre, buf, fuel, tb, _ => by simp
  | x :: cs, pre, buf, fuel, tb, h => by
    have e : fuel + (x :: cs).length = (fuel + cs.length) + 1 := by simp; omega
    rw [e, List.cons_append]
    rcases h x (by simp) with hb | ⟨hnb, t, ht⟩
    · have ih := blockCodeLoop_run post start cs (pre ++ [x]) (codePiece x.s :: buf) fuel (tbStep tb x.s)
        (fun y hy => h y (List.mem_cons_of_mem _ hy))
      simp only [blockCodeLoop, peek_at, hb, if_true, MdRound.fw_next]
      have e1 : (if x.s.length < 5 then lstripSp x.s else x.s.drop 4) = codePiece x.s := by simp [codePiece, hb]
      have e2 : (if x.s == ['\n'] then tb + 1 else 0) = tbStep tb x.s := by simp [tbStep, hb]
      rw [e1, e2, ih]
      simp
    · have ih := blockCodeLoop_run post start cs (pre ++ [x]) (codePiece x.s :: buf) fuel (tbStep tb x.s)
        (fun y hy => h y (List.mem_cons_of_mem _ hy))
      have hs : blockCodeStart x.s = true := by rw [ht]; exact ind4_blockCodeStart t
      have hst : blockCodeStrip x.s 0 = codePiece x.s := by
        simp only [codePiece, hnb, Bool.false_eq_true, if_false]
        rw [ht, ind4_strip]; rfl
      have e2 : 0 = tbStep tb x.s := by simp [tbStep, hnb]
      simp only [blockCodeLoop, peek_at, hnb, hs, hst, Bool.false_eq_true, if_false, Bool.not_true, MdRound.fw_next]
      rw [e2, ih]
      simp

theorem tb_last (cs : List Str) (x : Str) (hx : isBlank x = false) (tb : Nat) : (cs ++ [x]).foldl tbStep tb = 0 := by
  simp [List.foldl_append, tbStep, hx]

/-- what follows an indented code block: the end of the buffer, or a "\n" line and then the end or a line that is neither
    blank nor indented code -/
def CodeStop (post : List Line) : Prop :=
  post = [] ∨ ∃ b rest, post = b :: rest ∧ b.s = ['\n'] ∧ ∀ x, rest.head? = some x → isBlank x.s = false ∧ blockCodeStart x.s = false

theorem readBlockCode_run (cs : List Line) (last : Line) (pre post : List Line) (start : Nat)
    (h : ∀ x ∈ cs ++ [last], CodeLine x.s) (hl : isBlank last.s = false) (hp : CodeStop post) :
    readBlockCode ⟨pre ++ ((cs ++ [last]) ++ post), pre.length, start⟩ =
      ((cs ++ [last]).map (fun x => codePiece x.s), ⟨(pre ++ (cs ++ [last])) ++ post, (pre ++ (cs ++ [last])).length, start⟩) := by
  unfold readBlockCode
  have htb : ∀ tb, ((cs ++ [last]).map (·.s)).foldl tbStep tb = 0 := by
    intro tb; rw [List.map_append]; exact tb_last _ _ hl tb
  rcases hp with rfl | ⟨b, rest, rfl, hb, hx⟩
  · have e : FW.remaining ⟨pre ++ ((cs ++ [last]) ++ []), pre.length, start⟩ + 1 = 1 + (cs ++ [last]).length := by
      simp [FW.remaining]; omega
    rw [e, blockCodeLoop_run [] start (cs ++ [last]) pre [] 1 0 h, htb]
    simp only [List.append_nil, blockCodeLoop, peek_end]
    simp
  · have hbb : isBlank b.s = true := by rw [hb]; decide
    cases rest with
    | nil =>
      have e : FW.remaining ⟨pre ++ ((cs ++ [last]) ++ [b]), pre.length, start⟩ + 1 = 2 + (cs ++ [last]).length := by
        simp [FW.remaining]; omega
      rw [e, blockCodeLoop_run [b] start (cs ++ [last]) pre [] 2 0 h, htb]
      have e2 : (2 : Nat) = (0 + 1) + 1 := rfl
      rw [e2]
      simp only [blockCodeLoop, peek_at, hbb, if_true, MdRound.fw_next]
      have : FW.peek ⟨((pre ++ (cs ++ [last])) ++ [b]) ++ [], ((pre ++ (cs ++ [last])) ++ [b]).length, start⟩ = none := by
        simp [FW.peek]
      simp only [this, hb]
      simp
    | cons x post' =>
      obtain ⟨hx1, hx2⟩ := hx x rfl
      have e : FW.remaining ⟨pre ++ ((cs ++ [last]) ++ b :: x :: post'), pre.length, start⟩ + 1 = (post'.length + 3) + (cs ++ [last]).length := by
        simp [FW.remaining]; omega
      rw [e, blockCodeLoop_run (b :: x :: post') start (cs ++ [last]) pre [] (post'.length + 3) 0 h, htb]
      have e2 : post'.length + 3 = ((post'.length + 1) + 1) + 1 := by omega
      rw [e2]
      simp only [blockCodeLoop, peek_at, hbb, if_true, MdRound.fw_next]
      simp only [hx1, hx2, hb, Bool.false_eq_true, if_false, Bool.not_false, if_true]
      simp [FW.backstep]

/-- an indented code block under the default token list: `BlockCode` is the first type that starts on its first line -/
theorem tokLoop_icode_step (ti : Bool) (g : Nat) (cs : List Line) (last : Line) (pre post : List Line)
    (h : ∀ x ∈ cs ++ [last], CodeLine x.s) (hl : isBlank last.s = false)
    (hfirst : ∀ x, (cs ++ [last]).head? = some x → isBlank x.s = false)
    (hp : CodeStop post) (start : Nat) (st : St) (acc : List Entry) (loose : Bool) :
    tokLoop (dcfg ti) (g + 8) ⟨pre ++ ((cs ++ [last]) ++ post), pre.length, start⟩ st acc loose =
      tokLoop (dcfg ti) (g + 7) ⟨(pre ++ (cs ++ [last])) ++ post, (pre ++ (cs ++ [last])).length, start⟩ st
        (.blockCode ((cs ++ [last]).map (fun x => codePiece x.s)) (start + pre.length)
          (((cs ++ [last]).head?.map (·.origin)).getD 0) :: acc) loose := by
  have hrd := readBlockCode_run cs last pre post start h hl hp
  obtain ⟨l, tl, hlt⟩ : ∃ l tl, cs ++ [last] = l :: tl := by
    cases cs with
    | nil => exact ⟨last, [], rfl⟩
    | cons a b => exact ⟨a, b ++ [last], rfl⟩
  rw [hlt] at hrd hfirst h ⊢
  have hnb := hfirst l rfl
  obtain ⟨t, ht⟩ : ∃ t, l.s = ind4 t := by
    rcases h l (by simp) with hb | ⟨_, t, ht⟩
    · rw [hb] at hnb; cases hnb
    · exact ⟨t, ht⟩
  have f3 : htmlBlockStart l.s = .ok none := by rw [ht]; exact ind4_html t
  have f4 : blockCodeStart l.s = true := by rw [ht]; exact ind4_blockCodeStart t
  have e : g + 8 = ((g + 5) + 1 + 1) + 1 := by omega
  rw [e]
  simp only [List.cons_append] at hrd ⊢
  simp only [tokLoop, peek_at, dcfg, defaultTypes, tryTypes, f3, f4, hrd, if_true, List.head?_cons, Option.map_some, Option.getD_some]

/-! ### Table rows as written, and `TableRow.__init__` on them -/

open Mistletoe.Document (joinNl mkBlock mkBlocks mkItems parseAlign splitPipes unescapePipes zipLongest tableRow tableRows mapRes)
open Mistletoe.InertInline (lstrip_of_head rstrip_of_last)

/-- `'|'.join(cells)` -/
def joinBar : List Str → Str
  | [] => []
  | c :: rest =>
    match rest with
    | [] => c
    | _ :: _ => c ++ '|' :: joinBar rest

/-- A table row as written: the cells as they stand between the pipes (with their padding), with or without a pipe before
    the first and behind the last cell. -/
structure Row where
  lead : Bool
  trail : Bool
  cells : List Str

/-- the row without its line end -/
def Row.body (r : Row) : Str := (if r.lead then ['|'] else []) ++ (joinBar r.cells ++ (if r.trail then ['|'] else []))
def Row.line (r : Row) : Str := r.body ++ ['\n']

/-- a cell as written: not empty (`TableRow.__init__` drops empty strings between two pipes: an empty cell is written with
    at least one space); no `|` and no backslash; without its padding it is empty or inert one-line text -/
def cellOk (c : Str) : Bool :=
  !c.isEmpty && c.all (fun x => x != '|' && x != '\\') && ((strip c).isEmpty || inertText (strip c))

/-- a row as written: at least one cell, every cell `cellOk`; the row begins and ends with a visible character (a pipe, or
    the first / last character of the first / last cell: leading whitespace would be indentation, trailing whitespace is
    not written); it has a `|` (with one cell: a leading or trailing pipe), is one complete line and has no tab -/
def rowOk (r : Row) : Bool :=
  !r.cells.isEmpty && r.cells.all cellOk
    && (match r.body.head? with | some c => !pyIsSpace c | none => false)
    && (match r.body.getLast? with | some c => !pyIsSpace c | none => false)
    && r.line.contains '|' && oneLine r.line && !r.line.contains '\t'

structure RowFacts (r : Row) : Prop where
  ne : r.cells ≠ []
  cells : ∀ c ∈ r.cells, cellOk c = true
  strip : strip r.line = r.body
  bar : r.line.contains '|' = true
  line : LineOk r.line

theorem strip_line (c : Char) (r : Str) (hc : pyIsSpace c = false)
    (hl : ∀ d, (c :: r).getLast? = some d → pyIsSpace d = false) : strip ((c :: r) ++ ['\n']) = c :: r := by
  unfold strip
  rw [List.cons_append, lstrip_of_head c _ hc]
  have e : rstrip (c :: (r ++ ['\n'])) = rstrip (c :: r) := by
    unfold rstrip
    have : (c :: (r ++ ['\n'])).reverse = '\n' :: (c :: r).reverse := by simp
    rw [this]
    have hnl : pyIsSpace '\n' = true := by decide
    simp only [lstrip, hnl, if_true]
  rw [e, rstrip_of_last (c :: r) hl]

theorem rowFacts_of (r : Row) (h : rowOk r = true) : RowFacts r := by
  simp only [rowOk, Bool.and_eq_true, Bool.not_eq_eq_eq_not, Bool.not_true, List.isEmpty_eq_false_iff, List.all_eq_true] at h
  obtain ⟨⟨⟨⟨⟨⟨h0, h1⟩, h2⟩, h3⟩, h4⟩, h5⟩, h6⟩ := h
  refine ⟨h0, h1, ?_, h4, lineOk_of _ h5 h6⟩
  unfold Row.line
  cases hb : r.body with
  | nil => rw [hb] at h2; simp at h2
  | cons c rest =>
    rw [hb] at h2 h3
    apply strip_line c rest
    · simpa using h2
    · intro d hd
      rw [hd] at h3
      simpa using h3

theorem splitPipes_plain : ∀ (c : Str) (prev : Option Char) (cur : Str), '|' ∉ c → splitPipes c prev cur = [cur.reverse ++ c]
  | [], _, _, _ => by simp [splitPipes]
  | x :: c, prev, cur, h => by
    have hx : x ≠ '|' := by intro e; exact h (by simp [e])
    have hc : '|' ∉ c := by intro e; exact h (List.mem_cons_of_mem _ e)
    have e : (x == '|' && prev != some '\\') = false := by simp [hx]
    simp only [splitPipes, e, Bool.false_eq_true, if_false]
    rw [splitPipes_plain c (some x) (x :: cur) hc]
    simp

theorem splitPipes_cell (rest : Str) : ∀ (c : Str) (prev : Option Char) (cur : Str), '|' ∉ c → '\\' ∉ c → prev ≠ some '\\' →
    splitPipes (c ++ '|' :: rest) prev cur = (cur.reverse ++ c) :: splitPipes rest (some '|') []
  | [], prev, cur, _, _, hp => by
    simp [splitPipes, hp]
  | x :: c, prev, cur, h, hb, _ => by
    have hx : x ≠ '|' := by intro e; exact h (by simp [e])
    have hx2 : x ≠ '\\' := by intro e; exact hb (by simp [e])
    have hc : '|' ∉ c := by intro e; exact h (List.mem_cons_of_mem _ e)
    have hc2 : '\\' ∉ c := by intro e; exact hb (List.mem_cons_of_mem _ e)
    have e : (x == '|' && prev != some '\\') = false := by simp [hx]
    simp only [List.cons_append, splitPipes, e, Bool.false_eq_true, if_false]
    rw [splitPipes_cell rest c (some x) (x :: cur) hc hc2 (by simpa using hx2)]
    simp

theorem joinBar_cons2 (c c' : Str) (r : List Str) : joinBar (c :: c' :: r) = c ++ '|' :: joinBar (c' :: r) := by simp [joinBar]

theorem splitPipes_cells (trail : Bool) : ∀ (cells : List Str), cells ≠ [] → (∀ c ∈ cells, '|' ∉ c ∧ '\\' ∉ c) →
    ∀ (prev : Option Char), prev ≠ some '\\' →
    splitPipes (joinBar cells ++ (if trail then ['|'] else [])) prev [] = cells ++ (if trail then [[]] else [])
  | [], h, _, _, _ => absurd rfl h
  | [c], _, hc, prev, hp => by
    obtain ⟨h1, h2⟩ := hc c (by simp)
    cases trail with
    | false => simp [joinBar, splitPipes_plain c prev [] h1]
    | true =>
      simp only [joinBar, if_true]
      rw [show c ++ ['|'] = c ++ '|' :: [] from rfl, splitPipes_cell [] c prev [] h1 h2 hp]
      simp [splitPipes]
  | c :: c' :: r, _, hc, prev, hp => by
    obtain ⟨h1, h2⟩ := hc c (by simp)
    rw [joinBar_cons2, List.append_assoc, List.cons_append, splitPipes_cell _ c prev [] h1 h2 hp,
      splitPipes_cells trail (c' :: r) (by simp) (fun x hx => hc x (List.mem_cons_of_mem _ hx)) (some '|') (by decide)]
    simp

theorem cellOk_parts (c : Str) (h : cellOk c = true) :
    c ≠ [] ∧ '|' ∉ c ∧ '\\' ∉ c ∧ ((strip c) = [] ∨ inertText (strip c) = true) := by
  simp only [cellOk, Bool.and_eq_true, Bool.not_eq_eq_eq_not, Bool.not_true, List.isEmpty_eq_false_iff, List.all_eq_true,
    bne_iff_ne, ne_eq, Bool.or_eq_true, List.isEmpty_iff] at h
  refine ⟨h.1.1, fun hm => (h.1.2 _ hm).1 rfl, fun hm => (h.1.2 _ hm).2 rfl, h.2⟩

/-- the cells `TableRow.__init__` finds in a written row -/
theorem row_cells (r : Row) (h : RowFacts r) :
    (splitPipes (strip r.line) none []).filter (fun c => !c.isEmpty) = r.cells := by
  rw [h.strip]
  have hc : ∀ c ∈ r.cells, '|' ∉ c ∧ '\\' ∉ c := fun c hm => ⟨(cellOk_parts c (h.cells c hm)).2.1, (cellOk_parts c (h.cells c hm)).2.2.1⟩
  have hne : ∀ c ∈ r.cells, (!c.isEmpty) = true := by
    intro c hm
    have := (cellOk_parts c (h.cells c hm)).1
    simpa using this
  have hf : r.cells.filter (fun c => !c.isEmpty) = r.cells := List.filter_eq_self.mpr hne
  unfold Row.body
  cases r.lead with
  | false =>
    simp only [Bool.false_eq_true, if_false, List.nil_append]
    rw [splitPipes_cells r.trail r.cells h.ne hc none (by simp), List.filter_append, hf]
    cases r.trail <;> simp
  | true =>
    simp only [if_true, List.singleton_append, splitPipes]
    simp only [beq_self_eq_true, Bool.true_and, bne_iff_ne, ne_eq, reduceCtorEq, not_false_eq_true, if_true, List.reverse_nil]
    rw [splitPipes_cells r.trail r.cells h.ne hc (some '|') (by decide), List.filter_cons, List.filter_append, hf]
    cases r.trail <;> simp

theorem unescapePipes_id : ∀ (fuel : Nat) (prev : Option Char) (s : Str), '\\' ∉ s → unescapePipes fuel prev s = s
  | 0, _, _, _ => rfl
  | _ + 1, _, [], _ => rfl
  | fuel + 1, prev, c :: rest, h => by
    have hc : c ≠ '\\' := by intro e; exact h (by simp [e])
    have hr : '\\' ∉ rest := by intro e; exact h (List.mem_cons_of_mem _ e)
    have hk : countLeading '\\' (c :: rest) = 0 := by simp [countLeading, hc]
    simp only [unescapePipes, hk]
    simp [unescapePipes_id fuel (some c) rest hr]

/-- the inline content of a cell: nothing for an empty cell, one `RawText` otherwise -/
def cellInl (t : Str) : List Inline := if t.isEmpty then [] else [.rawText t]

/-- the cells of a row under the column alignments (`zip_longest`): a row with fewer cells than columns is filled up with
    empty cells; the cells of a row with MORE cells than columns are all kept, the extra ones with alignment `None` -/
def cellsOf (ln : Nat) : List Str → List (Option Nat) → List Mistletoe.Block
  | [], as => as.map (fun a => .tableCell a [] ln)
  | c :: cs, [] => .tableCell none (cellInl (strip c)) ln :: cellsOf ln cs []
  | c :: cs, a :: as => .tableCell a (cellInl (strip c)) ln :: cellsOf ln cs as

theorem inl_cell (cfg : Document.Cfg) (fn : Footnotes.Table) (ht : ∀ t ∈ cfg.span, inertClass t = true) (t : Str)
    (h : t = [] ∨ inertText t = true) : Document.inl cfg fn t = .ok (cellInl t) := by
  unfold Document.inl cellInl
  cases t with
  | nil =>
    exact InertInline.tokenizeInner_no_candidates_nil cfg.span fn (InertInline.findAll_inert [] cfg.span fn ht (by decide))
  | cons c r =>
    rcases h with h | h
    · cases h
    · simpa using InertInline.tokenizeInner_inert cfg.span fn (c :: r) ht h (by simp)

theorem inl_nil (cfg : Document.Cfg) (fn : Footnotes.Table) (ht : ∀ t ∈ cfg.span, inertClass t = true) :
    Document.inl cfg fn [] = .ok [] := inl_cell cfg fn ht [] (Or.inl rfl)

theorem nobs_of (t : Str) (h : t = [] ∨ inertText t = true) : '\\' ∉ t := by
  rcases h with rfl | h
  · simp
  · simp only [inertText, inertBody, Bool.and_eq_true, List.all_eq_true] at h
    intro hm
    have := h.1.1.1.1.1.1 _ hm
    simp [InertInline.okChar] at this

theorem go_pad (cfg : Document.Cfg) (fn : Footnotes.Table) (ht : ∀ t ∈ cfg.span, inertClass t = true) (ln : Nat) :
    ∀ (as : List (Option Nat)), tableRow.go cfg fn ln (as.map (fun a => (none, a))) = .ok (as.map (fun a => .tableCell a [] ln))
  | [] => rfl
  | a :: as => by
    simp only [List.map_cons, tableRow.go, inl_nil cfg fn ht, go_pad cfg fn ht ln as]

theorem go_cells (cfg : Document.Cfg) (fn : Footnotes.Table) (ht : ∀ t ∈ cfg.span, inertClass t = true) (ln : Nat) :
    ∀ (cells : List Str) (as : List (Option Nat)), (∀ c ∈ cells, cellOk c = true) →
      tableRow.go cfg fn ln (zipLongest cells as) = .ok (cellsOf ln cells as)
  | [], as, _ => by simp only [zipLongest, cellsOf]; exact go_pad cfg fn ht ln as
  | c :: cs, [], h => by
    have hp := (cellOk_parts c (h c (by simp))).2.2.2
    have ih := go_cells cfg fn ht ln cs [] (fun x hx => h x (List.mem_cons_of_mem _ hx))
    simp only [zipLongest, cellsOf, tableRow.go, unescapePipes_id _ _ _ (nobs_of _ hp), inl_cell cfg fn ht _ hp, ih]
  | c :: cs, a :: as, h => by
    have hp := (cellOk_parts c (h c (by simp))).2.2.2
    have ih := go_cells cfg fn ht ln cs as (fun x hx => h x (List.mem_cons_of_mem _ hx))
    simp only [zipLongest, cellsOf, tableRow.go, unescapePipes_id _ _ _ (nobs_of _ hp), inl_cell cfg fn ht _ hp, ih]

/-- the `TableRow` token expected for a written row -/
def rowBlock (al : List (Option Nat)) (ln : Nat) (r : Row) : Mistletoe.Block := .tableRow al (cellsOf ln r.cells al) ln

def rowBlocks (al : List (Option Nat)) : Nat → List Row → List Mistletoe.Block
  | _, [] => []
  | ln, r :: rest => rowBlock al ln r :: rowBlocks al (ln + 1) rest

/-- **`TableRow(line, row_align, line_number)` on a written row** -/
theorem tableRow_row (cfg : Document.Cfg) (fn : Footnotes.Table) (ht : ∀ t ∈ cfg.span, inertClass t = true)
    (al : List (Option Nat)) (hal : al ≠ []) (ln : Nat) (r : Row) (h : RowFacts r) :
    tableRow cfg fn r.line al ln = .ok (rowBlock al ln r) := by
  unfold Document.tableRow
  have e : al.isEmpty = false := by simpa using hal
  simp only [e, Bool.false_eq_true, if_false, row_cells r h, go_cells cfg fn ht ln r.cells al h.cells, rowBlock]

theorem tableRows_rows (cfg : Document.Cfg) (fn : Footnotes.Table) (ht : ∀ t ∈ cfg.span, inertClass t = true)
    (al : List (Option Nat)) (hal : al ≠ []) : ∀ (rows : List Row) (ln : Nat), (∀ r ∈ rows, RowFacts r) →
    tableRows cfg fn (rows.map Row.line) al ln = .ok (rowBlocks al ln rows)
  | [], _, _ => rfl
  | r :: rest, ln, h => by
    simp only [List.map_cons, tableRows, tableRow_row cfg fn ht al hal ln r (h r (by simp)),
      tableRows_rows cfg fn ht al hal rest (ln + 1) (fun x hx => h x (List.mem_cons_of_mem _ hx)), rowBlocks]

/-! ### The delimiter row, and the two new kinds of leaves -/

open Mistletoe.ComposeC (sp dedent FenceOk fenceOkB FenceFacts fenceFacts_of ulOk UlOk ulOk_of tokLoop_fence_step tokenize_setext
  closeShape SxOk sxOk_false sxOk_after langOf fenceHtml flat_fence fenceHtml_ne)

/-- a cell of the delimiter row as written: spaces, an optional colon, one or more hyphens, an optional colon, spaces -/
structure DCell where
  padL : Nat
  cl : Bool
  dashes : Nat
  cr : Bool
  padR : Nat

def DCell.text (d : DCell) : Str :=
  sp d.padL ++ (if d.cl then [':'] else []) ++ List.replicate d.dashes '-' ++ (if d.cr then [':'] else []) ++ sp d.padR

/-- the alignment a delimiter cell gives its column, as `Table.parse_align` numbers it: `None` (left, also for `:--`),
    `0` (`:-:`, centre), `1` (`--:`, right) -/
def DCell.align (d : DCell) : Option Nat := if d.cr then (if d.cl then some 0 else some 1) else none

structure DRow where
  lead : Bool
  trail : Bool
  cells : List DCell

def DRow.line (d : DRow) : Str :=
  (if d.lead then ['|'] else []) ++ (joinBar (d.cells.map DCell.text) ++ (if d.trail then ['|'] else [])) ++ ['\n']
def DRow.aligns (d : DRow) : List (Option Nat) := d.cells.map DCell.align

def alignsB (s : Str) (al : List (Option Nat)) : Bool :=
  match mapRes parseAlign (findAligns s) with
  | .ok a => a == al
  | .err _ => false

/-- the delimiter row as written: one or more cells, each with at least one hyphen; it has a `|` (`Table.read` collects
    lines while they have one); and the facts about the scanners the proof uses - `Table.delimiter_row_pattern` matches the
    line and `column_align_pattern.findall` + `parse_align` give the alignments of the cells (every row of the shape has
    them; the example in `Proofs/ComposeTable2.lean` checks all small rows) -/
def drowOk (d : DRow) : Bool :=
  !d.cells.isEmpty && d.cells.all (fun c => decide (1 ≤ c.dashes)) && d.line.contains '|' && d.line.contains '-'
    && delimiterRow d.line && alignsB d.line d.aligns && oneLine d.line && !d.line.contains '\t'

structure DelimFacts (d : DRow) : Prop where
  ne : d.cells ≠ []
  bar : d.line.contains '|' = true
  dash : d.line.contains '-' = true
  row : delimiterRow d.line = true
  al : mapRes parseAlign (findAligns d.line) = .ok d.aligns
  line : LineOk d.line

theorem delimFacts_of (d : DRow) (h : drowOk d = true) : DelimFacts d := by
  simp only [drowOk, Bool.and_eq_true, Bool.not_eq_eq_eq_not, Bool.not_true, List.isEmpty_eq_false_iff] at h
  obtain ⟨⟨⟨⟨⟨⟨⟨h0, _⟩, h2⟩, h3⟩, h4⟩, h5⟩, h6⟩, h7⟩ := h
  refine ⟨h0, h2, h3, h4, ?_, lineOk_of _ h6 h7⟩
  unfold alignsB at h5
  split at h5
  · rename_i a ha
    rw [ha, eq_of_beq h5]
  · cases h5

/-- The two new kinds of leaves.
    * `table hdr del rows`: a GFM table - the header row, the delimiter row, the body rows, each as written.
    * `icode lines`: an indented code block - the lines as written. -/
inductive Leaf where
  | table (hdr : Row) (del : DRow) (rows : List Row)
  | icode (lines : List Str)

def Leaf.write : Leaf → List Str
  | .table h d rows => h.line :: d.line :: rows.map Row.line
  | .icode ls => ls

/-- a line of an indented code block as written: one complete line without a tab; whitespace only, or four spaces and more -/
def codeLineB (l : Str) : Bool := oneLine l && !l.contains '\t' && (isBlank l || startsWith [' ', ' ', ' ', ' '] l)

/-- well-formedness of a leaf (decidable).
    Table: header and body rows `rowOk`; no other block starts on the header line (`headFactsB`: it is not indented code, an
    ATX heading, a quote, a fence, a thematic break, a list item or an HTML block - automatic when it begins with a pipe);
    the delimiter row `drowOk`; the header has as many cells as the delimiter row (GFM asks for that; the body rows may have
    fewer or more).
    Indented code: every line `codeLineB`; the first and the last line have a visible character. -/
def Leaf.ok : Leaf → Bool
  | .table h d rows => rowOk h && headFactsB h.line && drowOk d && decide (h.cells.length = d.cells.length) && rows.all rowOk
  | .icode ls => ls.all codeLineB && (match ls.head? with | some l => !isBlank l | none => false)
      && (match ls.getLast? with | some l => !isBlank l | none => false)

def Leaf.isCode : Leaf → Bool
  | .icode _ => true
  | _ => false

/-- the parse-buffer entry expected for a leaf whose first line is line `n` -/
def Leaf.entry (n : Nat) : Leaf → Entry
  | .table h d rows => .table (h.line :: d.line :: rows.map Row.line) n n n
  | .icode ls => .blockCode (ls.map codePiece) n n

/-- the content of an indented code block: what `BlockCode.read` keeps of the lines, joined -/
def codeContent (ls : List Str) : Str := Document.stripNl (ls.map codePiece).flatten ++ ['\n']

/-- the block token expected for a leaf: a `Table` with the column alignments, the header `TableRow` (line `n`) and the
    body `TableRow`s (lines `n + 2`, …), each with its `TableCell`s; a `BlockCode` with the content -/
def Leaf.block (n : Nat) : Leaf → Mistletoe.Block
  | .table h d rows => .table d.aligns [rowBlock d.aligns n h] (rowBlocks d.aligns (n + 2) rows) n
  | .icode ls => .blockCode (codeContent ls) n

structure TableFacts (h : Row) (d : DRow) (rows : List Row) : Prop where
  hdr : RowFacts h
  head : HeadFacts h.line
  del : DelimFacts d
  rows : ∀ r ∈ rows, RowFacts r

theorem tableFacts_of (h : Row) (d : DRow) (rows : List Row) (hok : (Leaf.table h d rows).ok = true) : TableFacts h d rows := by
  simp only [Leaf.ok, Bool.and_eq_true, List.all_eq_true] at hok
  obtain ⟨⟨⟨⟨h0, h1⟩, h2⟩, _⟩, h4⟩ := hok
  exact ⟨rowFacts_of h h0, headFacts_of _ h1, delimFacts_of d h2, fun r hr => rowFacts_of r (h4 r hr)⟩

structure CodeFacts (ls : List Str) : Prop where
  ne : ls ≠ []
  lines : ∀ l ∈ ls, LineOk l ∧ CodeLine l
  first : ∀ l, ls.head? = some l → isBlank l = false
  last : ∀ l, ls.getLast? = some l → isBlank l = false

theorem ind4_of_prefix (l : Str) (h : startsWith [' ', ' ', ' ', ' '] l = true) : ∃ t, l = ind4 t := by
  obtain ⟨t, rfl⟩ := List.isPrefixOf_iff_prefix.mp h
  exact ⟨t, rfl⟩

theorem codeFacts_of (ls : List Str) (hok : (Leaf.icode ls).ok = true) : CodeFacts ls := by
  simp only [Leaf.ok, Bool.and_eq_true, List.all_eq_true] at hok
  obtain ⟨⟨h0, h1⟩, h2⟩ := hok
  refine ⟨?_, ?_, ?_, ?_⟩
  · intro e; subst e; simp at h1
  · intro l hl
    have := h0 l hl
    simp only [codeLineB, Bool.and_eq_true, Bool.not_eq_eq_eq_not, Bool.not_true, Bool.or_eq_true] at this
    refine ⟨lineOk_of l this.1.1 this.1.2, ?_⟩
    cases hb : isBlank l with
    | true => exact Or.inl hb
    | false =>
      rcases this.2 with h | h
      · rw [hb] at h; cases h
      · exact Or.inr ⟨hb, ind4_of_prefix l h⟩
  · intro l hl; rw [hl] at h1; simpa using h1
  · intro l hl; rw [hl] at h2; simpa using h2

theorem leaf_lineOk : ∀ (l : Leaf), l.ok = true → (∀ s ∈ l.write, LineOk s) ∧ l.write ≠ []
  | .table h d rows, hok => by
    have hf := tableFacts_of h d rows hok
    refine ⟨?_, by simp [Leaf.write]⟩
    intro s hs
    simp only [Leaf.write, List.mem_cons, List.mem_map] at hs
    rcases hs with rfl | rfl | ⟨r, hr, rfl⟩
    · exact hf.hdr.line
    · exact hf.del.line
    · exact (hf.rows r hr).line
  | .icode ls, hok => by
    have hf := codeFacts_of ls hok
    exact ⟨fun s hs => (hf.lines s hs).1, hf.ne⟩

theorem leaf_entry_shift (j n : Nat) : ∀ (l : Leaf), shiftEntry j (l.entry n) = l.entry (n + j)
  | .table .. => rfl
  | .icode _ => rfl

/-- **a written table alone in its buffer** -/
theorem tokenize_leaf_table (ti : Bool) (h : Row) (d : DRow) (rows : List Row) (hok : (Leaf.table h d rows).ok = true)
    (k : Nat) (st : St) (gas : Nat) (hg : 11 ≤ gas) :
    tokenizeBlock (dcfg ti) gas (numbered k (Leaf.table h d rows).write) (k + 1) st =
      .ok ({ entries := [(Leaf.table h d rows).entry (k + 1)], loose := false }, st) := by
  have hf := tableFacts_of h d rows hok
  obtain ⟨g, rfl⟩ : ∃ g, gas = g + 11 := ⟨gas - 11, by omega⟩
  have := tokenize_table ti { s := h.line, origin := k + 1 } { s := d.line, origin := k + 1 + 1 } (numbered (k + 1 + 1) (rows.map Row.line))
    hf.head hf.del.bar hf.del.row
    (by
      intro x hx
      have := numbered_mem _ _ _ hx
      obtain ⟨r, hr, e⟩ := List.mem_map.mp this
      rw [← e]; exact (hf.rows r hr).bar)
    (k + 1) st g
  simp only [Leaf.write, numbered_cons, Leaf.entry]
  rw [this, numbered_s]

/-- **a written indented code block**: entered on its first line, the dispatcher adds the `BlockCode` entry and stands on
    the line behind the block, when that is the end of the buffer or a "\n" line followed by the end or by a line that is
    neither blank nor indented code -/
theorem tokLoop_leaf_icode (ti : Bool) (ls : List Str) (hok : (Leaf.icode ls).ok = true) (post : List Line) (hp : CodeStop post)
    (k : Nat) (st : St) (g : Nat) (acc : List Entry) (lo : Bool) :
    tokLoop (dcfg ti) (g + 8) ⟨numbered k ls ++ post, 0, k + 1⟩ st acc lo =
      tokLoop (dcfg ti) (g + 7) ⟨numbered k ls ++ post, ls.length, k + 1⟩ st ((Leaf.icode ls).entry (k + 1) :: acc) lo := by
  have hf := codeFacts_of ls hok
  obtain ⟨cs, last, hcl⟩ : ∃ cs last, numbered k ls = cs ++ [last] := by
    have hne : numbered k ls ≠ [] := by
      intro e; have := congrArg List.length e; rw [numbered_length] at this; exact hf.ne (List.eq_nil_of_length_eq_zero this)
    exact ⟨_, _, (List.dropLast_concat_getLast hne).symm⟩
  have hmem : ∀ x ∈ cs ++ [last], CodeLine x.s := by
    intro x hx; rw [← hcl] at hx; exact (hf.lines _ (numbered_mem _ _ _ hx)).2
  have hs : (cs ++ [last]).map (·.s) = ls := by rw [← hcl]; exact numbered_s k ls
  have hlast : isBlank last.s = false := by
    apply hf.last
    rw [← hs]; simp
  have hfirst : ∀ x, (cs ++ [last]).head? = some x → isBlank x.s = false := by
    intro x hx
    apply hf.first
    rw [← hs, List.head?_map, hx]; rfl
  have ho : ((cs ++ [last]).head?.map (·.origin)).getD 0 = k + 1 := by
    rw [← hcl]
    obtain ⟨l0, tl, hl, ho⟩ := numbered_ne k ls hf.ne
    rw [hl]; simpa using ho
  have := tokLoop_icode_step ti g cs last [] post hmem hlast hfirst hp (k + 1) st acc lo
  simp only [List.nil_append, List.length_nil, Nat.add_zero, ho] at this
  have hm : (cs ++ [last]).map (fun x => codePiece x.s) = ls.map codePiece := by
    rw [← hs, List.map_map]; rfl
  rw [hm] at this
  rw [hcl, this]
  have hlen : (cs ++ [last]).length = ls.length := by rw [← hcl, numbered_length]
  rw [hlen]
  rfl

/-! ### The token constructors and the HTML of the new leaves -/

open Mistletoe.Html Mistletoe.Escape
open Mistletoe.InertInline (flat_append)
open Mistletoe.ComposeL (flat_cons2)

theorem mkBlock_leaf (cfg : Document.Cfg) (fn : Footnotes.Table) (ht : ∀ t ∈ cfg.span, inertClass t = true) :
    ∀ (l : Leaf), l.ok = true → ∀ (n : Nat), mkBlock cfg fn (l.entry n) = .ok (some (l.block n))
  | .table h d rows, hok, n => by
    have hf := tableFacts_of h d rows hok
    have hal : d.aligns ≠ [] := by simpa [DRow.aligns] using hf.del.ne
    simp only [Leaf.entry, Leaf.block, mkBlock, hf.del.dash, if_true, hf.del.al, tableRow_row cfg fn ht _ hal n h hf.hdr,
      tableRows_rows cfg fn ht _ hal rows (n + 2) hf.rows]
  | .icode ls, _, n => by simp only [Leaf.entry, Leaf.block, mkBlock, codeContent]

/-- `<th align="…">text</th>` + newline (`<td` in the body); the text with `&`, `<`, `>` (and the quotes, as the options
    say) escaped -/
def cellHtml (q : Quotes) (th : Bool) (a : Option Nat) (t : Str) : Str :=
  (if th then ['<', 't', 'h'] else ['<', 't', 'd']) ++ [' ', 'a', 'l', 'i', 'g', 'n', '=', '"'] ++ alignName a ++ ['"', '>']
    ++ escapeHtmlText q.dq q.sq t ++ (if th then ['<', '/', 't', 'h', '>', '\n'] else ['<', '/', 't', 'd', '>', '\n'])

def padHtml (q : Quotes) (th : Bool) : List (Option Nat) → Str
  | [] => []
  | a :: as => cellHtml q th a [] ++ padHtml q th as

/-- the cells of a row under the column alignments, as `cellsOf` -/
def cellsHtml (q : Quotes) (th : Bool) : List Str → List (Option Nat) → Str
  | [], as => padHtml q th as
  | c :: cs, [] => cellHtml q th none (strip c) ++ cellsHtml q th cs []
  | c :: cs, a :: as => cellHtml q th a (strip c) ++ cellsHtml q th cs as

def rowHtml (q : Quotes) (th : Bool) (al : List (Option Nat)) (r : Row) : Str :=
  ['<', 't', 'r', '>', '\n'] ++ cellsHtml q th r.cells al ++ ['<', '/', 't', 'r', '>', '\n']

def rowsHtml (q : Quotes) (al : List (Option Nat)) : List Row → Str
  | [] => []
  | r :: rest => rowHtml q false al r ++ rowsHtml q al rest

/-- `<table>`, `<thead>` with the header row, `<tbody>` with the body rows (present also when there is no body row),
    `</table>` -/
def tableHtml (q : Quotes) (h : Row) (d : DRow) (rows : List Row) : Str :=
  "<table>\n<thead>\n".toList ++ rowHtml q true d.aligns h ++ "</thead>\n<tbody>\n".toList ++ rowsHtml q d.aligns rows
    ++ "</tbody>\n</table>".toList

def Leaf.html (q : Quotes) : Leaf → Str
  | .table h d rows => tableHtml q h d rows
  | .icode ls => fenceHtml q [] (codeContent ls)

theorem escape_nil (q : Quotes) : escapeHtmlText q.dq q.sq [] = [] := by simp [escapeHtmlText, mapChars]

theorem flat_cell (q : Quotes) (th : Bool) (a : Option Nat) (t : Str) (ln : Nat) :
    flat (renderCell q th (.tableCell a (cellInl t) ln)) = cellHtml q th a t := by
  have e1 : "th".toList = ['t', 'h'] := by decide
  have e2 : "td".toList = ['t', 'd'] := by decide
  have e3 : "align".toList = ['a', 'l', 'i', 'g', 'n'] := by decide
  have hin : flat (renderInlines q (cellInl t)) = escapeHtmlText q.dq q.sq t := by
    cases t with
    | nil => simp [cellInl, renderInlines, flat, escape_nil]
    | cons c r => simp [cellInl, renderInlines, renderInline, flat, flatEv]
  simp only [renderCell, flat_append, hin, cellHtml, e1, e2, e3]
  cases th <;> simp [flat, flatEv, flatAttrs, nl]

theorem flat_pad (q : Quotes) (th : Bool) (ln : Nat) : ∀ (as : List (Option Nat)),
    flat (renderCells q th (as.map (fun a => .tableCell a [] ln))) = padHtml q th as
  | [] => rfl
  | a :: as => by
    have := flat_cell q th a [] ln
    simp only [cellInl, List.isEmpty_nil, if_true] at this
    simp only [List.map_cons, renderCells, flat_append, this, flat_pad q th ln as, padHtml]

theorem flat_cells (q : Quotes) (th : Bool) (ln : Nat) : ∀ (cells : List Str) (as : List (Option Nat)),
    flat (renderCells q th (cellsOf ln cells as)) = cellsHtml q th cells as
  | [], as => by simp only [cellsOf, cellsHtml]; exact flat_pad q th ln as
  | c :: cs, [] => by simp only [cellsOf, cellsHtml, renderCells, flat_append, flat_cell, flat_cells q th ln cs []]
  | c :: cs, a :: as => by simp only [cellsOf, cellsHtml, renderCells, flat_append, flat_cell, flat_cells q th ln cs as]

theorem flat_row (q : Quotes) (s : Bool) (th : Bool) (al : List (Option Nat)) (ln : Nat) (r : Row) :
    flat (renderRow q s th (rowBlock al ln r)) = rowHtml q th al r := by
  have e1 : "tr".toList = ['t', 'r'] := by decide
  simp only [rowBlock, renderRow, flat_append, flat_cells, rowHtml, e1]
  simp [flat, flatEv, flatAttrs, nl]

theorem flat_row_block (q : Quotes) (s : Bool) (al : List (Option Nat)) (ln : Nat) (r : Row) :
    flat (renderBlock q s (rowBlock al ln r)) = rowHtml q false al r := by
  have e1 : "tr".toList = ['t', 'r'] := by decide
  simp only [rowBlock, renderBlock, flat_append, flat_cells, rowHtml, e1]
  simp [flat, flatEv, flatAttrs, nl]

theorem flat_rows (q : Quotes) (s : Bool) (al : List (Option Nat)) : ∀ (rows : List Row) (ln : Nat),
    flat (renderCat q s (rowBlocks al ln rows)) = rowsHtml q al rows
  | [], _ => rfl
  | r :: rest, ln => by
    simp only [rowBlocks, renderCat, flat_append, flat_row_block, flat_rows q s al rest (ln + 1), rowsHtml]

theorem flat_leaf (q : Quotes) (s : Bool) (n : Nat) : ∀ (l : Leaf), flat (renderBlock q s (l.block n)) = l.html q
  | .table h d rows => by
    have e1 : flat [Ev.otag "table".toList [], nl] ++ flat [Ev.otag "thead".toList [], nl] = "<table>\n<thead>\n".toList := by decide +kernel
    have e2 : flat [Ev.ctag "thead".toList, nl] ++ flat [Ev.otag "tbody".toList [], nl] = "</thead>\n<tbody>\n".toList := by decide +kernel
    have e3 : flat [Ev.ctag "tbody".toList, nl] ++ flat [Ev.ctag "table".toList] = "</tbody>\n</table>".toList := by decide +kernel
    simp only [Leaf.block, Leaf.html, tableHtml, renderBlock, flat_append, flat_row, flat_rows]
    rw [← e1, ← e2, ← e3]
    simp only [List.append_assoc]
  | .icode ls => by
    simp only [Leaf.block, Leaf.html, renderBlock]
    exact flat_fence q [] _

theorem leaf_html_ne (q : Quotes) : ∀ (l : Leaf), l.html q ≠ []
  | .table h d rows => by
    simp only [Leaf.html, tableHtml]
    have e : "<table>\n<thead>\n".toList = '<' :: "table>\n<thead>\n".toList := by decide
    rw [e]
    simp
  | .icode ls => by simp only [Leaf.html]; exact fenceHtml_ne _ _ _

end Mistletoe.ComposeT
