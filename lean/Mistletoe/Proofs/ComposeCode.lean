/-
  Composition of the block-level theorems, FENCED CODE BLOCKS included (C03, third fragment).
-/
import Mistletoe.Proofs.ComposeLists2
import Mistletoe.Proofs.MdRoundCode
namespace Mistletoe.ComposeC
open Mistletoe Mistletoe.Py Mistletoe.Scan Mistletoe.Compose
open Mistletoe.Block hiding numbered numbered_cons numbered_append
open Mistletoe.Props.C14 (defaultTypes inertLine numbered numbered_cons numbered_append numbered_length numbered_mem numbered_s)
open Mistletoe.InertInline (inertBody inertText proseLine oneLine proseInlines inertClass)
open Mistletoe.Props.C04 (indentDoc itemDocOk)
open Mistletoe.Html (natDigits)
open Mistletoe.MdRound (fenceCh fch_html fch_blockCode fch_heading fch_quote fenceLang closes lstripSp_cons lstripSp_len lstripSp_pad
  all_eq_replicate)

/-! ### The opening line of a fenced code block, at indentation 0-3 -/

/-- `n` spaces -/
def sp (n : Nat) : Str := List.replicate n ' '

theorem fch_ne (c : Char) (hc : fenceCh c) : c ≠ ' ' ∧ c ≠ '\t' ∧ c ≠ '\n' ∧ c ≠ '#' ∧ c ≠ '>' ∧ pyIsSpace c = false := by
  rcases hc with rfl | rfl <;> decide

theorem fsp_html (n : Nat) (hn : n < 4) (c : Char) (hc : fenceCh c) (s : Str) : htmlBlockStart (sp n ++ c :: s) = .ok none := by
  have h0 := fch_html c hc s
  have hsp := (fch_ne c hc).2.2.2.2.2
  have hl0 : lstrip (c :: s) = c :: s := by simp [lstrip, hsp]
  have hl : lstrip (sp n ++ c :: s) = c :: s := lstrip_rep n c s hsp
  unfold htmlBlockStart at h0 ⊢
  simp only [hl0, hl] at h0 ⊢
  have h1 : ¬ ((sp n ++ c :: s).length - (c :: s).length ≥ 4) := by simp [sp]; omega
  have h2 : ¬ ((c :: s).length - (c :: s).length ≥ 4) := by simp
  simp only [h1, h2, if_false] at h0 ⊢
  exact h0

theorem fsp_blockCode (n : Nat) (hn : n < 4) (c : Char) (hc : fenceCh c) (s : Str) : blockCodeStart (sp n ++ c :: s) = false := by
  unfold blockCodeStart replaceTab1
  have hs : (' ' : Char) ≠ '\t' := by decide
  obtain ⟨h1, h2, _⟩ := fch_ne c hc
  obtain rfl | rfl | rfl | rfl : n = 0 ∨ n = 1 ∨ n = 2 ∨ n = 3 := by omega
  all_goals simp [sp, List.replicate, replaceTab_plain _ _ h2, replaceTab_plain _ _ hs, startsWith, isPrefix_ne _ _ _ _ h1]

theorem fsp_heading (fw : FW) (n : Nat) (hn : n < 4) (c : Char) (hc : fenceCh c) (s : Str) : readHeading fw (sp n ++ c :: s) = none := by
  obtain ⟨h1, _, _, h4, _⟩ := fch_ne c hc
  have hs : span (· == '#') (c :: s) = ([], c :: s) := by simp [span, h4]
  unfold readHeading Scan.heading
  rw [show sp n = List.replicate n ' ' from rfl, upTo3_rep n c s h1 hn]
  simp only [hs]
  simp

theorem fsp_quote (n : Nat) (_hn : n < 4) (c : Char) (hc : fenceCh c) (s : Str) : quoteStart (sp n ++ c :: s) = false := by
  obtain ⟨h1, _, _, _, h5, _⟩ := fch_ne c hc
  unfold quoteStart
  simp [sp, lstripSp_rep n c s h1, startsWith, isPrefix_ne _ _ _ _ h5]

/-- the facts `ok` packs for the opening line: the fence is `≥ 3` copies of a fence character; the info string has no line
    end, does not begin with the fence character, and has no backtick behind a backtick fence -/
abbrev FenceOk := Mistletoe.MdRound.FenceOk

theorem codeFence_line (n : Nat) (hn : n < 4) (c : Char) (d info : Str) (h : FenceOk c d info) :
    Scan.codeFence (sp n ++ d ++ info ++ ['\n']) = some { prepend := n, leader := d, info := info, lang := fenceLang info } := by
  obtain ⟨r, hr⟩ := h.cons
  have hc := h.ch
  obtain ⟨h1, _, hnl, _⟩ := fch_ne c hc
  have hup : upTo3Spaces (sp n ++ d ++ info ++ ['\n']) = some (n, d ++ info ++ ['\n']) := by
    rw [hr]
    have := upTo3_rep n c (r ++ info ++ ['\n']) h1 hn
    simpa [sp] using this
  have hs : span (· == c) (d ++ (info ++ ['\n'])) = (d, info ++ ['\n']) := by
    apply MdRound.span_append
    · intro x hx; rw [h.rep] at hx; simp only [List.mem_replicate] at hx; simp [hx.2]
    · intro x hx
      cases hi : info with
      | nil => rw [hi] at hx; simp at hx; subst hx; simpa using Ne.symm hnl
      | cons y t =>
        rw [hi] at hx; simp at hx; subst hx
        have := h.nohead; rw [hi] at this
        simpa using this
  have hs2 : span (· != '\n') (info ++ ['\n']) = (info, ['\n']) := by
    apply MdRound.span_append
    · intro x hx; simp only [bne_iff_ne, ne_eq]; intro e; exact h.nonl (e ▸ hx)
    · intro x hx; simp at hx; subst hx; simp
  unfold Scan.codeFence
  rw [hup]
  simp only [List.append_assoc] at hs ⊢
  rw [hr] at hs ⊢
  simp only [List.cons_append] at hs ⊢
  have hcc : (c != '`' && c != '~') = false := by rcases hc with e | e <;> rw [e] <;> decide
  simp only [hcc, Bool.false_eq_true, if_false, hs, hs2]
  have hl := h.len
  rw [hr] at hl
  have : ¬ ((c :: r).length < 3) := by omega
  simp only [this, if_false, fenceLang]

theorem codeFenceStart_line (n : Nat) (hn : n < 4) (c : Char) (d info : Str) (h : FenceOk c d info) :
    codeFenceStart (sp n ++ d ++ info ++ ['\n']) = some { prepend := n, leader := d, info := info, lang := fenceLang info } := by
  unfold codeFenceStart
  rw [codeFence_line n hn c d info h]
  simp only
  obtain ⟨r, hr⟩ := h.cons
  by_cases hc : c = '`'
  · have hn := h.notick hc
    simp [hn]
  · have : (d.head? == some '`') = false := by rw [hr]; simpa using hc
    simp [this]

/-! ### `CodeFence.read` at indentation `p` -/

/-- a content line of a fence whose opening line is indented by `n` spaces: up to `n` leading spaces are removed -/
def dedent : Nat → Str → Str
  | n + 1, ' ' :: r => dedent n r
  | _, s => s

/-- the piece `CodeFence.read` appends for a content line is the dedented line -/
theorem fence_piece : ∀ (l : Str) (p : Nat),
    (if l.length - (lstripSp l).length > p then List.replicate (l.length - (lstripSp l).length - p) ' ' ++ lstripSp l
      else lstripSp l) = dedent p l
  | [], p => by cases p <;> simp [lstripSp, dedent]
  | c :: r, p => by
    by_cases hc : c = ' '
    · subst hc
      have hlen := lstripSp_len r
      have hl : lstripSp (' ' :: r) = lstripSp r := by simp [lstripSp]
      have e : (' ' :: r).length - (lstripSp r).length = (r.length - (lstripSp r).length) + 1 := by
        simp only [List.length_cons]; omega
      rw [hl, e]
      cases p with
      | zero =>
        have := lstripSp_pad r
        simp only [Nat.zero_lt_succ, if_true, Nat.sub_zero, List.replicate_succ, List.cons_append, this, dedent]
      | succ p' =>
        have ih := fence_piece r p'
        simp only [dedent]
        rw [← ih]
        have e2 : r.length - (lstripSp r).length + 1 - (p' + 1) = r.length - (lstripSp r).length - p' := by omega
        rw [e2]
        by_cases hh : r.length - (lstripSp r).length > p'
        · rw [if_pos hh, if_pos (by omega)]
        · rw [if_neg hh, if_neg (by omega)]
    · have hl : lstripSp (c :: r) = c :: r := by rw [lstripSp_cons, if_neg hc]
      rw [hl]
      have : dedent p (c :: r) = c :: r := by
        cases p with
        | zero => rfl
        | succ p' => unfold dedent; split <;> simp_all
      rw [this]
      simp

theorem codeFenceLoop_step (d : Str) (p fuel : Nat) (fw : FW) (buf : List Str) (l : Line) (hp : fw.peek = some l) :
    codeFenceLoop d p (fuel + 1) fw buf =
      if closes d l.s = true then (buf, fw.next) else codeFenceLoop d p fuel fw.next (dedent p l.s :: buf) := by
  simp only [codeFenceLoop, hp, fence_piece, closes]
  rfl

theorem codeFenceLoop_body (d : Str) (p : Nat) (cl : Line) (hcl : closes d cl.s = true) (post : List Line) (start : Nat) :
    ∀ (body pre : List Line) (buf : List Str) (fuel : Nat), (∀ x ∈ body, closes d x.s = false) → body.length + 1 ≤ fuel →
    codeFenceLoop d p fuel ⟨pre ++ (body ++ cl :: post), pre.length, start⟩ buf =
      ((body.map (fun x => dedent p x.s)).reverse ++ buf, ⟨(pre ++ (body ++ [cl])) ++ post, (pre ++ (body ++ [cl])).length, start⟩)
  | [], pre, buf, fuel, _, hf => by
    obtain ⟨f, rfl⟩ : ∃ f, fuel = f + 1 := ⟨fuel - 1, by simp at hf; omega⟩
    rw [List.nil_append, codeFenceLoop_step d p f _ buf cl (peek_at _ _ _ _), if_pos hcl, MdRound.fw_next]
    simp
  | b :: body, pre, buf, fuel, hb, hf => by
    obtain ⟨f, rfl⟩ : ∃ f, fuel = f + 1 := ⟨fuel - 1, by simp at hf; omega⟩
    have hc := hb b (by simp)
    have ih := codeFenceLoop_body d p cl hcl post start body (pre ++ [b]) (dedent p b.s :: buf) f
      (fun x hx => hb x (List.mem_cons_of_mem _ hx)) (by simp at hf; omega)
    rw [List.cons_append, codeFenceLoop_step d p f _ buf b (peek_at _ _ _ _), hc, MdRound.fw_next]
    simp only [Bool.false_eq_true, if_false]
    rw [ih]
    simp

theorem readCodeFence_block (d info lang : Str) (p : Nat) (l cl : Line) (hcl : closes d cl.s = true) (body pre post : List Line)
    (hb : ∀ x ∈ body, closes d x.s = false) (start : Nat) :
    readCodeFence ⟨pre ++ l :: (body ++ cl :: post), pre.length, start⟩ { prepend := p, leader := d, info := info, lang := lang } =
      (body.map (fun x => dedent p x.s), ⟨(pre ++ l :: (body ++ [cl])) ++ post, (pre ++ l :: (body ++ [cl])).length, start⟩) := by
  unfold readCodeFence
  simp only [MdRound.fw_next]
  rw [codeFenceLoop_body d p cl hcl post start body (pre ++ [l]) [] _ hb (by simp [FW.remaining]; omega)]
  simp

/-- a fenced code block under the default token list: `CodeFence` is the first type that starts on the opening line; `read`
    consumes the content lines and the closing line, whatever follows -/
theorem tokLoop_fence_step (ti : Bool) (g : Nat) (n : Nat) (hn : n < 4) (c : Char) (d info : Str)
    (h : FenceOk c d info) (l cl : Line) (hl : l.s = sp n ++ d ++ info ++ ['\n']) (hcl : closes d cl.s = true)
    (body : List Line) (hb : ∀ x ∈ body, closes d x.s = false)
    (pre post : List Line) (start : Nat) (st : St) (acc : List Entry) (loose : Bool) :
    tokLoop (dcfg ti) (g + 8) ⟨pre ++ l :: (body ++ cl :: post), pre.length, start⟩ st acc loose =
      tokLoop (dcfg ti) (g + 7) ⟨(pre ++ l :: (body ++ [cl])) ++ post, (pre ++ l :: (body ++ [cl])).length, start⟩ st
        (.codeFence (body.map (fun x => dedent n x.s)) n d info (fenceLang info) (start + pre.length) l.origin :: acc) loose := by
  obtain ⟨r, hr⟩ := h.cons
  have hs : l.s = sp n ++ c :: (r ++ info ++ ['\n']) := by rw [hl, hr]; simp
  have hcf := codeFenceStart_line n hn c d info h
  rw [← hl] at hcf
  have hrd := readCodeFence_block d info (fenceLang info) n l cl hcl body pre post hb start
  have f3 := fsp_html n hn c h.ch (r ++ info ++ ['\n'])
  have f4 := fsp_blockCode n hn c h.ch (r ++ info ++ ['\n'])
  have f5 := fsp_heading ⟨pre ++ l :: (body ++ cl :: post), pre.length, start⟩ n hn c h.ch (r ++ info ++ ['\n'])
  have f6 := fsp_quote n hn c h.ch (r ++ info ++ ['\n'])
  rw [← hs] at f3 f4 f5 f6
  have e : g + 8 = ((((((g + 2) + 1) + 1) + 1) + 1) + 1) + 1 := by omega
  rw [e]
  simp only [tokLoop, peek_at, dcfg, defaultTypes, tryTypes, f3, f4, f5, f6, hcf, hrd, Bool.false_eq_true, if_false]


/-! ### The fragment with lists and fenced code blocks -/

open Mistletoe.ComposeL (leaderOf markerOk leaderOk_of_marker sepS stopLineB StopLine stopLine_of PostOk itemDoc_facts
  item_lines_last item_lines_next readList_step_stop readList_step_next leader_chars lineOk_prepend spaces_chars
  indentDoc_lineOk indentDoc_ne itemDocOk_ne after_after dcfg_noBlank dcfg_len)

/-- A tree of CommonMark constructs: everything `ComposeL.T2` has (paragraph, ATX heading, thematic break, block quote,
    bullet / ordered list; children of quotes and list items are trees of this type again) and
    * `fence ind delim info body close`: a fenced code block.  Opening line: `ind` spaces (0 … 3), the fence `delim` (three
      or more backticks, or three or more tildes), the info string `info` as written (with its leading and trailing
      spaces), "\n".  Then the content lines `body` as written (each loses up to `ind` leading spaces in the tree).
      Then the closing line `close`: up to three spaces, the fence character at least `delim.length` times, spaces, "\n". -/
inductive T3 where
  | para (lines : List Str)
  | heading (level : Nat) (text : Str) (line : Str)
  | hr (line : Str)
  | quote (bare : Bool) (kids : List T3)
  | list (ordered : Bool) (start : Nat) (marker : Char) (pad : Nat) (loose : Bool) (items : List (List T3))
  | fence (ind : Nat) (delim info : Str) (body : List Str) (close : Str)

/-- the shape the specification gives a closing fence for the opening fence `d`: behind the leading spaces only fence
    characters (the test `closes` asks for at least `d`, and fewer than four leading spaces), then only spaces, then "\n" -/
def closeShape (d close : Str) : Bool :=
  match d.head? with
  | some c =>
    let r := (lstripSp close).dropWhile (· == c)
    r.getLast? == some '\n' && r.dropLast.all (· == ' ')
  | none => false

/-- well-formedness of a fenced code block (decidable):
    * 0 ≤ ind ≤ 3; the fence is three or more backticks or three or more tildes;
    * the info string has no line-boundary character and no tab, does not begin with the fence character, and contains no
      backtick when the fence is made of backticks;
    * every content line is one complete line without a tab that is not a closing line for this fence - by the test
      `CodeFence.read` makes (`closes`: behind fewer than four spaces the opening fence string and nothing behind it but
      non-blank characters and then whitespace; this is MORE than the specification's closing fences: a content line
      such as "```abc" inside a "```" fence is excluded here, see the counterexample at the end);
    * the closing line is one complete line without a tab, passes that test and has the specification's shape. -/
def fenceOkB (ind : Nat) (d info : Str) (body : List Str) (close : Str) : Bool :=
  decide (ind ≤ 3) && decide (3 ≤ d.length) && (d.all (· == '`') || d.all (· == '~'))
    && info.all (fun c => !isLineSep c && c != '\t') && info.head? != d.head? && !(d.head? == some '`' && info.contains '`')
    && body.all (fun l => oneLine l && !l.contains '\t' && !closes d l)
    && oneLine close && !close.contains '\t' && closes d close && closeShape d close

structure FenceFacts (ind : Nat) (d info : Str) (body : List Str) (close : Str) : Prop where
  indLt : ind < 4
  fo : ∃ c, FenceOk c d info
  openOk : LineOk (sp ind ++ d ++ info ++ ['\n'])
  body : ∀ l ∈ body, LineOk l ∧ closes d l = false
  closeOk : LineOk close
  closes : closes d close = true

theorem fenceFacts_of (ind : Nat) (d info : Str) (body : List Str) (close : Str) (h : fenceOkB ind d info body close = true) :
    FenceFacts ind d info body close := by
  simp only [fenceOkB, Bool.and_eq_true, decide_eq_true_eq, Bool.or_eq_true, bne_iff_ne, ne_eq,
    Bool.not_eq_eq_eq_not, Bool.not_true, Bool.and_eq_false_iff] at h
  obtain ⟨⟨⟨⟨⟨⟨⟨⟨⟨⟨h0, h1⟩, h2⟩, h3⟩, h4⟩, h5⟩, h6⟩, h7⟩, h8⟩, h9⟩, _⟩ := h
  have h3' : ∀ c ∈ info, isLineSep c = false ∧ c ≠ '\t' := by
    intro c hc
    have := List.all_eq_true.mp h3 c hc
    simpa using this
  have hnl : '\n' ∉ info := by
    intro hm
    have := (h3' _ hm).1
    revert this; decide
  have hfo : ∃ c, FenceOk c d info := by
    rcases h2 with h2 | h2
    · have hr := all_eq_replicate '`' d h2
      have hd : d.head? = some '`' := by
        rw [hr]; cases hdl : d.length with
        | zero => omega
        | succ n => simp [List.replicate_succ]
      refine ⟨'`', Or.inl rfl, hr, h1, hnl, by rw [← hd]; exact h4, ?_⟩
      intro _
      rcases h5 with h5 | h5
      · rw [hd] at h5; simp at h5
      · simpa using h5
    · have hr := all_eq_replicate '~' d h2
      have hd : d.head? = some '~' := by
        rw [hr]; cases hdl : d.length with
        | zero => omega
        | succ n => simp [List.replicate_succ]
      exact ⟨'~', Or.inr rfl, hr, h1, hnl, by rw [← hd]; exact h4, by intro e; cases e⟩
  refine ⟨by omega, hfo, ?_, ?_, lineOk_of close h7 (by simpa using h8), h9⟩
  · obtain ⟨c, hf⟩ := hfo
    have hdc : ∀ x ∈ d, isLineSep x = false ∧ x ≠ '\t' := by
      intro x hx
      rw [hf.rep] at hx
      rw [(List.mem_replicate.mp hx).2]
      rcases hf.ch with e | e <;> rw [e] <;> decide
    have := lineOk_prepend (sp ind) _ (spaces_chars ind) (lineOk_prepend d _ hdc (lineOk_prepend info _ h3' lineOk_nl))
    simpa [List.append_assoc] using this
  · intro l hl
    have := List.all_eq_true.mp h6 l hl
    simp only [Bool.and_eq_true, Bool.not_eq_eq_eq_not, Bool.not_true] at this
    exact ⟨lineOk_of l this.1.1 this.1.2, this.2⟩
mutual
/-- the source lines of one node -/
def write3 : T3 → List Str
  | .para ls => ls
  | .heading _ _ line => [line]
  | .hr line => [line]
  | .quote bare kids => (writes3 kids).map (if bare then qbare else qsp)
  | .list o n mk pad loose items => writeItems3 o mk pad loose n items
  | .fence ind d info body close => (sp ind ++ d ++ info ++ ['\n']) :: (body ++ [close])
/-- siblings, separated by exactly one "\n" line -/
def writes3 : List T3 → List Str
  | [] => []
  | t :: rest =>
    match rest with
    | [] => write3 t
    | _ :: _ => write3 t ++ ['\n'] :: writes3 rest
/-- the items of a list: the lines of the item's blocks, the first behind the marker and `pad` spaces, the others behind
    as many spaces as that is wide ("\n" lines stay "\n"); in a loose list one "\n" line between consecutive items -/
def writeItems3 (o : Bool) (mk : Char) (pad : Nat) (loose : Bool) (n : Nat) : List (List T3) → List Str
  | [] => []
  | it :: rest =>
    match rest with
    | [] => indentDoc (leaderOf o n mk) pad (writes3 it)
    | _ :: _ => indentDoc (leaderOf o n mk) pad (writes3 it) ++ (sepS loose ++ writeItems3 o mk pad loose (n + 1) rest)
end

def isList3 : T3 → Bool
  | .list .. => true
  | _ => false

/-- lists and fenced code blocks: blocks that C05 does not count as closed by a blank line (an unclosed fence, the last item
    of a list go on behind it); here the dispatcher is followed over them directly -/
def isOpen3 : T3 → Bool
  | .list .. => true
  | .fence .. => true
  | _ => false

/-- what is asked of two consecutive siblings: behind a list no list, and a first line that is a `stopLineB` -/
def sepOk3 (t t' : T3) : Bool := !isList3 t || (!isList3 t' && stopLineB ((write3 t').headD []))

open Mistletoe.Document (joinNl) in
mutual
/-- well-formedness (decidable).  Paragraph, heading, thematic break, quote: as `Compose.T.ok`.  List:
    * 1 ≤ pad ≤ 4; at least one item; every item has at least one block, all well-formed;
    * every marker is a bullet `-`, `+`, `*`, or a number of at most nine digits (< 10⁹) and `.` or `)` (`markerOk`);
    * the lines of an item (`itemDocOk`): the first begins with a character that is not whitespace; every other line is
      "\n" or has a non-whitespace character after its spaces (`ContLine`); marker + first line is not a thematic break
      (`* * *`, `- - -`);
    * `loose` is the looseness the specification assigns: a loose list has two or more items or an item with two or
      more blocks; the items of a tight list have one block each.
    Siblings (`T3.oks`): a list is not followed by a list, and the block that follows a list begins with a
    non-whitespace character and carries no list marker (`sepOk3`). -/
def T3.ok : T3 → Bool
  | .para ls => !ls.isEmpty && ls.all (fun l => inertLine l && proseLine l && oneLine l && !l.contains '\t')
      && inertBody (joinNl (ls.map strip))
  | .heading lv t line => !t.isEmpty && inertText t && headLine lv t line && oneLine line && !line.contains '\t'
  | .hr line => hrLine line && oneLine line && !line.contains '\t'
  | .quote bare kids => !kids.isEmpty && T3.oks kids && (!bare || (writes3 kids).all (fun s => s.head? != some ' '))
  | .list o n mk pad loose items =>
    decide (1 ≤ pad) && decide (pad ≤ 4) && !items.isEmpty && T3.okItems o mk pad n items
      && (if loose then decide (2 ≤ items.length) || items.any (fun it => decide (1 < it.length))
          else items.all (fun it => it.length == 1))
  | .fence ind d info body close => fenceOkB ind d info body close
def T3.oks : List T3 → Bool
  | [] => true
  | t :: rest => t.ok && T3.oks rest && (match rest with | [] => true | t' :: _ => sepOk3 t t')
def T3.okItems (o : Bool) (mk : Char) (pad : Nat) (n : Nat) : List (List T3) → Bool
  | [] => true
  | it :: rest => !it.isEmpty && T3.oks it && markerOk o n mk && itemDocOk (writes3 it)
      && !Scan.thematicBreak (leaderOf o n mk ++ List.replicate pad ' ' ++ (writes3 it).headD [])
      && T3.okItems o mk pad (n + 1) rest
end

mutual
/-- the parse-buffer entry expected for a node whose first line is line `n` -/
def entry3 (n : Nat) : T3 → Entry
  | .para ls => .paragraph ls n n
  | .heading lv t line => .heading lv t (closingOf line) n n
  | .hr line => .thematicBreak line n n
  | .quote _ kids => .quote (entries3 n kids) (decide (1 < kids.length)) n n
  | .list o s mk pad loose items => .list (items3 o mk pad loose s n items) n n
  | .fence ind d info body _ => .codeFence (body.map (dedent ind)) ind d info (fenceLang info) n n
def entries3 (n : Nat) : List T3 → List Entry
  | [] => []
  | t :: rest => entry3 n t :: entries3 (n + (write3 t).length + 1) rest
/-- the items: content = the entries of the item's blocks; loose = a "\n" line follows inside the list, or the item has
    more than one block; indentation 0; content offset = marker width + pad; the marker; the line of the marker -/
def items3 (o : Bool) (mk : Char) (pad : Nat) (loose : Bool) (s : Nat) (n : Nat) : List (List T3) → List Item
  | [] => []
  | it :: rest =>
    .mk (entries3 n it) ((loose && !rest.isEmpty) || decide (1 < it.length)) 0 ((leaderOf o s mk).length + pad) (leaderOf o s mk) n n
      :: items3 o mk pad loose (s + 1) (n + (writes3 it).length + (sepS loose).length) rest
end

mutual
/-- a quote occurs among the blocks (at any depth of list nesting): `Quote.read` switches `Paragraph.parse_setext` back on -/
def touch3 : T3 → Bool
  | .quote _ _ => true
  | .list _ _ _ _ _ items => touchItems3 items
  | _ => false
def touches3 : List T3 → Bool
  | [] => false
  | t :: rest => touch3 t || touches3 rest
def touchItems3 : List (List T3) → Bool
  | [] => false
  | it :: rest => touches3 it || touchItems3 rest
end

mutual
/-- gas that suffices -/
def need3 : T3 → Nat
  | .para _ => 14
  | .heading _ _ _ => 14
  | .hr _ => 14
  | .quote _ kids => needs3 kids + 6
  | .list _ _ _ _ _ items => needItems3 items + 12
  | .fence .. => 12
def needs3 : List T3 → Nat
  | [] => 0
  | t :: rest => need3 t + needs3 rest + 14
def needItems3 : List (List T3) → Nat
  | [] => 0
  | it :: rest => needs3 it + needItems3 rest + 1
end
/-! ### What well-formedness gives -/

theorem oks3_cons (t : T3) (rest : List T3) (h : T3.oks (t :: rest) = true) :
    t.ok = true ∧ T3.oks rest = true ∧ ∀ t' r, rest = t' :: r → sepOk3 t t' = true := by
  simp only [T3.oks, Bool.and_eq_true] at h
  refine ⟨h.1.1, h.1.2, ?_⟩
  rintro t' r rfl
  exact h.2

theorem okItems_cons (o : Bool) (mk : Char) (pad n : Nat) (it : List T3) (rest : List (List T3))
    (h : T3.okItems o mk pad n (it :: rest) = true) :
    it ≠ [] ∧ T3.oks it = true ∧ leaderOk o (leaderOf o n mk) = true ∧ itemDocOk (writes3 it) = true ∧
    Scan.thematicBreak (leaderOf o n mk ++ List.replicate pad ' ' ++ (writes3 it).headD []) = false ∧
    T3.okItems o mk pad (n + 1) rest = true := by
  simp only [T3.okItems, Bool.and_eq_true, Bool.not_eq_eq_eq_not, Bool.not_true, List.isEmpty_eq_false_iff] at h
  obtain ⟨⟨⟨⟨⟨a, b⟩, c⟩, d⟩, e⟩, f⟩ := h
  exact ⟨a, b, leaderOk_of_marker o n mk c, d, e, f⟩

/-- the facts `T3.ok` packs for a list -/
structure ListOk (o : Bool) (n : Nat) (mk : Char) (pad : Nat) (loose : Bool) (items : List (List T3)) : Prop where
  p1 : 1 ≤ pad
  p4 : pad ≤ 4
  ne : items ≠ []
  its : T3.okItems o mk pad n items = true
  looseC : (if loose then decide (2 ≤ items.length) || items.any (fun it => decide (1 < it.length))
          else items.all (fun it => it.length == 1)) = true
  start : o = true → parseNat (natDigits n) = n

theorem listOk_of (o : Bool) (n : Nat) (mk : Char) (pad : Nat) (loose : Bool) (items : List (List T3))
    (h : (T3.list o n mk pad loose items).ok = true) : ListOk o n mk pad loose items := by
  simp only [T3.ok, Bool.and_eq_true, decide_eq_true_eq, Bool.not_eq_eq_eq_not, Bool.not_true, List.isEmpty_eq_false_iff] at h
  obtain ⟨⟨⟨⟨a, b⟩, c⟩, d⟩, e⟩ := h
  exact ⟨a, b, c, d, e, fun _ => parseNat_natDigits n⟩
theorem writeItems3_ne (o : Bool) (mk : Char) (pad : Nat) (loose : Bool) (n : Nat) (it : List T3) (rest : List (List T3))
    (h : itemDocOk (writes3 it) = true) : writeItems3 o mk pad loose n (it :: rest) ≠ [] := by
  have := indentDoc_ne (leaderOf o n mk) pad _ (itemDocOk_ne _ h)
  cases rest with
  | nil => simpa [writeItems3] using this
  | cons a b => simp [writeItems3, this]

theorem quoteOk3_of (bare : Bool) (kids : List T3) (h : (T3.quote bare kids).ok = true) :
    kids ≠ [] ∧ T3.oks kids = true ∧ (bare = true → ∀ s ∈ writes3 kids, s.head? ≠ some ' ') := by
  simp only [T3.ok, Bool.and_eq_true, Bool.not_eq_eq_eq_not, Bool.not_true, List.isEmpty_eq_false_iff,
    Bool.or_eq_true, List.all_eq_true, bne_iff_ne, ne_eq] at h
  refine ⟨h.1.1, h.1.2, ?_⟩
  intro hb
  rcases h.2 with h2 | h2
  · rw [hb] at h2; cases h2
  · exact h2

theorem writeItems3_single (o : Bool) (mk : Char) (pad : Nat) (loose : Bool) (n : Nat) (it : List T3) :
    writeItems3 o mk pad loose n [it] = indentDoc (leaderOf o n mk) pad (writes3 it) := by simp [writeItems3]

theorem writeItems3_cons2 (o : Bool) (mk : Char) (pad : Nat) (loose : Bool) (n : Nat) (it it' : List T3) (r : List (List T3)) :
    writeItems3 o mk pad loose n (it :: it' :: r) =
      indentDoc (leaderOf o n mk) pad (writes3 it) ++ (sepS loose ++ writeItems3 o mk pad loose (n + 1) (it' :: r)) := by
  simp [writeItems3]

theorem writes3_cons2 (t t' : T3) (r : List T3) : writes3 (t :: t' :: r) = write3 t ++ ['\n'] :: writes3 (t' :: r) := by
  simp [writes3]

theorem writes3_single (t : T3) : writes3 [t] = write3 t := by simp [writes3]

mutual
theorem write3_lineOk : ∀ (t : T3), t.ok = true → (∀ s ∈ write3 t, LineOk s) ∧ write3 t ≠ []
  | .para ls, h => by
    have := paraOk_of ls (by simpa [T3.ok, T.ok] using h)
    exact ⟨this.line, this.ne⟩
  | .heading lv t line, h => by
    have := headOk_of lv t line (by simpa [T3.ok, T.ok] using h)
    simp only [write3, List.mem_singleton]
    exact ⟨fun s hs => by rw [hs]; exact this.line, by simp⟩
  | .hr line, h => by
    have := hrOk_of line (by simpa [T3.ok, T.ok] using h)
    simp only [write3, List.mem_singleton]
    exact ⟨fun s hs => by rw [hs]; exact this.2, by simp⟩
  | .quote bare kids, h => by
    obtain ⟨hne, hk, _⟩ := quoteOk3_of bare kids h
    have ih := writes3_lineOk kids hk
    simp only [write3, List.mem_map]
    constructor
    · rintro s ⟨s0, hs0, rfl⟩
      cases bare
      · exact lineOk_qsp (ih.1 s0 hs0)
      · exact lineOk_qbare (ih.1 s0 hs0)
    · simpa using ih.2 hne
  | .list o n mk pad loose items, h => by
    have hl := listOk_of o n mk pad loose items h
    refine ⟨writeItems3_lineOk o mk pad loose n items hl.its, ?_⟩
    simp only [write3]
    cases items with
    | nil => exact absurd rfl hl.ne
    | cons it rest => exact writeItems3_ne o mk pad loose n it rest (okItems_cons o mk pad n it rest hl.its).2.2.2.1
  | .fence ind d info body close, h => by
    have hf := fenceFacts_of ind d info body close (by simpa [T3.ok] using h)
    simp only [write3]
    refine ⟨?_, by simp⟩
    intro s hs
    rcases List.mem_cons.mp hs with rfl | hs
    · exact hf.openOk
    · rcases List.mem_append.mp hs with hs | hs
      · exact (hf.body s hs).1
      · simp only [List.mem_singleton] at hs; rw [hs]; exact hf.closeOk
theorem writes3_lineOk : ∀ (ts : List T3), T3.oks ts = true → (∀ s ∈ writes3 ts, LineOk s) ∧ (ts ≠ [] → writes3 ts ≠ [])
  | [], _ => by simp [writes3]
  | t :: rest, h => by
    obtain ⟨h1, h2, _⟩ := oks3_cons t rest h
    have iht := write3_lineOk t h1
    have ihr := writes3_lineOk rest h2
    cases rest with
    | nil => simpa [writes3] using iht
    | cons t' r =>
      rw [writes3_cons2]
      constructor
      · intro s hs
        rcases List.mem_append.mp hs with hs | hs
        · exact iht.1 s hs
        · rcases List.mem_cons.mp hs with rfl | hs
          · exact lineOk_nl
          · exact ihr.1 s hs
      · intro _; simp
theorem writeItems3_lineOk (o : Bool) (mk : Char) (pad : Nat) (loose : Bool) : ∀ (n : Nat) (items : List (List T3)),
    T3.okItems o mk pad n items = true → ∀ s ∈ writeItems3 o mk pad loose n items, LineOk s
  | _, [], _ => by simp [writeItems3]
  | n, it :: rest, h => by
    obtain ⟨_, hit, hlead, _, _, hrest⟩ := okItems_cons o mk pad n it rest h
    have h1 := indentDoc_lineOk o _ hlead pad _ (writes3_lineOk it hit).1
    have h2 := writeItems3_lineOk o mk pad loose (n + 1) rest hrest
    cases rest with
    | nil => rw [writeItems3_single]; exact h1
    | cons it' r =>
      rw [writeItems3_cons2]
      intro s hs
      rcases List.mem_append.mp hs with hs | hs
      · exact h1 s hs
      · rcases List.mem_append.mp hs with hs | hs
        · cases loose with
          | false => simp [sepS] at hs
          | true => simp only [sepS, if_true, List.mem_singleton] at hs; rw [hs]; exact lineOk_nl
        · exact h2 s hs
end


/-! ### The claims -/

/-- one node that is not a list, alone in its buffer -/
def NodeClaim (ti : Bool) (t : T3) : Prop := ∀ (k : Nat) (st : St) (gas : Nat), need3 t ≤ gas →
  tokenizeBlock (dcfg ti) gas (numbered k (write3 t)) (k + 1) st =
    .ok ({ entries := [entry3 (k + 1) t], loose := false }, after st (touch3 t))

/-- siblings in a buffer of their own, with or without a final "\n" line (the buffer of an item that is not the last
    one of a loose list ends in one) -/
def NodesClaim (ti : Bool) (ts : List T3) : Prop := ∀ (tail : Bool) (k : Nat) (st : St) (gas : Nat), needs3 ts ≤ gas →
  tokenizeBlock (dcfg ti) gas (numbered k (writes3 ts ++ sepS tail)) (k + 1) st =
    .ok ({ entries := entries3 (k + 1) ts, loose := decide (1 < ts.length) || tail }, after st (touches3 ts))

def firstLine3 (items : List (List T3)) : Str :=
  match items with
  | it :: _ => (writes3 it).headD []
  | [] => []

/-- `List.read` entered on the first item (no leader, no marker yet), or re-entered on a later item (the first item's
    marker as leader, the marker of this item handed on by the previous `ListItem.read`) -/
def LdNm (o : Bool) (mk : Char) (pad n : Nat) (items : List (List T3)) (ld : Option Str) (nm : Option (Nat × Nat × Str × Str)) : Prop :=
  (ld = none ∧ nm = none) ∨
  (∃ n0, ld = some (leaderOf o n0 mk) ∧ leaderOk o (leaderOf o n0 mk) = true ∧
    nm = some (0, (leaderOf o n mk).length + pad, leaderOf o n mk, firstLine3 items))

/-- `List.read` over the written items, anywhere in a buffer: `pre` before them, `post` behind them -/
def ItemsClaim (ti : Bool) (o : Bool) (mk : Char) (pad : Nat) (loose : Bool) (n : Nat) (items : List (List T3)) : Prop :=
  ∀ (pre post : List Line) (start k : Nat) (st : St) (gas : Nat) (acc : List Item) ld nm,
    start + pre.length = k + 1 → needItems3 items ≤ gas → PostOk post → LdNm o mk pad n items ld nm →
    readList (dcfg ti) gas ⟨pre ++ numbered k (writeItems3 o mk pad loose n items) ++ post, pre.length, start⟩ st ld nm acc =
      .ok (acc.reverse ++ items3 o mk pad loose n (k + 1) items,
           ⟨pre ++ numbered k (writeItems3 o mk pad loose n items) ++ post,
            pre.length + (writeItems3 o mk pad loose n items).length, start⟩,
           after st (touchItems3 items))
mutual
theorem entry3_shift (j : Nat) : ∀ (n : Nat) (t : T3), shiftEntry j (entry3 n t) = entry3 (n + j) t
  | n, .para ls => by simp [entry3, shiftEntry]
  | n, .heading lv t line => by simp [entry3, shiftEntry]
  | n, .hr line => by simp [entry3, shiftEntry]
  | n, .quote _ kids => by simp [entry3, shiftEntry, entries3_shift j n kids]
  | n, .list o s mk pad loose items => by simp [entry3, shiftEntry, items3_shift j o mk pad loose s n items]
  | n, .fence ind d info body close => by simp [entry3, shiftEntry]
theorem entries3_shift (j : Nat) : ∀ (n : Nat) (ts : List T3), shiftEntries j (entries3 n ts) = entries3 (n + j) ts
  | n, [] => by simp [entries3, shiftEntries]
  | n, t :: rest => by
    simp only [entries3, shiftEntries, entry3_shift j n t, entries3_shift j _ rest]
    congr 2; omega
theorem items3_shift (j : Nat) (o : Bool) (mk : Char) (pad : Nat) (loose : Bool) : ∀ (s n : Nat) (items : List (List T3)),
    shiftItems j (items3 o mk pad loose s n items) = items3 o mk pad loose s (n + j) items
  | s, n, [] => by simp [items3, shiftItems]
  | s, n, it :: rest => by
    simp only [items3, shiftItems, shiftItem, entries3_shift j n it, items3_shift j o mk pad loose _ _ rest]
    congr 2; omega
end

theorem entries3_length (n : Nat) : ∀ (ts : List T3), (entries3 n ts).length = ts.length := by
  intro ts
  induction ts generalizing n with
  | nil => rfl
  | cons t rest ih => simp [entries3, ih]

theorem closed_entry3 (n : Nat) : ∀ (t : T3), isOpen3 t = false → closedE (entry3 n t) = true
  | .para _, _ => rfl
  | .heading _ _ _, _ => rfl
  | .hr _, _ => rfl
  | .quote _ _, _ => rfl
  | .list .., h => by simp [isOpen3] at h
  | .fence .., h => by simp [isOpen3] at h

theorem writeItems3_head (o : Bool) (mk : Char) (pad : Nat) (loose : Bool) (n : Nat) (it : List T3) (rest : List (List T3))
    (c0 : Str) (cs : List Str) (h : writes3 it = c0 :: cs) :
    ∃ tl, writeItems3 o mk pad loose n (it :: rest) = (leaderOf o n mk ++ List.replicate pad ' ' ++ c0) :: tl := by
  cases rest with
  | nil => rw [writeItems3_single, h]; exact ⟨_, rfl⟩
  | cons a b => rw [writeItems3_cons2, h]; exact ⟨_, rfl⟩

theorem otherMarker_of_ldnm (o : Bool) (mk : Char) (pad n : Nat) (items : List (List T3)) (ld nm)
    (h : LdNm o mk pad n items ld nm) (hok : leaderOk o (leaderOf o n mk) = true) : otherMarkerType ld nm = false := by
  rcases h with ⟨rfl, _⟩ | ⟨n0, rfl, h0, rfl⟩
  · exact otherMarkerType_none_left _
  · simp only [otherMarkerType, Bool.not_eq_eq_eq_not, Bool.not_false]
    cases o with
    | false => simp [leaderOf, sameMarkerType]
    | true =>
      obtain ⟨d, e, hd, _, h1, _, hdig⟩ := leaderOk_ordered _ h0
      obtain ⟨d', e', hd', _, h1', _, hdig'⟩ := leaderOk_ordered _ hok
      simp only [leaderOf, if_true] at hd hd' ⊢
      have e1 : natDigits n0 = d ∧ mk = e := by
        have := List.append_inj' hd (by simp)
        exact ⟨this.1, by simpa using this.2⟩
      have e2 : natDigits n = d' ∧ mk = e' := by
        have := List.append_inj' hd' (by simp)
        exact ⟨this.1, by simpa using this.2⟩
      have hl : ((natDigits n0 ++ [mk]).length == 1) = false := by
        rw [e1.1]; simp only [List.length_append, List.length_singleton, beq_eq_false_iff_ne, ne_eq]; omega
      simp only [sameMarkerType, hl, Bool.false_eq_true, if_false, List.dropLast_concat, List.getLast?_concat,
        Bool.and_eq_true, List.all_eq_true, Bool.not_eq_eq_eq_not, Bool.not_true, List.isEmpty_eq_false_iff, beq_self_eq_true, and_true]
      rw [e1.1, e2.1]
      refine ⟨⟨⟨?_, ?_⟩, ?_⟩, ?_⟩
      · intro x hx; exact (asciiDigit_facts x (hdig x hx)).1
      · intro x hx; exact (asciiDigit_facts x (hdig' x hx)).1
      · intro e; subst e; simp at h1
      · intro e; subst e; simp at h1'


/-! ### `List.read` over the written items -/

theorem needItems3_cons (it : List T3) (rest : List (List T3)) : needItems3 (it :: rest) = needs3 it + needItems3 rest + 1 := by
  simp [needItems3]

/-- the last item -/
theorem items_last (ti : Bool) (o : Bool) (mk : Char) (pad : Nat) (loose : Bool) (n : Nat) (it : List T3)
    (h1 : 1 ≤ pad) (h4 : pad ≤ 4) (hok : T3.okItems o mk pad n [it] = true) (hN : NodesClaim ti it) :
    ItemsClaim ti o mk pad loose n [it] := by
  intro pre post start k st gas acc ld nm hk hg hpost hln
  obtain ⟨_, _, hlead, hdoc, _, _⟩ := okItems_cons o mk pad n it [] hok
  have hm := listLeader_of o _ hlead
  obtain ⟨c0, cs, hw⟩ : ∃ c0 cs, writes3 it = c0 :: cs := by
    cases hw : writes3 it with
    | nil => rw [hw] at hdoc; simp [itemDocOk] at hdoc
    | cons c0 cs => exact ⟨c0, cs, rfl⟩
  rw [hw] at hdoc
  obtain ⟨g, rfl⟩ : ∃ g, gas = g + 1 := ⟨gas - 1, by rw [needItems3_cons] at hg; omega⟩
  have hg' : needs3 it ≤ g := by rw [needItems3_cons] at hg; omega
  have hprev : nm = none ∨ nm = some (0, (leaderOf o n mk).length + pad, leaderOf o n mk, c0) := by
    rcases hln with ⟨_, h⟩ | ⟨_, _, _, h⟩
    · exact Or.inl h
    · right; rw [h]; simp [firstLine3, hw]
  have hil := item_lines_last (dcfg ti) _ hm pad h1 h4 c0 cs hdoc pre post start k hk hpost nm hprev
  have htok := hN false k st g hg'
  simp only [sepS, Bool.false_eq_true, if_false, List.append_nil, hw] at htok
  have hom := otherMarker_of_ldnm o mk pad n [it] ld nm hln hlead
  rw [writeItems3_single, hw]
  rw [readList_step_stop (dcfg ti) g _ st ld nm acc _ _ _ _ _ _ _ _ _ _ hom hil htok]
  simp only [items3, entries3_length, List.isEmpty_nil, Bool.not_true, Bool.and_false, Bool.false_or, Bool.or_false,
    touchItems3, gt_iff_lt, Bool.and_self, List.length_cons, indentDoc, List.length_map]

/-- an item and the items behind it -/
theorem items_cons (ti : Bool) (o : Bool) (mk : Char) (pad : Nat) (loose : Bool) (n : Nat) (it it' : List T3) (r : List (List T3))
    (h1 : 1 ≤ pad) (h4 : pad ≤ 4) (hok : T3.okItems o mk pad n (it :: it' :: r) = true) (hN : NodesClaim ti it)
    (hR : ItemsClaim ti o mk pad loose (n + 1) (it' :: r)) :
    ItemsClaim ti o mk pad loose n (it :: it' :: r) := by
  intro pre post start k st gas acc ld nm hk hg hpost hln
  obtain ⟨_, _, hlead, hdoc, _, hok'⟩ := okItems_cons o mk pad n it (it' :: r) hok
  obtain ⟨_, _, hlead', hdoc', htb', _⟩ := okItems_cons o mk pad (n + 1) it' r hok'
  have hm := listLeader_of o _ hlead
  have hm' := listLeader_of o _ hlead'
  obtain ⟨c0, cs, hw⟩ : ∃ c0 cs, writes3 it = c0 :: cs := by
    cases hw : writes3 it with
    | nil => rw [hw] at hdoc; simp [itemDocOk] at hdoc
    | cons c0 cs => exact ⟨c0, cs, rfl⟩
  obtain ⟨c0', cs', hw'⟩ : ∃ c0 cs, writes3 it' = c0 :: cs := by
    cases hw : writes3 it' with
    | nil => rw [hw] at hdoc'; simp [itemDocOk] at hdoc'
    | cons c0 cs => exact ⟨c0, cs, rfl⟩
  rw [hw] at hdoc
  rw [hw'] at hdoc' htb'
  simp only [List.headD_cons] at htb'
  obtain ⟨⟨ch', r0', rfl, hch'⟩, _, _⟩ := itemDoc_facts c0' cs' hdoc'
  obtain ⟨g, rfl⟩ : ∃ g, gas = g + 1 := ⟨gas - 1, by rw [needItems3_cons] at hg; omega⟩
  have hg1 : needs3 it ≤ g := by rw [needItems3_cons] at hg; omega
  have hg2 : needItems3 (it' :: r) ≤ g := by rw [needItems3_cons] at hg; omega
  have hprev : nm = none ∨ nm = some (0, (leaderOf o n mk).length + pad, leaderOf o n mk, c0) := by
    rcases hln with ⟨_, h⟩ | ⟨_, _, _, h⟩
    · exact Or.inl h
    · right; rw [h]; simp [firstLine3, hw]
  -- the lines of the list, split behind the first item
  obtain ⟨tl, htl⟩ := writeItems3_head o mk pad loose (n + 1) it' r (ch' :: r0') cs' hw'
  let k2 := k + (cs.length + 1 + (sepS loose).length)
  have hlen : (indentDoc (leaderOf o n mk) pad (c0 :: cs) ++ sepS loose).length = cs.length + 1 + (sepS loose).length := by
    simp [indentDoc]; omega
  have hsplit : numbered k (writeItems3 o mk pad loose n (it :: it' :: r)) =
      numbered k (indentDoc (leaderOf o n mk) pad (c0 :: cs) ++ sepS loose) ++
        numbered k2 (writeItems3 o mk pad loose (n + 1) (it' :: r)) := by
    rw [writeItems3_cons2, hw, ← List.append_assoc, numbered_append, hlen]
  -- the marker line of the next item
  obtain ⟨c, m'', hmc, hc⟩ := hm'.lead
  let l' : Line := { s := leaderOf o (n + 1) mk ++ List.replicate pad ' ' ++ ch' :: r0', origin := k2 + 1 }
  have hl's : l'.s = c :: (m'' ++ List.replicate pad ' ' ++ ch' :: r0') := by
    show leaderOf o (n + 1) mk ++ List.replicate pad ' ' ++ ch' :: r0' = _
    rw [hmc]; simp
  have hnext : numbered k2 (writeItems3 o mk pad loose (n + 1) (it' :: r)) = l' :: numbered (k2 + 1) tl := by
    rw [htl, numbered_cons]
  have hnc : parseContinuation l'.s ((leaderOf o n mk).length + pad) = none := by
    rw [hl's]
    exact parseContinuation_lead c _ _ (by omega) hc.n_sp hc.n_tab (by rintro rfl; exact absurd hc.nsp (by decide))
  have hpm' : parseMarker l'.s = some (0, (leaderOf o (n + 1) mk).length + pad, leaderOf o (n + 1) mk, ch' :: r0') :=
    parseMarker_first _ hm' pad h1 h4 ch' r0' hch'
  have hne : NoEarly l'.s := by
    rw [hl's]
    refine lead_noEarly hc _ ?_
    rw [← hl's]
    exact htb'
  have hil := item_lines_next (dcfg ti) _ hm pad h1 h4 c0 cs hdoc loose pre (numbered (k2 + 1) tl ++ post) l' start k hk _ hnc hpm' hne nm hprev
  have htok := hN loose k st g hg1
  rw [hw] at htok
  have hom := otherMarker_of_ldnm o mk pad n (it :: it' :: r) ld nm hln hlead
  have hbuf : pre ++ numbered k (writeItems3 o mk pad loose n (it :: it' :: r)) ++ post =
      pre ++ numbered k (indentDoc (leaderOf o n mk) pad (c0 :: cs) ++ sepS loose) ++ l' :: (numbered (k2 + 1) tl ++ post) := by
    rw [hsplit, hnext]; simp
  rw [hbuf, readList_step_next (dcfg ti) g _ st ld nm acc _ _ _ _ _ _ _ _ _ _ _ hom hil htok]
  -- the items behind
  have hbuf2 : pre ++ numbered k (indentDoc (leaderOf o n mk) pad (c0 :: cs) ++ sepS loose) ++ l' :: (numbered (k2 + 1) tl ++ post) =
      (pre ++ numbered k (indentDoc (leaderOf o n mk) pad (c0 :: cs) ++ sepS loose)) ++
        numbered k2 (writeItems3 o mk pad loose (n + 1) (it' :: r)) ++ post := by
    rw [hnext]; simp
  have hpos : pre.length + (cs.length + 1 + (sepS loose).length) =
      (pre ++ numbered k (indentDoc (leaderOf o n mk) pad (c0 :: cs) ++ sepS loose)).length := by
    rw [List.length_append, numbered_length, hlen]
  have hln' : LdNm o mk pad (n + 1) (it' :: r) (some (ld.getD (leaderOf o n mk)))
      (some (0, (leaderOf o (n + 1) mk).length + pad, leaderOf o (n + 1) mk, ch' :: r0')) := by
    right
    rcases hln with ⟨rfl, _⟩ | ⟨n0, rfl, h0, _⟩
    · exact ⟨n, rfl, hlead, by simp [firstLine3, hw']⟩
    · exact ⟨n0, rfl, h0, by simp [firstLine3, hw']⟩
  rw [hbuf2, hpos]
  rw [hR _ post start k2 _ g _ _ _ (by rw [← hpos]; omega) hg2 hpost hln']
  simp only [items3, hw, List.length_cons, touchItems3, after_after, List.isEmpty_cons, Bool.not_false, Bool.and_true,
    List.reverse_cons, List.append_assoc, List.singleton_append, List.length_append, numbered_length, hlen]
  have e1 : k2 + 1 = k + 1 + (cs.length + 1) + (sepS loose).length := by show k + _ + 1 = _; omega
  have e2 : (writeItems3 o mk pad loose n (it :: it' :: r)).length =
      cs.length + 1 + (sepS loose).length + (writeItems3 o mk pad loose (n + 1) (it' :: r)).length := by
    rw [writeItems3_cons2, hw, ← List.append_assoc, List.length_append, hlen]
  rw [e1, e2, Bool.or_comm (decide (1 < it.length)) loose]
  simp only [← Nat.add_assoc, hnext, List.cons_append]


/-! ### Nodes that are not lists -/

theorem needs3_cons (t : T3) (rest : List T3) : needs3 (t :: rest) = need3 t + needs3 rest + 14 := by simp [needs3]

theorem node_para (ti : Bool) (ls : List Str) (h : (T3.para ls).ok = true) : NodeClaim ti (.para ls) := by
  intro k st gas hg
  have hp := paraOk_of ls (by simpa [T3.ok, T.ok] using h)
  obtain ⟨l0, tl, hl, ho⟩ := numbered_ne k ls hp.ne
  have hs : (l0 :: tl).map (·.s) = ls := by rw [← hl]; exact numbered_s k ls
  obtain ⟨g, rfl⟩ : ∃ g, gas = g + 14 := ⟨gas - 14, by simp only [need3] at hg; omega⟩
  have := Props.C14.C14_single_paragraph_default ti l0 tl
    (fun l hm => hp.inert _ (numbered_mem k ls l (by rw [hl]; exact hm))) (k + 1) st g
  simp only [write3, touch3, after_false, entry3, hl]
  rw [hs, ho] at this
  exact this

theorem node_heading (ti : Bool) (lv : Nat) (t line : Str) (h : (T3.heading lv t line).ok = true) : NodeClaim ti (.heading lv t line) := by
  intro k st gas hg
  have hh := headOk_of lv t line (by simpa [T3.ok, T.ok] using h)
  obtain ⟨g, rfl⟩ : ∃ g, gas = g + 6 := ⟨gas - 6, by simp only [need3] at hg; omega⟩
  have := tokenize_heading ti lv t line hh.head (k + 1) (k + 1) st g
  simp only [write3, touch3, after_false, entry3, numbered_cons, show numbered (k + 1) [] = [] from rfl]
  exact this

theorem node_hr (ti : Bool) (line : Str) (h : (T3.hr line).ok = true) : NodeClaim ti (.hr line) := by
  intro k st gas hg
  have hh := hrOk_of line (by simpa [T3.ok, T.ok] using h)
  obtain ⟨g, rfl⟩ : ∃ g, gas = g + 9 := ⟨gas - 9, by simp only [need3] at hg; omega⟩
  have := tokenize_hr ti line hh.1 (k + 1) (k + 1) st g
  simp only [write3, touch3, after_false, entry3, numbered_cons, show numbered (k + 1) [] = [] from rfl]
  exact this

theorem node_quote (ti : Bool) (bare : Bool) (kids : List T3) (h : (T3.quote bare kids).ok = true) (hN : NodesClaim ti kids) :
    NodeClaim ti (.quote bare kids) := by
  intro k st gas hg
  obtain ⟨hne, hk, hbare⟩ := quoteOk3_of bare kids h
  obtain ⟨g, rfl⟩ : ∃ g, gas = g + 6 := ⟨gas - 6, by simp only [need3] at hg; omega⟩
  have hg' : needs3 kids ≤ g := by simp only [need3] at hg; omega
  have ih := hN false k { st with setext := false } g hg'
  simp only [sepS, Bool.false_eq_true, if_false, List.append_nil, Bool.or_false] at ih
  have hw := writes3_lineOk kids hk
  obtain ⟨l0, tl, hl, ho⟩ := numbered_ne k (writes3 kids) (hw.2 hne)
  rw [hl] at ih
  simp only [write3, touch3, entry3]
  have hmem : ∀ l ∈ l0 :: tl, l.s ∈ writes3 kids := fun l hm => numbered_mem k _ l (by rw [hl]; exact hm)
  cases bare with
  | false =>
    have := Props.C04.C04_quote_wraps_default ti l0 tl
      (fun l hm => lineOk_notab (hw.1 _ (hmem l hm))) (k + 1) st _ g _ ih
    have e1 : numbered k ((writes3 kids).map qsp) = (l0 :: tl).map quoteSp := by
      rw [← hl]; exact Props.C04.numbered_map_sp k (writes3 kids)
    simp only [Bool.false_eq_true, if_false]
    rw [e1]
    refine Eq.trans this ?_
    rw [ho]
    simp [after]
  | true =>
    have := Props.C04.C04_quote_wraps_bare (dcfg ti) [.htmlBlock, .blockCode, .heading]
      [.codeFence, .thematicBreak, .list, .table, .footnote, .paragraph] rfl (by decide) (by decide) l0 tl
      (fun l hm => ⟨lineOk_notab (hw.1 _ (hmem l hm)), by
        have hne' := lineOk_ne (hw.1 _ (hmem l hm))
        have hsp := hbare rfl _ (hmem l hm)
        cases hs : l.s with
        | nil => exact absurd hs hne'
        | cons c r =>
          refine ⟨c, r, rfl, ?_⟩
          intro e; rw [hs, e] at hsp; exact hsp rfl⟩)
      (k + 1) st _ g _ ih
    have e1 : numbered k ((writes3 kids).map qbare) = (l0 :: tl).map quoteBare := by
      rw [← hl]; exact Props.C04.numbered_map_bare k (writes3 kids)
    simp only [if_true]
    rw [e1]
    refine Eq.trans this ?_
    rw [ho]
    simp [after]

theorem lines_ok_tail (ts : List T3) (h : T3.oks ts = true) (tail : Bool) : ∀ s ∈ writes3 ts ++ sepS tail, LineOk s := by
  intro s hs
  rcases List.mem_append.mp hs with hs | hs
  · exact (writes3_lineOk ts h).1 s hs
  · cases tail with
    | false => simp [sepS] at hs
    | true => simp only [sepS, if_true, List.mem_singleton] at hs; rw [hs]; exact lineOk_nl
/-- a node that is not a list, alone or before a final "\n" line -/
theorem nodes_single_closed (ti : Bool) (t : T3) (hok : t.ok = true) (hnl : isOpen3 t = false) (hT : NodeClaim ti t) :
    NodesClaim ti [t] := by
  intro tail k st gas hg
  rw [needs3_cons] at hg
  cases tail with
  | false =>
    have := hT k st gas (by omega)
    simpa [sepS, writes3_single, entries3, touches3] using this
  | true =>
    have hA := hT k st (need3 t) (Nat.le_refl _)
    have hw := write3_lineOk t hok
    obtain ⟨g', hg', heq⟩ := tokenizeBlock_prefix_lists (dcfg ti) (dcfg_noBlank ti) (numbered k (write3 t))
      { s := ['\n'], origin := k + (write3 t).length + 1 } rfl [] (k + 1) st (need3 t) _ _ hA
      (by intro e he; simp only [List.getLast?_singleton, Option.some.injEq] at he; subst he; exact closed_entry3 _ t hnl)
      (numbered_allNlEnd k _ hw.1) 11 (by rw [dcfg_len]; omega)
    obtain ⟨g'', rfl⟩ : ∃ g'', g' = g'' + 1 := ⟨g' - 1, by omega⟩
    have hend : FW.peek ⟨numbered k (write3 t) ++ [{ s := ['\n'], origin := k + (write3 t).length + 1 }],
        (numbered k (write3 t)).length + 1, k + 1⟩ = none := by
      have := peek_end (numbered k (write3 t) ++ [{ s := ['\n'], origin := k + (write3 t).length + 1 }]) (k + 1)
      simpa using this
    simp only [tokLoop, hend] at heq
    have hbuf : numbered k (writes3 [t] ++ sepS true) =
        numbered k (write3 t) ++ [{ s := ['\n'], origin := k + (write3 t).length + 1 }] := by
      rw [writes3_single, numbered_append]; rfl
    rw [hbuf]
    refine tokenizeBlock_mono (dcfg ti) _ _ _ _ (need3 t + 11) gas (by omega) ?_
    rw [heq]
    simp [entries3, touches3]


theorem buf_cons2 (t t' : T3) (r : List T3) (tail : Bool) (k : Nat) :
    numbered k (writes3 (t :: t' :: r) ++ sepS tail) =
      numbered k (write3 t) ++ { s := ['\n'], origin := k + (write3 t).length + 1 } ::
        (numbered k (writes3 (t' :: r) ++ sepS tail)).map (Line.sh ((numbered k (write3 t)).length + 1)) := by
  rw [writes3_cons2, List.append_assoc, numbered_append, List.cons_append, numbered_cons, numbered_length, ← numbered_sh]
  have : k + (write3 t).length + 1 = k + ((write3 t).length + 1) := by omega
  rw [this]

/-- a node that is not a list, a "\n" line, further siblings: C05 -/
theorem nodes_cons_closed (ti : Bool) (t t' : T3) (r : List T3) (hok : T3.oks (t :: t' :: r) = true) (hnl : isOpen3 t = false)
    (hT : NodeClaim ti t) (hR : NodesClaim ti (t' :: r)) : NodesClaim ti (t :: t' :: r) := by
  intro tail k st gas hg
  rw [needs3_cons] at hg
  obtain ⟨h1, h2, _⟩ := oks3_cons t (t' :: r) hok
  have hA := hT k st (need3 t) (Nat.le_refl _)
  have hB := hR tail k (after st (touch3 t)) (gas - need3 t - 11) (by omega)
  have hwt := write3_lineOk t h1
  have key := tokenizeBlock_concat_lists (dcfg ti) (dcfg_noBlank ti) (numbered k (write3 t))
    (numbered k (writes3 (t' :: r) ++ sepS tail)) { s := ['\n'], origin := k + (write3 t).length + 1 } rfl (k + 1) st
    (need3 t) (gas - need3 t - 11) _ _ _ _ hA
    (by intro e he; simp only [List.getLast?_singleton, Option.some.injEq] at he; subst he; exact closed_entry3 _ t hnl)
    hB (numbered_allNlEnd k _ hwt.1) (numbered_allNlEnd k _ (lines_ok_tail _ h2 tail))
  have hgas : gas = need3 t + (gas - need3 t - 11 + (dcfg ti).types.length + 1) := by rw [dcfg_len]; omega
  rw [buf_cons2, hgas, key, numbered_length, entries3_shift]
  have e3 : k + 1 + ((write3 t).length + 1) = k + 1 + (write3 t).length + 1 := by omega
  simp only [List.singleton_append, entries3, e3, List.length_cons, touches3, after_after]
  have hl : decide (1 < r.length + 1 + 1) = true := by simp
  rw [hl]
  simp


/-! ### Lists among the siblings -/

/-- the dispatch loop on the first line of a written list, `post` behind the list: one `List` entry, the cursor on the
    line behind the list -/
theorem list_then (ti : Bool) (o : Bool) (n : Nat) (mk : Char) (pad : Nat) (loose : Bool) (items : List (List T3))
    (hok : (T3.list o n mk pad loose items).ok = true) (hI : ItemsClaim ti o mk pad loose n items)
    (post : List Line) (hpost : PostOk post) (k : Nat) (st : St) (g : Nat) (hg : needItems3 items ≤ g)
    (acc : List Entry) (lo : Bool) :
    tokLoop (dcfg ti) (g + 8) ⟨numbered k (write3 (.list o n mk pad loose items)) ++ post, 0, k + 1⟩ st acc lo =
      tokLoop (dcfg ti) (g + 7)
        ⟨numbered k (write3 (.list o n mk pad loose items)) ++ post, (write3 (.list o n mk pad loose items)).length, k + 1⟩
        (after st (touch3 (.list o n mk pad loose items))) (entry3 (k + 1) (.list o n mk pad loose items) :: acc) lo := by
  have hl := listOk_of o n mk pad loose items hok
  cases items with
  | nil => exact absurd rfl hl.ne
  | cons it rest =>
    obtain ⟨_, _, hlead, hdoc, htb, _⟩ := okItems_cons o mk pad n it rest hl.its
    have hm := listLeader_of o _ hlead
    obtain ⟨c0, cs, hw⟩ : ∃ c0 cs, writes3 it = c0 :: cs := by
      cases hw : writes3 it with
      | nil => rw [hw] at hdoc; simp [itemDocOk] at hdoc
      | cons c0 cs => exact ⟨c0, cs, rfl⟩
    rw [hw] at htb
    simp only [List.headD_cons] at htb
    obtain ⟨tl, htl⟩ := writeItems3_head o mk pad loose n it rest c0 cs hw
    obtain ⟨c, m'', hmc, hc⟩ := hm.lead
    have hrl := hI [] post (k + 1) k st g [] none none (by simp) hg hpost (Or.inl ⟨rfl, rfl⟩)
    simp only [List.nil_append, List.length_nil, Nat.zero_add, List.reverse_nil] at hrl
    simp only [write3, touch3, entry3]
    generalize hL : writeItems3 o mk pad loose n (it :: rest) = L at hrl htl ⊢
    subst htl
    rw [numbered_cons] at hrl ⊢
    have hls : ({ s := leaderOf o n mk ++ List.replicate pad ' ' ++ c0, origin := k + 1 } : Line).s =
        c :: (m'' ++ List.replicate pad ' ' ++ c0) := by
      show leaderOf o n mk ++ List.replicate pad ' ' ++ c0 = _
      rw [hmc]; simp
    have hp := peek_at [] { s := leaderOf o n mk ++ List.replicate pad ' ' ++ c0, origin := k + 1 } (numbered (k + 1) tl ++ post) (k + 1)
    simp only [List.nil_append, List.length_nil] at hp
    have hty := tryTypes_lead (dcfg ti)
      ⟨{ s := leaderOf o n mk ++ List.replicate pad ' ' ++ c0, origin := k + 1 } :: (numbered (k + 1) tl ++ post), 0, k + 1⟩ st
      _ c _ hls hc htb [.table, .footnote, .paragraph] g [.htmlBlock, .blockCode, .heading, .quote, .codeFence, .thematicBreak]
      (by decide) (by decide) (by decide)
    have hstart : listStart (leaderOf o n mk ++ List.replicate pad ' ' ++ c0) = true := listStart_first _ hm pad hl.p1 _
    have e : g + 8 = (g + 7) + 1 := by omega
    rw [e]
    generalize hG : g + 7 = G
    simp only [tokLoop, List.cons_append, hp]
    subst hG
    have hty' : (dcfg ti).types = [.htmlBlock, .blockCode, .heading, .quote, .codeFence, .thematicBreak] ++ .list :: [.table, .footnote, .paragraph] := rfl
    rw [hty']
    simp only [List.length_cons, List.length_nil, Nat.zero_add] at hty
    have e2 : g + 7 = g + 1 + (1 + 1 + 1 + 1 + 1 + 1) := by omega
    rw [e2, hty]
    simp only [tryTypes, hstart, if_true]
    simp only [List.cons_append] at hrl
    rw [hrl]


theorem need3_list (o : Bool) (n : Nat) (mk : Char) (pad : Nat) (loose : Bool) (items : List (List T3)) :
    need3 (.list o n mk pad loose items) = needItems3 items + 12 := by simp [need3]

/-- a node over which the dispatcher is followed directly: entered on the node's first line, it adds the node's entry and
    stands on the line behind the node's lines, whenever what follows the node (`post`) satisfies `P` -/
def ThenClaim (ti : Bool) (t : T3) (gn : Nat) (P : List Line → Prop) : Prop :=
  ∀ (post : List Line), P post → ∀ (k : Nat) (st : St) (g : Nat), gn ≤ g → ∀ (acc : List Entry) (lo : Bool),
    tokLoop (dcfg ti) (g + 8) ⟨numbered k (write3 t) ++ post, 0, k + 1⟩ st acc lo =
      tokLoop (dcfg ti) (g + 7) ⟨numbered k (write3 t) ++ post, (write3 t).length, k + 1⟩
        (after st (touch3 t)) (entry3 (k + 1) t :: acc) lo

theorem list_thenClaim (ti : Bool) (o : Bool) (n : Nat) (mk : Char) (pad : Nat) (loose : Bool) (items : List (List T3))
    (hok : (T3.list o n mk pad loose items).ok = true) (hI : ItemsClaim ti o mk pad loose n items) :
    ThenClaim ti (.list o n mk pad loose items) (needItems3 items) PostOk :=
  fun post hpost k st g hg acc lo => list_then ti o n mk pad loose items hok hI post hpost k st g hg acc lo

/-- a fenced code block, whatever follows it -/
theorem fence_thenClaim (ti : Bool) (ind : Nat) (d info : Str) (body : List Str) (close : Str)
    (hok : (T3.fence ind d info body close).ok = true) :
    ThenClaim ti (.fence ind d info body close) 0 (fun _ => True) := by
  intro post _ k st g _ acc lo
  have hf := fenceFacts_of ind d info body close (by simpa [T3.ok] using hok)
  obtain ⟨c, hfo⟩ := hf.fo
  have e : numbered k (write3 (.fence ind d info body close)) =
      { s := sp ind ++ d ++ info ++ ['\n'], origin := k + 1 } ::
        (numbered (k + 1) body ++ [{ s := close, origin := k + 1 + body.length + 1 }]) := by
    simp only [write3, numbered_cons, numbered_append]
    rfl
  have h1 := tokLoop_fence_step ti g ind hf.indLt c d info hfo { s := sp ind ++ d ++ info ++ ['\n'], origin := k + 1 }
    { s := close, origin := k + 1 + body.length + 1 } rfl hf.closes (numbered (k + 1) body)
    (fun x hx => (hf.body _ (numbered_mem _ _ _ hx)).2) [] post (k + 1) st acc lo
  rw [e]
  simp only [touch3, after_false, entry3]
  have hm : (numbered (k + 1) body).map (fun x => dedent ind x.s) = body.map (dedent ind) :=
    MdRound.numbered_map_s (k + 1) body (dedent ind)
  simp only [hm, List.nil_append, List.length_nil, Nat.add_zero] at h1
  simp only [List.cons_append, List.append_assoc, write3, List.length_cons, List.length_append, List.length_nil,
    numbered_length] at h1 ⊢
  exact h1

/-- such a node alone in its buffer, or before a final "\n" line -/
theorem nodes_single_then (ti : Bool) (t : T3) (gn : Nat) (P : List Line → Prop) (hneed : need3 t = gn + 12)
    (hT : ThenClaim ti t gn P) (hP0 : P []) (hP1 : ∀ nlL : Line, nlL.s = ['\n'] → P [nlL]) :
    NodesClaim ti [t] := by
  intro tail k st gas hg
  rw [needs3_cons, hneed] at hg
  obtain ⟨g, rfl⟩ : ∃ g, gas = (g + 8) + 1 := ⟨gas - 9, by omega⟩
  have hgi : gn ≤ g := by simp only [needs3] at hg; omega
  rw [writes3_single, numbered_append]
  simp only [tokenizeBlock]
  cases tail with
  | false =>
    have := hT [] hP0 k st g hgi [] false
    simp only [sepS, Bool.false_eq_true, if_false, show ∀ j, numbered j ([] : List Str) = [] from fun _ => rfl]
    rw [this]
    have hend := peek_end (numbered k (write3 t) ++ []) (k + 1)
    simp only [List.length_append, numbered_length, List.length_nil, Nat.add_zero] at hend
    have e : g + 7 = (g + 6) + 1 := by omega
    rw [e]
    simp only [tokLoop, hend]
    simp [entries3, touches3]
  | true =>
    have := hT _ (hP1 { s := ['\n'], origin := k + (write3 t).length + 1 } rfl) k st g hgi [] false
    simp only [sepS, if_true, numbered_cons, show ∀ j, numbered j ([] : List Str) = [] from fun _ => rfl]
    rw [this]
    have hp := peek_at (numbered k (write3 t))
      { s := ['\n'], origin := k + (write3 t).length + 1 } [] (k + 1)
    rw [numbered_length] at hp
    have e : g + 7 = (g + 6) + 1 := by omega
    rw [e]
    generalize hG : g + 6 = G
    simp only [tokLoop, hp]
    rw [tryTypes_nl_none (dcfg ti) _ _ _ rfl _ G (dcfg_noBlank ti) (by rw [dcfg_len]; omega)]
    simp only
    obtain ⟨G', rfl⟩ : ∃ G', G = G' + 1 := ⟨G - 1, by omega⟩
    have hend := peek_end (numbered k (write3 t) ++
      [{ s := ['\n'], origin := k + (write3 t).length + 1 }]) (k + 1)
    simp only [List.length_append, numbered_length, List.length_singleton] at hend
    simp only [tokLoop, FW.next, hend]
    simp [entries3, touches3]

/-- such a node, a "\n" line, further siblings: the dispatcher goes on behind the "\n" line (`tokLoop_suffix_shift`) -/
theorem nodes_cons_then (ti : Bool) (t t' : T3) (r : List T3) (gn : Nat) (P : List Line → Prop) (hneed : need3 t = gn + 12)
    (h2 : T3.oks (t' :: r) = true) (hT : ThenClaim ti t gn P)
    (hP : ∀ (tail : Bool) (k : Nat), P ({ s := ['\n'], origin := k + (write3 t).length + 1 } ::
      (numbered k (writes3 (t' :: r) ++ sepS tail)).map (Line.sh ((numbered k (write3 t)).length + 1))))
    (hR : NodesClaim ti (t' :: r)) :
    NodesClaim ti (t :: t' :: r) := by
  intro tail k st gas hg
  rw [needs3_cons, hneed] at hg
  obtain ⟨g, rfl⟩ : ∃ g, gas = (g + 8) + 1 := ⟨gas - 9, by omega⟩
  have hgi : gn ≤ g := by omega
  have hgr : needs3 (t' :: r) ≤ g + 7 := by omega
  have hlt := hT _ (hP tail k) k st g hgi [] false
  rw [buf_cons2]
  simp only [tokenizeBlock]
  rw [hlt]
  have hp := peek_at (numbered k (write3 t)) { s := ['\n'], origin := k + (write3 t).length + 1 }
    ((numbered k (writes3 (t' :: r) ++ sepS tail)).map (Line.sh ((numbered k (write3 t)).length + 1))) (k + 1)
  have e : g + 7 = (g + 6) + 1 := by omega
  rw [e]
  generalize hG : g + 6 = G
  rw [numbered_length] at hp ⊢
  simp only [tokLoop, hp]
  rw [tryTypes_nl_none (dcfg ti) _ _ _ rfl _ G (dcfg_noBlank ti) (by rw [dcfg_len]; omega)]
  simp only
  -- behind the "\n" line: the siblings, in a buffer of their own
  have hB := hR tail k (after st (touch3 t)) (G + 1) (by omega)
  have hnlB : AllNlEnd (numbered k (writes3 (t' :: r) ++ sepS tail)) := numbered_allNlEnd k _ (lines_ok_tail _ h2 tail)
  have hsh := tokLoop_suffix_shift (dcfg ti) G (numbered k (write3 t) ++ [{ s := ['\n'], origin := k + (write3 t).length + 1 }])
    (numbered k (writes3 (t' :: r) ++ sepS tail)) (k + 1) (after st (touch3 t)) [entry3 (k + 1) t] true hnlB
  simp only [List.length_append, numbered_length, List.length_singleton, List.append_assoc, List.singleton_append] at hsh
  simp only [FW.next]
  rw [hsh, hB]
  simp only [rmap_ok, shB, withAcc]
  rw [entries3_shift]
  have e3 : k + 1 + ((write3 t).length + 1) = k + 1 + (write3 t).length + 1 := by omega
  rw [e3]
  have hl : decide (1 < (t :: t' :: r).length) = true := by simp
  rw [hl]
  simp only [entries3, touches3, after_after, List.reverse_singleton, List.singleton_append, Bool.true_or]

/-- behind a list: the "\n" line and the first line of the next sibling make a `PostOk` -/
theorem list_post (t t' : T3) (r : List T3) (hl : isList3 t = true) (hok : T3.oks (t :: t' :: r) = true) (tail : Bool) (k : Nat) :
    PostOk ({ s := ['\n'], origin := k + (write3 t).length + 1 } ::
      (numbered k (writes3 (t' :: r) ++ sepS tail)).map (Line.sh ((numbered k (write3 t)).length + 1))) := by
  obtain ⟨_, h2, hsep⟩ := oks3_cons _ (t' :: r) hok
  have hsep' := hsep t' r rfl
  obtain ⟨h1', _, _⟩ := oks3_cons t' r h2
  have hw' := write3_lineOk t' h1'
  obtain ⟨s0, ss, hs0⟩ : ∃ s0 ss, write3 t' = s0 :: ss := by
    cases hh : write3 t' with
    | nil => exact absurd hh hw'.2
    | cons a b => exact ⟨a, b, rfl⟩
  have hstop : StopLine s0 := by
    simp only [sepOk3, hl, Bool.not_true, Bool.false_or, Bool.and_eq_true, hs0, List.headD_cons] at hsep'
    exact stopLine_of s0 hsep'.2 (hw'.1 s0 (by rw [hs0]; simp))
  have hhead : ∃ ss', writes3 (t' :: r) ++ sepS tail = s0 :: ss' := by
    cases r with
    | nil => rw [writes3_single, hs0]; exact ⟨_, rfl⟩
    | cons a b => rw [writes3_cons2, hs0]; exact ⟨_, rfl⟩
  obtain ⟨ss', hss'⟩ := hhead
  refine Or.inr ⟨_, _, rfl, rfl, ?_⟩
  intro s hs
  rw [hss', numbered_cons] at hs
  simp only [List.map_cons, List.head?_cons, Option.some.injEq] at hs
  subst hs
  exact hstop


/-! ### The induction over the tree -/

theorem nodes_step_closed (ti : Bool) (t : T3) (rest : List T3) (hok : T3.oks (t :: rest) = true) (hnl : isOpen3 t = false)
    (hT : NodeClaim ti t) (hR : rest ≠ [] → NodesClaim ti rest) : NodesClaim ti (t :: rest) := by
  cases rest with
  | nil => exact nodes_single_closed ti t (oks3_cons t [] hok).1 hnl hT
  | cons t' r => exact nodes_cons_closed ti t t' r hok hnl hT (hR (by simp))

theorem nodes_step_list (ti : Bool) (o : Bool) (n : Nat) (mk : Char) (pad : Nat) (loose : Bool) (items : List (List T3))
    (rest : List T3) (hok : T3.oks (.list o n mk pad loose items :: rest) = true)
    (hI : ItemsClaim ti o mk pad loose n items) (hR : rest ≠ [] → NodesClaim ti rest) :
    NodesClaim ti (.list o n mk pad loose items :: rest) := by
  have hT := list_thenClaim ti o n mk pad loose items (oks3_cons _ _ hok).1 hI
  cases rest with
  | nil =>
    exact nodes_single_then ti _ _ PostOk (need3_list ..) hT (Or.inl rfl) (fun nlL h => Or.inr ⟨nlL, [], rfl, h, by simp⟩)
  | cons t' r =>
    exact nodes_cons_then ti _ t' r _ PostOk (need3_list ..) (oks3_cons _ _ hok).2.1 hT
      (fun tail k => list_post _ t' r rfl hok tail k) (hR (by simp))

theorem nodes_step_fence (ti : Bool) (ind : Nat) (d info : Str) (body : List Str) (close : Str)
    (rest : List T3) (hok : T3.oks (.fence ind d info body close :: rest) = true)
    (hR : rest ≠ [] → NodesClaim ti rest) :
    NodesClaim ti (.fence ind d info body close :: rest) := by
  have hT := fence_thenClaim ti ind d info body close (oks3_cons _ _ hok).1
  cases rest with
  | nil => exact nodes_single_then ti _ 0 _ rfl hT trivial (fun _ _ => trivial)
  | cons t' r => exact nodes_cons_then ti _ t' r 0 _ rfl (oks3_cons _ _ hok).2.1 hT (fun _ _ => trivial) (hR (by simp))

theorem items_step (ti : Bool) (o : Bool) (mk : Char) (pad : Nat) (loose : Bool) (n : Nat) (it : List T3) (rest : List (List T3))
    (h1 : 1 ≤ pad) (h4 : pad ≤ 4) (hok : T3.okItems o mk pad n (it :: rest) = true) (hN : NodesClaim ti it)
    (hR : rest ≠ [] → ItemsClaim ti o mk pad loose (n + 1) rest) : ItemsClaim ti o mk pad loose n (it :: rest) := by
  cases rest with
  | nil => exact items_last ti o mk pad loose n it h1 h4 hok hN
  | cons it' r => exact items_cons ti o mk pad loose n it it' r h1 h4 hok hN (hR (by simp))

mutual
/-- **siblings** (any nodes of the fragment), in a buffer of their own -/
theorem nodes_claim (ti : Bool) : ∀ (ts : List T3), T3.oks ts = true → ts ≠ [] → NodesClaim ti ts
  | [], _, hne => absurd rfl hne
  | .para ls :: rest, h, _ =>
    nodes_step_closed ti _ rest h rfl (node_para ti ls (oks3_cons _ _ h).1)
      (fun hne => nodes_claim ti rest (oks3_cons _ _ h).2.1 hne)
  | .heading lv t line :: rest, h, _ =>
    nodes_step_closed ti _ rest h rfl (node_heading ti lv t line (oks3_cons _ _ h).1)
      (fun hne => nodes_claim ti rest (oks3_cons _ _ h).2.1 hne)
  | .hr line :: rest, h, _ =>
    nodes_step_closed ti _ rest h rfl (node_hr ti line (oks3_cons _ _ h).1)
      (fun hne => nodes_claim ti rest (oks3_cons _ _ h).2.1 hne)
  | .quote bare kids :: rest, h, _ =>
    nodes_step_closed ti _ rest h rfl
      (node_quote ti bare kids (oks3_cons _ _ h).1
        (nodes_claim ti kids (quoteOk3_of bare kids (oks3_cons _ _ h).1).2.1 (quoteOk3_of bare kids (oks3_cons _ _ h).1).1))
      (fun hne => nodes_claim ti rest (oks3_cons _ _ h).2.1 hne)
  | .list o n mk pad loose items :: rest, h, _ =>
    have hl := listOk_of o n mk pad loose items (oks3_cons _ _ h).1
    nodes_step_list ti o n mk pad loose items rest h
      (items_claim ti o mk pad loose hl.p1 hl.p4 n items hl.its hl.ne)
      (fun hne => nodes_claim ti rest (oks3_cons _ _ h).2.1 hne)
  | .fence ind d info body close :: rest, h, _ =>
    nodes_step_fence ti ind d info body close rest h
      (fun hne => nodes_claim ti rest (oks3_cons _ _ h).2.1 hne)
/-- **the items of a list**, anywhere in a buffer -/
theorem items_claim (ti : Bool) (o : Bool) (mk : Char) (pad : Nat) (loose : Bool) (h1 : 1 ≤ pad) (h4 : pad ≤ 4) :
    ∀ (n : Nat) (items : List (List T3)), T3.okItems o mk pad n items = true → items ≠ [] → ItemsClaim ti o mk pad loose n items
  | _, [], _, hne => absurd rfl hne
  | n, it :: rest, h, _ =>
    items_step ti o mk pad loose n it rest h1 h4 h
      (nodes_claim ti it (okItems_cons o mk pad n it rest h).2.1 (okItems_cons o mk pad n it rest h).1)
      (fun hne => items_claim ti o mk pad loose h1 h4 (n + 1) rest (okItems_cons o mk pad n it rest h).2.2.2.2.2 hne)
end


/-- **the block phase of a written document** -/
theorem blockPhase_writes3 (ti : Bool) (ts : List T3) (h : T3.oks ts = true) (hne : ts ≠ []) (gas : Nat) (hg : needs3 ts ≤ gas) :
    blockPhase (dcfg ti) gas (writes3 ts) =
      .ok ({ entries := entries3 1 ts, loose := decide (1 < ts.length) }, {}) := by
  have e : blockPhase (dcfg ti) gas (writes3 ts) = tokenizeBlock (dcfg ti) gas (numbered 0 (writes3 ts)) 1 {} := rfl
  rw [e]
  have := nodes_claim ti ts h hne false 0 {} gas hg
  simp only [sepS, Bool.false_eq_true, if_false, List.append_nil, Nat.zero_add, Bool.or_false] at this
  rw [this]
  simp [after]



/-! ### The block token constructors on the expected entries -/

open Mistletoe.Document (joinNl mkBlock mkBlocks mkItems)
open Mistletoe.Html Mistletoe.Escape
open Mistletoe.InertInline (flat_append flat_prose)
open Mistletoe.ComposeL (itemLooseB listHtml flat_cons2 flat_list flat_li_open flat_li_close flat_li_empty flat_if_nl
  flat_item2_nil flat_item2_cons listHtml_ne mkBlock_of_single2)

/-- the language of a fenced code block: the first word of the info string (`fenceLang`: the non-blank characters behind
    the leading spaces), backslash escapes and character references resolved -/
def langOf (info : Str) : Str := Unescape.escStrip false (fenceLang info)

/-- `<pre><code class="language-…">`, the content with `&`, `<`, `>` (and the quotes, as the options say) escaped,
    `</code></pre>`; no `class` attribute when there is no language -/
def fenceHtml (q : Quotes) (lang content : Str) : Str :=
  "<pre><code".toList ++ (if lang.isEmpty then [] else " class=\"language-".toList ++ htmlEscape lang ++ "\"".toList) ++ ">".toList
    ++ escapeHtmlText q.dq q.sq content ++ "</code></pre>".toList

mutual
/-- the block token expected for a node whose first line is line `n` -/
def block3 (n : Nat) : T3 → Mistletoe.Block
  | .para ls => .paragraph (proseInlines (ls.map strip)) n
  | .heading lv t line => .heading lv (closingOf line) [.rawText t] n
  | .hr line => .thematicBreak (Document.stripNl line) n
  | .quote _ kids => .quote (blocks3 n kids) n
  | .list o s mk pad loose items => .list loose (if o then some s else none) (itemBlocks3 o mk pad loose s n items) n
  | .fence ind d info body _ => .codeFence (langOf info) ind d info (body.map (dedent ind)).flatten n
def blocks3 (n : Nat) : List T3 → List Mistletoe.Block
  | [] => []
  | t :: rest => block3 n t :: blocks3 (n + (write3 t).length + 1) rest
def itemBlocks3 (o : Bool) (mk : Char) (pad : Nat) (loose : Bool) (s : Nat) (n : Nat) : List (List T3) → List Mistletoe.Block
  | [] => []
  | it :: rest =>
    .listItem (leaderOf o s mk) 0 ((leaderOf o s mk).length + pad) ((loose && !rest.isEmpty) || decide (1 < it.length)) (blocks3 n it) n
      :: itemBlocks3 o mk pad loose (s + 1) (n + (writes3 it).length + (sepS loose).length) rest
end

/-- the looseness `List.__init__` computes from the items -/
def itemsLoose3 (loose : Bool) : List (List T3) → Bool
  | [] => false
  | it :: rest => ((loose && !rest.isEmpty) || decide (1 < it.length)) || itemsLoose3 loose rest

theorem any_itemBlocks3 (o : Bool) (mk : Char) (pad : Nat) (loose : Bool) : ∀ (s n : Nat) (items : List (List T3)),
    (itemBlocks3 o mk pad loose s n items).any itemLooseB = itemsLoose3 loose items
  | _, _, [] => rfl
  | s, n, it :: rest => by
    simp only [itemBlocks3, List.any_cons, itemLooseB, itemsLoose3, any_itemBlocks3 o mk pad loose _ _ rest]

theorem itemsLoose3_false : ∀ (items : List (List T3)), items.all (fun it => it.length == 1) = true → itemsLoose3 false items = false
  | [], _ => rfl
  | it :: rest, h => by
    simp only [List.all_cons, Bool.and_eq_true, beq_iff_eq] at h
    simp only [itemsLoose3, Bool.false_and, Bool.false_or, h.1, itemsLoose3_false rest h.2]
    decide

/-- `loose` is the looseness the constructor computes -/
theorem itemsLoose3_eq (loose : Bool) (items : List (List T3))
    (h : (if loose then decide (2 ≤ items.length) || items.any (fun it => decide (1 < it.length))
          else items.all (fun it => it.length == 1)) = true) : itemsLoose3 loose items = loose := by
  cases loose with
  | false => exact itemsLoose3_false items (by simpa using h)
  | true =>
    simp only [if_true, Bool.or_eq_true, decide_eq_true_eq, List.any_eq_true] at h
    cases items with
    | nil =>
      rcases h with h | ⟨x, hx, _⟩
      · simp at h
      · simp at hx
    | cons it rest =>
      cases rest with
      | cons it' r => simp [itemsLoose3]
      | nil =>
        rcases h with h | ⟨x, hx, hx2⟩
        · simp at h
        · simp only [List.mem_singleton] at hx
          subst hx
          simp [itemsLoose3, hx2]

mutual
theorem mkBlock_entry3 (cfg : Document.Cfg) (fn : Footnotes.Table) (ht : ∀ t ∈ cfg.span, inertClass t = true)
    (hc : cfg.span.count .lineBreak = 1) : ∀ (t : T3), t.ok = true → ∀ (n : Nat),
    mkBlock cfg fn (entry3 n t) = .ok (some (block3 n t))
  | .para ls, h, n => by
    have hp := paraOk_of ls (by simpa [T3.ok, T.ok] using h)
    exact mkBlock_of_single2 cfg fn _ _ (InertInline.mkBlocks_prose cfg fn ls n n ht hc hp.ne hp.prose hp.body)
  | .heading lv t line, h, n => by
    have hh := headOk_of lv t line (by simpa [T3.ok, T.ok] using h)
    have hin : Document.inl cfg fn t = .ok [.rawText t] := InertInline.tokenizeInner_inert cfg.span fn t ht hh.inert hh.ne
    simp only [entry3, block3, mkBlock, hin]
  | .hr line, h, n => by
    simp only [entry3, block3, mkBlock]
  | .quote bare kids, h, n => by
    obtain ⟨_, hk, _⟩ := quoteOk3_of bare kids h
    simp only [entry3, block3, mkBlock, mkBlocks_entries3 cfg fn ht hc kids hk n]
  | .list o s mk pad loose items, h, n => by
    have hl := listOk_of o s mk pad loose items h
    have hits := mkItems_items3 cfg fn ht hc o mk pad loose s n items hl.its
    simp only [entry3, block3, mkBlock, hits]
    cases items with
    | nil => exact absurd rfl hl.ne
    | cons it rest =>
      obtain ⟨_, _, hlead, _⟩ := okItems_cons o mk pad s it rest hl.its
      simp only [items3]
      have hany := any_itemBlocks3 o mk pad loose s n (it :: rest)
      rw [itemsLoose3_eq loose _ hl.looseC] at hany
      have hA : ∀ (f : Mistletoe.Block → Bool), (∀ b, f b = itemLooseB b) →
          (itemBlocks3 o mk pad loose s n (it :: rest)).any f = loose := by
        intro f hf
        refine Eq.trans ?_ hany
        congr 1; funext b; exact hf b
      rw [hA _ (by intro b; cases b <;> rfl)]
      cases o with
      | false => simp [leaderOf]
      | true =>
        obtain ⟨d, e, hd, _, h1, _, _⟩ := leaderOk_ordered _ hlead
        simp only [leaderOf, if_true] at hd ⊢
        have e1 : natDigits s = d := (List.append_inj' hd (by simp)).1
        have hne : ((natDigits s ++ [mk]).length != 1) = true := by
          rw [e1]; simp only [List.length_append, List.length_singleton, bne_iff_ne, ne_eq]; omega
        simp only [hne, if_true, List.dropLast_concat, hl.start rfl]
  | .fence ind d info body close, h, n => by
    simp only [entry3, block3, mkBlock, langOf]
theorem mkBlocks_entries3 (cfg : Document.Cfg) (fn : Footnotes.Table) (ht : ∀ t ∈ cfg.span, inertClass t = true)
    (hc : cfg.span.count .lineBreak = 1) : ∀ (ts : List T3), T3.oks ts = true → ∀ (n : Nat),
    mkBlocks cfg fn (entries3 n ts) = .ok (blocks3 n ts)
  | [], _, _ => by simp [entries3, blocks3, mkBlocks]
  | t :: rest, h, n => by
    obtain ⟨h1, h2, _⟩ := oks3_cons t rest h
    simp only [entries3, blocks3, mkBlocks, mkBlock_entry3 cfg fn ht hc t h1 n,
      mkBlocks_entries3 cfg fn ht hc rest h2 _]
theorem mkItems_items3 (cfg : Document.Cfg) (fn : Footnotes.Table) (ht : ∀ t ∈ cfg.span, inertClass t = true)
    (hc : cfg.span.count .lineBreak = 1) (o : Bool) (mk : Char) (pad : Nat) (loose : Bool) : ∀ (s n : Nat) (items : List (List T3)),
    T3.okItems o mk pad s items = true →
    mkItems cfg fn (items3 o mk pad loose s n items) = .ok (itemBlocks3 o mk pad loose s n items)
  | _, _, [], _ => by simp [items3, itemBlocks3, mkItems]
  | s, n, it :: rest, h => by
    obtain ⟨_, hit, _, _, _, hrest⟩ := okItems_cons o mk pad s it rest h
    simp only [items3, itemBlocks3, mkItems, mkBlocks_entries3 cfg fn ht hc it hit n,
      mkItems_items3 cfg fn ht hc o mk pad loose _ _ rest hrest]
end

/-- **`Document(lines)` on a written document** -/
theorem parseLines_writes3 (cfg : Document.Cfg) (ti : Bool) (hb : cfg.block = dcfg ti)
    (ht : ∀ t ∈ cfg.span, inertClass t = true) (hc : cfg.span.count .lineBreak = 1)
    (ts : List T3) (h : T3.oks ts = true) (hne : ts ≠ []) (gas : Nat) (hg : needs3 ts ≤ gas) :
    Document.parseLines cfg gas (writes3 ts) = .ok { kids := blocks3 1 ts, footnotes := [] } := by
  unfold Document.parseLines
  rw [hb, blockPhase_writes3 ti ts h hne gas hg]
  simp only
  rw [mkBlocks_entries3 cfg _ ht hc ts h 1]
  rfl


/-! ### HTML written directly from the tree -/

def isPara3 : T3 → Bool
  | .para _ => true
  | _ => false

def itemHtml3 (s : Bool) (it : List T3) (inner : Str) : Str :=
  match it with
  | [] => "<li></li>".toList
  | first :: _ =>
    "<li>".toList ++ (if s && isPara3 first then [] else ['\n']) ++ inner
      ++ (if s && (it.getLast?.map isPara3).getD false then [] else ['\n']) ++ "</li>".toList

mutual
/-- the HTML of one node; `s`: directly inside an item of a tight list -/
def html3 (q : Quotes) (s : Bool) : T3 → Str
  | .para ls => if s then escapeHtmlText q.dq q.sq (joinNl (ls.map strip)) else paraHtml q ls
  | .heading lv t _ => headHtml q lv t
  | .hr _ => hrHtml
  | .quote _ kids => quoteHtml (htmlAfter3 q kids)
  | .list o st _ _ loose items => listHtml o st (htmlItems3 q (!loose) items)
  | .fence ind _ info body _ => fenceHtml q (langOf info) (body.map (dedent ind)).flatten
/-- nodes, each followed by a newline (document, quote) -/
def htmlAfter3 (q : Quotes) : List T3 → Str
  | [] => []
  | t :: rest => html3 q false t ++ '\n' :: htmlAfter3 q rest
/-- nodes separated by newlines (list item) -/
def htmlSep3 (q : Quotes) (s : Bool) : List T3 → Str
  | [] => []
  | t :: rest =>
    match rest with
    | [] => html3 q s t
    | _ :: _ => html3 q s t ++ '\n' :: htmlSep3 q s rest
/-- items separated by newlines -/
def htmlItems3 (q : Quotes) (s : Bool) : List (List T3) → Str
  | [] => []
  | it :: rest =>
    match rest with
    | [] => itemHtml3 s it (htmlSep3 q s it)
    | _ :: _ => itemHtml3 s it (htmlSep3 q s it) ++ '\n' :: htmlItems3 q s rest
end

/-- the HTML of the document -/
def htmlOf3 (o : Opts) (ts : List T3) : Str := htmlAfter3 o.q ts

theorem isParagraph_block3 (n : Nat) : ∀ (t : T3), isParagraph (block3 n t) = isPara3 t
  | .para _ => rfl
  | .heading _ _ _ => rfl
  | .hr _ => rfl
  | .quote _ _ => rfl
  | .list .. => rfl
  | .fence .. => rfl

theorem blocks3_getLast : ∀ (ts : List T3) (n : Nat),
    ((blocks3 n ts).getLast?.map isParagraph).getD false = (ts.getLast?.map isPara3).getD false
  | [], _ => rfl
  | [t], n => by simp [blocks3, isParagraph_block3]
  | t :: t' :: r, n => by
    have ih := blocks3_getLast (t' :: r) (n + (write3 t).length + 1)
    simp only [blocks3, List.getLast?_cons_cons] at ih ⊢
    exact ih

theorem itemHtml_nil (s : Bool) (inner : Str) : itemHtml3 s [] inner = "<li></li>".toList := rfl
theorem itemHtml_cons (s : Bool) (first : T3) (rest : List T3) (inner : Str) : itemHtml3 s (first :: rest) inner =
    "<li>".toList ++ (if s && isPara3 first then [] else ['\n']) ++ inner
      ++ (if s && ((first :: rest).getLast?.map isPara3).getD false then [] else ['\n']) ++ "</li>".toList := rfl

theorem flat_item3 (q : Quotes) (s : Bool) (it : List T3) (n : Nat) (ld : Str) (ind pre : Nat) (lo : Bool)
    (h : flat (renderSep q s (blocks3 n it)) = htmlSep3 q s it) :
    flat (renderBlock q s (.listItem ld ind pre lo (blocks3 n it) n)) = itemHtml3 s it (htmlSep3 q s it) := by
  cases it with
  | nil =>
    simp only [blocks3]
    rw [itemHtml_nil]
    exact flat_item2_nil q s n ld ind pre lo
  | cons first rest =>
    have hlast := blocks3_getLast (first :: rest) n
    simp only [blocks3] at h hlast
    simp only [blocks3]
    rw [itemHtml_cons, flat_item2_cons, h, hlast, isParagraph_block3]

theorem htmlItems_cons2 (q : Quotes) (s : Bool) (it it' : List T3) (r : List (List T3)) :
    htmlItems3 q s (it :: it' :: r) = itemHtml3 s it (htmlSep3 q s it) ++ '\n' :: htmlItems3 q s (it' :: r) := by
  simp [htmlItems3]

mutual
theorem flat_block3 (q : Quotes) : ∀ (t : T3) (s : Bool) (n : Nat), flat (renderBlock q s (block3 n t)) = html3 q s t
  | .para ls, s, n => by
    simp only [block3, html3, paraHtml, renderBlock]
    cases s with
    | true => simp only [if_true, flat_prose]
    | false =>
      simp only [Bool.false_eq_true, if_false, flat_append, flat_prose]
      simp [flat, flatEv, flatAttrs]
  | .heading lv t line, s, n => by
    simp only [block3, html3, headHtml]
    simp only [renderBlock, renderInlines, renderInline, flat_cons2, Compose.flat_nil,
      flatEv, flatAttrs, List.append_nil, List.append_assoc, List.cons_append, List.nil_append]
  | .hr line, s, n => by
    simp only [block3, html3, hrHtml, renderBlock]
    decide
  | .quote _ kids, s, n => by
    simp only [block3, html3]
    simp only [renderBlock, flat_append, flat_after3 q kids n]
    generalize htmlAfter3 q kids = x
    have h1 : flat [Ev.otag "blockquote".toList [], nl] = ['<', 'b', 'l', 'o', 'c', 'k', 'q', 'u', 'o', 't', 'e', '>', '\n'] := by
      decide +kernel
    have h2 : flat [Ev.ctag "blockquote".toList] = ['<', '/', 'b', 'l', 'o', 'c', 'k', 'q', 'u', 'o', 't', 'e', '>'] := by
      decide +kernel
    rw [h1, h2, quoteHtml]
  | .list o st mk pad loose items, s, n => by
    simp only [block3, html3]
    rw [flat_list, flat_items3 q o mk pad loose (!loose) items st n]
  | .fence ind d info body close, s, n => by
    simp only [block3, html3, fenceHtml, renderBlock]
    cases hl : (langOf info).isEmpty <;>
      simp [flat, flatEv, flatAttrs]
theorem flat_after3 (q : Quotes) : ∀ (ts : List T3) (n : Nat),
    flat (renderAfterEach q false (blocks3 n ts)) = htmlAfter3 q ts
  | [], _ => by simp [blocks3, renderAfterEach, htmlAfter3, flat]
  | t :: rest, n => by
    simp only [blocks3, htmlAfter3]
    simp only [renderAfterEach, flat_append, flat_block3 q t false n, flat_after3 q rest _]
    simp [flat, flatEv, nl]
theorem flat_sep3 (q : Quotes) (s : Bool) : ∀ (ts : List T3) (n : Nat),
    flat (renderSep q s (blocks3 n ts)) = htmlSep3 q s ts
  | [], _ => by simp [blocks3, renderSep, htmlSep3, flat]
  | [t], n => by simp only [blocks3, renderSep, htmlSep3, flat_block3 q t s n]
  | t :: t' :: r, n => by
    have ih := flat_sep3 q s (t' :: r) (n + (write3 t).length + 1)
    simp only [blocks3, htmlSep3] at ih ⊢
    simp only [renderSep, flat_append, flat_block3 q t s n, ih]
    simp [flat, flatEv, nl]
theorem flat_items3 (q : Quotes) (o : Bool) (mk : Char) (pad : Nat) (loose : Bool) (s : Bool) : ∀ (items : List (List T3)) (st n : Nat),
    flat (renderSep q s (itemBlocks3 o mk pad loose st n items)) = htmlItems3 q s items
  | [], _, _ => by simp [itemBlocks3, renderSep, htmlItems3, flat]
  | [it], st, n => by
    simp only [itemBlocks3, renderSep, htmlItems3]
    exact flat_item3 q s it n _ _ _ _ (flat_sep3 q s it n)
  | it :: it' :: r, st, n => by
    have ih := flat_items3 q o mk pad loose s (it' :: r) (st + 1) (n + (writes3 it).length + (sepS loose).length)
    rw [htmlItems_cons2, ← ih]
    simp only [itemBlocks3, renderSep, flat_append]
    rw [flat_item3 q s it n _ _ _ _ (flat_sep3 q s it n)]
    simp [flat, flatEv, nl]
end
theorem html3_ne (q : Quotes) : ∀ (t : T3), html3 q false t ≠ []
  | .para _ => by simp [html3, paraHtml]
  | .heading _ _ _ => by simp [html3, headHtml]
  | .hr _ => by simp [html3, hrHtml]
  | .quote _ _ => by simp only [html3]; exact quoteHtml_ne _
  | .list .. => by simp only [html3]; exact listHtml_ne _ _ _
  | .fence .. => by simp [html3, fenceHtml]

/-- **the HTML renderer on the expected document** -/
theorem render_blocks3 (o : Opts) (ts : List T3) (hne : ts ≠ []) (fn : List (Str × Str × Str)) :
    render o { kids := blocks3 1 ts, footnotes := fn } = htmlOf3 o ts := by
  obtain ⟨t, rest, rfl⟩ : ∃ t rest, ts = t :: rest := by
    cases ts with
    | nil => exact absurd rfl hne
    | cons t rest => exact ⟨t, rest, rfl⟩
  have hk : blocks3 1 (t :: rest) = block3 1 t :: blocks3 (1 + (write3 t).length + 1) rest := by simp [blocks3]
  have hnonempty : (flat (renderSep o.q false (blocks3 1 (t :: rest)))).isEmpty = false := by
    rw [hk]
    cases hr : blocks3 (1 + (write3 t).length + 1) rest with
    | nil =>
      simp only [renderSep, flat_block3]
      simpa using html3_ne o.q t
    | cons b bs =>
      simp only [renderSep, flat_append, flat_block3]
      simp [html3_ne o.q t]
  have hd : renderDoc o.q { kids := blocks3 1 (t :: rest), footnotes := fn } =
      renderSep o.q false (blocks3 1 (t :: rest)) ++ [nl] := by
    simp only [renderDoc, hk]
    rw [← hk, hnonempty]
    simp
  rw [render, hd, flat_append]
  have : flat [nl] = ['\n'] := rfl
  rw [this, Compose.flat_sep_afterEach o.q false _ (by rw [hk]; simp), flat_after3]
  rfl

/-! ### From the text as one `str`, and the bundled HTML configuration -/

/-- **`Document(text)`** for the written lines concatenated into one string -/
theorem parse_writes3 (cfg : Document.Cfg) (ti : Bool) (hb : cfg.block = dcfg ti)
    (ht : ∀ t ∈ cfg.span, inertClass t = true) (hc : cfg.span.count .lineBreak = 1)
    (ts : List T3) (h : T3.oks ts = true) (hne : ts ≠ []) (gas : Nat) (hg : needs3 ts ≤ gas) :
    Document.parse cfg gas (writes3 ts).flatten = .ok { kids := blocks3 1 ts, footnotes := [] } := by
  rw [InertInline.parse_lines cfg _ (writes3 ts) (fun l hl => lineOk_oneLine ((writes3_lineOk ts h).1 l hl))]
  exact parseLines_writes3 cfg ti hb ht hc ts h hne gas hg

/-- **end to end**: `HtmlRenderer(**opts).render(Document(text))` on the written text is the HTML written
    directly from the tree -/
theorem renderHtml_writes3 (o : Opts) (ts : List T3) (h : T3.oks ts = true) (hne : ts ≠ []) (gas : Nat) (hg : needs3 ts ≤ gas) :
    Config.renderHtml o gas (writes3 ts).flatten = some (htmlOf3 o ts) := by
  unfold Config.renderHtml
  cases hc : Config.html with
  | none =>
    have := Props.C14.C14_config_current.1
    rw [hc] at this
    cases this
  | some cfg =>
    obtain ⟨hb, ht, hcnt⟩ := Compose.html_config cfg hc
    simp only
    rw [parse_writes3 cfg _ hb ht hcnt ts h hne gas hg]
    simp only
    rw [render_blocks3 o ts hne]



end Mistletoe.ComposeC
