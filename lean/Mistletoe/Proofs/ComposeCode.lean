/-
  Composition of the block-level theorems, FENCED CODE BLOCKS included (C03, third fragment).
-/
import Mistletoe.Proofs.ComposeLists2
import Mistletoe.Proofs.MdRoundCode
namespace Mistletoe.ComposeC
open Mistletoe Mistletoe.Py Mistletoe.Scan Mistletoe.Compose
open Mistletoe.Block hiding numbered numbered_cons numbered_append
open Mistletoe.Props.C14 (defaultTypes inertLine numbered numbered_cons numbered_append numbered_length numbered_mem numbered_s)
open Mistletoe.InertInline (inertBody inertText proseLine oneLine proseInlines inertClass)
open Mistletoe.Props.C04 (indentDoc itemDocOk)
open Mistletoe.Html (natDigits)
open Mistletoe.MdRound (fenceCh fch_html fch_blockCode fch_heading fch_quote fenceLang closes lstripSp_cons lstripSp_len lstripSp_pad
  all_eq_replicate)

/-! ### The opening line of a fenced code block, at indentation 0-3 -/

/-- `n` spaces -/
def sp (n : Nat) : Str := List.replicate n ' '

theorem fch_ne (c : Char) (hc : fenceCh c) : c ≠ ' ' ∧ c ≠ '\t' ∧ c ≠ '\n' ∧ c ≠ '#' ∧ c ≠ '>' ∧ pyIsSpace c = false := by
  rcases hc with rfl | rfl <;> decide

theorem fsp_html (n : Nat) (hn : n < 4) (c : Char) (hc : fenceCh c) (s : Str) : htmlBlockStart (sp n ++ c :: s) = .ok none := by
  have h0 := fch_html c hc s
  have hsp := (fch_ne c hc).2.2.2.2.2
  have hl0 : lstrip (c :: s) = c :: s := by simp [lstrip, hsp]
  have hl : lstrip (sp n ++ c :: s) = c :: s := lstrip_rep n c s hsp
  unfold htmlBlockStart at h0 ⊢
  simp only [hl0, hl] at h0 ⊢
  have h1 : ¬ ((sp n ++ c :: s).length - (c :: s).length ≥ 4) := by simp [sp]; omega
  have h2 : ¬ ((c :: s).length - (c :: s).length ≥ 4) := by simp
  simp only [h1, h2, if_false] at h0 ⊢
  exact h0

theorem fsp_blockCode (n : Nat) (hn : n < 4) (c : Char) (hc : fenceCh c) (s : Str) : blockCodeStart (sp n ++ c :: s) = false := by
  unfold blockCodeStart replaceTab1
  have hs : (' ' : Char) ≠ '\t' := by decide
  obtain ⟨h1, h2, _⟩ := fch_ne c hc
  obtain rfl | rfl | rfl | rfl : n = 0 ∨ n = 1 ∨ n = 2 ∨ n = 3 := by omega
  all_goals simp [sp, List.replicate, replaceTab_plain _ _ h2, replaceTab_plain _ _ hs, startsWith, isPrefix_ne _ _ _ _ h1]

theorem fsp_heading (fw : FW) (n : Nat) (hn : n < 4) (c : Char) (hc : fenceCh c) (s : Str) : readHeading fw (sp n ++ c :: s) = none := by
  obtain ⟨h1, _, _, h4, _⟩ := fch_ne c hc
  have hs : span (· == '#') (c :: s) = ([], c :: s) := by simp [span, h4]
  unfold readHeading Scan.heading
  rw [show sp n = List.replicate n ' ' from rfl, upTo3_rep n c s h1 hn]
  simp only [hs]
  simp

theorem fsp_quote (n : Nat) (_hn : n < 4) (c : Char) (hc : fenceCh c) (s : Str) : quoteStart (sp n ++ c :: s) = false := by
  obtain ⟨h1, _, _, _, h5, _⟩ := fch_ne c hc
  unfold quoteStart
  simp [sp, lstripSp_rep n c s h1, startsWith, isPrefix_ne _ _ _ _ h5]

/-- the facts `ok` packs for the opening line: the fence is `≥ 3` copies of a fence character; the info string has no line
    end, does not begin with the fence character, and has no backtick behind a backtick fence -/
abbrev FenceOk := Mistletoe.MdRound.FenceOk

theorem codeFence_line (n : Nat) (hn : n < 4) (c : Char) (d info : Str) (h : FenceOk c d info) :
    Scan.codeFence (sp n ++ d ++ info ++ ['\n']) = some { prepend := n, leader := d, info := info, lang := fenceLang info } := by
  obtain ⟨r, hr⟩ := h.cons
  have hc := h.ch
  obtain ⟨h1, _, hnl, _⟩ := fch_ne c hc
  have hup : upTo3Spaces (sp n ++ d ++ info ++ ['\n']) = some (n, d ++ info ++ ['\n']) := by
    rw [hr]
    have := upTo3_rep n c (r ++ info ++ ['\n']) h1 hn
    simpa [sp] using this
  have hs : span (· == c) (d ++ (info ++ ['\n'])) = (d, info ++ ['\n']) := by
    apply MdRound.span_append
    · intro x hx; rw [h.rep] at hx; simp only [List.mem_replicate] at hx; simp [hx.2]
    · intro x hx
      cases hi : info with
      | nil => rw [hi] at hx; simp at hx; subst hx; simpa using Ne.symm hnl
      | cons y t =>
        rw [hi] at hx; simp at hx; subst hx
        have := h.nohead; rw [hi] at this
        simpa using this
  have hs2 : span (· != '\n') (info ++ ['\n']) = (info, ['\n']) := by
    apply MdRound.span_append
    · intro x hx; simp only [bne_iff_ne, ne_eq]; intro e; exact h.nonl (e ▸ hx)
    · intro x hx; simp at hx; subst hx; simp
  unfold Scan.codeFence
  rw [hup]
  simp only [List.append_assoc] at hs ⊢
  rw [hr] at hs ⊢
  simp only [List.cons_append] at hs ⊢
  have hcc : (c != '`' && c != '~') = false := by rcases hc with e | e <;> rw [e] <;> decide
  simp only [hcc, Bool.false_eq_true, if_false, hs, hs2]
  have hl := h.len
  rw [hr] at hl
  have : ¬ ((c :: r).length < 3) := by omega
  simp only [this, if_false, fenceLang]

theorem codeFenceStart_line (n : Nat) (hn : n < 4) (c : Char) (d info : Str) (h : FenceOk c d info) :
    codeFenceStart (sp n ++ d ++ info ++ ['\n']) = some { prepend := n, leader := d, info := info, lang := fenceLang info } := by
  unfold codeFenceStart
  rw [codeFence_line n hn c d info h]
  simp only
  obtain ⟨r, hr⟩ := h.cons
  by_cases hc : c = '`'
  · have hn := h.notick hc
    simp [hn]
  · have : (d.head? == some '`') = false := by rw [hr]; simpa using hc
    simp [this]

/-! ### `CodeFence.read` at indentation `p` -/

/-- a content line of a fence whose opening line is indented by `n` spaces: up to `n` leading spaces are removed -/
def dedent : Nat → Str → Str
  | n + 1, ' ' :: r => dedent n r
  | _, s => s

/-- the piece `CodeFence.read` appends for a content line is the dedented line -/
theorem fence_piece : ∀ (l : Str) (p : Nat),
    (if l.length - (lstripSp l).length > p then List.replicate (l.length - (lstripSp l).length - p) ' ' ++ lstripSp l
      else lstripSp l) = dedent p l
  | [], p => by cases p <;> simp [lstripSp, dedent]
  | c :: r, p => by
    by_cases hc : c = ' '
    · subst hc
      have hlen := lstripSp_len r
      have hl : lstripSp (' ' :: r) = lstripSp r := by simp [lstripSp]
      have e : (' ' :: r).length - (lstripSp r).length = (r.length - (lstripSp r).length) + 1 := by
        simp only [List.length_cons]; omega
      rw [hl, e]
      cases p with
      | zero =>
        have := lstripSp_pad r
        simp only [Nat.zero_lt_succ, if_true, Nat.sub_zero, List.replicate_succ, List.cons_append, this, dedent]
      | succ p' =>
        have ih := fence_piece r p'
        simp only [dedent]
        rw [← ih]
        have e2 : r.length - (lstripSp r).length + 1 - (p' + 1) = r.length - (lstripSp r).length - p' := by omega
        rw [e2]
        by_cases hh : r.length - (lstripSp r).length > p'
        · rw [if_pos hh, if_pos (by omega)]
        · rw [if_neg hh, if_neg (by omega)]
    · have hl : lstripSp (c :: r) = c :: r := by rw [lstripSp_cons, if_neg hc]
      rw [hl]
      have : dedent p (c :: r) = c :: r := by
        cases p with
        | zero => rfl
        | succ p' => unfold dedent; split <;> simp_all
      rw [this]
      simp

theorem codeFenceLoop_step (d : Str) (p fuel : Nat) (fw : FW) (buf : List Str) (l : Line) (hp : fw.peek = some l) :
    codeFenceLoop d p (fuel + 1) fw buf =
      if closes d l.s = true then (buf, fw.next) else codeFenceLoop d p fuel fw.next (dedent p l.s :: buf) := by
  simp only [codeFenceLoop, hp, fence_piece, closes]
  rfl

theorem codeFenceLoop_body (d : Str) (p : Nat) (cl : Line) (hcl : closes d cl.s = true) (post : List Line) (start : Nat) :
    ∀ (body pre : List Line) (buf : List Str) (fuel : Nat), (∀ x ∈ body, closes d x.s = false) → body.length + 1 ≤ fuel →
    codeFenceLoop d p fuel ⟨pre ++ (body ++ cl :: post), pre.length, start⟩ buf =
      ((body.map (fun x => dedent p x.s)).reverse ++ buf, ⟨(pre ++ (body ++ [cl])) ++ post, (pre ++ (body ++ [cl])).length, start⟩)
  | [], pre, buf, fuel, _, hf => by
    obtain ⟨f, rfl⟩ : ∃ f, fuel = f + 1 := ⟨fuel - 1, by simp at hf; omega⟩
    rw [List.nil_append, codeFenceLoop_step d p f _ buf cl (peek_at _ _ _ _), if_pos hcl, MdRound.fw_next]
    simp
  | b :: body, pre, buf, fuel, hb, hf => by
    obtain ⟨f, rfl⟩ : ∃ f, fuel = f + 1 := ⟨fuel - 1, by simp at hf; omega⟩
    have hc := hb b (by simp)
    have ih := codeFenceLoop_body d p cl hcl post start body (pre ++ [b]) (dedent p b.s :: buf) f
      (fun x hx => hb x (List.mem_cons_of_mem _ hx)) (by simp at hf; omega)
    rw [List.cons_append, codeFenceLoop_step d p f _ buf b (peek_at _ _ _ _), hc, MdRound.fw_next]
    simp only [Bool.false_eq_true, if_false]
    rw [ih]
    simp

theorem readCodeFence_block (d info lang : Str) (p : Nat) (l cl : Line) (hcl : closes d cl.s = true) (body pre post : List Line)
    (hb : ∀ x ∈ body, closes d x.s = false) (start : Nat) :
    readCodeFence ⟨pre ++ l :: (body ++ cl :: post), pre.length, start⟩ { prepend := p, leader := d, info := info, lang := lang } =
      (body.map (fun x => dedent p x.s), ⟨(pre ++ l :: (body ++ [cl])) ++ post, (pre ++ l :: (body ++ [cl])).length, start⟩) := by
  unfold readCodeFence
  simp only [MdRound.fw_next]
  rw [codeFenceLoop_body d p cl hcl post start body (pre ++ [l]) [] _ hb (by simp [FW.remaining]; omega)]
  simp

/-- a fenced code block under the default token list: `CodeFence` is the first type that starts on the opening line; `read`
    consumes the content lines and the closing line, whatever follows -/
theorem tokLoop_fence_step (ti : Bool) (g : Nat) (n : Nat) (hn : n < 4) (c : Char) (d info : Str)
    (h : FenceOk c d info) (l cl : Line) (hl : l.s = sp n ++ d ++ info ++ ['\n']) (hcl : closes d cl.s = true)
    (body : List Line) (hb : ∀ x ∈ body, closes d x.s = false)
    (pre post : List Line) (start : Nat) (st : St) (acc : List Entry) (loose : Bool) :
    tokLoop (dcfg ti) (g + 8) ⟨pre ++ l :: (body ++ cl :: post), pre.length, start⟩ st acc loose =
      tokLoop (dcfg ti) (g + 7) ⟨(pre ++ l :: (body ++ [cl])) ++ post, (pre ++ l :: (body ++ [cl])).length, start⟩ st
        (.codeFence (body.map (fun x => dedent n x.s)) n d info (fenceLang info) (start + pre.length) l.origin :: acc) loose := by
  obtain ⟨r, hr⟩ := h.cons
  have hs : l.s = sp n ++ c :: (r ++ info ++ ['\n']) := by rw [hl, hr]; simp
  have hcf := codeFenceStart_line n hn c d info h
  rw [← hl] at hcf
  have hrd := readCodeFence_block d info (fenceLang info) n l cl hcl body pre post hb start
  have f3 := fsp_html n hn c h.ch (r ++ info ++ ['\n'])
  have f4 := fsp_blockCode n hn c h.ch (r ++ info ++ ['\n'])
  have f5 := fsp_heading ⟨pre ++ l :: (body ++ cl :: post), pre.length, start⟩ n hn c h.ch (r ++ info ++ ['\n'])
  have f6 := fsp_quote n hn c h.ch (r ++ info ++ ['\n'])
  rw [← hs] at f3 f4 f5 f6
  have e : g + 8 = ((((((g + 2) + 1) + 1) + 1) + 1) + 1) + 1 := by omega
  rw [e]
  simp only [tokLoop, peek_at, dcfg, defaultTypes, tryTypes, f3, f4, f5, f6, hcf, hrd, Bool.false_eq_true, if_false]

end Mistletoe.ComposeC
