/-
  Composition of the block-level theorems, FENCED CODE BLOCKS and SETEXT HEADINGS included (C03, third fragment).

  `Proofs/ComposeLists.lean` / `ComposeLists2.lean` prove that a document written out from a tree of paragraphs, ATX
  headings, thematic breaks, block quotes and lists (`ComposeL.T2`) parses to that tree and renders to the HTML written
  directly from it.  This file restates that development for the tree type `T3`, which adds two kinds of leaves:

  * `fence ind delim info body close` - a fenced code block in any spelling the specification allows that keeps the
    tree: indentation 0-3, three or more backticks or tildes, any info string, any content lines that do not close the
    fence, a closing fence of the same character at least as long, at indentation 0-3, with trailing spaces; at top
    level, inside quotes and inside list items;
  * `setext level lines ul` - a setext heading: text lines as for a paragraph, then `=+` or `-+` at indentation 0-3 with
    trailing spaces; at top level and inside list items, not inside quotes (there the implementation does not recognise
    them: recorded finding).

  New ingredients (the rest is `ComposeLists.lean`'s argument, restated for `T3`; its lemmas that speak of lines only -
  `item_lines_last`, `item_lines_next`, `readList_step_*`, `PostOk`, … - are used as they are):
  * the opening line of a fence at indentation 0-3 (`fsp_*`, `codeFenceStart_line`), `CodeFence.read` with the dedenting
    of content lines (`fence_piece`, `codeFenceLoop_body`), the dispatcher over a closed fence, whatever follows
    (`tokLoop_fence_step`).  A code fence is not one of the blocks C05 counts as closed by a blank line
    (`closedE`), so `tokenizeBlock_concat_lists` does not apply behind it; as for lists the dispatcher is followed over
    the block directly and goes on behind the "\n" line with `tokLoop_suffix_shift` (`ThenClaim`, `nodes_single_then`,
    `nodes_cons_then`, shared by lists and fences);
  * `Paragraph.read` over text lines and an underline with `parse_setext` on (`paragraphLoop_setext`, `tokenize_setext`);
    the state component `setext` is switched off inside quotes, so every claim carries the hypothesis `SxOk`: where the
    tree has a setext heading, `parse_setext` is on; well-formedness keeps setext headings out of quotes.

  Main theorems: `C03_code_block_phase_partial`, `C03_code_document_partial`, `C03_code_render_partial`,
  `C03_code_html_partial`.  Non-vacuity examples, the comparison with kernel evaluation and the counterexamples are in
  `Proofs/ComposeCode2.lean` (fences) and `Proofs/ComposeCode3.lean` (setext headings).
-/
import Mistletoe.Proofs.ComposeLists2
import Mistletoe.Proofs.MdRoundCode
namespace Mistletoe.ComposeC
open Mistletoe Mistletoe.Py Mistletoe.Scan Mistletoe.Compose
open Mistletoe.Block hiding numbered numbered_cons numbered_append
open Mistletoe.Props.C14 (defaultTypes inertLine numbered numbered_cons numbered_append numbered_length numbered_mem numbered_s)
open Mistletoe.InertInline (inertBody inertText proseLine oneLine proseInlines inertClass)
open Mistletoe.Props.C04 (indentDoc itemDocOk)
open Mistletoe.Html (natDigits)
open Mistletoe.MdRound (fenceCh fch_html fch_blockCode fch_heading fch_quote fenceLang closes lstripSp_cons lstripSp_len lstripSp_pad
  all_eq_replicate)

/-! ### The opening line of a fenced code block, at indentation 0-3 -/

/-- `n` spaces -/
def sp (n : Nat) : Str := List.replicate n ' '

theorem fch_ne (c : Char) (hc : fenceCh c) : c ≠ ' ' ∧ c ≠ '\t' ∧ c ≠ '\n' ∧ c ≠ '#' ∧ c ≠ '>' ∧ pyIsSpace c = false := by
  rcases hc with rfl | rfl <;> decide

theorem fsp_html (n : Nat) (hn : n < 4) (c : Char) (hc : fenceCh c) (s : Str) : htmlBlockStart (sp n ++ c :: s) = .ok none := by
  have h0 := fch_html c hc s
  have hsp := (fch_ne c hc).2.2.2.2.2
  have hl0 : lstrip (c :: s) = c :: s := by simp [lstrip, hsp]
  have hl : lstrip (sp n ++ c :: s) = c :: s := lstrip_rep n c s hsp
  unfold htmlBlockStart at h0 ⊢
  simp only [hl0, hl] at h0 ⊢
  have h1 : ¬ ((sp n ++ c :: s).length - (c :: s).length ≥ 4) := by simp [sp]; omega
  have h2 : ¬ ((c :: s).length - (c :: s).length ≥ 4) := by simp
  simp only [h1, h2, if_false] at h0 ⊢
  exact h0

theorem fsp_blockCode (n : Nat) (hn : n < 4) (c : Char) (hc : fenceCh c) (s : Str) : blockCodeStart (sp n ++ c :: s) = false := by
  unfold blockCodeStart replaceTab1
  have hs : (' ' : Char) ≠ '\t' := by decide
  obtain ⟨h1, h2, _⟩ := fch_ne c hc
  obtain rfl | rfl | rfl | rfl : n = 0 ∨ n = 1 ∨ n = 2 ∨ n = 3 := by omega
  all_goals simp [sp, List.replicate, replaceTab_plain _ _ h2, replaceTab_plain _ _ hs, startsWith, isPrefix_ne _ _ _ _ h1]

theorem fsp_heading (fw : FW) (n : Nat) (hn : n < 4) (c : Char) (hc : fenceCh c) (s : Str) : readHeading fw (sp n ++ c :: s) = none := by
  obtain ⟨h1, _, _, h4, _⟩ := fch_ne c hc
  have hs : span (· == '#') (c :: s) = ([], c :: s) := by simp [span, h4]
  unfold readHeading Scan.heading
  rw [show sp n = List.replicate n ' ' from rfl, upTo3_rep n c s h1 hn]
  simp only [hs]
  simp

theorem fsp_quote (n : Nat) (_hn : n < 4) (c : Char) (hc : fenceCh c) (s : Str) : quoteStart (sp n ++ c :: s) = false := by
  obtain ⟨h1, _, _, _, h5, _⟩ := fch_ne c hc
  unfold quoteStart
  simp [sp, lstripSp_rep n c s h1, startsWith, isPrefix_ne _ _ _ _ h5]

/-- the facts `ok` packs for the opening line: the fence is `≥ 3` copies of a fence character; the info string has no line
    end, does not begin with the fence character, and has no backtick behind a backtick fence -/
abbrev FenceOk := Mistletoe.MdRound.FenceOk

theorem codeFence_line (n : Nat) (hn : n < 4) (c : Char) (d info : Str) (h : FenceOk c d info) :
    Scan.codeFence (sp n ++ d ++ info ++ ['\n']) = some { prepend := n, leader := d, info := info, lang := fenceLang info } := by
  obtain ⟨r, hr⟩ := h.cons
  have hc := h.ch
  obtain ⟨h1, _, hnl, _⟩ := fch_ne c hc
  have hup : upTo3Spaces (sp n ++ d ++ info ++ ['\n']) = some (n, d ++ info ++ ['\n']) := by
    rw [hr]
    have := upTo3_rep n c (r ++ info ++ ['\n']) h1 hn
    simpa [sp] using this
  have hs : span (· == c) (d ++ (info ++ ['\n'])) = (d, info ++ ['\n']) := by
    apply MdRound.span_append
    · intro x hx; rw [h.rep] at hx; simp only [List.mem_replicate] at hx; simp [hx.2]
    · intro x hx
      cases hi : info with
      | nil => rw [hi] at hx; simp at hx; subst hx; simpa using Ne.symm hnl
      | cons y t =>
        rw [hi] at hx; simp at hx; subst hx
        have := h.nohead; rw [hi] at this
        simpa using this
  have hs2 : span (· != '\n') (info ++ ['\n']) = (info, ['\n']) := by
    apply MdRound.span_append
    · intro x hx; simp only [bne_iff_ne, ne_eq]; intro e; exact h.nonl (e ▸ hx)
    · intro x hx; simp at hx; subst hx; simp
  unfold Scan.codeFence
  rw [hup]
  simp only [List.append_assoc] at hs ⊢
  rw [hr] at hs ⊢
  simp only [List.cons_append] at hs ⊢
  have hcc : (c != '`' && c != '~') = false := by rcases hc with e | e <;> rw [e] <;> decide
  simp only [hcc, Bool.false_eq_true, if_false, hs, hs2]
  have hl := h.len
  rw [hr] at hl
  have : ¬ ((c :: r).length < 3) := by omega
  simp only [this, if_false, fenceLang]

theorem codeFenceStart_line (n : Nat) (hn : n < 4) (c : Char) (d info : Str) (h : FenceOk c d info) :
    codeFenceStart (sp n ++ d ++ info ++ ['\n']) = some { prepend := n, leader := d, info := info, lang := fenceLang info } := by
  unfold codeFenceStart
  rw [codeFence_line n hn c d info h]
  simp only
  obtain ⟨r, hr⟩ := h.cons
  by_cases hc : c = '`'
  · have hn := h.notick hc
    simp [hn]
  · have : (d.head? == some '`') = false := by rw [hr]; simpa using hc
    simp [this]

/-! ### `CodeFence.read` at indentation `p` -/

/-- a content line of a fence whose opening line is indented by `n` spaces: up to `n` leading spaces are removed -/
def dedent : Nat → Str → Str
  | n + 1, ' ' :: r => dedent n r
  | _, s => s

/-- the piece `CodeFence.read` appends for a content line is the dedented line -/
theorem fence_piece : ∀ (l : Str) (p : Nat),
    (if l.length - (lstripSp l).length > p then List.replicate (l.length - (lstripSp l).length - p) ' ' ++ lstripSp l
      else lstripSp l) = dedent p l
  | [], p => by cases p <;> simp [lstripSp, dedent]
  | c :: r, p => by
    by_cases hc : c = ' '
    · subst hc
      have hlen := lstripSp_len r
      have hl : lstripSp (' ' :: r) = lstripSp r := by simp [lstripSp]
      have e : (' ' :: r).length - (lstripSp r).length = (r.length - (lstripSp r).length) + 1 := by
        simp only [List.length_cons]; omega
      rw [hl, e]
      cases p with
      | zero =>
        have := lstripSp_pad r
        simp only [Nat.zero_lt_succ, if_true, Nat.sub_zero, List.replicate_succ, List.cons_append, this, dedent]
      | succ p' =>
        have ih := fence_piece r p'
        simp only [dedent]
        rw [← ih]
        have e2 : r.length - (lstripSp r).length + 1 - (p' + 1) = r.length - (lstripSp r).length - p' := by omega
        rw [e2]
        by_cases hh : r.length - (lstripSp r).length > p'
        · rw [if_pos hh, if_pos (by omega)]
        · rw [if_neg hh, if_neg (by omega)]
    · have hl : lstripSp (c :: r) = c :: r := by rw [lstripSp_cons, if_neg hc]
      rw [hl]
      have : dedent p (c :: r) = c :: r := by
        cases p with
        | zero => rfl
        | succ p' => unfold dedent; split <;> simp_all
      rw [this]
      simp

theorem codeFenceLoop_step (d : Str) (p fuel : Nat) (fw : FW) (buf : List Str) (l : Line) (hp : fw.peek = some l) :
    codeFenceLoop d p (fuel + 1) fw buf =
      if closes d l.s = true then (buf, fw.next) else codeFenceLoop d p fuel fw.next (dedent p l.s :: buf) := by
  simp only [codeFenceLoop, hp, fence_piece, closes]
  rfl

theorem codeFenceLoop_body (d : Str) (p : Nat) (cl : Line) (hcl : closes d cl.s = true) (post : List Line) (start : Nat) :
    ∀ (body pre : List Line) (buf : List Str) (fuel : Nat), (∀ x ∈ body, closes d x.s = false) → body.length + 1 ≤ fuel →
    codeFenceLoop d p fuel ⟨pre ++ (body ++ cl :: post), pre.length, start⟩ buf =
      ((body.map (fun x => dedent p x.s)).reverse ++ buf, ⟨(pre ++ (body ++ [cl])) ++ post, (pre ++ (body ++ [cl])).length, start⟩)
  | [], pre, buf, fuel, _, hf => by
    obtain ⟨f, rfl⟩ : ∃ f, fuel = f + 1 := ⟨fuel - 1, by simp at hf; omega⟩
    rw [List.nil_append, codeFenceLoop_step d p f _ buf cl (peek_at _ _ _ _), if_pos hcl, MdRound.fw_next]
    simp
  | b :: body, pre, buf, fuel, hb, hf => by
    obtain ⟨f, rfl⟩ : ∃ f, fuel = f + 1 := ⟨fuel - 1, by simp at hf; omega⟩
    have hc := hb b (by simp)
    have ih := codeFenceLoop_body d p cl hcl post start body (pre ++ [b]) (dedent p b.s :: buf) f
      (fun x hx => hb x (List.mem_cons_of_mem _ hx)) (by simp at hf; omega)
    rw [List.cons_append, codeFenceLoop_step d p f _ buf b (peek_at _ _ _ _), hc, MdRound.fw_next]
    simp only [Bool.false_eq_true, if_false]
    rw [ih]
    simp

theorem readCodeFence_block (d info lang : Str) (p : Nat) (l cl : Line) (hcl : closes d cl.s = true) (body pre post : List Line)
    (hb : ∀ x ∈ body, closes d x.s = false) (start : Nat) :
    readCodeFence ⟨pre ++ l :: (body ++ cl :: post), pre.length, start⟩ { prepend := p, leader := d, info := info, lang := lang } =
      (body.map (fun x => dedent p x.s), ⟨(pre ++ l :: (body ++ [cl])) ++ post, (pre ++ l :: (body ++ [cl])).length, start⟩) := by
  unfold readCodeFence
  simp only [MdRound.fw_next]
  rw [codeFenceLoop_body d p cl hcl post start body (pre ++ [l]) [] _ hb (by simp [FW.remaining]; omega)]
  simp

/-- a fenced code block under the default token list: `CodeFence` is the first type that starts on the opening line; `read`
    consumes the content lines and the closing line, whatever follows -/
theorem tokLoop_fence_step (ti : Bool) (g : Nat) (n : Nat) (hn : n < 4) (c : Char) (d info : Str)
    (h : FenceOk c d info) (l cl : Line) (hl : l.s = sp n ++ d ++ info ++ ['\n']) (hcl : closes d cl.s = true)
    (body : List Line) (hb : ∀ x ∈ body, closes d x.s = false)
    (pre post : List Line) (start : Nat) (st : St) (acc : List Entry) (loose : Bool) :
    tokLoop (dcfg ti) (g + 8) ⟨pre ++ l :: (body ++ cl :: post), pre.length, start⟩ st acc loose =
      tokLoop (dcfg ti) (g + 7) ⟨(pre ++ l :: (body ++ [cl])) ++ post, (pre ++ l :: (body ++ [cl])).length, start⟩ st
        (.codeFence (body.map (fun x => dedent n x.s)) n d info (fenceLang info) (start + pre.length) l.origin :: acc) loose := by
  obtain ⟨r, hr⟩ := h.cons
  have hs : l.s = sp n ++ c :: (r ++ info ++ ['\n']) := by rw [hl, hr]; simp
  have hcf := codeFenceStart_line n hn c d info h
  rw [← hl] at hcf
  have hrd := readCodeFence_block d info (fenceLang info) n l cl hcl body pre post hb start
  have f3 := fsp_html n hn c h.ch (r ++ info ++ ['\n'])
  have f4 := fsp_blockCode n hn c h.ch (r ++ info ++ ['\n'])
  have f5 := fsp_heading ⟨pre ++ l :: (body ++ cl :: post), pre.length, start⟩ n hn c h.ch (r ++ info ++ ['\n'])
  have f6 := fsp_quote n hn c h.ch (r ++ info ++ ['\n'])
  rw [← hs] at f3 f4 f5 f6
  have e : g + 8 = ((((((g + 2) + 1) + 1) + 1) + 1) + 1) + 1 := by omega
  rw [e]
  simp only [tokLoop, peek_at, dcfg, defaultTypes, tryTypes, f3, f4, f5, f6, hcf, hrd, Bool.false_eq_true, if_false]


/-! ### Setext headings -/

/-- the specification's shape of a setext underline: up to three spaces, a run of `=` (level 1) or of `-` (level 2),
    spaces, "\n" -/
def ulShape (lv : Nat) (s : Str) : Bool :=
  let r := lstripSp s
  decide (s.length - r.length ≤ 3) &&
  (match r with
   | c :: _ => ((c == '=' && lv == 1) || (c == '-' && lv == 2)) &&
       (let r2 := r.dropWhile (· == c); r2.getLast? == some '\n' && r2.dropLast.all (· == ' '))
   | [] => false)

/-- an underline: the shape, and the facts about the scanners the proof uses (every line of the shape has them, see the
    example in `Proofs/ComposeCode3.lean`, which checks all 192 underlines of at most 3 + 6 + 3 characters): it is not blank; no `Heading`,
    `Quote`, `CodeFence`, `HtmlBlock` starts on it and `List.check_interrupts_paragraph` does not fire (`-` alone would
    begin an EMPTY item, which does not interrupt a paragraph); `Paragraph.setext_pattern` matches it; its last visible
    character tells the level -/
def ulOk (lv : Nat) (s : Str) : Bool :=
  ulShape lv s && oneLine s && !s.contains '\t' && !s.contains '|' && !isBlank s && (heading s).isNone && !quoteStart s
    && (codeFenceStart s).isNone && !listInterrupts s && (match htmlBlockStart s with | .ok none => true | _ => false)
    && setext s && (((rstrip s).getLast? == some '=') == (lv == 1))

structure UlOk (lv : Nat) (s : Str) : Prop where
  line : LineOk s
  nobar : s.contains '|' = false
  nb : isBlank s = false
  hd : heading s = none
  qt : quoteStart s = false
  cf : codeFenceStart s = none
  li : listInterrupts s = false
  html : htmlBlockStart s = .ok none
  se : setext s = true
  lvl : ((rstrip s).getLast? == some '=') = (lv == 1)
  lv12 : lv = 1 ∨ lv = 2

theorem ulShape_lv (lv : Nat) (s : Str) (h : ulShape lv s = true) : lv = 1 ∨ lv = 2 := by
  unfold ulShape at h
  simp only [Bool.and_eq_true, decide_eq_true_eq] at h
  obtain ⟨_, h⟩ := h
  split at h
  · simp only [Bool.and_eq_true, Bool.or_eq_true, beq_iff_eq] at h
    rcases h.1 with h | h
    · exact Or.inl h.2
    · exact Or.inr h.2
  · cases h

theorem ulOk_of (lv : Nat) (s : Str) (h : ulOk lv s = true) : UlOk lv s := by
  simp only [ulOk, Bool.and_eq_true, Bool.not_eq_eq_eq_not, Bool.not_true, Option.isNone_iff_eq_none, beq_iff_eq] at h
  obtain ⟨⟨⟨⟨⟨⟨⟨⟨⟨⟨⟨h0, h1⟩, h2⟩, h3⟩, h4⟩, h5⟩, h6⟩, h7⟩, h8⟩, h9⟩, h10⟩, h11⟩ := h
  refine ⟨lineOk_of s h1 h2, h3, h4, h5, h6, h7, h8, ?_, h10, h11, ulShape_lv lv s h0⟩
  split at h9
  · assumption
  · cases h9

/-- `Table.read` gives up at once when the second line has no `|` -/
theorem readTable_none_nobar (pre : List Line) (l : Line) (rest : List Line) (start : Nat)
    (h : ∀ l', rest.head? = some l' → l'.s.contains '|' = false) :
    readTable ⟨pre ++ l :: rest, pre.length, start⟩ = none := by
  unfold readTable
  rw [peek_at]
  simp only
  have hn : (FW.next ⟨pre ++ l :: rest, pre.length, start⟩) = ⟨pre ++ l :: rest, pre.length + 1, start⟩ := rfl
  rw [hn]
  have hp := peek_succ pre l rest start
  cases rest with
  | nil =>
    simp only [List.head?_nil] at hp
    simp [tableLoop, hp]
  | cons x xs =>
    simp only [List.head?_cons] at hp
    have hx : ¬ ('|' ∈ x.s) := by simpa using h x rfl
    simp [tableLoop, hp, hx]

theorem anyInterrupt_ul (cfg : Cfg) (fw : FW) (l : Line) (lv : Nat) (hp : fw.peek = some l) (hu : UlOk lv l.s)
    (ht : readTable fw = none) : ∀ ts, anyInterrupt cfg fw .thematicBreak false ts = .ok false
  | [] => rfl
  | t :: ts => by
    have ih := anyInterrupt_ul cfg fw l lv hp hu ht ts
    simp only [anyInterrupt]
    split
    · exact ih
    · rename_i hc
      have : interruptsOne cfg fw t = .ok false := by
        unfold interruptsOne
        rw [hp]
        cases t <;> simp [hu.hd, hu.qt, hu.cf, hu.html, hu.li, ht] at hc ⊢
      rw [this]; exact ih

/-- `Paragraph.read` over quiet lines and then an underline, with `parse_setext` on: a setext heading -/
theorem paragraphLoop_setext (cfg : Cfg) (start : Nat) (lv : Nat) (ul : Line) (hu : UlOk lv ul.s) (post : List Line)
    (hb : ∀ b, post.head? = some b → b.s.contains '|' = false) :
    ∀ (para pre : List Line) (buf : List Str) (fuel : Nat),
    (∀ l ∈ para, Quiet l.s) → para.length + 1 < fuel →
    paragraphLoop cfg true fuel ⟨pre ++ (para ++ ul :: post), pre.length, start⟩ buf =
      .ok (ul.s :: ((para.map (·.s)).reverse ++ buf), true, ⟨pre ++ (para ++ ul :: post), pre.length + para.length + 1, start⟩)
  | [], pre, buf, fuel, _, hf => by
    obtain ⟨f, rfl⟩ : ∃ f, fuel = f + 1 := ⟨fuel - 1, by simp at hf; omega⟩
    have hp := peek_at pre ul post start
    have ht := readTable_none_nobar pre ul post start hb
    simp only [List.nil_append] at hp ht ⊢
    simp only [paragraphLoop, hp, hu.nb, Bool.false_eq_true, if_false, anyInterrupt_ul cfg _ ul lv hp hu ht, hu.se, Bool.and_self,
      if_true, List.map_nil, List.reverse_nil, List.nil_append, List.length_nil, Nat.add_zero]
    rfl
  | l :: para, pre, buf, fuel, hq, hf => by
    obtain ⟨f, rfl⟩ : ∃ f, fuel = f + 1 := ⟨fuel - 1, by simp at hf; omega⟩
    have hl := hq l (by simp)
    have hq' : ∀ x ∈ para, Quiet x.s := fun x hx => hq x (List.mem_cons_of_mem _ hx)
    have ht : readTable ⟨pre ++ l :: (para ++ ul :: post), pre.length, start⟩ = none := by
      cases para with
      | nil => exact readTable_none_nobar pre l _ start (by intro l' h'; simp at h'; subst h'; exact hu.nobar)
      | cons x xs => exact readTable_none pre l _ start (by intro l' h'; simp at h'; subst h'; exact (hq' _ (by simp)).dr)
    have hp := peek_at pre l (para ++ ul :: post) start
    simp only [paragraphLoop, List.cons_append, hp, hl.nb, Bool.false_eq_true, if_false,
      anyInterrupt_quiet cfg _ l .thematicBreak hp hl ht, hl.se, hl.tb, Bool.and_false]
    have hn : (FW.next ⟨pre ++ l :: (para ++ ul :: post), pre.length, start⟩) =
        ⟨(pre ++ [l]) ++ (para ++ ul :: post), (pre ++ [l]).length, start⟩ := by
      simp [FW.next]
    rw [hn, paragraphLoop_setext cfg start lv ul hu post hb para (pre ++ [l]) (l.s :: buf) f hq' (by simp only [List.length_cons] at hf; omega)]
    simp only [List.map_cons, List.reverse_cons, List.append_assoc, List.singleton_append, List.length_append,
      List.length_cons, List.length_nil]
    have e : pre.length + (0 + 1) + para.length + 1 = pre.length + (para.length + 1) + 1 := by omega
    rw [e]

theorem readParagraph_setext (cfg : Cfg) (start : Nat) (lv : Nat) (l ul : Line) (hu : UlOk lv ul.s) (para pre post : List Line)
    (hq : ∀ x ∈ para, Quiet x.s) (hb : ∀ b, post.head? = some b → b.s.contains '|' = false) :
    readParagraph cfg true ⟨pre ++ (l :: para ++ ul :: post), pre.length, start⟩ l.s =
      .ok ((l :: para).map (·.s) ++ [ul.s], true, ⟨pre ++ (l :: para ++ ul :: post), pre.length + (para.length + 2), start⟩) := by
  unfold readParagraph
  have hn : (FW.next ⟨pre ++ (l :: para ++ ul :: post), pre.length, start⟩) =
      ⟨(pre ++ [l]) ++ (para ++ ul :: post), (pre ++ [l]).length, start⟩ := by
    simp [FW.next]
  rw [hn, paragraphLoop_setext cfg start lv ul hu post hb para (pre ++ [l]) [l.s] _ hq (by simp [FW.remaining]; omega)]
  simp only [List.map_cons, List.reverse_append, List.reverse_reverse, List.reverse_cons, List.reverse_nil,
    List.nil_append, List.append_assoc, List.length_append, List.length_cons, List.length_nil,
    List.cons_append]
  have e : pre.length + (0 + 1) + para.length + 1 = pre.length + (para.length + 2) := by omega
  rw [e]

/-- on a quiet line no token type before `Paragraph` starts; `Paragraph` does, and reads a setext heading -/
theorem tryTypes_quiet_setext (cfg : Cfg) (fw : FW) (st : St) (l : Line) (b : List Str) (fw' : FW)
    (hq : Quiet l.s) (ht : readTable fw = none)
    (hR : readParagraph cfg st.setext fw l.s = .ok (b, true, fw')) :
    ∀ (ts : List BTok) (gas : Nat), .paragraph ∈ ts → ts.length ≤ gas →
      tryTypes cfg gas fw st l ts = .ok (some (.setext b (fw.start + fw.pos) l.origin, fw', st))
  | [], _, hm, _ => by simp at hm
  | t :: ts, 0, _, hg => by simp at hg
  | t :: ts, gas + 1, hm, hg => by
    have hg' : ts.length ≤ gas := by simp only [List.length_cons] at hg; omega
    have ih : t ≠ .paragraph → tryTypes cfg gas fw st l ts = .ok (some (.setext b (fw.start + fw.pos) l.origin, fw', st)) := by
      intro hne
      refine tryTypes_quiet_setext cfg fw st l b fw' hq ht hR ts gas ?_ hg'
      rcases List.mem_cons.mp hm with h | h
      · exact absurd h.symm hne
      · exact h
    have hbl : Scan.blankLine l.s = false := by
      have := hq.nb
      simp only [isBlank] at this
      unfold Scan.blankLine
      have e : l.s.all ws = l.s.all pyIsSpace := rfl
      rw [e, this]; rfl
    unfold tryTypes
    cases t <;> simp only
    · rw [hq.html]; exact ih (by decide)
    · rw [hq.bc]; exact ih (by decide)
    · simp only [readHeading, hq.hd]; exact ih (by decide)
    · rw [hq.qt]; exact ih (by decide)
    · rw [hq.cf]; exact ih (by decide)
    · rw [hq.tb]; exact ih (by decide)
    · rw [hq.ls]; exact ih (by decide)
    · rw [ht]
      split <;> exact ih (by decide)
    · rw [hq.br]; exact ih (by decide)
    · simp only [hq.nb, Bool.not_false, if_true, hR]
    · rw [hbl]; exact ih (by decide)
    · rw [hq.br]; exact ih (by decide)

/-- **a setext heading alone in its buffer**, `parse_setext` being on -/
theorem tokenize_setext (ti : Bool) (lv : Nat) (l0 : Line) (tl : List Line) (ul : Line) (hq : ∀ l ∈ l0 :: tl, Quiet l.s)
    (hu : UlOk lv ul.s) (start : Nat) (st : St) (hs : st.setext = true) (gas : Nat) :
    tokenizeBlock (dcfg ti) (gas + 14) (l0 :: tl ++ [ul]) start st =
      .ok ({ entries := [.setext ((l0 :: tl).map (·.s) ++ [ul.s]) start l0.origin], loose := false }, st) := by
  have hR := readParagraph_setext (dcfg ti) start lv l0 ul hu tl [] [] (fun x hx => hq x (List.mem_cons_of_mem _ hx)) (by simp)
  simp only [List.nil_append, List.length_nil, Nat.zero_add] at hR
  have ht : readTable ⟨l0 :: tl ++ [ul], 0, start⟩ = none := by
    cases tl with
    | nil => exact readTable_none_nobar [] l0 _ start (by intro l' h'; simp at h'; subst h'; exact hu.nobar)
    | cons x xs => exact readTable_none [] l0 _ start (by intro l' h'; simp at h'; subst h'; exact (hq _ (by simp)).dr)
  have hty := tryTypes_quiet_setext (dcfg ti) ⟨l0 :: tl ++ [ul], 0, start⟩ st l0 _ _ (hq l0 (by simp)) ht (by rw [hs]; exact hR)
    (dcfg ti).types (gas + 12) (show BTok.paragraph ∈ defaultTypes by decide) (by simp [dcfg, defaultTypes])
  have e : gas + 14 = (gas + 12) + 1 + 1 := by omega
  rw [e]
  have hp : FW.peek ⟨l0 :: tl ++ [ul], 0, start⟩ = some l0 := by simp [FW.peek]
  have hend : FW.peek ⟨l0 :: (tl ++ [ul]), tl.length + 2, start⟩ = none := by
    have := peek_end (l0 :: (tl ++ [ul])) start
    simpa using this
  generalize hG : gas + 12 = G at hty ⊢
  simp only [tokenizeBlock, tokLoop, hp, hty]
  obtain ⟨G', rfl⟩ : ∃ G', G = G' + 1 := ⟨gas + 11, by omega⟩
  simp [tokLoop, hend]


/-! ### The fragment with lists and fenced code blocks -/

open Mistletoe.ComposeL (leaderOf markerOk leaderOk_of_marker sepS stopLineB StopLine stopLine_of PostOk itemDoc_facts
  item_lines_last item_lines_next readList_step_stop readList_step_next leader_chars lineOk_prepend spaces_chars
  indentDoc_lineOk indentDoc_ne itemDocOk_ne after_after dcfg_noBlank dcfg_len)

/-- A tree of CommonMark constructs: everything `ComposeL.T2` has (paragraph, ATX heading, thematic break, block quote,
    bullet / ordered list; children of quotes and list items are trees of this type again) and
    * `fence ind delim info body close`: a fenced code block.  Opening line: `ind` spaces (0 … 3), the fence `delim` (three
      or more backticks, or three or more tildes), the info string `info` as written (with its leading and trailing
      spaces), "\n".  Then the content lines `body` as written (each loses up to `ind` leading spaces in the tree).
      Then the closing line `close`: up to three spaces, the fence character at least `delim.length` times, spaces, "\n".
    * `setext level lines ul`: a setext heading: one or more text lines (as for a paragraph) and the underline `ul`: up to
      three spaces, a run of `=` (level 1) or `-` (level 2), spaces, "\n".  Not inside quotes (`T3.ok`). -/
inductive T3 where
  | para (lines : List Str)
  | heading (level : Nat) (text : Str) (line : Str)
  | hr (line : Str)
  | quote (bare : Bool) (kids : List T3)
  | list (ordered : Bool) (start : Nat) (marker : Char) (pad : Nat) (loose : Bool) (items : List (List T3))
  | fence (ind : Nat) (delim info : Str) (body : List Str) (close : Str)
  | setext (level : Nat) (lines : List Str) (ul : Str)

/-- the shape the specification gives a closing fence for the opening fence `d`: behind the leading spaces only fence
    characters (the test `closes` asks for at least `d`, and fewer than four leading spaces), then only spaces, then "\n" -/
def closeShape (d close : Str) : Bool :=
  match d.head? with
  | some c =>
    let r := (lstripSp close).dropWhile (· == c)
    r.getLast? == some '\n' && r.dropLast.all (· == ' ')
  | none => false

/-- well-formedness of a fenced code block (decidable):
    * 0 ≤ ind ≤ 3; the fence is three or more backticks or three or more tildes;
    * the info string has no line-boundary character and no tab, does not begin with the fence character, and contains no
      backtick when the fence is made of backticks;
    * every content line is one complete line without a tab that is not a closing line for this fence - by the test
      `CodeFence.read` makes (`closes`: behind fewer than four spaces the opening fence string and nothing behind it but
      non-blank characters and then whitespace; this is MORE than the specification's closing fences: a content line
      such as "```abc" inside a "```" fence is excluded here, see the counterexample in `Proofs/ComposeCode2.lean`);
    * the closing line is one complete line without a tab, passes that test and has the specification's shape. -/
def fenceOkB (ind : Nat) (d info : Str) (body : List Str) (close : Str) : Bool :=
  decide (ind ≤ 3) && decide (3 ≤ d.length) && (d.all (· == '`') || d.all (· == '~'))
    && info.all (fun c => !isLineSep c && c != '\t') && info.head? != d.head? && !(d.head? == some '`' && info.contains '`')
    && body.all (fun l => oneLine l && !l.contains '\t' && !closes d l)
    && oneLine close && !close.contains '\t' && closes d close && closeShape d close

structure FenceFacts (ind : Nat) (d info : Str) (body : List Str) (close : Str) : Prop where
  indLt : ind < 4
  fo : ∃ c, FenceOk c d info
  openOk : LineOk (sp ind ++ d ++ info ++ ['\n'])
  body : ∀ l ∈ body, LineOk l ∧ closes d l = false
  closeOk : LineOk close
  closes : closes d close = true

theorem fenceFacts_of (ind : Nat) (d info : Str) (body : List Str) (close : Str) (h : fenceOkB ind d info body close = true) :
    FenceFacts ind d info body close := by
  simp only [fenceOkB, Bool.and_eq_true, decide_eq_true_eq, Bool.or_eq_true, bne_iff_ne, ne_eq,
    Bool.not_eq_eq_eq_not, Bool.not_true, Bool.and_eq_false_iff] at h
  obtain ⟨⟨⟨⟨⟨⟨⟨⟨⟨⟨h0, h1⟩, h2⟩, h3⟩, h4⟩, h5⟩, h6⟩, h7⟩, h8⟩, h9⟩, _⟩ := h
  have h3' : ∀ c ∈ info, isLineSep c = false ∧ c ≠ '\t' := by
    intro c hc
    have := List.all_eq_true.mp h3 c hc
    simpa using this
  have hnl : '\n' ∉ info := by
    intro hm
    have := (h3' _ hm).1
    revert this; decide
  have hfo : ∃ c, FenceOk c d info := by
    rcases h2 with h2 | h2
    · have hr := all_eq_replicate '`' d h2
      have hd : d.head? = some '`' := by
        rw [hr]; cases hdl : d.length with
        | zero => omega
        | succ n => simp [List.replicate_succ]
      refine ⟨'`', Or.inl rfl, hr, h1, hnl, by rw [← hd]; exact h4, ?_⟩
      intro _
      rcases h5 with h5 | h5
      · rw [hd] at h5; simp at h5
      · simpa using h5
    · have hr := all_eq_replicate '~' d h2
      have hd : d.head? = some '~' := by
        rw [hr]; cases hdl : d.length with
        | zero => omega
        | succ n => simp [List.replicate_succ]
      exact ⟨'~', Or.inr rfl, hr, h1, hnl, by rw [← hd]; exact h4, by intro e; cases e⟩
  refine ⟨by omega, hfo, ?_, ?_, lineOk_of close h7 (by simpa using h8), h9⟩
  · obtain ⟨c, hf⟩ := hfo
    have hdc : ∀ x ∈ d, isLineSep x = false ∧ x ≠ '\t' := by
      intro x hx
      rw [hf.rep] at hx
      rw [(List.mem_replicate.mp hx).2]
      rcases hf.ch with e | e <;> rw [e] <;> decide
    have := lineOk_prepend (sp ind) _ (spaces_chars ind) (lineOk_prepend d _ hdc (lineOk_prepend info _ h3' lineOk_nl))
    simpa [List.append_assoc] using this
  · intro l hl
    have := List.all_eq_true.mp h6 l hl
    simp only [Bool.and_eq_true, Bool.not_eq_eq_eq_not, Bool.not_true] at this
    exact ⟨lineOk_of l this.1.1 this.1.2, this.2⟩
mutual
/-- the source lines of one node -/
def write3 : T3 → List Str
  | .para ls => ls
  | .heading _ _ line => [line]
  | .hr line => [line]
  | .quote bare kids => (writes3 kids).map (if bare then qbare else qsp)
  | .list o n mk pad loose items => writeItems3 o mk pad loose n items
  | .fence ind d info body close => (sp ind ++ d ++ info ++ ['\n']) :: (body ++ [close])
  | .setext _ ls ul => ls ++ [ul]
/-- siblings, separated by exactly one "\n" line -/
def writes3 : List T3 → List Str
  | [] => []
  | t :: rest =>
    match rest with
    | [] => write3 t
    | _ :: _ => write3 t ++ ['\n'] :: writes3 rest
/-- the items of a list: the lines of the item's blocks, the first behind the marker and `pad` spaces, the others behind
    as many spaces as that is wide ("\n" lines stay "\n"); in a loose list one "\n" line between consecutive items -/
def writeItems3 (o : Bool) (mk : Char) (pad : Nat) (loose : Bool) (n : Nat) : List (List T3) → List Str
  | [] => []
  | it :: rest =>
    match rest with
    | [] => indentDoc (leaderOf o n mk) pad (writes3 it)
    | _ :: _ => indentDoc (leaderOf o n mk) pad (writes3 it) ++ (sepS loose ++ writeItems3 o mk pad loose (n + 1) rest)
end

mutual
/-- a setext heading occurs in the node, at any depth -/
def hasSx : T3 → Bool
  | .setext .. => true
  | .quote _ kids => hasSxs kids
  | .list _ _ _ _ _ items => hasSxItems items
  | _ => false
def hasSxs : List T3 → Bool
  | [] => false
  | t :: rest => hasSx t || hasSxs rest
def hasSxItems : List (List T3) → Bool
  | [] => false
  | it :: rest => hasSxs it || hasSxItems rest
end

def isList3 : T3 → Bool
  | .list .. => true
  | _ => false

/-- lists and fenced code blocks: blocks that C05 does not count as closed by a blank line (an unclosed fence, the last item
    of a list go on behind it); here the dispatcher is followed over them directly -/
def isOpen3 : T3 → Bool
  | .list .. => true
  | .fence .. => true
  | _ => false

/-- what is asked of two consecutive siblings: behind a list no list, and a first line that is a `stopLineB` -/
def sepOk3 (t t' : T3) : Bool := !isList3 t || (!isList3 t' && stopLineB ((write3 t').headD []))

open Mistletoe.Document (joinNl) in
mutual
/-- well-formedness (decidable).  Paragraph, heading, thematic break, quote: as `Compose.T.ok`.  List:
    * 1 ≤ pad ≤ 4; at least one item; every item has at least one block, all well-formed;
    * every marker is a bullet `-`, `+`, `*`, or a number of at most nine digits (< 10⁹) and `.` or `)` (`markerOk`);
    * the lines of an item (`itemDocOk`): the first begins with a character that is not whitespace; every other line is
      "\n" or has a non-whitespace character after its spaces (`ContLine`); marker + first line is not a thematic break
      (`* * *`, `- - -`);
    * `loose` is the looseness the specification assigns: a loose list has two or more items or an item with two or
      more blocks; the items of a tight list have one block each.
    Quote: in addition no setext heading inside, at any depth (`hasSxs`).
    Fenced code block: `fenceOkB`.  Setext heading: the text lines as for a paragraph; the underline `ulOk`.
    Siblings (`T3.oks`): a list is not followed by a list, and the block that follows a list begins with a
    non-whitespace character and carries no list marker (`sepOk3`). -/
def T3.ok : T3 → Bool
  | .para ls => !ls.isEmpty && ls.all (fun l => inertLine l && proseLine l && oneLine l && !l.contains '\t')
      && inertBody (joinNl (ls.map strip))
  | .heading lv t line => !t.isEmpty && inertText t && headLine lv t line && oneLine line && !line.contains '\t'
  | .hr line => hrLine line && oneLine line && !line.contains '\t'
  | .quote bare kids => !kids.isEmpty && T3.oks kids && (!bare || (writes3 kids).all (fun s => s.head? != some ' '))
      && !hasSxs kids
  | .list o n mk pad loose items =>
    decide (1 ≤ pad) && decide (pad ≤ 4) && !items.isEmpty && T3.okItems o mk pad n items
      && (if loose then decide (2 ≤ items.length) || items.any (fun it => decide (1 < it.length))
          else items.all (fun it => it.length == 1))
  | .fence ind d info body close => fenceOkB ind d info body close
  | .setext lv ls ul => (Compose.T.para ls).ok && ulOk lv ul
def T3.oks : List T3 → Bool
  | [] => true
  | t :: rest => t.ok && T3.oks rest && (match rest with | [] => true | t' :: _ => sepOk3 t t')
def T3.okItems (o : Bool) (mk : Char) (pad : Nat) (n : Nat) : List (List T3) → Bool
  | [] => true
  | it :: rest => !it.isEmpty && T3.oks it && markerOk o n mk && itemDocOk (writes3 it)
      && !Scan.thematicBreak (leaderOf o n mk ++ List.replicate pad ' ' ++ (writes3 it).headD [])
      && T3.okItems o mk pad (n + 1) rest
end

mutual
/-- the parse-buffer entry expected for a node whose first line is line `n` -/
def entry3 (n : Nat) : T3 → Entry
  | .para ls => .paragraph ls n n
  | .heading lv t line => .heading lv t (closingOf line) n n
  | .hr line => .thematicBreak line n n
  | .quote _ kids => .quote (entries3 n kids) (decide (1 < kids.length)) n n
  | .list o s mk pad loose items => .list (items3 o mk pad loose s n items) n n
  | .fence ind d info body _ => .codeFence (body.map (dedent ind)) ind d info (fenceLang info) n n
  | .setext _ ls ul => .setext (ls ++ [ul]) n n
def entries3 (n : Nat) : List T3 → List Entry
  | [] => []
  | t :: rest => entry3 n t :: entries3 (n + (write3 t).length + 1) rest
/-- the items: content = the entries of the item's blocks; loose = a "\n" line follows inside the list, or the item has
    more than one block; indentation 0; content offset = marker width + pad; the marker; the line of the marker -/
def items3 (o : Bool) (mk : Char) (pad : Nat) (loose : Bool) (s : Nat) (n : Nat) : List (List T3) → List Item
  | [] => []
  | it :: rest =>
    .mk (entries3 n it) ((loose && !rest.isEmpty) || decide (1 < it.length)) 0 ((leaderOf o s mk).length + pad) (leaderOf o s mk) n n
      :: items3 o mk pad loose (s + 1) (n + (writes3 it).length + (sepS loose).length) rest
end

mutual
/-- a quote occurs among the blocks (at any depth of list nesting): `Quote.read` switches `Paragraph.parse_setext` back on -/
def touch3 : T3 → Bool
  | .quote _ _ => true
  | .list _ _ _ _ _ items => touchItems3 items
  | _ => false
def touches3 : List T3 → Bool
  | [] => false
  | t :: rest => touch3 t || touches3 rest
def touchItems3 : List (List T3) → Bool
  | [] => false
  | it :: rest => touches3 it || touchItems3 rest
end

mutual
/-- gas that suffices -/
def need3 : T3 → Nat
  | .para _ => 14
  | .heading _ _ _ => 14
  | .hr _ => 14
  | .quote _ kids => needs3 kids + 6
  | .list _ _ _ _ _ items => needItems3 items + 12
  | .fence .. => 12
  | .setext .. => 14
def needs3 : List T3 → Nat
  | [] => 0
  | t :: rest => need3 t + needs3 rest + 14
def needItems3 : List (List T3) → Nat
  | [] => 0
  | it :: rest => needs3 it + needItems3 rest + 1
end
/-! ### What well-formedness gives -/

theorem oks3_cons (t : T3) (rest : List T3) (h : T3.oks (t :: rest) = true) :
    t.ok = true ∧ T3.oks rest = true ∧ ∀ t' r, rest = t' :: r → sepOk3 t t' = true := by
  simp only [T3.oks, Bool.and_eq_true] at h
  refine ⟨h.1.1, h.1.2, ?_⟩
  rintro t' r rfl
  exact h.2

theorem okItems_cons (o : Bool) (mk : Char) (pad n : Nat) (it : List T3) (rest : List (List T3))
    (h : T3.okItems o mk pad n (it :: rest) = true) :
    it ≠ [] ∧ T3.oks it = true ∧ leaderOk o (leaderOf o n mk) = true ∧ itemDocOk (writes3 it) = true ∧
    Scan.thematicBreak (leaderOf o n mk ++ List.replicate pad ' ' ++ (writes3 it).headD []) = false ∧
    T3.okItems o mk pad (n + 1) rest = true := by
  simp only [T3.okItems, Bool.and_eq_true, Bool.not_eq_eq_eq_not, Bool.not_true, List.isEmpty_eq_false_iff] at h
  obtain ⟨⟨⟨⟨⟨a, b⟩, c⟩, d⟩, e⟩, f⟩ := h
  exact ⟨a, b, leaderOk_of_marker o n mk c, d, e, f⟩

/-- the facts `T3.ok` packs for a list -/
structure ListOk (o : Bool) (n : Nat) (mk : Char) (pad : Nat) (loose : Bool) (items : List (List T3)) : Prop where
  p1 : 1 ≤ pad
  p4 : pad ≤ 4
  ne : items ≠ []
  its : T3.okItems o mk pad n items = true
  looseC : (if loose then decide (2 ≤ items.length) || items.any (fun it => decide (1 < it.length))
          else items.all (fun it => it.length == 1)) = true
  start : o = true → parseNat (natDigits n) = n

theorem listOk_of (o : Bool) (n : Nat) (mk : Char) (pad : Nat) (loose : Bool) (items : List (List T3))
    (h : (T3.list o n mk pad loose items).ok = true) : ListOk o n mk pad loose items := by
  simp only [T3.ok, Bool.and_eq_true, decide_eq_true_eq, Bool.not_eq_eq_eq_not, Bool.not_true, List.isEmpty_eq_false_iff] at h
  obtain ⟨⟨⟨⟨a, b⟩, c⟩, d⟩, e⟩ := h
  exact ⟨a, b, c, d, e, fun _ => parseNat_natDigits n⟩
theorem writeItems3_ne (o : Bool) (mk : Char) (pad : Nat) (loose : Bool) (n : Nat) (it : List T3) (rest : List (List T3))
    (h : itemDocOk (writes3 it) = true) : writeItems3 o mk pad loose n (it :: rest) ≠ [] := by
  have := indentDoc_ne (leaderOf o n mk) pad _ (itemDocOk_ne _ h)
  cases rest with
  | nil => simpa [writeItems3] using this
  | cons a b => simp [writeItems3, this]

theorem quoteOk3_of (bare : Bool) (kids : List T3) (h : (T3.quote bare kids).ok = true) :
    kids ≠ [] ∧ T3.oks kids = true ∧ (bare = true → ∀ s ∈ writes3 kids, s.head? ≠ some ' ') ∧ hasSxs kids = false := by
  simp only [T3.ok, Bool.and_eq_true, Bool.not_eq_eq_eq_not, Bool.not_true, List.isEmpty_eq_false_iff,
    Bool.or_eq_true, List.all_eq_true, bne_iff_ne, ne_eq] at h
  refine ⟨h.1.1.1, h.1.1.2, ?_, h.2⟩
  intro hb
  rcases h.1.2 with h2 | h2
  · rw [hb] at h2; cases h2
  · exact h2

theorem writeItems3_single (o : Bool) (mk : Char) (pad : Nat) (loose : Bool) (n : Nat) (it : List T3) :
    writeItems3 o mk pad loose n [it] = indentDoc (leaderOf o n mk) pad (writes3 it) := by simp [writeItems3]

theorem writeItems3_cons2 (o : Bool) (mk : Char) (pad : Nat) (loose : Bool) (n : Nat) (it it' : List T3) (r : List (List T3)) :
    writeItems3 o mk pad loose n (it :: it' :: r) =
      indentDoc (leaderOf o n mk) pad (writes3 it) ++ (sepS loose ++ writeItems3 o mk pad loose (n + 1) (it' :: r)) := by
  simp [writeItems3]

theorem writes3_cons2 (t t' : T3) (r : List T3) : writes3 (t :: t' :: r) = write3 t ++ ['\n'] :: writes3 (t' :: r) := by
  simp [writes3]

theorem writes3_single (t : T3) : writes3 [t] = write3 t := by simp [writes3]

theorem setextOk_of (lv : Nat) (ls : List Str) (ul : Str) (h : (T3.setext lv ls ul).ok = true) : ParaOk ls ∧ UlOk lv ul := by
  simp only [T3.ok, Bool.and_eq_true] at h
  exact ⟨paraOk_of ls h.1, ulOk_of lv ul h.2⟩

mutual
theorem write3_lineOk : ∀ (t : T3), t.ok = true → (∀ s ∈ write3 t, LineOk s) ∧ write3 t ≠ []
  | .para ls, h => by
    have := paraOk_of ls (by simpa [T3.ok, T.ok] using h)
    exact ⟨this.line, this.ne⟩
  | .heading lv t line, h => by
    have := headOk_of lv t line (by simpa [T3.ok, T.ok] using h)
    simp only [write3, List.mem_singleton]
    exact ⟨fun s hs => by rw [hs]; exact this.line, by simp⟩
  | .hr line, h => by
    have := hrOk_of line (by simpa [T3.ok, T.ok] using h)
    simp only [write3, List.mem_singleton]
    exact ⟨fun s hs => by rw [hs]; exact this.2, by simp⟩
  | .quote bare kids, h => by
    obtain ⟨hne, hk, _⟩ := quoteOk3_of bare kids h
    have ih := writes3_lineOk kids hk
    simp only [write3, List.mem_map]
    constructor
    · rintro s ⟨s0, hs0, rfl⟩
      cases bare
      · exact lineOk_qsp (ih.1 s0 hs0)
      · exact lineOk_qbare (ih.1 s0 hs0)
    · simpa using ih.2 hne
  | .list o n mk pad loose items, h => by
    have hl := listOk_of o n mk pad loose items h
    refine ⟨writeItems3_lineOk o mk pad loose n items hl.its, ?_⟩
    simp only [write3]
    cases items with
    | nil => exact absurd rfl hl.ne
    | cons it rest => exact writeItems3_ne o mk pad loose n it rest (okItems_cons o mk pad n it rest hl.its).2.2.2.1
  | .fence ind d info body close, h => by
    have hf := fenceFacts_of ind d info body close (by simpa [T3.ok] using h)
    simp only [write3]
    refine ⟨?_, by simp⟩
    intro s hs
    rcases List.mem_cons.mp hs with rfl | hs
    · exact hf.openOk
    · rcases List.mem_append.mp hs with hs | hs
      · exact (hf.body s hs).1
      · simp only [List.mem_singleton] at hs; rw [hs]; exact hf.closeOk
  | .setext lv ls ul, h => by
    obtain ⟨hp, hu⟩ := setextOk_of lv ls ul h
    simp only [write3]
    refine ⟨?_, by simp⟩
    intro s hs
    rcases List.mem_append.mp hs with hs | hs
    · exact hp.line s hs
    · simp only [List.mem_singleton] at hs; rw [hs]; exact hu.line
theorem writes3_lineOk : ∀ (ts : List T3), T3.oks ts = true → (∀ s ∈ writes3 ts, LineOk s) ∧ (ts ≠ [] → writes3 ts ≠ [])
  | [], _ => by simp [writes3]
  | t :: rest, h => by
    obtain ⟨h1, h2, _⟩ := oks3_cons t rest h
    have iht := write3_lineOk t h1
    have ihr := writes3_lineOk rest h2
    cases rest with
    | nil => simpa [writes3] using iht
    | cons t' r =>
      rw [writes3_cons2]
      constructor
      · intro s hs
        rcases List.mem_append.mp hs with hs | hs
        · exact iht.1 s hs
        · rcases List.mem_cons.mp hs with rfl | hs
          · exact lineOk_nl
          · exact ihr.1 s hs
      · intro _; simp
theorem writeItems3_lineOk (o : Bool) (mk : Char) (pad : Nat) (loose : Bool) : ∀ (n : Nat) (items : List (List T3)),
    T3.okItems o mk pad n items = true → ∀ s ∈ writeItems3 o mk pad loose n items, LineOk s
  | _, [], _ => by simp [writeItems3]
  | n, it :: rest, h => by
    obtain ⟨_, hit, hlead, _, _, hrest⟩ := okItems_cons o mk pad n it rest h
    have h1 := indentDoc_lineOk o _ hlead pad _ (writes3_lineOk it hit).1
    have h2 := writeItems3_lineOk o mk pad loose (n + 1) rest hrest
    cases rest with
    | nil => rw [writeItems3_single]; exact h1
    | cons it' r =>
      rw [writeItems3_cons2]
      intro s hs
      rcases List.mem_append.mp hs with hs | hs
      · exact h1 s hs
      · rcases List.mem_append.mp hs with hs | hs
        · cases loose with
          | false => simp [sepS] at hs
          | true => simp only [sepS, if_true, List.mem_singleton] at hs; rw [hs]; exact lineOk_nl
        · exact h2 s hs
end


/-! ### The claims -/

/-- where the tree has a setext heading, `Paragraph.parse_setext` must be on (it is, outside quotes) -/
def SxOk (b : Bool) (st : St) : Prop := b = true → st.setext = true

theorem sxOk_false (st : St) : SxOk false st := fun h => by cases h
theorem sxOk_after {b : Bool} {st : St} (h : SxOk b st) (c : Bool) : SxOk b (after st c) := by
  intro hb; simp [after, h hb]
theorem sxOk_head {t : T3} {rest : List T3} {st : St} (h : SxOk (hasSxs (t :: rest)) st) : SxOk (hasSx t) st := by
  intro hb; exact h (by simp [hasSxs, hb])
theorem sxOk_tail {t : T3} {rest : List T3} {st : St} (h : SxOk (hasSxs (t :: rest)) st) : SxOk (hasSxs rest) st := by
  intro hb; exact h (by simp [hasSxs, hb])
theorem sxOk_ihead {it : List T3} {rest : List (List T3)} {st : St} (h : SxOk (hasSxItems (it :: rest)) st) : SxOk (hasSxs it) st := by
  intro hb; exact h (by simp [hasSxItems, hb])
theorem sxOk_itail {it : List T3} {rest : List (List T3)} {st : St} (h : SxOk (hasSxItems (it :: rest)) st) :
    SxOk (hasSxItems rest) st := by
  intro hb; exact h (by simp [hasSxItems, hb])

/-- one node that is not a list, alone in its buffer -/
def NodeClaim (ti : Bool) (t : T3) : Prop := ∀ (k : Nat) (st : St) (gas : Nat), need3 t ≤ gas → SxOk (hasSx t) st →
  tokenizeBlock (dcfg ti) gas (numbered k (write3 t)) (k + 1) st =
    .ok ({ entries := [entry3 (k + 1) t], loose := false }, after st (touch3 t))

/-- siblings in a buffer of their own, with or without a final "\n" line (the buffer of an item that is not the last
    one of a loose list ends in one) -/
def NodesClaim (ti : Bool) (ts : List T3) : Prop := ∀ (tail : Bool) (k : Nat) (st : St) (gas : Nat), needs3 ts ≤ gas →
  SxOk (hasSxs ts) st →
  tokenizeBlock (dcfg ti) gas (numbered k (writes3 ts ++ sepS tail)) (k + 1) st =
    .ok ({ entries := entries3 (k + 1) ts, loose := decide (1 < ts.length) || tail }, after st (touches3 ts))

def firstLine3 (items : List (List T3)) : Str :=
  match items with
  | it :: _ => (writes3 it).headD []
  | [] => []

/-- `List.read` entered on the first item (no leader, no marker yet), or re-entered on a later item (the first item's
    marker as leader, the marker of this item handed on by the previous `ListItem.read`) -/
def LdNm (o : Bool) (mk : Char) (pad n : Nat) (items : List (List T3)) (ld : Option Str) (nm : Option (Nat × Nat × Str × Str)) : Prop :=
  (ld = none ∧ nm = none) ∨
  (∃ n0, ld = some (leaderOf o n0 mk) ∧ leaderOk o (leaderOf o n0 mk) = true ∧
    nm = some (0, (leaderOf o n mk).length + pad, leaderOf o n mk, firstLine3 items))

/-- `List.read` over the written items, anywhere in a buffer: `pre` before them, `post` behind them -/
def ItemsClaim (ti : Bool) (o : Bool) (mk : Char) (pad : Nat) (loose : Bool) (n : Nat) (items : List (List T3)) : Prop :=
  ∀ (pre post : List Line) (start k : Nat) (st : St) (gas : Nat) (acc : List Item) ld nm,
    start + pre.length = k + 1 → needItems3 items ≤ gas → PostOk post → LdNm o mk pad n items ld nm →
    SxOk (hasSxItems items) st →
    readList (dcfg ti) gas ⟨pre ++ numbered k (writeItems3 o mk pad loose n items) ++ post, pre.length, start⟩ st ld nm acc =
      .ok (acc.reverse ++ items3 o mk pad loose n (k + 1) items,
           ⟨pre ++ numbered k (writeItems3 o mk pad loose n items) ++ post,
            pre.length + (writeItems3 o mk pad loose n items).length, start⟩,
           after st (touchItems3 items))
mutual
theorem entry3_shift (j : Nat) : ∀ (n : Nat) (t : T3), shiftEntry j (entry3 n t) = entry3 (n + j) t
  | n, .para ls => by simp [entry3, shiftEntry]
  | n, .heading lv t line => by simp [entry3, shiftEntry]
  | n, .hr line => by simp [entry3, shiftEntry]
  | n, .quote _ kids => by simp [entry3, shiftEntry, entries3_shift j n kids]
  | n, .list o s mk pad loose items => by simp [entry3, shiftEntry, items3_shift j o mk pad loose s n items]
  | n, .fence ind d info body close => by simp [entry3, shiftEntry]
  | n, .setext lv ls ul => by simp [entry3, shiftEntry]
theorem entries3_shift (j : Nat) : ∀ (n : Nat) (ts : List T3), shiftEntries j (entries3 n ts) = entries3 (n + j) ts
  | n, [] => by simp [entries3, shiftEntries]
  | n, t :: rest => by
    simp only [entries3, shiftEntries, entry3_shift j n t, entries3_shift j _ rest]
    congr 2; omega
theorem items3_shift (j : Nat) (o : Bool) (mk : Char) (pad : Nat) (loose : Bool) : ∀ (s n : Nat) (items : List (List T3)),
    shiftItems j (items3 o mk pad loose s n items) = items3 o mk pad loose s (n + j) items
  | s, n, [] => by simp [items3, shiftItems]
  | s, n, it :: rest => by
    simp only [items3, shiftItems, shiftItem, entries3_shift j n it, items3_shift j o mk pad loose _ _ rest]
    congr 2; omega
end

theorem entries3_length (n : Nat) : ∀ (ts : List T3), (entries3 n ts).length = ts.length := by
  intro ts
  induction ts generalizing n with
  | nil => rfl
  | cons t rest ih => simp [entries3, ih]

theorem closed_entry3 (n : Nat) : ∀ (t : T3), isOpen3 t = false → closedE (entry3 n t) = true
  | .para _, _ => rfl
  | .heading _ _ _, _ => rfl
  | .hr _, _ => rfl
  | .quote _ _, _ => rfl
  | .list .., h => by simp [isOpen3] at h
  | .fence .., h => by simp [isOpen3] at h
  | .setext .., _ => rfl

theorem writeItems3_head (o : Bool) (mk : Char) (pad : Nat) (loose : Bool) (n : Nat) (it : List T3) (rest : List (List T3))
    (c0 : Str) (cs : List Str) (h : writes3 it = c0 :: cs) :
    ∃ tl, writeItems3 o mk pad loose n (it :: rest) = (leaderOf o n mk ++ List.replicate pad ' ' ++ c0) :: tl := by
  cases rest with
  | nil => rw [writeItems3_single, h]; exact ⟨_, rfl⟩
  | cons a b => rw [writeItems3_cons2, h]; exact ⟨_, rfl⟩

theorem otherMarker_of_ldnm (o : Bool) (mk : Char) (pad n : Nat) (items : List (List T3)) (ld nm)
    (h : LdNm o mk pad n items ld nm) (hok : leaderOk o (leaderOf o n mk) = true) : otherMarkerType ld nm = false := by
  rcases h with ⟨rfl, _⟩ | ⟨n0, rfl, h0, rfl⟩
  · exact otherMarkerType_none_left _
  · simp only [otherMarkerType, Bool.not_eq_eq_eq_not, Bool.not_false]
    cases o with
    | false => simp [leaderOf, sameMarkerType]
    | true =>
      obtain ⟨d, e, hd, _, h1, _, hdig⟩ := leaderOk_ordered _ h0
      obtain ⟨d', e', hd', _, h1', _, hdig'⟩ := leaderOk_ordered _ hok
      simp only [leaderOf, if_true] at hd hd' ⊢
      have e1 : natDigits n0 = d ∧ mk = e := by
        have := List.append_inj' hd (by simp)
        exact ⟨this.1, by simpa using this.2⟩
      have e2 : natDigits n = d' ∧ mk = e' := by
        have := List.append_inj' hd' (by simp)
        exact ⟨this.1, by simpa using this.2⟩
      have hl : ((natDigits n0 ++ [mk]).length == 1) = false := by
        rw [e1.1]; simp only [List.length_append, List.length_singleton, beq_eq_false_iff_ne, ne_eq]; omega
      simp only [sameMarkerType, hl, Bool.false_eq_true, if_false, List.dropLast_concat, List.getLast?_concat,
        Bool.and_eq_true, List.all_eq_true, Bool.not_eq_eq_eq_not, Bool.not_true, List.isEmpty_eq_false_iff, beq_self_eq_true, and_true]
      rw [e1.1, e2.1]
      refine ⟨⟨⟨?_, ?_⟩, ?_⟩, ?_⟩
      · intro x hx; exact (asciiDigit_facts x (hdig x hx)).1
      · intro x hx; exact (asciiDigit_facts x (hdig' x hx)).1
      · intro e; subst e; simp at h1
      · intro e; subst e; simp at h1'


/-! ### `List.read` over the written items -/

theorem needItems3_cons (it : List T3) (rest : List (List T3)) : needItems3 (it :: rest) = needs3 it + needItems3 rest + 1 := by
  simp [needItems3]

/-- the last item -/
theorem items_last (ti : Bool) (o : Bool) (mk : Char) (pad : Nat) (loose : Bool) (n : Nat) (it : List T3)
    (h1 : 1 ≤ pad) (h4 : pad ≤ 4) (hok : T3.okItems o mk pad n [it] = true) (hN : NodesClaim ti it) :
    ItemsClaim ti o mk pad loose n [it] := by
  intro pre post start k st gas acc ld nm hk hg hpost hln hsx
  obtain ⟨_, _, hlead, hdoc, _, _⟩ := okItems_cons o mk pad n it [] hok
  have hm := listLeader_of o _ hlead
  obtain ⟨c0, cs, hw⟩ : ∃ c0 cs, writes3 it = c0 :: cs := by
    cases hw : writes3 it with
    | nil => rw [hw] at hdoc; simp [itemDocOk] at hdoc
    | cons c0 cs => exact ⟨c0, cs, rfl⟩
  rw [hw] at hdoc
  obtain ⟨g, rfl⟩ : ∃ g, gas = g + 1 := ⟨gas - 1, by rw [needItems3_cons] at hg; omega⟩
  have hg' : needs3 it ≤ g := by rw [needItems3_cons] at hg; omega
  have hprev : nm = none ∨ nm = some (0, (leaderOf o n mk).length + pad, leaderOf o n mk, c0) := by
    rcases hln with ⟨_, h⟩ | ⟨_, _, _, h⟩
    · exact Or.inl h
    · right; rw [h]; simp [firstLine3, hw]
  have hil := item_lines_last (dcfg ti) _ hm pad h1 h4 c0 cs hdoc pre post start k hk hpost nm hprev
  have htok := hN false k st g hg' (sxOk_ihead hsx)
  simp only [sepS, Bool.false_eq_true, if_false, List.append_nil, hw] at htok
  have hom := otherMarker_of_ldnm o mk pad n [it] ld nm hln hlead
  rw [writeItems3_single, hw]
  rw [readList_step_stop (dcfg ti) g _ st ld nm acc _ _ _ _ _ _ _ _ _ _ hom hil htok]
  simp only [items3, entries3_length, List.isEmpty_nil, Bool.not_true, Bool.and_false, Bool.false_or, Bool.or_false,
    touchItems3, gt_iff_lt, Bool.and_self, List.length_cons, indentDoc, List.length_map]

/-- an item and the items behind it -/
theorem items_cons (ti : Bool) (o : Bool) (mk : Char) (pad : Nat) (loose : Bool) (n : Nat) (it it' : List T3) (r : List (List T3))
    (h1 : 1 ≤ pad) (h4 : pad ≤ 4) (hok : T3.okItems o mk pad n (it :: it' :: r) = true) (hN : NodesClaim ti it)
    (hR : ItemsClaim ti o mk pad loose (n + 1) (it' :: r)) :
    ItemsClaim ti o mk pad loose n (it :: it' :: r) := by
  intro pre post start k st gas acc ld nm hk hg hpost hln hsx
  obtain ⟨_, _, hlead, hdoc, _, hok'⟩ := okItems_cons o mk pad n it (it' :: r) hok
  obtain ⟨_, _, hlead', hdoc', htb', _⟩ := okItems_cons o mk pad (n + 1) it' r hok'
  have hm := listLeader_of o _ hlead
  have hm' := listLeader_of o _ hlead'
  obtain ⟨c0, cs, hw⟩ : ∃ c0 cs, writes3 it = c0 :: cs := by
    cases hw : writes3 it with
    | nil => rw [hw] at hdoc; simp [itemDocOk] at hdoc
    | cons c0 cs => exact ⟨c0, cs, rfl⟩
  obtain ⟨c0', cs', hw'⟩ : ∃ c0 cs, writes3 it' = c0 :: cs := by
    cases hw : writes3 it' with
    | nil => rw [hw] at hdoc'; simp [itemDocOk] at hdoc'
    | cons c0 cs => exact ⟨c0, cs, rfl⟩
  rw [hw] at hdoc
  rw [hw'] at hdoc' htb'
  simp only [List.headD_cons] at htb'
  obtain ⟨⟨ch', r0', rfl, hch'⟩, _, _⟩ := itemDoc_facts c0' cs' hdoc'
  obtain ⟨g, rfl⟩ : ∃ g, gas = g + 1 := ⟨gas - 1, by rw [needItems3_cons] at hg; omega⟩
  have hg1 : needs3 it ≤ g := by rw [needItems3_cons] at hg; omega
  have hg2 : needItems3 (it' :: r) ≤ g := by rw [needItems3_cons] at hg; omega
  have hprev : nm = none ∨ nm = some (0, (leaderOf o n mk).length + pad, leaderOf o n mk, c0) := by
    rcases hln with ⟨_, h⟩ | ⟨_, _, _, h⟩
    · exact Or.inl h
    · right; rw [h]; simp [firstLine3, hw]
  -- the lines of the list, split behind the first item
  obtain ⟨tl, htl⟩ := writeItems3_head o mk pad loose (n + 1) it' r (ch' :: r0') cs' hw'
  let k2 := k + (cs.length + 1 + (sepS loose).length)
  have hlen : (indentDoc (leaderOf o n mk) pad (c0 :: cs) ++ sepS loose).length = cs.length + 1 + (sepS loose).length := by
    simp [indentDoc]; omega
  have hsplit : numbered k (writeItems3 o mk pad loose n (it :: it' :: r)) =
      numbered k (indentDoc (leaderOf o n mk) pad (c0 :: cs) ++ sepS loose) ++
        numbered k2 (writeItems3 o mk pad loose (n + 1) (it' :: r)) := by
    rw [writeItems3_cons2, hw, ← List.append_assoc, numbered_append, hlen]
  -- the marker line of the next item
  obtain ⟨c, m'', hmc, hc⟩ := hm'.lead
  let l' : Line := { s := leaderOf o (n + 1) mk ++ List.replicate pad ' ' ++ ch' :: r0', origin := k2 + 1 }
  have hl's : l'.s = c :: (m'' ++ List.replicate pad ' ' ++ ch' :: r0') := by
    show leaderOf o (n + 1) mk ++ List.replicate pad ' ' ++ ch' :: r0' = _
    rw [hmc]; simp
  have hnext : numbered k2 (writeItems3 o mk pad loose (n + 1) (it' :: r)) = l' :: numbered (k2 + 1) tl := by
    rw [htl, numbered_cons]
  have hnc : parseContinuation l'.s ((leaderOf o n mk).length + pad) = none := by
    rw [hl's]
    exact parseContinuation_lead c _ _ (by omega) hc.n_sp hc.n_tab (by rintro rfl; exact absurd hc.nsp (by decide))
  have hpm' : parseMarker l'.s = some (0, (leaderOf o (n + 1) mk).length + pad, leaderOf o (n + 1) mk, ch' :: r0') :=
    parseMarker_first _ hm' pad h1 h4 ch' r0' hch'
  have hne : NoEarly l'.s := by
    rw [hl's]
    refine lead_noEarly hc _ ?_
    rw [← hl's]
    exact htb'
  have hil := item_lines_next (dcfg ti) _ hm pad h1 h4 c0 cs hdoc loose pre (numbered (k2 + 1) tl ++ post) l' start k hk _ hnc hpm' hne nm hprev
  have htok := hN loose k st g hg1 (sxOk_ihead hsx)
  rw [hw] at htok
  have hom := otherMarker_of_ldnm o mk pad n (it :: it' :: r) ld nm hln hlead
  have hbuf : pre ++ numbered k (writeItems3 o mk pad loose n (it :: it' :: r)) ++ post =
      pre ++ numbered k (indentDoc (leaderOf o n mk) pad (c0 :: cs) ++ sepS loose) ++ l' :: (numbered (k2 + 1) tl ++ post) := by
    rw [hsplit, hnext]; simp
  rw [hbuf, readList_step_next (dcfg ti) g _ st ld nm acc _ _ _ _ _ _ _ _ _ _ _ hom hil htok]
  -- the items behind
  have hbuf2 : pre ++ numbered k (indentDoc (leaderOf o n mk) pad (c0 :: cs) ++ sepS loose) ++ l' :: (numbered (k2 + 1) tl ++ post) =
      (pre ++ numbered k (indentDoc (leaderOf o n mk) pad (c0 :: cs) ++ sepS loose)) ++
        numbered k2 (writeItems3 o mk pad loose (n + 1) (it' :: r)) ++ post := by
    rw [hnext]; simp
  have hpos : pre.length + (cs.length + 1 + (sepS loose).length) =
      (pre ++ numbered k (indentDoc (leaderOf o n mk) pad (c0 :: cs) ++ sepS loose)).length := by
    rw [List.length_append, numbered_length, hlen]
  have hln' : LdNm o mk pad (n + 1) (it' :: r) (some (ld.getD (leaderOf o n mk)))
      (some (0, (leaderOf o (n + 1) mk).length + pad, leaderOf o (n + 1) mk, ch' :: r0')) := by
    right
    rcases hln with ⟨rfl, _⟩ | ⟨n0, rfl, h0, _⟩
    · exact ⟨n, rfl, hlead, by simp [firstLine3, hw']⟩
    · exact ⟨n0, rfl, h0, by simp [firstLine3, hw']⟩
  rw [hbuf2, hpos]
  rw [hR _ post start k2 _ g _ _ _ (by rw [← hpos]; omega) hg2 hpost hln' (sxOk_after (sxOk_itail hsx) _)]
  simp only [items3, hw, List.length_cons, touchItems3, after_after, List.isEmpty_cons, Bool.not_false, Bool.and_true,
    List.reverse_cons, List.append_assoc, List.singleton_append, List.length_append, numbered_length, hlen]
  have e1 : k2 + 1 = k + 1 + (cs.length + 1) + (sepS loose).length := by show k + _ + 1 = _; omega
  have e2 : (writeItems3 o mk pad loose n (it :: it' :: r)).length =
      cs.length + 1 + (sepS loose).length + (writeItems3 o mk pad loose (n + 1) (it' :: r)).length := by
    rw [writeItems3_cons2, hw, ← List.append_assoc, List.length_append, hlen]
  rw [e1, e2, Bool.or_comm (decide (1 < it.length)) loose]
  simp only [← Nat.add_assoc, hnext, List.cons_append]


/-! ### Nodes that are not lists -/

theorem needs3_cons (t : T3) (rest : List T3) : needs3 (t :: rest) = need3 t + needs3 rest + 14 := by simp [needs3]

theorem node_para (ti : Bool) (ls : List Str) (h : (T3.para ls).ok = true) : NodeClaim ti (.para ls) := by
  intro k st gas hg _
  have hp := paraOk_of ls (by simpa [T3.ok, T.ok] using h)
  obtain ⟨l0, tl, hl, ho⟩ := numbered_ne k ls hp.ne
  have hs : (l0 :: tl).map (·.s) = ls := by rw [← hl]; exact numbered_s k ls
  obtain ⟨g, rfl⟩ : ∃ g, gas = g + 14 := ⟨gas - 14, by simp only [need3] at hg; omega⟩
  have := Props.C14.C14_single_paragraph_default ti l0 tl
    (fun l hm => hp.inert _ (numbered_mem k ls l (by rw [hl]; exact hm))) (k + 1) st g
  simp only [write3, touch3, after_false, entry3, hl]
  rw [hs, ho] at this
  exact this

theorem node_heading (ti : Bool) (lv : Nat) (t line : Str) (h : (T3.heading lv t line).ok = true) : NodeClaim ti (.heading lv t line) := by
  intro k st gas hg _
  have hh := headOk_of lv t line (by simpa [T3.ok, T.ok] using h)
  obtain ⟨g, rfl⟩ : ∃ g, gas = g + 6 := ⟨gas - 6, by simp only [need3] at hg; omega⟩
  have := tokenize_heading ti lv t line hh.head (k + 1) (k + 1) st g
  simp only [write3, touch3, after_false, entry3, numbered_cons, show numbered (k + 1) [] = [] from rfl]
  exact this

theorem node_hr (ti : Bool) (line : Str) (h : (T3.hr line).ok = true) : NodeClaim ti (.hr line) := by
  intro k st gas hg _
  have hh := hrOk_of line (by simpa [T3.ok, T.ok] using h)
  obtain ⟨g, rfl⟩ : ∃ g, gas = g + 9 := ⟨gas - 9, by simp only [need3] at hg; omega⟩
  have := tokenize_hr ti line hh.1 (k + 1) (k + 1) st g
  simp only [write3, touch3, after_false, entry3, numbered_cons, show numbered (k + 1) [] = [] from rfl]
  exact this

theorem node_quote (ti : Bool) (bare : Bool) (kids : List T3) (h : (T3.quote bare kids).ok = true) (hN : NodesClaim ti kids) :
    NodeClaim ti (.quote bare kids) := by
  intro k st gas hg _
  obtain ⟨hne, hk, hbare, hsxk⟩ := quoteOk3_of bare kids h
  obtain ⟨g, rfl⟩ : ∃ g, gas = g + 6 := ⟨gas - 6, by simp only [need3] at hg; omega⟩
  have hg' : needs3 kids ≤ g := by simp only [need3] at hg; omega
  have ih := hN false k { st with setext := false } g hg' (by rw [hsxk]; exact sxOk_false _)
  simp only [sepS, Bool.false_eq_true, if_false, List.append_nil, Bool.or_false] at ih
  have hw := writes3_lineOk kids hk
  obtain ⟨l0, tl, hl, ho⟩ := numbered_ne k (writes3 kids) (hw.2 hne)
  rw [hl] at ih
  simp only [write3, touch3, entry3]
  have hmem : ∀ l ∈ l0 :: tl, l.s ∈ writes3 kids := fun l hm => numbered_mem k _ l (by rw [hl]; exact hm)
  cases bare with
  | false =>
    have := Props.C04.C04_quote_wraps_default ti l0 tl
      (fun l hm => lineOk_notab (hw.1 _ (hmem l hm))) (k + 1) st _ g _ ih
    have e1 : numbered k ((writes3 kids).map qsp) = (l0 :: tl).map quoteSp := by
      rw [← hl]; exact Props.C04.numbered_map_sp k (writes3 kids)
    simp only [Bool.false_eq_true, if_false]
    rw [e1]
    refine Eq.trans this ?_
    rw [ho]
    simp [after]
  | true =>
    have := Props.C04.C04_quote_wraps_bare (dcfg ti) [.htmlBlock, .blockCode, .heading]
      [.codeFence, .thematicBreak, .list, .table, .footnote, .paragraph] rfl (by decide) (by decide) l0 tl
      (fun l hm => ⟨lineOk_notab (hw.1 _ (hmem l hm)), by
        have hne' := lineOk_ne (hw.1 _ (hmem l hm))
        have hsp := hbare rfl _ (hmem l hm)
        cases hs : l.s with
        | nil => exact absurd hs hne'
        | cons c r =>
          refine ⟨c, r, rfl, ?_⟩
          intro e; rw [hs, e] at hsp; exact hsp rfl⟩)
      (k + 1) st _ g _ ih
    have e1 : numbered k ((writes3 kids).map qbare) = (l0 :: tl).map quoteBare := by
      rw [← hl]; exact Props.C04.numbered_map_bare k (writes3 kids)
    simp only [if_true]
    rw [e1]
    refine Eq.trans this ?_
    rw [ho]
    simp [after]

theorem node_setext (ti : Bool) (lv : Nat) (ls : List Str) (ul : Str) (h : (T3.setext lv ls ul).ok = true) :
    NodeClaim ti (.setext lv ls ul) := by
  intro k st gas hg hsx
  obtain ⟨hp, hu⟩ := setextOk_of lv ls ul h
  obtain ⟨l0, tl, hl, ho⟩ := numbered_ne k ls hp.ne
  have hs : (l0 :: tl).map (·.s) = ls := by rw [← hl]; exact numbered_s k ls
  obtain ⟨g, rfl⟩ : ∃ g, gas = g + 14 := ⟨gas - 14, by simp only [need3] at hg; omega⟩
  have := tokenize_setext ti lv l0 tl { s := ul, origin := k + ls.length + 1 }
    (fun l hm => Props.C14.inertLine_quiet _ (hp.inert _ (numbered_mem k ls l (by rw [hl]; exact hm)))) hu (k + 1) st (hsx rfl) g
  simp only [write3, touch3, after_false, entry3, numbered_append, hl, numbered_cons, show numbered (k + ls.length + 1) [] = [] from rfl]
  rw [hs, ho] at this
  exact this

theorem lines_ok_tail (ts : List T3) (h : T3.oks ts = true) (tail : Bool) : ∀ s ∈ writes3 ts ++ sepS tail, LineOk s := by
  intro s hs
  rcases List.mem_append.mp hs with hs | hs
  · exact (writes3_lineOk ts h).1 s hs
  · cases tail with
    | false => simp [sepS] at hs
    | true => simp only [sepS, if_true, List.mem_singleton] at hs; rw [hs]; exact lineOk_nl
/-- a node that is not a list, alone or before a final "\n" line -/
theorem nodes_single_closed (ti : Bool) (t : T3) (hok : t.ok = true) (hnl : isOpen3 t = false) (hT : NodeClaim ti t) :
    NodesClaim ti [t] := by
  intro tail k st gas hg hsx
  rw [needs3_cons] at hg
  cases tail with
  | false =>
    have := hT k st gas (by omega) (sxOk_head hsx)
    simpa [sepS, writes3_single, entries3, touches3] using this
  | true =>
    have hA := hT k st (need3 t) (Nat.le_refl _) (sxOk_head hsx)
    have hw := write3_lineOk t hok
    obtain ⟨g', hg', heq⟩ := tokenizeBlock_prefix_lists (dcfg ti) (dcfg_noBlank ti) (numbered k (write3 t))
      { s := ['\n'], origin := k + (write3 t).length + 1 } rfl [] (k + 1) st (need3 t) _ _ hA
      (by intro e he; simp only [List.getLast?_singleton, Option.some.injEq] at he; subst he; exact closed_entry3 _ t hnl)
      (numbered_allNlEnd k _ hw.1) 11 (by rw [dcfg_len]; omega)
    obtain ⟨g'', rfl⟩ : ∃ g'', g' = g'' + 1 := ⟨g' - 1, by omega⟩
    have hend : FW.peek ⟨numbered k (write3 t) ++ [{ s := ['\n'], origin := k + (write3 t).length + 1 }],
        (numbered k (write3 t)).length + 1, k + 1⟩ = none := by
      have := peek_end (numbered k (write3 t) ++ [{ s := ['\n'], origin := k + (write3 t).length + 1 }]) (k + 1)
      simpa using this
    simp only [tokLoop, hend] at heq
    have hbuf : numbered k (writes3 [t] ++ sepS true) =
        numbered k (write3 t) ++ [{ s := ['\n'], origin := k + (write3 t).length + 1 }] := by
      rw [writes3_single, numbered_append]; rfl
    rw [hbuf]
    refine tokenizeBlock_mono (dcfg ti) _ _ _ _ (need3 t + 11) gas (by omega) ?_
    rw [heq]
    simp [entries3, touches3]


theorem buf_cons2 (t t' : T3) (r : List T3) (tail : Bool) (k : Nat) :
    numbered k (writes3 (t :: t' :: r) ++ sepS tail) =
      numbered k (write3 t) ++ { s := ['\n'], origin := k + (write3 t).length + 1 } ::
        (numbered k (writes3 (t' :: r) ++ sepS tail)).map (Line.sh ((numbered k (write3 t)).length + 1)) := by
  rw [writes3_cons2, List.append_assoc, numbered_append, List.cons_append, numbered_cons, numbered_length, ← numbered_sh]
  have : k + (write3 t).length + 1 = k + ((write3 t).length + 1) := by omega
  rw [this]

/-- a node that is not a list, a "\n" line, further siblings: C05 -/
theorem nodes_cons_closed (ti : Bool) (t t' : T3) (r : List T3) (hok : T3.oks (t :: t' :: r) = true) (hnl : isOpen3 t = false)
    (hT : NodeClaim ti t) (hR : NodesClaim ti (t' :: r)) : NodesClaim ti (t :: t' :: r) := by
  intro tail k st gas hg hsx
  rw [needs3_cons] at hg
  obtain ⟨h1, h2, _⟩ := oks3_cons t (t' :: r) hok
  have hA := hT k st (need3 t) (Nat.le_refl _) (sxOk_head hsx)
  have hB := hR tail k (after st (touch3 t)) (gas - need3 t - 11) (by omega) (sxOk_after (sxOk_tail hsx) _)
  have hwt := write3_lineOk t h1
  have key := tokenizeBlock_concat_lists (dcfg ti) (dcfg_noBlank ti) (numbered k (write3 t))
    (numbered k (writes3 (t' :: r) ++ sepS tail)) { s := ['\n'], origin := k + (write3 t).length + 1 } rfl (k + 1) st
    (need3 t) (gas - need3 t - 11) _ _ _ _ hA
    (by intro e he; simp only [List.getLast?_singleton, Option.some.injEq] at he; subst he; exact closed_entry3 _ t hnl)
    hB (numbered_allNlEnd k _ hwt.1) (numbered_allNlEnd k _ (lines_ok_tail _ h2 tail))
  have hgas : gas = need3 t + (gas - need3 t - 11 + (dcfg ti).types.length + 1) := by rw [dcfg_len]; omega
  rw [buf_cons2, hgas, key, numbered_length, entries3_shift]
  have e3 : k + 1 + ((write3 t).length + 1) = k + 1 + (write3 t).length + 1 := by omega
  simp only [List.singleton_append, entries3, e3, List.length_cons, touches3, after_after]
  have hl : decide (1 < r.length + 1 + 1) = true := by simp
  rw [hl]
  simp


/-! ### Lists among the siblings -/

/-- the dispatch loop on the first line of a written list, `post` behind the list: one `List` entry, the cursor on the
    line behind the list -/
theorem list_then (ti : Bool) (o : Bool) (n : Nat) (mk : Char) (pad : Nat) (loose : Bool) (items : List (List T3))
    (hok : (T3.list o n mk pad loose items).ok = true) (hI : ItemsClaim ti o mk pad loose n items)
    (post : List Line) (hpost : PostOk post) (k : Nat) (st : St) (g : Nat) (hg : needItems3 items ≤ g)
    (hsx : SxOk (hasSxItems items) st) (acc : List Entry) (lo : Bool) :
    tokLoop (dcfg ti) (g + 8) ⟨numbered k (write3 (.list o n mk pad loose items)) ++ post, 0, k + 1⟩ st acc lo =
      tokLoop (dcfg ti) (g + 7)
        ⟨numbered k (write3 (.list o n mk pad loose items)) ++ post, (write3 (.list o n mk pad loose items)).length, k + 1⟩
        (after st (touch3 (.list o n mk pad loose items))) (entry3 (k + 1) (.list o n mk pad loose items) :: acc) lo := by
  have hl := listOk_of o n mk pad loose items hok
  cases items with
  | nil => exact absurd rfl hl.ne
  | cons it rest =>
    obtain ⟨_, _, hlead, hdoc, htb, _⟩ := okItems_cons o mk pad n it rest hl.its
    have hm := listLeader_of o _ hlead
    obtain ⟨c0, cs, hw⟩ : ∃ c0 cs, writes3 it = c0 :: cs := by
      cases hw : writes3 it with
      | nil => rw [hw] at hdoc; simp [itemDocOk] at hdoc
      | cons c0 cs => exact ⟨c0, cs, rfl⟩
    rw [hw] at htb
    simp only [List.headD_cons] at htb
    obtain ⟨tl, htl⟩ := writeItems3_head o mk pad loose n it rest c0 cs hw
    obtain ⟨c, m'', hmc, hc⟩ := hm.lead
    have hrl := hI [] post (k + 1) k st g [] none none (by simp) hg hpost (Or.inl ⟨rfl, rfl⟩) hsx
    simp only [List.nil_append, List.length_nil, Nat.zero_add, List.reverse_nil] at hrl
    simp only [write3, touch3, entry3]
    generalize hL : writeItems3 o mk pad loose n (it :: rest) = L at hrl htl ⊢
    subst htl
    rw [numbered_cons] at hrl ⊢
    have hls : ({ s := leaderOf o n mk ++ List.replicate pad ' ' ++ c0, origin := k + 1 } : Line).s =
        c :: (m'' ++ List.replicate pad ' ' ++ c0) := by
      show leaderOf o n mk ++ List.replicate pad ' ' ++ c0 = _
      rw [hmc]; simp
    have hp := peek_at [] { s := leaderOf o n mk ++ List.replicate pad ' ' ++ c0, origin := k + 1 } (numbered (k + 1) tl ++ post) (k + 1)
    simp only [List.nil_append, List.length_nil] at hp
    have hty := tryTypes_lead (dcfg ti)
      ⟨{ s := leaderOf o n mk ++ List.replicate pad ' ' ++ c0, origin := k + 1 } :: (numbered (k + 1) tl ++ post), 0, k + 1⟩ st
      _ c _ hls hc htb [.table, .footnote, .paragraph] g [.htmlBlock, .blockCode, .heading, .quote, .codeFence, .thematicBreak]
      (by decide) (by decide) (by decide)
    have hstart : listStart (leaderOf o n mk ++ List.replicate pad ' ' ++ c0) = true := listStart_first _ hm pad hl.p1 _
    have e : g + 8 = (g + 7) + 1 := by omega
    rw [e]
    generalize hG : g + 7 = G
    simp only [tokLoop, List.cons_append, hp]
    subst hG
    have hty' : (dcfg ti).types = [.htmlBlock, .blockCode, .heading, .quote, .codeFence, .thematicBreak] ++ .list :: [.table, .footnote, .paragraph] := rfl
    rw [hty']
    simp only [List.length_cons, List.length_nil, Nat.zero_add] at hty
    have e2 : g + 7 = g + 1 + (1 + 1 + 1 + 1 + 1 + 1) := by omega
    rw [e2, hty]
    simp only [tryTypes, hstart, if_true]
    simp only [List.cons_append] at hrl
    rw [hrl]


theorem need3_list (o : Bool) (n : Nat) (mk : Char) (pad : Nat) (loose : Bool) (items : List (List T3)) :
    need3 (.list o n mk pad loose items) = needItems3 items + 12 := by simp [need3]

/-- a node over which the dispatcher is followed directly: entered on the node's first line, it adds the node's entry and
    stands on the line behind the node's lines, whenever what follows the node (`post`) satisfies `P` -/
def ThenClaim (ti : Bool) (t : T3) (gn : Nat) (P : List Line → Prop) : Prop :=
  ∀ (post : List Line), P post → ∀ (k : Nat) (st : St) (g : Nat), gn ≤ g → SxOk (hasSx t) st → ∀ (acc : List Entry) (lo : Bool),
    tokLoop (dcfg ti) (g + 8) ⟨numbered k (write3 t) ++ post, 0, k + 1⟩ st acc lo =
      tokLoop (dcfg ti) (g + 7) ⟨numbered k (write3 t) ++ post, (write3 t).length, k + 1⟩
        (after st (touch3 t)) (entry3 (k + 1) t :: acc) lo

theorem list_thenClaim (ti : Bool) (o : Bool) (n : Nat) (mk : Char) (pad : Nat) (loose : Bool) (items : List (List T3))
    (hok : (T3.list o n mk pad loose items).ok = true) (hI : ItemsClaim ti o mk pad loose n items) :
    ThenClaim ti (.list o n mk pad loose items) (needItems3 items) PostOk :=
  fun post hpost k st g hg hsx acc lo => list_then ti o n mk pad loose items hok hI post hpost k st g hg hsx acc lo

/-- a fenced code block, whatever follows it -/
theorem fence_thenClaim (ti : Bool) (ind : Nat) (d info : Str) (body : List Str) (close : Str)
    (hok : (T3.fence ind d info body close).ok = true) :
    ThenClaim ti (.fence ind d info body close) 0 (fun _ => True) := by
  intro post _ k st g _ _ acc lo
  have hf := fenceFacts_of ind d info body close (by simpa [T3.ok] using hok)
  obtain ⟨c, hfo⟩ := hf.fo
  have e : numbered k (write3 (.fence ind d info body close)) =
      { s := sp ind ++ d ++ info ++ ['\n'], origin := k + 1 } ::
        (numbered (k + 1) body ++ [{ s := close, origin := k + 1 + body.length + 1 }]) := by
    simp only [write3, numbered_cons, numbered_append]
    rfl
  have h1 := tokLoop_fence_step ti g ind hf.indLt c d info hfo { s := sp ind ++ d ++ info ++ ['\n'], origin := k + 1 }
    { s := close, origin := k + 1 + body.length + 1 } rfl hf.closes (numbered (k + 1) body)
    (fun x hx => (hf.body _ (numbered_mem _ _ _ hx)).2) [] post (k + 1) st acc lo
  rw [e]
  simp only [touch3, after_false, entry3]
  have hm : (numbered (k + 1) body).map (fun x => dedent ind x.s) = body.map (dedent ind) :=
    MdRound.numbered_map_s (k + 1) body (dedent ind)
  simp only [hm, List.nil_append, List.length_nil, Nat.add_zero] at h1
  simp only [List.cons_append, List.append_assoc, write3, List.length_cons, List.length_append, List.length_nil,
    numbered_length] at h1 ⊢
  exact h1

/-- such a node alone in its buffer, or before a final "\n" line -/
theorem nodes_single_then (ti : Bool) (t : T3) (gn : Nat) (P : List Line → Prop) (hneed : need3 t = gn + 12)
    (hT : ThenClaim ti t gn P) (hP0 : P []) (hP1 : ∀ nlL : Line, nlL.s = ['\n'] → P [nlL]) :
    NodesClaim ti [t] := by
  intro tail k st gas hg hsx
  rw [needs3_cons, hneed] at hg
  obtain ⟨g, rfl⟩ : ∃ g, gas = (g + 8) + 1 := ⟨gas - 9, by omega⟩
  have hgi : gn ≤ g := by simp only [needs3] at hg; omega
  rw [writes3_single, numbered_append]
  simp only [tokenizeBlock]
  cases tail with
  | false =>
    have := hT [] hP0 k st g hgi (sxOk_head hsx) [] false
    simp only [sepS, Bool.false_eq_true, if_false, show ∀ j, numbered j ([] : List Str) = [] from fun _ => rfl]
    rw [this]
    have hend := peek_end (numbered k (write3 t) ++ []) (k + 1)
    simp only [List.length_append, numbered_length, List.length_nil, Nat.add_zero] at hend
    have e : g + 7 = (g + 6) + 1 := by omega
    rw [e]
    simp only [tokLoop, hend]
    simp [entries3, touches3]
  | true =>
    have := hT _ (hP1 { s := ['\n'], origin := k + (write3 t).length + 1 } rfl) k st g hgi (sxOk_head hsx) [] false
    simp only [sepS, if_true, numbered_cons, show ∀ j, numbered j ([] : List Str) = [] from fun _ => rfl]
    rw [this]
    have hp := peek_at (numbered k (write3 t))
      { s := ['\n'], origin := k + (write3 t).length + 1 } [] (k + 1)
    rw [numbered_length] at hp
    have e : g + 7 = (g + 6) + 1 := by omega
    rw [e]
    generalize hG : g + 6 = G
    simp only [tokLoop, hp]
    rw [tryTypes_nl_none (dcfg ti) _ _ _ rfl _ G (dcfg_noBlank ti) (by rw [dcfg_len]; omega)]
    simp only
    obtain ⟨G', rfl⟩ : ∃ G', G = G' + 1 := ⟨G - 1, by omega⟩
    have hend := peek_end (numbered k (write3 t) ++
      [{ s := ['\n'], origin := k + (write3 t).length + 1 }]) (k + 1)
    simp only [List.length_append, numbered_length, List.length_singleton] at hend
    simp only [tokLoop, FW.next, hend]
    simp [entries3, touches3]

/-- such a node, a "\n" line, further siblings: the dispatcher goes on behind the "\n" line (`tokLoop_suffix_shift`) -/
theorem nodes_cons_then (ti : Bool) (t t' : T3) (r : List T3) (gn : Nat) (P : List Line → Prop) (hneed : need3 t = gn + 12)
    (h2 : T3.oks (t' :: r) = true) (hT : ThenClaim ti t gn P)
    (hP : ∀ (tail : Bool) (k : Nat), P ({ s := ['\n'], origin := k + (write3 t).length + 1 } ::
      (numbered k (writes3 (t' :: r) ++ sepS tail)).map (Line.sh ((numbered k (write3 t)).length + 1))))
    (hR : NodesClaim ti (t' :: r)) :
    NodesClaim ti (t :: t' :: r) := by
  intro tail k st gas hg hsx
  rw [needs3_cons, hneed] at hg
  obtain ⟨g, rfl⟩ : ∃ g, gas = (g + 8) + 1 := ⟨gas - 9, by omega⟩
  have hgi : gn ≤ g := by omega
  have hgr : needs3 (t' :: r) ≤ g + 7 := by omega
  have hlt := hT _ (hP tail k) k st g hgi (sxOk_head hsx) [] false
  rw [buf_cons2]
  simp only [tokenizeBlock]
  rw [hlt]
  have hp := peek_at (numbered k (write3 t)) { s := ['\n'], origin := k + (write3 t).length + 1 }
    ((numbered k (writes3 (t' :: r) ++ sepS tail)).map (Line.sh ((numbered k (write3 t)).length + 1))) (k + 1)
  have e : g + 7 = (g + 6) + 1 := by omega
  rw [e]
  generalize hG : g + 6 = G
  rw [numbered_length] at hp ⊢
  simp only [tokLoop, hp]
  rw [tryTypes_nl_none (dcfg ti) _ _ _ rfl _ G (dcfg_noBlank ti) (by rw [dcfg_len]; omega)]
  simp only
  -- behind the "\n" line: the siblings, in a buffer of their own
  have hB := hR tail k (after st (touch3 t)) (G + 1) (by omega) (sxOk_after (sxOk_tail hsx) _)
  have hnlB : AllNlEnd (numbered k (writes3 (t' :: r) ++ sepS tail)) := numbered_allNlEnd k _ (lines_ok_tail _ h2 tail)
  have hsh := tokLoop_suffix_shift (dcfg ti) G (numbered k (write3 t) ++ [{ s := ['\n'], origin := k + (write3 t).length + 1 }])
    (numbered k (writes3 (t' :: r) ++ sepS tail)) (k + 1) (after st (touch3 t)) [entry3 (k + 1) t] true hnlB
  simp only [List.length_append, numbered_length, List.length_singleton, List.append_assoc, List.singleton_append] at hsh
  simp only [FW.next]
  rw [hsh, hB]
  simp only [rmap_ok, shB, withAcc]
  rw [entries3_shift]
  have e3 : k + 1 + ((write3 t).length + 1) = k + 1 + (write3 t).length + 1 := by omega
  rw [e3]
  have hl : decide (1 < (t :: t' :: r).length) = true := by simp
  rw [hl]
  simp only [entries3, touches3, after_after, List.reverse_singleton, List.singleton_append, Bool.true_or]

/-- behind a list: the "\n" line and the first line of the next sibling make a `PostOk` -/
theorem list_post (t t' : T3) (r : List T3) (hl : isList3 t = true) (hok : T3.oks (t :: t' :: r) = true) (tail : Bool) (k : Nat) :
    PostOk ({ s := ['\n'], origin := k + (write3 t).length + 1 } ::
      (numbered k (writes3 (t' :: r) ++ sepS tail)).map (Line.sh ((numbered k (write3 t)).length + 1))) := by
  obtain ⟨_, h2, hsep⟩ := oks3_cons _ (t' :: r) hok
  have hsep' := hsep t' r rfl
  obtain ⟨h1', _, _⟩ := oks3_cons t' r h2
  have hw' := write3_lineOk t' h1'
  obtain ⟨s0, ss, hs0⟩ : ∃ s0 ss, write3 t' = s0 :: ss := by
    cases hh : write3 t' with
    | nil => exact absurd hh hw'.2
    | cons a b => exact ⟨a, b, rfl⟩
  have hstop : StopLine s0 := by
    simp only [sepOk3, hl, Bool.not_true, Bool.false_or, Bool.and_eq_true, hs0, List.headD_cons] at hsep'
    exact stopLine_of s0 hsep'.2 (hw'.1 s0 (by rw [hs0]; simp))
  have hhead : ∃ ss', writes3 (t' :: r) ++ sepS tail = s0 :: ss' := by
    cases r with
    | nil => rw [writes3_single, hs0]; exact ⟨_, rfl⟩
    | cons a b => rw [writes3_cons2, hs0]; exact ⟨_, rfl⟩
  obtain ⟨ss', hss'⟩ := hhead
  refine Or.inr ⟨_, _, rfl, rfl, ?_⟩
  intro s hs
  rw [hss', numbered_cons] at hs
  simp only [List.map_cons, List.head?_cons, Option.some.injEq] at hs
  subst hs
  exact hstop


/-! ### The induction over the tree -/

theorem nodes_step_closed (ti : Bool) (t : T3) (rest : List T3) (hok : T3.oks (t :: rest) = true) (hnl : isOpen3 t = false)
    (hT : NodeClaim ti t) (hR : rest ≠ [] → NodesClaim ti rest) : NodesClaim ti (t :: rest) := by
  cases rest with
  | nil => exact nodes_single_closed ti t (oks3_cons t [] hok).1 hnl hT
  | cons t' r => exact nodes_cons_closed ti t t' r hok hnl hT (hR (by simp))

theorem nodes_step_list (ti : Bool) (o : Bool) (n : Nat) (mk : Char) (pad : Nat) (loose : Bool) (items : List (List T3))
    (rest : List T3) (hok : T3.oks (.list o n mk pad loose items :: rest) = true)
    (hI : ItemsClaim ti o mk pad loose n items) (hR : rest ≠ [] → NodesClaim ti rest) :
    NodesClaim ti (.list o n mk pad loose items :: rest) := by
  have hT := list_thenClaim ti o n mk pad loose items (oks3_cons _ _ hok).1 hI
  cases rest with
  | nil =>
    exact nodes_single_then ti _ _ PostOk (need3_list ..) hT (Or.inl rfl) (fun nlL h => Or.inr ⟨nlL, [], rfl, h, by simp⟩)
  | cons t' r =>
    exact nodes_cons_then ti _ t' r _ PostOk (need3_list ..) (oks3_cons _ _ hok).2.1 hT
      (fun tail k => list_post _ t' r rfl hok tail k) (hR (by simp))

theorem nodes_step_fence (ti : Bool) (ind : Nat) (d info : Str) (body : List Str) (close : Str)
    (rest : List T3) (hok : T3.oks (.fence ind d info body close :: rest) = true)
    (hR : rest ≠ [] → NodesClaim ti rest) :
    NodesClaim ti (.fence ind d info body close :: rest) := by
  have hT := fence_thenClaim ti ind d info body close (oks3_cons _ _ hok).1
  cases rest with
  | nil => exact nodes_single_then ti _ 0 _ rfl hT trivial (fun _ _ => trivial)
  | cons t' r => exact nodes_cons_then ti _ t' r 0 _ rfl (oks3_cons _ _ hok).2.1 hT (fun _ _ => trivial) (hR (by simp))

theorem items_step (ti : Bool) (o : Bool) (mk : Char) (pad : Nat) (loose : Bool) (n : Nat) (it : List T3) (rest : List (List T3))
    (h1 : 1 ≤ pad) (h4 : pad ≤ 4) (hok : T3.okItems o mk pad n (it :: rest) = true) (hN : NodesClaim ti it)
    (hR : rest ≠ [] → ItemsClaim ti o mk pad loose (n + 1) rest) : ItemsClaim ti o mk pad loose n (it :: rest) := by
  cases rest with
  | nil => exact items_last ti o mk pad loose n it h1 h4 hok hN
  | cons it' r => exact items_cons ti o mk pad loose n it it' r h1 h4 hok hN (hR (by simp))

mutual
/-- **siblings** (any nodes of the fragment), in a buffer of their own -/
theorem nodes_claim (ti : Bool) : ∀ (ts : List T3), T3.oks ts = true → ts ≠ [] → NodesClaim ti ts
  | [], _, hne => absurd rfl hne
  | .para ls :: rest, h, _ =>
    nodes_step_closed ti _ rest h rfl (node_para ti ls (oks3_cons _ _ h).1)
      (fun hne => nodes_claim ti rest (oks3_cons _ _ h).2.1 hne)
  | .heading lv t line :: rest, h, _ =>
    nodes_step_closed ti _ rest h rfl (node_heading ti lv t line (oks3_cons _ _ h).1)
      (fun hne => nodes_claim ti rest (oks3_cons _ _ h).2.1 hne)
  | .hr line :: rest, h, _ =>
    nodes_step_closed ti _ rest h rfl (node_hr ti line (oks3_cons _ _ h).1)
      (fun hne => nodes_claim ti rest (oks3_cons _ _ h).2.1 hne)
  | .quote bare kids :: rest, h, _ =>
    nodes_step_closed ti _ rest h rfl
      (node_quote ti bare kids (oks3_cons _ _ h).1
        (nodes_claim ti kids (quoteOk3_of bare kids (oks3_cons _ _ h).1).2.1 (quoteOk3_of bare kids (oks3_cons _ _ h).1).1))
      (fun hne => nodes_claim ti rest (oks3_cons _ _ h).2.1 hne)
  | .list o n mk pad loose items :: rest, h, _ =>
    have hl := listOk_of o n mk pad loose items (oks3_cons _ _ h).1
    nodes_step_list ti o n mk pad loose items rest h
      (items_claim ti o mk pad loose hl.p1 hl.p4 n items hl.its hl.ne)
      (fun hne => nodes_claim ti rest (oks3_cons _ _ h).2.1 hne)
  | .fence ind d info body close :: rest, h, _ =>
    nodes_step_fence ti ind d info body close rest h
      (fun hne => nodes_claim ti rest (oks3_cons _ _ h).2.1 hne)
  | .setext lv ls ul :: rest, h, _ =>
    nodes_step_closed ti _ rest h rfl (node_setext ti lv ls ul (oks3_cons _ _ h).1)
      (fun hne => nodes_claim ti rest (oks3_cons _ _ h).2.1 hne)
/-- **the items of a list**, anywhere in a buffer -/
theorem items_claim (ti : Bool) (o : Bool) (mk : Char) (pad : Nat) (loose : Bool) (h1 : 1 ≤ pad) (h4 : pad ≤ 4) :
    ∀ (n : Nat) (items : List (List T3)), T3.okItems o mk pad n items = true → items ≠ [] → ItemsClaim ti o mk pad loose n items
  | _, [], _, hne => absurd rfl hne
  | n, it :: rest, h, _ =>
    items_step ti o mk pad loose n it rest h1 h4 h
      (nodes_claim ti it (okItems_cons o mk pad n it rest h).2.1 (okItems_cons o mk pad n it rest h).1)
      (fun hne => items_claim ti o mk pad loose h1 h4 (n + 1) rest (okItems_cons o mk pad n it rest h).2.2.2.2.2 hne)
end


/-- **the block phase of a written document** -/
theorem blockPhase_writes3 (ti : Bool) (ts : List T3) (h : T3.oks ts = true) (hne : ts ≠ []) (gas : Nat) (hg : needs3 ts ≤ gas) :
    blockPhase (dcfg ti) gas (writes3 ts) =
      .ok ({ entries := entries3 1 ts, loose := decide (1 < ts.length) }, {}) := by
  have e : blockPhase (dcfg ti) gas (writes3 ts) = tokenizeBlock (dcfg ti) gas (numbered 0 (writes3 ts)) 1 {} := rfl
  rw [e]
  have := nodes_claim ti ts h hne false 0 {} gas hg (fun _ => rfl)
  simp only [sepS, Bool.false_eq_true, if_false, List.append_nil, Nat.zero_add, Bool.or_false] at this
  rw [this]
  simp [after]



/-! ### The block token constructors on the expected entries -/

open Mistletoe.Document (joinNl mkBlock mkBlocks mkItems)
open Mistletoe.Html Mistletoe.Escape
open Mistletoe.InertInline (flat_append flat_prose)
open Mistletoe.ComposeL (itemLooseB listHtml flat_cons2 flat_list flat_li_open flat_li_close flat_li_empty flat_if_nl
  flat_item2_nil flat_item2_cons listHtml_ne mkBlock_of_single2)

/-- the language of a fenced code block: the first word of the info string (`fenceLang`: the non-blank characters behind
    the leading spaces), backslash escapes and character references resolved -/
def langOf (info : Str) : Str := Unescape.escStrip false (fenceLang info)

/-- `<pre><code class="language-…">`, the content with `&`, `<`, `>` (and the quotes, as the options say) escaped,
    `</code></pre>`; no `class` attribute when there is no language -/
def fenceHtml (q : Quotes) (lang content : Str) : Str :=
  "<pre><code".toList ++ (if lang.isEmpty then [] else " class=\"language-".toList ++ htmlEscape lang ++ "\"".toList) ++ ">".toList
    ++ escapeHtmlText q.dq q.sq content ++ "</code></pre>".toList

theorem flat_code_attr (x : Str) :
    flat [Ev.otag "pre".toList [], Ev.otag "code".toList [("class".toList, "language-".toList ++ x)]] =
      "<pre><code".toList ++ (" class=\"language-".toList ++ x ++ "\"".toList) ++ ">".toList := by
  have e1 : "code".toList = ['c', 'o', 'd', 'e'] := by decide
  have e2 : "class".toList = ['c', 'l', 'a', 's', 's'] := by decide
  have e3 : "language-".toList = ['l', 'a', 'n', 'g', 'u', 'a', 'g', 'e', '-'] := by decide
  have e4 : "<pre><code".toList = ['<', 'p', 'r', 'e', '>', '<', 'c', 'o', 'd', 'e'] := by decide
  have e5 : " class=\"language-".toList = [' ', 'c', 'l', 'a', 's', 's', '=', '"', 'l', 'a', 'n', 'g', 'u', 'a', 'g', 'e', '-'] := by decide
  have e6 : "\"".toList = ['"'] := by decide
  have e7 : ">".toList = ['>'] := by decide
  have e8 : "pre".toList = ['p', 'r', 'e'] := by decide
  rw [e1, e2, e3, e4, e5, e6, e7, e8]
  simp only [flat, List.flatMap_cons, List.flatMap_nil, flatEv, flatAttrs, List.append_nil, List.cons_append, List.nil_append,
    List.append_assoc]

theorem flat_code_plain' : flat [Ev.otag "pre".toList [], Ev.otag "code".toList []] = "<pre><code>".toList := by decide +kernel
theorem cat_code : "<pre><code".toList ++ ">".toList = "<pre><code>".toList := by decide +kernel
theorem flat_code_close : flat [Ev.ctag "code".toList, Ev.ctag "pre".toList] = "</code></pre>".toList := by decide +kernel

theorem hsplit (a b c d e : Ev) : flat [a, b, c, d, e] = flat [a, b] ++ flatEv c ++ flat [d, e] := by
  simp only [flat, List.flatMap_cons, List.flatMap_nil, List.append_nil, List.append_assoc]

theorem flat_fence (q : Quotes) (lang content : Str) :
    flat [Ev.otag "pre".toList [],
     Ev.otag "code".toList (if lang.isEmpty then [] else [("class".toList, "language-".toList ++ htmlEscape lang)]),
     Ev.text (escapeHtmlText q.dq q.sq content), Ev.ctag "code".toList, Ev.ctag "pre".toList] = fenceHtml q lang content := by
  rw [hsplit]
  rw [flat_code_close]
  unfold fenceHtml
  cases lang.isEmpty with
  | true =>
    rw [if_pos rfl, if_pos rfl, flat_code_plain', List.append_nil, cat_code]
    rfl
  | false =>
    rw [if_neg (by decide), if_neg (by decide), flat_code_attr]
    rfl

theorem fenceHtml_ne (q : Quotes) (lang content : Str) : fenceHtml q lang content ≠ [] := by
  unfold fenceHtml
  have e : "<pre><code".toList = '<' :: "pre><code".toList := by decide
  rw [e, List.append_assoc, List.append_assoc, List.append_assoc, List.cons_append]
  exact List.cons_ne_nil _ _

mutual
/-- the block token expected for a node whose first line is line `n` -/
def block3 (n : Nat) : T3 → Mistletoe.Block
  | .para ls => .paragraph (proseInlines (ls.map strip)) n
  | .heading lv t line => .heading lv (closingOf line) [.rawText t] n
  | .hr line => .thematicBreak (Document.stripNl line) n
  | .quote _ kids => .quote (blocks3 n kids) n
  | .list o s mk pad loose items => .list loose (if o then some s else none) (itemBlocks3 o mk pad loose s n items) n
  | .fence ind d info body _ => .codeFence (langOf info) ind d info (body.map (dedent ind)).flatten n
  | .setext lv ls ul => .setextHeading lv (rstrip ul) (proseInlines (ls.map strip)) n
def blocks3 (n : Nat) : List T3 → List Mistletoe.Block
  | [] => []
  | t :: rest => block3 n t :: blocks3 (n + (write3 t).length + 1) rest
def itemBlocks3 (o : Bool) (mk : Char) (pad : Nat) (loose : Bool) (s : Nat) (n : Nat) : List (List T3) → List Mistletoe.Block
  | [] => []
  | it :: rest =>
    .listItem (leaderOf o s mk) 0 ((leaderOf o s mk).length + pad) ((loose && !rest.isEmpty) || decide (1 < it.length)) (blocks3 n it) n
      :: itemBlocks3 o mk pad loose (s + 1) (n + (writes3 it).length + (sepS loose).length) rest
end

/-- the looseness `List.__init__` computes from the items -/
def itemsLoose3 (loose : Bool) : List (List T3) → Bool
  | [] => false
  | it :: rest => ((loose && !rest.isEmpty) || decide (1 < it.length)) || itemsLoose3 loose rest

theorem any_itemBlocks3 (o : Bool) (mk : Char) (pad : Nat) (loose : Bool) : ∀ (s n : Nat) (items : List (List T3)),
    (itemBlocks3 o mk pad loose s n items).any itemLooseB = itemsLoose3 loose items
  | _, _, [] => rfl
  | s, n, it :: rest => by
    simp only [itemBlocks3, List.any_cons, itemLooseB, itemsLoose3, any_itemBlocks3 o mk pad loose _ _ rest]

theorem itemsLoose3_false : ∀ (items : List (List T3)), items.all (fun it => it.length == 1) = true → itemsLoose3 false items = false
  | [], _ => rfl
  | it :: rest, h => by
    simp only [List.all_cons, Bool.and_eq_true, beq_iff_eq] at h
    simp only [itemsLoose3, Bool.false_and, Bool.false_or, h.1, itemsLoose3_false rest h.2]
    decide

/-- `loose` is the looseness the constructor computes -/
theorem itemsLoose3_eq (loose : Bool) (items : List (List T3))
    (h : (if loose then decide (2 ≤ items.length) || items.any (fun it => decide (1 < it.length))
          else items.all (fun it => it.length == 1)) = true) : itemsLoose3 loose items = loose := by
  cases loose with
  | false => exact itemsLoose3_false items (by simpa using h)
  | true =>
    simp only [if_true, Bool.or_eq_true, decide_eq_true_eq, List.any_eq_true] at h
    cases items with
    | nil =>
      rcases h with h | ⟨x, hx, _⟩
      · simp at h
      · simp at hx
    | cons it rest =>
      cases rest with
      | cons it' r => simp [itemsLoose3]
      | nil =>
        rcases h with h | ⟨x, hx, hx2⟩
        · simp at h
        · simp only [List.mem_singleton] at hx
          subst hx
          simp [itemsLoose3, hx2]

mutual
theorem mkBlock_entry3 (cfg : Document.Cfg) (fn : Footnotes.Table) (ht : ∀ t ∈ cfg.span, inertClass t = true)
    (hc : cfg.span.count .lineBreak = 1) : ∀ (t : T3), t.ok = true → ∀ (n : Nat),
    mkBlock cfg fn (entry3 n t) = .ok (some (block3 n t))
  | .para ls, h, n => by
    have hp := paraOk_of ls (by simpa [T3.ok, T.ok] using h)
    exact mkBlock_of_single2 cfg fn _ _ (InertInline.mkBlocks_prose cfg fn ls n n ht hc hp.ne hp.prose hp.body)
  | .heading lv t line, h, n => by
    have hh := headOk_of lv t line (by simpa [T3.ok, T.ok] using h)
    have hin : Document.inl cfg fn t = .ok [.rawText t] := InertInline.tokenizeInner_inert cfg.span fn t ht hh.inert hh.ne
    simp only [entry3, block3, mkBlock, hin]
  | .hr line, h, n => by
    simp only [entry3, block3, mkBlock]
  | .quote bare kids, h, n => by
    obtain ⟨_, hk, _⟩ := quoteOk3_of bare kids h
    simp only [entry3, block3, mkBlock, mkBlocks_entries3 cfg fn ht hc kids hk n]
  | .list o s mk pad loose items, h, n => by
    have hl := listOk_of o s mk pad loose items h
    have hits := mkItems_items3 cfg fn ht hc o mk pad loose s n items hl.its
    simp only [entry3, block3, mkBlock, hits]
    cases items with
    | nil => exact absurd rfl hl.ne
    | cons it rest =>
      obtain ⟨_, _, hlead, _⟩ := okItems_cons o mk pad s it rest hl.its
      simp only [items3]
      have hany := any_itemBlocks3 o mk pad loose s n (it :: rest)
      rw [itemsLoose3_eq loose _ hl.looseC] at hany
      have hA : ∀ (f : Mistletoe.Block → Bool), (∀ b, f b = itemLooseB b) →
          (itemBlocks3 o mk pad loose s n (it :: rest)).any f = loose := by
        intro f hf
        refine Eq.trans ?_ hany
        congr 1; funext b; exact hf b
      rw [hA _ (by intro b; cases b <;> rfl)]
      cases o with
      | false => simp [leaderOf]
      | true =>
        obtain ⟨d, e, hd, _, h1, _, _⟩ := leaderOk_ordered _ hlead
        simp only [leaderOf, if_true] at hd ⊢
        have e1 : natDigits s = d := (List.append_inj' hd (by simp)).1
        have hne : ((natDigits s ++ [mk]).length != 1) = true := by
          rw [e1]; simp only [List.length_append, List.length_singleton, bne_iff_ne, ne_eq]; omega
        simp only [hne, if_true, List.dropLast_concat, hl.start rfl]
  | .fence ind d info body close, h, n => by
    simp only [entry3, block3, mkBlock, langOf]
  | .setext lv ls ul, h, n => by
    obtain ⟨hp, hu⟩ := setextOk_of lv ls ul h
    have hin : Document.inl cfg fn (joinNl (ls.map strip)) = .ok (proseInlines (ls.map strip)) := by
      unfold Document.inl
      exact InertInline.tokenizeInner_lines cfg.span fn _ ht hc (by simpa using hp.ne) (InertInline.lineOk_of_prose ls hp.prose hp.body) hp.body
    have hlv : (if (rstrip ul).getLast? == some '=' then 1 else 2) = lv := by
      have := hu.lvl
      rcases hu.lv12 with rfl | rfl
      · simp only [beq_self_eq_true] at this; simp [this]
      · have e : ((2 : Nat) == 1) = false := by decide
        rw [e] at this; simp [this]
    simp only [entry3, block3, mkBlock, List.getLast?_concat, List.dropLast_concat, hin, hlv]
theorem mkBlocks_entries3 (cfg : Document.Cfg) (fn : Footnotes.Table) (ht : ∀ t ∈ cfg.span, inertClass t = true)
    (hc : cfg.span.count .lineBreak = 1) : ∀ (ts : List T3), T3.oks ts = true → ∀ (n : Nat),
    mkBlocks cfg fn (entries3 n ts) = .ok (blocks3 n ts)
  | [], _, _ => by simp [entries3, blocks3, mkBlocks]
  | t :: rest, h, n => by
    obtain ⟨h1, h2, _⟩ := oks3_cons t rest h
    simp only [entries3, blocks3, mkBlocks, mkBlock_entry3 cfg fn ht hc t h1 n,
      mkBlocks_entries3 cfg fn ht hc rest h2 _]
theorem mkItems_items3 (cfg : Document.Cfg) (fn : Footnotes.Table) (ht : ∀ t ∈ cfg.span, inertClass t = true)
    (hc : cfg.span.count .lineBreak = 1) (o : Bool) (mk : Char) (pad : Nat) (loose : Bool) : ∀ (s n : Nat) (items : List (List T3)),
    T3.okItems o mk pad s items = true →
    mkItems cfg fn (items3 o mk pad loose s n items) = .ok (itemBlocks3 o mk pad loose s n items)
  | _, _, [], _ => by simp [items3, itemBlocks3, mkItems]
  | s, n, it :: rest, h => by
    obtain ⟨_, hit, _, _, _, hrest⟩ := okItems_cons o mk pad s it rest h
    simp only [items3, itemBlocks3, mkItems, mkBlocks_entries3 cfg fn ht hc it hit n,
      mkItems_items3 cfg fn ht hc o mk pad loose _ _ rest hrest]
end

/-- **`Document(lines)` on a written document** -/
theorem parseLines_writes3 (cfg : Document.Cfg) (ti : Bool) (hb : cfg.block = dcfg ti)
    (ht : ∀ t ∈ cfg.span, inertClass t = true) (hc : cfg.span.count .lineBreak = 1)
    (ts : List T3) (h : T3.oks ts = true) (hne : ts ≠ []) (gas : Nat) (hg : needs3 ts ≤ gas) :
    Document.parseLines cfg gas (writes3 ts) = .ok { kids := blocks3 1 ts, footnotes := [] } := by
  unfold Document.parseLines
  rw [hb, blockPhase_writes3 ti ts h hne gas hg]
  simp only
  rw [mkBlocks_entries3 cfg _ ht hc ts h 1]
  rfl


/-! ### HTML written directly from the tree -/

def isPara3 : T3 → Bool
  | .para _ => true
  | _ => false

def itemHtml3 (s : Bool) (it : List T3) (inner : Str) : Str :=
  match it with
  | [] => "<li></li>".toList
  | first :: _ =>
    "<li>".toList ++ (if s && isPara3 first then [] else ['\n']) ++ inner
      ++ (if s && (it.getLast?.map isPara3).getD false then [] else ['\n']) ++ "</li>".toList

mutual
/-- the HTML of one node; `s`: directly inside an item of a tight list -/
def html3 (q : Quotes) (s : Bool) : T3 → Str
  | .para ls => if s then escapeHtmlText q.dq q.sq (joinNl (ls.map strip)) else paraHtml q ls
  | .heading lv t _ => headHtml q lv t
  | .hr _ => hrHtml
  | .quote _ kids => quoteHtml (htmlAfter3 q kids)
  | .list o st _ _ loose items => listHtml o st (htmlItems3 q (!loose) items)
  | .fence ind _ info body _ => fenceHtml q (langOf info) (body.map (dedent ind)).flatten
  | .setext lv ls _ => headHtml q lv (joinNl (ls.map strip))
/-- nodes, each followed by a newline (document, quote) -/
def htmlAfter3 (q : Quotes) : List T3 → Str
  | [] => []
  | t :: rest => html3 q false t ++ '\n' :: htmlAfter3 q rest
/-- nodes separated by newlines (list item) -/
def htmlSep3 (q : Quotes) (s : Bool) : List T3 → Str
  | [] => []
  | t :: rest =>
    match rest with
    | [] => html3 q s t
    | _ :: _ => html3 q s t ++ '\n' :: htmlSep3 q s rest
/-- items separated by newlines -/
def htmlItems3 (q : Quotes) (s : Bool) : List (List T3) → Str
  | [] => []
  | it :: rest =>
    match rest with
    | [] => itemHtml3 s it (htmlSep3 q s it)
    | _ :: _ => itemHtml3 s it (htmlSep3 q s it) ++ '\n' :: htmlItems3 q s rest
end

/-- the HTML of the document -/
def htmlOf3 (o : Opts) (ts : List T3) : Str := htmlAfter3 o.q ts

theorem isParagraph_block3 (n : Nat) : ∀ (t : T3), isParagraph (block3 n t) = isPara3 t
  | .para _ => rfl
  | .heading _ _ _ => rfl
  | .hr _ => rfl
  | .quote _ _ => rfl
  | .list .. => rfl
  | .fence .. => rfl
  | .setext .. => rfl

theorem blocks3_getLast : ∀ (ts : List T3) (n : Nat),
    ((blocks3 n ts).getLast?.map isParagraph).getD false = (ts.getLast?.map isPara3).getD false
  | [], _ => rfl
  | [t], n => by simp [blocks3, isParagraph_block3]
  | t :: t' :: r, n => by
    have ih := blocks3_getLast (t' :: r) (n + (write3 t).length + 1)
    simp only [blocks3, List.getLast?_cons_cons] at ih ⊢
    exact ih

theorem itemHtml_nil (s : Bool) (inner : Str) : itemHtml3 s [] inner = "<li></li>".toList := rfl
theorem itemHtml_cons (s : Bool) (first : T3) (rest : List T3) (inner : Str) : itemHtml3 s (first :: rest) inner =
    "<li>".toList ++ (if s && isPara3 first then [] else ['\n']) ++ inner
      ++ (if s && ((first :: rest).getLast?.map isPara3).getD false then [] else ['\n']) ++ "</li>".toList := rfl

theorem flat_item3 (q : Quotes) (s : Bool) (it : List T3) (n : Nat) (ld : Str) (ind pre : Nat) (lo : Bool)
    (h : flat (renderSep q s (blocks3 n it)) = htmlSep3 q s it) :
    flat (renderBlock q s (.listItem ld ind pre lo (blocks3 n it) n)) = itemHtml3 s it (htmlSep3 q s it) := by
  cases it with
  | nil =>
    simp only [blocks3]
    rw [itemHtml_nil]
    exact flat_item2_nil q s n ld ind pre lo
  | cons first rest =>
    have hlast := blocks3_getLast (first :: rest) n
    simp only [blocks3] at h hlast
    simp only [blocks3]
    rw [itemHtml_cons, flat_item2_cons, h, hlast, isParagraph_block3]

theorem htmlItems_cons2 (q : Quotes) (s : Bool) (it it' : List T3) (r : List (List T3)) :
    htmlItems3 q s (it :: it' :: r) = itemHtml3 s it (htmlSep3 q s it) ++ '\n' :: htmlItems3 q s (it' :: r) := by
  simp [htmlItems3]

mutual
theorem flat_block3 (q : Quotes) : ∀ (t : T3) (s : Bool) (n : Nat), flat (renderBlock q s (block3 n t)) = html3 q s t
  | .para ls, s, n => by
    simp only [block3, html3, paraHtml, renderBlock]
    cases s with
    | true => simp only [if_true, flat_prose]
    | false =>
      simp only [Bool.false_eq_true, if_false, flat_append, flat_prose]
      simp [flat, flatEv, flatAttrs]
  | .heading lv t line, s, n => by
    simp only [block3, html3, headHtml]
    simp only [renderBlock, renderInlines, renderInline, flat_cons2, Compose.flat_nil,
      flatEv, flatAttrs, List.append_nil, List.append_assoc, List.cons_append, List.nil_append]
  | .hr line, s, n => by
    simp only [block3, html3, hrHtml, renderBlock]
    decide
  | .quote _ kids, s, n => by
    simp only [block3, html3]
    simp only [renderBlock, flat_append, flat_after3 q kids n]
    generalize htmlAfter3 q kids = x
    have h1 : flat [Ev.otag "blockquote".toList [], nl] = ['<', 'b', 'l', 'o', 'c', 'k', 'q', 'u', 'o', 't', 'e', '>', '\n'] := by
      decide +kernel
    have h2 : flat [Ev.ctag "blockquote".toList] = ['<', '/', 'b', 'l', 'o', 'c', 'k', 'q', 'u', 'o', 't', 'e', '>'] := by
      decide +kernel
    rw [h1, h2, quoteHtml]
  | .list o st mk pad loose items, s, n => by
    simp only [block3, html3]
    rw [flat_list, flat_items3 q o mk pad loose (!loose) items st n]
  | .fence ind d info body close, s, n => by
    simp only [block3, html3, renderBlock]
    exact flat_fence q _ _
  | .setext lv ls ul, s, n => by
    simp only [block3, html3, headHtml]
    simp only [renderBlock, flat_append, flat_prose, flat_cons2, Compose.flat_nil,
      flatEv, flatAttrs, List.append_nil, List.append_assoc, List.cons_append, List.nil_append]
theorem flat_after3 (q : Quotes) : ∀ (ts : List T3) (n : Nat),
    flat (renderAfterEach q false (blocks3 n ts)) = htmlAfter3 q ts
  | [], _ => by simp [blocks3, renderAfterEach, htmlAfter3, flat]
  | t :: rest, n => by
    simp only [blocks3, htmlAfter3]
    simp only [renderAfterEach, flat_append, flat_block3 q t false n, flat_after3 q rest _]
    simp [flat, flatEv, nl]
theorem flat_sep3 (q : Quotes) (s : Bool) : ∀ (ts : List T3) (n : Nat),
    flat (renderSep q s (blocks3 n ts)) = htmlSep3 q s ts
  | [], _ => by simp [blocks3, renderSep, htmlSep3, flat]
  | [t], n => by simp only [blocks3, renderSep, htmlSep3, flat_block3 q t s n]
  | t :: t' :: r, n => by
    have ih := flat_sep3 q s (t' :: r) (n + (write3 t).length + 1)
    simp only [blocks3, htmlSep3] at ih ⊢
    simp only [renderSep, flat_append, flat_block3 q t s n, ih]
    simp [flat, flatEv, nl]
theorem flat_items3 (q : Quotes) (o : Bool) (mk : Char) (pad : Nat) (loose : Bool) (s : Bool) : ∀ (items : List (List T3)) (st n : Nat),
    flat (renderSep q s (itemBlocks3 o mk pad loose st n items)) = htmlItems3 q s items
  | [], _, _ => by simp [itemBlocks3, renderSep, htmlItems3, flat]
  | [it], st, n => by
    simp only [itemBlocks3, renderSep, htmlItems3]
    exact flat_item3 q s it n _ _ _ _ (flat_sep3 q s it n)
  | it :: it' :: r, st, n => by
    have ih := flat_items3 q o mk pad loose s (it' :: r) (st + 1) (n + (writes3 it).length + (sepS loose).length)
    rw [htmlItems_cons2, ← ih]
    simp only [itemBlocks3, renderSep, flat_append]
    rw [flat_item3 q s it n _ _ _ _ (flat_sep3 q s it n)]
    simp [flat, flatEv, nl]
end
theorem html3_ne (q : Quotes) : ∀ (t : T3), html3 q false t ≠ []
  | .para _ => by simp [html3, paraHtml]
  | .heading _ _ _ => by simp [html3, headHtml]
  | .hr _ => by simp [html3, hrHtml]
  | .quote _ _ => by simp only [html3]; exact quoteHtml_ne _
  | .list .. => by simp only [html3]; exact listHtml_ne _ _ _
  | .fence .. => by simp only [html3]; exact fenceHtml_ne _ _ _
  | .setext .. => by simp [html3, headHtml]

/-- **the HTML renderer on the expected document** -/
theorem render_blocks3 (o : Opts) (ts : List T3) (hne : ts ≠ []) (fn : List (Str × Str × Str)) :
    render o { kids := blocks3 1 ts, footnotes := fn } = htmlOf3 o ts := by
  obtain ⟨t, rest, rfl⟩ : ∃ t rest, ts = t :: rest := by
    cases ts with
    | nil => exact absurd rfl hne
    | cons t rest => exact ⟨t, rest, rfl⟩
  have hk : blocks3 1 (t :: rest) = block3 1 t :: blocks3 (1 + (write3 t).length + 1) rest := by simp [blocks3]
  have hnonempty : (flat (renderSep o.q false (blocks3 1 (t :: rest)))).isEmpty = false := by
    rw [hk]
    cases hr : blocks3 (1 + (write3 t).length + 1) rest with
    | nil =>
      simp only [renderSep, flat_block3]
      simpa using html3_ne o.q t
    | cons b bs =>
      simp only [renderSep, flat_append, flat_block3]
      simp [html3_ne o.q t]
  have hd : renderDoc o.q { kids := blocks3 1 (t :: rest), footnotes := fn } =
      renderSep o.q false (blocks3 1 (t :: rest)) ++ [nl] := by
    simp only [renderDoc, hk]
    rw [← hk, hnonempty]
    simp
  rw [render, hd, flat_append]
  have : flat [nl] = ['\n'] := rfl
  rw [this, Compose.flat_sep_afterEach o.q false _ (by rw [hk]; simp), flat_after3]
  rfl

/-! ### From the text as one `str`, and the bundled HTML configuration -/

/-- **`Document(text)`** for the written lines concatenated into one string -/
theorem parse_writes3 (cfg : Document.Cfg) (ti : Bool) (hb : cfg.block = dcfg ti)
    (ht : ∀ t ∈ cfg.span, inertClass t = true) (hc : cfg.span.count .lineBreak = 1)
    (ts : List T3) (h : T3.oks ts = true) (hne : ts ≠ []) (gas : Nat) (hg : needs3 ts ≤ gas) :
    Document.parse cfg gas (writes3 ts).flatten = .ok { kids := blocks3 1 ts, footnotes := [] } := by
  rw [InertInline.parse_lines cfg _ (writes3 ts) (fun l hl => lineOk_oneLine ((writes3_lineOk ts h).1 l hl))]
  exact parseLines_writes3 cfg ti hb ht hc ts h hne gas hg

/-- **end to end**: `HtmlRenderer(**opts).render(Document(text))` on the written text is the HTML written
    directly from the tree -/
theorem renderHtml_writes3 (o : Opts) (ts : List T3) (h : T3.oks ts = true) (hne : ts ≠ []) (gas : Nat) (hg : needs3 ts ≤ gas) :
    Config.renderHtml o gas (writes3 ts).flatten = some (htmlOf3 o ts) := by
  unfold Config.renderHtml
  cases hc : Config.html with
  | none =>
    have := Props.C14.C14_config_current.1
    rw [hc] at this
    cases this
  | some cfg =>
    obtain ⟨hb, ht, hcnt⟩ := Compose.html_config cfg hc
    simp only
    rw [parse_writes3 cfg _ hb ht hcnt ts h hne gas hg]
    simp only
    rw [render_blocks3 o ts hne]


/-! ### C03 with lists, fenced code blocks and setext headings: the statements

  INSIDE the fragment (tree type `T3`, well-formedness `T3.oks`, decidable): everything `Props/C03_Lists.lean` covers
  (paragraphs of inert lines, ATX headings and thematic breaks in any spelling, block quotes with "> " or ">", bullet and
  ordered lists, tight or loose, nested to any depth, lists inside quotes, quotes inside lists) and FENCED CODE BLOCKS at
  top level, inside quotes and inside list items (as the first or a later block of an item), to any depth:
  * fence of three or more backticks or three or more tildes, at indentation 0 … 3;
  * any info string (no line boundary, no tab; no backtick behind a backtick fence; not beginning with the fence
    character), written as it stands - leading and trailing spaces included;
  * any content lines (complete lines, no tab) that do not close the fence - blank lines, lines that look like other blocks
    (`# x`, `- x`, `> x`, `***`), shorter fences, fences of the other character; a content line loses up to as many
    leading spaces as the opening fence is indented (`dedent`);
  * closing line: up to three spaces, the fence character at least as often as in the opening fence, spaces, "\n".
  The block is followed by a "\n" line and the next sibling, whatever that is, or by the end of its container.
  And SETEXT HEADINGS at top level and inside list items (as the first or a later block of an item, at any depth of list
  nesting), but not inside quotes: one or more text lines as for a paragraph, directly followed by the underline - up to
  three spaces, a run of `=` (level 1) or `-` (level 2) of any length ≥ 1, spaces.  `---` (or `-`, or `- `) directly under
  text IS the underline of a level-2 heading, not a thematic break and not a list item.

  OUTSIDE (in addition to what `Props/C03_Lists.lean` lists): tabs; an unclosed fence (it runs to the end of its
  container; inside a list item or a quote the container's own rules then decide where that is); a fence directly
  behind a paragraph or directly followed by a block, without a blank line; inside a list item: a fence at indentation
  1 … 3 as the FIRST block of the item (`itemDocOk`), content lines that consist of spaces only, content lines indented
  less than the item; a content line that `CodeFence.read` takes for a closing line although the specification does not:
  the fence string followed directly by other non-blank characters (see the counterexample in `Proofs/ComposeCode2.lean`); setext headings
  inside block quotes (`Quote.read` switches `Paragraph.parse_setext` off for the quote's content: recorded finding, the
  text lines and the underline come out as one paragraph; see the example in `Proofs/ComposeCode3.lean`). -/

/-- **The block phase parses a written tree back (lists and fenced code blocks included).**  For every well-formed forest
    `ts`, either `tableInterrupt`, every gas ≥ `needs3 ts`: one entry per top-level node - for a fenced block a `CodeFence`
    entry with the dedented content lines, the indentation, the fence, the info string and its first word, for the other
    nodes as in `Props/C03_Lists.lean`, for a setext heading a `SetextHeading` entry with the text lines and the underline -
    every entry reporting the line the writer put it on; no link definition is found. -/
theorem C03_code_block_phase_partial (ti : Bool) (ts : List T3) (h : T3.oks ts = true) (hne : ts ≠ []) (gas : Nat)
    (hg : needs3 ts ≤ gas) :
    blockPhase { types := Props.C14.defaultTypes, tableInterrupt := ti } gas (writes3 ts) =
      .ok ({ entries := entries3 1 ts, loose := decide (1 < ts.length) }, {}) :=
  blockPhase_writes3 ti ts h hne gas hg

/-- the same at an arbitrary place: lines numbered from `k + 1`, with or without a final "\n" line, in any state in which
    `Paragraph.parse_setext` is on if the forest has a setext heading -/
theorem C03_code_tokenize_partial (ti : Bool) (ts : List T3) (h : T3.oks ts = true) (hne : ts ≠ []) (tail : Bool) (k : Nat) (st : St)
    (gas : Nat) (hg : needs3 ts ≤ gas) (hs : hasSxs ts = true → st.setext = true) :
    tokenizeBlock { types := Props.C14.defaultTypes, tableInterrupt := ti } gas (numbered k (writes3 ts ++ sepS tail)) (k + 1) st =
      .ok ({ entries := entries3 (k + 1) ts, loose := decide (1 < ts.length) || tail },
           { setext := st.setext || touches3 ts, defs := st.defs }) :=
  nodes_claim ti ts h hne tail k st gas hg hs

/-- **`Document(lines)` is the tree.**  The document's children are the expected block tokens (`blocks3`): as in
    `Props/C03_Lists.lean`, and a `CodeFence` token per fenced block with `language` = the first word of the info string
    (escapes and character references resolved), the indentation, the fence, the info string, `content` = the dedented
    content lines joined; a `SetextHeading` token per setext heading with its level, the underline without its trailing
    whitespace, and the text lines as inline content - each with the line number the writer put it on; no footnotes. -/
theorem C03_code_document_partial (cfg : Document.Cfg) (ti : Bool)
    (hb : cfg.block = { types := Props.C14.defaultTypes, tableInterrupt := ti })
    (ht : ∀ t ∈ cfg.span, inertClass t = true) (hc : cfg.span.count .lineBreak = 1)
    (ts : List T3) (h : T3.oks ts = true) (hne : ts ≠ []) (gas : Nat) (hg : needs3 ts ≤ gas) :
    Document.parseLines cfg gas (writes3 ts) = .ok { kids := blocks3 1 ts, footnotes := [] } ∧
    Document.parse cfg gas (writes3 ts).flatten = .ok { kids := blocks3 1 ts, footnotes := [] } :=
  ⟨parseLines_writes3 cfg ti hb ht hc ts h hne gas hg, parse_writes3 cfg ti hb ht hc ts h hne gas hg⟩

/-- **The HTML of the expected document is the HTML written directly from the tree**, for every quote option. -/
theorem C03_code_render_partial (o : Opts) (ts : List T3) (hne : ts ≠ []) (fn : List (Str × Str × Str)) :
    render o { kids := blocks3 1 ts, footnotes := fn } = htmlOf3 o ts :=
  render_blocks3 o ts hne fn

/-- **End to end.**  `HtmlRenderer(**opts).render(Document(text))`, with the token lists the HTML renderer installs in the
    working tree, on the text written out from a well-formed forest, returns the HTML written directly from the forest
    (`htmlOf3`): a fenced block is `<pre><code class="language-…">` (no `class` without a language), the escaped content,
    `</code></pre>`; a setext heading is `<h1>` / `<h2>`, the escaped text lines joined by newlines, `</h1>` / `</h2>`;
    everything else as in `Props/C03_Lists.lean`. -/
theorem C03_code_html_partial (o : Opts) (ts : List T3) (h : T3.oks ts = true) (hne : ts ≠ []) (gas : Nat) (hg : needs3 ts ≤ gas) :
    Config.renderHtml o gas (writes3 ts).flatten = some (htmlOf3 o ts) :=
  renderHtml_writes3 o ts h hne gas hg

end Mistletoe.ComposeC
