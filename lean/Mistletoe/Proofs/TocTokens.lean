/-
  C19, the last step of `TocRenderer.toc`: `block_token.tokenize(lines)` is the block phase FOLLOWED BY
  `make_tokens` (the token constructors, which start the inline phase on each title), and `toc` returns `items[0]`.
  Proofs/TocEndToEnd.lean stops at the parse buffer (`blockPhase … = [.list (expItems 0 1 forest) 1 1]`).  Here:

  * `tocItem` / `tocItems` / `expectedTocList` : the `List` token expected for a forest of titles - not loose, no
    `start`, one `ListItem` per node (leader `-`, indentation / prepend / line number as `expItems` says), each holding
    `Paragraph [RawText title]` and - iff the node has children - one nested `List`;
  * `mkItems_expItems_gen`, `mkBlocks_expItems_gen` : `make_tokens` on the buffer `expItems` gives that token, for ANY
    predicate `p` on titles under which the `Paragraph` constructor on the line `title ++ "\n"` gives `[RawText title]`;
  * two instances: `titleInert` (`inertBody5`, the widest inert condition with a `tokenizeInner` lemma; needs the empty
    table of link definitions - which is what `toc` has: `token._root_node` is `None` when `toc` is read) and
    `titleInertFn` (`inertText`, narrower, any table `fn`): `mkBlocks_expItems`, `mkBlocks_expItems_fn`;
  * `tocToken` : the model of the `toc` property (block phase, `make_tokens`, `items[0]`);
  * `C19_document_toc_tokens` (`Document.parseLines`), `C19_document_toc_token` (`tocToken`, any `fn` under
    `titleInertFn`; `fn = []` under `titleInert`) : composition with `C19_document_toc`;
  * non-vacuity on `sampleText` of TocEndToEnd.lean; a title with Markdown syntax (`a *b* c`) is outside the hypothesis
    and IS re-parsed as markup (kernel-evaluated; /repo does the same).

  /repo, for the sample (`with TocRenderer(depth=3) as r: r.render(Document(sampleText)); get_ast(r.toc)`):
    List(line 1, loose False, start None)[ ListItem(1, '-', ind 0, prepend 2)[Paragraph(1)[RawText 'Intro em and code'],
      List(2)[ListItem(2, '-', ind 2, prepend 4)[Paragraph(2)[RawText 'Quoted']]]],
      ListItem(3, '-', 0, 2)[Paragraph(3)[RawText 'Usage'], List(4)[ListItem(4, '-', 2, 4)[Paragraph(4)[RawText 'Item']]]] ]
  = `sampleTocToken` below.
-/
import Mistletoe.Proofs.TocEndToEnd
import Mistletoe.Proofs.InertInline5
namespace Mistletoe.Props.C19
open Mistletoe Mistletoe.Py Mistletoe.Html Mistletoe.Escape Mistletoe.Block
open Mistletoe.Toc (collectL)
open Mistletoe.Document (mkBlock mkBlocks mkItems)

/-! ## 1. The expected token -/

mutual
/-- the `ListItem` of a heading found on line `n` at indentation `ind` -/
def tocItem (ind n : Nat) : O → Mistletoe.Block
  | .node t kids =>
    .listItem ['-'] ind (ind + 2) false
      (.paragraph [.rawText t] n ::
        (if kids.isEmpty then [] else [.list false none (tocItems 2 (n + 1) kids) (n + 1)])) n
def tocItems (ind n : Nat) : List O → List Mistletoe.Block
  | [] => []
  | o :: os => tocItem ind n o :: tocItems ind (n + sizeO o) os
end

/-- **the token `toc` is expected to return** for the outline `f` -/
def expectedTocList (f : List O) : Mistletoe.Block := .list false none (tocItems 0 1 f) 1

mutual
/-- every title of the outline satisfies `p` -/
def allO (p : Str → Bool) : O → Bool
  | .node t kids => p t && allOs p kids
def allOs (p : Str → Bool) : List O → Bool
  | [] => true
  | o :: os => allO p o && allOs p os
end

mutual
theorem allO_of_flatten (p : Str → Bool) (lv : Nat) : ∀ (o : O), (∀ h ∈ flattenO lv o, p h.2 = true) → allO p o = true
  | .node t kids => by
    intro h
    simp only [flattenO, List.mem_cons] at h
    simp only [allO, Bool.and_eq_true]
    exact ⟨h (lv, t) (Or.inl rfl), allOs_of_flatten p (lv + 1) kids (fun x hx => h x (Or.inr hx))⟩
theorem allOs_of_flatten (p : Str → Bool) (lv : Nat) : ∀ (os : List O), (∀ h ∈ flatten lv os, p h.2 = true) → allOs p os = true
  | [] => fun _ => rfl
  | o :: os => by
    intro h
    simp only [flatten, List.mem_append] at h
    simp only [allOs, Bool.and_eq_true]
    exact ⟨allO_of_flatten p lv o (fun x hx => h x (Or.inl hx)), allOs_of_flatten p lv os (fun x hx => h x (Or.inr hx))⟩
end

theorem tocItems_notLoose (f : Mistletoe.Block → Bool)
    (hf : ∀ ld i p k n, f (.listItem ld i p false k n) = false) :
    ∀ (os : List O) (ind n : Nat), (tocItems ind n os).any f = false
  | [], _, _ => rfl
  | .node t kids :: os, ind, n => by
    simp only [tocItems, tocItem, List.any_cons, hf, Bool.false_or]
    exact tocItems_notLoose f hf os ind _

/-! ## 2. `make_tokens` on the buffer, for any title condition under which the `Paragraph` constructor is known -/

section Gen
variable (cfg : Document.Cfg) (fn : Footnotes.Table) (p : Str → Bool)

/-- `List(matches)` on the items of a non-empty forest, given the items -/
theorem mkBlock_list_exp (o : O) (os : List O) (ind n ln og : Nat)
    (h : mkItems cfg fn (expItems ind n (o :: os)) = .ok (tocItems ind n (o :: os))) :
    mkBlock cfg fn (.list (expItems ind n (o :: os)) ln og) = .ok (some (.list false none (tocItems ind n (o :: os)) ln)) := by
  cases o with
  | node t kids =>
    simp only [mkBlock, h]
    simp only [expItems, expItem]
    rw [tocItems_notLoose _ (by intros; rfl)]
    simp

variable (hp : ∀ t, p t = true → ∀ n og,
  mkBlock cfg fn (.paragraph [t ++ ['\n']] n og) = .ok (some (.paragraph [.rawText t] n)))
include hp

set_option linter.unusedSectionVars false in
mutual
theorem mkItems_expItem_gen : ∀ (o : O), allO p o = true → ∀ (ind n : Nat) (rest : List Item) (more : List Mistletoe.Block),
    mkItems cfg fn rest = .ok more → mkItems cfg fn (expItem ind n o :: rest) = .ok (tocItem ind n o :: more)
  | .node t kids, h, ind, n, rest, more, hr => by
    simp only [allO, Bool.and_eq_true] at h
    have hk := mkItems_expItems_gen kids h.2 2 (n + 1)
    cases kids with
    | nil =>
      simp only [expItem, tocItem, List.isEmpty_nil, if_true, mkItems, mkBlocks, hp t h.1 n n, hr]
    | cons k ks =>
      have hlist := mkBlock_list_exp cfg fn k ks 2 (n + 1) (n + 1) (n + 1) hk
      simp only [expItem, tocItem, List.isEmpty_cons, Bool.false_eq_true, if_false, mkItems, mkBlocks, hp t h.1 n n,
        hlist, hr]
theorem mkItems_expItems_gen : ∀ (os : List O), allOs p os = true → ∀ (ind n : Nat),
    mkItems cfg fn (expItems ind n os) = .ok (tocItems ind n os)
  | [], _, _, _ => by simp [expItems, tocItems, mkItems]
  | o :: os, h, ind, n => by
    simp only [allOs, Bool.and_eq_true] at h
    simp only [expItems, tocItems]
    exact mkItems_expItem_gen o h.1 ind n _ _ (mkItems_expItems_gen os h.2 ind _)
end

/-- `make_tokens` on the one-entry buffer of `C19_toc_nested` -/
theorem mkBlocks_expItems_gen (f : List O) (hne : f ≠ []) (h : allOs p f = true) :
    mkBlocks cfg fn [.list (expItems 0 1 f) 1 1] = .ok [expectedTocList f] := by
  cases f with
  | nil => exact absurd rfl hne
  | cons o os =>
    have hl := mkBlock_list_exp cfg fn o os 0 1 1 1 (mkItems_expItems_gen cfg fn p hp (o :: os) h 0 1)
    simp only [mkBlocks, hl, expectedTocList]

end Gen

/-! ## 3. The two inert conditions on a title -/

/-- neither the first nor the last character is white space (so the text is not empty and `strip` leaves it alone) -/
def trimmed (t : Str) : Bool :=
  match t.head?, t.getLast? with
  | some a, some b => !pyIsSpace a && !pyIsSpace b
  | _, _ => false

theorem lstrip_append_nonblank' : ∀ (s t : Str), isBlank s = false → lstrip (s ++ t) = lstrip s ++ t
  | [], _, h => by simp [isBlank] at h
  | c :: s, t, h => by
    simp only [List.cons_append, lstrip]
    split
    · rename_i hc
      apply lstrip_append_nonblank' s t
      simp only [isBlank, List.all_cons, hc, Bool.true_and] at h
      exact h
    · rfl

theorem strip_snoc_nl' (s : Str) (hb : isBlank s = false) : strip (s ++ ['\n']) = strip s := by
  unfold strip rstrip
  rw [lstrip_append_nonblank' s _ hb]
  simp only [List.reverse_append, List.reverse_cons, List.reverse_nil, List.nil_append, List.cons_append, lstrip]
  have : pyIsSpace '\n' = true := by decide
  simp [this]

/-- what `trimmed` means: not empty, not blank, `strip` is the identity -/
theorem trimmed_facts (t : Str) (h : trimmed t = true) : t ≠ [] ∧ isBlank t = false ∧ strip t = t := by
  cases t with
  | nil => simp [trimmed] at h
  | cons c r =>
    unfold trimmed at h
    simp only [List.head?_cons] at h
    cases hl : (c :: r).getLast? with
    | none => simp [hl] at h
    | some b =>
      simp only [hl, Bool.and_eq_true, Bool.not_eq_true'] at h
      refine ⟨by simp, by simp [isBlank, h.1], ?_⟩
      unfold strip
      rw [InertInline.lstrip_of_head c r h.1]
      apply InertInline.rstrip_of_last
      intro d hd
      rw [hl] at hd
      cases hd
      exact h.2

/-- the paragraph content of the one line `t ++ "\n"` is `t` -/
theorem para_content_title (t : Str) (h : trimmed t = true) : strip ([t ++ ['\n']].map lstrip).flatten = t := by
  obtain ⟨_, hb, hs⟩ := trimmed_facts t h
  rw [InertInline.paragraph_content_one, strip_snoc_nl' t hb, hs]

/-- **inert title** (widest condition, `inertBody5` of Props/C14_Wide.lean): one line, no white space at either end,
    and: no backslash that escapes, no backquote, `<` not before a tag / autolink, no `&` that `html.unescape` changes,
    no `~~`, no `]` after `[` followed by `(` or `[`, no `*` / `_` run that can open followed by one that can close -/
def titleInert (t : Str) : Bool := InertInline5.inertBody5 t && trimmed t && !t.contains '\n'

/-- **inert title, any table of link definitions** (`inertText` of Props/C14.lean: no `]` after the first `[`, …) -/
def titleInertFn (t : Str) : Bool := InertInline.inertText t && trimmed t

theorem mkBlock_title (cfg : Document.Cfg) (hs : ∀ t ∈ cfg.span, InertInline.inertClass t = true) (t : Str)
    (h : titleInert t = true) (n og : Nat) :
    mkBlock cfg [] (.paragraph [t ++ ['\n']] n og) = .ok (some (.paragraph [.rawText t] n)) := by
  simp only [titleInert, Bool.and_eq_true, Bool.not_eq_true'] at h
  obtain ⟨⟨h5, htr⟩, hnl⟩ := h
  have hne := (trimmed_facts t htr).1
  have hnl' : '\n' ∉ t := by
    intro hm
    have : t.contains '\n' = true := by simpa using hm
    rw [this] at hnl; cases hnl
  have hin : Document.inl cfg [] t = .ok [.rawText t] :=
    (InertInline5.inline_inert5 cfg.span t hs h5 hnl').2.2 hne
  simp only [mkBlock, para_content_title t htr, hin]

theorem mkBlock_title_fn (cfg : Document.Cfg) (fn : Footnotes.Table)
    (hs : ∀ t ∈ cfg.span, InertInline.inertClass t = true) (t : Str)
    (h : titleInertFn t = true) (n og : Nat) :
    mkBlock cfg fn (.paragraph [t ++ ['\n']] n og) = .ok (some (.paragraph [.rawText t] n)) := by
  simp only [titleInertFn, Bool.and_eq_true] at h
  have hne := (trimmed_facts t h.2).1
  have hin : Document.inl cfg fn t = .ok [.rawText t] := InertInline.tokenizeInner_inert cfg.span fn t hs h.1 hne
  simp only [mkBlock, para_content_title t h.2, hin]

/-- **`make_tokens` on the toc buffer, inert titles**: under a span token list of covered classes (no `Math`,
    `GithubWiki`, XWiki macro), for a non-empty forest whose titles are inert, the token constructors - `List`,
    `ListItem`, `Paragraph` with the inline phase on each title - return exactly `expectedTocList f`. -/
theorem mkBlocks_expItems (cfg : Document.Cfg) (hs : ∀ t ∈ cfg.span, InertInline.inertClass t = true)
    (f : List O) (hne : f ≠ []) (titlesInert : allOs titleInert f = true) :
    mkBlocks cfg [] [.list (expItems 0 1 f) 1 1] = .ok [expectedTocList f] :=
  mkBlocks_expItems_gen cfg [] titleInert (fun t ht n og => mkBlock_title cfg hs t ht n og) f hne titlesInert

/-- … for any table of link definitions `fn`, under the narrower `titleInertFn` -/
theorem mkBlocks_expItems_fn (cfg : Document.Cfg) (fn : Footnotes.Table)
    (hs : ∀ t ∈ cfg.span, InertInline.inertClass t = true)
    (f : List O) (hne : f ≠ []) (titlesInert : allOs titleInertFn f = true) :
    mkBlocks cfg fn [.list (expItems 0 1 f) 1 1] = .ok [expectedTocList f] :=
  mkBlocks_expItems_gen cfg fn titleInertFn (fun t ht n og => mkBlock_title_fn cfg fn hs t ht n og) f hne titlesInert

/-! ## 4. The `toc` property and the composition with `C19_document_toc` -/

/-- **`TocRenderer.toc`** on the collected `_headings` `hs`: `items = block_token.tokenize(lines)` (block phase under
    the block token list in force, then `make_tokens` under the span token list in force and the table `fn` of link
    definitions of `token._root_node` - `None` once `Document.__init__` has returned, modelled by `fn = []`), then
    `items[0]` (`IndexError` when nothing was collected). -/
def tocToken (dcfg : Document.Cfg) (fn : Footnotes.Table) (gas : Nat) (hs : List (Nat × Str)) : Res Mistletoe.Block :=
  match blockPhase dcfg.block gas (Toc.tocLines hs) with
  | .err e => .err e
  | .ok (buf, _) =>
    match mkBlocks dcfg fn buf.entries with
    | .err e => .err e
    | .ok [] => .err .index
    | .ok (b :: _) => .ok b

/-- hypothesis on the expected titles (decidable) -/
def titlesInert (hs : List (Nat × Str)) : Bool := hs.all (fun h => titleInert h.2)
def titlesInertFn (hs : List (Nat × Str)) : Bool := hs.all (fun h => titleInertFn h.2)

theorem forest_facts (p : Str → Bool) (hs : List (Nat × Str)) (lv : Nat) (h1 : hs.head?.map (·.1) = some lv)
    (h2 : flatten lv (toForest hs) = hs) (hall : hs.all (fun h => p h.2) = true) :
    toForest hs ≠ [] ∧ allOs p (toForest hs) = true := by
  constructor
  · intro e
    rw [e] at h2
    simp only [flatten] at h2
    rw [← h2] at h1
    cases h1
  · apply allOs_of_flatten p lv
    rw [h2]
    intro h hm
    exact List.all_eq_true.mp hall h hm

/-- **C19, the token tree `toc` returns**.  Under the hypotheses of `C19_document_toc` (plain heading children, the
    qualifying headings form an outline with plain-word titles) plus: every expected title is inert inline text
    (`titlesInert`) and the span token list holds covered classes only - `Document(lines)` on the list lines `toc`
    builds has exactly one child, the `List` `expectedTocList (toForest (expectedHs tcfg d))`: one `ListItem` per
    qualifying heading in document order, each holding `Paragraph [RawText title]` and, iff deeper headings follow,
    one nested `List`. -/
theorem C19_document_toc_tokens (q : Quotes) (tcfg : Toc.Cfg) (d : Doc) (hp : plainHeadings q d = true)
    (ho : isOutline (expectedHs tcfg d) = true) (ht : titlesPlain (expectedHs tcfg d) = true)
    (hi : titlesInert (expectedHs tcfg d) = true)
    (cfg : Document.Cfg) (tpre tpost : List BTok) (hc : ListCfg cfg.block tpre tpost)
    (hs : ∀ t ∈ cfg.span, InertInline.inertClass t = true)
    (gas : Nat) (hg : (cfg.block.types.length + 5) * (expectedHs tcfg d).length + cfg.block.types.length + 4 ≤ gas) :
    Document.parseLines cfg gas (Toc.tocLines (collectL q tcfg d.kids)) =
      .ok { kids := [expectedTocList (toForest (expectedHs tcfg d))], footnotes := [] } := by
  obtain ⟨hb, lv, h1, h2⟩ := C19_document_toc q tcfg d hp ho ht cfg.block tpre tpost hc gas hg
  obtain ⟨hne, hall⟩ := forest_facts titleInert _ lv h1 h2 hi
  unfold Document.parseLines
  rw [hb]
  have hfn : Document.footnotesOf ({} : St).defs = [] := rfl
  simp only [hfn, mkBlocks_expItems cfg hs _ hne hall]

/-- **… as the value of the `toc` property**: `tocToken` with `fn = []` (what `toc` has: `_root_node` is `None`)
    under `titlesInert`, and with any table `fn` under the narrower `titlesInertFn`. -/
theorem C19_document_toc_token (q : Quotes) (tcfg : Toc.Cfg) (d : Doc) (hp : plainHeadings q d = true)
    (ho : isOutline (expectedHs tcfg d) = true) (ht : titlesPlain (expectedHs tcfg d) = true)
    (cfg : Document.Cfg) (tpre tpost : List BTok) (hc : ListCfg cfg.block tpre tpost)
    (hs : ∀ t ∈ cfg.span, InertInline.inertClass t = true)
    (gas : Nat) (hg : (cfg.block.types.length + 5) * (expectedHs tcfg d).length + cfg.block.types.length + 4 ≤ gas) :
    (titlesInert (expectedHs tcfg d) = true →
      tocToken cfg [] gas (collectL q tcfg d.kids) = .ok (expectedTocList (toForest (expectedHs tcfg d))))
    ∧ (titlesInertFn (expectedHs tcfg d) = true → ∀ fn,
      tocToken cfg fn gas (collectL q tcfg d.kids) = .ok (expectedTocList (toForest (expectedHs tcfg d)))) := by
  obtain ⟨hb, lv, h1, h2⟩ := C19_document_toc q tcfg d hp ho ht cfg.block tpre tpost hc gas hg
  constructor
  · intro hi
    obtain ⟨hne, hall⟩ := forest_facts titleInert _ lv h1 h2 hi
    unfold tocToken
    rw [hb]
    simp only [mkBlocks_expItems cfg hs _ hne hall]
  · intro hi fn
    obtain ⟨hne, hall⟩ := forest_facts titleInertFn _ lv h1 h2 hi
    unfold tocToken
    rw [hb]
    simp only [mkBlocks_expItems_fn cfg fn hs _ hne hall]

/-! ## 5. Non-vacuity: the sample of TocEndToEnd.lean -/

/-- what /repo returns for `get_ast(r.toc)` on `sampleText` (header of this file) -/
def sampleTocToken : Mistletoe.Block :=
  .list false none [
    .listItem ['-'] 0 2 false [.paragraph [.rawText "Intro em and code".toList] 1,
      .list false none [.listItem ['-'] 2 4 false [.paragraph [.rawText "Quoted".toList] 2] 2] 2] 1,
    .listItem ['-'] 0 2 false [.paragraph [.rawText "Usage".toList] 3,
      .list false none [.listItem ['-'] 2 4 false [.paragraph [.rawText "Item".toList] 4] 4] 4] 3] 1

theorem sample_inert : titlesInert (expectedHs sampleTocCfg sampleDoc) = true := by
  rw [sample_expected]; decide +kernel
theorem sample_inert_fn : titlesInertFn (expectedHs sampleTocCfg sampleDoc) = true := by
  rw [sample_expected]; decide +kernel

/-- the expected token of the sample is the literal tree /repo returns -/
theorem sample_expected_token : expectedTocList (toForest (expectedHs sampleTocCfg sampleDoc)) = sampleTocToken := by
  rw [sample_expected]; rfl

theorem tocCfg_listCfg : ListCfg tocCfg.block [.htmlBlock, .blockCode, .heading, .quote, .codeFence, .thematicBreak]
    [.table, .footnote, .paragraph] := by
  obtain ⟨_, ⟨c2, e2, l2⟩, _⟩ := C19_toc_config_current
  obtain rfl : c2 = tocCfg := Option.some.inj (e2.symm.trans tocCfg_current)
  exact l2

theorem afterCfg_listCfg : ListCfg afterCfg.block [.blockCode, .heading, .quote, .codeFence, .thematicBreak]
    [.table, .footnote, .paragraph] := by
  obtain ⟨_, _, ⟨c3, e3, l3⟩, _⟩ := C19_toc_config_current
  obtain rfl : c3 = afterCfg := Option.some.inj (e3.symm.trans afterCfg_current)
  exact l3

theorem tocCfg_span : ∀ t ∈ tocCfg.span, InertInline.inertClass t = true := by decide
theorem afterCfg_span : ∀ t ∈ afterCfg.span, InertInline.inertClass t = true := by decide

/-- **`C19_document_toc_tokens` applied** to the sample document: `Document(lines)` on the list lines, under the
    TocRenderer's token lists and under those in force after the `with` block, is the literal tree of /repo -/
example :
    Document.parseLines tocCfg 74 (Toc.tocLines (collectL sampleQ sampleTocCfg sampleDoc.kids)) =
      .ok { kids := [sampleTocToken], footnotes := [] }
    ∧ Document.parseLines afterCfg 69 (Toc.tocLines (collectL sampleQ sampleTocCfg sampleDoc.kids)) =
      .ok { kids := [sampleTocToken], footnotes := [] } := by
  rw [← sample_expected_token]
  exact ⟨C19_document_toc_tokens sampleQ sampleTocCfg sampleDoc sample_plain sample_outline sample_titles sample_inert
      tocCfg _ _ tocCfg_listCfg tocCfg_span 74 (by rw [sample_expected]; decide),
    C19_document_toc_tokens sampleQ sampleTocCfg sampleDoc sample_plain sample_outline sample_titles sample_inert
      afterCfg _ _ afterCfg_listCfg afterCfg_span 69 (by rw [sample_expected]; decide)⟩

/-- **`C19_document_toc_token` applied**: the value of `toc` (with `_root_node = None`, and with any table) -/
example :
    tocToken tocCfg [] 74 (collectL sampleQ sampleTocCfg sampleDoc.kids) = .ok sampleTocToken
    ∧ ∀ fn, tocToken afterCfg fn 69 (collectL sampleQ sampleTocCfg sampleDoc.kids) = .ok sampleTocToken := by
  rw [← sample_expected_token]
  exact ⟨(C19_document_toc_token sampleQ sampleTocCfg sampleDoc sample_plain sample_outline sample_titles
      tocCfg _ _ tocCfg_listCfg tocCfg_span 74 (by rw [sample_expected]; decide)).1 sample_inert,
    (C19_document_toc_token sampleQ sampleTocCfg sampleDoc sample_plain sample_outline sample_titles
      afterCfg _ _ afterCfg_listCfg afterCfg_span 69 (by rw [sample_expected]; decide)).2 sample_inert_fn⟩

def sameTok : Res Mistletoe.Block → Mistletoe.Block → Bool
  | .ok b, c => sameBlock b c
  | .err _, _ => false

/-- `toc` from a text: parse under `pcfg`, collect while rendering, then `tocToken` under `acfg` -/
def tocTokenOfText (q : Quotes) (tcfg : Toc.Cfg) (pcfg acfg : Document.Cfg) (gasP gasT : Nat) (t : Str) : Res Mistletoe.Block :=
  match Document.parse pcfg gasP t with
  | .err e => .err e
  | .ok d => tocToken acfg [] gasT (collectL q tcfg d.kids)

/-- **the whole pipeline evaluated in the kernel, independently of the theorems**: text → `Document` → `_headings` →
    list lines → block phase → `make_tokens` (inline phase on every title) → `items[0]`, inside the `with` block and
    after it, is the tree /repo returns for `get_ast(r.toc)` -/
example : sameTok (tocTokenOfText sampleQ sampleTocCfg tocCfg tocCfg 100 74 sampleText) sampleTocToken = true
    ∧ sameTok (tocTokenOfText sampleQ sampleTocCfg tocCfg afterCfg 100 69 sampleText) sampleTocToken = true := by
  decide +kernel

/-- … and the evaluation tells trees apart: the flat list of four items is not what comes out -/
example : sameTok (tocTokenOfText sampleQ sampleTocCfg tocCfg tocCfg 100 74 sampleText)
    (expectedTocList (sampleHs.map (fun h => O.node h.2 []))) = false := by decide +kernel

/-! ### What the inert hypothesis excludes

  `## a \*b\* c` has the plain text `a *b* c` (the escapes are rendered as their characters; `plainHeadings`,
  `isOutline`, `titlesPlain` all hold), and `toc` tokenizes that text AGAIN: the entry is `a`, EMPHASIS `b`, ` c` - not
  the heading's plain text.  `titlesInert` is false for it.  /repo: `get_ast(r.toc)` after rendering
  `Document("# T\n\n## a \\*b\\* c\n")` has `_headings == [(2, 'a *b* c')]` and the Paragraph children
  `RawText 'a '`, `Emphasis[RawText 'b']`, `RawText ' c'` - the same.

  Also outside (and excluded by `inertBody5`: no `]` directly before `[`): a title with a full reference link shape,
  `## a [b][c] d` (no definition, so it stays text in the heading): on /repo `r.toc` RAISES
  `AttributeError: 'NoneType' object has no attribute 'footnotes'` (`match_link_label` reads `root.footnotes` and
  `token._root_node` is `None` outside `Document.__init__`); the model, which has a table and no `None`, returns text. -/

def markupText : Str := "# T\n\n## a \\*b\\* c\n".toList

example :
    (match Document.parse tocCfg 100 markupText with
     | .ok d => collectL sampleQ sampleTocCfg d.kids == [(2, "a *b* c".toList)]
         && plainHeadings sampleQ d && isOutline (expectedHs sampleTocCfg d) && titlesPlain (expectedHs sampleTocCfg d)
         && !titlesInert (expectedHs sampleTocCfg d)
     | .err _ => false) = true
    ∧ sameTok (tocTokenOfText sampleQ sampleTocCfg tocCfg tocCfg 100 74 markupText)
        (.list false none [.listItem ['-'] 0 2 false [.paragraph
          [.rawText "a ".toList, .emphasis "*".toList [.rawText "b".toList], .rawText " c".toList] 1] 1] 1) = true
    ∧ sameTok (tocTokenOfText sampleQ sampleTocCfg tocCfg tocCfg 100 74 markupText)
        (expectedTocList [.node "a *b* c".toList []]) = false := by
  decide +kernel

/-- the conditions on a title: the sample titles are inert under both; brackets without a link shape only under the
    wider one; markup, surrounding blanks and the reference shape under neither -/
example : titleInert "Intro em and code".toList = true ∧ titleInertFn "Intro em and code".toList = true
    ∧ titleInert "a [b] c".toList = true ∧ titleInertFn "a [b] c".toList = false
    ∧ titleInert "a *b* c".toList = false ∧ titleInert "a ".toList = false ∧ titleInert "a [b][c] d".toList = false
    ∧ titleInert "2 * 3 < 7 & more".toList = true := by
  decide +kernel

end Mistletoe.Props.C19

section Audit
open Mistletoe.Props.C19
#print axioms mkBlocks_expItems_gen
#print axioms mkBlocks_expItems
#print axioms mkBlocks_expItems_fn
#print axioms C19_document_toc_tokens
#print axioms C19_document_toc_token
end Audit
