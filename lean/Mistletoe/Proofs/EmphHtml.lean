/-
  C06, output level: the `<em>` / `<strong>` STRUCTURE OF THE OUTPUT is the specification's.

  Props/C06.lean (`C06_emphasis_is_spec_partial`, `C06_emphasis_is_spec_esc_partial`) says that the MATCHES
  `find_core_tokens` returns are, one for one, the emphasis nodes of the CommonMark 0.30 delimiter algorithm
  (`Spec/Emphasis.lean`, `Spec/EmphasisEsc.lean`).  This file proves the remaining step, from the matches to the output
  string:

    A. the span resolver (`Span.tokenize`: `find_tokens` ordering, `eval_tokens`, `eval_new_child`, `append_child`) on a
       LAMINAR family of candidates - pairwise disjoint, or one inside the parse group of the other - drops nothing: the
       forest it hands to `make_tokens` holds every candidate (`resolve_nodes`); with the tiling theorems of
       Proofs/Span.lean this determines the forest;
    B. SPECIFICATION of the HTML of an inline text from its spans, position by position (`Spec.EmphasisHtml.specHtmlQ`,
       `specHtml`; with backslash escapes `specHtmlEscQ`, `specHtmlEsc`): independent of the model of the resolver, the
       token builder and the renderer;
    C. `make_tokens`, the token constructors (`Inline.build`) and `HtmlRenderer.render_inner` (`Html.renderInlines`) on such
       a forest produce exactly that string (`render_make` / `render_rev` / `render_before`, by induction over the forest:
       arbitrary nesting; the nodes are `Emphasis` / `Strong` tokens and `EscapeSequence` leaves);
    D. the candidates of a text of the C06 alphabet without backslash are its emphasis matches and nothing else;
    E. - G. with backslashes: no delimiter character of a specification node is escaped (`emphasisEsc_unescaped`, an
       invariant of *process emphasis*); `EscapeSequence.find` returns exactly the escaping backslashes of the specification
       (`escPos_marks`, `findIter_escape`); emphasis matches and escape sequences together form a laminar family;
    H. - J. the theorems: `emph_html_is_spec`, `emph_html_is_spec_esc` (inline level: every covered token list, every
       definitions table, every quote option), `C06_paragraph_html_is_spec_partial`,
       `C06_paragraph_html_is_spec_esc_partial` (`Document` + `HtmlRenderer` on a one-line paragraph).

  Stage reached: (c) arbitrary nesting, without and with backslash escapes.  Added hypotheses (both inside `plain`): no
  newline, no `~~` (see the examples at the end).
-/
import Mistletoe.Props.C06
import Mistletoe.Props.C14
import Mistletoe.Proofs.RefResolve
namespace Mistletoe.EmphHtml
open Mistletoe Mistletoe.Span

/-! ## A. The span resolver on a laminar family of candidates -/

mutual
/-- the candidates in a `ParseToken` tree -/
def nodes : PTok → List Cand
  | .mk c kids => c :: nodesL kids
def nodesL : List PTok → List Cand
  | [] => []
  | t :: ts => nodes t ++ nodesL ts
end

/-- `c` is in the forest, `y` arrives later: `c` ends before `y` starts, or `c` parses its inner text and `y` lies in
    `c`'s parse group -/
def Fits (c y : Cand) : Prop :=
  c.pend ≤ c.stop ∧ (c.stop ≤ y.start ∨ (c.inner = true ∧ c.pstart ≤ y.start ∧ y.stop ≤ c.pend))

theorem relation_of_fits {c y : Cand} (h : Fits c y) :
    relation c y = 0 ∨ (c.inner = true ∧ relation c y = 2) := by
  obtain ⟨h1, h2⟩ := h
  unfold relation
  rcases h2 with h2 | ⟨hi, h3, h4⟩
  · left; simp [h2]
  · by_cases h0 : c.stop ≤ y.start
    · left; simp [h0]
    · right
      refine ⟨hi, ?_⟩
      have h5 : c.stop ≥ y.stop := by omega
      simp [h0, h5, h3, h4]

theorem insert_nodes :
    (∀ (p child : PTok), (∀ c ∈ nodes p, Fits c child.c) → p.c.inner = true →
        ∀ x, x ∈ nodes (appendChild p child) ↔ x ∈ nodes child ∨ x ∈ nodes p) ∧
    (∀ (kids : List PTok) (child : PTok), (∀ c ∈ nodesL kids, Fits c child.c) →
        ∀ x, x ∈ nodesL (evalNewChild kids child) ↔ x ∈ nodes child ∨ x ∈ nodesL kids) := by
  apply appendChild.mutual_induct
  · intro c kids child hin ih hf _ x
    simp only [appendChild, hin, if_true, nodes, List.mem_cons]
    rw [ih (fun c' hc' => hf c' (by simp [nodes, hc'])) x]
    constructor
    · rintro (h | h | h) <;> simp [h]
    · rintro (h | h | h) <;> simp [h]
  · intro c kids child hin _ hi
    exact absurd hi hin
  · intro child _ x
    simp [evalNewChild, nodesL]
  · intro last rest child hr _ x
    simp only [evalNewChild, hr, nodesL, List.mem_append]
  · intro last rest child hr _ hf
    have := relation_of_fits (hf last.c (by cases last; simp [nodesL, nodes, PTok.c]))
    rcases this with h | ⟨_, h⟩ <;> omega
  · intro last rest child hr _ hf
    have := relation_of_fits (hf last.c (by cases last; simp [nodesL, nodes, PTok.c]))
    rcases this with h | ⟨_, h⟩ <;> omega
  · intro last rest child hr ih hf x
    have hl := relation_of_fits (hf last.c (by cases last; simp [nodesL, nodes, PTok.c]))
    have hin : last.c.inner = true := by
      rcases hl with h | ⟨h, _⟩
      · omega
      · exact h
    simp only [evalNewChild, hr, nodesL, List.mem_append]
    rw [ih (fun c' hc' => hf c' (by simp [nodesL, hc'])) hin x]
    constructor
    · rintro ((h | h) | h) <;> simp [h]
    · rintro (h | h | h) <;> simp [h]
  · intro last rest child h0 _ h2 hf
    have := relation_of_fits (hf last.c (by cases last; simp [nodesL, nodes, PTok.c]))
    rcases this with h | ⟨_, h⟩
    · exact absurd h h0
    · exact absurd h h2

theorem fold_nodes : ∀ (cs : List Cand) (kids : List PTok), cs.Pairwise Fits →
    (∀ c ∈ nodesL kids, ∀ y ∈ cs, Fits c y) →
    ∀ x, x ∈ nodesL ((cs.map (fun c => PTok.mk c [])).foldl evalNewChild kids) ↔ x ∈ cs ∨ x ∈ nodesL kids
  | [], kids, _, _, x => by simp
  | c :: cs, kids, hp, hk, x => by
    rw [List.pairwise_cons] at hp
    simp only [List.map_cons, List.foldl_cons]
    have h1 := insert_nodes.2 kids (PTok.mk c []) (fun c' hc' => hk c' hc' c (by simp))
    rw [fold_nodes cs _ hp.2 ?_ x, h1 x]
    · simp only [nodes, nodesL, List.mem_cons, List.not_mem_nil, or_false]
      constructor
      · rintro (h | h | h) <;> simp [h]
      · rintro ((h | h) | h) <;> simp [h]
    · intro c' hc' y hy
      rcases (h1 c').1 hc' with h | h
      · simp only [nodes, nodesL, List.mem_cons, List.not_mem_nil, or_false] at h
        subst h
        exact hp.1 y hy
      · exact hk c' h y (List.mem_cons_of_mem _ hy)

/-- two candidates of a laminar family: different starts; disjoint, or one inside the parse group of the other, which
    then parses its inner text -/
def Lam (a b : Cand) : Prop :=
  a.start ≠ b.start ∧
  (a.stop ≤ b.start ∨ b.stop ≤ a.start ∨
   (b.inner = true ∧ b.start < a.start ∧ b.pstart ≤ a.start ∧ a.stop ≤ b.pend) ∨
   (a.inner = true ∧ a.start < b.start ∧ a.pstart ≤ b.start ∧ b.stop ≤ a.pend))

theorem Lam.symm {a b : Cand} (h : Lam a b) : Lam b a := by
  obtain ⟨h1, h2⟩ := h
  refine ⟨fun e => h1 e.symm, ?_⟩
  rcases h2 with h | h | h | h
  · exact Or.inr (Or.inl h)
  · exact Or.inl h
  · exact Or.inr (Or.inr (Or.inr h))
  · exact Or.inr (Or.inr (Or.inl h))

theorem fits_of_lam {a b : Cand} (h : Lam a b) (hle : a.start ≤ b.start) (wa : CandWF a) (wb : CandWF b) :
    Fits a b := by
  obtain ⟨h1, h2⟩ := h
  unfold CandWF at wa wb
  refine ⟨wa.2.2, ?_⟩
  rcases h2 with h | h | ⟨_, h, _⟩ | ⟨hi, _, h3, h4⟩
  · exact Or.inl h
  · omega
  · omega
  · exact Or.inr ⟨hi, h3, h4⟩

/-- sorted by start, and every earlier one `Fits` every later one -/
def Ord (a b : Cand) : Prop := a.start ≤ b.start ∧ Fits a b

theorem pairwise_insert (x : Cand) (wx : CandWF x) : ∀ (ys : List Cand), ys.Pairwise Ord →
    (∀ y ∈ ys, Lam x y ∧ CandWF y) → (insertByStart x ys).Pairwise Ord
  | [], _, _ => by simp [insertByStart]
  | y :: ys, hy, hx => by
    rw [List.pairwise_cons] at hy
    simp only [insertByStart]
    split
    · rename_i hle
      rw [List.pairwise_cons]
      refine ⟨?_, List.pairwise_cons.2 hy⟩
      intro z hz
      have hz' := hx z hz
      have : x.start ≤ z.start := by
        rcases List.mem_cons.1 hz with rfl | hz
        · exact hle
        · have := (hy.1 z hz).1; omega
      exact ⟨this, fits_of_lam hz'.1 this wx hz'.2⟩
    · rename_i hgt
      rw [List.pairwise_cons]
      refine ⟨?_, pairwise_insert x wx ys hy.2 (fun z hz => hx z (List.mem_cons_of_mem _ hz))⟩
      intro z hz
      rcases (mem_insertByStart x z ys).1 hz with rfl | hz
      · have hy' := hx y (by simp)
        have : y.start ≤ z.start := by omega
        exact ⟨this, fits_of_lam hy'.1.symm this hy'.2 wx⟩
      · exact hy.1 z hz

theorem sort_pairwise : ∀ (cs : List Cand), cs.Pairwise Lam → (∀ c ∈ cs, CandWF c) → (sortByStart cs).Pairwise Ord
  | [], _, _ => by simp [sortByStart]
  | c :: cs, hp, hw => by
    rw [List.pairwise_cons] at hp
    show (insertByStart c (sortByStart cs)).Pairwise Ord
    apply pairwise_insert c (hw c (by simp)) _ (sort_pairwise cs hp.2 (fun x hx => hw x (List.mem_cons_of_mem _ hx)))
    intro y hy
    have hy' := (mem_sortByStart y cs).1 hy
    exact ⟨hp.1 y hy', hw y (List.mem_cons_of_mem _ hy')⟩

/-- **Nothing is dropped.**  On a laminar family, the forest `tokenize` hands to `make_tokens` holds every candidate
    (and nothing else). -/
theorem resolve_nodes (cs : List Cand) (hp : cs.Pairwise Lam) (hw : ∀ c ∈ cs, CandWF c) :
    ∀ x, x ∈ nodesL (resolve cs).reverse ↔ x ∈ cs := by
  intro x
  unfold resolve
  rw [resolveSorted_reverse, fold_nodes _ [] ((sort_pairwise cs hp hw).imp (fun h => h.2)) (by simp [nodesL]) x]
  simp [nodesL, mem_sortByStart]

end Mistletoe.EmphHtml

/-! ## B. SPECIFICATION: the HTML of an inline text, from its emphasis spans

  Independent of the model of span_tokenizer.py / span_token.py / html_renderer.py: the definition reads the text, the
  list of spans `(start, text start, text end, stop, strong)` and a per-character escaping function, nothing else.

  The text is walked position by position.  At position `i` the output has
    * the opening tag (`<em>` / `<strong>`) of the span that starts at `i`, if there is one;
    * nothing for the character itself if `i` lies in the opening delimiter `[start, text start)` or in the closing
      delimiter `[text end, stop)` of some span, or if the character is a backslash that escapes the next character
      (`skip i`; never, in a text without backslash); otherwise the character, escaped;
    * the closing tag of the span whose last character is at `i` (`stop = i + 1`), if there is one.
  (Spans have non-empty delimiters and nest, so at most one span starts, and at most one stops, at a position.) -/

namespace Mistletoe.Spec.EmphasisHtml
open Mistletoe Mistletoe.Escape

/-- (start, text start, text end, stop, strong), as returned by `Spec.Emphasis.spans` -/
abbrev Span5 := Nat × Nat × Nat × Nat × Bool

def openTag (strong : Bool) : Str := if strong then "<strong>".toList else "<em>".toList
def closeTag (strong : Bool) : Str := if strong then "</strong>".toList else "</em>".toList

/-- position `i` holds a delimiter character of some span -/
def isDelimPos (L : List Span5) (i : Nat) : Bool :=
  L.any (fun p => (decide (p.1 ≤ i) && decide (i < p.2.1)) || (decide (p.2.2.1 ≤ i) && decide (i < p.2.2.2.1)))

/-- the output for position `i` of the text -/
def emitAt (esc : Char → Str) (L : List Span5) (skip : Nat → Bool) (s : Str) (i : Nat) : Str :=
  (match L.find? (fun p => p.1 == i) with | some p => openTag p.2.2.2.2 | none => []) ++
  (if isDelimPos L i || skip i then [] else match s[i]? with | some c => esc c | none => []) ++
  (match L.find? (fun p => p.2.2.2.1 == i + 1) with | some p => closeTag p.2.2.2.2 | none => [])

/-- `f a ++ f (a + 1) ++ … ++ f (a + n - 1)` -/
def cat (f : Nat → Str) : Nat → Nat → Str
  | _, 0 => []
  | a, n + 1 => f a ++ cat f (a + 1) n

/-- the HTML of the text `s` whose emphasis spans are `L` and whose escaping backslashes are at the positions `skip` -/
def htmlOf (esc : Char → Str) (L : List Span5) (skip : Nat → Bool) (s : Str) : Str := cat (emitAt esc L skip s) 0 s.length

/-- `HtmlRenderer.escape_html_text` of one character (`html.escape(c, quote=False)` plus the two quote options);
    a per-character table regenerated from the working tree (Model/Escape.lean) -/
def escChar (dq sq : Bool) (c : Char) : Str := escapeHtmlText dq sq [c]

/-- **the specification's HTML of a plain inline text** (no backslash, backquote, brackets, `<`, `&`): the spans are
    those of the CommonMark 0.30 delimiter algorithm (`Spec.Emphasis.spans`) -/
def specHtmlQ (dq sq : Bool) (s : Str) : Str := htmlOf (escChar dq sq) (Emphasis.spans s) (fun _ => false) s

/-- … under the renderer's default options (quotes are not escaped) -/
def specHtml (s : Str) : Str := specHtmlQ false false s

/-- **… with backslash escapes** (`plainEsc`: backslashes allowed): the spans are those of `Spec.EmphasisEsc.spansEsc`
    (delimiter runs made of unescaped `*` / `_` only); a backslash before an escaped character (`escapedAt`, section 2.4:
    an ASCII punctuation character after a backslash that is not itself escaped) is dropped, the escaped character
    stays as text; every other backslash is literal -/
def specHtmlEscQ (dq sq : Bool) (s : Str) : Str :=
  htmlOf (escChar dq sq) (EmphasisEsc.spansEsc s) (fun i => EmphasisEsc.escapedAt s (i + 1)) s

def specHtmlEsc (s : Str) : Str := specHtmlEscQ false false s

/-- the examples of section 6.2 quoted in the task, against the expected HTML of the CommonMark dingus -/
example : specHtml "***a** b*".toList = "<em><strong>a</strong> b</em>".toList := by decide +kernel
example : specHtml "*a **b** c*".toList = "<em>a <strong>b</strong> c</em>".toList := by decide +kernel
example : specHtml "_a*b_*".toList = "<em>a*b</em>*".toList := by decide +kernel
example : specHtml "**a*".toList = "*<em>a</em>".toList := by decide +kernel
example : specHtml "*a > \"b\"* 'c'".toList = "<em>a &gt; \"b\"</em> 'c'".toList := by decide +kernel
example : specHtmlQ true false "*a > \"b\"* 'c'".toList = "<em>a &gt; &quot;b&quot;</em> 'c'".toList := by decide +kernel

/-- examples 14, 15, 436, 439 of the 0.30 test suite, `\\a` (literal backslash), and a final backslash -/
example : specHtmlEsc "\\*not emphasized*".toList = "*not emphasized*".toList := by decide +kernel
example : specHtmlEsc "\\\\*emphasis*".toList = "\\<em>emphasis</em>".toList := by decide +kernel
example : specHtmlEsc "foo *\\**".toList = "foo <em>*</em>".toList := by decide +kernel
example : specHtmlEsc "foo **\\***".toList = "foo <strong>*</strong>".toList := by decide +kernel
example : specHtmlEsc "\\a*b\\>*\\".toList = "\\a<em>b&gt;</em>\\".toList := by decide +kernel

end Mistletoe.Spec.EmphasisHtml

/-! ## C. From the resolved forest to the HTML -/

namespace Mistletoe.EmphHtml
open Mistletoe Mistletoe.Span Mistletoe.Inline Mistletoe.Html Mistletoe.Escape Mistletoe.Spec.EmphasisHtml

/-- `f a ++ … ++ f (b - 1)` -/
def walk (f : Nat → Str) (a b : Nat) : Str := cat f a (b - a)

theorem cat_append (f : Nat → Str) : ∀ (m a n : Nat), cat f a (m + n) = cat f a m ++ cat f (a + m) n
  | 0, a, n => by simp [cat]
  | m + 1, a, n => by
    have e : m + 1 + n = (m + n) + 1 := by omega
    rw [e]
    simp only [cat, cat_append f m (a + 1) n, List.append_assoc]
    have e2 : a + 1 + m = a + (m + 1) := by omega
    rw [e2]

theorem walk_split (f : Nat → Str) (a m b : Nat) (h1 : a ≤ m) (h2 : m ≤ b) :
    walk f a b = walk f a m ++ walk f m b := by
  unfold walk
  have e : b - a = (m - a) + (b - m) := by omega
  rw [e, cat_append]
  have e2 : a + (m - a) = m := by omega
  rw [e2]

theorem walk_self (f : Nat → Str) (a : Nat) : walk f a a = [] := by simp [walk, cat]

theorem cat_nil (f : Nat → Str) : ∀ (n a : Nat), (∀ i, a ≤ i → i < a + n → f i = []) → cat f a n = []
  | 0, _, _ => rfl
  | n + 1, a, h => by
    simp only [cat]
    rw [h a (by omega) (by omega), cat_nil f n (a + 1) (fun i h1 h2 => h i (by omega) (by omega))]
    rfl

theorem walk_first (f : Nat → Str) (a b : Nat) (hab : a < b) (h : ∀ i, a < i → i < b → f i = []) :
    walk f a b = f a := by
  unfold walk
  have e : b - a = (b - a - 1) + 1 := by omega
  rw [e]
  simp only [cat]
  rw [cat_nil f _ _ (fun i h1 h2 => h i (by omega) (by omega))]
  simp

theorem walk_last (f : Nat → Str) (a b : Nat) (hab : a < b) (h : ∀ i, a ≤ i → i + 1 < b → f i = []) :
    walk f a b = f (b - 1) := by
  rw [walk_split f a (b - 1) b (by omega) (by omega)]
  have h1 : walk f a (b - 1) = [] := cat_nil f _ _ (fun i h1 h2 => h i h1 (by omega))
  rw [h1]
  unfold walk
  have e : b - (b - 1) = 0 + 1 := by omega
  rw [e]
  simp [cat]

theorem slice_step (s : Str) (a b : Nat) (c : Char) (hab : a < b) (hc : s[a]? = some c) :
    slice s a b = c :: slice s (a + 1) b := by
  unfold slice
  have hlt : a < s.length := by
    rcases Nat.lt_or_ge a s.length with h | h
    · exact h
    · rw [List.getElem?_eq_none h] at hc; cases hc
  have hg : s[a] = c := by
    rw [List.getElem?_eq_getElem hlt] at hc
    exact Option.some.inj hc
  rw [List.drop_eq_getElem_cons hlt, hg]
  have e : b - a = (b - (a + 1)) + 1 := by omega
  rw [e, List.take_succ_cons]

theorem cat_raw (dq sq : Bool) (f : Nat → Str) (s : Str) : ∀ (n a : Nat), a + n ≤ s.length →
    (∀ i, a ≤ i → i < a + n → f i = match s[i]? with | some c => escChar dq sq c | none => []) →
    cat f a n = escapeHtmlText dq sq (slice s a (a + n))
  | 0, a, _, _ => by simp [cat, slice, escapeHtmlText, mapChars]
  | n + 1, a, hb, h => by
    have hlt : a < s.length := by omega
    have hc : s[a]? = some s[a] := List.getElem?_eq_getElem hlt
    simp only [cat]
    rw [h a (by omega) (by omega), hc, slice_step s a (a + (n + 1)) s[a] (by omega) hc]
    have ih := cat_raw dq sq f s n (a + 1) (by omega) (fun i h1 h2 => h i (by omega) (by omega))
    have e : a + 1 + n = a + (n + 1) := by omega
    rw [e] at ih
    rw [ih]
    have e2 : s[a] :: slice s (a + 1) (a + (n + 1)) = [s[a]] ++ slice s (a + 1) (a + (n + 1)) := rfl
    rw [e2, InertInline.escape_append]
    rfl

/-! ### what is emitted at a position -/

/-- the positions `[a, b)` touch no delimiter of `p`: they lie outside `p`, or inside its text -/
def Quiet (p : Span5) (a b : Nat) : Prop := b ≤ p.1 ∨ p.2.2.2.1 ≤ a ∨ (p.2.1 ≤ a ∧ b ≤ p.2.2.1)

theorem Quiet.mono {p : Span5} {a b a' b' : Nat} (h : Quiet p a b) (h1 : a ≤ a') (h2 : b' ≤ b) : Quiet p a' b' := by
  unfold Quiet at h ⊢; omega

/-- the spans are well formed (non-empty delimiters around the text) and laminar -/
structure Ctx (L : List Span5) : Prop where
  wf : ∀ p ∈ L, p.1 < p.2.1 ∧ p.2.1 ≤ p.2.2.1 ∧ p.2.2.1 < p.2.2.2.1
  lam : ∀ p ∈ L, ∀ p' ∈ L, p = p' ∨ p.2.2.2.1 ≤ p'.1 ∨ p'.2.2.2.1 ≤ p.1 ∨
    (p'.2.1 ≤ p.1 ∧ p.2.2.2.1 ≤ p'.2.2.1) ∨ (p.2.1 ≤ p'.1 ∧ p'.2.2.2.1 ≤ p.2.2.1)

theorem emit_quiet (esc : Char → Str) (L : List Span5) (skip : Nat → Bool) (s : Str) (hC : Ctx L) (i : Nat)
    (hq : ∀ p ∈ L, Quiet p i (i + 1)) :
    emitAt esc L skip s i = if skip i then [] else match s[i]? with | some c => esc c | none => [] := by
  have h1 : L.find? (fun p => p.1 == i) = none := by
    rw [List.find?_eq_none]
    intro p hp
    have := hq p hp; have := hC.wf p hp
    unfold Quiet at *
    simp only [beq_iff_eq]; omega
  have h2 : L.find? (fun p => p.2.2.2.1 == i + 1) = none := by
    rw [List.find?_eq_none]
    intro p hp
    have := hq p hp; have := hC.wf p hp
    unfold Quiet at *
    simp only [beq_iff_eq]; omega
  have h3 : isDelimPos L i = false := by
    unfold isDelimPos
    rw [List.any_eq_false]
    intro p hp
    have := hq p hp; have := hC.wf p hp
    unfold Quiet at *
    simp only [Bool.or_eq_true, Bool.and_eq_true, decide_eq_true_eq]; omega
  unfold emitAt
  rw [h1, h2, h3]
  simp

theorem emit_delim (esc : Char → Str) (L : List Span5) (skip : Nat → Bool) (s : Str) (hC : Ctx L) (i : Nat) (p : Span5) (hp : p ∈ L)
    (hi : (p.1 ≤ i ∧ i < p.2.1) ∨ (p.2.2.1 ≤ i ∧ i < p.2.2.2.1)) :
    emitAt esc L skip s i = (if i = p.1 then openTag p.2.2.2.2 else []) ++ (if i + 1 = p.2.2.2.1 then closeTag p.2.2.2.2 else []) := by
  have wp := hC.wf p hp
  have h1 : (match L.find? (fun p => p.1 == i) with | some p => openTag p.2.2.2.2 | none => []) =
      if i = p.1 then openTag p.2.2.2.2 else [] := by
    cases hf : L.find? (fun p => p.1 == i) with
    | none =>
      have := List.find?_eq_none.1 hf p hp
      simp only [beq_iff_eq] at this
      rw [if_neg (fun e => this e.symm)]
    | some p' =>
      have e1 := List.find?_some hf
      have m1 := List.mem_of_find?_eq_some hf
      simp only [beq_iff_eq] at e1
      have wp' := hC.wf p' m1
      rcases hC.lam p hp p' m1 with rfl | h | h | h | h
      · simp [e1]
      all_goals omega
  have h2 : (match L.find? (fun p => p.2.2.2.1 == i + 1) with | some p => closeTag p.2.2.2.2 | none => []) =
      if i + 1 = p.2.2.2.1 then closeTag p.2.2.2.2 else [] := by
    cases hf : L.find? (fun p => p.2.2.2.1 == i + 1) with
    | none =>
      have := List.find?_eq_none.1 hf p hp
      simp only [beq_iff_eq] at this
      rw [if_neg (fun e => this e.symm)]
    | some p' =>
      have e1 := List.find?_some hf
      have m1 := List.mem_of_find?_eq_some hf
      simp only [beq_iff_eq] at e1
      have wp' := hC.wf p' m1
      rcases hC.lam p hp p' m1 with rfl | h | h | h | h
      · simp [e1]
      all_goals omega
  have h3 : isDelimPos L i = true := by
    unfold isDelimPos
    rw [List.any_eq_true]
    refine ⟨p, hp, ?_⟩
    simp only [Bool.or_eq_true, Bool.and_eq_true, decide_eq_true_eq]
    exact hi
  unfold emitAt
  rw [h1, h2, h3]
  simp

end Mistletoe.EmphHtml

namespace Mistletoe.EmphHtml
open Mistletoe Mistletoe.Span Mistletoe.Inline Mistletoe.Html Mistletoe.Escape Mistletoe.Spec.EmphasisHtml

/-! ### the candidates of a well-formed forest lie where the forest lies -/

theorem wf_cand : ∀ (t : PTok), t.WF → CandWF t.c
  | .mk _ _, h => by simp only [PTok.WF] at h; exact h.1

mutual
theorem nodes_range : ∀ (t : PTok), t.WF → ∀ c ∈ nodes t, t.c.start ≤ c.start ∧ c.stop ≤ t.c.stop
  | .mk c kids, h, c', hc' => by
    simp only [PTok.WF, CandWF] at h
    simp only [nodes, List.mem_cons] at hc'
    simp only [PTok.c]
    rcases hc' with rfl | hc'
    · omega
    · have := nodesL_range kids _ _ h.2 c' hc'
      omega
theorem nodesL_range : ∀ (ts : List PTok) (lo hi : Nat), KidsOK ts lo hi → ∀ c ∈ nodesL ts, lo ≤ c.start ∧ c.stop ≤ hi
  | [], _, _, _, c, hc => by simp [nodesL] at hc
  | t :: earlier, lo, hi, h, c, hc => by
    simp only [KidsOK] at h
    simp only [nodesL, List.mem_append] at hc
    have wt := wf_cand t h.1
    unfold CandWF at wt
    rcases hc with hc | hc
    · have := nodes_range t h.1 c hc
      omega
    · have := nodesL_range earlier _ _ h.2.2.2 c hc
      omega
end

/-! ### rendering -/

section
variable (q : Quotes) (s : Str) (found : List Found) (L : List Span5) (skip : Nat → Bool)

/-- the HTML of a list of resolved tokens -/
def R (os : List Out) : Str := flat (renderInlines q (builds s found os))

theorem renderInlines_append (q : Quotes) : ∀ (a b : List Mistletoe.Inline),
    renderInlines q (a ++ b) = renderInlines q a ++ renderInlines q b
  | [], _ => rfl
  | i :: a, b => by simp [renderInlines, renderInlines_append q a b]

theorem R_append (a b : List Out) : R q s found (a ++ b) = R q s found a ++ R q s found b := by
  simp [R, InertInline.builds_append, renderInlines_append, InertInline.flat_append]

theorem R_nil : R q s found [] = [] := rfl

/-- the token built from the candidate `c` is the `Emphasis` / `Strong` of a span of the specification, or the
    `EscapeSequence` of an escaping backslash (`[i, i + 2)`, group `[i + 1, i + 2)`, not parsed further) -/
def NodeOK (c : Cand) : Prop :=
  (c.inner = true ∧ ∃ (strong : Bool) (d : Char), (c.start, c.pstart, c.pend, c.stop, strong) ∈ L ∧
    ∀ kids, build s found (.tok c kids) =
      if strong then Mistletoe.Inline.strong [d] (builds s found kids) else Mistletoe.Inline.emphasis [d] (builds s found kids)) ∨
  (c.inner = false ∧ c.pstart = c.start + 1 ∧ c.pend = c.start + 2 ∧ c.stop = c.start + 2 ∧
    skip c.start = true ∧ skip (c.start + 1) = false ∧
    ∀ kids, build s found (.tok c kids) = Mistletoe.Inline.escapeSequence (slice s (c.start + 1) (c.start + 2)))

/-- every span is a candidate of the forest, or does not touch `[a, b)`; every escaping backslash in `[a, b)` is the
    start of a candidate of the forest -/
def Cover (N : List Cand) (a b : Nat) : Prop :=
  (∀ p ∈ L, (∃ c ∈ N, c.start = p.1 ∧ c.pstart = p.2.1 ∧ c.pend = p.2.2.1 ∧ c.stop = p.2.2.2.1) ∨ Quiet p a b) ∧
  (∀ i, a ≤ i → i < b → skip i = true → ∃ c ∈ N, c.start = i)

abbrev E : Nat → Str := emitAt (escChar q.dq q.sq) L skip s

theorem node_pos {c : Cand} (hC : Ctx L) (h : NodeOK s found L skip c) : c.start < c.stop := by
  rcases h with ⟨_, strong, d, hm, _⟩ | ⟨_, _, _, h3, _⟩
  · have := hC.wf _ hm; simp only at this; omega
  · omega

theorem render_raw (hC : Ctx L) (hamp : ∀ c ∈ s, c ≠ '&') (a b : Nat) (hab : a ≤ b) (hb : b ≤ s.length)
    (hq : ∀ p ∈ L, Quiet p a b) (hsk : ∀ i, a ≤ i → i < b → skip i = false) :
    R q s found (if a ≠ b then [.raw a b] else []) = walk (E q s L skip) a b := by
  by_cases he : a = b
  · subst he; simp [walk_self, R_nil]
  · rw [if_pos he]
    have hamp' : InertInline.ampOk (slice s a b) = true := by
      apply InertInline.ampOk_plain
      intro c hc
      exact hamp c (List.mem_of_mem_drop (List.mem_of_mem_take hc))
    simp only [R, builds, build, InertInline.unescape_inert _ hamp', renderInlines, renderInline, flat,
      List.flatMap_cons, List.flatMap_nil, flatEv, List.append_nil]
    unfold walk
    have := cat_raw q.dq q.sq (E q s L skip) s (b - a) a (by omega)
      (fun i h1 h2 => by
        show emitAt _ L skip s i = _
        rw [emit_quiet _ L skip s hC i (fun p hp => (hq p hp).mono h1 (by omega)), hsk i h1 (by omega)]
        rfl)
    rw [this]
    have e : a + (b - a) = b := by omega
    rw [e]

theorem tag_strong : flat [Ev.otag "strong".toList []] = openTag true ∧ flat [Ev.ctag "strong".toList] = closeTag true ∧
    flat [Ev.otag "em".toList []] = openTag false ∧ flat [Ev.ctag "em".toList] = closeTag false := by decide

variable {q s found L skip}

theorem cover_split (hC : Ctx L) (t : PTok) (earlier : List PTok) (a e : Nat) (hk : KidsOK (t :: earlier) a e)
    (hN : ∀ c ∈ nodesL (t :: earlier), NodeOK s found L skip c) (hcov : Cover L skip (nodesL (t :: earlier)) a e) :
    Cover L skip (nodesL earlier) a t.c.start ∧ Cover L skip (nodes t) t.c.start t.c.stop ∧
      (∀ p ∈ L, Quiet p t.c.stop e) ∧ (∀ i, t.c.stop ≤ i → i < e → skip i = false) := by
  simp only [KidsOK] at hk
  have wt := wf_cand t hk.1
  unfold CandWF at wt
  have hpos : ∀ c ∈ nodesL (t :: earlier), c.start < c.stop := fun c hc => node_pos s found L skip hC (hN c hc)
  simp only [nodesL, List.mem_append] at hpos hcov
  refine ⟨⟨?_, ?_⟩, ⟨?_, ?_⟩, ?_, ?_⟩
  · intro p hp
    rcases hcov.1 p hp with ⟨c', hc', h1, h2, h3, h4⟩ | hq
    · simp only [List.mem_append] at hc'
      rcases hc' with hc' | hc'
      · right; have := nodes_range t hk.1 c' hc'; unfold Quiet; omega
      · left; exact ⟨c', hc', h1, h2, h3, h4⟩
    · right; exact hq.mono (by omega) (by omega)
  · intro i h1 h2 hs
    obtain ⟨c', hc', he⟩ := hcov.2 i h1 (by omega) hs
    simp only [List.mem_append] at hc'
    rcases hc' with hc' | hc'
    · have := nodes_range t hk.1 c' hc'; omega
    · exact ⟨c', hc', he⟩
  · intro p hp
    rcases hcov.1 p hp with ⟨c', hc', h1, h2, h3, h4⟩ | hq
    · simp only [List.mem_append] at hc'
      rcases hc' with hc' | hc'
      · left; exact ⟨c', hc', h1, h2, h3, h4⟩
      · right; have := nodesL_range earlier _ _ hk.2.2.2 c' hc'; unfold Quiet; omega
    · right; exact hq.mono (by omega) (by omega)
  · intro i h1 h2 hs
    obtain ⟨c', hc', he⟩ := hcov.2 i (by omega) (by omega) hs
    simp only [List.mem_append] at hc'
    rcases hc' with hc' | hc'
    · exact ⟨c', hc', he⟩
    · have := nodesL_range earlier _ _ hk.2.2.2 c' hc'
      have := hpos c' (Or.inr hc'); omega
  · intro p hp
    rcases hcov.1 p hp with ⟨c', hc', h1, h2, h3, h4⟩ | hq
    · simp only [List.mem_append] at hc'
      rcases hc' with hc' | hc'
      · have := nodes_range t hk.1 c' hc'; unfold Quiet; omega
      · have := nodesL_range earlier _ _ hk.2.2.2 c' hc'; unfold Quiet; omega
    · exact hq.mono (by omega) (by omega)
  · intro i h1 h2
    cases hs : skip i with
    | false => rfl
    | true =>
      obtain ⟨c', hc', he⟩ := hcov.2 i (by omega) h2 hs
      simp only [List.mem_append] at hc'
      rcases hc' with hc' | hc'
      · have := nodes_range t hk.1 c' hc'
        have := hpos c' (Or.inl hc'); omega
      · have := nodesL_range earlier _ _ hk.2.2.2 c' hc'
        have := hpos c' (Or.inr hc'); omega

theorem cover_nil (a e : Nat) (hcov : Cover L skip (nodesL []) a e) :
    (∀ p ∈ L, Quiet p a e) ∧ (∀ i, a ≤ i → i < e → skip i = false) := by
  refine ⟨?_, ?_⟩
  · intro p hp
    rcases hcov.1 p hp with ⟨c', hc', _⟩ | hq
    · simp [nodesL] at hc'
    · exact hq
  · intro i h1 h2
    cases hs : skip i with
    | false => rfl
    | true =>
      obtain ⟨c', hc', _⟩ := hcov.2 i h1 h2 hs
      simp [nodesL] at hc'

mutual
theorem render_make (hC : Ctx L) (hamp : ∀ c ∈ s, c ≠ '&') : ∀ (t : PTok), t.WF → t.c.stop ≤ s.length →
    (∀ c ∈ nodes t, NodeOK s found L skip c) → Cover L skip (nodes t) t.c.start t.c.stop →
    R q s found [make t] = walk (E q s L skip) t.c.start t.c.stop
  | .mk c kids, hwf, hlen, hN, hcov => by
    simp only [PTok.WF, CandWF] at hwf
    simp only [PTok.c] at hlen hcov ⊢
    rcases hN c (by simp [nodes]) with ⟨hin, strong, d, hmem, hb⟩ | ⟨hin, e1, e2, e3, hs0, hs1, hb⟩
    · -- an emphasis
      have wp := hC.wf _ hmem
      simp only at wp
      have ih := render_rev hC hamp kids c.pstart c.pend hwf.2 (by omega) (by omega)
        (fun c' hc' => hN c' (by simp [nodes, hc'])) (by
          refine ⟨?_, ?_⟩
          · intro p hp
            rcases hcov.1 p hp with ⟨c', hc', h1, h2, h3, h4⟩ | hq
            · simp only [nodes, List.mem_cons] at hc'
              rcases hc' with rfl | hc'
              · right; unfold Quiet; omega
              · left; exact ⟨c', hc', h1, h2, h3, h4⟩
            · right; exact hq.mono (by omega) (by omega)
          · intro i h1 h2 hs
            obtain ⟨c', hc', he⟩ := hcov.2 i (by omega) (by omega) hs
            simp only [nodes, List.mem_cons] at hc'
            rcases hc' with rfl | hc'
            · omega
            · exact ⟨c', hc', he⟩)
      rw [walk_split _ c.start c.pstart c.stop (by omega) (by omega),
        walk_split _ c.pstart c.pend c.stop (by omega) (by omega), ← ih]
      have ho : walk (E q s L skip) c.start c.pstart = openTag strong := by
        rw [walk_first _ _ _ (by omega)]
        · show emitAt _ L skip s c.start = _
          rw [emit_delim _ L skip s hC c.start _ hmem (by simp only; omega)]
          simp only [if_true]
          rw [if_neg (by omega)]; simp
        · intro i h1 h2
          show emitAt _ L skip s i = _
          rw [emit_delim _ L skip s hC i _ hmem (by simp only; omega)]
          simp only
          rw [if_neg (by omega), if_neg (by omega)]; rfl
      have hcl : walk (E q s L skip) c.pend c.stop = closeTag strong := by
        rw [walk_last _ _ _ (by omega)]
        · show emitAt _ L skip s (c.stop - 1) = _
          rw [emit_delim _ L skip s hC (c.stop - 1) _ hmem (by simp only; omega)]
          simp only
          rw [if_neg (by omega), if_pos (by omega)]; simp
        · intro i h1 h2
          show emitAt _ L skip s i = _
          rw [emit_delim _ L skip s hC i _ hmem (by simp only; omega)]
          simp only
          rw [if_neg (by omega), if_neg (by omega)]; rfl
      rw [ho, hcl]
      simp only [make, hin, if_true]
      simp only [R, builds, hb]
      cases strong
      · simp only [Bool.false_eq_true, if_false, renderInlines, renderInline, List.append_nil, InertInline.flat_append]
        rw [tag_strong.2.2.1, tag_strong.2.2.2, List.append_assoc]
      · simp only [if_true, renderInlines, renderInline, List.append_nil, InertInline.flat_append]
        rw [tag_strong.1, tag_strong.2.1, List.append_assoc]
    · -- an escape sequence
      have hq : ∀ p ∈ L, Quiet p c.start (c.start + 2) := by
        intro p hp
        have wp := hC.wf p hp
        rcases hcov.1 p hp with ⟨c', hc', h1, h2, h3, h4⟩ | hq
        · simp only [nodes, List.mem_cons] at hc'
          rcases hc' with rfl | hc'
          · omega
          · have := nodesL_range kids _ _ hwf.2 c' hc'; omega
        · rw [e3] at hq; exact hq
      have hlt : c.start + 1 < s.length := by omega
      have hc1 : s[c.start + 1]? = some s[c.start + 1] := List.getElem?_eq_getElem hlt
      have hsl : slice s (c.start + 1) (c.start + 2) = [s[c.start + 1]] := by
        rw [slice_step s _ _ _ (by omega) hc1, slice_self]
      have hmk : make (.mk c kids) = .tok c [] := by simp [make, hin]
      rw [hmk]
      simp only [R, builds]
      rw [hb, hsl]
      simp only [renderInlines, renderInline, flat, List.flatMap_cons, List.flatMap_nil, flatEv, List.append_nil]
      rw [e3]
      have e : walk (E q s L skip) c.start (c.start + 2) = E q s L skip c.start ++ (E q s L skip (c.start + 1) ++ []) := by
        unfold walk
        have : c.start + 2 - c.start = 0 + 1 + 1 := by omega
        rw [this]; rfl
      rw [e]
      show _ = emitAt _ L skip s c.start ++ (emitAt _ L skip s (c.start + 1) ++ [])
      rw [emit_quiet _ L skip s hC c.start (fun p hp => (hq p hp).mono (by omega) (by omega)),
        emit_quiet _ L skip s hC (c.start + 1) (fun p hp => (hq p hp).mono (by omega) (by omega)), hs0, hs1, hc1]
      simp [escChar]
theorem render_rev (hC : Ctx L) (hamp : ∀ c ∈ s, c ≠ '&') : ∀ (ts : List PTok) (a e : Nat), KidsOK ts a e → a ≤ e →
    e ≤ s.length → (∀ c ∈ nodesL ts, NodeOK s found L skip c) → Cover L skip (nodesL ts) a e →
    R q s found (makeTokensRev ts a e) = walk (E q s L skip) a e
  | [], a, e, _, hae, hlen, _, hcov => by
    simp only [makeTokensRev]
    obtain ⟨h1, h2⟩ := cover_nil a e hcov
    exact render_raw q s found L skip hC hamp a e hae hlen h1 h2
  | t :: earlier, a, e, hk, hae, hlen, hN, hcov => by
    obtain ⟨c1, c2, c3, c4⟩ := cover_split hC t earlier a e hk hN hcov
    simp only [KidsOK] at hk
    have wt := wf_cand t hk.1
    unfold CandWF at wt
    simp only [makeTokensRev, R_append]
    have i1 := render_before hC hamp earlier a t.c.start hk.2.2.2 hk.2.1 (by omega)
      (fun c' hc' => hN c' (by simp [nodesL, hc'])) c1
    have i2 := render_make hC hamp t hk.1 (by omega) (fun c' hc' => hN c' (by simp [nodesL, hc'])) c2
    have i3 := render_raw q s found L skip hC hamp t.c.stop e (by omega) hlen c3 c4
    rw [i1, i2, i3, walk_split _ a t.c.start e (by omega) (by omega), walk_split _ t.c.start t.c.stop e (by omega) (by omega)]
    simp
theorem render_before (hC : Ctx L) (hamp : ∀ c ∈ s, c ≠ '&') : ∀ (ts : List PTok) (a e : Nat), KidsOK ts a e → a ≤ e →
    e ≤ s.length → (∀ c ∈ nodesL ts, NodeOK s found L skip c) → Cover L skip (nodesL ts) a e →
    R q s found (makeBefore ts a e) = walk (E q s L skip) a e
  | [], a, e, _, hae, hlen, _, hcov => by
    simp only [makeBefore]
    obtain ⟨h1, h2⟩ := cover_nil a e hcov
    have := render_raw q s found L skip hC hamp a e hae hlen h1 h2
    rw [← this]
    by_cases h : e > a
    · rw [if_pos h, if_pos (by omega)]
    · rw [if_neg h, if_neg (by omega)]
  | t :: earlier, a, e, hk, hae, hlen, hN, hcov => by
    obtain ⟨c1, c2, c3, c4⟩ := cover_split hC t earlier a e hk hN hcov
    simp only [KidsOK] at hk
    have wt := wf_cand t hk.1
    unfold CandWF at wt
    simp only [makeBefore, R_append]
    have i1 := render_before hC hamp earlier a t.c.start hk.2.2.2 hk.2.1 (by omega)
      (fun c' hc' => hN c' (by simp [nodesL, hc'])) c1
    have i2 := render_make hC hamp t hk.1 (by omega) (fun c' hc' => hN c' (by simp [nodesL, hc'])) c2
    have i3 := render_raw q s found L skip hC hamp t.c.stop e (by omega) hlen c3 c4
    have e3 : (if e > t.c.stop then [Out.raw t.c.stop e] else []) = (if t.c.stop ≠ e then [Out.raw t.c.stop e] else []) := by
      by_cases h : e > t.c.stop
      · rw [if_pos h, if_pos (by omega)]
      · rw [if_neg h, if_neg (by omega)]
    rw [e3, i1, i2, i3, walk_split _ a t.c.start e (by omega) (by omega), walk_split _ t.c.start t.c.stop e (by omega) (by omega)]
    simp
end

end

end Mistletoe.EmphHtml

/-! ## D. `tokenize_inner` on a text whose only candidates are nested emphasis matches -/

namespace Mistletoe.EmphHtml
open Mistletoe Mistletoe.Span Mistletoe.Inline Mistletoe.Html Mistletoe.Escape Mistletoe.Spec.EmphasisHtml
open Mistletoe.Core Mistletoe.InertInline Mistletoe.RefResolve

/-- with core matches `ms` in a text where no other class fires, the candidates are the matches, once per occurrence
    of `CoreTokens` in the list -/
theorem flatMap_findOne_ms (s : Str) (hs : ScanOk s) (hnl : '\n' ∉ s) (ms : List CoreM) : ∀ (types : List STok),
    (∀ t ∈ types, inertClass t = true) →
    types.flatMap (findOne s ms []) = (List.replicate (types.count .coreTokens) (ms.map foundOf)).flatten
  | [], _ => rfl
  | t :: rest, h => by
    have ih := flatMap_findOne_ms s hs hnl ms rest (fun x hx => h x (List.mem_cons_of_mem _ hx))
    rw [List.flatMap_cons, ih]
    by_cases hc : t = .coreTokens
    · subst hc
      simp only [List.count_cons_self, List.replicate_succ, List.flatten_cons]
      rfl
    · have hne : (t == STok.coreTokens) = false := by simpa using hc
      rw [List.count_cons, hne]
      rw [findOne_other s ms t hc]
      by_cases hlb : t = .lineBreak
      · subst hlb; rw [findOne_lineBreak s hnl]; simp
      · rw [findOne_inertBody s hs t (h t (by simp)) hlb]; simp

theorem findAll_ms (s : Str) (types : List STok) (fn : Footnotes.Table) (hs : ScanOk s) (hnl : '\n' ∉ s)
    (ht : ∀ t ∈ types, inertClass t = true) (hc : types.count .coreTokens = 1) (ms : List CoreM)
    (h : findCoreTokens s fn = .ok (ms, [])) : findAll s types fn = .ok (ms.map foundOf) := by
  unfold findAll
  have : types.contains .coreTokens = true := by
    rw [List.contains_iff_mem]
    exact List.count_pos_iff.1 (by omega)
  simp only [this, if_true, h]
  rw [flatMap_findOne_ms s hs hnl ms types ht, hc]
  simp

/-- the candidate `tokenize_inner` builds from the `i`-th core match -/
def candOf (types : List STok) (m : CoreM) (i : Nat) : Cand :=
  { start := m.start, stop := m.stop, pstart := m.ts, pend := m.te, prec := 3, inner := true,
    cls := clsIndex types .coreTokens, ord := i }

def candsOf (types : List STok) (ms : List CoreM) : List Cand := ms.zipIdx.map (fun p => candOf types p.1 p.2)

theorem candsOf_length (types : List STok) (ms : List CoreM) : (candsOf types ms).length = ms.length := by
  simp [candsOf]

theorem candsOf_get (types : List STok) (ms : List CoreM) (i : Nat) (hi : i < (candsOf types ms).length) :
    (candsOf types ms)[i] = candOf types (ms[i]'(by rw [candsOf_length] at hi; exact hi)) i := by
  simp [candsOf]

theorem tokenizeInner_ms (s : Str) (types : List STok) (fn : Footnotes.Table) (ms : List CoreM)
    (h : findAll s types fn = .ok (ms.map foundOf)) :
    tokenizeInner types fn s = .ok (builds s (ms.map foundOf) (Span.tokenize (candsOf types ms) s.length)) := by
  unfold tokenizeInner
  rw [h]
  simp only [Res.ok.injEq]
  congr 2
  simp only [candsOf, List.zipIdx_map, List.map_map]
  apply List.map_congr_left
  intro p _
  rfl

/-- (start, text start, text end, stop, strong) of a core match -/
def tup (m : CoreM) : Span5 := (m.start, m.ts, m.te, m.stop, m.kind == .strong)

section
variable (s : Str) (ms : List CoreM)
  (hW : ∀ m ∈ ms, m.start < m.ts ∧ m.ts < m.te ∧ m.te < m.stop ∧ m.stop ≤ s.length)
  (hN : ms.Pairwise (fun a b => a.stop ≤ b.start ∨ b.stop ≤ a.start ∨ (b.ts ≤ a.start ∧ a.stop ≤ b.te)))
  (hK : ∀ m ∈ ms, m.kind = .strong ∨ m.kind = .emphasis)
include hW hN

theorem ctx_ms : Ctx (ms.map tup) := by
  have hP := List.pairwise_iff_getElem.1 hN
  constructor
  · intro p hp
    obtain ⟨m, hm, rfl⟩ := List.mem_map.1 hp
    have := hW m hm
    simp only [tup]; omega
  · intro p hp p' hp'
    obtain ⟨i, hi, rfl⟩ := List.mem_iff_getElem.1 hp
    obtain ⟨j, hj, rfl⟩ := List.mem_iff_getElem.1 hp'
    simp only [List.length_map] at hi hj
    simp only [List.getElem_map, tup]
    have wi := hW ms[i] (List.getElem_mem hi)
    have wj := hW ms[j] (List.getElem_mem hj)
    rcases Nat.lt_trichotomy i j with h | h | h
    · have := hP i j hi hj h
      right; omega
    · subst h; left; rfl
    · have := hP j i hj hi h
      right; omega

theorem cands_lam (types : List STok) : (candsOf types ms).Pairwise Lam := by
  have hP := List.pairwise_iff_getElem.1 hN
  rw [List.pairwise_iff_getElem]
  intro i j hi hj hij
  rw [candsOf_get, candsOf_get]
  have hi' : i < ms.length := by rw [candsOf_length] at hi; exact hi
  have hj' : j < ms.length := by rw [candsOf_length] at hj; exact hj
  have wi := hW ms[i] (List.getElem_mem hi')
  have wj := hW ms[j] (List.getElem_mem hj')
  have := hP i j hi' hj' hij
  unfold Lam
  simp only [candOf, true_and]
  omega

omit hN in
theorem cands_wf (types : List STok) : ∀ c ∈ candsOf types ms, CandWF c ∧ c.stop ≤ s.length := by
  intro c hc
  obtain ⟨i, hi, rfl⟩ := List.mem_iff_getElem.1 hc
  rw [candsOf_get]
  have hi' : i < ms.length := by rw [candsOf_length] at hi; exact hi
  have wi := hW ms[i] (List.getElem_mem hi')
  simp only [CandWF, candOf]
  omega

omit hW hN in
include hK in
theorem cands_nodeOK (types : List STok) (skip : Nat → Bool) :
    ∀ c ∈ candsOf types ms, NodeOK s (ms.map foundOf) (ms.map tup) skip c := by
  intro c hc
  obtain ⟨i, hi, rfl⟩ := List.mem_iff_getElem.1 hc
  rw [candsOf_get]
  have hi' : i < ms.length := by rw [candsOf_length] at hi; exact hi
  left
  refine ⟨rfl, ms[i].kind == .strong, ms[i].delimiter, ?_, ?_⟩
  · exact List.mem_map.2 ⟨ms[i], List.getElem_mem hi', rfl⟩
  · intro kids
    have hf : (ms.map foundOf)[(candOf types ms[i] i).ord]? = some (foundOf ms[i]) := by
      simp [candOf, hi']
    simp only [build, hf, foundOf]
    rcases hK ms[i] (List.getElem_mem hi') with h | h <;> simp [h]

omit hW hN in
theorem cands_cover (types : List STok) (a b : Nat) : Cover (ms.map tup) (fun _ => false) (candsOf types ms) a b := by
  refine ⟨?_, fun i _ _ h => by cases h⟩
  intro p hp
  obtain ⟨i, hi, rfl⟩ := List.mem_iff_getElem.1 hp
  simp only [List.length_map] at hi
  left
  refine ⟨(candsOf types ms)[i]'(by rw [candsOf_length]; exact hi), List.getElem_mem _, ?_⟩
  rw [candsOf_get]
  simp [candOf, tup]

include hK in
/-- the HTML of the tokens built from nested emphasis matches is the walk over their spans -/
theorem render_ms (q : Quotes) (types : List STok) (hamp : ∀ c ∈ s, c ≠ '&') :
    flat (renderInlines q (builds s (ms.map foundOf) (Span.tokenize (candsOf types ms) s.length))) =
      htmlOf (escChar q.dq q.sq) (ms.map tup) (fun _ => false) s := by
  have hwf := cands_wf s ms hW types
  have hok := resolve_ok s.length (candsOf types ms) hwf
  have hnodes := resolve_nodes (candsOf types ms) (cands_lam s ms hW hN types) (fun c hc => (hwf c hc).1)
  have := render_rev (q := q) (found := ms.map foundOf) (skip := fun _ => false) (ctx_ms s ms hW hN) hamp
    (resolve (candsOf types ms)).reverse 0 s.length
    hok (Nat.zero_le _) (Nat.le_refl _)
    (fun c hc => cands_nodeOK s ms hK types _ c ((hnodes c).1 hc))
    (by
      refine ⟨?_, fun i _ _ h => by cases h⟩
      intro p hp
      rcases (cands_cover ms types 0 s.length).1 p hp with ⟨c, hc, h⟩ | h
      · exact Or.inl ⟨c, (hnodes c).2 hc, h⟩
      · exact Or.inr h)
  unfold R at this
  unfold Span.tokenize
  rw [this]
  simp [walk, htmlOf]

end

end Mistletoe.EmphHtml

/-! ## E. Backslash escapes: facts about the specification (`Spec/EmphasisEsc.lean`) -/

namespace Mistletoe.EmphHtml
open Mistletoe Mistletoe.Spec Mistletoe.Spec.Emphasis Mistletoe.Spec.EmphasisEsc

/-! ### the delimiters of every emphasis node lie inside delimiter runs -/

/-- `[a, b)` lies inside one of the runs `rs` -/
def InRun (rs : List Run) (a b : Nat) : Prop := ∃ r0 ∈ rs, r0.start ≤ a ∧ b ≤ r0.start + r0.count

/-- invariant of *process emphasis*: what is left of every stack entry, and both delimiters of every node inserted so
    far, lie inside the original runs -/
structure RInv (rs : List Run) (st : State) : Prop where
  stack : ∀ r ∈ st.below ++ st.above, 1 ≤ r.count ∧ InRun rs r.start (r.start + r.count)
  found : ∀ m ∈ st.found, InRun rs m.openStart m.openStop ∧ InRun rs m.closeStart m.closeStop

theorem InRun.sub {rs : List Run} {a b a' b' : Nat} (h : InRun rs a b) (h1 : a ≤ a') (h2 : b' ≤ b) : InRun rs a' b' := by
  obtain ⟨r0, hr0, h3, h4⟩ := h
  exact ⟨r0, hr0, by omega, by omega⟩

theorem RInv.step {rs : List Run} {st st' : State} (h : RInv rs st) (hs : Emphasis.step st = some st') : RInv rs st' := by
  unfold Emphasis.step at hs
  cases ha : st.above with
  | nil => rw [ha] at hs; cases hs
  | cons c rest =>
    rw [ha] at hs
    simp only at hs
    have hb : ∀ r ∈ st.below, 1 ≤ r.count ∧ InRun rs r.start (r.start + r.count) := fun r hr => h.stack r (by simp [hr])
    have hc := h.stack c (by simp [ha])
    have hr : ∀ r ∈ rest, 1 ≤ r.count ∧ InRun rs r.start (r.start + r.count) := fun r hr => h.stack r (by simp [ha, hr])
    split at hs
    · cases hs
      refine ⟨fun r hr' => ?_, h.found⟩
      simp only [List.mem_append, List.mem_cons] at hr'
      rcases hr' with (rfl | hr') | hr'
      · exact hc
      · exact hb r hr'
      · exact hr r hr'
    · cases hl : lookBack c (st.bottoms (keyOf c)) st.below with
      | none =>
        rw [hl] at hs
        simp only at hs
        cases hs
        refine ⟨fun r hr' => ?_, h.found⟩
        simp only [List.mem_append] at hr'
        rcases hr' with hr' | hr'
        · split at hr'
          · rcases List.mem_cons.1 hr' with rfl | hr'
            · exact hc
            · exact hb r hr'
          · exact hb r hr'
        · exact hr r hr'
      | some ou =>
        obtain ⟨o, under⟩ := ou
        rw [hl] at hs
        simp only at hs
        cases hs
        obtain ⟨sk, hsk⟩ := EmphRefine.lookBack_split c _ _ o under hl
        have ho := hb o (by rw [hsk]; simp)
        have hu : ∀ r ∈ under, 1 ≤ r.count ∧ InRun rs r.start (r.start + r.count) :=
          fun r hr' => hb r (by rw [hsk]; simp [hr'])
        have hn : (if (2 ≤ o.count && 2 ≤ c.count) = true then 2 else 1) ≤ o.count ∧
            (if (2 ≤ o.count && 2 ≤ c.count) = true then 2 else 1) ≤ c.count := by
          split
          · rename_i h2
            simp only [Bool.and_eq_true, decide_eq_true_eq] at h2
            omega
          · omega
        generalize (if (2 ≤ o.count && 2 ≤ c.count) = true then 2 else 1) = n at hn ⊢
        refine ⟨fun r hr' => ?_, fun m hm => ?_⟩
        · simp only [List.mem_append] at hr'
          rcases hr' with hr' | hr'
          · split at hr'
            · exact hu r hr'
            · rename_i hne
              rcases List.mem_cons.1 hr' with rfl | hr'
              · simp only at hne ⊢
                exact ⟨by omega, ho.2.sub (by omega) (by omega)⟩
              · exact hu r hr'
          · split at hr'
            · exact hr r hr'
            · rename_i hne
              rcases List.mem_cons.1 hr' with rfl | hr'
              · simp only at hne ⊢
                exact ⟨by omega, hc.2.sub (by omega) (by omega)⟩
              · exact hr r hr'
        · rcases List.mem_cons.1 hm with rfl | hm
          · simp only
            exact ⟨ho.2.sub (by omega) (by omega), hc.2.sub (by omega) (by omega)⟩
          · exact h.found m hm

theorem RInv.run {rs : List Run} : ∀ (n : Nat) (st : State), RInv rs st → RInv rs (Emphasis.run n st)
  | 0, _, h => h
  | n + 1, st, h => by
    simp only [Emphasis.run]
    cases hs : Emphasis.step st with
    | none => exact h
    | some st' => exact RInv.run n st' (h.step hs)

theorem process_inRun (rs : List Run) (hpos : ∀ r ∈ rs, 1 ≤ r.count) :
    ∀ m ∈ process rs, InRun rs m.openStart m.openStop ∧ InRun rs m.closeStart m.closeStop := by
  have h0 : RInv rs (initial rs) := by
    refine ⟨fun r hr => ?_, fun m hm => by simp [initial] at hm⟩
    simp only [initial, List.nil_append] at hr
    exact ⟨hpos r hr, r, hr, Nat.le_refl _, Nat.le_refl _⟩
  intro m hm
  exact (RInv.run _ _ h0).found m (List.mem_reverse.1 hm)

/-! ### the characters of a delimiter run are not escaped -/

theorem runsEsc_unescaped (s : Str) : ∀ r ∈ runsEsc s, 1 ≤ r.count ∧
    ∀ k, r.start ≤ k → k < r.start + r.count → escapedAt s k = false := by
  intro r hr
  obtain ⟨x, hx, rfl⟩ := List.mem_map.1 hr
  unfold runSpansEsc at hx
  obtain ⟨_, h2, h3⟩ := EmphRefineEsc.runSpansD_spec _ _ _ x hx
  simp only [mkRun]
  refine ⟨h2, fun k h4 h5 => ?_⟩
  have := h3 (k - x.2.1) (by omega)
  have e : x.2.1 - 0 + (k - x.2.1) = k := by omega
  rw [e] at this
  unfold delims at this
  rw [List.getElem?_zipWith] at this
  unfold escapedAt
  cases h6 : s[k]? with
  | none => simp [h6] at this
  | some ch =>
    cases h7 : (escMarks false s)[k]? with
    | none => rfl
    | some b =>
      simp only [h6, h7, Option.some.injEq] at this
      cases b with
      | false => rfl
      | true => simp [delimOf] at this

/-- **no delimiter character of an emphasis node is backslash-escaped** -/
theorem emphasisEsc_unescaped (s : Str) : ∀ m ∈ emphasisEsc s, ∀ k,
    (m.openStart ≤ k ∧ k < m.openStop) ∨ (m.closeStart ≤ k ∧ k < m.closeStop) → escapedAt s k = false := by
  intro m hm k hk
  have hr := runsEsc_unescaped s
  obtain ⟨⟨r1, hr1, h1, h2⟩, ⟨r2, hr2, h3, h4⟩⟩ := process_inRun (runsEsc s) (fun r h => (hr r h).1) m hm
  rcases hk with hk | hk
  · exact (hr r1 hr1).2 k (by omega) (by omega)
  · exact (hr r2 hr2).2 k (by omega) (by omega)

end Mistletoe.EmphHtml

/-! ## F. Backslash escapes: `EscapeSequence.find`, and the other classes in the presence of backslashes -/

namespace Mistletoe.EmphHtml
open Mistletoe Mistletoe.Spec Mistletoe.Spec.EmphasisEsc Mistletoe.InlineScan Mistletoe.Inline Mistletoe.InertInline

/-- the character class of `EscapeSequence.pattern` is the specification's ASCII punctuation -/
theorem escapable_eq (c : Char) : escapable c = isAsciiPunctuation c := by
  by_cases h : c.toNat < 128
  · have key : ∀ n : Fin 128, escapable (Char.ofNat n) = isAsciiPunctuation (Char.ofNat n) := by decide +kernel
    have := key ⟨c.toNat, h⟩
    simpa [Char.ofNat_toNat] using this
  · have h1 : isAsciiPunctuation c = false := by
      unfold isAsciiPunctuation inRanges
      simp only [List.any_cons, List.any_nil, Bool.or_false, Bool.or_eq_false_iff, Bool.and_eq_false_iff,
        decide_eq_false_iff_not]
      omega
    have h2 : escapable c = false := by
      cases he : escapable c with
      | false => rfl
      | true =>
        have hall : ∀ d ∈ "!\"#$%&'()*+,-./:;<=>?@[\\]^_`{|}~".toList, d.toNat < 128 := by decide
        unfold escapable at he
        rw [List.contains_iff_mem] at he
        exact absurd (hall c he) h
    rw [h1, h2]

/-- start positions of the matches of `EscapeSequence.pattern`, left to right, non-overlapping -/
def escPos : Nat → Str → List Nat
  | pos, '\\' :: d :: rest => if escapable d then pos :: escPos (pos + 2) rest else escPos (pos + 1) (d :: rest)
  | pos, _ :: rest => escPos (pos + 1) rest
  | _, [] => []

theorem escPos_bs_esc (pos : Nat) (d : Char) (r : Str) (h : escapable d = true) :
    escPos pos ('\\' :: d :: r) = pos :: escPos (pos + 2) r := by
  simp [escPos, h]

theorem escPos_bs_lit (pos : Nat) (d : Char) (r : Str) (h : escapable d = false) :
    escPos pos ('\\' :: d :: r) = escPos (pos + 1) (d :: r) := by
  simp [escPos, h]

theorem escPos_other (pos : Nat) (c : Char) (r : Str) (h : c ≠ '\\' ∨ r = []) :
    escPos pos (c :: r) = escPos (pos + 1) r := by
  rcases h with h | rfl
  · rw [escPos]
    intro d rest' e _
    exact h e
  · rw [escPos]
    intro d rest' _ e
    cases e

theorem escPos_lb : ∀ (pos : Nat) (s : Str), ∀ i ∈ escPos pos s, pos ≤ i := by
  apply escPos.induct (motive := fun pos s => ∀ i ∈ escPos pos s, pos ≤ i)
  · intro pos d rest h ih i hi
    rw [escPos_bs_esc pos d rest h] at hi
    rcases List.mem_cons.1 hi with rfl | hi
    · omega
    · have := ih i hi; omega
  · intro pos d rest h ih i hi
    rw [escPos_bs_lit pos d rest (by simpa using h)] at hi
    have := ih i hi; omega
  · intro pos c rest h ih i hi
    rw [escPos] at hi
    · have := ih i hi; omega
    · exact h
  · intro pos i hi
    simp [escPos] at hi

/-- every match is a backslash followed by a character, inside the text -/
theorem escPos_spec : ∀ (pos : Nat) (s : Str), ∀ i ∈ escPos pos s, s[i - pos]? = some '\\' ∧ i - pos + 2 ≤ s.length := by
  apply escPos.induct (motive := fun pos s => ∀ i ∈ escPos pos s, s[i - pos]? = some '\\' ∧ i - pos + 2 ≤ s.length)
  · intro pos d rest h ih i hi
    rw [escPos_bs_esc pos d rest h] at hi
    rcases List.mem_cons.1 hi with rfl | hi
    · simp
    · have hl := escPos_lb _ _ i hi
      obtain ⟨h1, h2⟩ := ih i hi
      have e : i - pos = (i - (pos + 2)) + 1 + 1 := by omega
      rw [e]
      simp only [List.getElem?_cons_succ, List.length_cons]
      exact ⟨h1, by omega⟩
  · intro pos d rest h ih i hi
    rw [escPos_bs_lit pos d rest (by simpa using h)] at hi
    have hl := escPos_lb _ _ i hi
    obtain ⟨h1, h2⟩ := ih i hi
    have e : i - pos = (i - (pos + 1)) + 1 := by omega
    rw [e]
    simp only [List.getElem?_cons_succ, List.length_cons] at h1 h2 ⊢
    exact ⟨h1, by omega⟩
  · intro pos c rest h ih i hi
    rw [escPos] at hi
    · have hl := escPos_lb _ _ i hi
      obtain ⟨h1, h2⟩ := ih i hi
      have e : i - pos = (i - (pos + 1)) + 1 := by omega
      rw [e]
      simp only [List.getElem?_cons_succ, List.length_cons]
      exact ⟨h1, by omega⟩
    · exact h
  · intro pos i hi
    simp [escPos] at hi

/-- the matches do not overlap -/
theorem escPos_gap : ∀ (pos : Nat) (s : Str), (escPos pos s).Pairwise (fun i j => i + 2 ≤ j) := by
  apply escPos.induct (motive := fun pos s => (escPos pos s).Pairwise (fun i j => i + 2 ≤ j))
  · intro pos d rest h ih
    rw [escPos_bs_esc pos d rest h, List.pairwise_cons]
    exact ⟨fun j hj => escPos_lb _ _ j hj, ih⟩
  · intro pos d rest h ih
    rw [escPos_bs_lit pos d rest (by simpa using h)]
    exact ih
  · intro pos c rest h ih
    rw [escPos]
    · exact ih
    · exact h
  · intro pos
    simp [escPos]

theorem pairwise_mem {α} {R : α → α → Prop} : ∀ (l : List α), l.Pairwise R → ∀ a ∈ l, ∀ b ∈ l, a = b ∨ R a b ∨ R b a
  | [], _, a, ha, _, _ => by simp at ha
  | x :: l, h, a, ha, b, hb => by
    rw [List.pairwise_cons] at h
    rcases List.mem_cons.1 ha with e1 | ha'
    · rcases List.mem_cons.1 hb with e2 | hb'
      · exact Or.inl (e1.trans e2.symm)
      · exact Or.inr (Or.inl (e1 ▸ h.1 b hb'))
    · rcases List.mem_cons.1 hb with e2 | hb'
      · exact Or.inr (Or.inr (e2 ▸ h.1 a ha'))
      · exact pairwise_mem l h.2 a ha' b hb'

theorem escMarks_zero (s : Str) : ((escMarks false s)[0]?).getD false = false := by
  cases s <;> simp [escMarks]

/-- **the matches of `EscapeSequence.pattern` are the escaping backslashes of the specification**: the character
    after position `pos + j` is backslash-escaped iff a match starts at `pos + j` -/
theorem escPos_marks : ∀ (pos : Nat) (s : Str), ∀ j,
    ((escMarks false s)[j + 1]?).getD false = true ↔ pos + j ∈ escPos pos s := by
  apply escPos.induct (motive := fun pos s => ∀ j, ((escMarks false s)[j + 1]?).getD false = true ↔ pos + j ∈ escPos pos s)
  · intro pos d rest h ih j
    have hm : escMarks false ('\\' :: d :: rest) = false :: true :: escMarks false rest := by
      simp [escMarks, ← escapable_eq, h]
    rw [hm, escPos_bs_esc pos d rest h]
    match j with
    | 0 => simp
    | 1 =>
      have := escMarks_zero rest
      simp only [List.getElem?_cons_succ, this, List.mem_cons]
      constructor
      · intro e; cases e
      · rintro (e | e)
        · omega
        · have := escPos_lb _ _ _ e; omega
    | k + 2 =>
      simp only [List.getElem?_cons_succ, List.mem_cons]
      rw [ih k]
      have e : pos + 2 + k = pos + (k + 2) := by omega
      rw [e]
      constructor
      · exact Or.inr
      · rintro (e | e)
        · omega
        · exact e
  · intro pos d rest h ih j
    have hne : escapable d = false := by simpa using h
    have hd : (d == '\\') = false := by
      cases hd : (d == '\\') with
      | false => rfl
      | true =>
        simp only [beq_iff_eq] at hd
        subst hd
        revert hne; decide
    have hm : escMarks false ('\\' :: d :: rest) = false :: escMarks false (d :: rest) := by
      simp [escMarks, ← escapable_eq, hne, hd]
    rw [hm, escPos_bs_lit pos d rest hne]
    match j with
    | 0 =>
      simp only [List.getElem?_cons_succ, escMarks_zero, Nat.add_zero]
      constructor
      · intro e; cases e
      · intro e; have := escPos_lb _ _ _ e; omega
    | k + 1 =>
      simp only [List.getElem?_cons_succ]
      rw [ih k]
      have e : pos + 1 + k = pos + (k + 1) := by omega
      rw [e]
  · intro pos c rest h ih j
    have hp : escPos pos (c :: rest) = escPos (pos + 1) rest := by
      rw [escPos]; exact h
    rw [hp]
    by_cases hc : c = '\\'
    · subst hc
      cases rest with
      | cons d r => exact absurd rfl (fun e => h d r rfl e)
      | nil => simp [escMarks, escPos]
    · have hm : escMarks false (c :: rest) = false :: escMarks false rest := by
        have : (c == '\\') = false := by simpa using hc
        simp [escMarks, this]
      rw [hm]
      match j with
      | 0 =>
        simp only [List.getElem?_cons_succ, escMarks_zero, Nat.add_zero]
        constructor
        · intro e; cases e
        · intro e; have := escPos_lb _ _ _ e; omega
      | k + 1 =>
        simp only [List.getElem?_cons_succ]
        rw [ih k]
        have e : pos + 1 + k = pos + (k + 1) := by omega
        rw [e]
  · intro pos j
    simp [escMarks, escPos]

/-- the match object of the escape sequence at `i` -/
def escM (i : Nat) : M := { start := i, stop := i + 2, gs := i + 1, ge := i + 2 }

/-- **`EscapeSequence.find`** -/
theorem findIterAux_escape : ∀ (pos : Nat) (s : Str), ∀ (fuel : Nat) (prev : Option Char), s.length + 1 ≤ fuel →
    findIterAux escapeAt fuel pos prev s = (escPos pos s).map escM := by
  apply escPos.induct (motive := fun pos s => ∀ (fuel : Nat) (prev : Option Char), s.length + 1 ≤ fuel →
    findIterAux escapeAt fuel pos prev s = (escPos pos s).map escM)
  · intro pos d rest h ih fuel prev hf
    obtain ⟨f, rfl⟩ : ∃ f, fuel = f + 1 := ⟨fuel - 1, by omega⟩
    rw [escPos_bs_esc pos d rest h]
    simp only [findIterAux, escapeAt, h, if_true, List.map_cons, escM]
    simp only [List.length_cons] at hf
    have e2 : (if 2 = 0 then 1 else 2) = 2 := rfl
    simp only [e2, List.drop_succ_cons, List.drop_zero]
    rw [ih f _ (by omega)]
  · intro pos d rest h ih fuel prev hf
    obtain ⟨f, rfl⟩ : ∃ f, fuel = f + 1 := ⟨fuel - 1, by omega⟩
    have hne : escapable d = false := by simpa using h
    rw [escPos_bs_lit pos d rest hne]
    simp only [findIterAux, escapeAt, hne, Bool.false_eq_true, if_false]
    simp only [List.length_cons] at hf
    exact ih f _ (by simp only [List.length_cons]; omega)
  · intro pos c rest h ih fuel prev hf
    obtain ⟨f, rfl⟩ : ∃ f, fuel = f + 1 := ⟨fuel - 1, by omega⟩
    have hp : escPos pos (c :: rest) = escPos (pos + 1) rest := by
      rw [escPos]; exact h
    have hn : escapeAt prev (c :: rest) = none := by
      unfold escapeAt
      split
      · rename_i d r heq
        simp only [List.cons.injEq] at heq
        exact absurd heq.2 (h d r heq.1)
      · rfl
    rw [hp]
    simp only [findIterAux, hn]
    simp only [List.length_cons] at hf
    exact ih f _ (by omega)
  · intro pos fuel prev hf
    obtain ⟨f, rfl⟩ : ∃ f, fuel = f + 1 := ⟨fuel - 1, by omega⟩
    simp [findIterAux, escPos]

theorem findIter_escape (s : Str) : findIter escapeAt s = (escPos 0 s).map escM :=
  findIterAux_escape 0 s _ none (Nat.le_refl _)

/-! ### the other regex classes find nothing, backslashes or not -/

theorem tildeOk_suffix : ∀ (u x : Str), tildeOk (u ++ x) = true → tildeOk x = true
  | [], _, h => h
  | c :: u, x, h => by
    simp only [List.cons_append, tildeOk, Bool.and_eq_true] at h
    exact tildeOk_suffix u x h.2

theorem tildeOk_prefix : ∀ (x v : Str), tildeOk (x ++ v) = true → tildeOk x = true
  | [], _, _ => rfl
  | c :: x, v, h => by
    simp only [List.cons_append, tildeOk, Bool.and_eq_true] at h ⊢
    refine ⟨?_, tildeOk_prefix x v h.2⟩
    cases x with
    | nil => simp
    | cons d x => simpa using h.1

theorem strikeAt_noTilde (prev : Option Char) (r : Str) (h : tildeOk r = true) : strikeAt prev r = none := by
  unfold strikeAt
  split
  · rfl
  · simp only
    split
    · rfl
    · have hd : tildeOk (r.drop (leadingBackslashes r)) = true := by
        apply tildeOk_suffix (r.take (leadingBackslashes r))
        rw [List.take_append_drop]; exact h
      split
      · rename_i body heq
        rw [heq] at hd
        simp [tildeOk] at hd
      · rfl

theorem autoLinkAt_noLt (prev : Option Char) (r : Str) (h : '<' ∉ r) : autoLinkAt prev r = none := by
  unfold autoLinkAt
  split
  · rfl
  · simp only
    split
    · rfl
    · split
      · rename_i body heq
        have : '<' ∈ r.drop (leadingBackslashes r) := by rw [heq]; simp
        exact absurd (List.mem_of_mem_drop this) h
      · rfl

/-- what the text must be like for the classes other than `EscapeSequence` and `CoreTokens` to find nothing -/
structure ScanEsc (s : Str) : Prop where
  lt : '<' ∉ s
  tilde : tildeOk s = true
  nl : '\n' ∉ s

theorem ScanEsc.tail {c : Char} {rest : Str} (h : ScanEsc (c :: rest)) : ScanEsc rest := by
  refine ⟨fun hm => h.lt (List.mem_cons_of_mem _ hm), tildeOk_suffix [c] rest h.tilde,
    fun hm => h.nl (List.mem_cons_of_mem _ hm)⟩

theorem findOne_scanEsc (s : Str) (h : ScanEsc s) (t : STok) (ht : inertClass t = true)
    (h1 : t ≠ .escapeSequence) : findOne s [] [] t = [] := by
  cases t with
  | escapeSequence => exact absurd rfl h1
  | htmlSpan =>
    simp only [findOne, List.map_eq_nil_iff]
    exact findIter_nil _ ScanEsc (fun _ _ => ScanEsc.tail) (fun p c r hq => htmlSpanAt_none p c r (by
      have : c ≠ '<' := fun e => hq.lt (by simp [e])
      simp [this])) s h
  | strikethrough =>
    simp only [findOne, List.map_eq_nil_iff]
    exact findIter_nil _ ScanEsc (fun _ _ => ScanEsc.tail) (fun p c r hq => strikeAt_noTilde p _ hq.tilde) s h
  | autoLink =>
    simp only [findOne, List.map_eq_nil_iff]
    exact findIter_nil _ ScanEsc (fun _ _ => ScanEsc.tail) (fun p c r hq => autoLinkAt_noLt p _ hq.lt) s h
  | coreTokens => rfl
  | inlineCode => rfl
  | lineBreak => exact findOne_lineBreak s h.nl
  | math => cases ht
  | githubWiki => cases ht
  | xwikiMacroStart => cases ht
  | xwikiMacroEnd => cases ht

end Mistletoe.EmphHtml

/-! ## G. `tokenize_inner` on a text whose candidates are nested emphasis matches and escape sequences -/

namespace Mistletoe.EmphHtml
open Mistletoe Mistletoe.Span Mistletoe.Inline Mistletoe.Html Mistletoe.Escape Mistletoe.Spec.EmphasisHtml
open Mistletoe.Core Mistletoe.InertInline Mistletoe.RefResolve Mistletoe.InlineScan

/-- the candidate `tokenize_inner` builds from the `i`-th element of `find_tokens`' result -/
def candF (types : List STok) (f : Found) (i : Nat) : Cand :=
  { start := f.start, stop := f.stop, pstart := f.pstart, pend := f.pend, prec := prec f.cls,
    inner := parseInner f.cls, cls := clsIndex types f.cls, ord := i }

def candsF (types : List STok) (found : List Found) : List Cand := found.zipIdx.map (fun p => candF types p.1 p.2)

theorem candsF_length (types : List STok) (found : List Found) : (candsF types found).length = found.length := by
  simp [candsF]

theorem candsF_get (types : List STok) (found : List Found) (i : Nat) (hi : i < (candsF types found).length) :
    (candsF types found)[i] = candF types (found[i]'(by rw [candsF_length] at hi; exact hi)) i := by
  simp [candsF]

theorem tokenizeInner_found (s : Str) (types : List STok) (fn : Footnotes.Table) (found : List Found)
    (h : findAll s types fn = .ok found) :
    tokenizeInner types fn s = .ok (builds s found (Span.tokenize (candsF types found) s.length)) := by
  unfold tokenizeInner
  rw [h]
  simp only [Res.ok.injEq]
  congr 2

/-- what `EscapeSequence.find` returns for the match at `i` -/
def escFound (i : Nat) : Found := ofRe .escapeSequence false (escM i)

section
variable (s : Str) (ms : List CoreM) (es : List Nat) (skip : Nat → Bool)
  (hW : ∀ m ∈ ms, m.start < m.ts ∧ m.ts < m.te ∧ m.te < m.stop ∧ m.stop ≤ s.length)
  (hN : ms.Pairwise (fun a b => a.stop ≤ b.start ∨ b.stop ≤ a.start ∨ (b.ts ≤ a.start ∧ a.stop ≤ b.te)))
  (hK : ∀ m ∈ ms, m.kind = .strong ∨ m.kind = .emphasis)
  (hE : es.Pairwise (fun i j => i + 2 ≤ j))
  (hEs : ∀ i ∈ es, i + 2 ≤ s.length ∧ skip i = true ∧ skip (i + 1) = false)
  (hX : ∀ m ∈ ms, ∀ i ∈ es, ∀ k, k = i ∨ k = i + 1 → ¬ ((m.start ≤ k ∧ k < m.ts) ∨ (m.te ≤ k ∧ k < m.stop)))
  (hsk : ∀ i, i < s.length → skip i = true → i ∈ es)

/-- the two lists of candidates form a laminar family -/
def LamF (types : List STok) (f g : Found) : Prop := ∀ i j, Lam (candF types f i) (candF types g j)

include hW hN in
theorem lamF_core (types : List STok) : (ms.map foundOf).Pairwise (LamF types) := by
  rw [List.pairwise_map]
  apply hN.imp_of_mem
  intro a b ha hb hab i j
  have wa := hW a ha
  have wb := hW b hb
  unfold Lam
  simp only [candF, foundOf, parseInner, true_and]
  omega

include hE in
theorem lamF_esc (types : List STok) : (es.map escFound).Pairwise (LamF types) := by
  rw [List.pairwise_map]
  apply hE.imp
  intro a b hab i j
  unfold Lam
  simp only [candF, escFound, ofRe, escM, Bool.false_eq_true, if_false]
  omega

include hW hX in
theorem lamF_cross (types : List STok) : ∀ f ∈ ms.map foundOf, ∀ g ∈ es.map escFound, LamF types f g := by
  intro f hf g hg i j
  obtain ⟨m, hm, rfl⟩ := List.mem_map.1 hf
  obtain ⟨e, he, rfl⟩ := List.mem_map.1 hg
  have wm := hW m hm
  have x0 := hX m hm e he e (Or.inl rfl)
  have x1 := hX m hm e he (e + 1) (Or.inr rfl)
  unfold Lam
  simp only [candF, foundOf, escFound, ofRe, escM, Bool.false_eq_true, if_false, parseInner, true_and]
  omega

theorem LamF.symm {types : List STok} {f g : Found} (h : LamF types f g) : LamF types g f :=
  fun i j => (h j i).symm

include hW hN hE hX in
theorem cands_lamF (types : List STok) (found : List Found)
    (hf : found = ms.map foundOf ++ es.map escFound ∨ found = es.map escFound ++ ms.map foundOf) :
    (candsF types found).Pairwise Lam := by
  have hp : found.Pairwise (LamF types) := by
    rcases hf with rfl | rfl
    · rw [List.pairwise_append]
      exact ⟨lamF_core s ms hW hN types, lamF_esc es hE types, lamF_cross s ms es hW hX types⟩
    · rw [List.pairwise_append]
      exact ⟨lamF_esc es hE types, lamF_core s ms hW hN types,
        fun g hg f hf => (lamF_cross s ms es hW hX types f hf g hg).symm⟩
  have hP := List.pairwise_iff_getElem.1 hp
  rw [List.pairwise_iff_getElem]
  intro i j hi hj hij
  rw [candsF_get, candsF_get]
  exact hP i j (by rw [candsF_length] at hi; exact hi) (by rw [candsF_length] at hj; exact hj) hij i j

theorem found_cases (found : List Found)
    (hf : found = ms.map foundOf ++ es.map escFound ∨ found = es.map escFound ++ ms.map foundOf) :
    ∀ f, f ∈ found ↔ (∃ m ∈ ms, f = foundOf m) ∨ (∃ i ∈ es, f = escFound i) := by
  intro f
  rcases hf with rfl | rfl
  · simp only [List.mem_append, List.mem_map]
    constructor
    · rintro (⟨m, hm, rfl⟩ | ⟨i, hi, rfl⟩)
      · exact Or.inl ⟨m, hm, rfl⟩
      · exact Or.inr ⟨i, hi, rfl⟩
    · rintro (⟨m, hm, rfl⟩ | ⟨i, hi, rfl⟩)
      · exact Or.inl ⟨m, hm, rfl⟩
      · exact Or.inr ⟨i, hi, rfl⟩
  · simp only [List.mem_append, List.mem_map]
    constructor
    · rintro (⟨i, hi, rfl⟩ | ⟨m, hm, rfl⟩)
      · exact Or.inr ⟨i, hi, rfl⟩
      · exact Or.inl ⟨m, hm, rfl⟩
    · rintro (⟨m, hm, rfl⟩ | ⟨i, hi, rfl⟩)
      · exact Or.inr ⟨m, hm, rfl⟩
      · exact Or.inl ⟨i, hi, rfl⟩

include hW hEs in
theorem candsF_wf (types : List STok) (found : List Found)
    (hf : ∀ f, f ∈ found ↔ (∃ m ∈ ms, f = foundOf m) ∨ (∃ i ∈ es, f = escFound i)) :
    ∀ c ∈ candsF types found, CandWF c ∧ c.stop ≤ s.length := by
  intro c hc
  obtain ⟨k, hk, rfl⟩ := List.mem_iff_getElem.1 hc
  rw [candsF_get]
  have hk' : k < found.length := by rw [candsF_length] at hk; exact hk
  rcases (hf found[k]).1 (List.getElem_mem hk') with ⟨m, hm, e⟩ | ⟨i, hi, e⟩
  · rw [e]
    have := hW m hm
    simp only [CandWF, candF, foundOf]; omega
  · rw [e]
    have := hEs i hi
    simp only [CandWF, candF, escFound, ofRe, escM, Bool.false_eq_true, if_false]; omega

include hK hEs in
theorem candsF_nodeOK (types : List STok) (found : List Found)
    (hf : ∀ f, f ∈ found ↔ (∃ m ∈ ms, f = foundOf m) ∨ (∃ i ∈ es, f = escFound i)) :
    ∀ c ∈ candsF types found, NodeOK s found (ms.map tup) skip c := by
  intro c hc
  obtain ⟨k, hk, rfl⟩ := List.mem_iff_getElem.1 hc
  rw [candsF_get]
  have hk' : k < found.length := by rw [candsF_length] at hk; exact hk
  have hfk : found[(candF types found[k] k).ord]? = some found[k] := by simp [candF, hk']
  rcases (hf found[k]).1 (List.getElem_mem hk') with ⟨m, hm, e⟩ | ⟨i, hi, e⟩
  · left
    refine ⟨by rw [e]; rfl, m.kind == .strong, m.delimiter, ?_, ?_⟩
    · rw [e]; exact List.mem_map.2 ⟨m, hm, rfl⟩
    · intro kids
      simp only [build, hfk]
      rw [e]
      simp only [foundOf]
      rcases hK m hm with h | h <;> simp [h]
  · right
    have := hEs i hi
    refine ⟨by rw [e]; rfl, by rw [e]; rfl, by rw [e]; rfl, by rw [e]; rfl, ?_, ?_, ?_⟩
    · rw [e]; exact this.2.1
    · rw [e]; exact this.2.2
    · intro kids
      simp only [build, hfk]
      rw [e]
      rfl

include hsk in
theorem candsF_cover (types : List STok) (found : List Found)
    (hf : ∀ f, f ∈ found ↔ (∃ m ∈ ms, f = foundOf m) ∨ (∃ i ∈ es, f = escFound i)) :
    Cover (ms.map tup) skip (candsF types found) 0 s.length := by
  refine ⟨?_, ?_⟩
  · intro p hp
    obtain ⟨m, hm, rfl⟩ := List.mem_map.1 hp
    left
    obtain ⟨k, hk, e⟩ := List.mem_iff_getElem.1 ((hf (foundOf m)).2 (Or.inl ⟨m, hm, rfl⟩))
    refine ⟨(candsF types found)[k]'(by rw [candsF_length]; exact hk), List.getElem_mem _, ?_⟩
    rw [candsF_get, e]
    simp [candF, foundOf, tup]
  · intro i _ h2 hs
    obtain ⟨k, hk, e⟩ := List.mem_iff_getElem.1 ((hf (escFound i)).2 (Or.inr ⟨i, hsk i h2 hs, rfl⟩))
    refine ⟨(candsF types found)[k]'(by rw [candsF_length]; exact hk), List.getElem_mem _, ?_⟩
    rw [candsF_get, e]
    rfl

include hW hN hK hE hEs hX hsk in
/-- the HTML of the tokens built from nested emphasis matches and escape sequences is the walk over the spans that drops
    the escaping backslashes -/
theorem render_found (q : Quotes) (types : List STok) (hamp : ∀ c ∈ s, c ≠ '&') (found : List Found)
    (hf : found = ms.map foundOf ++ es.map escFound ∨ found = es.map escFound ++ ms.map foundOf) :
    flat (renderInlines q (builds s found (Span.tokenize (candsF types found) s.length))) =
      htmlOf (escChar q.dq q.sq) (ms.map tup) skip s := by
  have hfc := found_cases ms es found hf
  have hwf := candsF_wf s ms es skip hW hEs types found hfc
  have hok := resolve_ok s.length (candsF types found) hwf
  have hnodes := resolve_nodes (candsF types found) (cands_lamF s ms es hW hN hE hX types found hf)
    (fun c hc => (hwf c hc).1)
  have hcov := candsF_cover s ms es skip hsk types found hfc
  have := render_rev (q := q) (found := found) (skip := skip) (ctx_ms s ms hW hN) hamp
    (resolve (candsF types found)).reverse 0 s.length
    hok (Nat.zero_le _) (Nat.le_refl _)
    (fun c hc => candsF_nodeOK s ms es skip hK hEs types found hfc c ((hnodes c).1 hc))
    (by
      refine ⟨?_, ?_⟩
      · intro p hp
        rcases hcov.1 p hp with ⟨c, hc, h⟩ | h
        · exact Or.inl ⟨c, (hnodes c).2 hc, h⟩
        · exact Or.inr h
      · intro i h1 h2 hs
        obtain ⟨c, hc, h⟩ := hcov.2 i h1 h2 hs
        exact ⟨c, (hnodes c).2 hc, h⟩)
  unfold R at this
  unfold Span.tokenize
  rw [this]
  simp [walk, htmlOf]

end

end Mistletoe.EmphHtml

/-! ## H. The theorem for texts without backslash -/

namespace Mistletoe.EmphHtml
open Mistletoe Mistletoe.Py Mistletoe.Span Mistletoe.Inline Mistletoe.Html Mistletoe.Escape Mistletoe.Spec.EmphasisHtml
open Mistletoe.Core Mistletoe.InertInline Mistletoe.RefResolve

theorem plain_facts (s : Str) (hp : Spec.Emphasis.plain s = true) :
    ∀ c ∈ s, c ≠ '\\' ∧ c ≠ '`' ∧ c ≠ '<' ∧ c ≠ '&' := by
  intro c hc
  simp only [Spec.Emphasis.plain, List.all_eq_true] at hp
  have := hp c hc
  simp only [Spec.Emphasis.plainChar, Bool.and_eq_true, bne_iff_ne, ne_eq] at this
  exact ⟨this.1.1.1.1.1, this.1.1.1.1.2, this.1.2, this.2⟩

/-- **C06, output level (stage (c): arbitrary nesting).**  `s` is an inline text of the alphabet of
    `C06_emphasis_is_spec_partial` (`plain`: no backslash, backquote, brackets, `<`, `&`; `stdWs`: none of the eight code
    points mistletoe wrongly counts as whitespace) that moreover has no newline and no `~~`; `types` is a list of covered
    span token classes holding `CoreTokens` once (the HTML renderer's list: `C07_config_covered`); `fn` is any table of
    link reference definitions.  Then `tokenize_inner(s)` succeeds, and what `HtmlRenderer.render_inner` makes of the
    tokens - under every quote option - is the specification's HTML of `s`: the text escaped character by character,
    the delimiter characters of the spans of the CommonMark 0.30 delimiter algorithm dropped, `<em>`/`<strong>` opened at
    every span's start and closed at its stop.

    The two hypotheses `hnl`, `htl` are not in `C06_emphasis_is_spec_partial`: the HTML renderer's token list also holds
    `LineBreak` (a newline with two spaces before it is `<br />`, and the spaces are dropped) and `Strikethrough`
    (`~~a~~` is `<del>a</del>`, a GFM extension), see the examples at the end of the file. -/
theorem emph_html_is_spec (types : List STok) (fn : Footnotes.Table) (s : Str)
    (hp : Spec.Emphasis.plain s = true) (hw : EmphRefine.stdWs s = true) (hnl : '\n' ∉ s) (htl : tildeOk s = true)
    (ht : ∀ t ∈ types, inertClass t = true) (hc : types.count .coreTokens = 1) :
    ∃ ks, tokenizeInner types fn s = .ok ks ∧
      ∀ q : Quotes, flat (renderInlines q ks) = specHtmlQ q.dq q.sq s := by
  obtain ⟨ms, h1, _, h3, h4⟩ := Props.C06.C06_emphasis_is_spec_partial s fn hp ((EmphRefine.stdWs_iff s).1 hw)
  have hpf := plain_facts s hp
  have hs : ScanOk s := ⟨fun c hc => ⟨(hpf c hc).1, (hpf c hc).2.1⟩, ltOk_plain s (fun c hc => (hpf c hc).2.2.1), htl⟩
  have hfa := findAll_ms s types fn hs hnl ht hc ms h1
  refine ⟨_, tokenizeInner_ms s types fn ms hfa, ?_⟩
  intro q
  have hW : ∀ m ∈ ms, m.start < m.ts ∧ m.ts < m.te ∧ m.te < m.stop ∧ m.stop ≤ s.length := by
    intro m hm
    have := Props.C06.C06_emphasis_wellformed s fn ms [] h1 m hm (h3 m hm)
    exact ⟨this.1, this.2.1, this.2.2.1, this.2.2.2.1⟩
  have hN : ms.Pairwise (fun a b => a.stop ≤ b.start ∨ b.stop ≤ a.start ∨ (b.ts ≤ a.start ∧ a.stop ≤ b.te)) :=
    (Props.C06.C06_emphasis_nested s fn ms [] h1).imp_of_mem (fun ha hb hab => hab (h3 _ ha) (h3 _ hb))
  rw [render_ms s ms hW hN h3 q types (fun c hc => (hpf c hc).2.2.2)]
  have e : ms.map tup = Spec.Emphasis.spans s := h4
  rw [e]
  rfl

end Mistletoe.EmphHtml

/-! ## I. The theorem with backslash escapes -/

namespace Mistletoe.EmphHtml
open Mistletoe Mistletoe.Py Mistletoe.Span Mistletoe.Inline Mistletoe.Html Mistletoe.Escape Mistletoe.Spec.EmphasisHtml
open Mistletoe.Core Mistletoe.InertInline Mistletoe.RefResolve Mistletoe.InlineScan Mistletoe.Spec.EmphasisEsc

theorem flatMap_two {α β} [DecidableEq α] (f : α → List β) (x y : α) (hxy : x ≠ y) : ∀ (l : List α),
    (∀ t ∈ l, t ≠ x → t ≠ y → f t = []) → l.count x = 1 → l.count y = 1 →
    l.flatMap f = f x ++ f y ∨ l.flatMap f = f y ++ f x
  | [], _, hx, _ => by simp at hx
  | t :: l, h, hx, hy => by
    have hmem : ∀ {z : α}, l.count z = 0 → ∀ t' ∈ l, t' ≠ z := by
      intro z hz t' ht' e
      subst e
      have := List.count_pos_iff.2 ht'
      omega
    by_cases htx : t = x
    · subst htx
      have hx0 : l.count t = 0 := by simpa [List.count_cons] using hx
      have hy1 : l.count y = 1 := by
        have : (t == y) = false := by simpa using hxy
        simpa [List.count_cons, this] using hy
      left
      rw [List.flatMap_cons, flatMap_one f y l (fun t' ht' hne => h t' (List.mem_cons_of_mem _ ht') (hmem hx0 t' ht') hne) hy1]
    · by_cases hty : t = y
      · subst hty
        have hy0 : l.count t = 0 := by simpa [List.count_cons] using hy
        have hx1 : l.count x = 1 := by
          have : (t == x) = false := by simpa using htx
          simpa [List.count_cons, this] using hx
        right
        rw [List.flatMap_cons, flatMap_one f x l (fun t' ht' hne => h t' (List.mem_cons_of_mem _ ht') hne (hmem hy0 t' ht')) hx1]
      · have hx1 : l.count x = 1 := by
          have : (t == x) = false := by simpa using htx
          simpa [List.count_cons, this] using hx
        have hy1 : l.count y = 1 := by
          have : (t == y) = false := by simpa using hty
          simpa [List.count_cons, this] using hy
        rw [List.flatMap_cons, h t (by simp) htx hty, List.nil_append]
        exact flatMap_two f x y hxy l (fun t' ht' => h t' (List.mem_cons_of_mem _ ht')) hx1 hy1

/-- `find_tokens` on a text in which only `EscapeSequence` and `CoreTokens` fire -/
theorem findAll_esc (s : Str) (types : List STok) (fn : Footnotes.Table) (hs : ScanEsc s)
    (ht : ∀ t ∈ types, inertClass t = true) (hc : types.count .coreTokens = 1) (he : types.count .escapeSequence = 1)
    (ms : List CoreM) (h : findCoreTokens s fn = .ok (ms, [])) :
    ∃ found, findAll s types fn = .ok found ∧
      (found = ms.map foundOf ++ (escPos 0 s).map escFound ∨ found = (escPos 0 s).map escFound ++ ms.map foundOf) := by
  unfold findAll
  have : types.contains .coreTokens = true := by
    rw [List.contains_iff_mem]
    exact List.count_pos_iff.1 (by omega)
  simp only [this, if_true, h]
  refine ⟨_, rfl, ?_⟩
  have h1 : findOne s ms [] .coreTokens = ms.map foundOf := rfl
  have h2 : findOne s ms [] .escapeSequence = (escPos 0 s).map escFound := by
    simp only [findOne, findIter_escape, List.map_map]
    rfl
  rw [← h1, ← h2]
  apply flatMap_two (findOne s ms []) .coreTokens .escapeSequence (by decide) types _ hc he
  intro t htm n1 n2
  rw [findOne_other s ms t n1]
  exact findOne_scanEsc s hs t (ht t htm) n2

theorem plainEsc_facts (s : Str) (hp : plainEsc s = true) : ∀ c ∈ s, c ≠ '<' ∧ c ≠ '&' := by
  intro c hc
  simp only [plainEsc, List.all_eq_true] at hp
  have := hp c hc
  simp only [plainEscChar, Bool.and_eq_true, bne_iff_ne, ne_eq] at this
  exact ⟨this.1.2, this.2⟩

/-- **C06, output level, with backslash escapes.**  As `emph_html_is_spec`, for texts that may contain backslashes
    (`plainEsc`: no backquote, brackets, `<`, `&`), against the specification with escapes (`specHtmlEscQ`: spans of
    `Spec.EmphasisEsc.spansEsc`; a backslash that escapes the next character is dropped, the escaped character is
    literal text; other backslashes are literal).  The token list must hold `EscapeSequence` once, like the HTML
    renderer's. -/
theorem emph_html_is_spec_esc (types : List STok) (fn : Footnotes.Table) (s : Str)
    (hp : plainEsc s = true) (hw : EmphRefine.stdWs s = true) (hnl : '\n' ∉ s) (htl : tildeOk s = true)
    (ht : ∀ t ∈ types, inertClass t = true) (hc : types.count .coreTokens = 1)
    (he : types.count .escapeSequence = 1) :
    ∃ ks, tokenizeInner types fn s = .ok ks ∧
      ∀ q : Quotes, flat (renderInlines q ks) = specHtmlEscQ q.dq q.sq s := by
  obtain ⟨ms, h1, h2, h3, h4⟩ := Props.C06.C06_emphasis_is_spec_esc_partial s fn hp ((EmphRefine.stdWs_iff s).1 hw)
  have hpf := plainEsc_facts s hp
  have hs : ScanEsc s := ⟨fun hm => (hpf _ hm).1 rfl, htl, hnl⟩
  obtain ⟨found, hfa, hfound⟩ := findAll_esc s types fn hs ht hc he ms h1
  refine ⟨_, tokenizeInner_found s types fn found hfa, ?_⟩
  intro q
  have hW : ∀ m ∈ ms, m.start < m.ts ∧ m.ts < m.te ∧ m.te < m.stop ∧ m.stop ≤ s.length := by
    intro m hm
    have := Props.C06.C06_emphasis_wellformed s fn ms [] h1 m hm (h3 m hm)
    exact ⟨this.1, this.2.1, this.2.2.1, this.2.2.2.1⟩
  have hN : ms.Pairwise (fun a b => a.stop ≤ b.start ∨ b.stop ≤ a.start ∨ (b.ts ≤ a.start ∧ a.stop ≤ b.te)) :=
    (Props.C06.C06_emphasis_nested s fn ms [] h1).imp_of_mem (fun ha hb hab => hab (h3 _ ha) (h3 _ hb))
  have hmarks := escPos_marks 0 s
  have hEs : ∀ i ∈ escPos 0 s, i + 2 ≤ s.length ∧ escapedAt s (i + 1) = true ∧ escapedAt s (i + 1 + 1) = false := by
    intro i hi
    have h5 := escPos_spec 0 s i hi
    refine ⟨by omega, ?_, ?_⟩
    · exact (hmarks i).2 (by simpa using hi)
    · cases h6 : escapedAt s (i + 1 + 1) with
      | false => rfl
      | true =>
        have := (hmarks (i + 1)).1 h6
        simp only [Nat.zero_add] at this
        rcases pairwise_mem _ (escPos_gap 0 s) i hi (i + 1) this with h | h | h <;> omega
  have hX : ∀ m ∈ ms, ∀ i ∈ escPos 0 s, ∀ k, k = i ∨ k = i + 1 →
      ¬ ((m.start ≤ k ∧ k < m.ts) ∨ (m.te ≤ k ∧ k < m.stop)) := by
    intro m hm i hi k hk hd
    rcases hk with rfl | rfl
    · have h5 := (escPos_spec 0 s k hi).1
      simp only [Nat.sub_zero] at h5
      obtain ⟨hst, ho, hcl⟩ := Props.C06.C06_emphasis_delimiters s fn ms [] h1 m hm (h3 m hm)
      have : s[k]? = some m.delimiter := by
        rcases hd with hd | hd
        · exact ho k hd.1 hd.2
        · exact hcl k hd.1 hd.2
      rw [h5] at this
      rcases hst with e | e <;> rw [e] at this <;> cases this
    · rw [h2] at hm
      obtain ⟨x, hx, rfl⟩ := List.mem_map.1 hm
      have := emphasisEsc_unescaped s x hx (i + 1) (by simpa [EmphRefine.toCoreM] using hd)
      rw [(hEs i hi).2.1] at this
      cases this
  have hsk : ∀ i, i < s.length → escapedAt s (i + 1) = true → i ∈ escPos 0 s := by
    intro i _ h5
    simpa using (hmarks i).1 h5
  rw [render_found s ms (escPos 0 s) (fun i => escapedAt s (i + 1)) hW hN h3 (escPos_gap 0 s) hEs hX hsk q types
    (fun c hc => (hpf c hc).2) found hfound]
  have e : ms.map tup = Spec.EmphasisEsc.spansEsc s := h4
  rw [e]
  rfl

end Mistletoe.EmphHtml

/-! ## J. Document level -/

namespace Mistletoe.EmphHtml
open Mistletoe Mistletoe.Py Mistletoe.Span Mistletoe.Inline Mistletoe.Html Mistletoe.Escape Mistletoe.Spec.EmphasisHtml
open Mistletoe.Core Mistletoe.InertInline Mistletoe.RefResolve

theorem lstrip_suffix : ∀ (s : Str), ∃ u, s = u ++ lstrip s
  | [] => ⟨[], rfl⟩
  | c :: s => by
    simp only [lstrip]
    split
    · obtain ⟨u, hu⟩ := lstrip_suffix s
      exact ⟨c :: u, by rw [List.cons_append, ← hu]⟩
    · exact ⟨[], rfl⟩

/-- `s.strip()` is a piece of `s` -/
theorem strip_infix (s : Str) : ∃ u v, s = u ++ strip s ++ v := by
  obtain ⟨u, hu⟩ := lstrip_suffix s
  obtain ⟨w, hw⟩ := lstrip_suffix (lstrip s).reverse
  refine ⟨u, w.reverse, ?_⟩
  have : lstrip s = strip s ++ w.reverse := by
    have := congrArg List.reverse hw
    simp only [List.reverse_reverse, List.reverse_append] at this
    exact this
  rw [List.append_assoc, ← this, ← hu]

theorem lstrip_append_nonblank : ∀ (s t : Str), isBlank s = false → lstrip (s ++ t) = lstrip s ++ t
  | [], _, h => by simp [isBlank] at h
  | c :: s, t, h => by
    simp only [List.cons_append, lstrip]
    split
    · rename_i hc
      apply lstrip_append_nonblank s t
      simp only [isBlank, List.all_cons, hc, Bool.true_and] at h
      exact h
    · rfl

theorem strip_snoc_nl (s : Str) (hb : isBlank s = false) : strip (s ++ ['\n']) = strip s := by
  unfold strip rstrip
  rw [lstrip_append_nonblank s _ hb]
  simp only [List.reverse_append, List.reverse_cons, List.reverse_nil, List.nil_append, List.cons_append, lstrip]
  have : pyIsSpace '\n' = true := by decide
  simp [this]

theorem render_paragraph (o : Opts) (ks : List Mistletoe.Inline) (ln : Nat) (fn : List (Str × Str × Str)) :
    render o { kids := [.paragraph ks ln], footnotes := fn } =
      "<p>".toList ++ flat (renderInlines o.q ks) ++ "</p>\n".toList := by
  have hp : flat (renderBlock o.q false (.paragraph ks ln)) =
      "<p>".toList ++ flat (renderInlines o.q ks) ++ "</p>".toList := by
    simp only [renderBlock, Bool.false_eq_true, if_false, flat_append]
    simp [flat, flatEv, flatAttrs]
  have hne : (flat (renderBlock o.q false (.paragraph ks ln))).isEmpty = false := by
    rw [hp]; rfl
  have hd : renderDoc o.q { kids := [.paragraph ks ln], footnotes := fn } =
      renderBlock o.q false (.paragraph ks ln) ++ [nl] := by
    simp only [renderDoc, renderSep, hne, Bool.false_eq_true, if_false]
  rw [render, hd, flat_append, hp]
  simp [flat, flatEv, nl]

/-- the hypotheses on the characters of `s` pass to `s.strip()` -/
theorem strip_hyps (s : Str) (P : Char → Bool) (hP : s.all P = true) (htl : tildeOk s = true)
    (h1 : oneLine (s ++ ['\n']) = true) :
    (strip s).all P = true ∧ tildeOk (strip s) = true ∧ '\n' ∉ strip s := by
  obtain ⟨u, v, huv⟩ := strip_infix s
  have hmem : ∀ c ∈ strip s, c ∈ s := by
    intro c hc; rw [huv]; simp [hc]
  refine ⟨?_, ?_, ?_⟩
  · simp only [List.all_eq_true] at hP ⊢
    exact fun c hc => hP c (hmem c hc)
  · rw [huv, List.append_assoc] at htl
    exact tildeOk_prefix _ v (tildeOk_suffix u _ htl)
  · intro hm
    have hm' := hmem _ hm
    simp only [oneLine, Bool.and_eq_true, List.dropLast_concat, List.all_eq_true] at h1
    have := h1.2 _ hm'
    revert this; decide

/-- the span-token list the HTML renderer installs holds `EscapeSequence` once -/
theorem html_escape_once : ∀ cfg, Config.html = some cfg → cfg.span.count .escapeSequence = 1 := by
  have h : ∀ cfg, Config.html = some cfg → (cfg.span.count .escapeSequence == 1) = true := by decide +kernel
  intro cfg hc
  simpa using h cfg hc

open Mistletoe.Props.C14 in
/-- `Document(s + "\n")` under the HTML renderer, for a line that is one paragraph line: `<p>`, the HTML of the inline
    phase on the stripped text, `</p>` -/
theorem paragraph_html (o : Opts) (gas : Nat) (s : Str) (out : Str)
    (h1 : oneLine (s ++ ['\n']) = true) (hl : inertLine (s ++ ['\n']) = true)
    (hin : ∀ cfg, Config.html = some cfg → ∃ ks, tokenizeInner cfg.span (Document.footnotesOf ({} : Block.St).defs) (strip s) = .ok ks ∧
      flat (renderInlines o.q ks) = out) :
    Config.renderHtml o (gas + 14) (s ++ ['\n']) = some ("<p>".toList ++ out ++ "</p>\n".toList) := by
  cases hcfg : Config.html with
  | none =>
    have := C14_config_current.1
    rw [hcfg] at this
    cases this
  | some cfg =>
    have hbt : cfg.block.types = defaultTypes := by
      have := C14_config_current.1
      rw [hcfg] at this
      simpa using this
    have hpar : Block.BTok.paragraph ∈ cfg.block.types := (C14_config_covered cfg (Or.inl hcfg)).1
    have hnb : isBlank (s ++ ['\n']) = false := (inertLine_quiet _ hl).nb
    have hnbs : isBlank s = false := by
      have : pyIsSpace '\n' = true := by decide
      simpa [isBlank, this] using hnb
    obtain ⟨ks, hk1, hk2⟩ := hin cfg hcfg
    have hparse : Document.parse cfg (gas + 14) (s ++ ['\n']) =
        .ok { kids := [.paragraph ks 1], footnotes := Document.footnotesOf ({} : Block.St).defs } := by
      have := parse_lines cfg (gas + 14) [s ++ ['\n']] (by simpa using h1)
      simp only [List.flatten_cons, List.flatten_nil, List.append_nil] at this
      rw [this]
      unfold Document.parseLines
      have hg : gas + 14 = gas + (cfg.block.types.length + 4) := by rw [hbt]; rfl
      rw [hg, C14_block_phase cfg.block hpar [s ++ ['\n']] (by simp) (by simpa using hl) gas]
      simp only
      have hin' : Document.inl cfg (Document.footnotesOf ({} : Block.St).defs) (strip ([s ++ ['\n']].map lstrip).flatten) = .ok ks := by
        unfold Document.inl
        rw [paragraph_content_one, strip_snoc_nl s hnbs]
        exact hk1
      simp only [Document.mkBlocks, Document.mkBlock, hin']
    unfold Config.renderHtml
    rw [hcfg]
    simp only [hparse]
    rw [render_paragraph, hk2]

open Mistletoe.Props.C14 in
/-- **C06 at document level.**  `s` is a text of the alphabet of `emph_html_is_spec` (without `~~`); the line `s ++ "\n"`
    holds no other line separator (`oneLine`: what `str.splitlines` keeps together; this also excludes a newline inside
    `s`) and is a paragraph line for the block phase (`inertLine` of C14: no block-start pattern fires on it).  Then
    `HtmlRenderer(**o).render(Document(s + "\n"))` is `<p>`, the specification's HTML of the stripped text, `</p>` and a
    newline.  `_partial`: see `emph_html_is_spec` for `~~` and newlines; `inertLine` is the block-level hypothesis
    (`*`, `_` at the start of a line can begin a list item or a thematic break). -/
theorem C06_paragraph_html_is_spec_partial (o : Opts) (gas : Nat) (s : Str)
    (hp : Spec.Emphasis.plain s = true) (hw : EmphRefine.stdWs s = true) (htl : tildeOk s = true)
    (h1 : oneLine (s ++ ['\n']) = true) (hl : inertLine (s ++ ['\n']) = true) :
    Config.renderHtml o (gas + 14) (s ++ ['\n']) =
      some ("<p>".toList ++ specHtmlQ o.dq o.sq (strip s) ++ "</p>\n".toList) := by
  apply paragraph_html o gas s _ h1 hl
  intro cfg hcfg
  obtain ⟨ht, hc⟩ := C07_config_covered cfg (Or.inl hcfg)
  obtain ⟨hp', htl', hnl'⟩ := strip_hyps s _ hp htl h1
  obtain ⟨hw', _, _⟩ := strip_hyps s _ hw htl h1
  obtain ⟨ks, hk1, hk2⟩ := emph_html_is_spec cfg.span _ (strip s) hp' hw' hnl' htl' ht hc
  exact ⟨ks, hk1, hk2 o.q⟩

open Mistletoe.Props.C14 in
/-- **… with backslash escapes** (`plainEsc`), against `specHtmlEscQ` -/
theorem C06_paragraph_html_is_spec_esc_partial (o : Opts) (gas : Nat) (s : Str)
    (hp : Spec.EmphasisEsc.plainEsc s = true) (hw : EmphRefine.stdWs s = true) (htl : tildeOk s = true)
    (h1 : oneLine (s ++ ['\n']) = true) (hl : inertLine (s ++ ['\n']) = true) :
    Config.renderHtml o (gas + 14) (s ++ ['\n']) =
      some ("<p>".toList ++ specHtmlEscQ o.dq o.sq (strip s) ++ "</p>\n".toList) := by
  apply paragraph_html o gas s _ h1 hl
  intro cfg hcfg
  obtain ⟨ht, hc⟩ := C07_config_covered cfg (Or.inl hcfg)
  obtain ⟨hp', htl', hnl'⟩ := strip_hyps s _ hp htl h1
  obtain ⟨hw', _, _⟩ := strip_hyps s _ hw htl h1
  obtain ⟨ks, hk1, hk2⟩ := emph_html_is_spec_esc cfg.span _ (strip s) hp' hw' hnl' htl' ht hc (html_escape_once cfg hcfg)
  exact ⟨ks, hk1, hk2 o.q⟩

end Mistletoe.EmphHtml

/-! ## Non-vacuity

  For each text: the hypotheses hold by kernel evaluation, the theorem applies, and the specification's HTML is the
  expected HTML of the CommonMark dingus; the kernel evaluation of the model gives the same string; so does the real code
  (`mistletoe.markdown(TEXT)` gives `<p>` + that string + `</p>\n`). -/

namespace Mistletoe.EmphHtml.Examples
open Mistletoe Mistletoe.Inline Mistletoe.Html Mistletoe.InertInline Mistletoe.Spec.EmphasisHtml
open Mistletoe.Props.C14 (htmlSpanTypes htmlSpanTypes_inert inlineHtml L inertLine)

/-- the instance of `emph_html_is_spec` for the HTML renderer's token list and default options -/
theorem inst (s : Str) (hp : Spec.Emphasis.plain s = true) (hw : EmphRefine.stdWs s = true)
    (hnl : ('\n' ∈ s) = False) (htl : tildeOk s = true) (out : Str) (ho : specHtml s = out) :
    ∃ ks, tokenizeInner htmlSpanTypes [] s = .ok ks ∧ flat (renderInlines ⟨false, false⟩ ks) = out := by
  obtain ⟨ks, h1, h2⟩ := emph_html_is_spec htmlSpanTypes [] s hp hw (by rw [hnl]; exact id) htl htmlSpanTypes_inert (by decide)
  exact ⟨ks, h1, by rw [h2]; exact ho⟩

example : ∃ ks, tokenizeInner htmlSpanTypes [] (L "***a** b*") = .ok ks ∧
    flat (renderInlines ⟨false, false⟩ ks) = L "<em><strong>a</strong> b</em>" :=
  inst _ (by decide +kernel) (by decide +kernel) (by decide +kernel) (by decide +kernel) _ (by decide +kernel)
example : inlineHtml (L "***a** b*") = .ok (L "<em><strong>a</strong> b</em>") := by decide +kernel

example : ∃ ks, tokenizeInner htmlSpanTypes [] (L "*a **b** c*") = .ok ks ∧
    flat (renderInlines ⟨false, false⟩ ks) = L "<em>a <strong>b</strong> c</em>" :=
  inst _ (by decide +kernel) (by decide +kernel) (by decide +kernel) (by decide +kernel) _ (by decide +kernel)
example : inlineHtml (L "*a **b** c*") = .ok (L "<em>a <strong>b</strong> c</em>") := by decide +kernel

example : ∃ ks, tokenizeInner htmlSpanTypes [] (L "_a*b_*") = .ok ks ∧
    flat (renderInlines ⟨false, false⟩ ks) = L "<em>a*b</em>*" :=
  inst _ (by decide +kernel) (by decide +kernel) (by decide +kernel) (by decide +kernel) _ (by decide +kernel)
example : inlineHtml (L "_a*b_*") = .ok (L "<em>a*b</em>*") := by decide +kernel

example : ∃ ks, tokenizeInner htmlSpanTypes [] (L "**a*") = .ok ks ∧
    flat (renderInlines ⟨false, false⟩ ks) = L "*<em>a</em>" :=
  inst _ (by decide +kernel) (by decide +kernel) (by decide +kernel) (by decide +kernel) _ (by decide +kernel)
example : inlineHtml (L "**a*") = .ok (L "*<em>a</em>") := by decide +kernel

/-- three levels, two siblings, text before, between and after, characters that are escaped -/
example : ∃ ks, tokenizeInner htmlSpanTypes [] (L "x > _y **z *w* z** y_ and __\"q\"__!") = .ok ks ∧
    flat (renderInlines ⟨false, false⟩ ks) =
      L "x &gt; <em>y <strong>z <em>w</em> z</strong> y</em> and <strong>\"q\"</strong>!" :=
  inst _ (by decide +kernel) (by decide +kernel) (by decide +kernel) (by decide +kernel) _ (by decide +kernel)
example : inlineHtml (L "x > _y **z *w* z** y_ and __\"q\"__!") =
    .ok (L "x &gt; <em>y <strong>z <em>w</em> z</strong> y</em> and <strong>\"q\"</strong>!") := by decide +kernel

/-- no span at all (stage (a)) and the empty text -/
example : ∃ ks, tokenizeInner htmlSpanTypes [] (L "a * b_c") = .ok ks ∧ flat (renderInlines ⟨false, false⟩ ks) = L "a * b_c" :=
  inst _ (by decide +kernel) (by decide +kernel) (by decide +kernel) (by decide +kernel) _ (by decide +kernel)
example : ∃ ks, tokenizeInner htmlSpanTypes [] [] = .ok ks ∧ flat (renderInlines ⟨false, false⟩ ks) = [] :=
  inst _ (by decide +kernel) (by decide +kernel) (by decide +kernel) (by decide +kernel) _ (by decide +kernel)

/-- with `html_escape_double_quotes=True` -/
example : ∃ ks, tokenizeInner htmlSpanTypes [] (L "*a \"b\"*") = .ok ks ∧
    flat (renderInlines ⟨true, false⟩ ks) = L "<em>a &quot;b&quot;</em>" := by
  obtain ⟨ks, h1, h2⟩ := emph_html_is_spec htmlSpanTypes [] (L "*a \"b\"*") (by decide +kernel) (by decide +kernel)
    (by decide +kernel) (by decide +kernel) htmlSpanTypes_inert (by decide)
  exact ⟨ks, h1, by rw [h2]; decide +kernel⟩

/-! document level: by the theorem, and by evaluating the whole model (`Document` + `HtmlRenderer`) -/

example : Config.renderHtml {} 14 (L "***a** b*\n") = some (L "<p><em><strong>a</strong> b</em></p>\n") := by
  have := C06_paragraph_html_is_spec_partial {} 0 (L "***a** b*") (by decide +kernel) (by decide +kernel) (by decide +kernel)
    (by decide +kernel) (by decide +kernel)
  rw [show (0 + 14 = 14) from rfl] at this
  rw [show L "***a** b*\n" = L "***a** b*" ++ ['\n'] from by decide, this]
  decide +kernel
example : Config.renderHtml {} 14 (L "***a** b*\n") = some (L "<p><em><strong>a</strong> b</em></p>\n") := by decide +kernel

/-- leading and trailing blanks of the line are stripped before the inline phase -/
example : Config.renderHtml {} 14 (L "  x *a **b** c* _d_  \n") = some (L "<p>x <em>a <strong>b</strong> c</em> <em>d</em></p>\n") := by
  have := C06_paragraph_html_is_spec_partial {} 0 (L "  x *a **b** c* _d_  ") (by decide +kernel) (by decide +kernel) (by decide +kernel)
    (by decide +kernel) (by decide +kernel)
  rw [show (0 + 14 = 14) from rfl] at this
  rw [show L "  x *a **b** c* _d_  \n" = L "  x *a **b** c* _d_  " ++ ['\n'] from by decide, this]
  decide +kernel

/-! ### with backslash escapes

  `mistletoe.markdown` on these texts gives `<p>` + the string + `</p>`. -/

/-- the instance of `emph_html_is_spec_esc` for the HTML renderer's token list and default options -/
theorem instEsc (s : Str) (hp : Spec.EmphasisEsc.plainEsc s = true) (hw : EmphRefine.stdWs s = true)
    (hnl : ('\n' ∈ s) = False) (htl : tildeOk s = true) (out : Str) (ho : specHtmlEsc s = out) :
    ∃ ks, tokenizeInner htmlSpanTypes [] s = .ok ks ∧ flat (renderInlines ⟨false, false⟩ ks) = out := by
  obtain ⟨ks, h1, h2⟩ := emph_html_is_spec_esc htmlSpanTypes [] s hp hw (by rw [hnl]; exact id) htl htmlSpanTypes_inert
    (by decide) (by decide)
  exact ⟨ks, h1, by rw [h2]; exact ho⟩

/-- example 14 (first line), 15, 436, 439 of the 0.30 test suite -/
example : ∃ ks, tokenizeInner htmlSpanTypes [] (L "\\*not emphasized*") = .ok ks ∧
    flat (renderInlines ⟨false, false⟩ ks) = L "*not emphasized*" :=
  instEsc _ (by decide +kernel) (by decide +kernel) (by decide +kernel) (by decide +kernel) _ (by decide +kernel)
example : inlineHtml (L "\\*not emphasized*") = .ok (L "*not emphasized*") := by decide +kernel

example : ∃ ks, tokenizeInner htmlSpanTypes [] (L "\\\\*emphasis*") = .ok ks ∧
    flat (renderInlines ⟨false, false⟩ ks) = L "\\<em>emphasis</em>" :=
  instEsc _ (by decide +kernel) (by decide +kernel) (by decide +kernel) (by decide +kernel) _ (by decide +kernel)
example : inlineHtml (L "\\\\*emphasis*") = .ok (L "\\<em>emphasis</em>") := by decide +kernel

example : ∃ ks, tokenizeInner htmlSpanTypes [] (L "foo *\\**") = .ok ks ∧
    flat (renderInlines ⟨false, false⟩ ks) = L "foo <em>*</em>" :=
  instEsc _ (by decide +kernel) (by decide +kernel) (by decide +kernel) (by decide +kernel) _ (by decide +kernel)
example : inlineHtml (L "foo *\\**") = .ok (L "foo <em>*</em>") := by decide +kernel

example : ∃ ks, tokenizeInner htmlSpanTypes [] (L "foo **\\***") = .ok ks ∧
    flat (renderInlines ⟨false, false⟩ ks) = L "foo <strong>*</strong>" :=
  instEsc _ (by decide +kernel) (by decide +kernel) (by decide +kernel) (by decide +kernel) _ (by decide +kernel)
example : inlineHtml (L "foo **\\***") = .ok (L "foo <strong>*</strong>") := by decide +kernel

/-- escapes inside nested emphasis, an escaped backslash, a literal backslash before a letter, an escaped `>`, a final
    backslash -/
example : ∃ ks, tokenizeInner htmlSpanTypes [] (L "_x \\_ **y \\* z** \\\\_ \\a*b\\>*\\") = .ok ks ∧
    flat (renderInlines ⟨false, false⟩ ks) = L "<em>x _ <strong>y * z</strong> \\</em> \\a<em>b&gt;</em>\\" :=
  instEsc _ (by decide +kernel) (by decide +kernel) (by decide +kernel) (by decide +kernel) _ (by decide +kernel)
example : inlineHtml (L "_x \\_ **y \\* z** \\\\_ \\a*b\\>*\\") =
    .ok (L "<em>x _ <strong>y * z</strong> \\</em> \\a<em>b&gt;</em>\\") := by decide +kernel

/-- on a text without backslash the two specifications give the same HTML -/
example : specHtmlEsc (L "***a** b*") = specHtml (L "***a** b*") := by decide +kernel

/-- document level -/
example : Config.renderHtml {} 14 (L "**a\\*b** \\\\ *c*\n") = some (L "<p><strong>a*b</strong> \\ <em>c</em></p>\n") := by
  have := C06_paragraph_html_is_spec_esc_partial {} 0 (L "**a\\*b** \\\\ *c*") (by decide +kernel) (by decide +kernel)
    (by decide +kernel) (by decide +kernel) (by decide +kernel)
  rw [show (0 + 14 = 14) from rfl] at this
  rw [show L "**a\\*b** \\\\ *c*\n" = L "**a\\*b** \\\\ *c*" ++ ['\n'] from by decide, this]
  decide +kernel
example : Config.renderHtml {} 14 (L "**a\\*b** \\\\ *c*\n") = some (L "<p><strong>a*b</strong> \\ <em>c</em></p>\n") := by
  decide +kernel

/-! ### why `hnl` and `htl` were added (`~~` and newlines are inside `plain`)

  `Strikethrough` and `LineBreak` are in the HTML renderer's token list.  On the real code:
  `mistletoe.markdown('*a* ~~b~~')` = `<p><em>a</em> <del>b</del></p>`, `mistletoe.markdown('*a ~~b* c~~')` =
  `<p>*a <del>b* c</del></p>` (the strikethrough, precedence 5, wins over the emphasis it overlaps),
  `mistletoe.markdown('*a  \nb*')` = `<p><em>a<br />\nb</em></p>`: the model agrees, the specification of section 6.2
  alone knows neither construct. -/

example : Spec.Emphasis.plain (L "*a ~~b* c~~") = true ∧ inlineHtml (L "*a ~~b* c~~") = .ok (L "*a <del>b* c</del>") ∧
    specHtml (L "*a ~~b* c~~") = L "<em>a ~~b</em> c~~" := by decide +kernel
example : Spec.Emphasis.plain (L "*a  \nb*") = true ∧ inlineHtml (L "*a  \nb*") = .ok (L "<em>a<br />\nb</em>") ∧
    specHtml (L "*a  \nb*") = L "<em>a  \nb</em>" := by decide +kernel

end Mistletoe.EmphHtml.Examples
