/-
  C06, output level: the `<em>` / `<strong>` STRUCTURE OF THE OUTPUT is the specification's.

  Props/C06.lean (`C06_emphasis_is_spec_partial`) says that the MATCHES `find_core_tokens` returns are, one for one, the
  emphasis nodes of the CommonMark 0.30 delimiter algorithm (`Spec/Emphasis.lean`).  This file proves the remaining step,
  from the matches to the output string:

    A. the span resolver (`Span.tokenize`: `find_tokens` ordering, `eval_tokens`, `eval_new_child`, `append_child`) on a
       LAMINAR family of candidates - pairwise disjoint, or one inside the parse group of the other - drops nothing: the
       forest it hands to `make_tokens` holds every candidate (`resolve_nodes`); with the tiling theorems of
       Proofs/Span.lean this determines the forest;
    B. SPECIFICATION of the HTML of an inline text from its spans, position by position (`Spec.EmphasisHtml.specHtmlQ`,
       `specHtml`): independent of the model of the resolver, the token builder and the renderer;
    C. `make_tokens`, the token constructors (`Inline.build`) and `HtmlRenderer.render_inner` (`Html.renderInlines`) on such
       a forest produce exactly that string (`render_make` / `render_rev` / `render_before`, by induction over the forest:
       arbitrary nesting);
    D. the candidates of a text of the C06 alphabet are its emphasis matches and nothing else;
    E. `emph_html_is_spec` (inline level, every covered token list, every definitions table, every quote option) and
       `C06_paragraph_html_is_spec_partial` (`Document` + `HtmlRenderer` on a one-line paragraph).

  Stage reached: (c) arbitrary nesting, for texts without backslash.  Not done: backslash escapes (`plainEsc`).
-/
import Mistletoe.Props.C06
import Mistletoe.Props.C14
import Mistletoe.Proofs.RefResolve
namespace Mistletoe.EmphHtml
open Mistletoe Mistletoe.Span

/-! ## A. The span resolver on a laminar family of candidates -/

mutual
/-- the candidates in a `ParseToken` tree -/
def nodes : PTok → List Cand
  | .mk c kids => c :: nodesL kids
def nodesL : List PTok → List Cand
  | [] => []
  | t :: ts => nodes t ++ nodesL ts
end

/-- `c` is in the forest, `y` arrives later: `c` ends before `y` starts, or `c` parses its inner text and `y` lies in
    `c`'s parse group -/
def Fits (c y : Cand) : Prop :=
  c.pend ≤ c.stop ∧ (c.stop ≤ y.start ∨ (c.inner = true ∧ c.pstart ≤ y.start ∧ y.stop ≤ c.pend))

theorem relation_of_fits {c y : Cand} (h : Fits c y) :
    relation c y = 0 ∨ (c.inner = true ∧ relation c y = 2) := by
  obtain ⟨h1, h2⟩ := h
  unfold relation
  rcases h2 with h2 | ⟨hi, h3, h4⟩
  · left; simp [h2]
  · by_cases h0 : c.stop ≤ y.start
    · left; simp [h0]
    · right
      refine ⟨hi, ?_⟩
      have h5 : c.stop ≥ y.stop := by omega
      simp [h0, h5, h3, h4]

theorem insert_nodes :
    (∀ (p child : PTok), (∀ c ∈ nodes p, Fits c child.c) → p.c.inner = true →
        ∀ x, x ∈ nodes (appendChild p child) ↔ x ∈ nodes child ∨ x ∈ nodes p) ∧
    (∀ (kids : List PTok) (child : PTok), (∀ c ∈ nodesL kids, Fits c child.c) →
        ∀ x, x ∈ nodesL (evalNewChild kids child) ↔ x ∈ nodes child ∨ x ∈ nodesL kids) := by
  apply appendChild.mutual_induct
  · intro c kids child hin ih hf _ x
    simp only [appendChild, hin, if_true, nodes, List.mem_cons]
    rw [ih (fun c' hc' => hf c' (by simp [nodes, hc'])) x]
    constructor
    · rintro (h | h | h) <;> simp [h]
    · rintro (h | h | h) <;> simp [h]
  · intro c kids child hin _ hi
    exact absurd hi hin
  · intro child _ x
    simp [evalNewChild, nodesL]
  · intro last rest child hr _ x
    simp only [evalNewChild, hr, nodesL, List.mem_append]
  · intro last rest child hr _ hf
    have := relation_of_fits (hf last.c (by cases last; simp [nodesL, nodes, PTok.c]))
    rcases this with h | ⟨_, h⟩ <;> omega
  · intro last rest child hr _ hf
    have := relation_of_fits (hf last.c (by cases last; simp [nodesL, nodes, PTok.c]))
    rcases this with h | ⟨_, h⟩ <;> omega
  · intro last rest child hr ih hf x
    have hl := relation_of_fits (hf last.c (by cases last; simp [nodesL, nodes, PTok.c]))
    have hin : last.c.inner = true := by
      rcases hl with h | ⟨h, _⟩
      · omega
      · exact h
    simp only [evalNewChild, hr, nodesL, List.mem_append]
    rw [ih (fun c' hc' => hf c' (by simp [nodesL, hc'])) hin x]
    constructor
    · rintro ((h | h) | h) <;> simp [h]
    · rintro (h | h | h) <;> simp [h]
  · intro last rest child h0 _ h2 hf
    have := relation_of_fits (hf last.c (by cases last; simp [nodesL, nodes, PTok.c]))
    rcases this with h | ⟨_, h⟩
    · exact absurd h h0
    · exact absurd h h2

theorem fold_nodes : ∀ (cs : List Cand) (kids : List PTok), cs.Pairwise Fits →
    (∀ c ∈ nodesL kids, ∀ y ∈ cs, Fits c y) →
    ∀ x, x ∈ nodesL ((cs.map (fun c => PTok.mk c [])).foldl evalNewChild kids) ↔ x ∈ cs ∨ x ∈ nodesL kids
  | [], kids, _, _, x => by simp
  | c :: cs, kids, hp, hk, x => by
    rw [List.pairwise_cons] at hp
    simp only [List.map_cons, List.foldl_cons]
    have h1 := insert_nodes.2 kids (PTok.mk c []) (fun c' hc' => hk c' hc' c (by simp))
    rw [fold_nodes cs _ hp.2 ?_ x, h1 x]
    · simp only [nodes, nodesL, List.mem_cons, List.not_mem_nil, or_false]
      constructor
      · rintro (h | h | h) <;> simp [h]
      · rintro ((h | h) | h) <;> simp [h]
    · intro c' hc' y hy
      rcases (h1 c').1 hc' with h | h
      · simp only [nodes, nodesL, List.mem_cons, List.not_mem_nil, or_false] at h
        subst h
        exact hp.1 y hy
      · exact hk c' h y (List.mem_cons_of_mem _ hy)

/-- two candidates of a laminar family: different starts; disjoint, or one inside the parse group of the other, which
    then parses its inner text -/
def Lam (a b : Cand) : Prop :=
  a.start ≠ b.start ∧
  (a.stop ≤ b.start ∨ b.stop ≤ a.start ∨
   (b.inner = true ∧ b.start < a.start ∧ b.pstart ≤ a.start ∧ a.stop ≤ b.pend) ∨
   (a.inner = true ∧ a.start < b.start ∧ a.pstart ≤ b.start ∧ b.stop ≤ a.pend))

theorem Lam.symm {a b : Cand} (h : Lam a b) : Lam b a := by
  obtain ⟨h1, h2⟩ := h
  refine ⟨fun e => h1 e.symm, ?_⟩
  rcases h2 with h | h | h | h
  · exact Or.inr (Or.inl h)
  · exact Or.inl h
  · exact Or.inr (Or.inr (Or.inr h))
  · exact Or.inr (Or.inr (Or.inl h))

theorem fits_of_lam {a b : Cand} (h : Lam a b) (hle : a.start ≤ b.start) (wa : CandWF a) (wb : CandWF b) :
    Fits a b := by
  obtain ⟨h1, h2⟩ := h
  unfold CandWF at wa wb
  refine ⟨wa.2.2, ?_⟩
  rcases h2 with h | h | ⟨_, h, _⟩ | ⟨hi, _, h3, h4⟩
  · exact Or.inl h
  · omega
  · omega
  · exact Or.inr ⟨hi, h3, h4⟩

/-- sorted by start, and every earlier one `Fits` every later one -/
def Ord (a b : Cand) : Prop := a.start ≤ b.start ∧ Fits a b

theorem pairwise_insert (x : Cand) (wx : CandWF x) : ∀ (ys : List Cand), ys.Pairwise Ord →
    (∀ y ∈ ys, Lam x y ∧ CandWF y) → (insertByStart x ys).Pairwise Ord
  | [], _, _ => by simp [insertByStart]
  | y :: ys, hy, hx => by
    rw [List.pairwise_cons] at hy
    simp only [insertByStart]
    split
    · rename_i hle
      rw [List.pairwise_cons]
      refine ⟨?_, List.pairwise_cons.2 hy⟩
      intro z hz
      have hz' := hx z hz
      have : x.start ≤ z.start := by
        rcases List.mem_cons.1 hz with rfl | hz
        · exact hle
        · have := (hy.1 z hz).1; omega
      exact ⟨this, fits_of_lam hz'.1 this wx hz'.2⟩
    · rename_i hgt
      rw [List.pairwise_cons]
      refine ⟨?_, pairwise_insert x wx ys hy.2 (fun z hz => hx z (List.mem_cons_of_mem _ hz))⟩
      intro z hz
      rcases (mem_insertByStart x z ys).1 hz with rfl | hz
      · have hy' := hx y (by simp)
        have : y.start ≤ z.start := by omega
        exact ⟨this, fits_of_lam hy'.1.symm this hy'.2 wx⟩
      · exact hy.1 z hz

theorem sort_pairwise : ∀ (cs : List Cand), cs.Pairwise Lam → (∀ c ∈ cs, CandWF c) → (sortByStart cs).Pairwise Ord
  | [], _, _ => by simp [sortByStart]
  | c :: cs, hp, hw => by
    rw [List.pairwise_cons] at hp
    show (insertByStart c (sortByStart cs)).Pairwise Ord
    apply pairwise_insert c (hw c (by simp)) _ (sort_pairwise cs hp.2 (fun x hx => hw x (List.mem_cons_of_mem _ hx)))
    intro y hy
    have hy' := (mem_sortByStart y cs).1 hy
    exact ⟨hp.1 y hy', hw y (List.mem_cons_of_mem _ hy')⟩

/-- **Nothing is dropped.**  On a laminar family, the forest `tokenize` hands to `make_tokens` holds every candidate
    (and nothing else). -/
theorem resolve_nodes (cs : List Cand) (hp : cs.Pairwise Lam) (hw : ∀ c ∈ cs, CandWF c) :
    ∀ x, x ∈ nodesL (resolve cs).reverse ↔ x ∈ cs := by
  intro x
  unfold resolve
  rw [resolveSorted_reverse, fold_nodes _ [] ((sort_pairwise cs hp hw).imp (fun h => h.2)) (by simp [nodesL]) x]
  simp [nodesL, mem_sortByStart]

end Mistletoe.EmphHtml

/-! ## B. SPECIFICATION: the HTML of an inline text, from its emphasis spans

  Independent of the model of span_tokenizer.py / span_token.py / html_renderer.py: the definition reads the text, the
  list of spans `(start, text start, text end, stop, strong)` and a per-character escaping function, nothing else.

  The text is walked position by position.  At position `i` the output has
    * the opening tag (`<em>` / `<strong>`) of the span that starts at `i`, if there is one;
    * nothing for the character itself if `i` lies in the opening delimiter `[start, text start)` or in the closing
      delimiter `[text end, stop)` of some span; otherwise the character, escaped;
    * the closing tag of the span whose last character is at `i` (`stop = i + 1`), if there is one.
  (Spans have non-empty delimiters and nest, so at most one span starts, and at most one stops, at a position.) -/

namespace Mistletoe.Spec.EmphasisHtml
open Mistletoe Mistletoe.Escape

/-- (start, text start, text end, stop, strong), as returned by `Spec.Emphasis.spans` -/
abbrev Span5 := Nat × Nat × Nat × Nat × Bool

def openTag (strong : Bool) : Str := if strong then "<strong>".toList else "<em>".toList
def closeTag (strong : Bool) : Str := if strong then "</strong>".toList else "</em>".toList

/-- position `i` holds a delimiter character of some span -/
def isDelimPos (L : List Span5) (i : Nat) : Bool :=
  L.any (fun p => (decide (p.1 ≤ i) && decide (i < p.2.1)) || (decide (p.2.2.1 ≤ i) && decide (i < p.2.2.2.1)))

/-- the output for position `i` of the text -/
def emitAt (esc : Char → Str) (L : List Span5) (s : Str) (i : Nat) : Str :=
  (match L.find? (fun p => p.1 == i) with | some p => openTag p.2.2.2.2 | none => []) ++
  (if isDelimPos L i then [] else match s[i]? with | some c => esc c | none => []) ++
  (match L.find? (fun p => p.2.2.2.1 == i + 1) with | some p => closeTag p.2.2.2.2 | none => [])

/-- `f a ++ f (a + 1) ++ … ++ f (a + n - 1)` -/
def cat (f : Nat → Str) : Nat → Nat → Str
  | _, 0 => []
  | a, n + 1 => f a ++ cat f (a + 1) n

/-- the HTML of the text `s` whose emphasis spans are `L` -/
def htmlOf (esc : Char → Str) (L : List Span5) (s : Str) : Str := cat (emitAt esc L s) 0 s.length

/-- `HtmlRenderer.escape_html_text` of one character (`html.escape(c, quote=False)` plus the two quote options);
    a per-character table regenerated from the working tree (Model/Escape.lean) -/
def escChar (dq sq : Bool) (c : Char) : Str := escapeHtmlText dq sq [c]

/-- **the specification's HTML of a plain inline text** (no backslash, backquote, brackets, `<`, `&`): the spans are
    those of the CommonMark 0.30 delimiter algorithm (`Spec.Emphasis.spans`) -/
def specHtmlQ (dq sq : Bool) (s : Str) : Str := htmlOf (escChar dq sq) (Emphasis.spans s) s

/-- … under the renderer's default options (quotes are not escaped) -/
def specHtml (s : Str) : Str := specHtmlQ false false s

/-- the examples of section 6.2 quoted in the task, against the expected HTML of the CommonMark dingus -/
example : specHtml "***a** b*".toList = "<em><strong>a</strong> b</em>".toList := by decide +kernel
example : specHtml "*a **b** c*".toList = "<em>a <strong>b</strong> c</em>".toList := by decide +kernel
example : specHtml "_a*b_*".toList = "<em>a*b</em>*".toList := by decide +kernel
example : specHtml "**a*".toList = "*<em>a</em>".toList := by decide +kernel
example : specHtml "*a > \"b\"* 'c'".toList = "<em>a &gt; \"b\"</em> 'c'".toList := by decide +kernel
example : specHtmlQ true false "*a > \"b\"* 'c'".toList = "<em>a &gt; &quot;b&quot;</em> 'c'".toList := by decide +kernel

end Mistletoe.Spec.EmphasisHtml

/-! ## C. From the resolved forest to the HTML -/

namespace Mistletoe.EmphHtml
open Mistletoe Mistletoe.Span Mistletoe.Inline Mistletoe.Html Mistletoe.Escape Mistletoe.Spec.EmphasisHtml

/-- `f a ++ … ++ f (b - 1)` -/
def walk (f : Nat → Str) (a b : Nat) : Str := cat f a (b - a)

theorem cat_append (f : Nat → Str) : ∀ (m a n : Nat), cat f a (m + n) = cat f a m ++ cat f (a + m) n
  | 0, a, n => by simp [cat]
  | m + 1, a, n => by
    have e : m + 1 + n = (m + n) + 1 := by omega
    rw [e]
    simp only [cat, cat_append f m (a + 1) n, List.append_assoc]
    have e2 : a + 1 + m = a + (m + 1) := by omega
    rw [e2]

theorem walk_split (f : Nat → Str) (a m b : Nat) (h1 : a ≤ m) (h2 : m ≤ b) :
    walk f a b = walk f a m ++ walk f m b := by
  unfold walk
  have e : b - a = (m - a) + (b - m) := by omega
  rw [e, cat_append]
  have e2 : a + (m - a) = m := by omega
  rw [e2]

theorem walk_self (f : Nat → Str) (a : Nat) : walk f a a = [] := by simp [walk, cat]

theorem cat_nil (f : Nat → Str) : ∀ (n a : Nat), (∀ i, a ≤ i → i < a + n → f i = []) → cat f a n = []
  | 0, _, _ => rfl
  | n + 1, a, h => by
    simp only [cat]
    rw [h a (by omega) (by omega), cat_nil f n (a + 1) (fun i h1 h2 => h i (by omega) (by omega))]
    rfl

theorem walk_first (f : Nat → Str) (a b : Nat) (hab : a < b) (h : ∀ i, a < i → i < b → f i = []) :
    walk f a b = f a := by
  unfold walk
  have e : b - a = (b - a - 1) + 1 := by omega
  rw [e]
  simp only [cat]
  rw [cat_nil f _ _ (fun i h1 h2 => h i (by omega) (by omega))]
  simp

theorem walk_last (f : Nat → Str) (a b : Nat) (hab : a < b) (h : ∀ i, a ≤ i → i + 1 < b → f i = []) :
    walk f a b = f (b - 1) := by
  rw [walk_split f a (b - 1) b (by omega) (by omega)]
  have h1 : walk f a (b - 1) = [] := cat_nil f _ _ (fun i h1 h2 => h i h1 (by omega))
  rw [h1]
  unfold walk
  have e : b - (b - 1) = 0 + 1 := by omega
  rw [e]
  simp [cat]

theorem slice_step (s : Str) (a b : Nat) (c : Char) (hab : a < b) (hc : s[a]? = some c) :
    slice s a b = c :: slice s (a + 1) b := by
  unfold slice
  have hlt : a < s.length := by
    rcases Nat.lt_or_ge a s.length with h | h
    · exact h
    · rw [List.getElem?_eq_none h] at hc; cases hc
  have hg : s[a] = c := by
    rw [List.getElem?_eq_getElem hlt] at hc
    exact Option.some.inj hc
  rw [List.drop_eq_getElem_cons hlt, hg]
  have e : b - a = (b - (a + 1)) + 1 := by omega
  rw [e, List.take_succ_cons]

theorem cat_raw (dq sq : Bool) (f : Nat → Str) (s : Str) : ∀ (n a : Nat), a + n ≤ s.length →
    (∀ i, a ≤ i → i < a + n → f i = match s[i]? with | some c => escChar dq sq c | none => []) →
    cat f a n = escapeHtmlText dq sq (slice s a (a + n))
  | 0, a, _, _ => by simp [cat, slice, escapeHtmlText, mapChars]
  | n + 1, a, hb, h => by
    have hlt : a < s.length := by omega
    have hc : s[a]? = some s[a] := List.getElem?_eq_getElem hlt
    simp only [cat]
    rw [h a (by omega) (by omega), hc, slice_step s a (a + (n + 1)) s[a] (by omega) hc]
    have ih := cat_raw dq sq f s n (a + 1) (by omega) (fun i h1 h2 => h i (by omega) (by omega))
    have e : a + 1 + n = a + (n + 1) := by omega
    rw [e] at ih
    rw [ih]
    have e2 : s[a] :: slice s (a + 1) (a + (n + 1)) = [s[a]] ++ slice s (a + 1) (a + (n + 1)) := rfl
    rw [e2, InertInline.escape_append]
    rfl

/-! ### what is emitted at a position -/

/-- the positions `[a, b)` touch no delimiter of `p`: they lie outside `p`, or inside its text -/
def Quiet (p : Span5) (a b : Nat) : Prop := b ≤ p.1 ∨ p.2.2.2.1 ≤ a ∨ (p.2.1 ≤ a ∧ b ≤ p.2.2.1)

theorem Quiet.mono {p : Span5} {a b a' b' : Nat} (h : Quiet p a b) (h1 : a ≤ a') (h2 : b' ≤ b) : Quiet p a' b' := by
  unfold Quiet at h ⊢; omega

/-- the spans are well formed (non-empty delimiters around the text) and laminar -/
structure Ctx (L : List Span5) : Prop where
  wf : ∀ p ∈ L, p.1 < p.2.1 ∧ p.2.1 ≤ p.2.2.1 ∧ p.2.2.1 < p.2.2.2.1
  lam : ∀ p ∈ L, ∀ p' ∈ L, p = p' ∨ p.2.2.2.1 ≤ p'.1 ∨ p'.2.2.2.1 ≤ p.1 ∨
    (p'.2.1 ≤ p.1 ∧ p.2.2.2.1 ≤ p'.2.2.1) ∨ (p.2.1 ≤ p'.1 ∧ p'.2.2.2.1 ≤ p.2.2.1)

theorem emit_quiet (esc : Char → Str) (L : List Span5) (s : Str) (hC : Ctx L) (i : Nat)
    (hq : ∀ p ∈ L, Quiet p i (i + 1)) :
    emitAt esc L s i = match s[i]? with | some c => esc c | none => [] := by
  have h1 : L.find? (fun p => p.1 == i) = none := by
    rw [List.find?_eq_none]
    intro p hp
    have := hq p hp; have := hC.wf p hp
    unfold Quiet at *
    simp only [beq_iff_eq]; omega
  have h2 : L.find? (fun p => p.2.2.2.1 == i + 1) = none := by
    rw [List.find?_eq_none]
    intro p hp
    have := hq p hp; have := hC.wf p hp
    unfold Quiet at *
    simp only [beq_iff_eq]; omega
  have h3 : isDelimPos L i = false := by
    unfold isDelimPos
    rw [List.any_eq_false]
    intro p hp
    have := hq p hp; have := hC.wf p hp
    unfold Quiet at *
    simp only [Bool.or_eq_true, Bool.and_eq_true, decide_eq_true_eq]; omega
  unfold emitAt
  rw [h1, h2, h3]
  simp

theorem emit_delim (esc : Char → Str) (L : List Span5) (s : Str) (hC : Ctx L) (i : Nat) (p : Span5) (hp : p ∈ L)
    (hi : (p.1 ≤ i ∧ i < p.2.1) ∨ (p.2.2.1 ≤ i ∧ i < p.2.2.2.1)) :
    emitAt esc L s i = (if i = p.1 then openTag p.2.2.2.2 else []) ++ (if i + 1 = p.2.2.2.1 then closeTag p.2.2.2.2 else []) := by
  have wp := hC.wf p hp
  have h1 : (match L.find? (fun p => p.1 == i) with | some p => openTag p.2.2.2.2 | none => []) =
      if i = p.1 then openTag p.2.2.2.2 else [] := by
    cases hf : L.find? (fun p => p.1 == i) with
    | none =>
      have := List.find?_eq_none.1 hf p hp
      simp only [beq_iff_eq] at this
      rw [if_neg (fun e => this e.symm)]
    | some p' =>
      have e1 := List.find?_some hf
      have m1 := List.mem_of_find?_eq_some hf
      simp only [beq_iff_eq] at e1
      have wp' := hC.wf p' m1
      rcases hC.lam p hp p' m1 with rfl | h | h | h | h
      · simp [e1]
      all_goals omega
  have h2 : (match L.find? (fun p => p.2.2.2.1 == i + 1) with | some p => closeTag p.2.2.2.2 | none => []) =
      if i + 1 = p.2.2.2.1 then closeTag p.2.2.2.2 else [] := by
    cases hf : L.find? (fun p => p.2.2.2.1 == i + 1) with
    | none =>
      have := List.find?_eq_none.1 hf p hp
      simp only [beq_iff_eq] at this
      rw [if_neg (fun e => this e.symm)]
    | some p' =>
      have e1 := List.find?_some hf
      have m1 := List.mem_of_find?_eq_some hf
      simp only [beq_iff_eq] at e1
      have wp' := hC.wf p' m1
      rcases hC.lam p hp p' m1 with rfl | h | h | h | h
      · simp [e1]
      all_goals omega
  have h3 : isDelimPos L i = true := by
    unfold isDelimPos
    rw [List.any_eq_true]
    refine ⟨p, hp, ?_⟩
    simp only [Bool.or_eq_true, Bool.and_eq_true, decide_eq_true_eq]
    exact hi
  unfold emitAt
  rw [h1, h2, h3]
  simp

end Mistletoe.EmphHtml

namespace Mistletoe.EmphHtml
open Mistletoe Mistletoe.Span Mistletoe.Inline Mistletoe.Html Mistletoe.Escape Mistletoe.Spec.EmphasisHtml

/-! ### the candidates of a well-formed forest lie where the forest lies -/

theorem wf_cand : ∀ (t : PTok), t.WF → CandWF t.c
  | .mk _ _, h => by simp only [PTok.WF] at h; exact h.1

mutual
theorem nodes_range : ∀ (t : PTok), t.WF → ∀ c ∈ nodes t, t.c.start ≤ c.start ∧ c.stop ≤ t.c.stop
  | .mk c kids, h, c', hc' => by
    simp only [PTok.WF, CandWF] at h
    simp only [nodes, List.mem_cons] at hc'
    simp only [PTok.c]
    rcases hc' with rfl | hc'
    · omega
    · have := nodesL_range kids _ _ h.2 c' hc'
      omega
theorem nodesL_range : ∀ (ts : List PTok) (lo hi : Nat), KidsOK ts lo hi → ∀ c ∈ nodesL ts, lo ≤ c.start ∧ c.stop ≤ hi
  | [], _, _, _, c, hc => by simp [nodesL] at hc
  | t :: earlier, lo, hi, h, c, hc => by
    simp only [KidsOK] at h
    simp only [nodesL, List.mem_append] at hc
    have wt := wf_cand t h.1
    unfold CandWF at wt
    rcases hc with hc | hc
    · have := nodes_range t h.1 c hc
      omega
    · have := nodesL_range earlier _ _ h.2.2.2 c hc
      omega
end

/-! ### rendering -/

section
variable (q : Quotes) (s : Str) (found : List Found) (L : List Span5)

/-- the HTML of a list of resolved tokens -/
def R (os : List Out) : Str := flat (renderInlines q (builds s found os))

theorem renderInlines_append (q : Quotes) : ∀ (a b : List Mistletoe.Inline),
    renderInlines q (a ++ b) = renderInlines q a ++ renderInlines q b
  | [], _ => rfl
  | i :: a, b => by simp [renderInlines, renderInlines_append q a b]

theorem R_append (a b : List Out) : R q s found (a ++ b) = R q s found a ++ R q s found b := by
  simp [R, InertInline.builds_append, renderInlines_append, InertInline.flat_append]

theorem R_nil : R q s found [] = [] := rfl

/-- the token built from the candidate `c` is the `Emphasis` / `Strong` of a span of the specification -/
def NodeOK (c : Cand) : Prop :=
  c.inner = true ∧ ∃ (strong : Bool) (d : Char), (c.start, c.pstart, c.pend, c.stop, strong) ∈ L ∧
    ∀ kids, build s found (.tok c kids) =
      if strong then Mistletoe.Inline.strong [d] (builds s found kids) else Mistletoe.Inline.emphasis [d] (builds s found kids)

/-- every span is a candidate of the forest, or does not touch `[a, b)` -/
def Cover (N : List Cand) (a b : Nat) : Prop :=
  ∀ p ∈ L, (∃ c ∈ N, c.start = p.1 ∧ c.pstart = p.2.1 ∧ c.pend = p.2.2.1 ∧ c.stop = p.2.2.2.1) ∨ Quiet p a b

abbrev E : Nat → Str := emitAt (escChar q.dq q.sq) L s

theorem render_raw (hC : Ctx L) (hamp : ∀ c ∈ s, c ≠ '&') (a b : Nat) (hab : a ≤ b) (hb : b ≤ s.length)
    (hq : ∀ p ∈ L, Quiet p a b) :
    R q s found (if a ≠ b then [.raw a b] else []) = walk (E q s L) a b := by
  by_cases he : a = b
  · subst he; simp [walk_self, R_nil]
  · rw [if_pos he]
    have hamp' : InertInline.ampOk (slice s a b) = true := by
      apply InertInline.ampOk_plain
      intro c hc
      exact hamp c (List.mem_of_mem_drop (List.mem_of_mem_take hc))
    simp only [R, builds, build, InertInline.unescape_inert _ hamp', renderInlines, renderInline, flat,
      List.flatMap_cons, List.flatMap_nil, flatEv, List.append_nil]
    unfold walk
    have := cat_raw q.dq q.sq (E q s L) s (b - a) a (by omega)
      (fun i h1 h2 => emit_quiet _ L s hC i (fun p hp => (hq p hp).mono h1 (by omega)))
    rw [this]
    have e : a + (b - a) = b := by omega
    rw [e]

theorem tag_strong : flat [Ev.otag "strong".toList []] = openTag true ∧ flat [Ev.ctag "strong".toList] = closeTag true ∧
    flat [Ev.otag "em".toList []] = openTag false ∧ flat [Ev.ctag "em".toList] = closeTag false := by decide

mutual
theorem render_make (hC : Ctx L) (hamp : ∀ c ∈ s, c ≠ '&') : ∀ (t : PTok), t.WF → t.c.stop ≤ s.length →
    (∀ c ∈ nodes t, NodeOK s found L c) → Cover L (nodes t) t.c.start t.c.stop →
    R q s found [make t] = walk (E q s L) t.c.start t.c.stop
  | .mk c kids, hwf, hlen, hN, hcov => by
    simp only [PTok.WF, CandWF] at hwf
    simp only [PTok.c] at hlen hcov ⊢
    obtain ⟨hin, strong, d, hmem, hb⟩ := hN c (by simp [nodes])
    have wp := hC.wf _ hmem
    simp only at wp
    have ih := render_rev hC hamp kids c.pstart c.pend hwf.2 (by omega) (by omega)
      (fun c' hc' => hN c' (by simp [nodes, hc'])) (by
        intro p hp
        rcases hcov p hp with ⟨c', hc', h1, h2, h3, h4⟩ | hq
        · simp only [nodes, List.mem_cons] at hc'
          rcases hc' with rfl | hc'
          · right; unfold Quiet; omega
          · left; exact ⟨c', hc', h1, h2, h3, h4⟩
        · right; exact hq.mono (by omega) (by omega))
    rw [walk_split _ c.start c.pstart c.stop (by omega) (by omega),
      walk_split _ c.pstart c.pend c.stop (by omega) (by omega), ← ih]
    have ho : walk (E q s L) c.start c.pstart = openTag strong := by
      rw [walk_first _ _ _ (by omega)]
      · show emitAt _ L s c.start = _
        rw [emit_delim _ L s hC c.start _ hmem (by simp only; omega)]
        simp only [if_true]
        rw [if_neg (by omega)]; simp
      · intro i h1 h2
        show emitAt _ L s i = _
        rw [emit_delim _ L s hC i _ hmem (by simp only; omega)]
        simp only
        rw [if_neg (by omega), if_neg (by omega)]; rfl
    have hcl : walk (E q s L) c.pend c.stop = closeTag strong := by
      rw [walk_last _ _ _ (by omega)]
      · show emitAt _ L s (c.stop - 1) = _
        rw [emit_delim _ L s hC (c.stop - 1) _ hmem (by simp only; omega)]
        simp only
        rw [if_neg (by omega), if_pos (by omega)]; simp
      · intro i h1 h2
        show emitAt _ L s i = _
        rw [emit_delim _ L s hC i _ hmem (by simp only; omega)]
        simp only
        rw [if_neg (by omega), if_neg (by omega)]; rfl
    rw [ho, hcl]
    simp only [make, hin, if_true]
    simp only [R, builds, hb]
    cases strong
    · simp only [Bool.false_eq_true, if_false, renderInlines, renderInline, List.append_nil, InertInline.flat_append]
      rw [tag_strong.2.2.1, tag_strong.2.2.2, List.append_assoc]
    · simp only [if_true, renderInlines, renderInline, List.append_nil, InertInline.flat_append]
      rw [tag_strong.1, tag_strong.2.1, List.append_assoc]
theorem render_rev (hC : Ctx L) (hamp : ∀ c ∈ s, c ≠ '&') : ∀ (ts : List PTok) (a e : Nat), KidsOK ts a e → a ≤ e →
    e ≤ s.length → (∀ c ∈ nodesL ts, NodeOK s found L c) → Cover L (nodesL ts) a e →
    R q s found (makeTokensRev ts a e) = walk (E q s L) a e
  | [], a, e, _, hae, hlen, _, hcov => by
    simp only [makeTokensRev]
    apply render_raw q s found L hC hamp a e hae hlen
    intro p hp
    rcases hcov p hp with ⟨c', hc', _⟩ | hq
    · simp [nodesL] at hc'
    · exact hq
  | t :: earlier, a, e, hk, hae, hlen, hN, hcov => by
    simp only [KidsOK] at hk
    have wt := wf_cand t hk.1
    unfold CandWF at wt
    simp only [makeTokensRev, R_append]
    have i1 := render_before hC hamp earlier a t.c.start hk.2.2.2 hk.2.1 (by omega)
      (fun c' hc' => hN c' (by simp [nodesL, hc'])) (by
        intro p hp
        rcases hcov p hp with ⟨c', hc', h1, h2, h3, h4⟩ | hq
        · simp only [nodesL, List.mem_append] at hc'
          rcases hc' with hc' | hc'
          · right; have := nodes_range t hk.1 c' hc'; unfold Quiet; omega
          · left; exact ⟨c', hc', h1, h2, h3, h4⟩
        · right; exact hq.mono (by omega) (by omega))
    have i2 := render_make hC hamp t hk.1 (by omega) (fun c' hc' => hN c' (by simp [nodesL, hc'])) (by
        intro p hp
        rcases hcov p hp with ⟨c', hc', h1, h2, h3, h4⟩ | hq
        · simp only [nodesL, List.mem_append] at hc'
          rcases hc' with hc' | hc'
          · left; exact ⟨c', hc', h1, h2, h3, h4⟩
          · right; have := nodesL_range earlier _ _ hk.2.2.2 c' hc'; unfold Quiet; omega
        · right; exact hq.mono (by omega) (by omega))
    have i3 := render_raw q s found L hC hamp t.c.stop e (by omega) hlen (by
        intro p hp
        rcases hcov p hp with ⟨c', hc', h1, h2, h3, h4⟩ | hq
        · simp only [nodesL, List.mem_append] at hc'
          rcases hc' with hc' | hc'
          · have := nodes_range t hk.1 c' hc'; unfold Quiet; omega
          · have := nodesL_range earlier _ _ hk.2.2.2 c' hc'; unfold Quiet; omega
        · exact hq.mono (by omega) (by omega))
    rw [i1, i2, i3, walk_split _ a t.c.start e (by omega) (by omega), walk_split _ t.c.start t.c.stop e (by omega) (by omega)]
    simp
theorem render_before (hC : Ctx L) (hamp : ∀ c ∈ s, c ≠ '&') : ∀ (ts : List PTok) (a e : Nat), KidsOK ts a e → a ≤ e →
    e ≤ s.length → (∀ c ∈ nodesL ts, NodeOK s found L c) → Cover L (nodesL ts) a e →
    R q s found (makeBefore ts a e) = walk (E q s L) a e
  | [], a, e, _, hae, hlen, _, hcov => by
    simp only [makeBefore]
    have := render_raw q s found L hC hamp a e hae hlen (by
      intro p hp
      rcases hcov p hp with ⟨c', hc', _⟩ | hq
      · simp [nodesL] at hc'
      · exact hq)
    rw [← this]
    by_cases h : e > a
    · rw [if_pos h, if_pos (by omega)]
    · rw [if_neg h, if_neg (by omega)]
  | t :: earlier, a, e, hk, hae, hlen, hN, hcov => by
    simp only [KidsOK] at hk
    have wt := wf_cand t hk.1
    unfold CandWF at wt
    simp only [makeBefore, R_append]
    have i1 := render_before hC hamp earlier a t.c.start hk.2.2.2 hk.2.1 (by omega)
      (fun c' hc' => hN c' (by simp [nodesL, hc'])) (by
        intro p hp
        rcases hcov p hp with ⟨c', hc', h1, h2, h3, h4⟩ | hq
        · simp only [nodesL, List.mem_append] at hc'
          rcases hc' with hc' | hc'
          · right; have := nodes_range t hk.1 c' hc'; unfold Quiet; omega
          · left; exact ⟨c', hc', h1, h2, h3, h4⟩
        · right; exact hq.mono (by omega) (by omega))
    have i2 := render_make hC hamp t hk.1 (by omega) (fun c' hc' => hN c' (by simp [nodesL, hc'])) (by
        intro p hp
        rcases hcov p hp with ⟨c', hc', h1, h2, h3, h4⟩ | hq
        · simp only [nodesL, List.mem_append] at hc'
          rcases hc' with hc' | hc'
          · left; exact ⟨c', hc', h1, h2, h3, h4⟩
          · right; have := nodesL_range earlier _ _ hk.2.2.2 c' hc'; unfold Quiet; omega
        · right; exact hq.mono (by omega) (by omega))
    have i3 := render_raw q s found L hC hamp t.c.stop e (by omega) hlen (by
        intro p hp
        rcases hcov p hp with ⟨c', hc', h1, h2, h3, h4⟩ | hq
        · simp only [nodesL, List.mem_append] at hc'
          rcases hc' with hc' | hc'
          · have := nodes_range t hk.1 c' hc'; unfold Quiet; omega
          · have := nodesL_range earlier _ _ hk.2.2.2 c' hc'; unfold Quiet; omega
        · exact hq.mono (by omega) (by omega))
    have e3 : (if e > t.c.stop then [Out.raw t.c.stop e] else []) = (if t.c.stop ≠ e then [Out.raw t.c.stop e] else []) := by
      by_cases h : e > t.c.stop
      · rw [if_pos h, if_pos (by omega)]
      · rw [if_neg h, if_neg (by omega)]
    rw [e3, i1, i2, i3, walk_split _ a t.c.start e (by omega) (by omega), walk_split _ t.c.start t.c.stop e (by omega) (by omega)]
    simp
end

end

end Mistletoe.EmphHtml

/-! ## D. `tokenize_inner` on a text whose only candidates are nested emphasis matches -/

namespace Mistletoe.EmphHtml
open Mistletoe Mistletoe.Span Mistletoe.Inline Mistletoe.Html Mistletoe.Escape Mistletoe.Spec.EmphasisHtml
open Mistletoe.Core Mistletoe.InertInline Mistletoe.RefResolve

/-- with core matches `ms` in a text where no other class fires, the candidates are the matches, once per occurrence
    of `CoreTokens` in the list -/
theorem flatMap_findOne_ms (s : Str) (hs : ScanOk s) (hnl : '\n' ∉ s) (ms : List CoreM) : ∀ (types : List STok),
    (∀ t ∈ types, inertClass t = true) →
    types.flatMap (findOne s ms []) = (List.replicate (types.count .coreTokens) (ms.map foundOf)).flatten
  | [], _ => rfl
  | t :: rest, h => by
    have ih := flatMap_findOne_ms s hs hnl ms rest (fun x hx => h x (List.mem_cons_of_mem _ hx))
    rw [List.flatMap_cons, ih]
    by_cases hc : t = .coreTokens
    · subst hc
      simp only [List.count_cons_self, List.replicate_succ, List.flatten_cons]
      rfl
    · have hne : (t == STok.coreTokens) = false := by simpa using hc
      rw [List.count_cons, hne]
      rw [findOne_other s ms t hc]
      by_cases hlb : t = .lineBreak
      · subst hlb; rw [findOne_lineBreak s hnl]; simp
      · rw [findOne_inertBody s hs t (h t (by simp)) hlb]; simp

theorem findAll_ms (s : Str) (types : List STok) (fn : Footnotes.Table) (hs : ScanOk s) (hnl : '\n' ∉ s)
    (ht : ∀ t ∈ types, inertClass t = true) (hc : types.count .coreTokens = 1) (ms : List CoreM)
    (h : findCoreTokens s fn = .ok (ms, [])) : findAll s types fn = .ok (ms.map foundOf) := by
  unfold findAll
  have : types.contains .coreTokens = true := by
    rw [List.contains_iff_mem]
    exact List.count_pos_iff.1 (by omega)
  simp only [this, if_true, h]
  rw [flatMap_findOne_ms s hs hnl ms types ht, hc]
  simp

/-- the candidate `tokenize_inner` builds from the `i`-th core match -/
def candOf (types : List STok) (m : CoreM) (i : Nat) : Cand :=
  { start := m.start, stop := m.stop, pstart := m.ts, pend := m.te, prec := 3, inner := true,
    cls := clsIndex types .coreTokens, ord := i }

def candsOf (types : List STok) (ms : List CoreM) : List Cand := ms.zipIdx.map (fun p => candOf types p.1 p.2)

theorem candsOf_length (types : List STok) (ms : List CoreM) : (candsOf types ms).length = ms.length := by
  simp [candsOf]

theorem candsOf_get (types : List STok) (ms : List CoreM) (i : Nat) (hi : i < (candsOf types ms).length) :
    (candsOf types ms)[i] = candOf types (ms[i]'(by rw [candsOf_length] at hi; exact hi)) i := by
  simp [candsOf]

theorem tokenizeInner_ms (s : Str) (types : List STok) (fn : Footnotes.Table) (ms : List CoreM)
    (h : findAll s types fn = .ok (ms.map foundOf)) :
    tokenizeInner types fn s = .ok (builds s (ms.map foundOf) (Span.tokenize (candsOf types ms) s.length)) := by
  unfold tokenizeInner
  rw [h]
  simp only [Res.ok.injEq]
  congr 2
  simp only [candsOf, List.zipIdx_map, List.map_map]
  apply List.map_congr_left
  intro p _
  rfl

/-- (start, text start, text end, stop, strong) of a core match -/
def tup (m : CoreM) : Span5 := (m.start, m.ts, m.te, m.stop, m.kind == .strong)

section
variable (s : Str) (ms : List CoreM)
  (hW : ∀ m ∈ ms, m.start < m.ts ∧ m.ts < m.te ∧ m.te < m.stop ∧ m.stop ≤ s.length)
  (hN : ms.Pairwise (fun a b => a.stop ≤ b.start ∨ b.stop ≤ a.start ∨ (b.ts ≤ a.start ∧ a.stop ≤ b.te)))
  (hK : ∀ m ∈ ms, m.kind = .strong ∨ m.kind = .emphasis)
include hW hN

theorem ctx_ms : Ctx (ms.map tup) := by
  have hP := List.pairwise_iff_getElem.1 hN
  constructor
  · intro p hp
    obtain ⟨m, hm, rfl⟩ := List.mem_map.1 hp
    have := hW m hm
    simp only [tup]; omega
  · intro p hp p' hp'
    obtain ⟨i, hi, rfl⟩ := List.mem_iff_getElem.1 hp
    obtain ⟨j, hj, rfl⟩ := List.mem_iff_getElem.1 hp'
    simp only [List.length_map] at hi hj
    simp only [List.getElem_map, tup]
    have wi := hW ms[i] (List.getElem_mem hi)
    have wj := hW ms[j] (List.getElem_mem hj)
    rcases Nat.lt_trichotomy i j with h | h | h
    · have := hP i j hi hj h
      right; omega
    · subst h; left; rfl
    · have := hP j i hj hi h
      right; omega

theorem cands_lam (types : List STok) : (candsOf types ms).Pairwise Lam := by
  have hP := List.pairwise_iff_getElem.1 hN
  rw [List.pairwise_iff_getElem]
  intro i j hi hj hij
  rw [candsOf_get, candsOf_get]
  have hi' : i < ms.length := by rw [candsOf_length] at hi; exact hi
  have hj' : j < ms.length := by rw [candsOf_length] at hj; exact hj
  have wi := hW ms[i] (List.getElem_mem hi')
  have wj := hW ms[j] (List.getElem_mem hj')
  have := hP i j hi' hj' hij
  unfold Lam
  simp only [candOf, true_and]
  omega

omit hN in
theorem cands_wf (types : List STok) : ∀ c ∈ candsOf types ms, CandWF c ∧ c.stop ≤ s.length := by
  intro c hc
  obtain ⟨i, hi, rfl⟩ := List.mem_iff_getElem.1 hc
  rw [candsOf_get]
  have hi' : i < ms.length := by rw [candsOf_length] at hi; exact hi
  have wi := hW ms[i] (List.getElem_mem hi')
  simp only [CandWF, candOf]
  omega

omit hW hN in
include hK in
theorem cands_nodeOK (types : List STok) : ∀ c ∈ candsOf types ms, NodeOK s (ms.map foundOf) (ms.map tup) c := by
  intro c hc
  obtain ⟨i, hi, rfl⟩ := List.mem_iff_getElem.1 hc
  rw [candsOf_get]
  have hi' : i < ms.length := by rw [candsOf_length] at hi; exact hi
  refine ⟨rfl, ms[i].kind == .strong, ms[i].delimiter, ?_, ?_⟩
  · exact List.mem_map.2 ⟨ms[i], List.getElem_mem hi', rfl⟩
  · intro kids
    have hf : (ms.map foundOf)[(candOf types ms[i] i).ord]? = some (foundOf ms[i]) := by
      simp [candOf, hi']
    simp only [build, hf, foundOf]
    rcases hK ms[i] (List.getElem_mem hi') with h | h <;> simp [h]

omit hW hN in
theorem cands_cover (types : List STok) (a b : Nat) : Cover (ms.map tup) (candsOf types ms) a b := by
  intro p hp
  obtain ⟨i, hi, rfl⟩ := List.mem_iff_getElem.1 hp
  simp only [List.length_map] at hi
  left
  refine ⟨(candsOf types ms)[i]'(by rw [candsOf_length]; exact hi), List.getElem_mem _, ?_⟩
  rw [candsOf_get]
  simp [candOf, tup]

include hK in
/-- the HTML of the tokens built from nested emphasis matches is the walk over their spans -/
theorem render_ms (q : Quotes) (types : List STok) (hamp : ∀ c ∈ s, c ≠ '&') :
    flat (renderInlines q (builds s (ms.map foundOf) (Span.tokenize (candsOf types ms) s.length))) =
      htmlOf (escChar q.dq q.sq) (ms.map tup) s := by
  have hwf := cands_wf s ms hW types
  have hok := resolve_ok s.length (candsOf types ms) hwf
  have hnodes := resolve_nodes (candsOf types ms) (cands_lam s ms hW hN types) (fun c hc => (hwf c hc).1)
  have := render_rev q s (ms.map foundOf) (ms.map tup) (ctx_ms s ms hW hN) hamp (resolve (candsOf types ms)).reverse 0 s.length
    hok (Nat.zero_le _) (Nat.le_refl _)
    (fun c hc => cands_nodeOK s ms hK types c ((hnodes c).1 hc))
    (by
      intro p hp
      rcases cands_cover ms types 0 s.length p hp with ⟨c, hc, h⟩ | h
      · exact Or.inl ⟨c, (hnodes c).2 hc, h⟩
      · exact Or.inr h)
  unfold R at this
  unfold Span.tokenize
  rw [this]
  simp [walk, htmlOf]

end

end Mistletoe.EmphHtml

/-! ## E. The theorems -/

namespace Mistletoe.EmphHtml
open Mistletoe Mistletoe.Py Mistletoe.Span Mistletoe.Inline Mistletoe.Html Mistletoe.Escape Mistletoe.Spec.EmphasisHtml
open Mistletoe.Core Mistletoe.InertInline Mistletoe.RefResolve

theorem plain_facts (s : Str) (hp : Spec.Emphasis.plain s = true) :
    ∀ c ∈ s, c ≠ '\\' ∧ c ≠ '`' ∧ c ≠ '<' ∧ c ≠ '&' := by
  intro c hc
  simp only [Spec.Emphasis.plain, List.all_eq_true] at hp
  have := hp c hc
  simp only [Spec.Emphasis.plainChar, Bool.and_eq_true, bne_iff_ne, ne_eq] at this
  exact ⟨this.1.1.1.1.1, this.1.1.1.1.2, this.1.2, this.2⟩

/-- **C06, output level (stage (c): arbitrary nesting).**  `s` is an inline text of the alphabet of
    `C06_emphasis_is_spec_partial` (`plain`: no backslash, backquote, brackets, `<`, `&`; `stdWs`: none of the eight code
    points mistletoe wrongly counts as whitespace) that moreover has no newline and no `~~`; `types` is a list of covered
    span token classes holding `CoreTokens` once (the HTML renderer's list: `C07_config_covered`); `fn` is any table of
    link reference definitions.  Then `tokenize_inner(s)` succeeds, and what `HtmlRenderer.render_inner` makes of the
    tokens - under every quote option - is the specification's HTML of `s`: the text escaped character by character,
    the delimiter characters of the spans of the CommonMark 0.30 delimiter algorithm dropped, `<em>`/`<strong>` opened at
    every span's start and closed at its stop.

    The two hypotheses `hnl`, `htl` are not in `C06_emphasis_is_spec_partial`: the HTML renderer's token list also holds
    `LineBreak` (a newline with two spaces before it is `<br />`, and the spaces are dropped) and `Strikethrough`
    (`~~a~~` is `<del>a</del>`, a GFM extension), see the examples at the end of the file. -/
theorem emph_html_is_spec (types : List STok) (fn : Footnotes.Table) (s : Str)
    (hp : Spec.Emphasis.plain s = true) (hw : EmphRefine.stdWs s = true) (hnl : '\n' ∉ s) (htl : tildeOk s = true)
    (ht : ∀ t ∈ types, inertClass t = true) (hc : types.count .coreTokens = 1) :
    ∃ ks, tokenizeInner types fn s = .ok ks ∧
      ∀ q : Quotes, flat (renderInlines q ks) = specHtmlQ q.dq q.sq s := by
  obtain ⟨ms, h1, _, h3, h4⟩ := Props.C06.C06_emphasis_is_spec_partial s fn hp ((EmphRefine.stdWs_iff s).1 hw)
  have hpf := plain_facts s hp
  have hs : ScanOk s := ⟨fun c hc => ⟨(hpf c hc).1, (hpf c hc).2.1⟩, ltOk_plain s (fun c hc => (hpf c hc).2.2.1), htl⟩
  have hfa := findAll_ms s types fn hs hnl ht hc ms h1
  refine ⟨_, tokenizeInner_ms s types fn ms hfa, ?_⟩
  intro q
  have hW : ∀ m ∈ ms, m.start < m.ts ∧ m.ts < m.te ∧ m.te < m.stop ∧ m.stop ≤ s.length := by
    intro m hm
    have := Props.C06.C06_emphasis_wellformed s fn ms [] h1 m hm (h3 m hm)
    exact ⟨this.1, this.2.1, this.2.2.1, this.2.2.2.1⟩
  have hN : ms.Pairwise (fun a b => a.stop ≤ b.start ∨ b.stop ≤ a.start ∨ (b.ts ≤ a.start ∧ a.stop ≤ b.te)) :=
    (Props.C06.C06_emphasis_nested s fn ms [] h1).imp_of_mem (fun ha hb hab => hab (h3 _ ha) (h3 _ hb))
  rw [render_ms s ms hW hN h3 q types (fun c hc => (hpf c hc).2.2.2)]
  have e : ms.map tup = Spec.Emphasis.spans s := h4
  rw [e]
  rfl

/-! ### document level -/

theorem lstrip_suffix : ∀ (s : Str), ∃ u, s = u ++ lstrip s
  | [] => ⟨[], rfl⟩
  | c :: s => by
    simp only [lstrip]
    split
    · obtain ⟨u, hu⟩ := lstrip_suffix s
      exact ⟨c :: u, by rw [List.cons_append, ← hu]⟩
    · exact ⟨[], rfl⟩

/-- `s.strip()` is a piece of `s` -/
theorem strip_infix (s : Str) : ∃ u v, s = u ++ strip s ++ v := by
  obtain ⟨u, hu⟩ := lstrip_suffix s
  obtain ⟨w, hw⟩ := lstrip_suffix (lstrip s).reverse
  refine ⟨u, w.reverse, ?_⟩
  have : lstrip s = strip s ++ w.reverse := by
    have := congrArg List.reverse hw
    simp only [List.reverse_reverse, List.reverse_append] at this
    exact this
  rw [List.append_assoc, ← this, ← hu]

theorem lstrip_append_nonblank : ∀ (s t : Str), isBlank s = false → lstrip (s ++ t) = lstrip s ++ t
  | [], _, h => by simp [isBlank] at h
  | c :: s, t, h => by
    simp only [List.cons_append, lstrip]
    split
    · rename_i hc
      apply lstrip_append_nonblank s t
      simp only [isBlank, List.all_cons, hc, Bool.true_and] at h
      exact h
    · rfl

theorem strip_snoc_nl (s : Str) (hb : isBlank s = false) : strip (s ++ ['\n']) = strip s := by
  unfold strip rstrip
  rw [lstrip_append_nonblank s _ hb]
  simp only [List.reverse_append, List.reverse_cons, List.reverse_nil, List.nil_append, List.cons_append, lstrip]
  have : pyIsSpace '\n' = true := by decide
  simp [this]

theorem tildeOk_suffix : ∀ (u x : Str), tildeOk (u ++ x) = true → tildeOk x = true
  | [], _, h => h
  | c :: u, x, h => by
    simp only [List.cons_append, tildeOk, Bool.and_eq_true] at h
    exact tildeOk_suffix u x h.2

theorem tildeOk_prefix : ∀ (x v : Str), tildeOk (x ++ v) = true → tildeOk x = true
  | [], _, _ => rfl
  | c :: x, v, h => by
    simp only [List.cons_append, tildeOk, Bool.and_eq_true] at h ⊢
    refine ⟨?_, tildeOk_prefix x v h.2⟩
    cases x with
    | nil => simp
    | cons d x => simpa using h.1

theorem render_paragraph (o : Opts) (ks : List Mistletoe.Inline) (ln : Nat) (fn : List (Str × Str × Str)) :
    render o { kids := [.paragraph ks ln], footnotes := fn } =
      "<p>".toList ++ flat (renderInlines o.q ks) ++ "</p>\n".toList := by
  have hp : flat (renderBlock o.q false (.paragraph ks ln)) =
      "<p>".toList ++ flat (renderInlines o.q ks) ++ "</p>".toList := by
    simp only [renderBlock, Bool.false_eq_true, if_false, flat_append]
    simp [flat, flatEv, flatAttrs]
  have hne : (flat (renderBlock o.q false (.paragraph ks ln))).isEmpty = false := by
    rw [hp]; rfl
  have hd : renderDoc o.q { kids := [.paragraph ks ln], footnotes := fn } =
      renderBlock o.q false (.paragraph ks ln) ++ [nl] := by
    simp only [renderDoc, renderSep, hne, Bool.false_eq_true, if_false]
  rw [render, hd, flat_append, hp]
  simp [flat, flatEv, nl]

open Mistletoe.Props.C14 in
/-- **C06 at document level.**  `s` is a text of the alphabet of `emph_html_is_spec` (without `~~`); the line `s ++ "\n"`
    holds no other line separator (`oneLine`: what `str.splitlines` keeps together; this also excludes a newline inside
    `s`) and is a paragraph line for the block phase (`inertLine` of C14: no block-start pattern fires on it).  Then
    `HtmlRenderer(**o).render(Document(s + "\n"))` is `<p>`, the specification's HTML of the stripped text, `</p>` and a
    newline.  `_partial`: see `emph_html_is_spec` for `~~` and newlines; `inertLine` is the block-level hypothesis
    (`*`, `_` at the start of a line can begin a list item or a thematic break). -/
theorem C06_paragraph_html_is_spec_partial (o : Opts) (gas : Nat) (s : Str)
    (hp : Spec.Emphasis.plain s = true) (hw : EmphRefine.stdWs s = true) (htl : tildeOk s = true)
    (h1 : oneLine (s ++ ['\n']) = true) (hl : inertLine (s ++ ['\n']) = true) :
    Config.renderHtml o (gas + 14) (s ++ ['\n']) =
      some ("<p>".toList ++ specHtmlQ o.dq o.sq (strip s) ++ "</p>\n".toList) := by
  cases hcfg : Config.html with
  | none =>
    have := C14_config_current.1
    rw [hcfg] at this
    cases this
  | some cfg =>
    have hbt : cfg.block.types = defaultTypes := by
      have := C14_config_current.1
      rw [hcfg] at this
      simpa using this
    obtain ⟨ht, hc⟩ := C07_config_covered cfg (Or.inl hcfg)
    have hpar : Block.BTok.paragraph ∈ cfg.block.types := (C14_config_covered cfg (Or.inl hcfg)).1
    have hnb : isBlank (s ++ ['\n']) = false := (inertLine_quiet _ hl).nb
    have hnbs : isBlank s = false := by
      have : pyIsSpace '\n' = true := by decide
      simpa [isBlank, this] using hnb
    -- the stripped text inherits the hypotheses
    obtain ⟨u, v, huv⟩ := strip_infix s
    have hmem : ∀ c ∈ strip s, c ∈ s := by
      intro c hc; rw [huv]; simp [hc]
    have hp' : Spec.Emphasis.plain (strip s) = true := by
      simp only [Spec.Emphasis.plain, List.all_eq_true] at hp ⊢
      exact fun c hc => hp c (hmem c hc)
    have hw' : EmphRefine.stdWs (strip s) = true := by
      simp only [EmphRefine.stdWs, List.all_eq_true] at hw ⊢
      exact fun c hc => hw c (hmem c hc)
    have hnl' : '\n' ∉ strip s := by
      intro hm
      have hm' := hmem _ hm
      simp only [oneLine, Bool.and_eq_true, List.dropLast_concat, List.all_eq_true] at h1
      have := h1.2 _ hm'
      revert this; decide
    have htl' : tildeOk (strip s) = true := by
      rw [huv, List.append_assoc] at htl
      exact tildeOk_prefix _ v (tildeOk_suffix u _ htl)
    obtain ⟨ks, hk1, hk2⟩ := emph_html_is_spec cfg.span (Document.footnotesOf ({} : Block.St).defs) (strip s) hp' hw' hnl' htl' ht hc
    have hparse : Document.parse cfg (gas + 14) (s ++ ['\n']) = .ok { kids := [.paragraph ks 1], footnotes := Document.footnotesOf ({} : Block.St).defs } := by
      have := parse_lines cfg (gas + 14) [s ++ ['\n']] (by simpa using h1)
      simp only [List.flatten_cons, List.flatten_nil, List.append_nil] at this
      rw [this]
      unfold Document.parseLines
      have hg : gas + 14 = gas + (cfg.block.types.length + 4) := by rw [hbt]; rfl
      rw [hg, C14_block_phase cfg.block hpar [s ++ ['\n']] (by simp) (by simpa using hl) gas]
      simp only
      have hin : Document.inl cfg (Document.footnotesOf ({} : Block.St).defs) (strip ([s ++ ['\n']].map lstrip).flatten) = .ok ks := by
        unfold Document.inl
        rw [paragraph_content_one, strip_snoc_nl s hnbs]
        exact hk1
      simp only [Document.mkBlocks, Document.mkBlock, hin]
    unfold Config.renderHtml
    rw [hcfg]
    simp only [hparse]
    rw [render_paragraph, hk2]
    rfl

end Mistletoe.EmphHtml

/-! ## Non-vacuity

  For each text: the hypotheses hold by kernel evaluation, the theorem applies, and the specification's HTML is the
  expected HTML of the CommonMark dingus; the kernel evaluation of the model gives the same string; so does the real code
  (`mistletoe.markdown(TEXT)` gives `<p>` + that string + `</p>\n`). -/

namespace Mistletoe.EmphHtml.Examples
open Mistletoe Mistletoe.Inline Mistletoe.Html Mistletoe.InertInline Mistletoe.Spec.EmphasisHtml
open Mistletoe.Props.C14 (htmlSpanTypes htmlSpanTypes_inert inlineHtml L inertLine)

/-- the instance of `emph_html_is_spec` for the HTML renderer's token list and default options -/
theorem inst (s : Str) (hp : Spec.Emphasis.plain s = true) (hw : EmphRefine.stdWs s = true)
    (hnl : ('\n' ∈ s) = False) (htl : tildeOk s = true) (out : Str) (ho : specHtml s = out) :
    ∃ ks, tokenizeInner htmlSpanTypes [] s = .ok ks ∧ flat (renderInlines ⟨false, false⟩ ks) = out := by
  obtain ⟨ks, h1, h2⟩ := emph_html_is_spec htmlSpanTypes [] s hp hw (by rw [hnl]; exact id) htl htmlSpanTypes_inert (by decide)
  exact ⟨ks, h1, by rw [h2]; exact ho⟩

example : ∃ ks, tokenizeInner htmlSpanTypes [] (L "***a** b*") = .ok ks ∧
    flat (renderInlines ⟨false, false⟩ ks) = L "<em><strong>a</strong> b</em>" :=
  inst _ (by decide +kernel) (by decide +kernel) (by decide +kernel) (by decide +kernel) _ (by decide +kernel)
example : inlineHtml (L "***a** b*") = .ok (L "<em><strong>a</strong> b</em>") := by decide +kernel

example : ∃ ks, tokenizeInner htmlSpanTypes [] (L "*a **b** c*") = .ok ks ∧
    flat (renderInlines ⟨false, false⟩ ks) = L "<em>a <strong>b</strong> c</em>" :=
  inst _ (by decide +kernel) (by decide +kernel) (by decide +kernel) (by decide +kernel) _ (by decide +kernel)
example : inlineHtml (L "*a **b** c*") = .ok (L "<em>a <strong>b</strong> c</em>") := by decide +kernel

example : ∃ ks, tokenizeInner htmlSpanTypes [] (L "_a*b_*") = .ok ks ∧
    flat (renderInlines ⟨false, false⟩ ks) = L "<em>a*b</em>*" :=
  inst _ (by decide +kernel) (by decide +kernel) (by decide +kernel) (by decide +kernel) _ (by decide +kernel)
example : inlineHtml (L "_a*b_*") = .ok (L "<em>a*b</em>*") := by decide +kernel

example : ∃ ks, tokenizeInner htmlSpanTypes [] (L "**a*") = .ok ks ∧
    flat (renderInlines ⟨false, false⟩ ks) = L "*<em>a</em>" :=
  inst _ (by decide +kernel) (by decide +kernel) (by decide +kernel) (by decide +kernel) _ (by decide +kernel)
example : inlineHtml (L "**a*") = .ok (L "*<em>a</em>") := by decide +kernel

/-- three levels, two siblings, text before, between and after, characters that are escaped -/
example : ∃ ks, tokenizeInner htmlSpanTypes [] (L "x > _y **z *w* z** y_ and __\"q\"__!") = .ok ks ∧
    flat (renderInlines ⟨false, false⟩ ks) =
      L "x &gt; <em>y <strong>z <em>w</em> z</strong> y</em> and <strong>\"q\"</strong>!" :=
  inst _ (by decide +kernel) (by decide +kernel) (by decide +kernel) (by decide +kernel) _ (by decide +kernel)
example : inlineHtml (L "x > _y **z *w* z** y_ and __\"q\"__!") =
    .ok (L "x &gt; <em>y <strong>z <em>w</em> z</strong> y</em> and <strong>\"q\"</strong>!") := by decide +kernel

/-- no span at all (stage (a)) and the empty text -/
example : ∃ ks, tokenizeInner htmlSpanTypes [] (L "a * b_c") = .ok ks ∧ flat (renderInlines ⟨false, false⟩ ks) = L "a * b_c" :=
  inst _ (by decide +kernel) (by decide +kernel) (by decide +kernel) (by decide +kernel) _ (by decide +kernel)
example : ∃ ks, tokenizeInner htmlSpanTypes [] [] = .ok ks ∧ flat (renderInlines ⟨false, false⟩ ks) = [] :=
  inst _ (by decide +kernel) (by decide +kernel) (by decide +kernel) (by decide +kernel) _ (by decide +kernel)

/-- with `html_escape_double_quotes=True` -/
example : ∃ ks, tokenizeInner htmlSpanTypes [] (L "*a \"b\"*") = .ok ks ∧
    flat (renderInlines ⟨true, false⟩ ks) = L "<em>a &quot;b&quot;</em>" := by
  obtain ⟨ks, h1, h2⟩ := emph_html_is_spec htmlSpanTypes [] (L "*a \"b\"*") (by decide +kernel) (by decide +kernel)
    (by decide +kernel) (by decide +kernel) htmlSpanTypes_inert (by decide)
  exact ⟨ks, h1, by rw [h2]; decide +kernel⟩

/-! document level: by the theorem, and by evaluating the whole model (`Document` + `HtmlRenderer`) -/

example : Config.renderHtml {} 14 (L "***a** b*\n") = some (L "<p><em><strong>a</strong> b</em></p>\n") := by
  have := C06_paragraph_html_is_spec_partial {} 0 (L "***a** b*") (by decide +kernel) (by decide +kernel) (by decide +kernel)
    (by decide +kernel) (by decide +kernel)
  rw [show (0 + 14 = 14) from rfl] at this
  rw [show L "***a** b*\n" = L "***a** b*" ++ ['\n'] from by decide, this]
  decide +kernel
example : Config.renderHtml {} 14 (L "***a** b*\n") = some (L "<p><em><strong>a</strong> b</em></p>\n") := by decide +kernel

/-- leading and trailing blanks of the line are stripped before the inline phase -/
example : Config.renderHtml {} 14 (L "  x *a **b** c* _d_  \n") = some (L "<p>x <em>a <strong>b</strong> c</em> <em>d</em></p>\n") := by
  have := C06_paragraph_html_is_spec_partial {} 0 (L "  x *a **b** c* _d_  ") (by decide +kernel) (by decide +kernel) (by decide +kernel)
    (by decide +kernel) (by decide +kernel)
  rw [show (0 + 14 = 14) from rfl] at this
  rw [show L "  x *a **b** c* _d_  \n" = L "  x *a **b** c* _d_  " ++ ['\n'] from by decide, this]
  decide +kernel

/-! ### why `hnl` and `htl` were added (`~~` and newlines are inside `plain`)

  `Strikethrough` and `LineBreak` are in the HTML renderer's token list.  On the real code:
  `mistletoe.markdown('*a* ~~b~~')` = `<p><em>a</em> <del>b</del></p>`, `mistletoe.markdown('*a ~~b* c~~')` =
  `<p>*a <del>b* c</del></p>` (the strikethrough, precedence 5, wins over the emphasis it overlaps),
  `mistletoe.markdown('*a  \nb*')` = `<p><em>a<br />\nb</em></p>`: the model agrees, the specification of section 6.2
  alone knows neither construct. -/

example : Spec.Emphasis.plain (L "*a ~~b* c~~") = true ∧ inlineHtml (L "*a ~~b* c~~") = .ok (L "*a <del>b* c</del>") ∧
    specHtml (L "*a ~~b* c~~") = L "<em>a ~~b</em> c~~" := by decide +kernel
example : Spec.Emphasis.plain (L "*a  \nb*") = true ∧ inlineHtml (L "*a  \nb*") = .ok (L "<em>a<br />\nb</em>") ∧
    specHtml (L "*a  \nb*") = L "<em>a  \nb</em>" := by decide +kernel

end Mistletoe.EmphHtml.Examples
