/-
  C09 (Markdown round trip), LISTS, part 2: the block-token constructors on the parse buffer of part 1
  (`mkBlocks_ents`), the Markdown renderer on the resulting tree (`renderBlocks_blks`), the text
  (`outs_lines`: what the renderer writes is, line for line, what was read), and the theorems

  * `C09_lists_exact_partial` — a document of the fragment `MB` (paragraphs, ATX headings, thematic breaks and
    LISTS — bullet or ordered, padding 1…4, tight or with one empty line between items, items of several blocks,
    nested to any depth, lists of different marker types in a row — separated by single empty lines) in normal form is
    reproduced byte for byte;
  * `C09_lists_quoted_exact_partial` — the same inside `k` nested block quotes;
  * `C09_lists_roundtrip_markdown` — from a `str`, for the token lists of the working tree (`Config.markdown`):
    exact reproduction, idempotence, same meaning (same document / same HTML under every configuration).

  What the renderer does with a list item (`render_list_item`, `prefix_lines`): the item's lines come behind
  `leader + padding` (first line) and `prepend` spaces (other lines), and a line that is all whitespace after
  prefixing is written as the empty line — so the `BlankLine` tokens inside an item (between its blocks, and the
  one the parser puts at the end of an item that is followed by an empty line) come back as "\n".  With
  `normalize_whitespace=True` the padding is rewritten to one space; the normal form then asks for padding 1
  (`MB.ok true`).
-/
import Mistletoe.Proofs.MdRoundLists
import Mistletoe.Props.C09
namespace Mistletoe.MdRound
open Mistletoe Mistletoe.Py Mistletoe.Scan Mistletoe.Wrap Mistletoe.Markdown Mistletoe.InertInline
open Mistletoe.Block hiding numbered numbered_cons numbered_append
open Mistletoe.Props.C14 (inertLine markdownTypes numbered numbered_cons numbered_append numbered_length numbered_s numbered_mem)
open Mistletoe.Props.C04 (indentDoc itemDocOk)
open Mistletoe.ComposeL (leaderOf markerOk leaderOk_of_marker sepS itemDoc_facts leader_chars spaces_chars)
open Mistletoe.Document (mkBlock mkBlocks mkItems)

/-! ### The tree -/

def blankB (b : Bool) (n : Nat) : List Mistletoe.Block := if b then [.blankLine n] else []

mutual
/-- the block token of one block of the fragment (`trail`: see `wr`) -/
def blk (trail : Bool) (n : Nat) : MB → Mistletoe.Block
  | .leaf b => itemBlock n b
  | .list o s mk pad loose items => .list false (if o then some s else none) (blkItems trail o mk pad loose s n items) n
/-- siblings, with `BlankLine` tokens between them (between two lists: at the end of the last item of the first) -/
def blks (n : Nat) : List MB → List Mistletoe.Block
  | [] => []
  | t :: rest =>
    match rest with
    | [] => [blk false n t]
    | t' :: _ =>
      if adj t t' then blk true n t :: blks (n + (wr true t).length) rest
      else blk false n t :: .blankLine (n + (wr false t).length) :: blks (n + (wr false t).length + 1) rest
/-- the `ListItem` tokens: never loose; a `BlankLine` token ends the content of an item that is followed by an empty line -/
def blkItems (trail : Bool) (o : Bool) (mk : Char) (pad : Nat) (loose : Bool) (s : Nat) (n : Nat) : List (List MB) → List Mistletoe.Block
  | [] => []
  | it :: rest =>
    .listItem (leaderOf o s mk) 0 ((leaderOf o s mk).length + pad) false
        (blks n it ++ blankB ((loose && !rest.isEmpty) || (trail && rest.isEmpty)) (n + (wrs it).length)) n
      :: blkItems trail o mk pad loose (s + 1) (n + (wrs it).length + (sepS loose).length) rest
end

theorem blks_single (n : Nat) (t : MB) : blks n [t] = [blk false n t] := by simp [blks]
theorem blks_cons_sep (n : Nat) (t t' : MB) (r : List MB) (h : adj t t' = false) :
    blks n (t :: t' :: r) = blk false n t :: .blankLine (n + (wr false t).length) :: blks (n + (wr false t).length + 1) (t' :: r) := by
  simp [blks, h]
theorem blks_cons_adj (n : Nat) (t t' : MB) (r : List MB) (h : adj t t' = true) :
    blks n (t :: t' :: r) = blk true n t :: blks (n + (wr true t).length) (t' :: r) := by
  simp [blks, h]

/-! ### The token constructors -/

theorem mkBlocks_append (cfg : Document.Cfg) (fn : Footnotes.Table) : ∀ (E1 E2 : List Entry) (B1 B2 : List Mistletoe.Block),
    mkBlocks cfg fn E1 = .ok B1 → mkBlocks cfg fn E2 = .ok B2 → mkBlocks cfg fn (E1 ++ E2) = .ok (B1 ++ B2)
  | [], _, _, _, h1, h2 => by
    simp only [mkBlocks, Res.ok.injEq] at h1
    subst h1
    simpa using h2
  | e :: es, E2, B1, B2, h1, h2 => by
    simp only [List.cons_append, mkBlocks] at h1 ⊢
    cases he : mkBlock cfg fn e with
    | err x => rw [he] at h1; cases h1
    | ok b =>
      rw [he] at h1
      cases hes : mkBlocks cfg fn es with
      | err x => rw [hes] at h1; cases h1
      | ok bs =>
        rw [hes] at h1
        simp only [Res.ok.injEq] at h1
        simp only [mkBlocks_append cfg fn es E2 bs B2 hes h2]
        subst h1
        cases b <;> simp

theorem mkBlocks_blankIf (cfg : Document.Cfg) (fn : Footnotes.Table) (b : Bool) (n : Nat) :
    mkBlocks cfg fn (blankIf b n) = .ok (blankB b n) := by
  cases b <;> simp [blankIf, blankB, mkBlocks, mkBlock]

theorem blkItems_notLoose (trail o : Bool) (mk : Char) (pad : Nat) (loose : Bool) (f : Mistletoe.Block → Bool)
    (hf : ∀ l i p k n, f (.listItem l i p false k n) = false) : ∀ (items : List (List MB)) (s n : Nat),
    (blkItems trail o mk pad loose s n items).any f = false
  | [], _, _ => rfl
  | it :: rest, s, n => by
    simp only [blkItems, List.any_cons, blkItems_notLoose trail o mk pad loose f hf rest, Bool.or_false, hf]

/-- `List.start`: the number of the first item of an ordered list, `None` for a bullet list -/
theorem listStart_eq (o : Bool) (s : Nat) (mk : Char) (h : leaderOk o (leaderOf o s mk) = true) :
    (if ((leaderOf o s mk).length != 1) = true then some (parseNat (leaderOf o s mk).dropLast) else none) =
      if o = true then some s else none := by
  cases o with
  | false => simp [leaderOf]
  | true =>
    obtain ⟨d, e, hd, _, h1, _, _⟩ := leaderOk_ordered _ h
    simp only [leaderOf, if_true] at hd ⊢
    have e1 : Html.natDigits s = d := (List.append_inj' hd (by simp)).1
    have hl : ((Html.natDigits s ++ [mk]).length != 1) = true := by
      rw [e1]; simp only [List.length_append, List.length_singleton, bne_iff_ne, ne_eq]; omega
    simp only [hl, if_true, List.dropLast_concat, parseNat_natDigits]

mutual
theorem mkBlock_ent (cfg : Document.Cfg) (fn : Footnotes.Table)
    (ht : ∀ t ∈ cfg.span, inertClass t = true) (hc : cfg.span.count .lineBreak = 1) (nw : Bool) :
    ∀ (t : MB) (tr : Bool) (n : Nat), t.ok nw = true → mkBlock cfg fn (ent tr n t) = .ok (some (blk tr n t))
  | .leaf b, _, n, h => mkBlock_item cfg fn ht hc b (by simpa [MB.ok] using h) n n
  | .list o s mk pad loose items, tr, n, h => by
    have hl := listOkM_of nw o s mk pad loose items h
    have hi := mkItems_itms cfg fn ht hc nw tr o mk pad loose s n items hl.its
    cases items with
    | nil => exact absurd rfl hl.ne
    | cons it rest =>
      have hlead := (okItemsM_cons nw o mk pad s it rest hl.its).2.2.1
      simp only [ent, blk, mkBlock, hi]
      simp only [itms, listStart_eq o s mk hlead]
      rw [blkItems_notLoose tr o mk pad loose _ (fun _ _ _ _ _ => rfl)]
theorem mkBlocks_ents (cfg : Document.Cfg) (fn : Footnotes.Table)
    (ht : ∀ t ∈ cfg.span, inertClass t = true) (hc : cfg.span.count .lineBreak = 1) (nw : Bool) :
    ∀ (ts : List MB) (n : Nat), MB.oks nw ts = true → mkBlocks cfg fn (ents n ts) = .ok (blks n ts)
  | [], _, _ => by simp [ents, blks, mkBlocks]
  | [t], n, h => by
    simp only [ents_single, blks_single, mkBlocks, mkBlock_ent cfg fn ht hc nw t false n (oksM_cons nw _ _ h).1]
  | t :: t' :: r, n, h => by
    cases ha : adj t t' with
    | false =>
      have ih := mkBlocks_ents cfg fn ht hc nw (t' :: r) (n + (wr false t).length + 1) (oksM_cons nw _ _ h).2.1
      simp only [ents_cons_sep n t t' r ha, blks_cons_sep n t t' r ha, mkBlocks,
        mkBlock_ent cfg fn ht hc nw t false n (oksM_cons nw _ _ h).1]
      simp only [mkBlock, ih]
    | true =>
      have ih := mkBlocks_ents cfg fn ht hc nw (t' :: r) (n + (wr true t).length) (oksM_cons nw _ _ h).2.1
      simp only [ents_cons_adj n t t' r ha, blks_cons_adj n t t' r ha, mkBlocks,
        mkBlock_ent cfg fn ht hc nw t true n (oksM_cons nw _ _ h).1, ih]
theorem mkItems_itms (cfg : Document.Cfg) (fn : Footnotes.Table)
    (ht : ∀ t ∈ cfg.span, inertClass t = true) (hc : cfg.span.count .lineBreak = 1) (nw : Bool)
    (tr o : Bool) (mk : Char) (pad : Nat) (loose : Bool) :
    ∀ (s n : Nat) (items : List (List MB)), MB.okItems nw o mk pad s items = true →
      mkItems cfg fn (itms tr o mk pad loose s n items) = .ok (blkItems tr o mk pad loose s n items)
  | _, _, [], _ => by simp [itms, blkItems, mkItems]
  | s, n, it :: rest, h => by
    obtain ⟨_, hit, _, _, _, hrest⟩ := okItemsM_cons nw o mk pad s it rest h
    have h1 := mkBlocks_append cfg fn _ _ _ _ (mkBlocks_ents cfg fn ht hc nw it n hit)
      (mkBlocks_blankIf cfg fn ((loose && !rest.isEmpty) || (tr && rest.isEmpty)) (n + (wrs it).length))
    have h2 := mkItems_itms cfg fn ht hc nw tr o mk pad loose (s + 1) (n + (wrs it).length + (sepS loose).length) rest hrest
    simp only [itms, blkItems, mkItems, h1, h2]
end

/-! ### The renderer: the lines it writes -/

def sepOut (b : Bool) : List Str := if b then [[]] else []

mutual
/-- the lines the renderer writes for one block -/
def outB (trail : Bool) : MB → List Str
  | .leaf b => itemOut b
  | .list o n mk pad loose items => outItems trail o mk pad loose n items
def outs : List MB → List Str
  | [] => []
  | t :: rest =>
    match rest with
    | [] => outB false t
    | t' :: _ => if adj t t' then outB true t ++ outs rest else outB false t ++ [] :: outs rest
def outItems (trail : Bool) (o : Bool) (mk : Char) (pad : Nat) (loose : Bool) (n : Nat) : List (List MB) → List Str
  | [] => []
  | it :: rest =>
    prefixLines (outs it ++ sepOut ((loose && !rest.isEmpty) || (trail && rest.isEmpty))) (leaderOf o n mk ++ spaces pad)
        (some (spaces ((leaderOf o n mk).length + pad)))
      ++ outItems trail o mk pad loose (n + 1) rest
end

theorem outItems_cons (trail o : Bool) (mk : Char) (pad : Nat) (loose : Bool) (n : Nat) (it : List MB) (rest : List (List MB)) :
    outItems trail o mk pad loose n (it :: rest) =
      prefixLines (outs it ++ sepOut ((loose && !rest.isEmpty) || (trail && rest.isEmpty))) (leaderOf o n mk ++ spaces pad)
          (some (spaces ((leaderOf o n mk).length + pad)))
        ++ outItems trail o mk pad loose (n + 1) rest := by simp [outItems]
theorem outs_single (t : MB) : outs [t] = outB false t := by simp [outs]
theorem outs_cons_sep (t t' : MB) (r : List MB) (h : adj t t' = false) :
    outs (t :: t' :: r) = outB false t ++ [] :: outs (t' :: r) := by simp [outs, h]
theorem outs_cons_adj (t t' : MB) (r : List MB) (h : adj t t' = true) :
    outs (t :: t' :: r) = outB true t ++ outs (t' :: r) := by simp [outs, h]

/-! ### The text: `prefix_lines` against `indentDoc` -/

theorem contLine_ne_nl (s : Str) (h : ContLine s) : s ≠ ['\n'] := by
  obtain ⟨n, c, body, rfl, hc, _⟩ := h
  cases n with
  | zero =>
    intro e
    simp only [List.replicate_zero, List.nil_append, List.cons_append, List.cons.injEq] at e
    rw [e.1] at hc
    exact absurd hc (by decide)
  | succ k =>
    intro e
    simp [List.replicate_succ] at e

theorem not_all_space (p : Str) (c : Char) (hm : c ∈ p) (hc : pyIsSpace c = false) :
    (!p.isEmpty && p.all pyIsSpace) = false := by
  have : p.all pyIsSpace = false := by
    rw [List.all_eq_false]
    exact ⟨c, hm, by simp [hc]⟩
  simp [this]

theorem all_space_spaces (n : Nat) (h : 1 ≤ n) : (!(spaces n ++ ([] : Str)).isEmpty && (spaces n ++ []).all pyIsSpace) = true := by
  obtain ⟨k, rfl⟩ : ∃ k, n = k + 1 := ⟨n - 1, by omega⟩
  simp only [List.append_nil, spaces, List.replicate_succ, List.isEmpty_cons, Bool.not_false, Bool.true_and, List.all_cons,
    Bool.and_eq_true, List.all_eq_true]
  refine ⟨by decide, ?_⟩
  intro x hx
  rw [(List.mem_replicate.mp hx).2]; decide

/-- the lines behind the first one: `W` spaces before each, a line that is then all whitespace is written empty -/
theorem prefixAux_lines (W : Nat) (hW : 1 ≤ W) (sep : Bool) : ∀ (ls : List Str),
    (∀ l ∈ ls, l ++ ['\n'] = ['\n'] ∨ ContLine (l ++ ['\n'])) →
    (prefixLinesAux (spaces W) (ls ++ sepOut sep)).map (· ++ ['\n']) =
      (ls.map (· ++ ['\n'])).map (fun s => if s = ['\n'] then s else List.replicate W ' ' ++ s) ++ sepS sep
  | [], _ => by
    cases sep with
    | false => simp [sepOut, sepS, prefixLinesAux]
    | true =>
      simp only [sepOut, sepS, if_true, List.nil_append, prefixLinesAux, all_space_spaces W hW, List.map_cons, List.map_nil]
  | l :: ls, h => by
    have ih := prefixAux_lines W hW sep ls (fun x hx => h x (List.mem_cons_of_mem _ hx))
    simp only [List.cons_append, prefixLinesAux, List.map_cons, ih]
    congr 1
    rcases h l (by simp) with hl | hl
    · have : l = [] := by
        cases l with
        | nil => rfl
        | cons a b => simp at hl
      subst this
      simp only [all_space_spaces W hW, if_true, List.nil_append]
    · have hne := contLine_ne_nl _ hl
      obtain ⟨n, c, body, e, hc, _⟩ := hl
      have el : l = List.replicate n ' ' ++ c :: body := by
        have : l ++ ['\n'] = (List.replicate n ' ' ++ c :: body) ++ ['\n'] := by rw [e]
        exact List.append_cancel_right this
      have hm : c ∈ spaces W ++ l := by rw [el]; simp
      rw [not_all_space _ c hm hc]
      simp only [Bool.false_eq_true, if_false, hne, spaces, List.append_assoc]

/-- **`prefix_lines` on the lines of an item** gives, line for line, the item as it was written -/
theorem prefixLines_indentDoc (m : Str) (pad : Nat) (hpad : 1 ≤ pad) (ls : List Str) (c0 : Str) (cs : List Str)
    (h : ls.map (· ++ ['\n']) = c0 :: cs) (hdoc : itemDocOk (c0 :: cs) = true) (sep : Bool) :
    (prefixLines (ls ++ sepOut sep) (m ++ spaces pad) (some (spaces (m.length + pad)))).map (· ++ ['\n']) =
      indentDoc m pad (c0 :: cs) ++ sepS sep := by
  obtain ⟨⟨ch, r0, rfl, hch⟩, hcont, _⟩ := itemDoc_facts c0 cs hdoc
  cases ls with
  | nil => simp at h
  | cons l0 ls' =>
    simp only [List.map_cons, List.cons.injEq] at h
    obtain ⟨h0, hcs⟩ := h
    have hl0 : ch ∈ l0 := by
      cases l0 with
      | nil =>
        simp only [List.nil_append, List.cons.injEq] at h0
        rw [← h0.1] at hch
        exact absurd hch (by decide)
      | cons a b =>
        simp only [List.cons_append, List.cons.injEq] at h0
        rw [h0.1]; simp
    have hfe : (spaces (m.length + pad)).isEmpty = false := by
      obtain ⟨k, hk⟩ : ∃ k, m.length + pad = k + 1 := ⟨m.length + pad - 1, by omega⟩
      rw [hk]; simp [spaces, List.replicate_succ]
    have hfirst : (!(m ++ spaces pad ++ l0).isEmpty && (m ++ spaces pad ++ l0).all pyIsSpace) = false :=
      not_all_space _ ch (by simp [hl0]) hch
    have haux := prefixAux_lines (m.length + pad) (by omega) sep ls' (by
      intro l hl
      have : l ++ ['\n'] ∈ cs := by rw [← hcs]; exact List.mem_map_of_mem hl
      exact hcont _ this)
    simp only [List.cons_append, prefixLines, hfe, Bool.false_eq_true, if_false, hfirst, List.map_cons, haux, hcs, indentDoc]
    simp only [spaces, List.append_assoc, h0]

/-! ### The text of a written forest -/

theorem wrs_ne_of_doc (it : List MB) (h : itemDocOk (wrs it) = true) : wrs it ≠ [] := by
  obtain ⟨c0, cs, hw⟩ := wrs_cons_of_doc it h
  rw [hw]; simp

mutual
theorem outB_lines (nw : Bool) : ∀ (t : MB) (tr : Bool), t.ok nw = true → (outB tr t).map (· ++ ['\n']) = wr tr t
  | .leaf b, _, h => itemOut_lines b (by simpa [MB.ok] using h)
  | .list o n mk pad loose items, tr, h => by
    have hl := listOkM_of nw o n mk pad loose items h
    simp only [outB, wr]
    exact outItems_lines nw tr o mk pad loose hl.p1 n items hl.its
theorem outs_lines (nw : Bool) : ∀ (ts : List MB), MB.oks nw ts = true → (outs ts).map (· ++ ['\n']) = wrs ts
  | [], _ => by simp [outs, wrs]
  | [t], h => by simp only [outs_single, wrs_single, outB_lines nw t false (oksM_cons nw _ _ h).1]
  | t :: t' :: r, h => by
    have ih := outs_lines nw (t' :: r) (oksM_cons nw _ _ h).2.1
    cases ha : adj t t' with
    | false =>
      simp only [outs_cons_sep t t' r ha, wrs_cons_sep t t' r ha, List.map_append, List.map_cons,
        outB_lines nw t false (oksM_cons nw _ _ h).1, ih, List.nil_append]
    | true =>
      simp only [outs_cons_adj t t' r ha, wrs_cons_adj t t' r ha, List.map_append,
        outB_lines nw t true (oksM_cons nw _ _ h).1, ih]
theorem outItems_lines (nw : Bool) (tr o : Bool) (mk : Char) (pad : Nat) (loose : Bool) (h1 : 1 ≤ pad) :
    ∀ (n : Nat) (items : List (List MB)), MB.okItems nw o mk pad n items = true →
      (outItems tr o mk pad loose n items).map (· ++ ['\n']) = wrItems tr o mk pad loose n items
  | _, [], _ => by simp [outItems, wrItems]
  | n, [it], h => by
    obtain ⟨_, hit, _, hdoc, _, _⟩ := okItemsM_cons nw o mk pad n it [] h
    obtain ⟨c0, cs, hw⟩ := wrs_cons_of_doc it hdoc
    have ih := outs_lines nw it hit
    rw [hw] at ih hdoc
    have := prefixLines_indentDoc (leaderOf o n mk) pad h1 (outs it) c0 cs ih hdoc tr
    simp only [outItems, wrItems_single, List.isEmpty_nil, Bool.not_true, Bool.and_false, Bool.and_true, Bool.false_or,
      List.append_nil, this, hw]
  | n, it :: it' :: r, h => by
    obtain ⟨_, hit, _, hdoc, _, hrest⟩ := okItemsM_cons nw o mk pad n it (it' :: r) h
    obtain ⟨c0, cs, hw⟩ := wrs_cons_of_doc it hdoc
    have ih := outs_lines nw it hit
    rw [hw] at ih hdoc
    have := prefixLines_indentDoc (leaderOf o n mk) pad h1 (outs it) c0 cs ih hdoc loose
    have ihr := outItems_lines nw tr o mk pad loose h1 (n + 1) (it' :: r) hrest
    rw [wrItems_cons2, outItems_cons]
    simp only [List.isEmpty_cons, Bool.not_false, Bool.and_true, Bool.and_false, Bool.or_false, List.map_append, this, ihr, hw,
      List.append_assoc]
end

theorem outs_ne (nw : Bool) (it : List MB) (hit : MB.oks nw it = true) (hdoc : itemDocOk (wrs it) = true) : outs it ≠ [] := by
  intro e
  have := outs_lines nw it hit
  rw [e] at this
  exact wrs_ne_of_doc it hdoc this.symm

/-- in the text the two spellings of a list differ by the final "\n" line only: blocks are always separated by exactly
    one "\n" line -/
theorem wrItems_trail (o : Bool) (mk : Char) (pad : Nat) (loose : Bool) : ∀ (n : Nat) (items : List (List MB)), items ≠ [] →
    wrItems true o mk pad loose n items = wrItems false o mk pad loose n items ++ [['\n']]
  | _, [], h => absurd rfl h
  | n, [it], _ => by simp [wrItems_single, sepS]
  | n, it :: it' :: r, _ => by
    rw [wrItems_cons2, wrItems_cons2, wrItems_trail o mk pad loose (n + 1) (it' :: r) (by simp)]
    simp

/-! ### The renderer on the tree -/

theorem renderBlocks_append (o : Opts) : ∀ (A B : List Mistletoe.Block) (a b : List Str),
    renderBlocks o none A = .ok a → renderBlocks o none B = .ok b → renderBlocks o none (A ++ B) = .ok (a ++ b)
  | [], _, _, _, h1, h2 => by
    simp only [renderBlocks, Res.ok.injEq] at h1
    subst h1
    simpa using h2
  | x :: A, B, a, b, h1, h2 => by
    simp only [List.cons_append, renderBlocks] at h1 ⊢
    cases hx : renderBlock o none x with
    | err e => rw [hx] at h1; cases h1
    | ok xs =>
      rw [hx] at h1
      cases hA : renderBlocks o none A with
      | err e => rw [hA] at h1; cases h1
      | ok as =>
        rw [hA] at h1
        simp only [Res.ok.injEq] at h1
        simp only [renderBlocks_append o A B as b hA h2]
        subst h1
        simp

theorem renderBlocks_blankB (o : Opts) (b : Bool) (n : Nat) : renderBlocks o none (blankB b n) = .ok (sepOut b) := by
  cases b <;> simp [blankB, sepOut, renderBlocks, renderBlock]

/-- `render_list_item` on an item of the fragment: `leader + padding` before the first line, `prepend` spaces before the
    others (`normalize_whitespace=True`: padding one space, which is the padding the normal form then has) -/
theorem renderBlock_listItem (o : Opts) (m : Str) (pad : Nat) (hnw : o.normalizeWhitespace = true → pad = 1)
    (kids : List Mistletoe.Block) (ls : List Str) (hne : ls ≠ []) (h : renderBlocks o none kids = .ok ls) (n : Nat) :
    renderBlock o none (.listItem m 0 (m.length + pad) false kids n) =
      .ok (prefixLines ls (m ++ spaces pad) (some (spaces (m.length + pad)))) := by
  have hE : ls.isEmpty = false := by cases ls with | nil => exact absurd rfl hne | cons _ _ => rfl
  have cb : ∀ k, childBudget none k = none := fun _ => rfl
  cases hn : o.normalizeWhitespace with
  | false =>
    simp only [renderBlock, hn, Bool.false_eq_true, if_false, cb, h, hE]
    simp [spaces]
  | true =>
    have hp := hnw hn
    subst hp
    simp only [renderBlock, hn, if_true, cb, h, hE, Bool.false_eq_true, if_false]
    simp [spaces]

mutual
theorem renderBlock_blk (o : Opts) : ∀ (t : MB) (tr : Bool) (n : Nat), t.ok o.normalizeWhitespace = true →
    renderBlock o none (blk tr n t) = .ok (outB tr t)
  | .leaf b, _, n, h => renderBlock_item o b (by simpa [MB.ok] using h) n
  | .list ord s mk pad loose items, tr, n, h => by
    have hl := listOkM_of _ ord s mk pad loose items h
    simp only [blk, outB, renderBlock]
    exact renderBlocks_blkItems o tr ord mk pad loose hl.pnw s n items hl.its
theorem renderBlocks_blks (o : Opts) : ∀ (ts : List MB) (n : Nat), MB.oks o.normalizeWhitespace ts = true →
    renderBlocks o none (blks n ts) = .ok (outs ts)
  | [], _, _ => by simp [blks, outs, renderBlocks]
  | [t], n, h => by
    simp only [blks_single, outs_single, renderBlocks, renderBlock_blk o t false n (oksM_cons _ _ _ h).1]
    simp
  | t :: t' :: r, n, h => by
    cases ha : adj t t' with
    | false =>
      have ih := renderBlocks_blks o (t' :: r) (n + (wr false t).length + 1) (oksM_cons _ _ _ h).2.1
      simp only [blks_cons_sep n t t' r ha, outs_cons_sep t t' r ha, renderBlocks,
        renderBlock_blk o t false n (oksM_cons _ _ _ h).1, renderBlock, ih]
      simp
    | true =>
      have ih := renderBlocks_blks o (t' :: r) (n + (wr true t).length) (oksM_cons _ _ _ h).2.1
      simp only [blks_cons_adj n t t' r ha, outs_cons_adj t t' r ha, renderBlocks,
        renderBlock_blk o t true n (oksM_cons _ _ _ h).1, ih]
theorem renderBlocks_blkItems (o : Opts) (tr ord : Bool) (mk : Char) (pad : Nat) (loose : Bool)
    (hnw : o.normalizeWhitespace = true → pad = 1) :
    ∀ (s n : Nat) (items : List (List MB)), MB.okItems o.normalizeWhitespace ord mk pad s items = true →
      renderBlocks o none (blkItems tr ord mk pad loose s n items) = .ok (outItems tr ord mk pad loose s items)
  | _, _, [], _ => by simp [blkItems, outItems, renderBlocks]
  | s, n, it :: rest, h => by
    obtain ⟨_, hit, _, hdoc, _, hrest⟩ := okItemsM_cons _ ord mk pad s it rest h
    have hk := renderBlocks_append o _ _ _ _ (renderBlocks_blks o it n hit)
      (renderBlocks_blankB o ((loose && !rest.isEmpty) || (tr && rest.isEmpty)) (n + (wrs it).length))
    have hne : outs it ++ sepOut ((loose && !rest.isEmpty) || (tr && rest.isEmpty)) ≠ [] := by
      intro e
      exact outs_ne _ it hit hdoc (List.append_eq_nil_iff.mp e).1
    have h1 := renderBlock_listItem o (leaderOf ord s mk) pad hnw _ _ hne hk n
    have h2 := renderBlocks_blkItems o tr ord mk pad loose hnw (s + 1) (n + (wrs it).length + (sepS loose).length) rest hrest
    simp only [blkItems, outItems, renderBlocks, h1, h2]
end

/-! ### Every written line is one line -/

theorem oneLine_prepend (p s : Str) (hp : ∀ c ∈ p, isLineSep c = false) (h : oneLine s = true) : oneLine (p ++ s) = true := by
  simp only [oneLine, Bool.and_eq_true, beq_iff_eq, List.all_eq_true, Bool.not_eq_eq_eq_not, Bool.not_true] at h ⊢
  obtain ⟨h1, h2⟩ := h
  have hne : s ≠ [] := by intro e; rw [e] at h1; cases h1
  constructor
  · rw [List.getLast?_append, h1]; rfl
  · intro c hc
    rw [List.dropLast_append_of_ne_nil hne] at hc
    rcases List.mem_append.mp hc with hc | hc
    · exact hp c hc
    · exact h2 c hc

theorem indentDoc_oneLine (o : Bool) (m : Str) (hm : leaderOk o m = true) (pad : Nat) (ls : List Str)
    (h : ∀ s ∈ ls, oneLine s = true) : ∀ s ∈ indentDoc m pad ls, oneLine s = true := by
  cases ls with
  | nil => simp [indentDoc]
  | cons c0 cs =>
    intro s hs
    simp only [indentDoc, List.mem_cons, List.mem_map] at hs
    rcases hs with rfl | ⟨x, hx, rfl⟩
    · rw [List.append_assoc]
      exact oneLine_prepend _ _ (fun c hc => (leader_chars o m hm c hc).1)
        (oneLine_prepend _ _ (fun c hc => (spaces_chars pad c hc).1) (h c0 (by simp)))
    · split
      · exact h x (List.mem_cons_of_mem _ hx)
      · exact oneLine_prepend _ _ (fun c hc => (spaces_chars _ c hc).1) (h x (List.mem_cons_of_mem _ hx))

mutual
theorem wr_oneLine (nw : Bool) : ∀ (t : MB) (tr : Bool), t.ok nw = true → ∀ l ∈ wr tr t, oneLine l = true
  | .leaf b, _, h => item_oneLine b (by simpa [MB.ok] using h)
  | .list o n mk pad loose items, tr, h => by
    have hl := listOkM_of nw o n mk pad loose items h
    simp only [wr]
    exact wrItems_oneLine nw tr o mk pad loose n items hl.its
theorem wrs_oneLine (nw : Bool) : ∀ (ts : List MB), MB.oks nw ts = true → ∀ l ∈ wrs ts, oneLine l = true
  | [], _ => by simp [wrs]
  | [t], h => by rw [wrs_single]; exact wr_oneLine nw t false (oksM_cons nw _ _ h).1
  | t :: t' :: r, h => by
    have ih := wrs_oneLine nw (t' :: r) (oksM_cons nw _ _ h).2.1
    cases ha : adj t t' with
    | false =>
      rw [wrs_cons_sep t t' r ha]
      intro l hl
      rcases List.mem_append.mp hl with hl | hl
      · exact wr_oneLine nw t false (oksM_cons nw _ _ h).1 l hl
      · rcases List.mem_cons.mp hl with rfl | hl
        · decide
        · exact ih l hl
    | true =>
      rw [wrs_cons_adj t t' r ha]
      intro l hl
      rcases List.mem_append.mp hl with hl | hl
      · exact wr_oneLine nw t true (oksM_cons nw _ _ h).1 l hl
      · exact ih l hl
theorem wrItems_oneLine (nw : Bool) (tr o : Bool) (mk : Char) (pad : Nat) (loose : Bool) :
    ∀ (n : Nat) (items : List (List MB)), MB.okItems nw o mk pad n items = true →
      ∀ l ∈ wrItems tr o mk pad loose n items, oneLine l = true
  | _, [], _ => by simp [wrItems]
  | n, [it], h => by
    obtain ⟨_, hit, hlead, _, _, _⟩ := okItemsM_cons nw o mk pad n it [] h
    rw [wrItems_single]
    intro l hl
    rcases List.mem_append.mp hl with hl | hl
    · exact indentDoc_oneLine o _ hlead pad _ (wrs_oneLine nw it hit) l hl
    · cases tr with
      | false => simp [sepS] at hl
      | true => simp only [sepS, if_true, List.mem_singleton] at hl; rw [hl]; decide
  | n, it :: it' :: r, h => by
    obtain ⟨_, hit, hlead, _, _, hrest⟩ := okItemsM_cons nw o mk pad n it (it' :: r) h
    have ihr := wrItems_oneLine nw tr o mk pad loose (n + 1) (it' :: r) hrest
    rw [wrItems_cons2]
    intro l hl
    rcases List.mem_append.mp hl with hl | hl
    · exact indentDoc_oneLine o _ hlead pad _ (wrs_oneLine nw it hit) l hl
    · rcases List.mem_append.mp hl with hl | hl
      · cases loose with
        | false => simp [sepS] at hl
        | true => simp only [sepS, if_true, List.mem_singleton] at hl; rw [hl]; decide
      · exact ihr l hl
end

end Mistletoe.MdRound

/-! ### The theorems -/

namespace Mistletoe.Props.C09
open Mistletoe Mistletoe.Py Mistletoe.Block Mistletoe.Inline Mistletoe.InertInline Mistletoe.MdRound
open Mistletoe.Props.C14 (markdownTypes)

/-- the lines of a document of the fragment (blocks separated by single empty lines) -/
abbrev listDocLines (ts : List MB) : List Str := wrs ts

/-- **A document with lists in the renderer's normal form, inside `k` nested block quotes, is reproduced byte for byte.**
    `ts` (non-empty, `MB.oks o.normalize_whitespace`): prose paragraphs, ATX headings, thematic breaks (`Blk.ok`) and
    lists — bullet `-`/`+`/`*` or ordered `n.`/`n)` numbered consecutively, marker in column 0, 1…4 spaces of padding
    (exactly 1 under `normalize_whitespace=True`), items of one or more blocks of the fragment (nested lists included)
    separated by single empty lines and indented by the content offset, items separated by nothing or by one empty
    line — the blocks separated by single empty lines; behind a list comes a list of another marker type, or a block
    whose first line begins with a non-space character and carries no marker.  Every line carries `k` markers "> " (k = 0: no quote); the lines
    are tab-free; the block token types are the Markdown renderer's list, the span classes covered ones with `LineBreak`
    once.  Then `Document(lines)` succeeds, its children are `k` nested `Quote`s around the tokens `blks 1 ts`
    (`BlankLine` tokens between blocks and at the end of every item that is followed by an empty line — the empty line
    between two lists is at the end of the last item of the first; no item and no list is loose), and `MarkdownRenderer(normalize_whitespace=…).render` (no line limit) gives back the lines.
    `_partial`: the hypothesis `MB.oks` restricts the statement to this fragment. -/
theorem C09_lists_quoted_exact_partial (cfg : Document.Cfg) (hty : cfg.block.types = markdownTypes)
    (ht : ∀ t ∈ cfg.span, inertClass t = true) (hc : cfg.span.count .lineBreak = 1)
    (o : Markdown.Opts) (ho : o.maxLineLength = none)
    (ts : List MB) (hne : ts ≠ []) (hok : MB.oks o.normalizeWhitespace ts = true)
    (hnt : ∀ l ∈ wrs ts, '\t' ∉ l) (k : Nat) (gas : Nat) :
    ∃ d, Document.parseLines cfg (gas + (needsM ts + 1) + k * 8) (quoted k (wrs ts)) = .ok d ∧
      d.kids = qBlocks 1 (blks 1 ts) k ∧
      Markdown.renderRes o d = .ok (quoted k (wrs ts)).flatten ∧
      Markdown.render o d = (quoted k (wrs ts)).flatten := by
  have hwne : wrs ts ≠ [] := by
    cases ts with
    | nil => exact absurd rfl hne
    | cons t rest =>
      obtain ⟨ss, hs⟩ := wrs_head _ t rest (oksM_cons _ t rest hok).1 false
      intro e
      rw [e] at hs
      simp [ComposeL.sepS] at hs
  obtain ⟨s, ss', hss⟩ : ∃ s ss', wrs ts = s :: ss' := by
    cases hj : wrs ts with
    | nil => exact absurd hj hwne
    | cons s ss' => exact ⟨s, ss', rfl⟩
  have hnum : C14.numbered 0 (wrs ts) = { s := s, origin := 1 } :: C14.numbered 1 ss' := by
    rw [hss, C14.numbered_cons]
  have h0 : ∀ st, tokenizeBlock cfg.block (gas + (needsM ts + 1)) ({ s := s, origin := 1 } :: C14.numbered 1 ss') 1 st =
      .ok ({ entries := ents 1 ts, loose := false }, st) := by
    intro st
    have := tokenize_nodes cfg.block hty _ ts hok hne gas st
    rwa [hnum] at this
  have hnt' : ∀ l ∈ ({ s := s, origin := 1 } : Line) :: C14.numbered 1 ss', '\t' ∉ l.s := by
    intro l hl
    rw [← hnum] at hl
    exact hnt _ (C14.numbered_mem _ _ _ hl)
  obtain ⟨st', hq, hd⟩ := tokenize_qLines cfg.block
    [.linkRefDefBlock, .blankLine, .htmlBlock, .blockCode, .heading] [.codeFence, .thematicBreak, .list, .table, .paragraph]
    (by rw [hty]; rfl) (by decide) (by decide) _ _ hnt' 1 _ _ h0 k {}
  have hphase : blockPhase cfg.block (gas + (needsM ts + 1) + k * 8) (qStrs k (wrs ts)) =
      .ok ({ entries := qEntries 1 1 (ents 1 ts) k, loose := false }, st') := by
    have e : ∀ g ls, blockPhase cfg.block g ls = tokenizeBlock cfg.block g (C14.numbered 0 ls) 1 {} := fun _ _ => rfl
    rw [e, numbered_qStrs, hnum]
    exact hq
  have hdefs : st'.defs = [] := hd
  have hmk := mkBlocks_qEntries cfg (Document.footnotesOf []) 1 1 _ _
    (mkBlocks_ents cfg (Document.footnotesOf []) ht hc _ ts 1 hok) k
  have hout := renderBlocks_qBlocks o 1 _ _ (renderBlocks_blks o ts 1 hok) k
  have htext : Markdown.joinLines (qStrs k (outs ts)) = (qStrs k (wrs ts)).flatten := by
    rw [joinLines_eq, qStrs_nl, outs_lines _ ts hok]
  have hres : Markdown.renderRes o { kids := qBlocks 1 (blks 1 ts) k, footnotes := Document.footnotesOf [] } =
      .ok (qStrs k (wrs ts)).flatten := by
    simp only [Markdown.renderRes, ho, hout, htext]
  refine ⟨{ kids := qBlocks 1 (blks 1 ts) k, footnotes := Document.footnotesOf [] }, ?_, rfl, hres, ?_⟩
  · unfold Document.parseLines
    rw [hphase]
    simp only [hdefs]
    rw [hmk]
  · simp only [Markdown.render, hres]

/-- **`C09_lists_exact_partial`: a document with lists in the renderer's normal form is reproduced byte for byte**
    (no block quote around it; no hypothesis on tabs): `Document.parseLines cfg gas lines = .ok d ∧
    Markdown.renderRes o d = .ok lines.flatten`, for `cfg.block.types = markdownTypes`, `o.maxLineLength = none`, either
    value of `normalize_whitespace` (the normal form `MB.oks` is taken at that value: padding 1 when it is on). -/
theorem C09_lists_exact_partial (cfg : Document.Cfg) (hty : cfg.block.types = markdownTypes)
    (ht : ∀ t ∈ cfg.span, inertClass t = true) (hc : cfg.span.count .lineBreak = 1)
    (o : Markdown.Opts) (ho : o.maxLineLength = none)
    (ts : List MB) (hne : ts ≠ []) (hok : MB.oks o.normalizeWhitespace ts = true) (gas : Nat) :
    ∃ d, Document.parseLines cfg (gas + (needsM ts + 1)) (wrs ts) = .ok d ∧
      d.kids = blks 1 ts ∧
      Markdown.renderRes o d = .ok (wrs ts).flatten ∧ Markdown.render o d = (wrs ts).flatten := by
  have hphase : blockPhase cfg.block (gas + (needsM ts + 1)) (wrs ts) = .ok ({ entries := ents 1 ts, loose := false }, {}) :=
    tokenize_nodes cfg.block hty _ ts hok hne gas {}
  have hmk := mkBlocks_ents cfg (Document.footnotesOf []) ht hc _ ts 1 hok
  have hres : Markdown.renderRes o { kids := blks 1 ts, footnotes := Document.footnotesOf [] } = .ok (wrs ts).flatten := by
    simp only [Markdown.renderRes, ho, renderBlocks_blks o ts 1 hok]
    rw [joinLines_eq, outs_lines _ ts hok]
  refine ⟨{ kids := blks 1 ts, footnotes := Document.footnotesOf [] }, ?_, rfl, hres, ?_⟩
  · unfold Document.parseLines
    rw [hphase]
    simp only
    rw [hmk]
  · simp only [Markdown.render, hres]

/-- **The same from a `str`, for the token lists of the working tree** (`Config.markdown`), with the two corollaries:
    rendering again reproduces the text, and the rendered text parses like the original under every configuration
    (same document, same link definitions, same HTML). -/
theorem C09_lists_roundtrip_markdown (cfg : Document.Cfg) (hcfg : Config.markdown = some cfg)
    (o : Markdown.Opts) (ho : o.maxLineLength = none)
    (ts : List MB) (hne : ts ≠ []) (hok : MB.oks o.normalizeWhitespace ts = true)
    (hnt : ∀ l ∈ wrs ts, '\t' ∉ l) (k : Nat) (gas : Nat) :
    ∃ d, Document.parse cfg (gas + (needsM ts + 1) + k * 8) (quoted k (wrs ts)).flatten = .ok d ∧
      Markdown.render o d = (quoted k (wrs ts)).flatten ∧
      (∃ d', Document.parse cfg (gas + (needsM ts + 1) + k * 8) (Markdown.render o d) = .ok d' ∧
        Markdown.render o d' = Markdown.render o d) ∧
      (∀ (cfg' : Document.Cfg) (g : Nat),
        Document.parse cfg' g (Markdown.render o d) = Document.parse cfg' g (quoted k (wrs ts)).flatten) ∧
      (∀ (hopts : Html.Opts) (g : Nat),
        Config.renderHtml hopts g (Markdown.render o d) = Config.renderHtml hopts g (quoted k (wrs ts)).flatten) := by
  obtain ⟨_, ht, hc⟩ := C14.C14_config_covered cfg (Or.inr (Or.inl hcfg))
  have hty : cfg.block.types = markdownTypes := by
    have := C14.C14_config_current.2
    rw [hcfg] at this
    simpa using this
  have h1 := qStrs_oneLine k _ (wrs_oneLine _ ts hok)
  obtain ⟨d, h, _, _, h3⟩ := C09_lists_quoted_exact_partial cfg hty ht hc o ho ts hne hok hnt k gas
  rw [← parse_lines cfg _ _ h1] at h
  refine ⟨d, h, h3, ⟨d, ?_, rfl⟩, fun _ _ => by rw [h3], fun _ _ => by rw [h3]⟩
  rw [h3]; exact h

/-- without block quotes, from a `str`, no hypothesis on tabs -/
theorem C09_lists_exact_text_markdown (cfg : Document.Cfg) (hcfg : Config.markdown = some cfg)
    (o : Markdown.Opts) (ho : o.maxLineLength = none)
    (ts : List MB) (hne : ts ≠ []) (hok : MB.oks o.normalizeWhitespace ts = true) (gas : Nat) :
    ∃ d, Document.parse cfg (gas + (needsM ts + 1)) (wrs ts).flatten = .ok d ∧
      Markdown.renderRes o d = .ok (wrs ts).flatten ∧ Markdown.render o d = (wrs ts).flatten := by
  obtain ⟨_, ht, hc⟩ := C14.C14_config_covered cfg (Or.inr (Or.inl hcfg))
  have hty : cfg.block.types = markdownTypes := by
    have := C14.C14_config_current.2
    rw [hcfg] at this
    simpa using this
  obtain ⟨d, h, _, h2, h3⟩ := C09_lists_exact_partial cfg hty ht hc o ho ts hne hok gas
  rw [← parse_lines cfg _ _ (wrs_oneLine _ ts hok)] at h
  exact ⟨d, h, h2, h3⟩

end Mistletoe.Props.C09

/-! ### Non-vacuity -/

namespace Mistletoe.Props.C09
open Mistletoe Mistletoe.MdRound

/-- "# T\n\n- a\n- b c\n\n1. x\n2. y\n\npara\n" as a forest of the fragment -/
def listDoc1 : List MB :=
  [.leaf (.heading 1 (L "T")),
   .list false 0 '-' 1 false [[.leaf (.para [L "a\n"])], [.leaf (.para [L "b c\n"])]],
   .leaf (.para [L "sep\n"]),
   .list true 1 '.' 1 false [[.leaf (.para [L "x\n"])], [.leaf (.para [L "y\n"])]],
   .leaf (.para [L "para\n"])]

example : (wrs listDoc1).flatten = L "# T\n\n- a\n- b c\n\nsep\n\n1. x\n2. y\n\npara\n" := by decide +kernel

theorem listDoc1_ok : MB.oks true listDoc1 = true ∧ MB.oks false listDoc1 = true ∧ listDoc1 ≠ [] := by decide +kernel

/-- the theorem applies to it (either value of `normalize_whitespace`) … -/
example : ∃ d, Document.parseLines mdCfg (needsM listDoc1 + 1) (wrs listDoc1) = .ok d ∧
    Markdown.renderRes {} d = .ok (wrs listDoc1).flatten := by
  obtain ⟨d, h1, _, h3, _⟩ := C09_lists_exact_partial mdCfg rfl mdCfg_ok.2.2.1 mdCfg_ok.2.2.2 {} rfl listDoc1 listDoc1_ok.2.2
    listDoc1_ok.2.1 0
  exact ⟨d, by simpa using h1, h3⟩

example : ∃ d, Document.parseLines mdCfg (needsM listDoc1 + 1) (wrs listDoc1) = .ok d ∧
    Markdown.renderRes { normalizeWhitespace := true } d = .ok (wrs listDoc1).flatten := by
  obtain ⟨d, h1, _, h3, _⟩ := C09_lists_exact_partial mdCfg rfl mdCfg_ok.2.2.1 mdCfg_ok.2.2.2 { normalizeWhitespace := true } rfl
    listDoc1 listDoc1_ok.2.2 listDoc1_ok.1 0
  exact ⟨d, by simpa using h1, h3⟩

/-- … and the kernel evaluation of parser and renderer on the text agrees -/
example : (Document.parse mdCfg 120 (L "# T\n\n- a\n- b c\n\nsep\n\n1. x\n2. y\n\npara\n")).bind (fun d => Markdown.renderRes {} d) =
    .ok (L "# T\n\n- a\n- b c\n\nsep\n\n1. x\n2. y\n\npara\n") := by decide +kernel

/-- two lists in a row (different marker types): "# T\n\n- a\n- b c\n\n1. x\n2. y\n\npara\n".  The empty line between them
    belongs to the last item of the first list (`blks`: no `BlankLine` token between the two `List` tokens) -/
def listDoc3 : List MB :=
  [.leaf (.heading 1 (L "T")),
   .list false 0 '-' 1 false [[.leaf (.para [L "a\n"])], [.leaf (.para [L "b c\n"])]],
   .list true 1 '.' 1 false [[.leaf (.para [L "x\n"])], [.leaf (.para [L "y\n"])]],
   .leaf (.para [L "para\n"])]

example : (wrs listDoc3).flatten = L "# T\n\n- a\n- b c\n\n1. x\n2. y\n\npara\n" := by decide +kernel

theorem listDoc3_ok : MB.oks false listDoc3 = true ∧ listDoc3 ≠ [] := by decide +kernel

example : ∃ d, Document.parseLines mdCfg (needsM listDoc3 + 1) (wrs listDoc3) = .ok d ∧ d.kids = blks 1 listDoc3 ∧
    Markdown.renderRes {} d = .ok (wrs listDoc3).flatten := by
  obtain ⟨d, h1, h2, h3, _⟩ := C09_lists_exact_partial mdCfg rfl mdCfg_ok.2.2.1 mdCfg_ok.2.2.2 {} rfl listDoc3 listDoc3_ok.2
    listDoc3_ok.1 0
  exact ⟨d, by simpa using h1, h2, h3⟩

example : (Document.parse mdCfg 120 (L "# T\n\n- a\n- b c\n\n1. x\n2. y\n\npara\n")).bind (fun d => Markdown.renderRes {} d) =
    .ok (L "# T\n\n- a\n- b c\n\n1. x\n2. y\n\npara\n") := by decide +kernel

/-- two lists of the SAME type in a row are not two lists (they are one loose list): outside `sepOkM` -/
example : MB.oks false [.list false 0 '-' 1 false [[.leaf (.para [L "a\n"])]], .list false 0 '-' 1 false [[.leaf (.para [L "b\n"])]]] = false := by
  decide +kernel

/-- loose list, items of several blocks, nested lists, padding 3 on an ordered list with ")" -/
def listDoc2 : List MB :=
  [.list false 0 '*' 1 true
     [[.leaf (.para [L "a\n", L "a2\n"]), .leaf (.para [L "b\n"])],
      [.leaf (.para [L "c\n"]),
       .list false 0 '-' 1 false [[.leaf (.para [L "d\n"])], [.leaf (.para [L "e\n"])]],
       .leaf (.heading 2 (L "f"))]],
   .leaf (.hr '_'),
   .list true 10 ')' 3 false
     [[.leaf (.para [L "x\n"]), .leaf (.hr '*')],
      [.list false 0 '+' 2 true [[.leaf (.para [L "y\n"])], [.leaf (.para [L "z\n"])]]]]]

def listText2 : Str :=
  L ("* a\n  a2\n\n  b\n\n* c\n\n  - d\n  - e\n\n  ## f\n\n___\n\n" ++
     "10)   x\n\n      ***\n11)   +  y\n\n      +  z\n")

example : (wrs listDoc2).flatten = listText2 := by decide +kernel

theorem listDoc2_ok : MB.oks false listDoc2 = true ∧ listDoc2 ≠ [] ∧ (∀ l ∈ wrs listDoc2, '\t' ∉ l) := by decide +kernel

/-- padding 3 is not the normal form under `normalize_whitespace=True` -/
example : MB.oks true listDoc2 = false := by decide +kernel

/-- the round-trip theorem applies, inside two block quotes … -/
example : ∃ d, Document.parseLines mdCfg (needsM listDoc2 + 1 + 2 * 8) (quoted 2 (wrs listDoc2)) = .ok d ∧
    Markdown.render {} d = (quoted 2 (wrs listDoc2)).flatten := by
  obtain ⟨d, h1, _, _, h3⟩ := C09_lists_quoted_exact_partial mdCfg rfl mdCfg_ok.2.2.1 mdCfg_ok.2.2.2 {} rfl listDoc2 listDoc2_ok.2.1
    listDoc2_ok.1 listDoc2_ok.2.2 2 0
  exact ⟨d, by simpa using h1, h3⟩

/-- … and the kernel evaluation agrees (without quotes, and inside one quote) -/
example : (Document.parse mdCfg 300 listText2).bind (fun d => Markdown.renderRes {} d) = .ok listText2 := by decide +kernel

example : (Document.parse mdCfg 300 (quoted 1 (wrs listDoc2)).flatten).bind (fun d => Markdown.renderRes {} d) =
    .ok (quoted 1 (wrs listDoc2)).flatten := by decide +kernel

/-- lists of different types in a row inside an item, and at the end of an item that another item follows -/
def listDoc4 : List MB :=
  [.list false 0 '-' 1 false
     [[.leaf (.para [L "a\n"]),
       .list true 1 '.' 1 false [[.leaf (.para [L "x\n"])]],
       .list false 0 '+' 1 false [[.leaf (.para [L "y\n"])]],
       .list true 7 ')' 2 true [[.leaf (.para [L "p\n"])], [.leaf (.para [L "q\n"])]]],
      [.leaf (.para [L "b\n"])]],
   .list false 0 '*' 1 false [[.leaf (.hr '_')]]]

def listText4 : Str := L "- a\n\n  1. x\n\n  + y\n\n  7)  p\n\n  8)  q\n- b\n\n* ___\n"

example : (wrs listDoc4).flatten = listText4 := by decide +kernel

theorem listDoc4_ok : MB.oks false listDoc4 = true ∧ listDoc4 ≠ [] := by decide +kernel

example : ∃ d, Document.parseLines mdCfg (needsM listDoc4 + 1) (wrs listDoc4) = .ok d ∧
    Markdown.renderRes {} d = .ok (wrs listDoc4).flatten := by
  obtain ⟨d, h1, _, h3, _⟩ := C09_lists_exact_partial mdCfg rfl mdCfg_ok.2.2.1 mdCfg_ok.2.2.2 {} rfl listDoc4 listDoc4_ok.2
    listDoc4_ok.1 0
  exact ⟨d, by simpa using h1, h3⟩

example : (Document.parse mdCfg 300 listText4).bind (fun d => Markdown.renderRes {} d) = .ok listText4 := by decide +kernel

/-- `normalize_whitespace=True` rewrites the padding: the text is NOT reproduced (which is why `MB.ok true` asks for
    padding 1); the meaning is unchanged -/
example : (Document.parse mdCfg 100 (L "-   a\n\n    b\n-   c\n")).bind (fun d => Markdown.renderRes { normalizeWhitespace := true } d) =
    .ok (L "- a\n\n  b\n- c\n") := by decide +kernel

end Mistletoe.Props.C09
