/-
  C14, inline half, widened.  `Proofs/InertInline.lean` proves that text satisfying `inertBody` yields
  no span-token candidate.  That condition forbids every delimiter run that can close emphasis, every
  `]` after a `[`, every `&…;` and every `<` before a letter, digit or ``.!#$%&'*+/=?^_`{|}~-``.
  Here the condition is weakened to `inertBody2` (any table of link definitions) and `inertBody3`
  (empty table, which is what a document of inert paragraphs has):

  * `*` / `_` (`emphOk2`): runs may open or close emphasis provided no run that can open is followed
    later by a run of the same character that can close.  Then `process_emphasis` finds no match:
    `matching_opener` finds no opener for any closer (`processEmphasis_nopair`).
  * `&` (`ampOk2`): a `&` may begin something the Markdown character-reference regex matches as long as
    `html.unescape` replaces it by itself (`&foo;`, `&é;`), and `&;`, `&#;`, `&#x;`, `&#12345678;` (no match).
  * `<` (`ltOk2`): `<` may be followed by a digit or one of ``.#$%&'*+=^_`{|}~-`` when the run of e-mail
    local-part characters there is not followed by `@` (`<=`, `<3`, `<-`).
  * brackets (`inertBody3` only, `brOkG false`): a `]` after a `[` is allowed when neither `(` nor `[`
    follows it directly; with an empty definitions table `match_link_image` fails.

  End to end: `C14_prose_text2`, `C14_prose_text3` (namespace `Mistletoe.Props.C14`, end of the file).
-/
import Mistletoe.Proofs.InertInline
import Mistletoe.Proofs.EmphSpec
import Mistletoe.Props.C14
namespace Mistletoe.InertInline2
open Mistletoe Mistletoe.Py Mistletoe.Scan Mistletoe.InlineScan Mistletoe.Core Mistletoe.Inline Mistletoe.InertInline

/-! ## `process_emphasis` on a delimiter list without any opener/closer pair -/

/-- `a` (earlier) and `b` (later) are not an opener/closer pair of the same delimiter character -/
def NoMatch (a b : Delim) : Prop :=
  ¬((a.emph && a.opens) = true ∧ (b.emph && b.closes) = true ∧ a.type.head? = b.type.head?)

theorem closedBy_false_of_head (d c : Delim) (hd : d.type ≠ []) (hc : c.type ≠ [])
    (h : d.type.head? ≠ c.type.head?) : closedBy d c = .ok false := by
  unfold closedBy
  cases h1 : d.type with
  | nil => exact absurd h1 hd
  | cons a _ =>
    cases h2 : c.type with
    | nil => exact absurd h2 hc
    | cons b _ =>
      rw [h1, h2] at h
      simp only [List.head?_cons, ne_eq, Option.some.injEq] at h
      simp [h]

theorem matchingOpener_nopair (ds : List Delim) (curr : Nat) (closer : Delim) (bottom : Option Nat)
    (hc : ds[curr]? = some closer) (hcl : (closer.emph && closer.closes) = true)
    (hhead : ∀ d ∈ ds, d.type ≠ []) (hp : ds.Pairwise NoMatch) : matchingOpener curr ds bottom = .ok none := by
  unfold matchingOpener
  split
  · rfl
  · rw [hc]
    simp only
    apply go_none
    intro j _ hj d hd
    have hjl := (List.getElem?_eq_some_iff.1 hd)
    have hcl' := (List.getElem?_eq_some_iff.1 hc)
    by_cases ho : d.emph = true ∧ d.opens = true
    · right
      have hnm : NoMatch d closer := by
        have := (List.pairwise_iff_getElem.1 hp) j curr hjl.1 hcl'.1 (by omega)
        rw [hjl.2, hcl'.2] at this
        exact this
      apply closedBy_false_of_head d closer (hhead d (List.mem_of_getElem? hd)) (hhead closer (List.mem_of_getElem? hc))
      intro e
      exact hnm ⟨by simp [ho.1, ho.2], hcl, e⟩
    · left; exact ho

def loopMeasure (ds : List Delim) : Option Nat → Nat
  | none => 0
  | some k => ds.length + (ds.length - k) + 1

theorem loopMeasure_next (from_ : Nat) (ds : List Delim) :
    loopMeasure ds (nextCloser from_ ds) ≤ ds.length + (ds.length - from_) + 1 := by
  cases h : nextCloser from_ ds with
  | none => simp [loopMeasure]
  | some k => have := (nextCloser_spec from_ ds k h).1; simp only [loopMeasure]; omega

/-- without an opener/closer pair the loop records no match -/
theorem emphLoop_nopair (s : Str) (sb : Option Nat) : ∀ (fuel : Nat) (st : EState) (curr : Option Nat),
    (∀ d ∈ st.ds, d.type ≠ []) → st.ds.Pairwise NoMatch → CurrOK st.ds curr → loopMeasure st.ds curr < fuel →
    ∃ st', emphLoop s sb fuel st curr = .ok st' ∧ st'.ms = st.ms
  | 0, _, _, _, _, _, hf => by omega
  | fuel + 1, st, none, _, _, _, _ => ⟨st, by simp [emphLoop], rfl⟩
  | fuel + 1, st, some curr, hh, hp, hc, hf => by
    obtain ⟨closer, hcl, he, hcs⟩ := hc curr rfl
    have hlen := (List.getElem?_eq_some_iff.1 hcl).1
    have hty := hh closer (List.mem_of_getElem? hcl)
    obtain ⟨ch, hch⟩ : ∃ ch, closer.type.head? = some ch := by
      cases h : closer.type with
      | nil => exact absurd h hty
      | cons a _ => exact ⟨a, rfl⟩
    simp only [loopMeasure] at hf
    rw [emphLoop_succ, emphStep, hcl]
    simp only [hch]
    rw [matchingOpener_nopair st.ds curr closer _ hcl (by simp [he, hcs]) hh hp]
    cases ho : closer.opens with
    | false =>
      simp only [Bool.not_false, if_true]
      have hsub : (st.ds.eraseIdx curr).Sublist st.ds := List.eraseIdx_sublist _ _
      have hl : (st.ds.eraseIdx curr).length = st.ds.length - 1 := by
        rw [List.length_eraseIdx]; simp [hlen]
      exact emphLoop_nopair s sb fuel
        { st with ds := st.ds.eraseIdx curr, bottoms := bottomsSet st.bottoms (ch, false, closer.runLength % 3) (if curr > 0 then some (curr - 1) else sb) }
        (nextCloser curr (st.ds.eraseIdx curr))
        (fun d hd => hh d (hsub.subset hd)) (hp.sublist hsub) (CurrOK_nextCloser _ _)
        (by have := loopMeasure_next curr (st.ds.eraseIdx curr); simp only at this ⊢; omega)
    | true =>
      simp only [Bool.not_true, Bool.false_eq_true, if_false]
      exact emphLoop_nopair s sb fuel
        { st with bottoms := bottomsSet st.bottoms (ch, true, closer.runLength % 3) (if curr > 0 then some (curr - 1) else sb) }
        (nextCloser (curr + 1) st.ds) hh hp (CurrOK_nextCloser _ _)
        (by have := loopMeasure_next (curr + 1) st.ds; simp only at this ⊢; omega)

theorem processEmphasis_nopair (s : Str) (ds : List Delim) (ms : List CoreM)
    (hh : ∀ d ∈ ds, d.type ≠ []) (hp : ds.Pairwise NoMatch) : processEmphasis s none ds ms = .ok ([], ms) := by
  unfold processEmphasis
  obtain ⟨st', e, hm⟩ := emphLoop_nopair s none (2 * s.length + 2 * ds.length + 4) { ds := ds, ms := ms, bottoms := [] }
    (nextCloser (Option.getD none 0) ds) hh hp (CurrOK_nextCloser _ _)
    (by have := loopMeasure_next (Option.getD none 0) ds; simp only at this ⊢; omega)
  rw [e]
  simp only at hm
  simp [hm]


/-! ## the widened predicate -/

/-- the run of `d`s can open emphasis (`Delimiter.open`), in terms of the characters before and after it -/
def canOpen (d b a : Char) : Bool :=
  if d == '*' then leftFl b a else leftFl b a && (!rightFl b a || (rightFl b a && punct b))

/-- the character after the run of `c`s that begins just before `rest` (`' '` at the end of the text) -/
def runAfter (c : Char) (rest : Str) : Char := ((rest.drop (countLeading c rest)).head?).getD ' '

/-- "an earlier run of this delimiter character can open": `so` for `*`, `su` for `_` -/
def seenOf (so su : Bool) (c : Char) : Bool := if c == '*' then so else su

/-- **no opener run is followed later by a closer run of the same character.**  `so` / `su`: a run of
    `*` / of `_` that can open emphasis has been seen; `p` is the character before the text (`' '` at
    the start).  At the beginning of each run: it must not be the case that an opener of the same
    character was seen and this run can close; then the run's own ability to open is recorded. -/
def emphOk2 : Bool → Bool → Char → Str → Bool
  | _, _, _, [] => true
  | so, su, p, c :: rest =>
    if (c == '*' || c == '_') && p != c then
      !(seenOf so su c && canClose c p (runAfter c rest)) &&
        emphOk2 (so || (c == '*' && canOpen c p (runAfter c rest))) (su || (c == '_' && canOpen c p (runAfter c rest))) c rest
    else emphOk2 so su c rest

/-- brackets.  `seen`: a `[` occurred earlier.  `strict = true`: no `]` after a `[` (this is
    `bracketsOk`).  `strict = false`: a `]` after a `[` is allowed when neither `(` nor `[` follows it
    directly (then, with an empty table of link definitions, `match_link_image` fails). -/
def brOkG (strict : Bool) : Bool → Str → Bool
  | _, [] => true
  | seen, c :: rest =>
    (c != ']' || !seen || (!strict && rest.head? != some '(' && rest.head? != some '[')) &&
      brOkG strict (seen || c == '[') rest

/-! ### `<` -/

/-- after a `<`: the end of the text, or a character that is not an ASCII letter, `/`, `!`, `?` (no
    HTML tag, comment, declaration, instruction, no URI autolink) such that the run of e-mail
    local-part characters starting there is empty or not followed by `@` (no e-mail autolink):
    `<=`, `<3`, `<-`, `<$` are allowed -/
def ltNext2 : Str → Bool
  | [] => true
  | d :: r => !isAlpha d && d != '/' && d != '!' && d != '?' &&
      (!localChar d || (span localChar (d :: r)).2.head? != some '@')

def ltOk2 : Str → Bool
  | [] => true
  | c :: rest => (c != '<' || ltNext2 rest) && ltOk2 rest

theorem ltNext_ltNext2 (r : Str) (h : ltNext r = true) : ltNext2 r = true := by
  cases r with
  | nil => rfl
  | cons d r =>
    simp only [ltNext, Bool.not_eq_eq_eq_not, Bool.not_true] at h
    obtain ⟨ha, h1, h2, h3⟩ := localChar_of d h
    simp [ltNext2, ha, h1, h2, h3, h]

theorem ltOk_ltOk2 : ∀ (s : Str), ltOk s = true → ltOk2 s = true
  | [], _ => rfl
  | c :: rest, h => by
    simp only [ltOk, Bool.and_eq_true, Bool.or_eq_true] at h
    simp only [ltOk2, Bool.and_eq_true, Bool.or_eq_true]
    exact ⟨h.1.imp id (ltNext_ltNext2 rest), ltOk_ltOk2 rest h.2⟩

theorem ltNext2_of (d : Char) (r : Str) (h : ltNext2 (d :: r) = true) :
    isAlpha d = false ∧ d ≠ '/' ∧ d ≠ '!' ∧ d ≠ '?' ∧
      (localChar d = false ∨ (span localChar (d :: r)).2.head? ≠ some '@') := by
  simpa [ltNext2, and_assoc] using h

theorem autoLinkBody_none2 (r : Str) (h : ltNext2 r = true) : autoLinkBody r = none := by
  cases r with
  | nil => simp [autoLinkBody, span]
  | cons d r1 =>
    obtain ⟨ha, _, _, _, h5⟩ := ltNext2_of d r1 h
    unfold autoLinkBody
    simp only [ha, Bool.not_false, if_true]
    rcases h5 with h5 | h5
    · simp [span, h5]
    · split
      · rfl
      · split
        · rename_i heq
          rw [heq] at h5
          simp at h5
        · rfl

theorem autoLinkAt_none2 (prev : Option Char) (c : Char) (rest : Str) (hc : c ≠ '\\')
    (hl : (c != '<' || ltNext2 rest) = true) :
    autoLinkAt prev (c :: rest) = none := by
  unfold autoLinkAt
  split
  · rfl
  · simp only [leadingBackslashes, countLeading_ne _ _ _ hc, List.drop_zero]
    split
    · rfl
    · split
      · rename_i heq
        simp only [List.cons.injEq] at heq
        obtain ⟨rfl, rfl⟩ := heq
        simp only [bne_self_eq_false, Bool.false_or] at hl
        rw [autoLinkBody_none2 _ hl]
      · rfl

theorem htmlSpanAt_none2 (prev : Option Char) (c : Char) (rest : Str)
    (hl : (c != '<' || ltNext2 rest) = true) : htmlSpanAt prev (c :: rest) = none := by
  have e4 : "<!--".toList = ['<', '!', '-', '-'] := by decide
  have e8 : "<![CDATA".toList = ['<', '!', '[', 'C', 'D', 'A', 'T', 'A'] := by decide
  unfold htmlSpanAt
  split
  · rfl
  · by_cases hc : c = '<'
    · subst hc
      simp only [bne_self_eq_false, Bool.false_or] at hl
      cases rest with
      | nil => simp [openTag, closingTag, commentAt, instructionAt, declarationAt, cdataAt, startsWith, e4, e8]
      | cons d r =>
        obtain ⟨ha, h1, h2, h3, _⟩ := ltNext2_of d r hl
        simp [openTag, closingTag, commentAt, instructionAt, declarationAt, cdataAt, startsWith, e4, e8, ha, h1, h2, h3,
          Block.isPrefix_ne '!' d _ r h2]
    · simp [openTag, closingTag, commentAt, instructionAt, declarationAt, cdataAt, startsWith, e4, e8, hc,
        Block.isPrefix_ne '<' c _ rest hc]

/-- what the regex scanners need of the text (widened `<` condition) -/
structure ScanOk2 (s : Str) : Prop where
  ok : ∀ c ∈ s, c ≠ '\\' ∧ c ≠ '`'
  lt : ltOk2 s = true
  tilde : tildeOk s = true

theorem ScanOk2.tail {c : Char} {rest : Str} (h : ScanOk2 (c :: rest)) : ScanOk2 rest := by
  obtain ⟨h1, h2, h3⟩ := h
  simp only [ltOk2, tildeOk, Bool.and_eq_true] at h2 h3
  exact ⟨fun x hx => h1 x (List.mem_cons_of_mem _ hx), h2.2, h3.2⟩

theorem ScanOk2.head_lt {c : Char} {rest : Str} (h : ScanOk2 (c :: rest)) : (c != '<' || ltNext2 rest) = true := by
  have := h.lt
  simp only [ltOk2, Bool.and_eq_true] at this
  exact this.1

theorem ScanOk2.head_tilde {c : Char} {rest : Str} (h : ScanOk2 (c :: rest)) : (c == '~' && rest.head? == some '~') = false := by
  have := h.tilde
  simp only [tildeOk, Bool.and_eq_true, Bool.not_eq_eq_eq_not, Bool.not_true] at this
  exact this.1

theorem findOne_scan2 (s : Str) (h : ScanOk2 s) (t : STok) (ht : inertClass t = true) (hlb : t ≠ .lineBreak) :
    findOne s [] [] t = [] := by
  cases t with
  | escapeSequence =>
    simp only [findOne, List.map_eq_nil_iff]
    exact findIter_nil _ ScanOk2 (fun _ _ => ScanOk2.tail) (fun p c r hq => escapeAt_none p c r (hq.ok c (by simp)).1) s h
  | htmlSpan =>
    simp only [findOne, List.map_eq_nil_iff]
    exact findIter_nil _ ScanOk2 (fun _ _ => ScanOk2.tail) (fun p c r hq => htmlSpanAt_none2 p c r hq.head_lt) s h
  | strikethrough =>
    simp only [findOne, List.map_eq_nil_iff]
    exact findIter_nil _ ScanOk2 (fun _ _ => ScanOk2.tail)
      (fun p c r hq => strikeAt_none p c r (hq.ok c (by simp)).1 hq.head_tilde) s h
  | autoLink =>
    simp only [findOne, List.map_eq_nil_iff]
    exact findIter_nil _ ScanOk2 (fun _ _ => ScanOk2.tail)
      (fun p c r hq => autoLinkAt_none2 p c r (hq.ok c (by simp)).1 hq.head_lt) s h
  | coreTokens => rfl
  | inlineCode => rfl
  | lineBreak => exact absurd rfl hlb
  | math => cases ht
  | githubWiki => cases ht
  | xwikiMacroStart => cases ht
  | xwikiMacroEnd => cases ht

/-! ### `&` -/

/-- `html.unescape` leaves the `&` before `rest` alone: no character reference (in the Markdown
    regex's sense) begins there, or it is a named one that is replaced by itself — the name is not an
    HTML5 entity and does not begin with one (`&foo;`, `&é;`) -/
def ampFree (rest : Str) : Bool :=
  match Unescape.charrefAt true rest with
  | none => true
  | some (_, rep) => rest.head? != some '#' && rep == '&' :: (span Unescape.nameChar rest).1 ++ [';']

def ampOk2 : Str → Bool
  | [] => true
  | c :: rest => (c != '&' || ampFree rest) && ampOk2 rest

theorem ampOk_ampOk2 : ∀ (s : Str), ampOk s = true → ampOk2 s = true
  | [], _ => rfl
  | c :: rest, h => by
    simp only [ampOk, Bool.and_eq_true, Bool.or_eq_true] at h
    simp only [ampOk2, Bool.and_eq_true, Bool.or_eq_true]
    refine ⟨?_, ampOk_ampOk2 rest h.2⟩
    rcases h.1 with h1 | h1
    · exact Or.inl h1
    · right; simp [ampFree, charrefAt_none rest h1]

theorem ampOk2_drop : ∀ (n : Nat) (s : Str), ampOk2 s = true → ampOk2 (s.drop n) = true
  | 0, _, h => h
  | _ + 1, [], _ => rfl
  | n + 1, c :: rest, h => by
    simp only [ampOk2, Bool.and_eq_true] at h
    exact ampOk2_drop n rest h.2

theorem charrefAt_named (rest : Str) (len : Nat) (rep : Str) (hh : rest.head? ≠ some '#')
    (h : Unescape.charrefAt true rest = some (len, rep)) :
    ∃ tail, rest = (span Unescape.nameChar rest).1 ++ ';' :: tail ∧ len = (span Unescape.nameChar rest).1.length + 1 := by
  unfold Unescape.charrefAt at h
  split at h
  · simp at hh
  · simp only [if_true] at h
    obtain ⟨e, _⟩ := span_eq Unescape.nameChar rest _ _ rfl
    split at h
    · cases h
    · split at h
      · rename_i hc
        simp only [Bool.and_eq_true, decide_eq_true_eq, beq_iff_eq] at hc
        cases hb : (span Unescape.nameChar rest).2 with
        | nil => rw [hb] at hc; simp at hc
        | cons d b =>
          rw [hb] at hc e
          simp only [List.head?_cons, Option.some.injEq] at hc
          obtain ⟨_, rfl⟩ := hc
          simp only [Option.some.injEq, Prod.mk.injEq] at h
          exact ⟨b, e, h.1.symm⟩
      · cases h

theorem unescapeAux_inert2 : ∀ (fuel : Nat) (s : Str), ampOk2 s = true → Unescape.unescapeAux true fuel s = s
  | 0, _, _ => rfl
  | _ + 1, [], _ => rfl
  | fuel + 1, c :: rest, h => by
    simp only [ampOk2, Bool.and_eq_true, Bool.or_eq_true] at h
    have ih := unescapeAux_inert2 fuel rest h.2
    simp only [Unescape.unescapeAux]
    split
    · rename_i hc
      simp only [beq_iff_eq] at hc
      subst hc
      have hf : ampFree rest = true := by simpa using h.1
      unfold ampFree at hf
      cases hcr : Unescape.charrefAt true rest with
      | none => simp only [ih]
      | some r =>
        obtain ⟨len, rep⟩ := r
        rw [hcr] at hf
        simp only [Bool.and_eq_true, bne_iff_ne, ne_eq, beq_iff_eq] at hf
        obtain ⟨tail, e1, e2⟩ := charrefAt_named rest len rep hf.1 hcr
        simp only
        rw [unescapeAux_inert2 fuel (rest.drop len) (ampOk2_drop len rest h.2), hf.2]
        subst e2
        generalize (span Unescape.nameChar rest).1 = run at e1 ⊢
        subst e1
        simp
    · rw [ih]

theorem unescape_inert2 (s : Str) (h : ampOk2 s = true) : Unescape.unescape true s = s := unescapeAux_inert2 _ s h


theorem span_nl_gen (p : Char → Bool) (hp : p '\n' = false) (more : Str) : ∀ (t : Str),
    span p (t ++ '\n' :: more) = ((span p t).1, (span p t).2 ++ '\n' :: more)
  | [] => by simp [span, hp]
  | c :: t => by
    simp only [List.cons_append, span]
    split
    · rw [span_nl_gen p hp more t]
    · rfl

theorem head_semi (x more : Str) : ((x ++ '\n' :: more).head? == some ';') = (x.head? == some ';') := by
  cases x <;> simp

theorem charrefAt_not_hash (r : Str) (h : r.head? ≠ some '#') :
    Unescape.charrefAt true r =
      if (span Unescape.nameChar r).1.isEmpty then none
      else if (span Unescape.nameChar r).1.length ≤ 32 && (span Unescape.nameChar r).2.head? == some ';' then
        some ((span Unescape.nameChar r).1.length + 1, Unescape.namedRef ((span Unescape.nameChar r).1 ++ [';']))
      else none := by
  unfold Unescape.charrefAt
  split
  · simp at h
  · simp

theorem charrefAt_nl (t more : Str) : Unescape.charrefAt true (t ++ '\n' :: more) = Unescape.charrefAt true t := by
  have h1 : Unescape.hexDigitC '\n' = false := by decide
  have h2 : Unescape.asciiDigit '\n' = false := by decide
  have h3 : Unescape.nameChar '\n' = false := by decide
  cases t with
  | nil => simp [Unescape.charrefAt, span, h3]
  | cons c t1 =>
    by_cases hc : c = '#'
    · subst hc
      cases t1 with
      | nil => simp [Unescape.charrefAt, span, h2]
      | cons x t2 =>
        simp only [List.cons_append, Unescape.charrefAt]
        split
        · rw [span_nl_gen _ h1]
          simp only [head_semi]
        · have := span_nl_gen _ h2 more (x :: t2)
          simp only [List.cons_append] at this
          rw [this]
          simp only [head_semi]
    · rw [charrefAt_not_hash (c :: t1) (by simpa using hc),
        charrefAt_not_hash (c :: t1 ++ '\n' :: more) (by simpa using hc), span_nl_gen _ h3]
      simp only [head_semi]

theorem ampFree_nl (t more : Str) (h : ampFree (t ++ '\n' :: more) = true) : ampFree t = true := by
  unfold ampFree at h ⊢
  rw [charrefAt_nl] at h
  have h3 : Unescape.nameChar '\n' = false := by decide
  rw [span_nl_gen _ h3] at h
  cases hcr : Unescape.charrefAt true t with
  | none => rfl
  | some r =>
    rw [hcr] at h
    simp only [Bool.and_eq_true, bne_iff_ne, ne_eq, beq_iff_eq] at h ⊢
    refine ⟨?_, h.2⟩
    intro e
    apply h.1
    cases t with
    | nil => simp at e
    | cons c t1 => simpa using e

theorem ampOk2_append_right : ∀ (a b : Str), ampOk2 (a ++ b) = true → ampOk2 b = true
  | [], _, h => h
  | c :: a, b, h => by
    simp only [List.cons_append, ampOk2, Bool.and_eq_true] at h
    exact ampOk2_append_right a b h.2

theorem ampOk2_prefix_nl (more : Str) : ∀ (t : Str), ampOk2 (t ++ '\n' :: more) = true → ampOk2 t = true
  | [], _ => rfl
  | c :: t, h => by
    simp only [List.cons_append, ampOk2, Bool.and_eq_true, Bool.or_eq_true] at h ⊢
    refine ⟨?_, ampOk2_prefix_nl more t h.2⟩
    rcases h.1 with h1 | h1
    · exact Or.inl h1
    · exact Or.inr (ampFree_nl t more h1)

open Mistletoe.Document in
theorem ampOk2_lines : ∀ (ts : List Str), ampOk2 (joinNl ts) = true → ∀ t ∈ ts, ampOk2 t = true
  | [], _, _, h => by simp at h
  | [t], h, x, hx => by
    simp only [List.mem_singleton] at hx
    subst hx
    simpa [joinNl] using h
  | t :: t' :: rest, h, x, hx => by
    rw [joinNl_cons2] at h
    rcases List.mem_cons.mp hx with rfl | hx
    · exact ampOk2_prefix_nl _ _ h
    · have h2 : ampOk2 (joinNl (t' :: rest)) = true := by
        have := ampOk2_append_right (t ++ ['\n']) (joinNl (t' :: rest)) (by simpa using h)
        exact this
      exact ampOk2_lines (t' :: rest) h2 x hx

/-! ### the predicates -/

/-- inert text, widened (`strict = true`: any table of link definitions; `false`: the empty table) -/
def inertBodyG (strict : Bool) (s : Str) : Bool :=
  s.all okChar && ltOk2 s && ampOk2 s && tildeOk s && brOkG strict false s && emphOk2 false false ' ' s

/-- **the widened inline condition**: no backslash, no backquote; `<` not before a tag / autolink start
    (`ltOk2`); no `&` that `html.unescape` would change (`ampOk2`); no `~~`; no `]` after the first `[`
    (`bracketsOk`); runs of `*` / `_` may open or close emphasis as long as no run that can open is
    followed later by a run of the same character that can close (`emphOk2`) -/
def inertBody2 (s : Str) : Bool :=
  s.all okChar && ltOk2 s && ampOk2 s && tildeOk s && bracketsOk s && emphOk2 false false ' ' s

/-- widened further, for an empty table of link definitions: `]` after `[` is allowed when it is
    followed directly by neither `(` nor `[` -/
def inertBody3 (s : Str) : Bool := inertBodyG false s

theorem emphOk_emphOk2 : ∀ (s : Str) (so su : Bool) (p : Char), emphOk p s = true → emphOk2 so su p s = true
  | [], _, _, _, _ => rfl
  | c :: rest, so, su, p, h => by
    simp only [emphOk, Bool.and_eq_true] at h
    simp only [emphOk2]
    split
    · rename_i hc
      have hc' : (c == '*' || c == '_') = true ∧ (p != c) = true := by simpa using hc
      rw [if_pos hc'] at h
      have h1 : canClose c p (runAfter c rest) = false := by simpa [runAfter] using h.1
      simp only [h1, Bool.and_false, Bool.not_false, Bool.true_and]
      exact emphOk_emphOk2 rest _ _ c h.2
    · exact emphOk_emphOk2 rest _ _ c h.2

theorem brOkG_notin (strict : Bool) : ∀ (s : Str) (seen : Bool), ']' ∉ s → brOkG strict seen s = true
  | [], _, _ => rfl
  | c :: rest, seen, h => by
    have hc : c ≠ ']' := fun e => h (by simp [e])
    simp only [brOkG, Bool.and_eq_true, Bool.or_eq_true]
    exact ⟨Or.inl (Or.inl (by simpa using hc)), brOkG_notin strict rest _ (fun hm => h (List.mem_cons_of_mem _ hm))⟩

theorem bracketsOk_brOkG (strict : Bool) : ∀ (s : Str), bracketsOk s = true → brOkG strict false s = true
  | [], _ => rfl
  | c :: rest, h => by
    simp only [bracketsOk] at h
    simp only [brOkG, Bool.not_false, Bool.or_true, Bool.true_or, Bool.true_and, Bool.false_or]
    split at h
    · exact brOkG_notin strict rest _ (by simpa using h)
    · rename_i hc
      have : (c == '[') = false := by simpa using hc
      rw [this]
      exact bracketsOk_brOkG strict rest h

theorem inertBody2_inertBodyG (strict : Bool) (s : Str) (h : inertBody2 s = true) : inertBodyG strict s = true := by
  simp only [inertBody2, Bool.and_eq_true] at h
  simp only [inertBodyG, Bool.and_eq_true]
  exact ⟨⟨h.1.1, bracketsOk_brOkG strict s h.1.2⟩, h.2⟩

/-- **`inertBody` implies `inertBody2`** -/
theorem inertBody_inertBody2 (s : Str) (h : inertBody s = true) : inertBody2 s = true := by
  simp only [inertBody, Bool.and_eq_true] at h
  simp only [inertBody2, Bool.and_eq_true]
  obtain ⟨⟨⟨⟨⟨h1, h2⟩, h3⟩, h4⟩, h5⟩, h6⟩ := h
  exact ⟨⟨⟨⟨⟨h1, ltOk_ltOk2 s h2⟩, ampOk_ampOk2 s h3⟩, h4⟩, h5⟩, emphOk_emphOk2 s _ _ _ h6⟩

theorem inertBody2_inertBody3 (s : Str) (h : inertBody2 s = true) : inertBody3 s = true :=
  inertBody2_inertBodyG false s h


/-! ## `find_core_tokens` finds nothing under the widened predicate -/

theorem isOpener_at (pre : Str) (c : Char) (rest : Str) (k : Nat) :
    isOpener pre.length (pre.length + 1 + k) (pre ++ c :: rest) =
      canOpen c (pre.getLast?.getD ' ') (((rest.drop k).head?).getD ' ') := by
  unfold isOpener isRightDelimiter isLeftDelimiter precededBy succeededBy canOpen rightFl leftFl
  rw [getElem?_at, getElem?_after, getElem?_before]
  simp

/-- the delimiter list: no empty type, no opener/closer pair, and the flags cover the openers in it -/
structure DsOk (so su : Bool) (ds : List Delim) : Prop where
  head : ∀ d ∈ ds, d.type ≠ []
  pair : ds.Pairwise NoMatch
  seen : ∀ d ∈ ds, (d.emph && d.opens) = true → ∀ ch, d.type.head? = some ch → seenOf so su ch = true

theorem DsOk.nil (so su : Bool) : DsOk so su [] := ⟨by simp, List.Pairwise.nil, by simp⟩

theorem DsOk.sublist {so su : Bool} {ds ds' : List Delim} (h : DsOk so su ds) (hs : ds'.Sublist ds) : DsOk so su ds' :=
  ⟨fun d hd => h.head d (hs.subset hd), h.pair.sublist hs, fun d hd => h.seen d (hs.subset hd)⟩

theorem DsOk.mono {so su so' su' : Bool} {ds : List Delim} (h : DsOk so su ds)
    (hm : ∀ ch, seenOf so su ch = true → seenOf so' su' ch = true) : DsOk so' su' ds :=
  ⟨h.head, h.pair, fun d hd ho ch hc => hm ch (h.seen d hd ho ch hc)⟩

theorem DsOk.push {so su : Bool} {ds : List Delim} (h : DsOk so su ds) (D : Delim) (h1 : D.type ≠ [])
    (h2 : (D.emph && D.closes) = true → ∀ d ∈ ds, (d.emph && d.opens) = true → d.type.head? ≠ D.type.head?)
    (h3 : (D.emph && D.opens) = true → ∀ ch, D.type.head? = some ch → seenOf so su ch = true) :
    DsOk so su (ds ++ [D]) := by
  refine ⟨?_, ?_, ?_⟩
  · intro d hd
    rcases List.mem_append.mp hd with hd | hd
    · exact h.head d hd
    · simp only [List.mem_singleton] at hd; subst hd; exact h1
  · rw [List.pairwise_append]
    refine ⟨h.pair, List.pairwise_singleton _ _, ?_⟩
    intro a ha b hb
    simp only [List.mem_singleton] at hb; subst hb
    intro ⟨x1, x2, x3⟩
    exact h2 x2 a ha x1 x3
  · intro d hd
    rcases List.mem_append.mp hd with hd | hd
    · exact h.seen d hd
    · simp only [List.mem_singleton] at hd; subst hd; exact h3

theorem DsOk.push_plain {so su : Bool} {ds : List Delim} (h : DsOk so su ds) (D : Delim) (h1 : D.type ≠ [])
    (he : D.emph = false) : DsOk so su (ds ++ [D]) :=
  h.push D h1 (by simp [he]) (by simp [he])

theorem mkDelim_type_ne (s : Str) (a b : Nat) (c0 : Char) (hab : a < b) (h : s[a]? = some c0) : (mkDelim a b s).type ≠ [] := by
  intro e
  have := mkDelim_head s a b hab
  rw [e, h] at this
  simp at this

theorem mkDelim_run (s : Str) (a b : Nat) (ch : Char) (hab : a < b) (h : s[a]? = some ch) (hd : ch = '*' ∨ ch = '_') :
    (mkDelim a b s).type.head? = some ch ∧ (mkDelim a b s).emph = true ∧
      (mkDelim a b s).opens = isOpener a b s ∧ (mkDelim a b s).closes = isCloser a b s := by
  have hh := mkDelim_head s a b hab
  rw [h] at hh
  have he : (mkDelim a b s).emph = true := by
    simp only [mkDelim, Core.slice_head s a b hab, h]
    rcases hd with rfl | rfl <;> simp
  refine ⟨hh, he, ?_, ?_⟩
  · have : (mkDelim a b s).opens = ((mkDelim a b s).emph && isOpener a b s) := rfl
    rw [this, he, Bool.true_and]
  · have : (mkDelim a b s).closes = ((mkDelim a b s).emph && isCloser a b s) := rfl
    rw [this, he, Bool.true_and]

/-- closing the pending run `[start, stop)` of `ch`s -/
theorem close_run (s : Str) (ds : List Delim) (so su : Bool) (start stop : Nat) (ch : Char) (hds : DsOk so su ds)
    (hdel : ch = '*' ∨ ch = '_') (hst : start < stop) (hsa : s[start]? = some ch)
    (hcl : isCloser start stop s = true → ∀ d ∈ ds, (d.emph && d.opens) = true → d.type.head? ≠ some ch)
    (hop : isOpener start stop s = true → seenOf so su ch = true) :
    DsOk so su (ds ++ [mkDelim start stop s]) ∧ isBr (mkDelim start stop s) = false := by
  obtain ⟨r1, r2, r3, r4⟩ := mkDelim_run s start stop ch hst hsa hdel
  have hch1 : ch ≠ '[' := by rcases hdel with rfl | rfl <;> decide
  have hch2 : ch ≠ '!' := by rcases hdel with rfl | rfl <;> decide
  refine ⟨?_, isBr_of_head start stop s ch hst hsa hch1 hch2⟩
  apply hds.push _ (mkDelim_type_ne s start stop ch hst hsa)
  · intro hc d hd ho
    rw [r1]
    rw [r2, r4, Bool.true_and] at hc
    exact hcl hc d hd ho
  · intro ho c' hc'
    rw [r1] at hc'
    simp only [Option.some.injEq] at hc'
    subst hc'
    rw [r2, r3, Bool.true_and] at ho
    exact hop ho

theorem flags_step (so su : Bool) (c : Char) (x : Bool) (hd : c = '*' ∨ c = '_') :
    (∀ ch, seenOf so su ch = true → seenOf (so || (c == '*' && x)) (su || (c == '_' && x)) ch = true) ∧
    (x = true → seenOf (so || (c == '*' && x)) (su || (c == '_' && x)) c = true) := by
  constructor
  · intro ch h
    unfold seenOf at h ⊢
    split
    · rename_i hc; rw [if_pos hc] at h; simp [h]
    · rename_i hc; rw [if_neg hc] at h; simp [h]
  · intro hx
    subst hx
    rcases hd with rfl | rfl <;> simp [seenOf]

theorem em2_skip (so su : Bool) (p c : Char) (rest : Str) (h : emphOk2 so su p (c :: rest) = true)
    (hn : ¬((c = '*' ∨ c = '_') ∧ p ≠ c)) : emphOk2 so su c rest = true := by
  simp only [emphOk2] at h
  split at h
  · rename_i hc
    simp only [Bool.and_eq_true, Bool.or_eq_true, beq_iff_eq, bne_iff_ne, ne_eq] at hc
    exact absurd hc hn
  · exact h

theorem em2_head (so su : Bool) (p c : Char) (rest : Str) (h : emphOk2 so su p (c :: rest) = true)
    (hd : c = '*' ∨ c = '_') (hp : p ≠ c) :
    (canClose c p (runAfter c rest) = true → seenOf so su c = false) ∧
    emphOk2 (so || (c == '*' && canOpen c p (runAfter c rest))) (su || (c == '_' && canOpen c p (runAfter c rest))) c rest = true := by
  simp only [emphOk2] at h
  have : ((c == '*' || c == '_') && p != c) = true := by
    rcases hd with rfl | rfl <;> simp [hp]
  rw [if_pos this] at h
  simp only [Bool.and_eq_true, Bool.not_eq_eq_eq_not, Bool.not_true, Bool.and_eq_false_iff] at h
  refine ⟨?_, h.2⟩
  intro hc
  rcases h.1 with h1 | h1
  · exact h1
  · rw [hc] at h1; cases h1

/-- the loop invariant; `so`, `su`, `seen` are the scanner's flags at the current position -/
structure Inv2 (strict : Bool) (s pre suf : Str) (so su seen : Bool) (st : FState) : Prop where
  ms : st.ms = []
  codes : st.codes = []
  code : st.code = none
  esc : st.escaped = false
  ds : DsOk so su st.ds
  br : brOkG strict seen suf = true ∧ (seen = false → ∀ d ∈ st.ds, isBr d = false)
  img : st.inImage = true → ∃ ch, pre.getLast? = some ch ∧ ch ≠ '*' ∧ ch ≠ '_'
  em : emphOk2 so su (pre.getLast?.getD ' ') suf = true
  runNone : st.inRun = none → pre.getLast?.getD ' ' ≠ '*' ∧ pre.getLast?.getD ' ' ≠ '_'
  runSome : ∀ ch, st.inRun = some ch → (ch = '*' ∨ ch = '_') ∧ pre.getLast? = some ch ∧ st.start < pre.length ∧
      s[st.start]? = some ch ∧
      (isCloser st.start (pre.length + countLeading ch suf) s = true →
        ∀ d ∈ st.ds, (d.emph && d.opens) = true → d.type.head? ≠ some ch) ∧
      (isOpener st.start (pre.length + countLeading ch suf) s = true → seenOf so su ch = true)

theorem brG_step (strict seen : Bool) (c : Char) (rest : Str) (h : brOkG strict seen (c :: rest) = true) :
    brOkG strict (seen || c == '[') rest = true := by
  simp only [brOkG, Bool.and_eq_true] at h; exact h.2

theorem brG_step_ne (strict seen : Bool) (c : Char) (rest : Str) (hc : c ≠ '[') (h : brOkG strict seen (c :: rest) = true) :
    brOkG strict seen rest = true := by
  have := brG_step strict seen c rest h
  have e : (c == '[') = false := by simpa using hc
  simpa [e] using this

theorem brG_close (strict seen : Bool) (rest : Str) (h : brOkG strict seen (']' :: rest) = true) :
    seen = false ∨ (strict = false ∧ rest.head? ≠ some '(' ∧ rest.head? ≠ some '[') := by
  simp only [brOkG, Bool.and_eq_true, Bool.or_eq_true, bne_self_eq_false, Bool.false_eq_true, false_or,
    Bool.not_eq_eq_eq_not, Bool.not_true, bne_iff_ne, ne_eq] at h
  rcases h.1 with h1 | h1
  · exact Or.inl h1
  · exact Or.inr ⟨h1.1.1, h1.1.2, h1.2⟩

theorem matchLinkImage_none (s : Str) (i : Nat) (d : Delim) (h1 : follows s i '(' = false) (h2 : follows s i '[' = false) :
    matchLinkImage s i d [] = none := by
  unfold matchLinkImage
  simp [h1, h2, getLinkLabel, Footnotes.lookup]

/-- `find_link_image` at a `]` that cannot complete a link: the delimiters shrink, nothing is matched -/
theorem findLinkImage_fail (s : Str) (i : Nat) (ds : List Delim) (fn : Footnotes.Table)
    (h : (∀ d ∈ ds, isBr d = false) ∨ (fn = [] ∧ follows s i '(' = false ∧ follows s i '[' = false)) :
    ∃ ds', findLinkImage s i ds [] fn = .ok (i, ds', []) ∧ ds'.Sublist ds := by
  rcases h with h | ⟨rfl, h1, h2⟩
  · exact ⟨ds, findLinkImage_none s i ds [] fn h, List.Sublist.refl _⟩
  · unfold findLinkImage
    cases hl : lastBracket ds 0 none with
    | none => exact ⟨ds, rfl, List.Sublist.refl _⟩
    | some k =>
      have hk : k < ds.length := by
        rcases lastBracket_spec ds 0 none k hl with h | h
        · cases h
        · omega
      simp only [List.getElem?_eq_getElem hk, matchLinkImage_none s i _ h1 h2]
      refine ⟨ds.eraseIdx k, ?_, List.eraseIdx_sublist _ _⟩
      split <;> rfl


theorem follows_at (pre : Str) (c : Char) (rest : Str) (x : Char) (h : rest.head? ≠ some x) :
    follows (pre ++ c :: rest) pre.length x = false := by
  unfold follows
  have := getElem?_after pre c rest 0
  simp only [Nat.add_zero, List.drop_zero] at this
  rw [this]
  simpa using h

/-- the `]` step: the state after `find_link_image` fails -/
theorem close_bracket (strict : Bool) (s : Str) (fn : Footnotes.Table) (pre rest : Str) (seen : Bool) (ds : List Delim)
    (hs : s = pre ++ ']' :: rest) (hfn : strict = false → fn = [])
    (hbr : brOkG strict seen (']' :: rest) = true) (hno : seen = false → ∀ d ∈ ds, isBr d = false) :
    ∃ ds', findLinkImage s pre.length ds [] fn = .ok (pre.length, ds', []) ∧ ds'.Sublist ds := by
  apply findLinkImage_fail
  rcases brG_close strict seen rest hbr with h | ⟨h1, h2, h3⟩
  · exact Or.inl (hno h)
  · right
    rw [hs]
    exact ⟨hfn h1, follows_at pre ']' rest '(' h2, follows_at pre ']' rest '[' h3⟩

theorem coreLoop_step2 (strict : Bool) (s : Str) (fn : Footnotes.Table) (pre : Str) (c : Char) (rest : Str) (st : FState)
    (so su seen : Bool) (hs : s = pre ++ c :: rest) (hc : c ≠ '\\') (hbt : '`' ∉ s) (hfn : strict = false → fn = [])
    (inv : Inv2 strict s pre (c :: rest) so su seen st) (fuel : Nat) :
    ∃ so' su' seen' st', coreLoop s fn (fuel + 1) pre.length st = coreLoop s fn fuel (pre.length + 1) st' ∧
      Inv2 strict s (pre ++ [c]) rest so' su' seen' st' := by
  obtain ⟨ds, ms, codes, escaped, inRun, inImage, start, code⟩ := st
  obtain ⟨h1, h2, h3, h4, hds, hbr, himg, hem, hrn, hrs⟩ := inv
  simp only at h1 h2 h3 h4 hds hbr himg hrn hrs
  subst h1 h2 h3 h4
  obtain ⟨hbr1, hbr2⟩ := hbr
  have hi : s[pre.length]? = some c := by rw [hs]; exact getElem?_at pre c rest
  have hlen : (pre ++ [c]).length = pre.length + 1 := by simp
  have hlast := getLast_snoc pre c
  cases inRun with
  | none =>
    have hrn := hrn rfl
    by_cases hd : c = '*' ∨ c = '_'
    · have hb1 : c ≠ '[' := by rcases hd with rfl | rfl <;> decide
      have hb2 : c ≠ '!' := by rcases hd with rfl | rfl <;> decide
      have hb3 : c ≠ ']' := by rcases hd with rfl | rfl <;> decide
      have hp : (pre.getLast?.getD ' ') ≠ c := by rcases hd with rfl | rfl; exact hrn.1; exact hrn.2
      obtain ⟨hcl, hem'⟩ := em2_head _ _ _ _ _ hem hd hp
      obtain ⟨hf1, hf2⟩ := flags_step so su c (canOpen c (pre.getLast?.getD ' ') (runAfter c rest)) hd
      refine ⟨so || (c == '*' && canOpen c (pre.getLast?.getD ' ') (runAfter c rest)), su || (c == '_' && canOpen c (pre.getLast?.getD ' ') (runAfter c rest)), seen, { ds := ds, inRun := some c, inImage := false, start := pre.length }, ?_, ?_⟩
      · simp only [coreLoop, hi, hc, hd, hb1, hb2, hb3, Option.isSome_none, Option.isNone_none, Bool.false_and,
          Bool.false_eq_true, if_false, decide_false, Bool.not_false, Bool.and_true, Bool.true_and, if_true,
          Bool.or_eq_true, decide_eq_true_eq]
        cases inImage <;> simp
      · refine ⟨rfl, rfl, rfl, rfl, hds.mono hf1, ⟨brG_step_ne _ _ c rest hb1 hbr1, hbr2⟩, by simp,
          by simpa [hlast] using hem', by simp, ?_⟩
        intro ch hch
        simp only [Option.some.injEq] at hch
        subst hch
        refine ⟨hd, hlast, by show pre.length < (pre ++ [c]).length; omega, hi, ?_, ?_⟩
        · show isCloser pre.length ((pre ++ [c]).length + countLeading c rest) s = true → _
          have e := isCloser_at pre c rest (countLeading c rest)
          rw [← hs] at e
          rw [hlen, e]
          intro hcc d hdm ho hh
          have := hds.seen d hdm ho c hh
          rw [hcl hcc] at this
          cases this
        · show isOpener pre.length ((pre ++ [c]).length + countLeading c rest) s = true → _
          have e := isOpener_at pre c rest (countLeading c rest)
          rw [← hs] at e
          rw [hlen, e]
          exact hf2
    · have hd1 : c ≠ '*' := fun e => hd (Or.inl e)
      have hd2 : c ≠ '_' := fun e => hd (Or.inr e)
      have hem' := em2_skip _ _ _ _ _ hem (fun h => hd h.1)
      have hrn' : (st' : FState) → st'.inRun = none → ((pre ++ [c]).getLast?.getD ' ' ≠ '*' ∧ (pre ++ [c]).getLast?.getD ' ' ≠ '_') := by
        intro _ _; rw [hlast]; exact ⟨hd1, hd2⟩
      by_cases hb1 : c = '['
      · subst hb1
        have hbr' := brG_step _ _ _ _ hbr1
        simp only [beq_self_eq_true, Bool.or_true] at hbr'
        cases inImage with
        | false =>
          refine ⟨so, su, true, { ds := ds ++ [mkDelim pre.length (pre.length + 1) s], inRun := none, inImage := false, start := start }, ?_, ?_⟩
          · simp [coreLoop, hi, pushDelim]
          · exact ⟨rfl, rfl, rfl, rfl,
              hds.push_plain _ (mkDelim_type_ne s _ _ '[' (by omega) hi) (not_emph_of_head s _ _ (by omega) '[' hi (by decide) (by decide)),
              ⟨hbr', by simp⟩, by simp, by simpa [hlast] using hem', hrn' _, by simp⟩
        | true =>
          obtain ⟨b, hb, hbn1, hbn2⟩ := himg rfl
          have hpos : 0 < pre.length := by
            cases pre with
            | nil => simp at hb
            | cons _ _ => simp
          have hib : s[pre.length - 1]? = some b := by
            rw [hs, List.getElem?_append_left (by omega), ← List.getLast?_eq_getElem?, hb]
          refine ⟨so, su, true, { ds := ds ++ [mkDelim (pre.length - 1) (pre.length + 1) s], inRun := none, inImage := false, start := start }, ?_, ?_⟩
          · simp [coreLoop, hi, pushDelim]
          · exact ⟨rfl, rfl, rfl, rfl,
              hds.push_plain _ (mkDelim_type_ne s _ _ b (by omega) hib) (not_emph_of_head s _ _ (by omega) b hib hbn1 hbn2),
              ⟨hbr', by simp⟩, by simp, by simpa [hlast] using hem', hrn' _, by simp⟩
      · have hbr' := brG_step_ne _ _ c rest hb1 hbr1
        by_cases hb2 : c = '!'
        · subst hb2
          refine ⟨so, su, seen, { ds := ds, inRun := none, inImage := true, start := start }, ?_, ?_⟩
          · simp [coreLoop, hi]
          · refine ⟨rfl, rfl, rfl, rfl, hds, ⟨hbr', hbr2⟩, ?_, by simpa [hlast] using hem', hrn' _, by simp⟩
            intro _; exact ⟨'!', hlast, by decide, by decide⟩
        · by_cases hb3 : c = ']'
          · subst hb3
            obtain ⟨ds', e, hsub⟩ := close_bracket strict s fn pre rest seen ds hs hfn hbr1 hbr2
            refine ⟨so, su, seen, { ds := ds', inRun := none, inImage := inImage, start := start }, ?_, ?_⟩
            · simp [coreLoop, hi, e, codeSearch_none s pre.length hbt]
            · refine ⟨rfl, rfl, rfl, rfl, hds.sublist hsub, ⟨hbr', fun h d hd' => hbr2 h d (hsub.subset hd')⟩, ?_,
                by simpa [hlast] using hem', hrn' _, by simp⟩
              intro _; exact ⟨']', hlast, by decide, by decide⟩
          · refine ⟨so, su, seen, { ds := ds, inRun := none, inImage := false, start := start }, ?_, ?_⟩
            · simp only [coreLoop, hi, hc, hd1, hd2, hb1, hb2, hb3, Option.isSome_none, Option.isNone_none, Bool.false_and,
                Bool.false_eq_true, if_false, decide_false, Bool.not_false, Bool.and_true, if_true,
                Bool.or_self, Bool.and_false]
              cases inImage <;> simp
            · exact ⟨rfl, rfl, rfl, rfl, hds, ⟨hbr', hbr2⟩, by simp, by simpa [hlast] using hem', hrn' _, by simp⟩
  | some ch =>
    obtain ⟨hdel, hlastp, hst, hsa, hcl, hop⟩ := hrs ch rfl
    have hch1 : ch ≠ '[' := by rcases hdel with rfl | rfl <;> decide
    have hch2 : ch ≠ '!' := by rcases hdel with rfl | rfl <;> decide
    have hch3 : ch ≠ ']' := by rcases hdel with rfl | rfl <;> decide
    have hlastD : pre.getLast?.getD ' ' = ch := by rw [hlastp]; rfl
    have himf : inImage = false := by
      cases inImage with
      | false => rfl
      | true =>
        obtain ⟨b, hb, hbn1, hbn2⟩ := himg rfl
        rw [hlastp] at hb
        simp only [Option.some.injEq] at hb
        subst hb
        rcases hdel with h | h
        · exact absurd h hbn1
        · exact absurd h hbn2
    subst himf
    by_cases hcc : c = ch
    · subst hcc
      have hem' := em2_skip _ _ _ _ _ hem (fun h => h.2 hlastD)
      refine ⟨so, su, seen, { ds := ds, inRun := some c, inImage := false, start := start }, ?_, ?_⟩
      · simp [coreLoop, hi, hc, hch1, hch2, hch3]
      · refine ⟨rfl, rfl, rfl, rfl, hds, ⟨brG_step_ne _ _ c rest hch1 hbr1, hbr2⟩, by simp, by simpa [hlast] using hem', by simp, ?_⟩
        intro ch' hch'
        simp only [Option.some.injEq] at hch'
        subst hch'
        have e : (pre ++ [c]).length + countLeading c rest = pre.length + countLeading c (c :: rest) := by
          simp [countLeading]; omega
        refine ⟨hdel, hlast, by show start < (pre ++ [c]).length; omega, hsa, ?_, ?_⟩
        · show isCloser start ((pre ++ [c]).length + countLeading c rest) s = true → _
          rw [e]; exact hcl
        · show isOpener start ((pre ++ [c]).length + countLeading c rest) s = true → _
          rw [e]; exact hop
    · rw [countLeading_ne _ _ _ hcc, Nat.add_zero] at hcl hop
      obtain ⟨hds', hbrD⟩ := close_run s ds so su start pre.length ch hds hdel hst hsa hcl hop
      have hbr2' : seen = false → ∀ d ∈ ds ++ [mkDelim start pre.length s], isBr d = false := by
        intro h d hd'
        rcases List.mem_append.mp hd' with h' | h'
        · exact hbr2 h d h'
        · simp only [List.mem_singleton] at h'; subst h'; exact hbrD
      have hne : (some c != some ch) = true := by simp [hcc]
      by_cases hd : c = '*' ∨ c = '_'
      · have hb1 : c ≠ '[' := by rcases hd with rfl | rfl <;> decide
        have hb2 : c ≠ '!' := by rcases hd with rfl | rfl <;> decide
        have hb3 : c ≠ ']' := by rcases hd with rfl | rfl <;> decide
        have hp : (pre.getLast?.getD ' ') ≠ c := by rw [hlastD]; exact fun e => hcc e.symm
        obtain ⟨hcl2, hem'⟩ := em2_head _ _ _ _ _ hem hd hp
        obtain ⟨hf1, hf2⟩ := flags_step so su c (canOpen c (pre.getLast?.getD ' ') (runAfter c rest)) hd
        refine ⟨so || (c == '*' && canOpen c (pre.getLast?.getD ' ') (runAfter c rest)), su || (c == '_' && canOpen c (pre.getLast?.getD ' ') (runAfter c rest)), seen, { ds := ds ++ [mkDelim start pre.length s], inRun := some c, inImage := false, start := pre.length }, ?_, ?_⟩
        · simp [coreLoop, hi, hc, hd, hb1, hb2, hb3, hne, pushDelim]
        · refine ⟨rfl, rfl, rfl, rfl, hds'.mono hf1, ⟨brG_step_ne _ _ c rest hb1 hbr1, hbr2'⟩, by simp,
            by simpa [hlast] using hem', by simp, ?_⟩
          intro ch' hch'
          simp only [Option.some.injEq] at hch'
          subst hch'
          refine ⟨hd, hlast, by show pre.length < (pre ++ [c]).length; omega, hi, ?_, ?_⟩
          · show isCloser pre.length ((pre ++ [c]).length + countLeading c rest) s = true → _
            have e := isCloser_at pre c rest (countLeading c rest)
            rw [← hs] at e
            rw [hlen, e]
            intro hcc2 d hdm ho hh
            have := hds'.seen d hdm ho c hh
            rw [hcl2 hcc2] at this
            cases this
          · show isOpener pre.length ((pre ++ [c]).length + countLeading c rest) s = true → _
            have e := isOpener_at pre c rest (countLeading c rest)
            rw [← hs] at e
            rw [hlen, e]
            exact hf2
      · have hd1 : c ≠ '*' := fun e => hd (Or.inl e)
        have hd2 : c ≠ '_' := fun e => hd (Or.inr e)
        have hem' := em2_skip _ _ _ _ _ hem (fun h => hd h.1)
        have hrn' : (st' : FState) → st'.inRun = none → ((pre ++ [c]).getLast?.getD ' ' ≠ '*' ∧ (pre ++ [c]).getLast?.getD ' ' ≠ '_') := by
          intro _ _; rw [hlast]; exact ⟨hd1, hd2⟩
        by_cases hb1 : c = '['
        · subst hb1
          have hbr' := brG_step _ _ _ _ hbr1
          simp only [beq_self_eq_true, Bool.or_true] at hbr'
          refine ⟨so, su, true, { ds := ds ++ [mkDelim start pre.length s] ++ [mkDelim pre.length (pre.length + 1) s], inRun := none, inImage := false, start := start }, ?_, ?_⟩
          · simp [coreLoop, hi, hne, pushDelim]
          · exact ⟨rfl, rfl, rfl, rfl,
              hds'.push_plain _ (mkDelim_type_ne s _ _ '[' (by omega) hi) (not_emph_of_head s _ _ (by omega) '[' hi (by decide) (by decide)),
              ⟨hbr', by simp⟩, by simp, by simpa [hlast] using hem', hrn' _, by simp⟩
        · have hbr' := brG_step_ne _ _ c rest hb1 hbr1
          by_cases hb2 : c = '!'
          · subst hb2
            refine ⟨so, su, seen, { ds := ds ++ [mkDelim start pre.length s], inRun := none, inImage := true, start := start }, ?_, ?_⟩
            · simp [coreLoop, hi, hne, pushDelim]
            · refine ⟨rfl, rfl, rfl, rfl, hds', ⟨hbr', hbr2'⟩, ?_, by simpa [hlast] using hem', hrn' _, by simp⟩
              intro _; exact ⟨'!', hlast, by decide, by decide⟩
          · by_cases hb3 : c = ']'
            · subst hb3
              obtain ⟨ds', e, hsub⟩ := close_bracket strict s fn pre rest seen _ hs hfn hbr1 hbr2'
              refine ⟨so, su, seen, { ds := ds', inRun := none, inImage := false, start := start }, ?_, ?_⟩
              · simp [coreLoop, hi, hne, pushDelim, e, codeSearch_none s pre.length hbt]
              · exact ⟨rfl, rfl, rfl, rfl, hds'.sublist hsub, ⟨hbr', fun h d hd' => hbr2' h d (hsub.subset hd')⟩, by simp,
                  by simpa [hlast] using hem', hrn' _, by simp⟩
            · refine ⟨so, su, seen, { ds := ds ++ [mkDelim start pre.length s], inRun := none, inImage := false, start := start }, ?_, ?_⟩
              · simp [coreLoop, hi, hc, hd1, hd2, hb1, hb2, hb3, hne, pushDelim]
              · exact ⟨rfl, rfl, rfl, rfl, hds', ⟨hbr', hbr2'⟩, by simp, by simpa [hlast] using hem', hrn' _, by simp⟩


theorem coreLoop_inert2 (strict : Bool) (s : Str) (fn : Footnotes.Table) (hok : ∀ c ∈ s, c ≠ '\\') (hbt : '`' ∉ s)
    (hfn : strict = false → fn = []) :
    ∀ (suf pre : Str) (st : FState) (so su seen : Bool) (fuel : Nat), s = pre ++ suf → Inv2 strict s pre suf so su seen st →
      suf.length < fuel →
      ∃ so' su' seen' st', coreLoop s fn fuel pre.length st = .ok (s.length, st') ∧ Inv2 strict s s [] so' su' seen' st'
  | [], pre, st, so, su, seen, fuel, hs, inv, hf => by
    obtain ⟨f, rfl⟩ : ∃ f, fuel = f + 1 := ⟨fuel - 1, by simp at hf; omega⟩
    simp only [List.append_nil] at hs
    subst hs
    refine ⟨so, su, seen, st, ?_, inv⟩
    simp [coreLoop]
  | c :: rest, pre, st, so, su, seen, fuel, hs, inv, hf => by
    obtain ⟨f, rfl⟩ : ∃ f, fuel = f + 1 := ⟨fuel - 1, by simp at hf; omega⟩
    have hc : c ≠ '\\' := hok c (by rw [hs]; simp)
    obtain ⟨so1, su1, seen1, st1, e1, inv1⟩ := coreLoop_step2 strict s fn pre c rest st so su seen hs hc hbt hfn inv f
    have hs' : s = (pre ++ [c]) ++ rest := by rw [hs]; simp
    obtain ⟨so2, su2, seen2, st2, e2, inv2⟩ :=
      coreLoop_inert2 strict s fn hok hbt hfn rest (pre ++ [c]) st1 so1 su1 seen1 f hs' inv1 (by simp at hf; omega)
    refine ⟨so2, su2, seen2, st2, ?_, inv2⟩
    rw [e1]
    have : (pre ++ [c]).length = pre.length + 1 := by simp
    rw [← this]; exact e2

/-- **`find_core_tokens` returns no match** when no opener run is followed by a closer run of the same
    character and no `]` can complete a link -/
theorem findCoreTokens_inert2 (strict : Bool) (s : Str) (fn : Footnotes.Table) (hok : ∀ c ∈ s, c ≠ '\\' ∧ c ≠ '`')
    (hfn : strict = false → fn = []) (hbr : brOkG strict false s = true) (hem : emphOk2 false false ' ' s = true) :
    findCoreTokens s fn = .ok ([], []) := by
  have hbt : '`' ∉ s := fun h => (hok _ h).2 rfl
  have inv0 : Inv2 strict s [] s false false false { code := codeSearch s 0 } := by
    refine ⟨rfl, rfl, codeSearch_none s 0 hbt, rfl, DsOk.nil _ _, ⟨hbr, by simp⟩, by simp, hem, ?_, by simp⟩
    intro _; exact ⟨by decide, by decide⟩
  obtain ⟨so, su, seen, st, e, inv⟩ :=
    coreLoop_inert2 strict s fn (fun c h => (hok c h).1) hbt hfn s [] _ false false false (s.length + 2) rfl inv0 (by omega)
  unfold findCoreTokens
  simp only [List.length_nil] at e
  rw [e]
  simp only [inv.esc, Bool.not_false, if_true]
  have hds : DsOk so su (if st.inRun.isSome then pushDelim st (mkDelim st.start s.length s) else st).ds := by
    cases hr : st.inRun with
    | none => simpa using inv.ds
    | some ch =>
      obtain ⟨hdel, _, hst, hsa, hcl, hop⟩ := inv.runSome ch hr
      simp only [countLeading, Nat.add_zero] at hcl hop
      simp only [Option.isSome_some, if_true, pushDelim]
      exact (close_run s st.ds so su st.start s.length ch inv.ds hdel hst hsa hcl hop).1
  have hms : (if st.inRun.isSome then pushDelim st (mkDelim st.start s.length s) else st).ms = [] := by
    split <;> simp [pushDelim, inv.ms]
  have hcs : (if st.inRun.isSome then pushDelim st (mkDelim st.start s.length s) else st).codes = [] := by
    split <;> simp [pushDelim, inv.codes]
  rw [processEmphasis_nopair s _ _ hds.head hds.pair]
  simp [hms, hcs]


/-! ## all classes; several lines (generic in what makes `html.unescape` the identity) -/

theorem findAll_core_gen (s : Str) (types : List STok) (fn : Footnotes.Table)
    (hcore : findCoreTokens s fn = .ok ([], [])) : findAll s types fn = .ok (types.flatMap (findOne s [] [])) := by
  unfold findAll
  split
  · simp only [hcore]
  · rfl

theorem findAll_gen (s : Str) (types : List STok) (fn : Footnotes.Table) (ht : ∀ t ∈ types, inertClass t = true)
    (hs : ScanOk2 s) (hcore : findCoreTokens s fn = .ok ([], [])) (hnl : '\n' ∉ s) : findAll s types fn = .ok [] := by
  rw [findAll_core_gen s types fn hcore]
  congr 1
  rw [List.flatMap_eq_nil_iff]
  intro t htm
  by_cases hlb : t = .lineBreak
  · subst hlb; exact findOne_lineBreak s hnl
  · exact findOne_scan2 s hs t (ht t htm) hlb

open Mistletoe.Document in
theorem builds_lines_gen (s : Str) (found : List Found) (cls : Nat) : ∀ (ts : List Str) (pre : Str) (k : Nat),
    s = pre ++ joinNl ts → ts ≠ [] → (∀ t ∈ ts, t ≠ [] ∧ Unescape.unescape true t = t) →
    (∀ i, k ≤ i → i < k + (nlMatches pre.length ts).length →
      ∃ m, found[i]? = some (ofRe .lineBreak true m) ∧ m.gs = m.ge) →
    builds s found (fwdE pre.length (((nlMatches pre.length ts).zipIdx k).map (lbCand cls)) (pre.length + (joinNl ts).length)) =
      proseInlines ts
  | [], _, _, _, hne, _, _ => absurd rfl hne
  | [t], pre, k, hs, _, ht, _ => by
    obtain ⟨htne, hta⟩ := ht t (by simp)
    have hl : pre.length ≠ pre.length + t.length := by
      have : t.length ≠ 0 := fun e => htne (List.eq_nil_of_length_eq_zero e)
      omega
    have hsl : slice s pre.length (pre.length + t.length) = t := by
      have := slice_mid pre t []
      simpa [hs, joinNl] using this
    simp [nlMatches, fwdE, joinNl, htne, builds, build, hsl, hta, proseInlines]
  | t :: t' :: rest, pre, k, hs, _, ht, hf => by
    obtain ⟨htne, hta⟩ := ht t (by simp)
    have hpos : pre.length + t.length > pre.length := by
      have : t.length ≠ 0 := fun e => htne (List.eq_nil_of_length_eq_zero e)
      omega
    rw [joinNl_cons2] at hs
    have hsl : slice s pre.length (pre.length + t.length) = t := by
      rw [hs]; exact slice_mid pre t _
    have hs' : s = (pre ++ (t ++ ['\n'])) ++ joinNl (t' :: rest) := by rw [hs]; simp
    have hlen : (pre ++ (t ++ ['\n'])).length = pre.length + t.length + 1 := by simp; omega
    have ih := builds_lines_gen s found cls (t' :: rest) (pre ++ (t ++ ['\n'])) (k + 1) hs' (by simp)
      (fun x hx => ht x (List.mem_cons_of_mem _ hx))
      (by
        intro i hi1 hi2
        refine hf i (by omega) ?_
        rw [nlMatches_cons2]
        rw [hlen] at hi2
        simp only [List.length_cons]; omega)
    rw [hlen] at ih
    obtain ⟨m, hm1, hm2⟩ := hf k (Nat.le_refl _) (by rw [nlMatches_cons2]; simp)
    rw [nlMatches_cons2, List.zipIdx_cons, List.map_cons, joinNl_cons2, proseInlines_cons2]
    have e : pre.length + (t ++ '\n' :: joinNl (t' :: rest)).length = pre.length + t.length + 1 + (joinNl (t' :: rest)).length := by
      simp; omega
    rw [e]
    have hb := build_lb s found (lbCand cls ({ start := pre.length + t.length, stop := pre.length + t.length + 1, gs := pre.length + t.length, ge := pre.length + t.length }, k)) m hm1 hm2
    have hraw : build s found (.raw pre.length (pre.length + t.length)) = .rawText t := by
      simp only [build, hsl, hta]
    have hst : (lbCand cls ({ start := pre.length + t.length, stop := pre.length + t.length + 1, gs := pre.length + t.length, ge := pre.length + t.length }, k)).stop = pre.length + t.length + 1 := rfl
    have hstart : (lbCand cls ({ start := pre.length + t.length, stop := pre.length + t.length + 1, gs := pre.length + t.length, ge := pre.length + t.length }, k)).start = pre.length + t.length := rfl
    simp only [fwdE, hst, hstart, hpos, if_true, builds_append, builds, hb, hraw, ih]
    rfl

open Mistletoe.Document in
/-- lines joined by "\n" in which no class but `LineBreak` finds anything: each line becomes one
    `RawText` holding exactly the line, with a soft `LineBreak` between consecutive lines -/
theorem tokenizeInner_lines_gen (types : List STok) (fn : Footnotes.Table) (ts : List Str)
    (ht : ∀ t ∈ types, inertClass t = true) (hc : types.count .lineBreak = 1) (hne : ts ≠ [])
    (hl : ∀ t ∈ ts, LineOk t) (hs : ScanOk2 (joinNl ts)) (hcore : findCoreTokens (joinNl ts) fn = .ok ([], []))
    (hun : ∀ t ∈ ts, Unescape.unescape true t = t) :
    tokenizeInner types fn (joinNl ts) = .ok (proseInlines ts) := by
  have hfm : types.flatMap (findOne (joinNl ts) [] []) = (nlMatches 0 ts).map (ofRe .lineBreak true) := by
    rw [flatMap_one _ .lineBreak types (fun t htm hne => findOne_scan2 _ hs t (ht t htm) hne) hc]
    simp only [findOne, findIter_joinNl ts hl]
  unfold tokenizeInner
  rw [findAll_core_gen _ _ _ hcore, hfm]
  simp only
  have hcs : ((nlMatches 0 ts).map (ofRe .lineBreak true)).zipIdx.map (fun (f, i) =>
      ({ start := f.start, stop := f.stop, pstart := f.pstart, pend := f.pend, prec := prec f.cls,
         inner := parseInner f.cls, cls := clsIndex types f.cls, ord := i } : Span.Cand)) =
      ((nlMatches 0 ts).zipIdx 0).map (lbCand (clsIndex types .lineBreak)) := by
    rw [List.zipIdx_map, List.map_map]
    apply List.map_congr_left
    intro ⟨m, i⟩ _
    rfl
  rw [hcs, tokenize_sep _ _ (sep_lines _ ts 0 0 0 (Nat.le_refl _))]
  have := builds_lines_gen (joinNl ts) ((nlMatches 0 ts).map (ofRe .lineBreak true)) (clsIndex types .lineBreak) ts [] 0
    rfl hne (fun t htm => ⟨(hl t htm).ne, hun t htm⟩)
    (by
      intro i _ hi
      simp only [List.length_nil, Nat.zero_add] at hi
      have hm : (nlMatches 0 ts)[i]? = some ((nlMatches 0 ts)[i]) := List.getElem?_eq_getElem hi
      refine ⟨(nlMatches 0 ts)[i], by rw [List.getElem?_map, hm]; rfl, ?_⟩
      exact nlMatches_empty_group ts 0 _ (List.getElem_mem hi))
  simp only [List.length_nil, Nat.zero_add] at this
  rw [this]


/-! ## the widened predicates: no candidate, one RawText per line -/

theorem inertBodyG_parts (strict : Bool) (s : Str) (h : inertBodyG strict s = true) :
    ScanOk2 s ∧ ampOk2 s = true ∧ brOkG strict false s = true ∧ emphOk2 false false ' ' s = true := by
  simp only [inertBodyG, Bool.and_eq_true, List.all_eq_true] at h
  obtain ⟨⟨⟨⟨⟨h1, h2⟩, h3⟩, h4⟩, h5⟩, h6⟩ := h
  refine ⟨⟨?_, h2, h4⟩, h3, h5, h6⟩
  intro c hc
  have := h1 c hc
  simpa [okChar] using this

theorem findCoreTokens_inertG (strict : Bool) (s : Str) (fn : Footnotes.Table) (hfn : strict = false → fn = [])
    (h : inertBodyG strict s = true) : findCoreTokens s fn = .ok ([], []) := by
  obtain ⟨hs, _, hb, he⟩ := inertBodyG_parts strict s h
  exact findCoreTokens_inert2 strict s fn hs.ok hfn hb he

/-- one line: no class finds anything, `html.unescape` is the identity, one `RawText` -/
theorem inline_inertG (strict : Bool) (types : List STok) (fn : Footnotes.Table) (s : Str)
    (ht : ∀ t ∈ types, inertClass t = true) (hfn : strict = false → fn = [])
    (h : inertBodyG strict s = true) (hnl : '\n' ∉ s) :
    findAll s types fn = .ok [] ∧ Unescape.unescape true s = s ∧
      (s ≠ [] → tokenizeInner types fn s = .ok [.rawText s]) := by
  have hp := inertBodyG_parts strict s h
  have h1 := findAll_gen s types fn ht hp.1 (findCoreTokens_inertG strict s fn hfn h) hnl
  have h2 := unescape_inert2 s hp.2.1
  refine ⟨h1, h2, fun hne => ?_⟩
  rw [tokenizeInner_no_candidates types fn s h1 hne, h2]

open Mistletoe.Document in
/-- several lines -/
theorem tokenizeInner_linesG (strict : Bool) (types : List STok) (fn : Footnotes.Table) (ts : List Str)
    (ht : ∀ t ∈ types, inertClass t = true) (hc : types.count .lineBreak = 1) (hne : ts ≠ [])
    (hl : ∀ t ∈ ts, LineOk t) (hfn : strict = false → fn = []) (hb : inertBodyG strict (joinNl ts) = true) :
    tokenizeInner types fn (joinNl ts) = .ok (proseInlines ts) := by
  have hp := inertBodyG_parts strict _ hb
  exact tokenizeInner_lines_gen types fn ts ht hc hne hl hp.1 (findCoreTokens_inertG strict _ fn hfn hb)
    (fun t htm => unescape_inert2 t (ampOk2_lines ts hp.2.1 t htm))

open Mistletoe.Document in
theorem lineOk_of_proseG (strict : Bool) (ls : List Str) (h : ∀ l ∈ ls, proseLine l = true)
    (hb : inertBodyG strict (joinNl (ls.map strip)) = true) : ∀ t ∈ ls.map strip, LineOk t := by
  intro t ht
  obtain ⟨l, hl, rfl⟩ := List.mem_map.mp ht
  have f := proseLine_facts l (h l hl)
  refine ⟨f.ne, f.nl, ?_, ?_⟩
  · intro hm
    have := ((inertBodyG_parts strict _ hb).1.ok '\\' (mem_joinNl _ _ ht _ hm)).1
    exact this rfl
  · intro e
    have := f.last ' ' e
    revert this; decide

open Mistletoe.Document in
/-- the `Paragraph` constructor on lines whose joined text satisfies the widened predicate -/
theorem mkBlocks_proseG (strict : Bool) (cfg : Document.Cfg) (fn : Footnotes.Table) (ls : List Str) (ln o : Nat)
    (ht : ∀ t ∈ cfg.span, inertClass t = true) (hc : cfg.span.count .lineBreak = 1) (hne : ls ≠ [])
    (h : ∀ l ∈ ls, proseLine l = true) (hfn : strict = false → fn = [])
    (hb : inertBodyG strict (joinNl (ls.map strip)) = true) :
    mkBlocks cfg fn [.paragraph ls ln o] = .ok [.paragraph (proseInlines (ls.map strip)) ln] := by
  have hin : inl cfg fn (strip (ls.map lstrip).flatten) = .ok (proseInlines (ls.map strip)) := by
    unfold inl
    rw [paragraph_content ls hne h]
    exact tokenizeInner_linesG strict cfg.span fn _ ht hc (by simpa using hne) (lineOk_of_proseG strict ls h hb) hfn hb
  simp only [mkBlocks, mkBlock, hin]

end Mistletoe.InertInline2

/-! ## C14 with the widened inline condition -/

namespace Mistletoe.Props.C14
open Mistletoe Mistletoe.Py Mistletoe.Scan Mistletoe.Block Mistletoe.Inline Mistletoe.InertInline Mistletoe.InertInline2
open Mistletoe.Html Mistletoe.Escape

/-- inert text on one line, widened -/
def inertText2 (s : Str) : Bool := inertBody2 s && !s.contains '\n'
/-- … and for an empty table of link definitions -/
def inertText3 (s : Str) : Bool := inertBody3 s && !s.contains '\n'

/-- **`inertBody2` is weaker than `inertBody`**, and `inertBody3` weaker still -/
theorem C14_inertBody2_weaker (s : Str) :
    (inertBody s = true → inertBody2 s = true) ∧ (inertBody2 s = true → inertBody3 s = true) :=
  ⟨inertBody_inertBody2 s, inertBody2_inertBody3 s⟩

/-- **No emphasis without an opener/closer pair.**  `process_emphasis` on a delimiter list in which
    no delimiter that can open is followed by one of the same character that can close records no
    match (whatever the runs' lengths and the `bottoms` bookkeeping do). -/
theorem C14_no_pair_no_emphasis (s : Str) (ds : List Core.Delim) (ms : List Core.CoreM)
    (hh : ∀ d ∈ ds, d.type ≠ []) (hp : ds.Pairwise NoMatch) : Core.processEmphasis s none ds ms = .ok ([], ms) :=
  processEmphasis_nopair s ds ms hh hp

/-- **`find_core_tokens` finds nothing under the widened condition**, for every table of definitions -/
theorem C14_core_inert2 (s : Str) (fn : Footnotes.Table) (h : inertBody2 s = true) :
    Core.findCoreTokens s fn = .ok ([], []) :=
  findCoreTokens_inertG true s fn (by simp) (inertBody2_inertBodyG true s h)

/-- … and under `inertBody3` for the empty table -/
theorem C14_core_inert3 (s : Str) (h : inertBody3 s = true) : Core.findCoreTokens s [] = .ok ([], []) :=
  findCoreTokens_inertG false s [] (fun _ => rfl) h

/-- **The analogue of `C14_inline_inert` for `inertBody2`**: for every list of covered classes and
    every definitions table, no class finds a match, `html.unescape` is the identity on the text, and
    `tokenize_inner` returns `[RawText(text)]`. -/
theorem C14_inline_inert2 (types : List STok) (fn : Footnotes.Table) (s : Str)
    (ht : ∀ t ∈ types, inertClass t = true) (h : inertText2 s = true) :
    findAll s types fn = .ok [] ∧ Unescape.unescape true s = s ∧
      (s ≠ [] → tokenizeInner types fn s = .ok [.rawText s]) := by
  simp only [inertText2, Bool.and_eq_true, Bool.not_eq_eq_eq_not, Bool.not_true, List.contains_eq_mem,
    decide_eq_false_iff_not] at h
  exact inline_inertG true types fn s ht (by simp) (inertBody2_inertBodyG true s h.1) h.2

/-- the same for `inertBody3` and the empty definitions table -/
theorem C14_inline_inert3 (types : List STok) (s : Str)
    (ht : ∀ t ∈ types, inertClass t = true) (h : inertText3 s = true) :
    findAll s types [] = .ok [] ∧ Unescape.unescape true s = s ∧
      (s ≠ [] → tokenizeInner types [] s = .ok [.rawText s]) := by
  simp only [inertText3, Bool.and_eq_true, Bool.not_eq_eq_eq_not, Bool.not_true, List.contains_eq_mem,
    decide_eq_false_iff_not] at h
  exact inline_inertG false types [] s ht (fun _ => rfl) h.1 h.2

/-- **Several lines** (the analogue of `C14_inline_lines`): only raw text and soft line breaks -/
theorem C14_inline_lines2 (types : List STok) (fn : Footnotes.Table) (ts : List Str)
    (ht : ∀ t ∈ types, inertClass t = true) (hc : types.count .lineBreak = 1) (hne : ts ≠ [])
    (hl : ∀ t ∈ ts, t ≠ [] ∧ '\n' ∉ t ∧ t.getLast? ≠ some ' ')
    (hb : inertBody2 (Document.joinNl ts) = true) :
    tokenizeInner types fn (Document.joinNl ts) = .ok (proseInlines ts) := by
  have hb' := inertBody2_inertBodyG true _ hb
  refine tokenizeInner_linesG true types fn ts ht hc hne ?_ (by simp) hb'
  intro t htm
  obtain ⟨h1, h2, h3⟩ := hl t htm
  refine ⟨h1, h2, ?_, h3⟩
  intro hm
  exact ((inertBodyG_parts true _ hb').1.ok '\\' (mem_joinNl ts t htm _ hm)).1 rfl

theorem C14_inline_lines3 (types : List STok) (ts : List Str)
    (ht : ∀ t ∈ types, inertClass t = true) (hc : types.count .lineBreak = 1) (hne : ts ≠ [])
    (hl : ∀ t ∈ ts, t ≠ [] ∧ '\n' ∉ t ∧ t.getLast? ≠ some ' ')
    (hb : inertBody3 (Document.joinNl ts) = true) :
    tokenizeInner types [] (Document.joinNl ts) = .ok (proseInlines ts) := by
  refine tokenizeInner_linesG false types [] ts ht hc hne ?_ (fun _ => rfl) hb
  intro t htm
  obtain ⟨h1, h2, h3⟩ := hl t htm
  refine ⟨h1, h2, ?_, h3⟩
  intro hm
  exact ((inertBodyG_parts false _ hb).1.ok '\\' (mem_joinNl ts t htm _ hm)).1 rfl

theorem C14_proseG (strict : Bool) (cfg : Document.Cfg) (hpar : .paragraph ∈ cfg.block.types)
    (ht : ∀ t ∈ cfg.span, inertClass t = true) (hc : cfg.span.count .lineBreak = 1)
    (ls : List Str) (hne : ls ≠ []) (hl : ∀ l ∈ ls, inertLine l = true ∧ proseLine l = true)
    (hi : inertBodyG strict (Document.joinNl (ls.map strip)) = true) (gas : Nat) :
    Document.parseLines cfg (gas + (cfg.block.types.length + 4)) ls =
        .ok { kids := [.paragraph (proseInlines (ls.map strip)) 1], footnotes := [] } ∧
    ∀ o : Opts, render o { kids := [.paragraph (proseInlines (ls.map strip)) 1], footnotes := [] } =
        "<p>".toList ++ escapeHtmlText o.dq o.sq (Document.joinNl (ls.map strip)) ++ "</p>\n".toList := by
  constructor
  · unfold Document.parseLines
    rw [C14_block_phase cfg.block hpar ls hne (fun s hs => (hl s hs).1) gas]
    simp only
    rw [mkBlocks_proseG strict cfg (Document.footnotesOf []) ls 1 1 ht hc hne (fun s hs => (hl s hs).2) (fun _ => rfl) hi]
    rfl
  · intro o
    exact render_prose o (ls.map strip) 1 []

/-- `C14_prose` with the widened inline condition -/
theorem C14_prose2 (cfg : Document.Cfg) (hpar : .paragraph ∈ cfg.block.types)
    (ht : ∀ t ∈ cfg.span, inertClass t = true) (hc : cfg.span.count .lineBreak = 1)
    (ls : List Str) (hne : ls ≠ []) (hl : ∀ l ∈ ls, inertLine l = true ∧ proseLine l = true)
    (hi : inertBody2 (Document.joinNl (ls.map strip)) = true) (gas : Nat) :
    Document.parseLines cfg (gas + (cfg.block.types.length + 4)) ls =
        .ok { kids := [.paragraph (proseInlines (ls.map strip)) 1], footnotes := [] } ∧
    ∀ o : Opts, render o { kids := [.paragraph (proseInlines (ls.map strip)) 1], footnotes := [] } =
        "<p>".toList ++ escapeHtmlText o.dq o.sq (Document.joinNl (ls.map strip)) ++ "</p>\n".toList :=
  C14_proseG true cfg hpar ht hc ls hne hl (inertBody2_inertBodyG true _ hi) gas

/-- **`C14_prose_text` with the widened inline condition `inertBody2`**: `Document(text)` for the text
    `l₁ ++ … ++ lₙ` of "\n"-terminated, block-inert prose lines whose stripped lines joined by "\n"
    satisfy `inertBody2` is one `Paragraph` holding the lines as `RawText`s separated by soft
    `LineBreak`s, and the HTML renderer gives `<p>`, the HTML-escaped text, `</p>` and a newline. -/
theorem C14_prose_text2 (cfg : Document.Cfg) (hpar : .paragraph ∈ cfg.block.types)
    (ht : ∀ t ∈ cfg.span, inertClass t = true) (hc : cfg.span.count .lineBreak = 1)
    (ls : List Str) (hne : ls ≠ []) (h1 : ∀ l ∈ ls, oneLine l = true)
    (hl : ∀ l ∈ ls, inertLine l = true ∧ proseLine l = true)
    (hi : inertBody2 (Document.joinNl (ls.map strip)) = true) (gas : Nat) :
    Document.parse cfg (gas + (cfg.block.types.length + 4)) ls.flatten =
        .ok { kids := [.paragraph (proseInlines (ls.map strip)) 1], footnotes := [] } ∧
    ∀ o : Opts, render o { kids := [.paragraph (proseInlines (ls.map strip)) 1], footnotes := [] } =
        "<p>".toList ++ escapeHtmlText o.dq o.sq (Document.joinNl (ls.map strip)) ++ "</p>\n".toList := by
  rw [parse_lines cfg _ ls h1]
  exact C14_prose2 cfg hpar ht hc ls hne hl hi gas

/-- **… and with `inertBody3`** (`]` after `[` allowed when neither `(` nor `[` follows directly): a
    document of such lines has no link definitions, so no bracket pair becomes a link -/
theorem C14_prose_text3 (cfg : Document.Cfg) (hpar : .paragraph ∈ cfg.block.types)
    (ht : ∀ t ∈ cfg.span, inertClass t = true) (hc : cfg.span.count .lineBreak = 1)
    (ls : List Str) (hne : ls ≠ []) (h1 : ∀ l ∈ ls, oneLine l = true)
    (hl : ∀ l ∈ ls, inertLine l = true ∧ proseLine l = true)
    (hi : inertBody3 (Document.joinNl (ls.map strip)) = true) (gas : Nat) :
    Document.parse cfg (gas + (cfg.block.types.length + 4)) ls.flatten =
        .ok { kids := [.paragraph (proseInlines (ls.map strip)) 1], footnotes := [] } ∧
    ∀ o : Opts, render o { kids := [.paragraph (proseInlines (ls.map strip)) 1], footnotes := [] } =
        "<p>".toList ++ escapeHtmlText o.dq o.sq (Document.joinNl (ls.map strip)) ++ "</p>\n".toList := by
  rw [parse_lines cfg _ ls h1]
  exact C14_proseG false cfg hpar ht hc ls hne hl hi gas


/-! ### Non-vacuity -/

/-- accepted by `inertBody2`, rejected by `inertBody`: runs that can close but have no opener before
    them (`a*`, `b_`, `foo_`, `2*`, `3*`), a closer followed by an opener (`a* *b`), `&` sequences that
    `html.unescape` leaves alone -/
example : [L "a* b_ c", L "foo_ bar", L "2* 3* x", L "a* *b and x_ _y", L "&foo; &; &#; &#x; &#12345678; &é;",
    L "a <= b <3 <- <$ x <@ y"].map
    (fun s => (inertBody2 s, inertBody s)) = List.replicate 6 (true, false) := by decide +kernel

/-- accepted by `inertBody3` only: bracket pairs that are not links -/
example : [L "[a] b", L "[x] [y]", L "a [b] c] d ![i] e"].map (fun s => (inertBody3 s, inertBody2 s)) =
    List.replicate 3 (true, false) := by decide +kernel

/-- the predicates are not trivially true.  `2*3* x` is rejected: the first `*` (between `2` and `3`)
    can open, the second can close — and it does become emphasis, in the model and in mistletoe -/
example : [L "2*3* x", L "*a*", L "_a b_", L "a *b c* d", L "[a](b)", L "[a][b]", L "&amp;", L "&#35;", L "&notit;", L "a ~~b~~",
    L "<=x@y.z>", L "<a>", L "a\\b", L "`c`"].map
    inertBody3 = List.replicate 14 false := by decide +kernel

/-- parse + HTML render of a `str`, by kernel evaluation of the model -/
def htmlOf (s : Str) : Res Str := (Document.parse cfgHtml 14 s).bind (fun d => .ok (render {} d))

example : htmlOf (L "a* b_ c\n") = .ok (L "<p>a* b_ c</p>\n") := by decide +kernel
example : htmlOf (L "foo_ bar\n") = .ok (L "<p>foo_ bar</p>\n") := by decide +kernel
example : htmlOf (L "2* 3* x\n") = .ok (L "<p>2* 3* x</p>\n") := by decide +kernel
example : htmlOf (L "see [a] b, [x] [y]\n") = .ok (L "<p>see [a] b, [x] [y]</p>\n") := by decide +kernel
example : htmlOf (L "x &foo; &; &#;\n") = .ok (L "<p>x &amp;foo; &amp;; &amp;#;</p>\n") := by decide +kernel
example : htmlOf (L "a <= b <3\n") = .ok (L "<p>a &lt;= b &lt;3</p>\n") := by decide +kernel
/-- … whereas this one is markup -/
example : htmlOf (L "2*3* x\n") = .ok (L "<p>2<em>3</em> x</p>\n") := by decide +kernel

/-- the same three texts through the theorem: one `RawText` holding exactly the text -/
example : tokenizeInner htmlSpanTypes [] (L "a* b_ c") = .ok [.rawText (L "a* b_ c")] :=
  (C14_inline_inert2 htmlSpanTypes [] _ htmlSpanTypes_inert (by decide +kernel)).2.2 (by decide)
example : tokenizeInner htmlSpanTypes [] (L "2* 3* x") = .ok [.rawText (L "2* 3* x")] :=
  (C14_inline_inert2 htmlSpanTypes [] _ htmlSpanTypes_inert (by decide +kernel)).2.2 (by decide)
example : tokenizeInner htmlSpanTypes [] (L "foo_ bar") = .ok [.rawText (L "foo_ bar")] :=
  (C14_inline_inert2 htmlSpanTypes [] _ htmlSpanTypes_inert (by decide +kernel)).2.2 (by decide)

def prose2 : List Str := [L "  a* b_ c and foo_ bar\n", L "2* 3* x &foo; &; ] then [\n", L "a* *b &#; x_ _y\n"]

theorem prose2_lines_ok : ∀ l ∈ prose2, inertLine l = true ∧ proseLine l = true := by decide +kernel
theorem prose2_text_ok : inertBody2 (Document.joinNl (prose2.map strip)) = true := by decide +kernel
example : inertBody (Document.joinNl (prose2.map strip)) = false := by decide +kernel

/-- instance of `C14_prose_text2` (the right-hand sides are literal) -/
example : Document.parse cfgHtml 14 (L "  a* b_ c and foo_ bar\n2* 3* x &foo; &; ] then [\na* *b &#; x_ _y\n") =
    .ok { kids := [.paragraph [.rawText (L "a* b_ c and foo_ bar"), .lineBreak [] true,
                               .rawText (L "2* 3* x &foo; &; ] then ["), .lineBreak [] true,
                               .rawText (L "a* *b &#; x_ _y")] 1], footnotes := [] } :=
  (C14_prose_text2 cfgHtml (by decide) htmlSpanTypes_inert (by decide) prose2 (by decide) (by decide +kernel)
    prose2_lines_ok prose2_text_ok 0).1

example : ∃ d, Document.parse cfgHtml 14 prose2.flatten = .ok d ∧ render {} d =
    L "<p>a* b_ c and foo_ bar\n2* 3* x &amp;foo; &amp;; ] then [\na* *b &amp;#; x_ _y</p>\n" := by
  obtain ⟨h1, h2⟩ := C14_prose_text2 cfgHtml (by decide) htmlSpanTypes_inert (by decide) prose2 (by decide)
    (by decide +kernel) prose2_lines_ok prose2_text_ok 0
  exact ⟨_, h1, by rw [h2]; decide +kernel⟩

def prose3 : List Str := [L "see [a] b and [x] [y]\n", L "then a] [b] c] d ![img] e*\n"]

/-- instance of `C14_prose_text3` -/
example : ∃ d, Document.parse cfgHtml 14 prose3.flatten = .ok d ∧ render {} d =
    L "<p>see [a] b and [x] [y]\nthen a] [b] c] d ![img] e*</p>\n" := by
  obtain ⟨h1, h2⟩ := C14_prose_text3 cfgHtml (by decide) htmlSpanTypes_inert (by decide) prose3 (by decide)
    (by decide +kernel) (by decide +kernel) (by decide +kernel) 0
  exact ⟨_, h1, by rw [h2]; decide +kernel⟩

end Mistletoe.Props.C14
