/- C02, chunk 17 of the corpus: every example is evaluated by the kernel. -/
import Mistletoe.Model.SpecCheck
import Mistletoe.Gen.Corpus.C17
namespace Mistletoe.Proofs.Corpus
set_option maxRecDepth 1000000 in
theorem chunk17_ok : Gen.Corpus.C17.examples.all SpecCheck.exampleOk = true := by decide +kernel
end Mistletoe.Proofs.Corpus
