/- C02, chunk 20 of the corpus: every example is evaluated by the kernel. -/
import Mistletoe.Model.SpecCheck
import Mistletoe.Gen.Corpus.C20
namespace Mistletoe.Proofs.Corpus
set_option maxRecDepth 1000000 in
theorem chunk20_ok : Gen.Corpus.C20.examples.all SpecCheck.exampleOk = true := by decide +kernel
end Mistletoe.Proofs.Corpus
