/- C02, chunk 19 of the corpus: every example is evaluated by the kernel. -/
import Mistletoe.Model.SpecCheck
import Mistletoe.Gen.Corpus.C19
namespace Mistletoe.Proofs.Corpus
set_option maxRecDepth 1000000 in
theorem chunk19_ok : Gen.Corpus.C19.examples.all SpecCheck.exampleOk = true := by decide +kernel
end Mistletoe.Proofs.Corpus
