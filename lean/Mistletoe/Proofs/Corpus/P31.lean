/- C02, chunk 31 of the corpus: every example is evaluated by the kernel. -/
import Mistletoe.Model.SpecCheck
import Mistletoe.Gen.Corpus.C31
namespace Mistletoe.Proofs.Corpus
set_option maxRecDepth 1000000 in
theorem chunk31_ok : Gen.Corpus.C31.examples.all SpecCheck.exampleOk = true := by decide +kernel
end Mistletoe.Proofs.Corpus
