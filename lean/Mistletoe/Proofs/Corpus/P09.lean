/- C02, chunk 09 of the corpus: every example is evaluated by the kernel. -/
import Mistletoe.Model.SpecCheck
import Mistletoe.Gen.Corpus.C09
namespace Mistletoe.Proofs.Corpus
set_option maxRecDepth 1000000 in
theorem chunk09_ok : Gen.Corpus.C09.examples.all SpecCheck.exampleOk = true := by decide +kernel
end Mistletoe.Proofs.Corpus
