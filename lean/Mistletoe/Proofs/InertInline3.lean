/-
  C14, inline half, literal backslashes.  `inertBody3` (Proofs/InertInline2.lean) rejects every text
  containing a backslash.  In CommonMark - and in mistletoe - a backslash is special only before an
  ASCII punctuation character (`EscapeSequence`) and directly before a newline (hard `LineBreak`);
  before a letter, digit, space or non-ASCII character it is a literal backslash (`C:\dir`, `a \ b`, `\a`).

  `inertBody4` is `inertBody3` with the character condition weakened: a `\` is allowed when the next
  character exists, is not in `InlineScan.escapable` (the class of `EscapeSequence.pattern`) and is not
  "\n".  What the model does with such a backslash:
  * `find_core_tokens` sets `escaped` at EVERY backslash; the next character is then skipped (a pending
    delimiter run is closed just before the backslash, `escaped` and `in_image` are reset).  The skipped
    character is none of `* _ [ ] !`, so nothing is lost: two loop iterations keep the invariant `Inv2`
    (`coreLoop_bs`).
  * `escapeAt` needs an escapable character after the backslash; `strikeAt` / `autoLinkAt` see exactly one
    leading backslash (odd) and fail; `htmlSpanAt` needs a `<`; `lineBreakAt` needs "\n" after it.
  * `html.unescape` does not look at backslashes (the `&` condition `ampOk2` is unchanged).

  End to end: `C14_prose_text4` (namespace `Mistletoe.Props.C14`, end of the file).
-/
import Mistletoe.Proofs.InertInline2
namespace Mistletoe.InertInline3
open Mistletoe Mistletoe.Py Mistletoe.Scan Mistletoe.InlineScan Mistletoe.Core Mistletoe.Inline Mistletoe.InertInline
open Mistletoe.InertInline2

/-! ## the predicate -/

/-- after a `\`: a character exists, it is not ASCII punctuation (`EscapeSequence.pattern`'s class) and
    it is not "\n" (`LineBreak.pattern`'s `\\\n`) -/
def bsNext : Str → Bool
  | [] => false
  | d :: _ => !escapable d && d != '\n'

/-- no backquote; every backslash is a literal one -/
def bsOk : Str → Bool
  | [] => true
  | c :: rest => (if c == '\\' then bsNext rest else c != '`') && bsOk rest

/-- **`inertBody3` with literal backslashes admitted** -/
def inertBody4 (s : Str) : Bool :=
  bsOk s && ltOk2 s && ampOk2 s && tildeOk s && brOkG false false s && emphOk2 false false ' ' s

theorem bsOk_of_okChar : ∀ (s : Str), s.all okChar = true → bsOk s = true
  | [], _ => rfl
  | c :: rest, h => by
    simp only [List.all_cons, Bool.and_eq_true] at h
    have hc : c ≠ '\\' ∧ c ≠ '`' := by simpa [okChar] using h.1
    have e : (c == '\\') = false := by simpa using hc.1
    simp only [bsOk, e, Bool.false_eq_true, if_false, Bool.and_eq_true, bne_iff_ne, ne_eq]
    exact ⟨hc.2, bsOk_of_okChar rest h.2⟩

/-- **`inertBody3` implies `inertBody4`** -/
theorem inertBody3_inertBody4 (s : Str) (h : inertBody3 s = true) : inertBody4 s = true := by
  simp only [inertBody3, inertBodyG, Bool.and_eq_true] at h
  simp only [inertBody4, Bool.and_eq_true]
  obtain ⟨⟨⟨⟨⟨h1, h2⟩, h3⟩, h4⟩, h5⟩, h6⟩ := h
  exact ⟨⟨⟨⟨⟨bsOk_of_okChar s h1, h2⟩, h3⟩, h4⟩, h5⟩, h6⟩

theorem bsOk_tail (c : Char) (rest : Str) (h : bsOk (c :: rest) = true) : bsOk rest = true := by
  simp only [bsOk, Bool.and_eq_true] at h; exact h.2

theorem bsOk_ne (c : Char) (rest : Str) (h : bsOk (c :: rest) = true) (hc : c ≠ '\\') : c ≠ '`' := by
  have e : (c == '\\') = false := by simpa using hc
  simp only [bsOk, e, Bool.false_eq_true, if_false, Bool.and_eq_true, bne_iff_ne, ne_eq] at h
  exact h.1

/-- at a backslash: the next character exists, is not escapable, is not "\n" -/
theorem bsOk_bs (rest : Str) (h : bsOk ('\\' :: rest) = true) :
    ∃ d r, rest = d :: r ∧ escapable d = false ∧ d ≠ '\n' := by
  simp only [bsOk, beq_self_eq_true, if_true, Bool.and_eq_true] at h
  cases rest with
  | nil => simp [bsNext] at h
  | cons d r =>
    refine ⟨d, r, rfl, ?_⟩
    simpa [bsNext] using h.1

theorem bsOk_notin : ∀ (s : Str), bsOk s = true → '`' ∉ s
  | [], _ => by simp
  | c :: rest, h => by
    intro hm
    rcases List.mem_cons.mp hm with e | hm
    · subst e
      exact bsOk_ne _ rest h (by decide) rfl
    · exact bsOk_notin rest (bsOk_tail c rest h) hm

theorem bsOk_append_right : ∀ (a b : Str), bsOk (a ++ b) = true → bsOk b = true
  | [], _, h => h
  | c :: a, b, h => bsOk_append_right a b (bsOk_tail c (a ++ b) h)

theorem escapable_of (d : Char) (h : escapable d = false) :
    d ≠ '*' ∧ d ≠ '_' ∧ d ≠ '[' ∧ d ≠ ']' ∧ d ≠ '!' ∧ d ≠ '\\' ∧ d ≠ '<' ∧ d ≠ '~' := by
  refine ⟨?_, ?_, ?_, ?_, ?_, ?_, ?_, ?_⟩ <;> (intro e; subst e; revert h; decide)

/-! ## `find_core_tokens`: a literal backslash and the character after it -/

/-- two iterations of the loop at a literal backslash keep `Inv2` (flags unchanged) -/
theorem coreLoop_bs (strict : Bool) (s : Str) (fn : Footnotes.Table) (pre : Str) (d : Char) (rest : Str) (st : FState)
    (so su seen : Bool) (hs : s = pre ++ '\\' :: d :: rest) (hd : escapable d = false)
    (inv : Inv2 strict s pre ('\\' :: d :: rest) so su seen st) (fuel : Nat) :
    ∃ st', coreLoop s fn (fuel + 1 + 1) pre.length st = coreLoop s fn fuel (pre.length + 1 + 1) st' ∧
      Inv2 strict s (pre ++ ['\\', d]) rest so su seen st' := by
  obtain ⟨ds, ms, codes, escaped, inRun, inImage, start, code⟩ := st
  obtain ⟨h1, h2, h3, h4, hds, hbr, himg, hem, hrn, hrs⟩ := inv
  simp only at h1 h2 h3 h4 hds hbr himg hrn hrs
  subst h1 h2 h3 h4
  obtain ⟨hbr1, hbr2⟩ := hbr
  obtain ⟨d1, d2, d3, d4, d5, d6, _, _⟩ := escapable_of d hd
  have hi0 : s[pre.length]? = some '\\' := by rw [hs]; exact getElem?_at pre '\\' (d :: rest)
  have hi1 : s[pre.length + 1]? = some d := by
    simp [hs]
  have hlast : (pre ++ ['\\', d]).getLast? = some d := by simp
  have hem' : emphOk2 so su d rest = true :=
    em2_skip _ _ _ _ _ (em2_skip _ _ _ _ _ hem (fun h => by rcases h.1 with e | e <;> cases e))
      (fun h => by rcases h.1 with e | e; exact d1 e; exact d2 e)
  have hbr' : brOkG strict seen rest = true :=
    brG_step_ne _ _ d rest d3 (brG_step_ne _ _ '\\' (d :: rest) (by decide) hbr1)
  have hrn' : (pre ++ ['\\', d]).getLast?.getD ' ' ≠ '*' ∧ (pre ++ ['\\', d]).getLast?.getD ' ' ≠ '_' := by
    rw [hlast]; exact ⟨d1, d2⟩
  cases inRun with
  | none =>
    refine ⟨{ ds := ds, inRun := none, inImage := false, start := start }, ?_, ?_⟩
    · simp [coreLoop, hi0, hi1, d6]
    · exact ⟨rfl, rfl, rfl, rfl, hds, ⟨hbr', hbr2⟩, by simp, by simpa [hlast] using hem', fun _ => hrn', by simp⟩
  | some ch =>
    obtain ⟨hdel, hlastp, hst, hsa, hcl, hop⟩ := hrs ch rfl
    have hne : '\\' ≠ ch := by rcases hdel with rfl | rfl <;> decide
    rw [countLeading_ne _ _ _ hne, Nat.add_zero] at hcl hop
    obtain ⟨hds', hbrD⟩ := close_run s ds so su start pre.length ch hds hdel hst hsa hcl hop
    have hbr2' : seen = false → ∀ x ∈ ds ++ [mkDelim start pre.length s], isBr x = false := by
      intro h x hx
      rcases List.mem_append.mp hx with h' | h'
      · exact hbr2 h x h'
      · simp only [List.mem_singleton] at h'; subst h'; exact hbrD
    refine ⟨{ ds := ds ++ [mkDelim start pre.length s], inRun := none, inImage := false, start := start }, ?_, ?_⟩
    · simp [coreLoop, hi0, hi1, d6, pushDelim]
    · exact ⟨rfl, rfl, rfl, rfl, hds', ⟨hbr', hbr2'⟩, by simp, by simpa [hlast] using hem', fun _ => hrn', by simp⟩

theorem coreLoop_inert4 (strict : Bool) (s : Str) (fn : Footnotes.Table) (hbt : '`' ∉ s)
    (hfn : strict = false → fn = []) :
    ∀ (n : Nat) (suf pre : Str) (st : FState) (so su seen : Bool) (fuel : Nat), suf.length ≤ n → s = pre ++ suf →
      bsOk suf = true → Inv2 strict s pre suf so su seen st → suf.length < fuel →
      ∃ so' su' seen' st', coreLoop s fn fuel pre.length st = .ok (s.length, st') ∧ Inv2 strict s s [] so' su' seen' st'
  | _, [], pre, st, so, su, seen, fuel, _, hs, _, inv, hf => by
    obtain ⟨f, rfl⟩ : ∃ f, fuel = f + 1 := ⟨fuel - 1, by simp at hf; omega⟩
    simp only [List.append_nil] at hs
    subst hs
    refine ⟨so, su, seen, st, ?_, inv⟩
    simp [coreLoop]
  | 0, _ :: _, _, _, _, _, _, _, hn, _, _, _, _ => by simp at hn
  | n + 1, c :: rest, pre, st, so, su, seen, fuel, hn, hs, hb, inv, hf => by
    obtain ⟨f, rfl⟩ : ∃ f, fuel = f + 1 := ⟨fuel - 1, by simp at hf; omega⟩
    by_cases hc : c = '\\'
    · subst hc
      obtain ⟨d, r, rfl, hd, _⟩ := bsOk_bs rest hb
      obtain ⟨f', rfl⟩ : ∃ f', f = f' + 1 := ⟨f - 1, by simp at hf; omega⟩
      obtain ⟨st1, e1, inv1⟩ := coreLoop_bs strict s fn pre d r st so su seen hs hd inv f'
      have hs' : s = (pre ++ ['\\', d]) ++ r := by rw [hs]; simp
      obtain ⟨so2, su2, seen2, st2, e2, inv2⟩ :=
        coreLoop_inert4 strict s fn hbt hfn n r (pre ++ ['\\', d]) st1 so su seen f' (by simp at hn; omega) hs'
          (bsOk_tail _ _ (bsOk_tail _ _ hb)) inv1 (by simp at hf; omega)
      refine ⟨so2, su2, seen2, st2, ?_, inv2⟩
      rw [e1]
      have : (pre ++ ['\\', d]).length = pre.length + 1 + 1 := by simp
      rw [← this]; exact e2
    · obtain ⟨so1, su1, seen1, st1, e1, inv1⟩ := coreLoop_step2 strict s fn pre c rest st so su seen hs hc hbt hfn inv f
      have hs' : s = (pre ++ [c]) ++ rest := by rw [hs]; simp
      obtain ⟨so2, su2, seen2, st2, e2, inv2⟩ :=
        coreLoop_inert4 strict s fn hbt hfn n rest (pre ++ [c]) st1 so1 su1 seen1 f (by simp at hn; omega) hs'
          (bsOk_tail _ _ hb) inv1 (by simp at hf; omega)
      refine ⟨so2, su2, seen2, st2, ?_, inv2⟩
      rw [e1]
      have : (pre ++ [c]).length = pre.length + 1 := by simp
      rw [← this]; exact e2

/-- **`find_core_tokens` returns no match** on text whose backslashes are all literal -/
theorem findCoreTokens_inert4 (strict : Bool) (s : Str) (fn : Footnotes.Table) (hbs : bsOk s = true)
    (hfn : strict = false → fn = []) (hbr : brOkG strict false s = true) (hem : emphOk2 false false ' ' s = true) :
    findCoreTokens s fn = .ok ([], []) := by
  have hbt : '`' ∉ s := bsOk_notin s hbs
  have inv0 : Inv2 strict s [] s false false false { code := codeSearch s 0 } := by
    refine ⟨rfl, rfl, codeSearch_none s 0 hbt, rfl, DsOk.nil _ _, ⟨hbr, by simp⟩, by simp, hem, ?_, by simp⟩
    intro _; exact ⟨by decide, by decide⟩
  obtain ⟨so, su, seen, st, e, inv⟩ :=
    coreLoop_inert4 strict s fn hbt hfn s.length s [] _ false false false (s.length + 2) (Nat.le_refl _) rfl hbs inv0 (by omega)
  unfold findCoreTokens
  simp only [List.length_nil] at e
  rw [e]
  simp only [inv.esc, Bool.not_false, if_true]
  have hds : DsOk so su (if st.inRun.isSome then pushDelim st (mkDelim st.start s.length s) else st).ds := by
    cases hr : st.inRun with
    | none => simpa using inv.ds
    | some ch =>
      obtain ⟨hdel, _, hst, hsa, hcl, hop⟩ := inv.runSome ch hr
      simp only [countLeading, Nat.add_zero] at hcl hop
      simp only [Option.isSome_some, if_true, pushDelim]
      exact (close_run s st.ds so su st.start s.length ch inv.ds hdel hst hsa hcl hop).1
  have hms : (if st.inRun.isSome then pushDelim st (mkDelim st.start s.length s) else st).ms = [] := by
    split <;> simp [pushDelim, inv.ms]
  have hcs : (if st.inRun.isSome then pushDelim st (mkDelim st.start s.length s) else st).codes = [] := by
    split <;> simp [pushDelim, inv.codes]
  rw [processEmphasis_nopair s _ _ hds.head hds.pair]
  simp [hms, hcs]

end Mistletoe.InertInline3
