/-
  C14, inline half, literal backslashes.  `inertBody3` (Proofs/InertInline2.lean) rejects every text
  containing a backslash.  In CommonMark - and in mistletoe - a backslash is special only before an
  ASCII punctuation character (`EscapeSequence`) and directly before a newline (hard `LineBreak`);
  before a letter, digit, space or non-ASCII character it is a literal backslash (`C:\dir`, `a \ b`, `\a`).

  `inertBody4` is `inertBody3` with the character condition weakened: a `\` is allowed when the next
  character exists, is not in `InlineScan.escapable` (the class of `EscapeSequence.pattern`) and is not
  "\n".  What the model does with such a backslash:
  * `find_core_tokens` sets `escaped` at EVERY backslash; the next character is then skipped (a pending
    delimiter run is closed just before the backslash, `escaped` and `in_image` are reset).  The skipped
    character is none of `* _ [ ] !`, so nothing is lost: two loop iterations keep the invariant `Inv2`
    (`coreLoop_bs`).
  * `escapeAt` needs an escapable character after the backslash; `strikeAt` / `autoLinkAt` see exactly one
    leading backslash (odd) and fail; `htmlSpanAt` needs a `<`; `lineBreakAt` needs "\n" after it.
  * `html.unescape` does not look at backslashes (the `&` condition `ampOk2` is unchanged).

  End to end: `C14_prose_text4` (namespace `Mistletoe.Props.C14`, end of the file).
-/
import Mistletoe.Proofs.InertInline2
namespace Mistletoe.InertInline3
open Mistletoe Mistletoe.Py Mistletoe.Scan Mistletoe.InlineScan Mistletoe.Core Mistletoe.Inline Mistletoe.InertInline
open Mistletoe.InertInline2

/-! ## the predicate -/

/-- after a `\`: a character exists, it is not ASCII punctuation (`EscapeSequence.pattern`'s class) and
    it is not "\n" (`LineBreak.pattern`'s `\\\n`) -/
def bsNext : Str → Bool
  | [] => false
  | d :: _ => !escapable d && d != '\n'

/-- no backquote; every backslash is a literal one -/
def bsOk : Str → Bool
  | [] => true
  | c :: rest => (if c == '\\' then bsNext rest else c != '`') && bsOk rest

/-- **`inertBody3` with literal backslashes allowed** -/
def inertBody4 (s : Str) : Bool :=
  bsOk s && ltOk2 s && ampOk2 s && tildeOk s && brOkG false false s && emphOk2 false false ' ' s

theorem bsOk_of_okChar : ∀ (s : Str), s.all okChar = true → bsOk s = true
  | [], _ => rfl
  | c :: rest, h => by
    simp only [List.all_cons, Bool.and_eq_true] at h
    have hc : c ≠ '\\' ∧ c ≠ '`' := by simpa [okChar] using h.1
    have e : (c == '\\') = false := by simpa using hc.1
    simp only [bsOk, e, Bool.false_eq_true, if_false, Bool.and_eq_true, bne_iff_ne, ne_eq]
    exact ⟨hc.2, bsOk_of_okChar rest h.2⟩

/-- **`inertBody3` implies `inertBody4`** -/
theorem inertBody3_inertBody4 (s : Str) (h : inertBody3 s = true) : inertBody4 s = true := by
  simp only [inertBody3, inertBodyG, Bool.and_eq_true] at h
  simp only [inertBody4, Bool.and_eq_true]
  obtain ⟨⟨⟨⟨⟨h1, h2⟩, h3⟩, h4⟩, h5⟩, h6⟩ := h
  exact ⟨⟨⟨⟨⟨bsOk_of_okChar s h1, h2⟩, h3⟩, h4⟩, h5⟩, h6⟩

theorem bsOk_tail (c : Char) (rest : Str) (h : bsOk (c :: rest) = true) : bsOk rest = true := by
  simp only [bsOk, Bool.and_eq_true] at h; exact h.2

theorem bsOk_ne (c : Char) (rest : Str) (h : bsOk (c :: rest) = true) (hc : c ≠ '\\') : c ≠ '`' := by
  have e : (c == '\\') = false := by simpa using hc
  simp only [bsOk, e, Bool.false_eq_true, if_false, Bool.and_eq_true, bne_iff_ne, ne_eq] at h
  exact h.1

/-- at a backslash: the next character exists, is not escapable, is not "\n" -/
theorem bsOk_bs (rest : Str) (h : bsOk ('\\' :: rest) = true) :
    ∃ d r, rest = d :: r ∧ escapable d = false ∧ d ≠ '\n' := by
  simp only [bsOk, beq_self_eq_true, if_true, Bool.and_eq_true] at h
  cases rest with
  | nil => simp [bsNext] at h
  | cons d r =>
    refine ⟨d, r, rfl, ?_⟩
    simpa [bsNext] using h.1

theorem bsOk_notin : ∀ (s : Str), bsOk s = true → '`' ∉ s
  | [], _ => by simp
  | c :: rest, h => by
    intro hm
    rcases List.mem_cons.mp hm with e | hm
    · subst e
      exact bsOk_ne _ rest h (by decide) rfl
    · exact bsOk_notin rest (bsOk_tail c rest h) hm

theorem bsOk_append_right : ∀ (a b : Str), bsOk (a ++ b) = true → bsOk b = true
  | [], _, h => h
  | c :: a, b, h => bsOk_append_right a b (bsOk_tail c (a ++ b) h)

theorem escapable_of (d : Char) (h : escapable d = false) :
    d ≠ '*' ∧ d ≠ '_' ∧ d ≠ '[' ∧ d ≠ ']' ∧ d ≠ '!' ∧ d ≠ '\\' ∧ d ≠ '<' ∧ d ≠ '~' := by
  refine ⟨?_, ?_, ?_, ?_, ?_, ?_, ?_, ?_⟩ <;> (intro e; subst e; revert h; decide)

/-! ## `find_core_tokens`: a literal backslash and the character after it -/

/-- two iterations of the loop at a literal backslash keep `Inv2` (flags unchanged) -/
theorem coreLoop_bs (strict : Bool) (s : Str) (fn : Footnotes.Table) (pre : Str) (d : Char) (rest : Str) (st : FState)
    (so su seen : Bool) (hs : s = pre ++ '\\' :: d :: rest) (hd : escapable d = false)
    (inv : Inv2 strict s pre ('\\' :: d :: rest) so su seen st) (fuel : Nat) :
    ∃ st', coreLoop s fn (fuel + 1 + 1) pre.length st = coreLoop s fn fuel (pre.length + 1 + 1) st' ∧
      Inv2 strict s (pre ++ ['\\', d]) rest so su seen st' := by
  obtain ⟨ds, ms, codes, escaped, inRun, inImage, start, code⟩ := st
  obtain ⟨h1, h2, h3, h4, hds, hbr, himg, hem, hrn, hrs⟩ := inv
  simp only at h1 h2 h3 h4 hds hbr himg hrn hrs
  subst h1 h2 h3 h4
  obtain ⟨hbr1, hbr2⟩ := hbr
  obtain ⟨d1, d2, d3, d4, d5, d6, _, _⟩ := escapable_of d hd
  have hi0 : s[pre.length]? = some '\\' := by rw [hs]; exact getElem?_at pre '\\' (d :: rest)
  have hi1 : s[pre.length + 1]? = some d := by
    simp [hs]
  have hlast : (pre ++ ['\\', d]).getLast? = some d := by simp
  have hem' : emphOk2 so su d rest = true :=
    em2_skip _ _ _ _ _ (em2_skip _ _ _ _ _ hem (fun h => by rcases h.1 with e | e <;> cases e))
      (fun h => by rcases h.1 with e | e; exact d1 e; exact d2 e)
  have hbr' : brOkG strict seen rest = true :=
    brG_step_ne _ _ d rest d3 (brG_step_ne _ _ '\\' (d :: rest) (by decide) hbr1)
  have hrn' : (pre ++ ['\\', d]).getLast?.getD ' ' ≠ '*' ∧ (pre ++ ['\\', d]).getLast?.getD ' ' ≠ '_' := by
    rw [hlast]; exact ⟨d1, d2⟩
  cases inRun with
  | none =>
    refine ⟨{ ds := ds, inRun := none, inImage := false, start := start }, ?_, ?_⟩
    · simp [coreLoop, hi0, hi1, d6]
    · exact ⟨rfl, rfl, rfl, rfl, hds, ⟨hbr', hbr2⟩, by simp, by simpa [hlast] using hem', fun _ => hrn', by simp⟩
  | some ch =>
    obtain ⟨hdel, hlastp, hst, hsa, hcl, hop⟩ := hrs ch rfl
    have hne : '\\' ≠ ch := by rcases hdel with rfl | rfl <;> decide
    rw [countLeading_ne _ _ _ hne, Nat.add_zero] at hcl hop
    obtain ⟨hds', hbrD⟩ := close_run s ds so su start pre.length ch hds hdel hst hsa hcl hop
    have hbr2' : seen = false → ∀ x ∈ ds ++ [mkDelim start pre.length s], isBr x = false := by
      intro h x hx
      rcases List.mem_append.mp hx with h' | h'
      · exact hbr2 h x h'
      · simp only [List.mem_singleton] at h'; subst h'; exact hbrD
    refine ⟨{ ds := ds ++ [mkDelim start pre.length s], inRun := none, inImage := false, start := start }, ?_, ?_⟩
    · simp [coreLoop, hi0, hi1, d6, pushDelim]
    · exact ⟨rfl, rfl, rfl, rfl, hds', ⟨hbr', hbr2'⟩, by simp, by simpa [hlast] using hem', fun _ => hrn', by simp⟩

theorem coreLoop_inert4 (strict : Bool) (s : Str) (fn : Footnotes.Table) (hbt : '`' ∉ s)
    (hfn : strict = false → fn = []) :
    ∀ (n : Nat) (suf pre : Str) (st : FState) (so su seen : Bool) (fuel : Nat), suf.length ≤ n → s = pre ++ suf →
      bsOk suf = true → Inv2 strict s pre suf so su seen st → suf.length < fuel →
      ∃ so' su' seen' st', coreLoop s fn fuel pre.length st = .ok (s.length, st') ∧ Inv2 strict s s [] so' su' seen' st'
  | _, [], pre, st, so, su, seen, fuel, _, hs, _, inv, hf => by
    obtain ⟨f, rfl⟩ : ∃ f, fuel = f + 1 := ⟨fuel - 1, by simp at hf; omega⟩
    simp only [List.append_nil] at hs
    subst hs
    refine ⟨so, su, seen, st, ?_, inv⟩
    simp [coreLoop]
  | 0, _ :: _, _, _, _, _, _, _, hn, _, _, _, _ => by simp at hn
  | n + 1, c :: rest, pre, st, so, su, seen, fuel, hn, hs, hb, inv, hf => by
    obtain ⟨f, rfl⟩ : ∃ f, fuel = f + 1 := ⟨fuel - 1, by simp at hf; omega⟩
    by_cases hc : c = '\\'
    · subst hc
      obtain ⟨d, r, rfl, hd, _⟩ := bsOk_bs rest hb
      obtain ⟨f', rfl⟩ : ∃ f', f = f' + 1 := ⟨f - 1, by simp at hf; omega⟩
      obtain ⟨st1, e1, inv1⟩ := coreLoop_bs strict s fn pre d r st so su seen hs hd inv f'
      have hs' : s = (pre ++ ['\\', d]) ++ r := by rw [hs]; simp
      obtain ⟨so2, su2, seen2, st2, e2, inv2⟩ :=
        coreLoop_inert4 strict s fn hbt hfn n r (pre ++ ['\\', d]) st1 so su seen f' (by simp at hn; omega) hs'
          (bsOk_tail _ _ (bsOk_tail _ _ hb)) inv1 (by simp at hf; omega)
      refine ⟨so2, su2, seen2, st2, ?_, inv2⟩
      rw [e1]
      have : (pre ++ ['\\', d]).length = pre.length + 1 + 1 := by simp
      rw [← this]; exact e2
    · obtain ⟨so1, su1, seen1, st1, e1, inv1⟩ := coreLoop_step2 strict s fn pre c rest st so su seen hs hc hbt hfn inv f
      have hs' : s = (pre ++ [c]) ++ rest := by rw [hs]; simp
      obtain ⟨so2, su2, seen2, st2, e2, inv2⟩ :=
        coreLoop_inert4 strict s fn hbt hfn n rest (pre ++ [c]) st1 so1 su1 seen1 f (by simp at hn; omega) hs'
          (bsOk_tail _ _ hb) inv1 (by simp at hf; omega)
      refine ⟨so2, su2, seen2, st2, ?_, inv2⟩
      rw [e1]
      have : (pre ++ [c]).length = pre.length + 1 := by simp
      rw [← this]; exact e2

/-- **`find_core_tokens` returns no match** on text whose backslashes are all literal -/
theorem findCoreTokens_inert4 (strict : Bool) (s : Str) (fn : Footnotes.Table) (hbs : bsOk s = true)
    (hfn : strict = false → fn = []) (hbr : brOkG strict false s = true) (hem : emphOk2 false false ' ' s = true) :
    findCoreTokens s fn = .ok ([], []) := by
  have hbt : '`' ∉ s := bsOk_notin s hbs
  have inv0 : Inv2 strict s [] s false false false { code := codeSearch s 0 } := by
    refine ⟨rfl, rfl, codeSearch_none s 0 hbt, rfl, DsOk.nil _ _, ⟨hbr, by simp⟩, by simp, hem, ?_, by simp⟩
    intro _; exact ⟨by decide, by decide⟩
  obtain ⟨so, su, seen, st, e, inv⟩ :=
    coreLoop_inert4 strict s fn hbt hfn s.length s [] _ false false false (s.length + 2) (Nat.le_refl _) rfl hbs inv0 (by omega)
  unfold findCoreTokens
  simp only [List.length_nil] at e
  rw [e]
  simp only [inv.esc, Bool.not_false, if_true]
  have hds : DsOk so su (if st.inRun.isSome then pushDelim st (mkDelim st.start s.length s) else st).ds := by
    cases hr : st.inRun with
    | none => simpa using inv.ds
    | some ch =>
      obtain ⟨hdel, _, hst, hsa, hcl, hop⟩ := inv.runSome ch hr
      simp only [countLeading, Nat.add_zero] at hcl hop
      simp only [Option.isSome_some, if_true, pushDelim]
      exact (close_run s st.ds so su st.start s.length ch inv.ds hdel hst hsa hcl hop).1
  have hms : (if st.inRun.isSome then pushDelim st (mkDelim st.start s.length s) else st).ms = [] := by
    split <;> simp [pushDelim, inv.ms]
  have hcs : (if st.inRun.isSome then pushDelim st (mkDelim st.start s.length s) else st).codes = [] := by
    split <;> simp [pushDelim, inv.codes]
  rw [processEmphasis_nopair s _ _ hds.head hds.pair]
  simp [hms, hcs]


/-! ## the regex scanners -/

theorem escapeAt_none4 (prev : Option Char) (c : Char) (rest : Str) (h : bsOk (c :: rest) = true) :
    escapeAt prev (c :: rest) = none := by
  by_cases hc : c = '\\'
  · subst hc
    obtain ⟨d, r, rfl, hd, _⟩ := bsOk_bs rest h
    simp [escapeAt, hd]
  · exact escapeAt_none prev c rest hc

/-- a literal backslash: exactly one leading backslash, so `(?:\\\\)*` cannot consume it -/
theorem leadingBackslashes_one (d : Char) (r : Str) (hd : escapable d = false) :
    leadingBackslashes ('\\' :: d :: r) = 1 := by
  have d6 := (escapable_of d hd).2.2.2.2.2.1
  simp [leadingBackslashes, countLeading, d6]

theorem strikeAt_none4 (prev : Option Char) (c : Char) (rest : Str) (h : bsOk (c :: rest) = true)
    (ht : (c == '~' && rest.head? == some '~') = false) : strikeAt prev (c :: rest) = none := by
  by_cases hc : c = '\\'
  · subst hc
    obtain ⟨d, r, rfl, hd, _⟩ := bsOk_bs rest h
    unfold strikeAt
    split
    · rfl
    · simp [leadingBackslashes_one d r hd]
  · exact strikeAt_none prev c rest hc ht

theorem autoLinkAt_none4 (prev : Option Char) (c : Char) (rest : Str) (h : bsOk (c :: rest) = true)
    (hl : (c != '<' || ltNext2 rest) = true) : autoLinkAt prev (c :: rest) = none := by
  by_cases hc : c = '\\'
  · subst hc
    obtain ⟨d, r, rfl, hd, _⟩ := bsOk_bs rest h
    unfold autoLinkAt
    split
    · rfl
    · simp [leadingBackslashes_one d r hd]
  · exact autoLinkAt_none2 prev c rest hc hl

/-- what the regex scanners need of the text -/
structure ScanOk4 (s : Str) : Prop where
  bs : bsOk s = true
  lt : ltOk2 s = true
  tilde : tildeOk s = true

theorem ScanOk4.tail {c : Char} {rest : Str} (h : ScanOk4 (c :: rest)) : ScanOk4 rest := by
  obtain ⟨h1, h2, h3⟩ := h
  simp only [ltOk2, tildeOk, Bool.and_eq_true] at h2 h3
  exact ⟨bsOk_tail c rest h1, h2.2, h3.2⟩

theorem ScanOk4.head_lt {c : Char} {rest : Str} (h : ScanOk4 (c :: rest)) : (c != '<' || ltNext2 rest) = true := by
  have := h.lt
  simp only [ltOk2, Bool.and_eq_true] at this
  exact this.1

theorem ScanOk4.head_tilde {c : Char} {rest : Str} (h : ScanOk4 (c :: rest)) : (c == '~' && rest.head? == some '~') = false := by
  have := h.tilde
  simp only [tildeOk, Bool.and_eq_true, Bool.not_eq_eq_eq_not, Bool.not_true] at this
  exact this.1

/-- except for `LineBreak`, no covered class finds anything -/
theorem findOne_scan4 (s : Str) (h : ScanOk4 s) (t : STok) (ht : inertClass t = true) (hlb : t ≠ .lineBreak) :
    findOne s [] [] t = [] := by
  cases t with
  | escapeSequence =>
    simp only [findOne, List.map_eq_nil_iff]
    exact findIter_nil _ ScanOk4 (fun _ _ => ScanOk4.tail) (fun p c r hq => escapeAt_none4 p c r hq.bs) s h
  | htmlSpan =>
    simp only [findOne, List.map_eq_nil_iff]
    exact findIter_nil _ ScanOk4 (fun _ _ => ScanOk4.tail) (fun p c r hq => htmlSpanAt_none2 p c r hq.head_lt) s h
  | strikethrough =>
    simp only [findOne, List.map_eq_nil_iff]
    exact findIter_nil _ ScanOk4 (fun _ _ => ScanOk4.tail)
      (fun p c r hq => strikeAt_none4 p c r hq.bs hq.head_tilde) s h
  | autoLink =>
    simp only [findOne, List.map_eq_nil_iff]
    exact findIter_nil _ ScanOk4 (fun _ _ => ScanOk4.tail)
      (fun p c r hq => autoLinkAt_none4 p c r hq.bs hq.head_lt) s h
  | coreTokens => rfl
  | inlineCode => rfl
  | lineBreak => exact absurd rfl hlb
  | math => cases ht
  | githubWiki => cases ht
  | xwikiMacroStart => cases ht
  | xwikiMacroEnd => cases ht

theorem findAll_gen4 (s : Str) (types : List STok) (fn : Footnotes.Table) (ht : ∀ t ∈ types, inertClass t = true)
    (hs : ScanOk4 s) (hcore : findCoreTokens s fn = .ok ([], [])) (hnl : '\n' ∉ s) : findAll s types fn = .ok [] := by
  rw [findAll_core_gen s types fn hcore]
  congr 1
  rw [List.flatMap_eq_nil_iff]
  intro t htm
  by_cases hlb : t = .lineBreak
  · subst hlb; exact findOne_lineBreak s hnl
  · exact findOne_scan4 s hs t (ht t htm) hlb

/-! ## `LineBreak.find` on lines joined by "\n": no backslash stands directly before a "\n" -/

theorem lineBreakAt_mid4 (prev : Option Char) (t x : Str) (hne : t ≠ []) (hn : '\n' ∉ t) (hb : bsOk (t ++ x) = true)
    (hl : t.getLast? ≠ some ' ') : lineBreakAt prev (t ++ x) = none := by
  obtain ⟨d, h1, h2⟩ := nl_idx x t hne hn hl
  unfold lineBreakAt
  simp only [h1]
  have : (some d == some '\n') = false := by simp [h2]
  simp only [this, Bool.false_eq_true, if_false]
  cases t with
  | nil => exact absurd rfl hne
  | cons c t' =>
    split
    · rename_i tl heq
      simp only [List.cons_append, List.cons.injEq] at heq
      obtain ⟨rfl, heq2⟩ := heq
      obtain ⟨d', r', e, _, hd'⟩ := bsOk_bs (t' ++ x) hb
      rw [e] at heq2
      simp only [List.cons.injEq] at heq2
      exact absurd heq2.1 hd'
    · rfl

theorem scanLine4 (more : Str) (f : Nat) : ∀ (t : Str) (pos : Nat) (prev : Option Char), '\n' ∉ t →
    bsOk (t ++ '\n' :: more) = true → (t ≠ [] → t.getLast? ≠ some ' ') →
    findIterAux lineBreakAt (t.length + 1 + f) pos prev (t ++ '\n' :: more) =
      { start := pos + t.length, stop := pos + t.length + 1, gs := pos + t.length, ge := pos + t.length } ::
        findIterAux lineBreakAt f (pos + t.length + 1) (some '\n') more
  | [], pos, prev, _, _, _ => by
    have e : lineBreakAt prev ('\n' :: more) = some (1, 0, 0) := by
      simp [lineBreakAt, countLeading]
    have e2 : ([] : Str).length + 1 + f = f + 1 := by simp; omega
    rw [e2]
    simp [findIterAux, e]
  | c :: t, pos, prev, hn, hb, hl => by
    have hnone := lineBreakAt_mid4 prev (c :: t) ('\n' :: more) (by simp) hn hb (hl (by simp))
    have e2 : (c :: t).length + 1 + f = (t.length + 1 + f) + 1 := by simp; omega
    rw [e2]
    simp only [List.cons_append] at hnone hb ⊢
    simp only [findIterAux, hnone]
    rw [scanLine4 more f t (pos + 1) (some c) (fun hm => hn (List.mem_cons_of_mem _ hm))
      (bsOk_tail _ _ hb)
      (by
        intro hne
        cases t with
        | nil => exact absurd rfl hne
        | cons d t' => simpa [List.getLast?_cons_cons] using hl (by simp))]
    simp only [List.length_cons]
    have a1 : pos + 1 + t.length = pos + (t.length + 1) := by omega
    rw [a1]

/-- the shape of a paragraph line: non-empty, no newline, not ending in a space (backslashes allowed) -/
structure LineOk4 (t : Str) : Prop where
  ne : t ≠ []
  nl : '\n' ∉ t
  sp : t.getLast? ≠ some ' '

open Mistletoe.Document in
theorem findIter_lines4 : ∀ (ts : List Str) (pos : Nat) (prev : Option Char) (f : Nat), (∀ t ∈ ts, LineOk4 t) →
    bsOk (joinNl ts) = true →
    findIterAux lineBreakAt ((joinNl ts).length + 1 + f) pos prev (joinNl ts) = nlMatches pos ts
  | [], pos, prev, f, _, _ => by simp [joinNl, findIterAux, nlMatches]
  | [t], pos, prev, f, h, _ => by
    simp only [joinNl, nlMatches]
    exact findIterAux_nil _ (fun s => '\n' ∉ s) (fun _ _ hq hm => hq (List.mem_cons_of_mem _ hm))
      (fun p c r hq => lineBreakAt_none p (c :: r) hq) _ _ _ t (h t (by simp)).nl
  | t :: t' :: rest, pos, prev, f, h, hb => by
    have ht := h t (by simp)
    rw [joinNl_cons2] at hb ⊢
    have e : (t ++ '\n' :: joinNl (t' :: rest)).length + 1 + f = t.length + 1 + ((joinNl (t' :: rest)).length + 1 + f) := by
      simp; omega
    have hb2 : bsOk (joinNl (t' :: rest)) = true := by
      have := bsOk_append_right (t ++ ['\n']) (joinNl (t' :: rest)) (by simpa using hb)
      exact this
    rw [e, scanLine4 _ _ t pos prev ht.nl hb (fun _ => ht.sp)]
    rw [findIter_lines4 (t' :: rest) _ _ f (fun x hx => h x (List.mem_cons_of_mem _ hx)) hb2]
    simp [nlMatches]

open Mistletoe.Document in
/-- `LineBreak.find` matches exactly the "\n" characters, each with an empty group 1 (soft breaks) -/
theorem findIter_joinNl4 (ts : List Str) (h : ∀ t ∈ ts, LineOk4 t) (hb : bsOk (joinNl ts) = true) :
    findIter lineBreakAt (joinNl ts) = nlMatches 0 ts := by
  have := findIter_lines4 ts 0 none 0 h hb
  simpa [findIter] using this

/-! ## `tokenize_inner` -/

open Mistletoe.Document in
/-- `tokenizeInner_lines_gen` with its hypotheses about the scanners stated directly -/
theorem tokenizeInner_lines_gen4 (types : List STok) (fn : Footnotes.Table) (ts : List Str)
    (hc : types.count .lineBreak = 1) (hne : ts ≠ []) (hne' : ∀ t ∈ ts, t ≠ [])
    (hother : ∀ t ∈ types, t ≠ .lineBreak → findOne (joinNl ts) [] [] t = [])
    (hlb : findIter lineBreakAt (joinNl ts) = nlMatches 0 ts)
    (hcore : findCoreTokens (joinNl ts) fn = .ok ([], []))
    (hun : ∀ t ∈ ts, Unescape.unescape true t = t) :
    tokenizeInner types fn (joinNl ts) = .ok (proseInlines ts) := by
  have hfm : types.flatMap (findOne (joinNl ts) [] []) = (nlMatches 0 ts).map (ofRe .lineBreak true) := by
    rw [flatMap_one _ .lineBreak types hother hc]
    simp only [findOne, hlb]
  unfold tokenizeInner
  rw [findAll_core_gen _ _ _ hcore, hfm]
  simp only
  have hcs : ((nlMatches 0 ts).map (ofRe .lineBreak true)).zipIdx.map (fun (f, i) =>
      ({ start := f.start, stop := f.stop, pstart := f.pstart, pend := f.pend, prec := prec f.cls,
         inner := parseInner f.cls, cls := clsIndex types f.cls, ord := i } : Span.Cand)) =
      ((nlMatches 0 ts).zipIdx 0).map (lbCand (clsIndex types .lineBreak)) := by
    rw [List.zipIdx_map, List.map_map]
    apply List.map_congr_left
    intro ⟨m, i⟩ _
    rfl
  rw [hcs, tokenize_sep _ _ (sep_lines _ ts 0 0 0 (Nat.le_refl _))]
  have := builds_lines_gen (joinNl ts) ((nlMatches 0 ts).map (ofRe .lineBreak true)) (clsIndex types .lineBreak) ts [] 0
    rfl hne (fun t htm => ⟨hne' t htm, hun t htm⟩)
    (by
      intro i _ hi
      simp only [List.length_nil, Nat.zero_add] at hi
      have hm : (nlMatches 0 ts)[i]? = some ((nlMatches 0 ts)[i]) := List.getElem?_eq_getElem hi
      refine ⟨(nlMatches 0 ts)[i], by rw [List.getElem?_map, hm]; rfl, ?_⟩
      exact nlMatches_empty_group ts 0 _ (List.getElem_mem hi))
  simp only [List.length_nil, Nat.zero_add] at this
  rw [this]

theorem inertBody4_parts (s : Str) (h : inertBody4 s = true) :
    ScanOk4 s ∧ ampOk2 s = true ∧ brOkG false false s = true ∧ emphOk2 false false ' ' s = true := by
  simp only [inertBody4, Bool.and_eq_true] at h
  obtain ⟨⟨⟨⟨⟨h1, h2⟩, h3⟩, h4⟩, h5⟩, h6⟩ := h
  exact ⟨⟨h1, h2, h4⟩, h3, h5, h6⟩

theorem findCoreTokens_inertBody4 (s : Str) (h : inertBody4 s = true) : findCoreTokens s [] = .ok ([], []) := by
  obtain ⟨hs, _, hb, he⟩ := inertBody4_parts s h
  exact findCoreTokens_inert4 false s [] hs.bs (fun _ => rfl) hb he

/-- one line: no class finds anything, `html.unescape` is the identity, one `RawText` -/
theorem inline_inert4 (types : List STok) (s : Str) (ht : ∀ t ∈ types, inertClass t = true)
    (h : inertBody4 s = true) (hnl : '\n' ∉ s) :
    findAll s types [] = .ok [] ∧ Unescape.unescape true s = s ∧
      (s ≠ [] → tokenizeInner types [] s = .ok [.rawText s]) := by
  have hp := inertBody4_parts s h
  have h1 := findAll_gen4 s types [] ht hp.1 (findCoreTokens_inertBody4 s h) hnl
  have h2 := unescape_inert2 s hp.2.1
  refine ⟨h1, h2, fun hne => ?_⟩
  rw [tokenizeInner_no_candidates types [] s h1 hne, h2]

open Mistletoe.Document in
/-- several lines -/
theorem tokenizeInner_lines4 (types : List STok) (ts : List Str)
    (ht : ∀ t ∈ types, inertClass t = true) (hc : types.count .lineBreak = 1) (hne : ts ≠ [])
    (hl : ∀ t ∈ ts, LineOk4 t) (hb : inertBody4 (joinNl ts) = true) :
    tokenizeInner types [] (joinNl ts) = .ok (proseInlines ts) := by
  have hp := inertBody4_parts _ hb
  exact tokenizeInner_lines_gen4 types [] ts hc hne (fun t htm => (hl t htm).ne)
    (fun t htm hne' => findOne_scan4 _ hp.1 t (ht t htm) hne')
    (findIter_joinNl4 ts hl hp.1.bs) (findCoreTokens_inertBody4 _ hb)
    (fun t htm => unescape_inert2 t (ampOk2_lines ts hp.2.1 t htm))

open Mistletoe.Document in
theorem lineOk_of_prose4 (ls : List Str) (h : ∀ l ∈ ls, proseLine l = true) : ∀ t ∈ ls.map strip, LineOk4 t := by
  intro t ht
  obtain ⟨l, hl, rfl⟩ := List.mem_map.mp ht
  have f := proseLine_facts l (h l hl)
  refine ⟨f.ne, f.nl, ?_⟩
  intro e
  have := f.last ' ' e
  revert this; decide

open Mistletoe.Document in
/-- the `Paragraph` constructor on lines whose joined text satisfies `inertBody4` -/
theorem mkBlocks_prose4 (cfg : Document.Cfg) (ls : List Str) (ln o : Nat)
    (ht : ∀ t ∈ cfg.span, inertClass t = true) (hc : cfg.span.count .lineBreak = 1) (hne : ls ≠ [])
    (h : ∀ l ∈ ls, proseLine l = true) (hb : inertBody4 (joinNl (ls.map strip)) = true) :
    mkBlocks cfg [] [.paragraph ls ln o] = .ok [.paragraph (proseInlines (ls.map strip)) ln] := by
  have hin : inl cfg [] (strip (ls.map lstrip).flatten) = .ok (proseInlines (ls.map strip)) := by
    unfold inl
    rw [paragraph_content ls hne h]
    exact tokenizeInner_lines4 cfg.span _ ht hc (by simpa using hne) (lineOk_of_prose4 ls h) hb
  simp only [mkBlocks, mkBlock, hin]

end Mistletoe.InertInline3

/-! ## C14 with literal backslashes -/

namespace Mistletoe.Props.C14
open Mistletoe Mistletoe.Py Mistletoe.Scan Mistletoe.Block Mistletoe.Inline Mistletoe.InertInline Mistletoe.InertInline2
open Mistletoe.InertInline3
open Mistletoe.Html Mistletoe.Escape

/-- inert text on one line, literal backslashes allowed -/
def inertText4 (s : Str) : Bool := inertBody4 s && !s.contains '\n'

/-- **`inertBody4` is weaker than `inertBody3`** -/
theorem C14_inertBody4_weaker (s : Str) (h : inertBody3 s = true) : inertBody4 s = true :=
  inertBody3_inertBody4 s h

/-- **`find_core_tokens` finds nothing under `inertBody4`** (empty table of definitions): the `escaped`
    flag set by a literal backslash only skips a character that has no special meaning -/
theorem C14_core_inert4 (s : Str) (h : inertBody4 s = true) : Core.findCoreTokens s [] = .ok ([], []) :=
  findCoreTokens_inertBody4 s h

/-- **The analogue of `C14_inline_inert3` for `inertBody4`**: for every list of covered classes, no
    class finds a match, `html.unescape` is the identity on the text, and `tokenize_inner` returns
    `[RawText(text)]` — backslashes included. -/
theorem C14_inline_inert4 (types : List STok) (s : Str)
    (ht : ∀ t ∈ types, inertClass t = true) (h : inertText4 s = true) :
    findAll s types [] = .ok [] ∧ Unescape.unescape true s = s ∧
      (s ≠ [] → tokenizeInner types [] s = .ok [.rawText s]) := by
  simp only [inertText4, Bool.and_eq_true, Bool.not_eq_eq_eq_not, Bool.not_true, List.contains_eq_mem,
    decide_eq_false_iff_not] at h
  exact inline_inert4 types s ht h.1 h.2

/-- **Several lines** (the analogue of `C14_inline_lines3`): only raw text and soft line breaks -/
theorem C14_inline_lines4 (types : List STok) (ts : List Str)
    (ht : ∀ t ∈ types, inertClass t = true) (hc : types.count .lineBreak = 1) (hne : ts ≠ [])
    (hl : ∀ t ∈ ts, t ≠ [] ∧ '\n' ∉ t ∧ t.getLast? ≠ some ' ')
    (hb : inertBody4 (Document.joinNl ts) = true) :
    tokenizeInner types [] (Document.joinNl ts) = .ok (proseInlines ts) :=
  tokenizeInner_lines4 types ts ht hc hne (fun t htm => ⟨(hl t htm).1, (hl t htm).2.1, (hl t htm).2.2⟩) hb

theorem C14_prose4 (cfg : Document.Cfg) (hpar : .paragraph ∈ cfg.block.types)
    (ht : ∀ t ∈ cfg.span, inertClass t = true) (hc : cfg.span.count .lineBreak = 1)
    (ls : List Str) (hne : ls ≠ []) (hl : ∀ l ∈ ls, inertLine l = true ∧ proseLine l = true)
    (hi : inertBody4 (Document.joinNl (ls.map strip)) = true) (gas : Nat) :
    Document.parseLines cfg (gas + (cfg.block.types.length + 4)) ls =
        .ok { kids := [.paragraph (proseInlines (ls.map strip)) 1], footnotes := [] } ∧
    ∀ o : Opts, render o { kids := [.paragraph (proseInlines (ls.map strip)) 1], footnotes := [] } =
        "<p>".toList ++ escapeHtmlText o.dq o.sq (Document.joinNl (ls.map strip)) ++ "</p>\n".toList := by
  constructor
  · unfold Document.parseLines
    rw [C14_block_phase cfg.block hpar ls hne (fun s hs => (hl s hs).1) gas]
    simp only
    have e : Document.footnotesOf [] = [] := rfl
    rw [e, mkBlocks_prose4 cfg ls 1 1 ht hc hne (fun s hs => (hl s hs).2) hi]
  · intro o
    exact render_prose o (ls.map strip) 1 []

/-- **`C14_prose_text3` with `inertBody4`** (a `\` allowed before a character that is neither ASCII
    punctuation nor "\n"): `Document(text)` for the text `l₁ ++ … ++ lₙ` of "\n"-terminated, block-inert
    prose lines whose stripped lines joined by "\n" satisfy `inertBody4` is one `Paragraph` holding the
    lines as `RawText`s separated by soft `LineBreak`s, and the HTML renderer gives `<p>`, the
    HTML-escaped text (in which every backslash stands unchanged), `</p>` and a newline. -/
theorem C14_prose_text4 (cfg : Document.Cfg) (hpar : .paragraph ∈ cfg.block.types)
    (ht : ∀ t ∈ cfg.span, inertClass t = true) (hc : cfg.span.count .lineBreak = 1)
    (ls : List Str) (hne : ls ≠ []) (h1 : ∀ l ∈ ls, oneLine l = true)
    (hl : ∀ l ∈ ls, inertLine l = true ∧ proseLine l = true)
    (hi : inertBody4 (Document.joinNl (ls.map strip)) = true) (gas : Nat) :
    Document.parse cfg (gas + (cfg.block.types.length + 4)) ls.flatten =
        .ok { kids := [.paragraph (proseInlines (ls.map strip)) 1], footnotes := [] } ∧
    ∀ o : Opts, render o { kids := [.paragraph (proseInlines (ls.map strip)) 1], footnotes := [] } =
        "<p>".toList ++ escapeHtmlText o.dq o.sq (Document.joinNl (ls.map strip)) ++ "</p>\n".toList := by
  rw [parse_lines cfg _ ls h1]
  exact C14_prose4 cfg hpar ht hc ls hne hl hi gas

/-- the HTML escaping leaves a backslash alone -/
theorem escapeHtmlText_backslash (dq sq : Bool) : escapeHtmlText dq sq ['\\'] = ['\\'] := by
  cases dq <;> cases sq <;> decide +kernel

/-! ### Non-vacuity -/

/-- accepted by `inertBody4`, rejected by `inertBody3`: literal backslashes (before a letter, a digit,
    a space, a non-ASCII character, a tab) -/
example : [L "C:\\dir and a \\ b", L "\\a \\1 \\é", L "a\\\tb \\日", L "*a\\ *b and [x\\y] z"].map
    (fun s => (inertBody4 s, inertBody3 s)) = List.replicate 4 (true, false) := by decide +kernel

/-- rejected: backslash escapes (`\*`, `\\`, `` \` ``, `\<`, `\]`, `\&`), a backslash before a newline
    (hard line break), a backslash at the end of the text; and what `inertBody3` rejects for another
    reason stays rejected (`*\a*` is emphasis around a literal backslash) -/
example : [L "a\\*b", L "x\\\ny", L "\\\\", L "a\\", L "\\`x", L "\\<a>", L "[a\\](b)", L "\\&amp;", L "\\", L "*\\a*",
    L "[a](b\\c)", L "`\\a`"].map inertBody4 = List.replicate 12 false := by decide +kernel

example : htmlOf (L "C:\\dir and a \\ b\n") = .ok (L "<p>C:\\dir and a \\ b</p>\n") := by decide +kernel
example : htmlOf (L "\\a \\1 \\é\n") = .ok (L "<p>\\a \\1 \\é</p>\n") := by decide +kernel
example : htmlOf (L "*a\\ *b and [x\\y] z\n") = .ok (L "<p>*a\\ *b and [x\\y] z</p>\n") := by decide +kernel
/-- … whereas these are markup -/
example : htmlOf (L "a\\*b\n") = .ok (L "<p>a*b</p>\n") := by decide +kernel
example : htmlOf (L "x\\\ny\n") = .ok (L "<p>x<br />\ny</p>\n") := by decide +kernel
example : htmlOf (L "\\\\\n") = .ok (L "<p>\\</p>\n") := by decide +kernel
example : htmlOf (L "*\\a*\n") = .ok (L "<p><em>\\a</em></p>\n") := by decide +kernel

/-- through the theorem: one `RawText` holding exactly the text -/
example : tokenizeInner htmlSpanTypes [] (L "C:\\dir and a \\ b") = .ok [.rawText (L "C:\\dir and a \\ b")] :=
  (C14_inline_inert4 htmlSpanTypes _ htmlSpanTypes_inert (by decide +kernel)).2.2 (by decide)
example : tokenizeInner htmlSpanTypes [] (L "\\a \\1 \\é") = .ok [.rawText (L "\\a \\1 \\é")] :=
  (C14_inline_inert4 htmlSpanTypes _ htmlSpanTypes_inert (by decide +kernel)).2.2 (by decide)

def prose4 : List Str := [L "  C:\\dir and a \\ b\n", L "\\a \\1 \\é [x\\y] 2* 3*\n", L "end\\ of it\n"]

theorem prose4_lines_ok : ∀ l ∈ prose4, inertLine l = true ∧ proseLine l = true := by decide +kernel
theorem prose4_text_ok : inertBody4 (Document.joinNl (prose4.map strip)) = true := by decide +kernel
example : inertBody3 (Document.joinNl (prose4.map strip)) = false := by decide +kernel

/-- instance of `C14_prose_text4` (the right-hand sides are literal) -/
example : Document.parse cfgHtml 14 (L "  C:\\dir and a \\ b\n\\a \\1 \\é [x\\y] 2* 3*\nend\\ of it\n") =
    .ok { kids := [.paragraph [.rawText (L "C:\\dir and a \\ b"), .lineBreak [] true,
                               .rawText (L "\\a \\1 \\é [x\\y] 2* 3*"), .lineBreak [] true,
                               .rawText (L "end\\ of it")] 1], footnotes := [] } :=
  (C14_prose_text4 cfgHtml (by decide) htmlSpanTypes_inert (by decide) prose4 (by decide) (by decide +kernel)
    prose4_lines_ok prose4_text_ok 0).1

example : ∃ d, Document.parse cfgHtml 14 prose4.flatten = .ok d ∧ render {} d =
    L "<p>C:\\dir and a \\ b\n\\a \\1 \\é [x\\y] 2* 3*\nend\\ of it</p>\n" := by
  obtain ⟨h1, h2⟩ := C14_prose_text4 cfgHtml (by decide) htmlSpanTypes_inert (by decide) prose4 (by decide)
    (by decide +kernel) prose4_lines_ok prose4_text_ok 0
  exact ⟨_, h1, by rw [h2]; decide +kernel⟩

end Mistletoe.Props.C14
